/-
  openflow13/action.go and openflow13/nx_action.go

  Value layouts (fields positionally; an embedded struct / embedded pointer is ONE field):
    ActionHeader(Type,Length)
    ActionOutput(ActionHeader,Port,MaxLen,pad)        ActionSetqueue(ActionHeader,QueueId)   ActionGroup(ActionHeader,GroupId)
    ActionMplsTtl(ActionHeader,MplsTtl,pad)           ActionNwTtl(ActionHeader,NwTtl,pad)    ActionDecNwTtl(ActionHeader,pad)
    ActionPush(ActionHeader,EtherType,pad)            ActionPopVlan(ActionHeader,pad)        ActionPopMpls(ActionHeader,EtherType,pad)
    ActionSetField(ActionHeader,Field)                -- Field is a MatchField VALUE
    NXActionHeader(*ActionHeader,Vendor,Subtype)      -- the embedded pointer is `.nil` in new(NXActionHeader)
    NXActionConjunction(*NXActionHeader,Clause,NClause,ID)
    NXActionConnTrack(*NXActionHeader,Flags,ZoneSrc,ZoneOfsNbits,RecircTable,pad,Alg,actions)
    NXActionRegLoad(*NXActionHeader,OfsNbits,DstReg,Value)
    NXActionRegMove(*NXActionHeader,Nbits,SrcOfs,DstOfs,SrcField,DstField)
    NXActionResubmit(*NXActionHeader,InPort,TableID,pad[3])
    NXActionResubmitTable(*NXActionHeader,InPort,TableID,pad[3],withCT)
    NXActionCTNAT(*NXActionHeader,pad,Flags,rangePresent,v4min,v4max,v6min,v6max,protoMin,protoMax)
    NXActionOutputReg(*NXActionHeader,OfsNbits,SrcField,MaxLen,zero[6])
    NXActionCTClear(*NXActionHeader,zeros[4])         NXActionDecTTL(*NXActionHeader,controllers,zeros[4])
    NXActionDecTTLCntIDs(*NXActionHeader,controllers,zeros[4],cntIDs)
    NXLearnSpecHeader(src,dst,output,nBits,length)    NXLearnSpecField(Field,Ofs)   NXLearnSpec(Header,SrcField,DstField,SrcValue)
    NXActionLearn(*NXActionHeader,IdleTimeout,HardTimeout,Priority,Cookie,Flags,TableID,pad,FinIdleTimeout,FinHardTimeout,LearnSpecs,pad2)
    NXActionNote(*NXActionHeader,Note)                NXActionRegLoad2(*NXActionHeader,DstField,pad)
    NXActionController(*NXActionHeader,MaxLen,ControllerID,Reason,pad)

  `a.Length` / `a.Type` on an NX action goes through two pointers (a.NXActionHeader.ActionHeader.Length): either one
  being nil is a nil dereference (`.panic`).  `a.NXActionHeader.Len()` does not dereference and returns 10 even on nil.
-/
import OFV.Model.OF.Match
import OFV.Gen.Pure
namespace OFV.Model
open OFV OFV.Go

/-- `err := f(...)` whose error is kept in a variable while the code carries on: value (or the default when it
    failed) and the error flag -/
def tryE {α} (r : R α) (dflt : α) : R (α × Bool) :=
  match r with
  | .ok a => .ok (a, false)
  | .err => .ok (dflt, true)
  | .panic => .panic
  | .spin => .spin

/-- `f.MarshalHeader()` through a `*MatchField` (nil pointer ⇒ dereference panic) -/
def mfHeader : V → R Nat
  | .nil => .panic
  | f => .ok (MatchField.headerWord f).toNat

/-- new(MatchField) -/
def mfZero : V := .obj "MatchField" [.num 0, .num 0, .num 0, .num 0, .num 0, .nil, .nil]

namespace ActionHeader
def zero : V := .obj "ActionHeader" [.num 0, .num 0]
def mk (ty ln : Nat) : V := .obj "ActionHeader" [.num ty, .num ln]
def lenM (v : V) : R (UInt16 × V) := same 4 v
def bytes : V → R Bytes
  | .obj "ActionHeader" [.num ty, .num ln] => .ok (be16 (n16 ty) ++ be16 (n16 ln))
  | _ => .panic      -- nil *ActionHeader: a.Type dereferences
def marshalM (v : V) : R (Bytes × V) := do let b ← bytes v; same b v
def unmarshal (_recv : V) (data : Slice) : R V :=
  if data.len < 4 then .err else do
    let ty ← data.u16In 0 2
    let ln ← data.u16In 2 4
    pure (mk ty.toNat ln.toNat)
/-- `a.Length` through a possibly nil pointer -/
def length : V → R UInt16
  | .obj "ActionHeader" [_, .num ln] => .ok (n16 ln)
  | _ => .panic
def setLength (l : UInt16) : V → R V
  | .obj "ActionHeader" [t, _] => .ok (.obj "ActionHeader" [t, V.u16 l])
  | _ => .panic
def setType (t : Nat) : V → R V
  | .obj "ActionHeader" [_, l] => .ok (.obj "ActionHeader" [.num t, l])
  | _ => .panic
end ActionHeader

/-! ActionMplsTtl and ActionNwTtl: header (4) + ttl (1) + 3 bytes of padding -/
namespace ActionMplsTtl
def zero : V := .obj "ActionMplsTtl" [ActionHeader.zero, .num 0, .bytes []]
def lenM (v : V) : R (UInt16 × V) := same 8 v
def marshalM : V → R (Bytes × V)
  | .obj "ActionMplsTtl" [h, .num t, p] => do
    let hb ← ActionHeader.bytes h
    same (hb ++ [n8 t, 0, 0, 0]) (.obj "ActionMplsTtl" [h, .num t, p])
  | _ => .panic
def unmarshal : V → Slice → R V
  | .obj "ActionMplsTtl" [h, _, p], data =>
    if data.len < 8 then .err else do
      let d4 ← data.uptoR 4
      let h' ← ActionHeader.unmarshal h d4
      let t ← data.byteAt 4
      pure (.obj "ActionMplsTtl" [h', V.u8 t, p])
  | _, _ => .panic
/-- NewActionMplsTtl(ttl) -/
def new (t : Nat) : V := .obj "ActionMplsTtl" [ActionHeader.mk Gen.openflow13.ActionType_SetMplsTtl 8, V.u8 (n8 t), .bytes []]
end ActionMplsTtl

namespace ActionNwTtl
def zero : V := .obj "ActionNwTtl" [ActionHeader.zero, .num 0, .bytes []]
def lenM (v : V) : R (UInt16 × V) := same 8 v
def marshalM : V → R (Bytes × V)
  | .obj "ActionNwTtl" [h, .num t, p] => do
    let hb ← ActionHeader.bytes h
    same (hb ++ [n8 t, 0, 0, 0]) (.obj "ActionNwTtl" [h, .num t, p])
  | _ => .panic
def unmarshal : V → Slice → R V
  | .obj "ActionNwTtl" [h, _, p], data =>
    if data.len < 8 then .err else do
      let d4 ← data.uptoR 4
      let h' ← ActionHeader.unmarshal h d4
      let t ← data.byteAt 4
      pure (.obj "ActionNwTtl" [h', V.u8 t, p])
  | _, _ => .panic
/-- NewActionNwTtl(ttl) -/
def new (t : Nat) : V := .obj "ActionNwTtl" [ActionHeader.mk Gen.openflow13.ActionType_SetNwTtl 8, V.u8 (n8 t), .bytes []]
end ActionNwTtl

namespace ActionOutput
def zero : V := .obj "ActionOutput" [ActionHeader.zero, .num 0, .num 0, .bytes []]
def lenM (v : V) : R (UInt16 × V) := same 16 v
def marshalM : V → R (Bytes × V)
  | .obj "ActionOutput" [h, .num port, .num ml, .bytes pad] => do
    let hb ← ActionHeader.bytes h
    let bs ← fill 16 [pCopy hb, pU32 port, pU16 ml, pCopy pad]
    same bs (.obj "ActionOutput" [h, .num port, .num ml, .bytes pad])
  | _ => .panic
def unmarshal : V → Slice → R V
  | .obj "ActionOutput" [h, _, _, .bytes pad], data =>
    if data.len < 16 then .err else do
      let d0 ← data.fromR 0
      let h' ← ActionHeader.unmarshal h d0        -- cannot fail: len ≥ 16
      let port ← data.u32From 4
      let ml ← data.u16From 8
      let s ← data.sliceR 10 16
      pure (.obj "ActionOutput" [h', V.u32 port, V.u16 ml, .bytes (copyInto pad s.bytes)])
  | _, _ => .panic
/-- NewActionOutput(portNum) -/
def new (port : Nat) : V :=
  .obj "ActionOutput" [ActionHeader.mk Gen.openflow13.ActionType_Output 16, V.u32 (n32 port), .num 256, .bytes (zeros 6)]
end ActionOutput

namespace ActionSetqueue
def zero : V := .obj "ActionSetqueue" [ActionHeader.zero, .num 0]
def lenM (v : V) : R (UInt16 × V) := same 8 v
def marshalM : V → R (Bytes × V)
  | .obj "ActionSetqueue" [h, .num q] => do
    let hb ← ActionHeader.bytes h
    same (hb ++ be32 (n32 q)) (.obj "ActionSetqueue" [h, .num q])
  | _ => .panic
def unmarshal : V → Slice → R V
  | .obj "ActionSetqueue" [h, _], data =>
    if data.len < 8 then .err else do
      let d4 ← data.uptoR 4
      let (h', _) ← tryE (ActionHeader.unmarshal h d4) h     -- error ignored (cannot fail)
      let q ← data.u32In 4 8
      pure (.obj "ActionSetqueue" [h', V.u32 q])
  | _, _ => .panic
def new (q : Nat) : V := .obj "ActionSetqueue" [ActionHeader.mk Gen.openflow13.ActionType_SetQueue 8, V.u32 (n32 q)]
end ActionSetqueue

namespace ActionGroup
def zero : V := .obj "ActionGroup" [ActionHeader.zero, .num 0]
def lenM (v : V) : R (UInt16 × V) := same 8 v
def marshalM : V → R (Bytes × V)
  | .obj "ActionGroup" [h, .num g] => do
    let hb ← ActionHeader.bytes h
    let bs ← fill 8 [pCopy hb, pU32 g]
    same bs (.obj "ActionGroup" [h, .num g])
  | _ => .panic
def unmarshal : V → Slice → R V
  | .obj "ActionGroup" [h, _], data =>
    if data.len < 8 then .err else do
      let d0 ← data.fromR 0
      let h' ← ActionHeader.unmarshal h d0
      let g ← data.u32From 4
      pure (.obj "ActionGroup" [h', V.u32 g])
  | _, _ => .panic
def new (g : Nat) : V := .obj "ActionGroup" [ActionHeader.mk Gen.openflow13.ActionType_Group 8, V.u32 (n32 g)]
end ActionGroup

namespace ActionDecNwTtl
def zero : V := .obj "ActionDecNwTtl" [ActionHeader.zero, .bytes []]
def lenM (v : V) : R (UInt16 × V) := same 8 v
def marshalM : V → R (Bytes × V)
  | .obj "ActionDecNwTtl" [h, p] => do
    let hb ← ActionHeader.bytes h
    same (hb ++ zeros 4) (.obj "ActionDecNwTtl" [h, p])
  | _ => .panic
/-- `return a.ActionHeader.UnmarshalBinary(data[:4])` — no length check, the re-slice reaches up to cap -/
def unmarshal : V → Slice → R V
  | .obj "ActionDecNwTtl" [h, p], data => do
    let d4 ← data.uptoR 4
    let h' ← ActionHeader.unmarshal h d4
    pure (.obj "ActionDecNwTtl" [h', p])
  | _, _ => .panic
def new : V := .obj "ActionDecNwTtl" [ActionHeader.mk Gen.openflow13.ActionType_DecNwTtl 8, .bytes (zeros 4)]
end ActionDecNwTtl

namespace ActionPush
def zero : V := .obj "ActionPush" [ActionHeader.zero, .num 0, .bytes []]
def lenM (v : V) : R (UInt16 × V) := same 8 v
def marshalM : V → R (Bytes × V)
  | .obj "ActionPush" [h, .num et, p] => do
    let hb ← ActionHeader.bytes h
    same (hb ++ be16 (n16 et) ++ zeros 2) (.obj "ActionPush" [h, .num et, p])
  | _ => .panic
def unmarshal : V → Slice → R V
  | .obj "ActionPush" [h, _, p], data => do
    let d4 ← data.uptoR 4
    let (h', _) ← tryE (ActionHeader.unmarshal h d4) h
    let et ← data.u16From 4
    pure (.obj "ActionPush" [h', V.u16 et, p])
  | _, _ => .panic
def new (ty et : Nat) : V := .obj "ActionPush" [ActionHeader.mk ty 8, V.u16 (n16 et), .bytes []]
end ActionPush

namespace ActionPopVlan
def zero : V := .obj "ActionPopVlan" [ActionHeader.zero, .bytes []]
def lenM (v : V) : R (UInt16 × V) := same 8 v
def marshalM : V → R (Bytes × V)
  | .obj "ActionPopVlan" [h, p] => do
    let hb ← ActionHeader.bytes h
    same (hb ++ zeros 4) (.obj "ActionPopVlan" [h, p])
  | _ => .panic
def unmarshal : V → Slice → R V
  | .obj "ActionPopVlan" [h, p], data => do
    let d4 ← data.uptoR 4
    let (h', _) ← tryE (ActionHeader.unmarshal h d4) h
    pure (.obj "ActionPopVlan" [h', p])
  | _, _ => .panic
def new : V := .obj "ActionPopVlan" [ActionHeader.mk Gen.openflow13.ActionType_PopVlan 8, .bytes []]
end ActionPopVlan

namespace ActionPopMpls
def zero : V := .obj "ActionPopMpls" [ActionHeader.zero, .num 0, .bytes []]
def lenM (v : V) : R (UInt16 × V) := same 8 v
def marshalM : V → R (Bytes × V)
  | .obj "ActionPopMpls" [h, .num et, p] => do
    let hb ← ActionHeader.bytes h
    same (hb ++ be16 (n16 et) ++ zeros 2) (.obj "ActionPopMpls" [h, .num et, p])
  | _ => .panic
def unmarshal : V → Slice → R V
  | .obj "ActionPopMpls" [h, _, p], data => do
    let d4 ← data.uptoR 4
    let (h', _) ← tryE (ActionHeader.unmarshal h d4) h
    let et ← data.u16From 4
    pure (.obj "ActionPopMpls" [h', V.u16 et, p])
  | _, _ => .panic
def new (et : Nat) : V :=
  .obj "ActionPopMpls" [ActionHeader.mk Gen.openflow13.ActionType_PopMpls 8, V.u16 (n16 et), .bytes []]
end ActionPopMpls

namespace ActionSetField
def zero : V := .obj "ActionSetField" [ActionHeader.zero, mfZero]
def lenM : V → R (UInt16 × V)
  | .obj "ActionSetField" [h, f] => do
    let (fl, f') ← MatchField.lenM f
    .ok (round8 (4 + fl), .obj "ActionSetField" [h, f'])
  | _ => .panic
def marshalM (v : V) : R (Bytes × V) := do
  let (l, v) ← lenM v
  match v with
  | .obj "ActionSetField" [h, f] =>
    let hb ← ActionHeader.bytes h
    let (fb, f') ← MatchField.marshalM f
    let bs ← fill l.toNat [pCopyAdv hb 4, pCopy fb]
    .ok (bs, .obj "ActionSetField" [h, f'])
  | _ => .panic
/-- The header error (len < 4) is overwritten; `data[4:]` then panics.  After `err = a.Field.UnmarshalBinary(..)`
    the code still evaluates `a.Field.Len()`: when the field decoder failed, Value (or Mask) is a nil interface
    (the receiver's Field is the zero MatchField for every receiver the library or the harness creates) and that
    call panics — a decode error of the field surfaces as a panic. -/
def unmarshal : V → Slice → R V
  | .obj "ActionSetField" [h, f], data => do
    let d0 ← data.fromR 0
    let (h', _) ← tryE (ActionHeader.unmarshal h d0) h
    let d4 ← data.fromR 4
    match MatchField.unmarshal f d4 with
    | .ok f' => do
      let (_, f'') ← MatchField.lenM f'
      pure (.obj "ActionSetField" [h', f''])
    | .err => .panic
    | .panic => .panic
    | .spin => .spin
  | _, _ => .panic
/-- NewActionSetField(field): a.Length = a.Len() -/
def new (f : V) : R V := do
  let v := V.obj "ActionSetField" [ActionHeader.mk Gen.openflow13.ActionType_SetField 0, f]
  let (l, v) ← lenM v
  match v with
  | .obj "ActionSetField" [h, f] => do
    let h' ← ActionHeader.setLength l h
    pure (.obj "ActionSetField" [h', f])
  | _ => .panic
end ActionSetField


namespace NXActionHeader
/-- new(NXActionHeader): the embedded *ActionHeader is nil -/
def zero : V := .obj "NXActionHeader" [.nil, .num 0, .num 0]
/-- NewNxActionHeader(subtype) with the Length the constructors store right afterwards -/
def newL (subtype ln : Nat) : V :=
  .obj "NXActionHeader" [ActionHeader.mk Gen.openflow13.ActionType_Experimenter ln,
    .num Gen.openflow13.NxExperimenterID, V.u16 (n16 subtype)]
def new (subtype : Nat) : V := newL subtype Gen.openflow13.NxActionHeaderLength
def lenM (v : V) : R (UInt16 × V) := same (n16 Gen.openflow13.NxActionHeaderLength) v
def bytes : V → R Bytes
  | .obj "NXActionHeader" [ah, .num vendor, .num sub] => do
    let hb ← ActionHeader.bytes ah
    fill Gen.openflow13.NxActionHeaderLength [pCopy hb, pU32 vendor, pU16 sub]
  | _ => .panic     -- nil *NXActionHeader
def marshalM (v : V) : R (Bytes × V) := do let b ← bytes v; same b v
def unmarshal (_recv : V) (data : Slice) : R V :=
  if data.len < Gen.openflow13.NxActionHeaderLength then .err else do
    let d4 ← data.uptoR 4
    let ah ← ActionHeader.unmarshal ActionHeader.zero d4     -- cannot fail (4 bytes)
    let vendor ← data.u32From 4
    let sub ← data.u16From 8
    pure (.obj "NXActionHeader" [ah, V.u32 vendor, V.u16 sub])
/-- `a.NXActionHeader = new(NXActionHeader); err := a.NXActionHeader.UnmarshalBinary(data[0:])` -/
def fresh (data : Slice) : R (V × Bool) := tryE (unmarshal zero data) zero
/-- `a.Length` of the embedding action -/
def length : V → R UInt16
  | .obj "NXActionHeader" [ah, _, _] => ActionHeader.length ah
  | _ => .panic
def setLength (l : UInt16) : V → R V
  | .obj "NXActionHeader" [ah, a, b] => do
    let ah' ← ActionHeader.setLength l ah
    pure (.obj "NXActionHeader" [ah', a, b])
  | _ => .panic
def setType (t : Nat) : V → R V
  | .obj "NXActionHeader" [ah, a, b] => do
    let ah' ← ActionHeader.setType t ah
    pure (.obj "NXActionHeader" [ah', a, b])
  | _ => .panic
end NXActionHeader

/-- common decoder prefix of most NX actions:
      a.NXActionHeader = new(NXActionHeader); err := a.NXActionHeader.UnmarshalBinary(data[n:]); n += 10
      if len(data) < int(a.Length) { return error }
    When the header decoder failed (len(data) < 10) the fresh header still has a nil *ActionHeader and `a.Length`
    panics; so wherever the code gets past this point `err` is nil and the final `return err` returns nil. -/
def nxPrefix (data : Slice) : R V := do
  let (h, _) ← NXActionHeader.fresh data
  let l ← NXActionHeader.length h
  if data.len < l.toNat then .err else pure h

namespace NXActionConjunction
def zero : V := .obj "NXActionConjunction" [.nil, .num 0, .num 0, .num 0]
def lenM : V → R (UInt16 × V)
  | .obj "NXActionConjunction" (h :: r) => do let l ← NXActionHeader.length h; same l (.obj "NXActionConjunction" (h :: r))
  | _ => .panic
def marshalM : V → R (Bytes × V)
  | .obj "NXActionConjunction" [h, .num c, .num nc, .num id] => do
    let l ← NXActionHeader.length h
    let hb ← NXActionHeader.bytes h
    let bs ← fill l.toNat [pCopy hb, pU8 c, pU8 nc, pU32 id]
    same bs (.obj "NXActionConjunction" [h, .num c, .num nc, .num id])
  | _ => .panic
def unmarshal (_recv : V) (data : Slice) : R V := do
  let h ← nxPrefix data
  let c ← data.byteAt 10
  let nc ← data.byteAt 11
  let id ← data.u32From 12
  pure (.obj "NXActionConjunction" [h, V.u8 c, V.u8 nc, V.u32 id])
def new (c nc id : Nat) : V :=
  .obj "NXActionConjunction" [NXActionHeader.newL Gen.openflow13.NXAST_CONJUNCTION 16, V.u8 (n8 c), V.u8 (n8 nc), V.u32 (n32 id)]
end NXActionConjunction

namespace NXActionRegLoad
def zero : V := .obj "NXActionRegLoad" [.nil, .num 0, .nil, .num 0]
def lenM : V → R (UInt16 × V)
  | .obj "NXActionRegLoad" (h :: r) => do let l ← NXActionHeader.length h; same l (.obj "NXActionRegLoad" (h :: r))
  | _ => .panic
def marshalM : V → R (Bytes × V)
  | .obj "NXActionRegLoad" [h, .num ofs, dst, .num val] => do
    let l ← NXActionHeader.length h
    let hb ← NXActionHeader.bytes h
    let hw ← mfHeader dst
    let bs ← fill l.toNat [pCopy hb, pU16 ofs, pU32 hw, pU64 val]
    same bs (.obj "NXActionRegLoad" [h, .num ofs, dst, .num val])
  | _ => .panic
def unmarshal (_recv : V) (data : Slice) : R V := do
  let h ← nxPrefix data
  let ofs ← data.u16From 10
  let s ← data.sliceR 12 16
  -- a.DstReg = new(MatchField); err = a.DstReg.UnmarshalHeader(data[n:n+4])   (4 bytes: cannot fail)
  let (dst, e) ← tryE (MatchField.unmarshalHeader mfZero s) mfZero
  let val ← data.u64From 16
  if e then .err else pure (.obj "NXActionRegLoad" [h, V.u16 ofs, dst, V.u64 val])
def new (ofs : Nat) (dst : V) (val : Nat) : V :=
  .obj "NXActionRegLoad" [NXActionHeader.newL Gen.openflow13.NXAST_REG_LOAD 24, V.u16 (n16 ofs), dst, V.u64 (n64 val)]
end NXActionRegLoad

namespace NXActionRegMove
def zero : V := .obj "NXActionRegMove" [.nil, .num 0, .num 0, .num 0, .nil, .nil]
def lenM : V → R (UInt16 × V)
  | .obj "NXActionRegMove" (h :: r) => do let l ← NXActionHeader.length h; same l (.obj "NXActionRegMove" (h :: r))
  | _ => .panic
def marshalM : V → R (Bytes × V)
  | .obj "NXActionRegMove" [h, .num nb, .num so, .num dso, sf, df] => do
    let l ← NXActionHeader.length h
    let hb ← NXActionHeader.bytes h
    let shw ← mfHeader sf
    let dhw ← mfHeader df
    let bs ← fill l.toNat [pCopy hb, pU16 nb, pU16 so, pU16 dso, pU32 shw, pU32 dhw]
    same bs (.obj "NXActionRegMove" [h, .num nb, .num so, .num dso, sf, df])
  | _ => .panic
def unmarshal (_recv : V) (data : Slice) : R V := do
  let h ← nxPrefix data
  let nb ← data.u16From 10
  let so ← data.u16From 12
  let dso ← data.u16From 14
  let d16 ← data.fromR 16
  -- err = a.SrcField.UnmarshalHeader(data[16:])  — this error is overwritten by the next assignment
  let (sf, _) ← tryE (MatchField.unmarshalHeader mfZero d16) mfZero
  let d20 ← data.fromR 20
  let df ← MatchField.unmarshalHeader mfZero d20
  pure (.obj "NXActionRegMove" [h, V.u16 nb, V.u16 so, V.u16 dso, sf, df])
def new (nb so dso : Nat) (sf df : V) : V :=
  .obj "NXActionRegMove" [NXActionHeader.newL Gen.openflow13.NXAST_REG_MOVE 24, V.u16 (n16 nb), V.u16 (n16 so), V.u16 (n16 dso), sf, df]
end NXActionRegMove

namespace NXActionResubmit
def zero : V := .obj "NXActionResubmit" [.nil, .num 0, .num 0, .bytes (zeros 3)]
def lenM : V → R (UInt16 × V)
  | .obj "NXActionResubmit" (h :: r) => do let l ← NXActionHeader.length h; same l (.obj "NXActionResubmit" (h :: r))
  | _ => .panic
/-- writes in_port only; stores `a.TableID = OFPTT_ALL` in the RECEIVER instead of the buffer -/
def marshalM : V → R (Bytes × V)
  | .obj "NXActionResubmit" [h, .num ip, _, pad] => do
    let l ← NXActionHeader.length h
    let hb ← NXActionHeader.bytes h
    let bs ← fill l.toNat [pCopy hb, pU16 ip]
    .ok (bs, .obj "NXActionResubmit" [h, .num ip, .num Gen.openflow13.OFPTT_ALL, pad])
  | _ => .panic
def unmarshal : V → Slice → R V
  | .obj "NXActionResubmit" [_, _, t, pad], data => do
    let h ← nxPrefix data
    let ip ← data.u16From 10
    let _ := t
    pure (.obj "NXActionResubmit" [h, V.u16 ip, .num Gen.openflow13.OFPTT_ALL, pad])
  | _, _ => .panic
/-- NewNXActionResubmit: `a.Type = Type_Experimenter` (the MESSAGE type constant 4) overwrites the action type 0xffff -/
def new (ip : Nat) : R V := do
  let h := NXActionHeader.newL Gen.openflow13.NXAST_RESUBMIT 16
  pure (.obj "NXActionResubmit" [h, V.u16 (n16 ip), .num Gen.openflow13.OFPTT_ALL, .bytes (zeros 3)])
end NXActionResubmit

namespace NXActionResubmitTable
def zero : V := .obj "NXActionResubmitTable" [.nil, .num 0, .num 0, .bytes (zeros 3), .num 0]
def zeroCT : V := .obj "NXActionResubmitTable" [.nil, .num 0, .num 0, .bytes (zeros 3), .num 1]
def lenM : V → R (UInt16 × V)
  | .obj "NXActionResubmitTable" (h :: r) => do let l ← NXActionHeader.length h; same l (.obj "NXActionResubmitTable" (h :: r))
  | _ => .panic
def marshalM : V → R (Bytes × V)
  | .obj "NXActionResubmitTable" [h, .num ip, .num t, pad, ct] => do
    let l ← NXActionHeader.length h
    let hb ← NXActionHeader.bytes h
    let bs ← fill l.toNat [pCopy hb, pU16 ip, pU8 t]
    same bs (.obj "NXActionResubmitTable" [h, .num ip, .num t, pad, ct])
  | _ => .panic
def unmarshal : V → Slice → R V
  | .obj "NXActionResubmitTable" [_, _, _, pad, ct], data => do
    let h ← nxPrefix data
    let ip ← data.u16From 10
    let t ← data.byteAt 12
    pure (.obj "NXActionResubmitTable" [h, V.u16 ip, V.u8 t, pad, ct])
  | _, _ => .panic
def new (subtype ip t ct : Nat) : V :=
  .obj "NXActionResubmitTable" [NXActionHeader.newL subtype 16, V.u16 (n16 ip), V.u8 (n8 t), .bytes (zeros 3), .num ct]
end NXActionResubmitTable

namespace NXActionOutputReg
def zero : V := .obj "NXActionOutputReg" [.nil, .num 0, .nil, .num 0, .bytes (zeros 6)]
def lenM : V → R (UInt16 × V)
  | .obj "NXActionOutputReg" (h :: r) => do let l ← NXActionHeader.length h; same l (.obj "NXActionOutputReg" (h :: r))
  | _ => .panic
def marshalM : V → R (Bytes × V)
  | .obj "NXActionOutputReg" [h, .num ofs, sf, .num ml, .bytes z] => do
    let l ← NXActionHeader.length h
    let hb ← NXActionHeader.bytes h
    let hw ← mfHeader sf
    let bs ← fill l.toNat [pCopy hb, pU16 ofs, pU32 hw, pU16 ml, pCopyAdv z 6]
    same bs (.obj "NXActionOutputReg" [h, .num ofs, sf, .num ml, .bytes z])
  | _ => .panic
def unmarshal : V → Slice → R V
  | .obj "NXActionOutputReg" [_, _, _, _, z], data => do
    let h ← nxPrefix data
    let ofs ← data.u16From 10
    let s ← data.sliceR 12 16
    let (sf, e) ← tryE (MatchField.unmarshalHeader mfZero s) mfZero
    let ml ← data.u16From 16
    if e then .err else pure (.obj "NXActionOutputReg" [h, V.u16 ofs, sf, V.u16 ml, z])
  | _, _ => .panic
def new (sf : V) (ofs ml : Nat) : V :=
  .obj "NXActionOutputReg" [NXActionHeader.newL Gen.openflow13.NXAST_OUTPUT_REG 24, V.u16 (n16 ofs), sf, V.u16 (n16 ml), .bytes (zeros 6)]
end NXActionOutputReg

namespace NXActionCTClear
def zero : V := .obj "NXActionCTClear" [.nil, .bytes (zeros 4)]
def lenM : V → R (UInt16 × V)
  | .obj "NXActionCTClear" (h :: r) => do let l ← NXActionHeader.length h; same l (.obj "NXActionCTClear" (h :: r))
  | _ => .panic
def marshalM : V → R (Bytes × V)
  | .obj "NXActionCTClear" [h, .bytes z] => do
    let l ← NXActionHeader.length h
    let hb ← NXActionHeader.bytes h
    let bs ← fill l.toNat [pCopy hb, pCopy z]
    same bs (.obj "NXActionCTClear" [h, .bytes z])
  | _ => .panic
def unmarshal (_recv : V) (data : Slice) : R V := do
  let h ← nxPrefix data
  pure (.obj "NXActionCTClear" [h, .bytes (zeros 4)])
def new : V := .obj "NXActionCTClear" [NXActionHeader.newL Gen.openflow13.NXAST_CT_CLEAR 16, .bytes (zeros 4)]
end NXActionCTClear

namespace NXActionDecTTL
def zero : V := .obj "NXActionDecTTL" [.nil, .num 0, .bytes (zeros 4)]
def lenM : V → R (UInt16 × V)
  | .obj "NXActionDecTTL" (h :: r) => do let l ← NXActionHeader.length h; same l (.obj "NXActionDecTTL" (h :: r))
  | _ => .panic
def marshalM : V → R (Bytes × V)
  | .obj "NXActionDecTTL" [h, .num c, .bytes z] => do
    let l ← NXActionHeader.length h
    let hb ← NXActionHeader.bytes h
    let bs ← fill l.toNat [pCopy hb, pU16 c, pCopy z]
    same bs (.obj "NXActionDecTTL" [h, .num c, .bytes z])
  | _ => .panic
def unmarshal (_recv : V) (data : Slice) : R V := do
  let h ← nxPrefix data
  let c ← data.u16From 10
  pure (.obj "NXActionDecTTL" [h, V.u16 c, .bytes (zeros 4)])
def new : V := .obj "NXActionDecTTL" [NXActionHeader.newL Gen.openflow13.NXAST_DEC_TTL 16, .num 0, .bytes (zeros 4)]
end NXActionDecTTL

namespace NXActionDecTTLCntIDs
def zero : V := .obj "NXActionDecTTLCntIDs" [.nil, .num 0, .bytes (zeros 4), .list []]
def lenM : V → R (UInt16 × V)
  | .obj "NXActionDecTTLCntIDs" (h :: r) => do let l ← NXActionHeader.length h; same l (.obj "NXActionDecTTLCntIDs" (h :: r))
  | _ => .panic
def marshalM : V → R (Bytes × V)
  | .obj "NXActionDecTTLCntIDs" [h, .num c, .bytes z, .list ids] => do
    let l ← NXActionHeader.length h
    let hb ← NXActionHeader.bytes h
    let bs ← fill l.toNat ([pCopy hb, pU16 c, pCopyAdv z 4] ++ ids.map (fun i => pU16 i.asNat))
    same bs (.obj "NXActionDecTTLCntIDs" [h, .num c, .bytes z, .list ids])
  | _ => .panic
/-- `for i := 0; i < controllers; i++ { id := Uint16(data[n:]); n += 2 }` — no bound check against the data -/
def readIDs (data : Slice) : Nat → Nat → R (List V)
  | 0, _ => .ok []
  | k + 1, n => do
    let id ← data.u16From n
    let rest ← readIDs data k (n + 2)
    pure (V.u16 id :: rest)
def unmarshal : V → Slice → R V
  | .obj "NXActionDecTTLCntIDs" [_, _, _, .list ids0], data => do
    let h ← nxPrefix data
    let c ← data.u16From 10
    let ids ← readIDs data c.toNat 16
    pure (.obj "NXActionDecTTLCntIDs" [h, V.u16 c, .bytes (zeros 4), .list (ids0 ++ ids)])
  | _, _ => .panic
/-- NewNXActionDecTTLCntIDs(controllers, ids...): Length = 16 + 2*len(ids), NOT rounded up to a multiple of 8 -/
def new (c : Nat) (ids : List V) : V :=
  let l : UInt16 := 8 * ((16 + n16 (2 * ids.length) + 7) / 8)
  .obj "NXActionDecTTLCntIDs" [NXActionHeader.newL Gen.openflow13.NXAST_DEC_TTL_CNT_IDS l.toNat, V.u16 (n16 c), .bytes (zeros 4),
    .list (ids.map (fun i => V.u16 (n16 i.asNat)))]
end NXActionDecTTLCntIDs

namespace NXActionController
def zero : V := .obj "NXActionController" [.nil, .num 0, .num 0, .num 0, .num 0]
def lenM (v : V) : R (UInt16 × V) := same 16 v     -- a.NXActionHeader.Len() + 6, no dereference
def marshalM : V → R (Bytes × V)
  | .obj "NXActionController" [h, .num ml, .num id, .num rs, pad] => do
    let h' ← NXActionHeader.setLength 16 h          -- a.Length = a.Len()
    let hb ← NXActionHeader.bytes h'
    let bs ← fill 16 [pCopy hb, pU16 ml, pU16 id, pU8 rs]
    .ok (bs, .obj "NXActionController" [h', .num ml, .num id, .num rs, pad])
  | _ => .panic
def unmarshal : V → Slice → R V
  | .obj "NXActionController" [_, _, _, _, pad], data => do
    let h ← NXActionHeader.unmarshal NXActionHeader.zero data
    let l ← NXActionHeader.length h
    if data.len < l.toNat then .err else do
      let ml ← data.u16From 10
      let id ← data.u16From 12
      let rs ← data.byteAt 14
      pure (.obj "NXActionController" [h, V.u16 ml, V.u16 id, V.u8 rs, pad])
  | _, _ => .panic
def new (id : Nat) : V :=
  .obj "NXActionController" [NXActionHeader.newL Gen.openflow13.NXAST_CONTROLLER 16, .num 0, V.u16 (n16 id), .num 0, .num 0]
end NXActionController

namespace NXActionNote
def zero : V := .obj "NXActionNote" [.nil, .bytes []]
def lenM : V → R (UInt16 × V)
  | .obj "NXActionNote" [h, .bytes note] => same (round8 (10 + n16 note.length)) (.obj "NXActionNote" [h, .bytes note])
  | _ => .panic
def marshalM : V → R (Bytes × V)
  | .obj "NXActionNote" [h, .bytes note] => do
    let l : UInt16 := round8 (10 + n16 note.length)
    let h' ← NXActionHeader.setLength l h           -- a.Length = a.Len()
    let hb ← NXActionHeader.bytes h'
    let bs ← fill l.toNat [pCopy hb, pCopy note]
    .ok (bs, .obj "NXActionNote" [h', .bytes note])
  | _ => .panic
/-- `a.Note = make([]byte, int(a.Length-n)); copy(a.Note, data[n:a.Length])` with n = 10 (uint16): a Length below
    10 wraps the size and then `data[10:Length]` panics -/
def unmarshal (_recv : V) (data : Slice) : R V := do
  let h ← NXActionHeader.unmarshal NXActionHeader.zero data
  let l ← NXActionHeader.length h
  if data.len < l.toNat then .err else do
    let s ← data.sliceR 10 l.toNat
    pure (.obj "NXActionNote" [h, .bytes (makeCopy (l - 10).toNat s.bytes)])
def new : V := .obj "NXActionNote" [NXActionHeader.new Gen.openflow13.NXAST_NOTE, .bytes []]
end NXActionNote

namespace NXActionRegLoad2
def zero : V := .obj "NXActionRegLoad2" [.nil, .nil, .bytes []]
def lenM : V → R (UInt16 × V)
  | .obj "NXActionRegLoad2" [h, f, pad] =>
    match f with
    | .nil => .panic                                  -- a.DstField.Len() dereferences
    | f => do
      let (fl, f') ← MatchField.lenM f
      .ok (round8 (10 + fl), .obj "NXActionRegLoad2" [h, f', pad])
  | _ => .panic
def marshalM (v : V) : R (Bytes × V) := do
  let (l0, v) ← lenM v           -- make([]byte, int(a.Len()))
  let (l1, v) ← lenM v           -- a.Length = a.Len()
  match v with
  | .obj "NXActionRegLoad2" [h, f, pad] =>
    let h' ← NXActionHeader.setLength l1 h
    let hb ← NXActionHeader.bytes h'
    let (fb, f') ← MatchField.marshalM f
    let bs ← fill l0.toNat [pCopy hb, pCopy fb]
    .ok (bs, .obj "NXActionRegLoad2" [h', f', pad])
  | _ => .panic
def unmarshal : V → Slice → R V
  | .obj "NXActionRegLoad2" [_, _, pad], data => do
    let h ← nxPrefix data
    let d ← data.fromR 10
    let f ← MatchField.unmarshal mfZero d
    pure (.obj "NXActionRegLoad2" [h, f, pad])
  | _, _ => .panic
def new (f : V) : V := .obj "NXActionRegLoad2" [NXActionHeader.new Gen.openflow13.NXAST_REG_LOAD2, f, .bytes []]
end NXActionRegLoad2


/-! net.IP helpers (net.IPv4, IP.To4, IP.To16); a nil and an empty IP are not distinguished (the library never
    produces an empty non-nil one) -/
def actV4InV6Prefix : Bytes := zeros 10 ++ [0xff, 0xff]
def actIpv4 (a b c d : UInt8) : Bytes := actV4InV6Prefix ++ [a, b, c, d]
def actIpTo4 (ip : Bytes) : Bytes :=
  if ip.length = 4 then ip
  else if ip.length = 16 ∧ ip.take 12 = actV4InV6Prefix then ip.drop 12
  else []
def actIpTo16 (ip : Bytes) : Bytes :=
  if ip.length = 4 then actV4InV6Prefix ++ ip
  else if ip.length = 16 then ip
  else []

namespace NXActionCTNAT
def zero : V := .obj "NXActionCTNAT" [.nil, .bytes [], .num 0, .num 0, .bytes [], .bytes [], .bytes [], .bytes [], .nil, .nil]
/-- Len() MUTATES: a.Length = ((a.Length + 7) / 8) * 8 -/
def lenM : V → R (UInt16 × V)
  | .obj "NXActionCTNAT" (h :: r) => do
    let l ← NXActionHeader.length h
    let h' ← NXActionHeader.setLength (round8 l) h
    .ok (round8 l, .obj "NXActionCTNAT" (h' :: r))
  | _ => .panic
def marshalM (v : V) : R (Bytes × V) := do
  let (l, v) ← lenM v
  match v with
  | .obj "NXActionCTNAT" [h, pad, .num fl, .num rp, .bytes v4a, .bytes v4b, .bytes v6a, .bytes v6b, pmin, pmax] =>
    let hb ← NXActionHeader.bytes h
    let pmaxPieces ← (match pmax with
      | .num y => .ok [pU16 y]
      | _ => .ok [] : R (List Piece))
    let ps := [pCopy hb, pSkip 2, pU16 fl, pU16 rp]
      ++ (if v4a ≠ [] then [pCopyAdv (actIpTo4 v4a) 4] else [])
      ++ (if v4b ≠ [] then [pCopyAdv (actIpTo4 v4b) 4] else [])
      ++ (if v6a ≠ [] then [pCopyAdv (actIpTo16 v6a) 16] else [])
      ++ (if v6b ≠ [] then [pCopyAdv (actIpTo16 v6b) 16] else [])
      ++ (match pmin with | .num x => [pU16 x] | _ => [])
      ++ pmaxPieces
    let bs ← fill l.toNat ps
    .ok (bs, .obj "NXActionCTNAT" [h, pad, .num fl, .num rp, .bytes v4a, .bytes v4b, .bytes v6a, .bytes v6b, pmin, pmax])
  | _ => .panic

def rdIPv4 (present : Bool) (data : Slice) (n : Nat) (old : V) : R (V × Nat) :=
  if present then do
    let a ← data.byteAt n
    let b ← data.byteAt (n + 1)
    let c ← data.byteAt (n + 2)
    let d ← data.byteAt (n + 3)
    pure (.bytes (actIpv4 a b c d), n + 4)
  else pure (old, n)
def rdIPv6 (present : Bool) (data : Slice) (n : Nat) (old : V) : R (V × Nat) :=
  if present then do
    let s ← data.sliceR n (n + 16)
    pure (.bytes (makeCopy 16 s.bytes), n + 16)
  else pure (old, n)
def rdPort (present : Bool) (data : Slice) (n : Nat) (old : V) : R (V × Nat) :=
  if present then do
    let p ← data.u16From n
    pure (V.u16 p, n + 2)
  else pure (old, n)
def has (rp : UInt16) (bit : Nat) : Bool := rp.toNat &&& bit ≠ 0

def unmarshal : V → Slice → R V
  | .obj "NXActionCTNAT" [_, pad, _, _, v4a, v4b, v6a, v6b, pmin, pmax], data => do
    let (h, _) ← NXActionHeader.fresh data
    -- if len(data) < int(a.Len())   (Len rounds the stored length)
    let l ← NXActionHeader.length h
    let h ← NXActionHeader.setLength (round8 l) h
    if data.len < (round8 l).toNat then .err else do
      let fl ← data.u16From 12
      let rp ← data.u16From 14
      let (v4a, n) ← rdIPv4 (has rp Gen.openflow13.NX_NAT_RANGE_IPV4_MIN) data 16 v4a
      let (v4b, n) ← rdIPv4 (has rp Gen.openflow13.NX_NAT_RANGE_IPV4_MAX) data n v4b
      let (v6a, n) ← rdIPv6 (has rp Gen.openflow13.NX_NAT_RANGE_IPV6_MIN) data n v6a
      let (v6b, n) ← rdIPv6 (has rp Gen.openflow13.NX_NAT_RANGE_IPV6_MAX) data n v6b
      let (pmin, n) ← rdPort (has rp Gen.openflow13.NX_NAT_RANGE_PROTO_MIN) data n pmin
      let (pmax, _) ← rdPort (has rp Gen.openflow13.NX_NAT_RANGE_PROTO_MAX) data n pmax
      pure (.obj "NXActionCTNAT" [h, pad, V.u16 fl, V.u16 rp, v4a, v4b, v6a, v6b, pmin, pmax])
  | _, _ => .panic
def new : V :=
  .obj "NXActionCTNAT" [NXActionHeader.newL Gen.openflow13.NXAST_NAT 16, .bytes (zeros 2), .num 0, .num 0,
    .bytes [], .bytes [], .bytes [], .bytes [], .nil, .nil]

/-- SetSNAT/SetDNAT/SetProtoHash/SetRandom: refuse when `excl` is set, else Flags |= bit -/
def setFlag (excl bit : Nat) : V → R V
  | .obj "NXActionCTNAT" [h, pad, .num fl, rp, a, b, c, d, e, f] =>
    if fl &&& excl ≠ 0 then .err
    else .ok (.obj "NXActionCTNAT" [h, pad, .num (fl ||| bit), rp, a, b, c, d, e, f])
  | _ => .panic
/-- unpaddedLen(): the fixed part plus the widths of the range fields whose presence bit is set -/
def unpaddedLen (rp : Nat) : UInt16 :=
  16 + (if rp &&& 1 ≠ 0 then 4 else 0) + (if rp &&& 2 ≠ 0 then 4 else 0) + (if rp &&& 4 ≠ 0 then 16 else 0)
     + (if rp &&& 8 ≠ 0 then 16 else 0) + (if rp &&& 16 ≠ 0 then 2 else 0) + (if rp &&& 32 ≠ 0 then 2 else 0)
/-- SetRangeXxx(x): field idx := x; rangePresent |= bit; a.Length = a.unpaddedLen()  (`_add`, the field's width, is what the
    setter used to add to the length before the repair; kept so that callers need not change) -/
def setRange (idx bit : Nat) (_add : UInt16) (x : V) : V → R V
  | .obj "NXActionCTNAT" [h, pad, fl, .num rp, a, b, c, d, e, f] => do
    let _ ← NXActionHeader.length h
    let h' ← NXActionHeader.setLength (unpaddedLen (rp ||| bit)) h
    let fs := ([a, b, c, d, e, f] : List V).set idx x
    pure (.obj "NXActionCTNAT" ([h', pad, fl, .num (rp ||| bit)] ++ fs))
  | _ => .panic
end NXActionCTNAT

namespace NXLearnSpecHeader
def zero : V := .obj "NXLearnSpecHeader" [.num 0, .num 0, .num 0, .num 0, .num 0]
def lenM : V → R (UInt16 × V)
  | .obj "NXLearnSpecHeader" [s, d, o, nb, .num ln] => same (n16 ln) (.obj "NXLearnSpecHeader" [s, d, o, nb, .num ln])
  | _ => .panic
def bitMatch : UInt16 := shl16 1 Gen.openflow13.LEARN_SPEC_HEADER_MATCH
def bitLoad : UInt16 := shl16 1 Gen.openflow13.LEARN_SPEC_HEADER_LOAD
def bitOutput : UInt16 := shl16 2 Gen.openflow13.LEARN_SPEC_HEADER_LOAD
def word (src dst out nb : Nat) : UInt16 :=
  let v : UInt16 := n16 nb
  let v := if src ≠ 0 then v ||| bitMatch else v &&& ~~~bitMatch
  let v := if dst ≠ 0 then v ||| bitLoad else v &&& ~~~bitLoad
  if out ≠ 0 then (v &&& ~~~bitMatch) ||| bitOutput else v
def bytes : V → R Bytes
  | .obj "NXLearnSpecHeader" [.num s, .num d, .num o, .num nb, .num ln] =>
    fill (n16 ln).toNat [Piece.put (be16 (word s d o nb))]
  | _ => .panic
def marshalM (v : V) : R (Bytes × V) := do let b ← bytes v; same b v
def unmarshal (_recv : V) (data : Slice) : R V :=
  if data.len < 2 then .err else do
    let w ← data.u16Here
    pure (.obj "NXLearnSpecHeader" [V.bool (w &&& bitMatch ≠ 0), V.bool (w &&& bitLoad ≠ 0), V.bool (w &&& bitOutput ≠ 0),
      V.u16 (shr16 0xffff 5 &&& w), .num 2])
def new (src dst out nb : Nat) : V := .obj "NXLearnSpecHeader" [.num src, .num dst, .num out, V.u16 (n16 nb), .num 2]
end NXLearnSpecHeader

namespace NXLearnSpecField
def zero : V := .obj "NXLearnSpecField" [.nil, .num 0]
def lenM (v : V) : R (UInt16 × V) := same 6 v
def marshalM : V → R (Bytes × V)
  | .obj "NXLearnSpecField" [f, .num ofs] => do
    let hw ← mfHeader f
    let bs ← fill 6 [pU32 hw, pU16 ofs]
    same bs (.obj "NXLearnSpecField" [f, .num ofs])
  | _ => .panic      -- nil *NXLearnSpecField: f.Field dereferences
def unmarshal (_recv : V) (data : Slice) : R V :=
  if data.len < 6 then .err else do
    let d0 ← data.fromR 0
    let f ← MatchField.unmarshalHeader mfZero d0
    let ofs ← data.u16From 4
    pure (.obj "NXLearnSpecField" [f, V.u16 ofs])
end NXLearnSpecField

namespace NXLearnSpec
def zero : V := .obj "NXLearnSpec" [.nil, .nil, .nil, .bytes []]
/-- 2 * ((nBits + 15) / 16) in uint16 -/
def srcLen (nb : Nat) : UInt16 := 2 * ((n16 nb + 15) / 16)
def len : V → R UInt16
  | .obj "NXLearnSpec" [.obj "NXLearnSpecHeader" [.num src, _, .num out, .num nb, .num hl], _, _, _] =>
    let l : UInt16 := n16 hl
    let l := if src ≠ 0 then l + srcLen nb else l + 6
    .ok (if out = 0 then l + 6 else l)
  | _ => .panic      -- nil spec or nil Header
def lenM (v : V) : R (UInt16 × V) := do let l ← len v; same l v
/-- `s.SrcValue[:srcDataLength]` is modelled with cap(SrcValue) = len(SrcValue) (true for decoded specs) -/
def marshalM (v : V) : R (Bytes × V) := do
  let l ← len v
  match v with
  | .obj "NXLearnSpec" [.obj "NXLearnSpecHeader" [.num src, d, .num out, .num nb, hl], sf, df, .bytes sv] =>
    let hb ← NXLearnSpecHeader.bytes (.obj "NXLearnSpecHeader" [.num src, d, .num out, .num nb, hl])
    let (srcData, k) ← (if src ≠ 0 then
        let k := (srcLen nb).toNat
        if k ≤ sv.length then .ok (sv.take k, k) else .panic
      else do
        let (b, _) ← NXLearnSpecField.marshalM sf
        pure (b, 6) : R (Bytes × Nat))
    let ps := [pCopy hb, pCopyAdv srcData k]
    if out = 0 then do
      let (db, _) ← NXLearnSpecField.marshalM df
      let bs ← fill l.toNat (ps ++ [pCopy db])
      same bs v
    else do
      let bs ← fill l.toNat ps
      same bs v
  | _ => .panic
def unmarshal : V → Slice → R V
  | .obj "NXLearnSpec" [_, sf0, df0, sv0], data => do
    let hdr ← NXLearnSpecHeader.unmarshal NXLearnSpecHeader.zero data
    match hdr with
    | .obj "NXLearnSpecHeader" [.num src, _, .num out, .num nb, _] =>
      let (sf, sv, n) ← (if src ≠ 0 then do
          let k := srcLen nb
          let s ← data.sliceR 2 (2 + k.toNat)
          pure (sf0, V.bytes (makeCopy k.toNat s.bytes), (2 + k : UInt16))
        else do
          let d ← data.fromR 2
          let f ← NXLearnSpecField.unmarshal NXLearnSpecField.zero d
          pure (f, sv0, (8 : UInt16)) : R (V × V × UInt16))
      if out = 0 then do
        let d ← data.fromR n.toNat
        let df ← NXLearnSpecField.unmarshal NXLearnSpecField.zero d
        pure (.obj "NXLearnSpec" [hdr, sf, df, sv])
      else pure (.obj "NXLearnSpec" [hdr, sf, df0, sv])
    | _ => .panic
  | _, _ => .panic
end NXLearnSpec

namespace NXActionLearn
def zero : V := .obj "NXActionLearn" [.nil, .num 0, .num 0, .num 0, .num 0, .num 0, .num 0, .num 0, .num 0, .num 0, .list [], .bytes []]
def specsLen : List V → R UInt16
  | [] => .ok 0
  | s :: r => do
    let l ← NXLearnSpec.len s
    let t ← specsLen r
    pure (l + t)
def len : V → R UInt16
  | .obj "NXActionLearn" [_, _, _, _, _, _, _, _, _, _, .list specs, _] => do
    let t ← specsLen specs
    pure (round8 (10 + 22 + t))
  | _ => .panic
def lenM (v : V) : R (UInt16 × V) := do let l ← len v; same l v
def marshalM (v : V) : R (Bytes × V) := do
  let l ← len v
  match v with
  | .obj "NXActionLearn" [h, .num idle, .num hard, .num prio, .num cookie, .num fl, .num tid, pad, .num fi, .num fh, .list specs, pad2] =>
    let h' ← NXActionHeader.setLength l h       -- a.Length = a.Len()
    let hb ← NXActionHeader.bytes h'
    let (sbs, _) ← mapM2 NXLearnSpec.marshalM specs
    let bs ← fill l.toNat ([pCopy hb, pU16 idle, pU16 hard, pU16 prio, pU64 cookie, pU16 fl, pU8 tid, pSkip 1, pU16 fi, pU16 fh]
      ++ sbs.map pCopy)
    .ok (bs, .obj "NXActionLearn" [h', .num idle, .num hard, .num prio, .num cookie, .num fl, .num tid, pad, .num fi, .num fh, .list specs, pad2])
  | _ => .panic

structure St where
  n : Nat
  specs : List V

def unmarshal : V → Slice → R V
  | .obj "NXActionLearn" [_, _, _, _, _, _, _, pad, _, _, .list specs0, pad2], data => do
    let h ← NXActionHeader.unmarshal NXActionHeader.zero data
    let l ← NXActionHeader.length h
    let L := l.toNat
    if data.len < L then .err else do
      let idle ← data.u16From 10
      let hard ← data.u16From 12
      let prio ← data.u16From 14
      let cookie ← data.u64From 16
      let fl ← data.u16From 24
      let tid ← data.byteAt 26
      let fi ← data.u16From 28
      let fh ← data.u16From 30
      -- for n < int(a.Length) { if int(a.Length)-n < 8 { break } … }
      let st ← goLoop (σ := St) 65536 (fun s => s.n < L && !(L - s.n < 8)) (·.n)
        (fun s => do
          let d ← data.fromR s.n
          let spec ← NXLearnSpec.unmarshal NXLearnSpec.zero d
          let sl ← NXLearnSpec.len spec
          pure { n := s.n + sl.toNat, specs := s.specs ++ [spec] })
        { n := 32, specs := specs0 }
      pure (.obj "NXActionLearn" [h, V.u16 idle, V.u16 hard, V.u16 prio, V.u64 cookie, V.u16 fl, V.u8 tid, pad, V.u16 fi, V.u16 fh,
        .list st.specs, pad2])
  | _, _ => .panic
def new : V :=
  .obj "NXActionLearn" [NXActionHeader.new Gen.openflow13.NXAST_LEARN, .num 0, .num 0, .num 0, .num 0, .num 0, .num 0, .num 0, .num 0, .num 0, .list [], .bytes []]
end NXActionLearn


namespace NXActionConnTrack
def zero : V := .obj "NXActionConnTrack" [.nil, .num 0, .num 0, .num 0, .num 0, .bytes [], .num 0, .list []]
/-- Len(): header (10) + 14 + the CURRENT sizes of the nested actions; the result is stored in the header's Length.
    `sub` is the interface dispatch Action.Len (one nesting level down). -/
def lenWith (sub : V → R (UInt16 × V)) : V → R (UInt16 × V)
  | .obj "NXActionConnTrack" [h, a, b, c, d, e, f, .list acts] => do
    let (hl, h) ← NXActionHeader.lenM h           -- nil header: panic
    let (ls, acts') ← mapM2 sub acts
    let l := hl + 14 + sum16 ls
    let h' ← NXActionHeader.setLength l h
    .ok (l, .obj "NXActionConnTrack" [h', a, b, c, d, e, f, .list acts'])
  | _ => .panic

/-- `for _, action := range a.actions { b, err := action.MarshalBinary(); if err … ; copy(data[n:], b); n += len(b) }`
    `sub` is the interface dispatch Action.MarshalBinary (one nesting level down) -/
def marshalActs (sub : V → R (Bytes × V)) : List V → Bytes → Nat → R (Bytes × List V)
  | [], buf, _ => .ok (buf, [])
  | a :: as, buf, n => do
    let (ab, a') ← sub a
    let buf' ← fillFrom buf n [pCopy ab]
    let (buf'', as') ← marshalActs sub as buf' (n + ab.length)
    pure (buf'', a' :: as')

def marshalWith (subLen : V → R (UInt16 × V)) (sub : V → R (Bytes × V)) (v : V) : R (Bytes × V) := do
  let (l, v) ← lenWith subLen v                    -- make([]byte, int(a.Len()))
  match v with
  | .obj "NXActionConnTrack" [h, .num fl, .num zs, .num zo, .num rt, .bytes pad, .num alg, .list acts] => do
    let hb ← NXActionHeader.bytes h
    let buf ← fill l.toNat [pCopy hb, pU16 fl, pU32 zs, pU16 zo, pU8 rt, pCopyAdv pad 3, pU16 alg]
    let (buf', acts') ← marshalActs sub acts buf 24
    .ok (buf', .obj "NXActionConnTrack" [h, .num fl, .num zs, .num zo, .num rt, .bytes pad, .num alg, .list acts'])
  | _ => .panic

structure St where
  n : Nat
  acts : List V

/-- `dec` = DecodeAction (one nesting level down), `alen` = Action.Len of a decoded action.
    The loop runs while n < a.Length (the DECODED length field) and advances by act.Len(); an action whose Len() is 0
    never advances: endless loop appending to a.actions. Afterwards `a.Length = uint16(n)` overwrites the decoded length. -/
def unmarshalWith (dec : Slice → R V) (alen : V → R (UInt16 × V)) : V → Slice → R V
  | .obj "NXActionConnTrack" [_, _, _, _, _, .bytes pad, _, .list acts0], data => do
    let h ← nxPrefix data
    let l ← NXActionHeader.length h
    let fl ← data.u16From 10
    let zs ← data.u32From 12
    let zo ← data.u16From 16
    let rt ← data.byteAt 18
    let s ← data.sliceR 19 22
    let alg ← data.u16From 22
    let st ← goLoop (σ := St) 65536 (fun s => s.n < l.toNat) (·.n)
      (fun s => do
        let d ← data.fromR s.n
        let act ← dec d
        let (al, act') ← alen act
        if al = 0 then .err else
        pure { n := s.n + al.toNat, acts := s.acts ++ [act'] })
      { n := 24, acts := acts0 }
    let h' ← NXActionHeader.setLength (n16 st.n) h
    pure (.obj "NXActionConnTrack" [h', V.u16 fl, V.u32 zs, V.u16 zo, V.u8 rt, .bytes (copyInto pad s.bytes), V.u16 alg, .list st.acts])
  | _, _ => .panic

def new : V :=
  .obj "NXActionConnTrack" [NXActionHeader.newL Gen.openflow13.NXAST_CT 24, .num 0, .num 0, .num 0,
    .num Gen.openflow13.NX_CT_RECIRC_NONE, .bytes [], .num 0, .list []]
end NXActionConnTrack

/-! ### interface Action: dispatch on the dynamic type -/
namespace Action

/-- Action.Len() of every kind except conntrack -/
def lenLeaf (v : V) : R (UInt16 × V) :=
  match v.kind with
  | "ActionHeader" => ActionHeader.lenM v
  | "ActionOutput" => ActionOutput.lenM v
  | "ActionSetqueue" => ActionSetqueue.lenM v
  | "ActionGroup" => ActionGroup.lenM v
  | "ActionMplsTtl" => ActionMplsTtl.lenM v
  | "ActionNwTtl" => ActionNwTtl.lenM v
  | "ActionDecNwTtl" => ActionDecNwTtl.lenM v
  | "ActionPush" => ActionPush.lenM v
  | "ActionPopVlan" => ActionPopVlan.lenM v
  | "ActionPopMpls" => ActionPopMpls.lenM v
  | "ActionSetField" => ActionSetField.lenM v
  | "NXActionHeader" => NXActionHeader.lenM v
  | "NXActionConjunction" => NXActionConjunction.lenM v
  | "NXActionRegLoad" => NXActionRegLoad.lenM v
  | "NXActionRegMove" => NXActionRegMove.lenM v
  | "NXActionResubmit" => NXActionResubmit.lenM v
  | "NXActionResubmitTable" => NXActionResubmitTable.lenM v
  | "NXActionCTNAT" => NXActionCTNAT.lenM v
  | "NXActionOutputReg" => NXActionOutputReg.lenM v
  | "NXActionCTClear" => NXActionCTClear.lenM v
  | "NXActionDecTTL" => NXActionDecTTL.lenM v
  | "NXActionDecTTLCntIDs" => NXActionDecTTLCntIDs.lenM v
  | "NXActionLearn" => NXActionLearn.lenM v
  | "NXActionNote" => NXActionNote.lenM v
  | "NXActionRegLoad2" => NXActionRegLoad2.lenM v
  | "NXActionController" => NXActionController.lenM v
  | _ => .panic       -- nil interface

/-- MarshalBinary of every kind except conntrack (whose nested actions need the dispatch itself) -/
def marshalLeaf (v : V) : R (Bytes × V) :=
  match v.kind with
  | "ActionHeader" => ActionHeader.marshalM v
  | "ActionOutput" => ActionOutput.marshalM v
  | "ActionSetqueue" => ActionSetqueue.marshalM v
  | "ActionGroup" => ActionGroup.marshalM v
  | "ActionMplsTtl" => ActionMplsTtl.marshalM v
  | "ActionNwTtl" => ActionNwTtl.marshalM v
  | "ActionDecNwTtl" => ActionDecNwTtl.marshalM v
  | "ActionPush" => ActionPush.marshalM v
  | "ActionPopVlan" => ActionPopVlan.marshalM v
  | "ActionPopMpls" => ActionPopMpls.marshalM v
  | "ActionSetField" => ActionSetField.marshalM v
  | "NXActionHeader" => NXActionHeader.marshalM v
  | "NXActionConjunction" => NXActionConjunction.marshalM v
  | "NXActionRegLoad" => NXActionRegLoad.marshalM v
  | "NXActionRegMove" => NXActionRegMove.marshalM v
  | "NXActionResubmit" => NXActionResubmit.marshalM v
  | "NXActionResubmitTable" => NXActionResubmitTable.marshalM v
  | "NXActionCTNAT" => NXActionCTNAT.marshalM v
  | "NXActionOutputReg" => NXActionOutputReg.marshalM v
  | "NXActionCTClear" => NXActionCTClear.marshalM v
  | "NXActionDecTTL" => NXActionDecTTL.marshalM v
  | "NXActionDecTTLCntIDs" => NXActionDecTTLCntIDs.marshalM v
  | "NXActionLearn" => NXActionLearn.marshalM v
  | "NXActionNote" => NXActionNote.marshalM v
  | "NXActionRegLoad2" => NXActionRegLoad2.marshalM v
  | "NXActionController" => NXActionController.marshalM v
  | _ => .panic

/-- Action.MarshalBinary() with an explicit bound on the nesting of conntrack actions. Depth 0 is unreachable for
    values nested less deeply than the starting depth; `encDepth` exceeds the nesting any 64 KiB frame can hold (each
    conntrack level occupies at least 24 bytes), and the generators keep API-built values far below it. -/
def encDepth : Nat := 4096

/-- Action.Len() with an explicit bound on the nesting of conntrack actions -/
def lenD : Nat → V → R (UInt16 × V)
  | 0, _ => .panic
  | d + 1, v =>
    if v.kind = "NXActionConnTrack" then NXActionConnTrack.lenWith (lenD d) v
    else lenLeaf v
def lenM (v : V) : R (UInt16 × V) := lenD (encDepth + 1) v

def marshalD : Nat → V → R (Bytes × V)
  | 0, _ => .panic
  | d + 1, v =>
    if v.kind = "NXActionConnTrack" then NXActionConnTrack.marshalWith (lenD d) (marshalD d) v
    else marshalLeaf v

def marshalM (v : V) : R (Bytes × V) := marshalD (encDepth + 1) v

/-- UnmarshalBinary of every kind except conntrack, on the receiver `a` -/
def unmarshalLeaf (a : V) (data : Slice) : R V :=
  match a.kind with
  | "ActionHeader" => ActionHeader.unmarshal a data
  | "ActionOutput" => ActionOutput.unmarshal a data
  | "ActionSetqueue" => ActionSetqueue.unmarshal a data
  | "ActionGroup" => ActionGroup.unmarshal a data
  | "ActionMplsTtl" => ActionMplsTtl.unmarshal a data
  | "ActionNwTtl" => ActionNwTtl.unmarshal a data
  | "ActionDecNwTtl" => ActionDecNwTtl.unmarshal a data
  | "ActionPush" => ActionPush.unmarshal a data
  | "ActionPopVlan" => ActionPopVlan.unmarshal a data
  | "ActionPopMpls" => ActionPopMpls.unmarshal a data
  | "ActionSetField" => ActionSetField.unmarshal a data
  | "NXActionHeader" => NXActionHeader.unmarshal a data
  | "NXActionConjunction" => NXActionConjunction.unmarshal a data
  | "NXActionRegLoad" => NXActionRegLoad.unmarshal a data
  | "NXActionRegMove" => NXActionRegMove.unmarshal a data
  | "NXActionResubmit" => NXActionResubmit.unmarshal a data
  | "NXActionResubmitTable" => NXActionResubmitTable.unmarshal a data
  | "NXActionCTNAT" => NXActionCTNAT.unmarshal a data
  | "NXActionOutputReg" => NXActionOutputReg.unmarshal a data
  | "NXActionCTClear" => NXActionCTClear.unmarshal a data
  | "NXActionDecTTL" => NXActionDecTTL.unmarshal a data
  | "NXActionDecTTLCntIDs" => NXActionDecTTLCntIDs.unmarshal a data
  | "NXActionLearn" => NXActionLearn.unmarshal a data
  | "NXActionNote" => NXActionNote.unmarshal a data
  | "NXActionRegLoad2" => NXActionRegLoad2.unmarshal a data
  | "NXActionController" => NXActionController.unmarshal a data
  | _ => .panic       -- a == nil: method call on a nil interface
end Action

namespace NXActionConnTrack
def lenM (v : V) : R (UInt16 × V) := lenWith (Action.lenD Action.encDepth) v
def marshalM (v : V) : R (Bytes × V) := marshalWith (Action.lenD Action.encDepth) (Action.marshalD Action.encDepth) v
end NXActionConnTrack

/-- subtype ↦ new(T) of DecodeNxAction; subtypes not listed leave `a` nil -/
def nxSubtypeTable : List (Nat × V) := [
  (Gen.openflow13.NXAST_RESUBMIT, NXActionResubmit.zero),
  (Gen.openflow13.NXAST_REG_MOVE, NXActionRegMove.zero),
  (Gen.openflow13.NXAST_REG_LOAD, NXActionRegLoad.zero),
  (Gen.openflow13.NXAST_NOTE, NXActionNote.zero),
  (Gen.openflow13.NXAST_RESUBMIT_TABLE, NXActionResubmitTable.zero),
  (Gen.openflow13.NXAST_OUTPUT_REG, NXActionOutputReg.zero),
  (Gen.openflow13.NXAST_LEARN, NXActionLearn.zero),
  (Gen.openflow13.NXAST_DEC_TTL, NXActionDecTTL.zero),
  (Gen.openflow13.NXAST_CONTROLLER, NXActionController.zero),
  (Gen.openflow13.NXAST_DEC_TTL_CNT_IDS, NXActionDecTTLCntIDs.zero),
  (Gen.openflow13.NXAST_OUTPUT_REG2, NXActionOutputReg.zero),
  (Gen.openflow13.NXAST_REG_LOAD2, NXActionRegLoad2.zero),
  (Gen.openflow13.NXAST_CONJUNCTION, NXActionConjunction.zero),
  (Gen.openflow13.NXAST_CT, NXActionConnTrack.zero),
  (Gen.openflow13.NXAST_NAT, NXActionCTNAT.zero),
  (Gen.openflow13.NXAST_CT_CLEAR, NXActionCTClear.zero),
  (Gen.openflow13.NXAST_CT_RESUBMIT, NXActionResubmitTable.zeroCT)
]

/-- DecodeNxAction(data): `binary.BigEndian.Uint16(data[8:])`, then the freshly allocated action or nil -/
def DecodeNxAction (data : Slice) : R V := do
  let st ← data.u16From 8
  pure ((nxSubtypeTable.lookup st.toNat).getD .nil)

/-- type ↦ new(T) of DecodeAction for the non-experimenter types -/
def actionTypeTable : List (Nat × V) := [
  (Gen.openflow13.ActionType_Output, ActionOutput.zero),
  (Gen.openflow13.ActionType_CopyTtlOut, ActionDecNwTtl.zero),
  (Gen.openflow13.ActionType_CopyTtlIn, ActionDecNwTtl.zero),
  (Gen.openflow13.ActionType_SetMplsTtl, ActionMplsTtl.zero),
  (Gen.openflow13.ActionType_DecMplsTtl, ActionDecNwTtl.zero),
  (Gen.openflow13.ActionType_PushVlan, ActionPush.zero),
  (Gen.openflow13.ActionType_PopVlan, ActionPopVlan.zero),
  (Gen.openflow13.ActionType_PushMpls, ActionPush.zero),
  (Gen.openflow13.ActionType_PopMpls, ActionPopMpls.zero),
  (Gen.openflow13.ActionType_SetQueue, ActionSetqueue.zero),
  (Gen.openflow13.ActionType_Group, ActionGroup.zero),
  (Gen.openflow13.ActionType_SetNwTtl, ActionNwTtl.zero),
  (Gen.openflow13.ActionType_DecNwTtl, ActionDecNwTtl.zero),
  (Gen.openflow13.ActionType_SetField, ActionSetField.zero),
  (Gen.openflow13.ActionType_PushPbb, ActionPush.zero),
  (Gen.openflow13.ActionType_PopPbb, ActionDecNwTtl.zero)
]

/-- the `switch t` of DecodeAction: the receiver `a` (nil for unknown types, foreign vendors, unknown subtypes) -/
def newActionFor (data : Slice) : R V := do
  let t ← data.u16In 0 2
  match actionTypeTable.lookup t.toNat with
  | some z => pure z
  | none =>
    if t.toNat = Gen.openflow13.ActionType_Experimenter then
      if data.len < Gen.openflow13.NxActionHeaderLength then .err else do
        let v ← data.u32In 4 8
        if v.toNat = Gen.openflow13.NxExperimenterID then DecodeNxAction data else pure .nil
    else pure .nil

/-- DecodeAction(data). First argument: remaining nesting depth; start it at `data.len + 1` — every conntrack level
    consumes at least 24 bytes of a strictly shorter slice, so depth 0 is unreachable.
    `err := a.UnmarshalBinary(data)` on a nil `a` is a nil-interface method call: panic. -/
def DecodeAction : Nat → Slice → R V
  | 0, _ => .panic
  | d + 1, data => do
    let a ← newActionFor data
    if a.kind = "NXActionConnTrack" then NXActionConnTrack.unmarshalWith (DecodeAction d) Action.lenM a data
    else Action.unmarshalLeaf a data

namespace NXActionConnTrack
def unmarshal (recv : V) (data : Slice) : R V := unmarshalWith (DecodeAction (data.len + 1)) Action.lenM recv data

def chain (v : V) : R (V × List V) := .ok (v, [v])
def commit : V → R (V × List V)
  | .obj "NXActionConnTrack" [h, .num fl, a, b, c, d, e, f] =>
    chain (.obj "NXActionConnTrack" [h, .num (fl ||| Gen.openflow13.NX_CT_F_COMMIT), a, b, c, d, e, f])
  | _ => .panic
def force : V → R (V × List V)
  | .obj "NXActionConnTrack" [h, .num fl, a, b, c, d, e, f] =>
    chain (.obj "NXActionConnTrack" [h, .num (fl ||| Gen.openflow13.NX_CT_F_FORCE), a, b, c, d, e, f])
  | _ => .panic
def table (t : Nat) : V → R (V × List V)
  | .obj "NXActionConnTrack" [h, fl, a, b, _, d, e, f] => chain (.obj "NXActionConnTrack" [h, fl, a, b, V.u8 (n8 t), d, e, f])
  | _ => .panic
def zoneImm (z : Nat) : V → R (V × List V)
  | .obj "NXActionConnTrack" [h, fl, _, _, c, d, e, f] => chain (.obj "NXActionConnTrack" [h, fl, .num 0, V.u16 (n16 z), c, d, e, f])
  | _ => .panic
/-- rng.ToOfsBits() on a *NXRange (int fields; the text syntax only carries non-negative values) -/
def rangeOfsBits : V → R UInt16
  | .obj "NXRange" [.num s, .num e] =>
    .ok (Gen.openflow13.NXRange.ToOfsBits { start := Int64.ofNat s, end_ := Int64.ofNat e })
  | _ => .panic
def zoneRange (field rng : V) : V → R (V × List V)
  | .obj "NXActionConnTrack" [h, fl, _, _, c, d, e, f] => do
    let hw ← mfHeader field
    let ob ← rangeOfsBits rng
    chain (.obj "NXActionConnTrack" [h, fl, .num hw, V.u16 ob, c, d, e, f])
  | _ => .panic
/-- AddAction(actions...): append, then a.Length += act.Len() (act.Len() may itself round act's stored length) -/
def addActions : V → List V → R V
  | v, [] => .ok v
  | .obj "NXActionConnTrack" [h, a, b, c, d, e, f, .list acts], act :: rest => do
    let l ← NXActionHeader.length h
    let (al, act') ← Action.lenM act
    let h' ← NXActionHeader.setLength (l + al) h
    addActions (.obj "NXActionConnTrack" [h', a, b, c, d, e, f, .list (acts ++ [act'])]) rest
  | _, _ => .panic
end NXActionConnTrack


/-! ### tables -/

/-- Capacity of the `[]byte` the harness hands to a function called through `fn`: it builds the argument with
    `append([]byte(nil), bytes...)`, and Go's growslice rounds the capacity up to the allocator's size class
    (the spare tail is zeroed). Decoders re-slice up to cap, so this is visible. Empty ⇒ nil slice, cap 0. -/
def sizeClasses : List Nat := [8, 16, 24, 32, 48, 64, 80, 96, 112, 128, 144, 160, 176, 192, 208, 224, 240, 256, 288, 320,
  352, 384, 416, 448, 480, 512, 576, 640, 704, 768, 896, 1024, 1152, 1280, 1408, 1536, 1792, 2048]
def appendCap (n : Nat) : Nat := if n = 0 then 0 else ((sizeClasses.find? (fun c => n ≤ c)).getD n)
def fnSlice (b : Bytes) : Slice := ⟨b ++ zeros (appendCap b.length - b.length), b.length⟩

def kindsAction : KindTab := [
  ("ActionHeader", ⟨ActionHeader.lenM, ActionHeader.marshalM, ActionHeader.unmarshal, ActionHeader.zero⟩),
  ("ActionOutput", ⟨ActionOutput.lenM, ActionOutput.marshalM, ActionOutput.unmarshal, ActionOutput.zero⟩),
  ("ActionSetqueue", ⟨ActionSetqueue.lenM, ActionSetqueue.marshalM, ActionSetqueue.unmarshal, ActionSetqueue.zero⟩),
  ("ActionGroup", ⟨ActionGroup.lenM, ActionGroup.marshalM, ActionGroup.unmarshal, ActionGroup.zero⟩),
  ("ActionMplsTtl", ⟨ActionMplsTtl.lenM, ActionMplsTtl.marshalM, ActionMplsTtl.unmarshal, ActionMplsTtl.zero⟩),
  ("ActionNwTtl", ⟨ActionNwTtl.lenM, ActionNwTtl.marshalM, ActionNwTtl.unmarshal, ActionNwTtl.zero⟩),
  ("ActionDecNwTtl", ⟨ActionDecNwTtl.lenM, ActionDecNwTtl.marshalM, ActionDecNwTtl.unmarshal, ActionDecNwTtl.zero⟩),
  ("ActionPush", ⟨ActionPush.lenM, ActionPush.marshalM, ActionPush.unmarshal, ActionPush.zero⟩),
  ("ActionPopVlan", ⟨ActionPopVlan.lenM, ActionPopVlan.marshalM, ActionPopVlan.unmarshal, ActionPopVlan.zero⟩),
  ("ActionPopMpls", ⟨ActionPopMpls.lenM, ActionPopMpls.marshalM, ActionPopMpls.unmarshal, ActionPopMpls.zero⟩),
  ("ActionSetField", ⟨ActionSetField.lenM, ActionSetField.marshalM, ActionSetField.unmarshal, ActionSetField.zero⟩),
  ("NXActionHeader", ⟨NXActionHeader.lenM, NXActionHeader.marshalM, NXActionHeader.unmarshal, NXActionHeader.zero⟩),
  ("NXActionConjunction", ⟨NXActionConjunction.lenM, NXActionConjunction.marshalM, NXActionConjunction.unmarshal, NXActionConjunction.zero⟩),
  ("NXActionConnTrack", ⟨NXActionConnTrack.lenM, NXActionConnTrack.marshalM, NXActionConnTrack.unmarshal, NXActionConnTrack.zero⟩),
  ("NXActionRegLoad", ⟨NXActionRegLoad.lenM, NXActionRegLoad.marshalM, NXActionRegLoad.unmarshal, NXActionRegLoad.zero⟩),
  ("NXActionRegMove", ⟨NXActionRegMove.lenM, NXActionRegMove.marshalM, NXActionRegMove.unmarshal, NXActionRegMove.zero⟩),
  ("NXActionResubmit", ⟨NXActionResubmit.lenM, NXActionResubmit.marshalM, NXActionResubmit.unmarshal, NXActionResubmit.zero⟩),
  ("NXActionResubmitTable", ⟨NXActionResubmitTable.lenM, NXActionResubmitTable.marshalM, NXActionResubmitTable.unmarshal, NXActionResubmitTable.zero⟩),
  ("NXActionCTNAT", ⟨NXActionCTNAT.lenM, NXActionCTNAT.marshalM, NXActionCTNAT.unmarshal, NXActionCTNAT.zero⟩),
  ("NXActionOutputReg", ⟨NXActionOutputReg.lenM, NXActionOutputReg.marshalM, NXActionOutputReg.unmarshal, NXActionOutputReg.zero⟩),
  ("NXActionCTClear", ⟨NXActionCTClear.lenM, NXActionCTClear.marshalM, NXActionCTClear.unmarshal, NXActionCTClear.zero⟩),
  ("NXActionDecTTL", ⟨NXActionDecTTL.lenM, NXActionDecTTL.marshalM, NXActionDecTTL.unmarshal, NXActionDecTTL.zero⟩),
  ("NXActionDecTTLCntIDs", ⟨NXActionDecTTLCntIDs.lenM, NXActionDecTTLCntIDs.marshalM, NXActionDecTTLCntIDs.unmarshal, NXActionDecTTLCntIDs.zero⟩),
  ("NXLearnSpecHeader", ⟨NXLearnSpecHeader.lenM, NXLearnSpecHeader.marshalM, NXLearnSpecHeader.unmarshal, NXLearnSpecHeader.zero⟩),
  ("NXLearnSpecField", ⟨NXLearnSpecField.lenM, NXLearnSpecField.marshalM, NXLearnSpecField.unmarshal, NXLearnSpecField.zero⟩),
  ("NXLearnSpec", ⟨NXLearnSpec.lenM, NXLearnSpec.marshalM, NXLearnSpec.unmarshal, NXLearnSpec.zero⟩),
  ("NXActionLearn", ⟨NXActionLearn.lenM, NXActionLearn.marshalM, NXActionLearn.unmarshal, NXActionLearn.zero⟩),
  ("NXActionNote", ⟨NXActionNote.lenM, NXActionNote.marshalM, NXActionNote.unmarshal, NXActionNote.zero⟩),
  ("NXActionRegLoad2", ⟨NXActionRegLoad2.lenM, NXActionRegLoad2.marshalM, NXActionRegLoad2.unmarshal, NXActionRegLoad2.zero⟩),
  ("NXActionController", ⟨NXActionController.lenM, NXActionController.marshalM, NXActionController.unmarshal, NXActionController.zero⟩)
]

def mkF (f : List V → R (List V)) : List V → R (List V) := f
def mkM (f : V → List V → R (V × List V)) : V → List V → R (V × List V) := f

def funcsAction : FuncTab := [
  ("NewActionOutput", mkF fun | [.num p] => ret1 (ActionOutput.new p) | _ => .panic),
  ("NewActionSetQueue", mkF fun | [.num q] => ret1 (ActionSetqueue.new q) | _ => .panic),
  ("NewActionGroup", mkF fun | [.num g] => ret1 (ActionGroup.new g) | _ => .panic),
  ("NewActionDecNwTtl", mkF fun | [] => ret1 ActionDecNwTtl.new | _ => .panic),
  ("NewActionMplsTtl", mkF fun | [.num t] => ret1 (ActionMplsTtl.new t) | _ => .panic),
  ("NewActionNwTtl", mkF fun | [.num t] => ret1 (ActionNwTtl.new t) | _ => .panic),
  ("NewActionPushVlan", mkF fun | [.num et] => ret1 (ActionPush.new Gen.openflow13.ActionType_PushVlan et) | _ => .panic),
  ("NewActionPushMpls", mkF fun | [.num et] => ret1 (ActionPush.new Gen.openflow13.ActionType_PushMpls et) | _ => .panic),
  ("NewActionPopVlan", mkF fun | [] => ret1 ActionPopVlan.new | _ => .panic),
  ("NewActionPopMpls", mkF fun | [.num et] => ret1 (ActionPopMpls.new et) | _ => .panic),
  ("NewActionSetField", mkF fun | [f] => do let v ← ActionSetField.new f; ret1 v | _ => .panic),
  ("NewNxActionHeader", mkF fun | [.num st] => ret1 (NXActionHeader.new st) | _ => .panic),
  ("NewNXActionConjunction", mkF fun | [.num c, .num nc, .num id] => ret1 (NXActionConjunction.new c nc id) | _ => .panic),
  ("NewNXActionConnTrack", mkF fun | [] => ret1 NXActionConnTrack.new | _ => .panic),
  ("NewNXActionRegLoad", mkF fun | [.num ofs, dst, .num val] => ret1 (NXActionRegLoad.new ofs dst val) | _ => .panic),
  ("NewNXActionRegMove", mkF fun | [.num nb, .num so, .num dso, sf, df] => ret1 (NXActionRegMove.new nb so dso sf df) | _ => .panic),
  ("NewNXActionResubmit", mkF fun | [.num ip] => do let v ← NXActionResubmit.new ip; ret1 v | _ => .panic),
  ("NewNXActionResubmitTableAction", mkF fun
    | [.num ip, .num t] => ret1 (NXActionResubmitTable.new Gen.openflow13.NXAST_RESUBMIT_TABLE ip t 0) | _ => .panic),
  ("NewNXActionResubmitTableCT", mkF fun
    | [.num ip, .num t] => ret1 (NXActionResubmitTable.new Gen.openflow13.NXAST_CT_RESUBMIT ip t 1) | _ => .panic),
  ("NewNXActionResubmitTableCTNoInPort", mkF fun
    | [.num t] => ret1 (NXActionResubmitTable.new Gen.openflow13.NXAST_CT_RESUBMIT Gen.openflow13.OFPP_IN_PORT t 1) | _ => .panic),
  ("NewNXActionCTNAT", mkF fun | [] => ret1 NXActionCTNAT.new | _ => .panic),
  ("NewOutputFromField", mkF fun | [sf, .num ofs] => ret1 (NXActionOutputReg.new sf ofs 0xffff) | _ => .panic),
  ("NewOutputFromFieldWithMaxLen", mkF fun | [sf, .num ofs, .num ml] => ret1 (NXActionOutputReg.new sf ofs ml) | _ => .panic),
  ("NewNXActionCTClear", mkF fun | [] => ret1 NXActionCTClear.new | _ => .panic),
  ("NewNXActionDecTTL", mkF fun | [] => ret1 NXActionDecTTL.new | _ => .panic),
  ("NewNXActionDecTTLCntIDs", mkF fun | .num c :: ids => ret1 (NXActionDecTTLCntIDs.new c ids) | _ => .panic),
  ("NewLearnHeaderMatchFromValue", mkF fun | [.num nb] => ret1 (NXLearnSpecHeader.new 1 0 0 nb) | _ => .panic),
  ("NewLearnHeaderMatchFromField", mkF fun | [.num nb] => ret1 (NXLearnSpecHeader.new 0 0 0 nb) | _ => .panic),
  ("NewLearnHeaderLoadFromValue", mkF fun | [.num nb] => ret1 (NXLearnSpecHeader.new 1 1 0 nb) | _ => .panic),
  ("NewLearnHeaderLoadFromField", mkF fun | [.num nb] => ret1 (NXLearnSpecHeader.new 0 1 0 nb) | _ => .panic),
  ("NewLearnHeaderOutputFromField", mkF fun | [.num nb] => ret1 (NXLearnSpecHeader.new 0 0 1 nb) | _ => .panic),
  ("NewNXActionLearn", mkF fun | [] => ret1 NXActionLearn.new | _ => .panic),
  ("NewNXActionNote", mkF fun | [] => ret1 NXActionNote.new | _ => .panic),
  ("NewNXActionRegLoad2", mkF fun | [f] => ret1 (NXActionRegLoad2.new f) | _ => .panic),
  ("NewNXActionController", mkF fun | [.num id] => ret1 (NXActionController.new id) | _ => .panic),
  ("DecodeAction", mkF fun
    | [.bytes b] => do let a ← DecodeAction (b.length + 1) (fnSlice b); ret1 a
    | _ => .panic),
  ("DecodeNxAction", mkF fun
    | [.bytes b] => do let a ← DecodeNxAction (fnSlice b); ret1 a
    | _ => .panic)
]

/-- `Header()` of every Action kind: the embedded ActionHeader (NX kinds: through the embedded *NXActionHeader, nil ⇒ panic).
    `NXHeader()` of NX kinds: the embedded pointer itself. Read-only use (the Go results alias the receiver). -/
def headerOf : V → R (V × List V)
  | .obj "ActionHeader" fs => .ok (.obj "ActionHeader" fs, [.obj "ActionHeader" fs])
  | .obj "NXActionHeader" [ah, a, b] => .ok (.obj "NXActionHeader" [ah, a, b], [ah])
  | .obj k (.obj "ActionHeader" fs :: r) => .ok (.obj k (.obj "ActionHeader" fs :: r), [.obj "ActionHeader" fs])
  | .obj k (.obj "NXActionHeader" [ah, a, b] :: r) => .ok (.obj k (.obj "NXActionHeader" [ah, a, b] :: r), [ah])
  | _ => .panic
def nxHeaderOf : V → R (V × List V)
  | .obj "NXActionHeader" fs => .ok (.obj "NXActionHeader" fs, [.obj "NXActionHeader" fs])
  | .obj k (h :: r) => .ok (.obj k (h :: r), [h])
  | _ => .panic

def plainKinds : List String := ["ActionHeader", "ActionOutput", "ActionSetqueue", "ActionGroup", "ActionMplsTtl", "ActionNwTtl",
  "ActionDecNwTtl", "ActionPush", "ActionPopVlan", "ActionPopMpls", "ActionSetField"]
def nxKinds : List String := ["NXActionHeader", "NXActionConjunction", "NXActionConnTrack", "NXActionRegLoad", "NXActionRegMove",
  "NXActionResubmit", "NXActionResubmitTable", "NXActionCTNAT", "NXActionOutputReg", "NXActionCTClear", "NXActionDecTTL",
  "NXActionDecTTLCntIDs", "NXActionLearn", "NXActionNote", "NXActionRegLoad2", "NXActionController"]

def methodsAction : MethodTab :=
  (plainKinds ++ nxKinds).map (fun k => (k ++ ".Header", mkM fun v _ => headerOf v)) ++
  nxKinds.map (fun k => (k ++ ".NXHeader", mkM fun v _ => nxHeaderOf v)) ++ [
  ("NXActionConnTrack.Commit", mkM fun v _ => NXActionConnTrack.commit v),
  ("NXActionConnTrack.Force", mkM fun v _ => NXActionConnTrack.force v),
  ("NXActionConnTrack.Table", mkM fun v as => match as with | [.num t] => NXActionConnTrack.table t v | _ => .panic),
  ("NXActionConnTrack.ZoneImm", mkM fun v as => match as with | [.num z] => NXActionConnTrack.zoneImm z v | _ => .panic),
  ("NXActionConnTrack.ZoneRange", mkM fun v as => match as with | [f, r] => NXActionConnTrack.zoneRange f r v | _ => .panic),
  ("NXActionConnTrack.AddAction", mkM fun v as => do let v' ← NXActionConnTrack.addActions v as; NXActionConnTrack.chain v'),
  ("NXActionResubmitTable.IsCT", mkM fun v _ => match v with
    | .obj "NXActionResubmitTable" [_, _, _, _, ct] => .ok (v, [ct]) | _ => .panic),
  ("NXActionCTNAT.SetSNAT", mkM fun v _ => do
    let v' ← NXActionCTNAT.setFlag Gen.openflow13.NX_NAT_F_DST Gen.openflow13.NX_NAT_F_SRC v; upd v'),
  ("NXActionCTNAT.SetDNAT", mkM fun v _ => do
    let v' ← NXActionCTNAT.setFlag Gen.openflow13.NX_NAT_F_SRC Gen.openflow13.NX_NAT_F_DST v; upd v'),
  ("NXActionCTNAT.SetProtoHash", mkM fun v _ => do
    let v' ← NXActionCTNAT.setFlag Gen.openflow13.NX_NAT_F_PROTO_RANDOM Gen.openflow13.NX_NAT_F_PROTO_HASH v; upd v'),
  ("NXActionCTNAT.SetRandom", mkM fun v _ => do
    let v' ← NXActionCTNAT.setFlag Gen.openflow13.NX_NAT_F_PROTO_HASH Gen.openflow13.NX_NAT_F_PROTO_RANDOM v; upd v'),
  ("NXActionCTNAT.SetPersistent", mkM fun v _ => do
    let v' ← NXActionCTNAT.setFlag 0 Gen.openflow13.NX_NAT_F_PERSISTENT v; upd v'),
  ("NXActionCTNAT.SetRangeIPv4Min", mkM fun v as => match as with
    | [x] => do let v' ← NXActionCTNAT.setRange 0 Gen.openflow13.NX_NAT_RANGE_IPV4_MIN 4 x v; upd v' | _ => .panic),
  ("NXActionCTNAT.SetRangeIPv4Max", mkM fun v as => match as with
    | [x] => do let v' ← NXActionCTNAT.setRange 1 Gen.openflow13.NX_NAT_RANGE_IPV4_MAX 4 x v; upd v' | _ => .panic),
  ("NXActionCTNAT.SetRangeIPv6Min", mkM fun v as => match as with
    | [x] => do let v' ← NXActionCTNAT.setRange 2 Gen.openflow13.NX_NAT_RANGE_IPV6_MIN 16 x v; upd v' | _ => .panic),
  ("NXActionCTNAT.SetRangeIPv6Max", mkM fun v as => match as with
    | [x] => do let v' ← NXActionCTNAT.setRange 3 Gen.openflow13.NX_NAT_RANGE_IPV6_MAX 16 x v; upd v' | _ => .panic),
  ("NXActionCTNAT.SetRangeProtoMin", mkM fun v as => match as with
    | [x] => do let v' ← NXActionCTNAT.setRange 4 Gen.openflow13.NX_NAT_RANGE_PROTO_MIN 2 x v; upd v' | _ => .panic),
  ("NXActionCTNAT.SetRangeProtoMax", mkM fun v as => match as with
    | [x] => do let v' ← NXActionCTNAT.setRange 5 Gen.openflow13.NX_NAT_RANGE_PROTO_MAX 2 x v; upd v' | _ => .panic)
]

end OFV.Model
