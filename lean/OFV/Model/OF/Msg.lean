/-
  placeholder — to be replaced by the port (see /verif/PORTING.md)
-/
import OFV.Model.OF.Instr
import OFV.Model.Proto
namespace OFV.Model
open OFV OFV.Go

def kindsMsg : KindTab := []
def funcsMsg : FuncTab := []
def methodsMsg : MethodTab := []

end OFV.Model
