/-
  openflow13/openflow13.go, port.go, multipart.go, nxt_message.go, bundles.go — top-level messages and Parse.

  Layouts (fields positionally; an embedded struct is one field):
    SwitchConfig(Header,Flags,MissSendLen)            ErrorMsg(Header,Type,Code,u.Buffer(x..))
    VendorError(ErrorMsg|~,ExperimenterID)            PacketOut(Header,BufferId,InPort,ActionsLen,pad,[Action],Data)
    PacketIn(Header,BufferId,TotalLen,Reason,TableId,Cookie,Match,pad,p.Ethernet)
    SwitchFeatures(Header,DPID,Buffers,NumTables,AuxilaryId,pad,Capabilities,Actions,[PhyPort])
    VendorHeader(Header,Vendor,ExperimenterType,VendorData)
    PhyPort(PortNo,pad,HWAddr,pad2,Name,Config,State,Curr,Advertised,Supported,Peer,CurrSpeed,MaxSpeed)
    PortMod(Header,PortNo,pad,HWAddr,pad2,Config,Mask,Advertise,pad3)
    MultipartRequest(Header,Type,Flags,pad,Body)      MultipartReply(Header,Type,Flags,pad,[Body])
    DescStats(Mfr,HW,SW,Serial,DP)                    FlowStatsRequest / AggregateStatsRequest(TableId,pad,OutPort,OutGroup,pad2,Cookie,CookieMask,Match)
    FlowStats(Length,TableId,pad,DurationSec,DurationNSec,Priority,IdleTimeout,HardTimeout,Flags,pad2,Cookie,PacketCount,ByteCount,Match,[Instruction])
    AggregateStats(PacketCount,ByteCount,FlowCount,pad)
    TableStats(TableId,pad,Name,Wildcards,MaxEntries,ActiveCount,LookupCount,MatchedCount)
    PortStatsRequest(PortNo,pad)   PortStats(PortNo,pad,12 counters)   QueueStatsRequest(PortNo,pad,QueueId)
    QueueStats(PortNo,pad,QueueId,TxBytes,TxPackets,TxErrors)          PortStatus(Header,Reason,pad,PhyPort)
    ControllerID(pad[6],ID)   TLVTableMap(OptClass,OptType,OptLength,Index,pad[2])   TLVTableMod(Command,pad[6],[*TLVTableMap])
    TLVTableReply(MaxSpace,MaxFields,reserved[10],[*TLVTableMap])      BundleControl(BundleID,Type,Flags)
    BundlePropertyExperimenter(Type,Length,ExperimenterID,ExperimenterType,data)
    BundleAdd(BundleID,pad[2],Flags,Message,[BundlePropertyExperimenter])

  Recursion: a `util.Message`-typed field (PacketOut.Data, VendorHeader.VendorData, BundleAdd.Message, multipart bodies)
  may hold any kind.  The container kinds take the function to use for their children as a parameter (`lenWith`,
  `marshalWith`, `unmarshalWith`); `msgAnyLenD / msgAnyMarshalD` (encoders, depth 8) and `parseD` (decoder, depth from the
  buffer size) tie the knot by structural recursion on a depth counter.

  Names used from the other model files: Header.* / Hello.unmarshal / newHeader / kindsHeader (Header.lean);
  Match.lenM / marshalM / unmarshal / unmarshalP / new, kindsMatch (Match.lean — `unmarshalP : V → Slice → R (V × Bool)`
  = receiver after the call incl. the partial state, and whether an error was returned: FlowStats, FlowStatsRequest and
  AggregateStatsRequest keep going after a Match error); Action.lenM / marshalM, DecodeAction, kindsAction (Action.lean);
  Instruction.lenM / marshalM, DecodeInstr, FlowMod.unmarshal, FlowRemoved.unmarshal, kindsInstr (Instr.lean);
  PEthernet.lenM / marshalM / unmarshal / zero, UBuffer.lenM / marshalM / unmarshal / zero, kindsProto (Proto.lean).
-/
import OFV.Model.OF.Instr
import OFV.Model.Proto
namespace OFV.Model
open OFV OFV.Go

/-! ### helpers -/

/-- `err := x.UnmarshalBinary(d)` where the code goes on: (receiver after, error returned?).  Only for decoders that
    leave the receiver untouched when they return an error (Header: the length check comes first). -/
def msgTryU (f : V → Slice → R V) (recv : V) (d : Slice) : R (V × Bool) :=
  match f recv d with
  | .ok v => .ok (v, false)
  | .err => .ok (recv, true)
  | .panic => .panic
  | .spin => .spin

/-- `b, err = x.MarshalBinary()` whose error is overwritten afterwards: an erroring child contributes no bytes -/
def msgTryM (f : V → R (Bytes × V)) (v : V) : R (Bytes × V) :=
  match f v with
  | .err => .ok ([], v)
  | r => r

/-- a `for cond { … }` loop whose progress is not monotone (uint16 cursors wrap).  One iteration is a function of the
    cursor only, so the loop does not terminate iff a cursor value repeats: immediately (`cursor` unchanged) or after
    at most 65536 further iterations (`fuel`). -/
def msgLoopW {σ} (fuel : Nat) (cond : σ → Bool) (cursor : σ → Nat) (body : σ → R σ) (s : σ) : R σ :=
  match fuel with
  | 0 => .spin
  | f + 1 =>
    if cond s then
      match body s with
      | .ok s' => if cursor s' = cursor s then .spin else msgLoopW f cond cursor body s'
      | .err => .err
      | .panic => .panic
      | .spin => .spin
    else .ok s

def msgHdrType (t : Nat) (h : V) : V :=
  match h with
  | .obj "Header" [a, _, c, d] => .obj "Header" [a, V.u8 (n8 t), c, d]
  | v => v

/-- NewOfp13Header() with Type set (Xid modelled as 0, programs overwrite it) -/
def msgOfpHeader (t : Nat) : V := msgHdrType t (newHeader Gen.openflow13.VERSION 0)

def msgMatchZero : V := .obj "Match" [.num 0, .num 0, .list []]

/-! ### port.go -/

namespace PhyPort
def zero : V := .obj "PhyPort" [.num 0, .bytes [], .bytes [], .bytes [], .bytes [], .num 0, .num 0, .num 0, .num 0,
  .num 0, .num 0, .num 0, .num 0]
/-- NewPhyPort() -/
def new : V := .obj "PhyPort" [.num 0, .bytes [], .bytes (zeros Gen.openflow13.ETH_ALEN), .bytes [], .bytes (zeros 16),
  .num 0, .num 0, .num 0, .num 0, .num 0, .num 0, .num 0, .num 0]

def len : V → R UInt16
  | .obj "PhyPort" [_, _, .bytes hw, _, .bytes name, _, _, _, _, _, _, _, _] =>
    .ok (4 + 6 + n16 (hw.length + name.length) + 32)
  | _ => .panic
def lenM (v : V) : R (UInt16 × V) := do let l ← len v; same l v

def marshalM (v : V) : R (Bytes × V) := do
  let l ← len v
  match v with
  | .obj "PhyPort" [.num no, .bytes pad, .bytes hw, .bytes pad2, .bytes name, .num cfg, .num st, .num cur, .num adv,
      .num sup, .num peer, .num cs, .num ms] =>
    let bs ← fill l.toNat [pU32 no, pCopyAdv pad 4, pCopy hw, pCopyAdv pad2 2, pCopy name,
      pU32 cfg, pU32 st, pU32 cur, pU32 adv, pU32 sup, pU32 peer, pU32 cs, pU32 ms]
    same bs v
  | _ => .panic

def unmarshal (recv : V) (data : Slice) : R V :=
  match recv with
  | .obj "PhyPort" [_, .bytes pad, .bytes hw, .bytes pad2, .bytes name, _, _, _, _, _, _, _, _] => do
    let no ← data.u32From 0
    let s1 ← data.sliceR 4 8
    let s2 ← data.sliceR 8 14
    let s3 ← data.sliceR 14 16
    let s4 ← data.sliceR 16 32
    let cfg ← data.u32From 32
    let st ← data.u32From 36
    let cur ← data.u32From 40
    let adv ← data.u32From 44
    let sup ← data.u32From 48
    let peer ← data.u32From 52
    let cs ← data.u32From 56
    let ms ← data.u32From 60
    pure (.obj "PhyPort" [V.u32 no, .bytes (copyInto pad s1.bytes), .bytes (copyInto hw s2.bytes),
      .bytes (copyInto pad2 s3.bytes), .bytes (copyInto name s4.bytes), V.u32 cfg, V.u32 st, V.u32 cur, V.u32 adv,
      V.u32 sup, V.u32 peer, V.u32 cs, V.u32 ms])
  | _ => .panic
end PhyPort

namespace PortMod
def zero : V := .obj "PortMod" [Header.zero, .num 0, .bytes [], .bytes [], .bytes [], .num 0, .num 0, .num 0, .bytes []]
/-- NewPortMod(port): header from NewOfp13Header() -/
def new (port : Nat) : V := .obj "PortMod" [msgOfpHeader Gen.openflow13.Type_PortMod, V.u32 (n32 port), .bytes (zeros 4),
  .bytes (zeros Gen.openflow13.ETH_ALEN), .bytes (zeros 2), .num 0, .num 0, .num 0, .bytes (zeros 4)]

def lenM (v : V) : R (UInt16 × V) := same (8 + 4 + 4 + n16 Gen.openflow13.ETH_ALEN + 2 + 12 + 4) v

def marshalM (v : V) : R (Bytes × V) := do
  let (l, v) ← lenM v
  match v with
  | .obj "PortMod" [h, .num no, .bytes pad, .bytes hw, .bytes pad2, .num cfg, .num mask, .num adv, .bytes pad3] =>
    let h := Header.setLength l h
    let hb ← Header.bytes h
    let b ← fill 32 [pU32 no, pCopyAdv pad 4, pCopyAdv hw Gen.openflow13.ETH_ALEN, pCopyAdv pad2 2, pU32 cfg, pU32 mask,
      pU32 adv, pCopyAdv pad3 4]
    .ok (hb ++ b, .obj "PortMod" [h, .num no, .bytes pad, .bytes hw, .bytes pad2, .num cfg, .num mask, .num adv, .bytes pad3])
  | _ => .panic

def unmarshal (recv : V) (data : Slice) : R V :=
  match recv with
  | .obj "PortMod" [h0, _, .bytes pad, .bytes hw, .bytes pad2, _, _, _, .bytes pad3] => do
    let (h, e) ← msgTryU Header.unmarshal h0 data
    let no ← data.u32From 8
    let s1 ← data.sliceR 12 16
    -- a receiver whose HWAddr is not 6 bytes long gets a fresh 6-byte address; `copy(p.HWAddr, data[n:n+ETH_ALEN])`
    let hw := if hw.length ≠ Gen.openflow13.ETH_ALEN then zeros Gen.openflow13.ETH_ALEN else hw
    let s2 ← data.sliceR 16 (16 + Gen.openflow13.ETH_ALEN)
    let n := 16 + Gen.openflow13.ETH_ALEN
    let s3 ← data.sliceR n (n + 2)
    let cfg ← data.u32From (n + 2)
    let mask ← data.u32From (n + 6)
    let adv ← data.u32From (n + 10)
    let s4 ← data.fromR (n + 14)
    if e then .err else
    pure (.obj "PortMod" [h, V.u32 no, .bytes (copyInto pad s1.bytes), .bytes (copyInto hw s2.bytes),
      .bytes (copyInto pad2 s3.bytes), V.u32 cfg, V.u32 mask, V.u32 adv, .bytes (copyInto pad3 s4.bytes)])
  | _ => .panic
end PortMod

/-! ### openflow13.go: SwitchConfig, ErrorMsg, SwitchFeatures, PacketIn -/

namespace SwitchConfig
def zero : V := .obj "SwitchConfig" [Header.zero, .num 0, .num 0]
/-- NewSetConfig() -/
def new : V := .obj "SwitchConfig" [msgOfpHeader Gen.openflow13.Type_SetConfig, .num 0, .num 0]
def lenM (v : V) : R (UInt16 × V) := same 12 v
def marshalM (v : V) : R (Bytes × V) := do
  let (l0, v) ← lenM v
  let (l1, v) ← lenM v
  match v with
  | .obj "SwitchConfig" [h, .num fl, .num ms] =>
    let h := Header.setLength l1 h
    let hb ← Header.bytes h
    let bs ← fill l0.toNat [pCopy hb, pU16 fl, pU16 ms]
    .ok (bs, .obj "SwitchConfig" [h, .num fl, .num ms])
  | _ => .panic
def unmarshal (recv : V) (data : Slice) : R V :=
  match recv with
  | .obj "SwitchConfig" [h0, _, _] => do
    let (h, e) ← msgTryU Header.unmarshal h0 data
    let fl ← data.u16From 8
    let ms ← data.u16From 10
    if e then .err else pure (.obj "SwitchConfig" [h, V.u16 fl, V.u16 ms])
  | _ => .panic
end SwitchConfig

namespace ErrorMsg
/-- new(ErrorMsg) -/
def zero : V := .obj "ErrorMsg" [Header.zero, .num 0, .num 0, UBuffer.zero]
/-- NewErrorMsg(): header from the 1.3 generator with type OFPT_ERROR, an empty buffer -/
def new : V := .obj "ErrorMsg" [msgOfpHeader Gen.openflow13.Type_Error, .num 0, .num 0, UBuffer.zero]
def lenM : V → R (UInt16 × V)
  | .obj "ErrorMsg" [h, t, c, d] => do
    let (l, d) ← UBuffer.lenM d
    pure (8 + 2 + 2 + l, .obj "ErrorMsg" [h, t, c, d])
  | _ => .panic
/-- `e.Header.Length = e.Len()` first -/
def marshalM (v : V) : R (Bytes × V) := do
  let (l0, v) ← lenM v
  let (l, v) ← lenM v
  match v with
  | .obj "ErrorMsg" [h, .num t, .num c, d] =>
    let h := Header.setLength l0 h
    let hb ← Header.bytes h
    let (db, d) ← UBuffer.marshalM d
    let bs ← fill l.toNat [pCopy hb, pU16 t, pU16 c, pCopy db]
    .ok (bs, .obj "ErrorMsg" [h, .num t, .num c, d])
  | _ => .panic
/-- every error is dropped: the result is always nil (or a panic) -/
def unmarshal (recv : V) (data : Slice) : R V :=
  match recv with
  | .obj "ErrorMsg" [h0, _, _, d0] => do
    let (h, _) ← msgTryU Header.unmarshal h0 data
    let t ← data.u16From 8
    let c ← data.u16From 10
    let s ← data.fromR 12
    let d ← UBuffer.unmarshal d0 s
    pure (.obj "ErrorMsg" [h, V.u16 t, V.u16 c, d])
  | _ => .panic
def errType : V → Nat
  | .obj "ErrorMsg" [_, .num t, _, _] => t
  | _ => 0
end ErrorMsg

namespace VendorError
/-- new(VendorError): the embedded *ErrorMsg is nil -/
def zero : V := .obj "VendorError" [.nil, .num 0]
/-- NewBundleError() -/
def new : V := .obj "VendorError" [.obj "ErrorMsg" [msgOfpHeader Gen.openflow13.Type_Error, .num Gen.openflow13.ET_EXPERIMENTER, .num 0, UBuffer.zero],
  .num Gen.openflow13.ONF_EXPERIMENTER_ID]
def lenM : V → R (UInt16 × V)
  | .obj "VendorError" [.nil, _] => .panic
  | .obj "VendorError" [e, x] => do
    let (l, e) ← ErrorMsg.lenM e
    pure (l + 4, .obj "VendorError" [e, x])
  | _ => .panic
def marshalM (v : V) : R (Bytes × V) := do
  let (l0, v) ← lenM v            -- e.Header.Length = e.Len()
  let (l, v) ← lenM v
  match v with
  | .obj "VendorError" [.obj "ErrorMsg" [h, .num t, .num c, d], .num x] =>
    let h := Header.setLength l0 h
    let hb ← Header.bytes h
    let (db, d) ← UBuffer.marshalM d
    let bs ← fill l.toNat [pCopy hb, pU16 t, pU16 c, pU32 x, pCopy db]
    .ok (bs, .obj "VendorError" [.obj "ErrorMsg" [h, .num t, .num c, d], .num x])
  | _ => .panic
def unmarshal (recv : V) (data : Slice) : R V :=
  match recv with
  | .obj "VendorError" [_, _] => do
    -- e.ErrorMsg = new(ErrorMsg)
    let h ← Header.unmarshal Header.zero data
    let t ← data.u16From 8
    let c ← data.u16From 10
    let x ← data.u32From 12
    let s ← data.fromR 16
    let d ← UBuffer.unmarshal UBuffer.zero s
    pure (.obj "VendorError" [.obj "ErrorMsg" [h, V.u16 t, V.u16 c, d], V.u32 x])
  | _ => .panic
end VendorError

namespace SwitchFeatures
def zero : V := .obj "SwitchFeatures" [Header.zero, .bytes [], .num 0, .num 0, .num 0, .bytes [], .num 0, .num 0, .list []]
/-- NewFeaturesReply() -/
def new : V := .obj "SwitchFeatures" [msgOfpHeader Gen.openflow13.Type_FeaturesReply, .bytes (zeros 8), .num 0, .num 0, .num 0,
  .bytes (zeros 2), .num 0, .num 0, .list []]

/-- Ports is a slice of struct VALUES: the loop works on copies (PhyPort.Len changes nothing anyway) -/
def lenM : V → R (UInt16 × V)
  | .obj "SwitchFeatures" [h, .bytes dpid, b, nt, ax, pad, caps, acts, .list ports] => do
    let (ls, _) ← mapM2 PhyPort.lenM ports
    pure (8 + n16 dpid.length + 16 + sum16 ls, .obj "SwitchFeatures" [h, .bytes dpid, b, nt, ax, pad, caps, acts, .list ports])
  | _ => .panic

/-- header, DPID, the fixed part, then the ports -/
def marshalM (v : V) : R (Bytes × V) := do
  let (l0, v) ← lenM v
  let (l1, v) ← lenM v
  match v with
  | .obj "SwitchFeatures" [h, dpid, .num b, .num nt, .num ax, .bytes pad, .num caps, .num acts, .list ports] =>
    let h := Header.setLength l1 h
    let hb ← Header.bytes h
    let (pbs, _) ← mapM2 PhyPort.marshalM ports
    let bs ← fill l0.toNat ([pCopy hb, pCopy dpid.asBytes, pU32 b, pU8 nt, pU8 ax, pCopy pad, pU32 caps, pU32 acts] ++ pbs.map pCopy)
    .ok (bs, .obj "SwitchFeatures" [h, dpid, .num b, .num nt, .num ax, .bytes pad, .num caps, .num acts, .list ports])
  | _ => .panic

structure St where
  next : Nat
  ran : Bool

/-- the decoded ports are thrown away (`p` is never appended to s.Ports); once the loop has run, the header's error
    has been overwritten by PhyPort's nil -/
def unmarshal (recv : V) (data : Slice) : R V :=
  match recv with
  | .obj "SwitchFeatures" [h0, .bytes dpid, _, _, _, .bytes pad, _, _, ports] => do
    let (h, e) ← msgTryU Header.unmarshal h0 data
    let s1 ← data.fromR 8
    let n := 8 + dpid.length
    let b ← data.u32From n
    let nt ← data.byteAt (n + 4)
    let ax ← data.byteAt (n + 5)
    let s2 ← data.fromR (n + 6)
    let n := n + 6 + pad.length
    let caps ← data.u32From n
    let acts ← data.u32From (n + 4)
    let st ← goLoop (σ := St) (data.len + 1) (fun s => s.next < data.len) (·.next)
      (fun s => do
        let d ← data.fromR s.next
        let p ← PhyPort.unmarshal PhyPort.new d
        let l ← PhyPort.len p
        pure { next := s.next + l.toNat, ran := true })
      { next := n + 8, ran := false }
    if e && !st.ran then .err else
    pure (.obj "SwitchFeatures" [h, .bytes (copyInto dpid s1.bytes), V.u32 b, V.u8 nt, V.u8 ax, .bytes (copyInto pad s2.bytes),
      V.u32 caps, V.u32 acts, ports])
  | _ => .panic
end SwitchFeatures

namespace PacketIn
/-- new(PacketIn) -/
def zero : V := .obj "PacketIn" [Header.zero, .num 0, .num 0, .num 0, .num 0, .num 0, msgMatchZero, .bytes [], PEthernet.zero]
/-- NewPacketIn() -/
def new : V := .obj "PacketIn" [msgOfpHeader Gen.openflow13.Type_PacketIn, .num 4294967295, .num 0, .num 0, .num 0, .num 0,
  Match.new, .bytes [], PEthernet.zero]

def lenM : V → R (UInt16 × V)
  | .obj "PacketIn" [h, b, t, r, ti, c, m, pad, eth] => do
    let (lm, m) ← Match.lenM m
    let (le, eth) ← PEthernet.lenM eth
    pure (8 + 16 + lm + 2 + le, .obj "PacketIn" [h, b, t, r, ti, c, m, pad, eth])
  | _ => .panic

/-- `p.Header.Length = p.Len()`, header, the 16 fixed bytes, match, pad, packet -/
def marshalM (v : V) : R (Bytes × V) := do
  let (l, v) ← lenM v
  match v with
  | .obj "PacketIn" [h, .num b, .num t, .num r, .num ti, .num c, m, .bytes pad, eth] => do
    let h := Header.setLength l h
    let hb ← Header.bytes h
    let (mb, m) ← msgTryM Match.marshalM m
    let (eb, eth) ← PEthernet.marshalM eth
    pure (hb ++ (be32 (n32 b) ++ be16 (n16 t) ++ [n8 r, n8 ti] ++ be64 (n64 c)) ++ mb ++ makeCopy 2 pad ++ eb,
      .obj "PacketIn" [h, .num b, .num t, .num r, .num ti, .num c, m, .bytes pad, eth])
  | _ => .panic

def unmarshal (recv : V) (data : Slice) : R V :=
  match recv with
  | .obj "PacketIn" [h0, _, _, _, _, _, m0, .bytes pad, eth0] => do
    let (h, _) ← msgTryU Header.unmarshal h0 data     -- this error is overwritten below
    let b ← data.u32From 8
    let t ← data.u16From 12
    let r ← data.byteAt 14
    let ti ← data.byteAt 15
    let c ← data.u64From 16
    let dm ← data.fromR 24
    let m ← Match.unmarshal m0 dm
    let (lm, m) ← Match.lenM m
    let n : UInt16 := 24 + lm
    let s ← data.fromR n.toNat
    let n := n + 2
    let de ← data.fromR n.toNat
    let eth ← PEthernet.unmarshal eth0 de
    pure (.obj "PacketIn" [h, V.u32 b, V.u16 t, V.u8 r, V.u8 ti, V.u64 c, m, .bytes (copyInto pad s.bytes), eth])
  | _ => .panic
end PacketIn

/-! ### multipart.go: stats bodies -/

namespace DescStats
def zero : V := .obj "DescStats" [.bytes [], .bytes [], .bytes [], .bytes [], .bytes []]
/-- NewDescStats() -/
def new : V := .obj "DescStats" [.bytes (zeros Gen.openflow13.DESC_STR_LEN), .bytes (zeros Gen.openflow13.DESC_STR_LEN),
  .bytes (zeros Gen.openflow13.DESC_STR_LEN), .bytes (zeros Gen.openflow13.SERIAL_NUM_LEN), .bytes (zeros Gen.openflow13.DESC_STR_LEN)]
def len : UInt16 := n16 (Gen.openflow13.DESC_STR_LEN * 4 + Gen.openflow13.SERIAL_NUM_LEN)
def lenM (v : V) : R (UInt16 × V) := same len v
def marshalM : V → R (Bytes × V)
  | .obj "DescStats" [.bytes a, .bytes b, .bytes c, .bytes d, .bytes e] => do
    let bs ← fill len.toNat [pCopy a, pCopy b, pCopy c, pCopy d, pCopy e]
    same bs (.obj "DescStats" [.bytes a, .bytes b, .bytes c, .bytes d, .bytes e])
  | _ => .panic
/-- every field is filled up to its CURRENT length (nothing for a `new(DescStats)`) -/
def unmarshal (recv : V) (data : Slice) : R V :=
  match recv with
  | .obj "DescStats" [.bytes a, .bytes b, .bytes c, .bytes d, .bytes e] => do
    let sa ← data.fromR 0
    let n := a.length
    let sb ← data.fromR n
    let n := n + b.length
    let sc ← data.fromR n
    let n := n + c.length
    let sd ← data.fromR n
    let n := n + d.length
    let se ← data.fromR n
    pure (.obj "DescStats" [.bytes (copyInto a sa.bytes), .bytes (copyInto b sb.bytes), .bytes (copyInto c sc.bytes),
      .bytes (copyInto d sd.bytes), .bytes (copyInto e se.bytes)])
  | _ => .panic
end DescStats

/- shared by FlowStatsRequest and AggregateStatsRequest (identical layout and code, except the error handling) -/
namespace StatsReq
def lenM (k : String) : V → R (UInt16 × V)
  | .obj k' [t, p, op, og, p2, c, cm, m] =>
    if k' ≠ k then .panic else do
    let (lm, m) ← Match.lenM m
    pure (lm + 32, .obj k [t, p, op, og, p2, c, cm, m])
  | _ => .panic
def marshalM (k : String) : V → R (Bytes × V)
  | .obj k' [.num t, .bytes p, .num op, .num og, .bytes p2, .num c, .num cm, m] =>
    if k' ≠ k then .panic else do
    let bs ← fill 32 [pU8 t, pCopyAdv p 3, pU32 op, pU32 og, pCopyAdv p2 4, pU64 c, pU64 cm]
    let (mb, m) ← Match.marshalM m
    pure (bs ++ mb, .obj k [.num t, .bytes p, .num op, .num og, .bytes p2, .num c, .num cm, m])
  | _ => .panic
/-- (receiver after, did Match.UnmarshalBinary return an error) -/
def unmarshalP (k : String) (recv : V) (data : Slice) : R (V × Bool) :=
  match recv with
  | .obj k' [_, .bytes p, _, _, .bytes p2, _, _, m0] =>
    if k' ≠ k then .panic else do
    let t ← data.byteAt 0
    let s1 ← data.sliceR 1 4
    let op ← data.u32From 4
    let og ← data.u32From 8
    let s2 ← data.sliceR 12 16
    let c ← data.u64From 16
    let cm ← data.u64From 24
    let dm ← data.fromR 32
    let (m, e) ← Match.unmarshalP m0 dm
    let (_, m) ← Match.lenM m          -- n += int(s.Match.Len())
    pure (.obj k [V.u8 t, .bytes (copyInto p s1.bytes), V.u32 op, V.u32 og, .bytes (copyInto p2 s2.bytes), V.u64 c, V.u64 cm, m], e)
  | _ => .panic
end StatsReq

namespace FlowStatsRequest
def zero : V := .obj "FlowStatsRequest" [.num 0, .bytes [], .num 0, .num 0, .bytes [], .num 0, .num 0, msgMatchZero]
/-- NewFlowStatsRequest() -/
def new : V := .obj "FlowStatsRequest" [.num 0, .bytes (zeros 3), .num Gen.openflow13.P_ANY, .num Gen.openflow13.OFPG_ANY,
  .bytes (zeros 4), .num 0, .num 0, Match.new]
def lenM : V → R (UInt16 × V) := StatsReq.lenM "FlowStatsRequest"
def marshalM : V → R (Bytes × V) := StatsReq.marshalM "FlowStatsRequest"
def unmarshal (recv : V) (data : Slice) : R V := do
  let (v, e) ← StatsReq.unmarshalP "FlowStatsRequest" recv data
  if e then .err else pure v
end FlowStatsRequest

namespace AggregateStatsRequest
def zero : V := .obj "AggregateStatsRequest" [.num 0, .bytes [], .num 0, .num 0, .bytes [], .num 0, .num 0, msgMatchZero]
/-- NewAggregateStatsRequest(): OutPort / OutGroup stay 0 -/
def new : V := .obj "AggregateStatsRequest" [.num 0, .bytes (zeros 3), .num 0, .num 0, .bytes (zeros 4), .num 0, .num 0, Match.new]
def lenM : V → R (UInt16 × V) := StatsReq.lenM "AggregateStatsRequest"
def marshalM : V → R (Bytes × V) := StatsReq.marshalM "AggregateStatsRequest"
/-- the Match error is dropped: always nil -/
def unmarshal (recv : V) (data : Slice) : R V := do
  let (v, _) ← StatsReq.unmarshalP "AggregateStatsRequest" recv data
  pure v
end AggregateStatsRequest

namespace FlowStats
def zero : V := .obj "FlowStats" [.num 0, .num 0, .num 0, .num 0, .num 0, .num 0, .num 0, .num 0, .num 0, .bytes [],
  .num 0, .num 0, .num 0, msgMatchZero, .list []]
/-- NewFlowStats() -/
def new : V := .obj "FlowStats" [.num 0, .num 0, .num 0, .num 0, .num 0, .num 0, .num 0, .num 0, .num 0, .bytes (zeros 4),
  .num 0, .num 0, .num 0, Match.new, .list []]

def lenM : V → R (UInt16 × V)
  | .obj "FlowStats" [a, b, c, d, e, f, g, h, i, j, k, l, m, mt, .list is] => do
    let (lm, mt) ← Match.lenM mt
    let (ls, is) ← mapM2 Instruction.lenM is
    pure (48 + lm + sum16 ls, .obj "FlowStats" [a, b, c, d, e, f, g, h, i, j, k, l, m, mt, .list is])
  | _ => .panic

/-- the stored Length is written as is; err is the last child's -/
def marshalM : V → R (Bytes × V)
  | .obj "FlowStats" [.num ln, .num t, .num p, .num ds, .num dn, .num pr, .num it, .num ht, .num fl, .bytes p2,
      .num c, .num pc, .num bc, mt, .list is] => do
    let bs ← fill 48 [pU16 ln, pU8 t, pU8 p, pU32 ds, pU32 dn, pU16 pr, pU16 it, pU16 ht, pU16 fl, pCopy p2, pU64 c, pU64 pc, pU64 bc]
    let fin (mt : V) (is : List V) : V := .obj "FlowStats" [.num ln, .num t, .num p, .num ds, .num dn, .num pr, .num it, .num ht,
      .num fl, .bytes p2, .num c, .num pc, .num bc, mt, .list is]
    match is.reverse with
    | [] => do
      let (mb, mt) ← Match.marshalM mt
      pure (bs ++ mb, fin mt [])
    | last :: revInit => do
      let (mb, mt) ← msgTryM Match.marshalM mt
      let (ibs, init) ← mapM2 (msgTryM Instruction.marshalM) revInit.reverse
      let (lb, last) ← Instruction.marshalM last
      pure (bs ++ mb ++ ibs.flatten ++ lb, fin mt (init ++ [last]))
  | _ => .panic

structure ISt where
  n : Nat
  is : List V

/-- `for n < limit { instr := DecodeInstr(data[n:]); list = append(list, instr); n += int(instr.Len()) }` -/
def decodeInstrs (data : Slice) (limit : Nat) (n0 : Nat) (is0 : List V) : R (List V) := do
  let st ← goLoop (σ := ISt) (data.len + 65536) (fun s => s.n < limit) (·.n)
    (fun s => do
      let d ← data.fromR s.n
      let i ← DecodeInstr d
      let (l, i) ← Instruction.lenM i
      if l = 0 then .err else                    -- "decoded an instruction of length 0"
      let (l2, i) ← Instruction.lenM i             -- n += int(instr.Len())
      pure { n := s.n + l2.toNat, is := s.is ++ [i] })
    { n := n0, is := is0 }
  pure st.is

/-- (receiver after, did Match.UnmarshalBinary return an error): the instruction loop runs in both cases -/
def unmarshalP (recv : V) (data : Slice) : R (V × Bool) :=
  match recv with
  | .obj "FlowStats" [_, _, _, _, _, _, _, _, _, .bytes p2, _, _, _, m0, .list is0] => do
    let ln ← data.u16From 0
    let t ← data.byteAt 2
    let p ← data.byteAt 3
    let ds ← data.u32From 4
    let dn ← data.u32From 8
    let pr ← data.u16From 12
    let it ← data.u16From 14
    let ht ← data.u16From 16
    let fl ← data.u16From 18
    let s ← data.sliceR 20 24
    let c ← data.u64From 24
    let pc ← data.u64From 32
    let bc ← data.u64From 40
    let dm ← data.fromR 48
    let (mt, e) ← Match.unmarshalP m0 dm
    let (lm, mt) ← Match.lenM mt
    let is ← decodeInstrs data ln.toNat (48 + lm.toNat) is0
    pure (.obj "FlowStats" [V.u16 ln, V.u8 t, V.u8 p, V.u32 ds, V.u32 dn, V.u16 pr, V.u16 it, V.u16 ht, V.u16 fl,
      .bytes (copyInto p2 s.bytes), V.u64 c, V.u64 pc, V.u64 bc, mt, .list is], e)
  | _ => .panic
def unmarshal (recv : V) (data : Slice) : R V := do
  let (v, e) ← unmarshalP recv data
  if e then .err else pure v
end FlowStats

namespace AggregateStats
def zero : V := .obj "AggregateStats" [.num 0, .num 0, .num 0, .bytes []]
def new : V := .obj "AggregateStats" [.num 0, .num 0, .num 0, .bytes (zeros 4)]
def lenM (v : V) : R (UInt16 × V) := same 24 v
def marshalM : V → R (Bytes × V)
  | .obj "AggregateStats" [.num pc, .num bc, .num fc, .bytes pad] => do
    let bs ← fill 24 [pU64 pc, pU64 bc, pU32 fc, pCopyAdv pad 4]
    same bs (.obj "AggregateStats" [.num pc, .num bc, .num fc, .bytes pad])
  | _ => .panic
def unmarshal (recv : V) (data : Slice) : R V :=
  match recv with
  | .obj "AggregateStats" [_, _, _, .bytes pad] => do
    let pc ← data.u64From 0
    let bc ← data.u64From 8
    let fc ← data.u32From 16
    let s ← data.fromR 20
    pure (.obj "AggregateStats" [V.u64 pc, V.u64 bc, V.u32 fc, .bytes (copyInto pad s.bytes)])
  | _ => .panic
end AggregateStats

namespace TableStats
def zero : V := .obj "TableStats" [.num 0, .bytes [], .bytes [], .num 0, .num 0, .num 0, .num 0, .num 0]
def new : V := .obj "TableStats" [.num 0, .bytes (zeros 3), .bytes (zeros Gen.openflow13.MAX_TABLE_NAME_LEN), .num 0, .num 0, .num 0, .num 0, .num 0]
def len : UInt16 := 4 + n16 Gen.openflow13.MAX_TABLE_NAME_LEN + 28
def lenM (v : V) : R (UInt16 × V) := same len v
def marshalM : V → R (Bytes × V)
  | .obj "TableStats" [.num t, .bytes pad, .bytes name, .num w, .num me, .num ac, .num lc, .num mc] => do
    let bs ← fill len.toNat [pU8 t, pCopy pad, pCopy name, pU32 w, pU32 me, pU32 ac, pU64 lc, pU64 mc]
    same bs (.obj "TableStats" [.num t, .bytes pad, .bytes name, .num w, .num me, .num ac, .num lc, .num mc])
  | _ => .panic
/-- offsets follow the CURRENT lengths of pad and Name (0 for a `new(TableStats)`) -/
def unmarshal (recv : V) (data : Slice) : R V :=
  match recv with
  | .obj "TableStats" [_, .bytes pad, .bytes name, _, _, _, _, _] => do
    let t ← data.byteAt 0
    let s1 ← data.fromR 1
    let n := 1 + pad.length
    let s2 ← data.fromR n
    let n := n + name.length
    let w ← data.u32From n
    let me ← data.u32From (n + 4)
    let ac ← data.u32From (n + 8)
    let lc ← data.u64From (n + 12)
    let mc ← data.u64From (n + 20)
    pure (.obj "TableStats" [V.u8 t, .bytes (copyInto pad s1.bytes), .bytes (copyInto name s2.bytes), V.u32 w, V.u32 me,
      V.u32 ac, V.u64 lc, V.u64 mc])
  | _ => .panic
end TableStats

namespace PortStatsRequest
def zero : V := .obj "PortStatsRequest" [.num 0, .bytes []]
def new : V := .obj "PortStatsRequest" [.num 0, .bytes (zeros 6)]
def lenM (v : V) : R (UInt16 × V) := same 8 v
def marshalM : V → R (Bytes × V)
  | .obj "PortStatsRequest" [.num p, .bytes pad] => do
    let bs ← fill 8 [pU16 p, pCopy pad]
    same bs (.obj "PortStatsRequest" [.num p, .bytes pad])
  | _ => .panic
def unmarshal (recv : V) (data : Slice) : R V :=
  match recv with
  | .obj "PortStatsRequest" [_, .bytes pad] => do
    let p ← data.u16From 0
    let s ← data.fromR 2
    pure (.obj "PortStatsRequest" [V.u16 p, .bytes (copyInto pad s.bytes)])
  | _ => .panic
end PortStatsRequest

namespace PortStats
def zero : V := .obj "PortStats" ([.num 0, .bytes []] ++ List.replicate 12 (.num 0))
def new : V := .obj "PortStats" ([.num 0, .bytes (zeros 6)] ++ List.replicate 12 (.num 0))
def lenM (v : V) : R (UInt16 × V) := same 104 v
def marshalM : V → R (Bytes × V)
  | .obj "PortStats" (.num p :: .bytes pad :: cs) =>
    if cs.length ≠ 12 then .panic else do
    let bs ← fill 104 (pU16 p :: pCopy pad :: cs.map (fun c => pU64 c.asNat))
    same bs (.obj "PortStats" (.num p :: .bytes pad :: cs))
  | _ => .panic
/-- the twelve counters are read at 2+len(pad)+8i -/
def readCounters (data : Slice) (n : Nat) : Nat → R (List V)
  | 0 => .ok []
  | k + 1 => do
    let x ← data.u64From n
    let rest ← readCounters data (n + 8) k
    pure (V.u64 x :: rest)
def unmarshal (recv : V) (data : Slice) : R V :=
  match recv with
  | .obj "PortStats" (_ :: .bytes pad :: _) => do
    let p ← data.u16From 0
    let s ← data.fromR 2
    let cs ← readCounters data (2 + pad.length) 12
    pure (.obj "PortStats" (V.u16 p :: .bytes (copyInto pad s.bytes) :: cs))
  | _ => .panic
end PortStats

namespace QueueStatsRequest
def zero : V := .obj "QueueStatsRequest" [.num 0, .bytes [], .num 0]
def new : V := .obj "QueueStatsRequest" [.num 0, .bytes (zeros 2), .num 0]
def lenM (v : V) : R (UInt16 × V) := same 8 v
def marshalM : V → R (Bytes × V)
  | .obj "QueueStatsRequest" [.num p, .bytes pad, .num q] => do
    let bs ← fill 8 [pU16 p, pCopyAdv pad 2, pU32 q]
    same bs (.obj "QueueStatsRequest" [.num p, .bytes pad, .num q])
  | _ => .panic
def unmarshal (recv : V) (data : Slice) : R V :=
  match recv with
  | .obj "QueueStatsRequest" [_, .bytes pad, _] => do
    let p ← data.u16From 0
    let s ← data.fromR 2
    let q ← data.u32From 4
    pure (.obj "QueueStatsRequest" [V.u16 p, .bytes (copyInto pad s.bytes), V.u32 q])
  | _ => .panic
end QueueStatsRequest

namespace QueueStats
def zero : V := .obj "QueueStats" [.num 0, .bytes [], .num 0, .num 0, .num 0, .num 0]
def lenM (v : V) : R (UInt16 × V) := same 32 v
def marshalM : V → R (Bytes × V)
  | .obj "QueueStats" [.num p, .bytes pad, .num q, .num tb, .num tp, .num te] => do
    let bs ← fill 32 [pU16 p, pCopyAdv pad 2, pU32 q, pU64 tb, pU64 tp, pU64 te]
    same bs (.obj "QueueStats" [.num p, .bytes pad, .num q, .num tb, .num tp, .num te])
  | _ => .panic
/-- the padding is copied into whatever `pad` the receiver holds; the cursor advances by 2 -/
def unmarshal (recv : V) (data : Slice) : R V :=
  match recv with
  | .obj "QueueStats" [_, .bytes pad, _, _, _, _] => do
    let p ← data.u16From 0
    let s ← data.fromR 2
    let n := 4
    let q ← data.u32From n
    let tb ← data.u64From (n + 4)
    let tp ← data.u64From (n + 12)
    let te ← data.u64From (n + 20)
    pure (.obj "QueueStats" [V.u16 p, .bytes (copyInto pad s.bytes), V.u32 q, V.u64 tb, V.u64 tp, V.u64 te])
  | _ => .panic
end QueueStats

namespace PortStatus
/-- new(PortStatus): pad, HWAddr, Name are nil -/
def zero : V := .obj "PortStatus" [Header.zero, .num 0, .bytes [], PhyPort.zero]
/-- NewPortStatus(): Desc is NewPhyPort() -/
def new : V := .obj "PortStatus" [msgOfpHeader Gen.openflow13.Type_PortStatus, .num 0, .bytes (zeros 7), PhyPort.new]
def lenM : V → R (UInt16 × V)
  | .obj "PortStatus" [h, r, pad, d] => do
    let (l, d) ← PhyPort.lenM d
    pure (8 + 8 + l, .obj "PortStatus" [h, r, pad, d])
  | _ => .panic
def marshalM (v : V) : R (Bytes × V) := do
  let (l, v) ← lenM v
  match v with
  | .obj "PortStatus" [h, .num r, .bytes pad, d] =>
    let h := Header.setLength l h
    let hb ← Header.bytes h
    let (db, d) ← PhyPort.marshalM d
    .ok (hb ++ ([n8 r] ++ makeCopy 7 pad) ++ db, .obj "PortStatus" [h, .num r, .bytes pad, d])
  | _ => .panic
/-- the header's error is overwritten by PhyPort's (always nil) -/
def unmarshal (recv : V) (data : Slice) : R V :=
  match recv with
  | .obj "PortStatus" [h0, _, .bytes pad, d0] => do
    let (h, _) ← msgTryU Header.unmarshal h0 data
    let r ← data.byteAt 8
    let s ← data.fromR 9
    let dd ← data.fromR 16                       -- n += 7
    let d ← PhyPort.unmarshal d0 dd
    pure (.obj "PortStatus" [h, V.u8 r, .bytes (copyInto pad s.bytes), d])
  | _ => .panic
end PortStatus

/-! ### nxt_message.go -/

namespace ControllerID
def zero : V := .obj "ControllerID" [.bytes (zeros 6), .num 0]
def lenM (v : V) : R (UInt16 × V) := same 8 v
/-- the pad array is not written -/
def marshalM : V → R (Bytes × V)
  | .obj "ControllerID" [p, .num id] => same (zeros 6 ++ be16 (n16 id)) (.obj "ControllerID" [p, .num id])
  | _ => .panic
def unmarshal (recv : V) (data : Slice) : R V :=
  match recv with
  | .obj "ControllerID" [p, _] =>
    if data.len < 8 then .err else do
      let id ← data.u16From 6
      pure (.obj "ControllerID" [p, V.u16 id])
  | _ => .panic
end ControllerID

namespace TLVTableMap
def zero : V := .obj "TLVTableMap" [.num 0, .num 0, .num 0, .num 0, .bytes (zeros 2)]
/-- `len(t.pad)` of an array is a constant: Len() works on a nil *TLVTableMap too -/
def lenM (v : V) : R (UInt16 × V) := same 8 v
def marshalM : V → R (Bytes × V)
  | .obj "TLVTableMap" [.num c, .num t, .num l, .num i, p] => do
    let bs ← fill 8 [pU16 c, pU8 t, pU8 l, pU16 i]
    same bs (.obj "TLVTableMap" [.num c, .num t, .num l, .num i, p])
  | _ => .panic
def unmarshal (recv : V) (data : Slice) : R V :=
  match recv with
  | .obj "TLVTableMap" [_, _, _, _, p] =>
    if data.len < 8 then .err else do
      let c ← data.u16From 0
      let t ← data.byteAt 2
      let l ← data.byteAt 3
      let i ← data.u16From 4
      pure (.obj "TLVTableMap" [V.u16 c, V.u8 t, V.u8 l, V.u16 i, p])
  | _ => .panic

structure St where
  n : Nat
  maps : List V

/-- `for n < len(data) { m := new(TLVTableMap); if err := m.UnmarshalBinary(data[n:]) … return err; n += 8; append }` -/
def decodeList (data : Slice) (n0 : Nat) (maps0 : List V) : R (List V) := do
  let st ← goLoop (σ := St) (data.len + 1) (fun s => s.n < data.len) (·.n)
    (fun s => do
      let d ← data.fromR s.n
      let m ← unmarshal zero d
      pure { n := s.n + 8, maps := s.maps ++ [m] })
    { n := n0, maps := maps0 }
  pure st.maps
end TLVTableMap

namespace TLVTableMod
def zero : V := .obj "TLVTableMod" [.num 0, .bytes (zeros 6), .list []]
def lenM : V → R (UInt16 × V)
  | .obj "TLVTableMod" [c, p, .list ms] => do
    let (ls, ms) ← mapM2 TLVTableMap.lenM ms
    pure (8 + sum16 ls, .obj "TLVTableMod" [c, p, .list ms])
  | _ => .panic
def marshalM (v : V) : R (Bytes × V) := do
  let (l, v) ← lenM v
  match v with
  | .obj "TLVTableMod" [.num c, p, .list ms] =>
    let (bs, ms) ← mapM2 TLVTableMap.marshalM ms
    let out ← fill l.toNat (pU16 c :: pSkip 6 :: bs.map pCopy)
    .ok (out, .obj "TLVTableMod" [.num c, p, .list ms])
  | _ => .panic
def unmarshal (recv : V) (data : Slice) : R V :=
  match recv with
  | .obj "TLVTableMod" [_, p, .list ms0] =>
    if data.len < 8 then .err else do
      let c ← data.u16From 0
      let ms ← TLVTableMap.decodeList data 8 ms0
      pure (.obj "TLVTableMod" [V.u16 c, p, .list ms])
  | _ => .panic
end TLVTableMod

namespace TLVTableReply
def zero : V := .obj "TLVTableReply" [.num 0, .num 0, .bytes (zeros 10), .list []]
def lenM : V → R (UInt16 × V)
  | .obj "TLVTableReply" [a, b, r, .list ms] => do
    let (ls, ms) ← mapM2 TLVTableMap.lenM ms
    pure (16 + sum16 ls, .obj "TLVTableReply" [a, b, r, .list ms])
  | _ => .panic
def marshalM (v : V) : R (Bytes × V) := do
  let (l, v) ← lenM v
  match v with
  | .obj "TLVTableReply" [.num a, .num b, r, .list ms] =>
    let (bs, ms) ← mapM2 TLVTableMap.marshalM ms
    let out ← fill l.toNat (pU32 a :: pU16 b :: pSkip 10 :: bs.map pCopy)
    .ok (out, .obj "TLVTableReply" [.num a, .num b, r, .list ms])
  | _ => .panic
/-- no length check at all -/
def unmarshal (recv : V) (data : Slice) : R V :=
  match recv with
  | .obj "TLVTableReply" [_, _, _, .list ms0] => do
    let a ← data.u32From 0
    let b ← data.u16From 4
    let s ← data.sliceR 6 16
    let ms ← TLVTableMap.decodeList data 16 ms0
    pure (.obj "TLVTableReply" [V.u32 a, V.u16 b, .bytes (makeCopy 10 s.bytes), .list ms])
  | _ => .panic
end TLVTableReply

/-! ### bundles.go: leaf kinds -/

namespace BundleControl
def zero : V := .obj "BundleControl" [.num 0, .num 0, .num 0]
def lenM (v : V) : R (UInt16 × V) := same 8 v
def marshalM : V → R (Bytes × V)
  | .obj "BundleControl" [.num i, .num t, .num f] => do
    let bs ← fill 8 [pU32 i, pU16 t, pU16 f]
    same bs (.obj "BundleControl" [.num i, .num t, .num f])
  | _ => .panic
def unmarshal (_ : V) (data : Slice) : R V :=
  if data.len < 8 then .err else do
    let i ← data.u32From 0
    let t ← data.u16From 4
    let f ← data.u16From 6
    pure (.obj "BundleControl" [V.u32 i, V.u16 t, V.u16 f])
end BundleControl

namespace BundlePropertyExperimenter
def zero : V := .obj "BundlePropertyExperimenter" [.num 0, .num 0, .num 0, .num 0, .bytes []]
/-- NewBundlePropertyExperimenter() -/
def new : V := .obj "BundlePropertyExperimenter" [.num Gen.openflow13.OFPBPT_EXPERIMENTER, .num 0, .num 0, .num 0, .bytes []]
def len : V → R UInt16
  | .obj "BundlePropertyExperimenter" [_, _, _, _, .bytes d] => .ok ((12 + n16 d.length + 7) / 8 * 8)
  | _ => .panic
def lenM (v : V) : R (UInt16 × V) := do let l ← len v; same l v
/-- `p.Length = 12 + len(p.data)`, then the 12-byte header, the payload and zero padding up to Len() -/
def marshalM (v : V) : R (Bytes × V) :=
  match v with
  | .obj "BundlePropertyExperimenter" [.num t, _, .num ei, .num et, .bytes d] => do
    let l ← len v
    let ln := n16 (12 + d.length)             -- the length field excludes the padding
    let bs ← fill l.toNat [pU16 t, .put (be16 ln), pU32 ei, pU32 et, pCopy d]
    .ok (bs, .obj "BundlePropertyExperimenter" [.num t, V.u16 ln, .num ei, .num et, .bytes d])
  | _ => .panic
/-- header, then a copy of `data[12:Length]` -/
def unmarshal (_recv : V) (data : Slice) : R V :=
  if data.len < 12 then .err else do
    let t ← data.u16From 0
    let ln ← data.u16From 2
    let ei ← data.u32From 4
    let et ← data.u32From 8
    if ln.toNat < 12 || data.len < ln.toNat then .err else do
      let s ← data.sliceR 12 ln.toNat
      pure (.obj "BundlePropertyExperimenter" [V.u16 t, V.u16 ln, V.u32 ei, V.u32 et, .bytes (makeCopy (ln.toNat - 12) s.bytes)])
end BundlePropertyExperimenter

/-! ### leaf table: every kind of this file that holds no `util.Message`-typed child -/

def kindsMsgLeaf : KindTab := [
  ("PhyPort", ⟨PhyPort.lenM, PhyPort.marshalM, PhyPort.unmarshal, PhyPort.zero⟩),
  ("PortMod", ⟨PortMod.lenM, PortMod.marshalM, PortMod.unmarshal, PortMod.zero⟩),
  ("SwitchConfig", ⟨SwitchConfig.lenM, SwitchConfig.marshalM, SwitchConfig.unmarshal, SwitchConfig.zero⟩),
  ("ErrorMsg", ⟨ErrorMsg.lenM, ErrorMsg.marshalM, ErrorMsg.unmarshal, ErrorMsg.zero⟩),
  ("VendorError", ⟨VendorError.lenM, VendorError.marshalM, VendorError.unmarshal, VendorError.zero⟩),
  ("SwitchFeatures", ⟨SwitchFeatures.lenM, SwitchFeatures.marshalM, SwitchFeatures.unmarshal, SwitchFeatures.zero⟩),
  ("PacketIn", ⟨PacketIn.lenM, PacketIn.marshalM, PacketIn.unmarshal, PacketIn.zero⟩),
  ("DescStats", ⟨DescStats.lenM, DescStats.marshalM, DescStats.unmarshal, DescStats.zero⟩),
  ("FlowStatsRequest", ⟨FlowStatsRequest.lenM, FlowStatsRequest.marshalM, FlowStatsRequest.unmarshal, FlowStatsRequest.zero⟩),
  ("AggregateStatsRequest", ⟨AggregateStatsRequest.lenM, AggregateStatsRequest.marshalM, AggregateStatsRequest.unmarshal, AggregateStatsRequest.zero⟩),
  ("FlowStats", ⟨FlowStats.lenM, FlowStats.marshalM, FlowStats.unmarshal, FlowStats.zero⟩),
  ("AggregateStats", ⟨AggregateStats.lenM, AggregateStats.marshalM, AggregateStats.unmarshal, AggregateStats.zero⟩),
  ("TableStats", ⟨TableStats.lenM, TableStats.marshalM, TableStats.unmarshal, TableStats.zero⟩),
  ("PortStatsRequest", ⟨PortStatsRequest.lenM, PortStatsRequest.marshalM, PortStatsRequest.unmarshal, PortStatsRequest.zero⟩),
  ("PortStats", ⟨PortStats.lenM, PortStats.marshalM, PortStats.unmarshal, PortStats.zero⟩),
  ("QueueStatsRequest", ⟨QueueStatsRequest.lenM, QueueStatsRequest.marshalM, QueueStatsRequest.unmarshal, QueueStatsRequest.zero⟩),
  ("QueueStats", ⟨QueueStats.lenM, QueueStats.marshalM, QueueStats.unmarshal, QueueStats.zero⟩),
  ("PortStatus", ⟨PortStatus.lenM, PortStatus.marshalM, PortStatus.unmarshal, PortStatus.zero⟩),
  ("ControllerID", ⟨ControllerID.lenM, ControllerID.marshalM, ControllerID.unmarshal, ControllerID.zero⟩),
  ("TLVTableMap", ⟨TLVTableMap.lenM, TLVTableMap.marshalM, TLVTableMap.unmarshal, TLVTableMap.zero⟩),
  ("TLVTableMod", ⟨TLVTableMod.lenM, TLVTableMod.marshalM, TLVTableMod.unmarshal, TLVTableMod.zero⟩),
  ("TLVTableReply", ⟨TLVTableReply.lenM, TLVTableReply.marshalM, TLVTableReply.unmarshal, TLVTableReply.zero⟩),
  ("BundleControl", ⟨BundleControl.lenM, BundleControl.marshalM, BundleControl.unmarshal, BundleControl.zero⟩),
  ("BundlePropertyExperimenter", ⟨BundlePropertyExperimenter.lenM, BundlePropertyExperimenter.marshalM,
      BundlePropertyExperimenter.unmarshal, BundlePropertyExperimenter.zero⟩)
]

/-! ### containers of `util.Message` children: parameterised by the functions used for the children -/

abbrev MsgLenF := V → R (UInt16 × V)
abbrev MsgMarF := V → R (Bytes × V)

def msgLeafKinds : KindTab := kindsHeader ++ kindsMatch ++ kindsAction ++ kindsInstr ++ kindsProto ++ kindsMsgLeaf

/-- `x.UnmarshalBinary(d)` on a non-nil interface value holding a leaf kind -/
def msgLeafUnmarshal (recv : V) (d : Slice) : R V :=
  match recv with
  | .obj k _ =>
    match msgLeafKinds.lookup k with
    | some ops => ops.unmarshal recv d
    | none => .panic     -- a container kind as pre-set receiver: not produced by any constructor
  | _ => .panic

namespace PacketOut
/-- new(PacketOut) -/
def zero : V := .obj "PacketOut" [Header.zero, .num 0, .num 0, .num 0, .bytes [], .list [], .nil]
/-- NewPacketOut(): Data stays nil -/
def new : V := .obj "PacketOut" [msgOfpHeader Gen.openflow13.Type_PacketOut, .num 4294967295, .num Gen.openflow13.P_ANY, .num 0,
  .bytes (zeros 6), .list [], .nil]

def lenWith (child : MsgLenF) : V → R (UInt16 × V)
  | .obj "PacketOut" [h, b, ip, al, pad, .list as, d] => do
    let (ls, as) ← mapM2 Action.lenM as
    let (ld, d) ← child d                      -- nil Data: panic
    pure (8 + 16 + sum16 ls + ld, .obj "PacketOut" [h, b, ip, al, pad, .list as, d])
  | _ => .panic

/-- err is the one of p.Data.MarshalBinary(); the actions' errors are overwritten -/
def marshalWith (childLen : MsgLenF) (childMar : MsgMarF) (v : V) : R (Bytes × V) := do
  let (l0, v) ← lenWith childLen v
  let (l1, v) ← lenWith childLen v
  match v with
  | .obj "PacketOut" [h, .num b, .num ip, .num _, pad, .list as, d] =>
    let h := Header.setLength l1 h
    let hb ← Header.bytes h
    -- p.ActionsLen = 0; for _, a := range p.Actions { p.ActionsLen += a.Len() }
    let (als, as) ← mapM2 Action.lenM as
    let al := (sum16 als).toNat
    let (abs, as) ← mapM2 (msgTryM Action.marshalM) as
    let pre := [pCopy hb, pU32 b, pU32 ip, pU16 al, pSkip 6] ++ abs.map pCopy
    let _ ← fill l0.toNat pre                  -- these writes happen (and may panic) before Data is encoded
    let (db, d) ← childMar d
    let bs ← fill l0.toNat (pre ++ [pCopy db])
    .ok (bs, .obj "PacketOut" [h, .num b, .num ip, .num al, pad, .list as, d])
  | _ => .panic

structure St where
  n : UInt16
  as : List V

/-- `for n < (n + p.ActionsLen)`: ends only by an error, a panic or a uint16 overflow of n+ActionsLen.
    With the receivers Go ever builds (`new`, `NewPacketOut`) Data is nil, so a decode that survives the loop panics. -/
def unmarshal (recv : V) (data : Slice) : R V :=
  match recv with
  | .obj "PacketOut" [h0, _, _, _, pad, .list as0, d0] => do
    let (h, _) ← msgTryU Header.unmarshal h0 data
    let b ← data.u32From 8
    let ip ← data.u32From 12
    let al ← data.u16From 16
    let st ← msgLoopW (σ := St) 65537 (fun s => s.n < s.n + al) (·.n.toNat)
      (fun s => do
        let d ← data.fromR s.n.toNat
        let a ← DecodeAction (data.cap + 1) d
        let (l, a) ← Action.lenM a
        pure { n := s.n + l, as := s.as ++ [a] })
      { n := 24, as := as0 }
    match d0 with
    | .nil => .panic
    | _ => do
      let dd ← data.fromR st.n.toNat
      let d ← msgLeafUnmarshal d0 dd
      pure (.obj "PacketOut" [h, V.u32 b, V.u32 ip, V.u16 al, pad, .list st.as, d])
  | _ => .panic

/-- p.Actions = append(p.Actions, act); p.ActionsLen += act.Len() -/
def addAction (recv : V) (act : V) : R V :=
  match recv with
  | .obj "PacketOut" [h, b, ip, .num al, pad, .list as, d] => do
    let (l, act) ← Action.lenM act
    pure (.obj "PacketOut" [h, b, ip, V.u16 (n16 al + l), pad, .list (as ++ [act]), d])
  | _ => .panic

def setData (recv : V) (bs : Bytes) : R V :=
  match recv with
  | .obj "PacketOut" [h, b, ip, al, pad, as, _] => pure (.obj "PacketOut" [h, b, ip, al, pad, as, .obj "u.Buffer" [.bytes bs]])
  | _ => .panic

/-- d, _ := p.Data.MarshalBinary() -/
def getDataWith (childMar : MsgMarF) (recv : V) : R (V × Bytes) :=
  match recv with
  | .obj "PacketOut" [h, b, ip, al, pad, as, d] =>
    match childMar d with
    | .ok (bs, d) => .ok (.obj "PacketOut" [h, b, ip, al, pad, as, d], bs)
    | .err => .ok (recv, [])
    | .panic => .panic
    | .spin => .spin
  | _ => .panic
end PacketOut

namespace VendorHeader
def zero : V := .obj "VendorHeader" [Header.zero, .num 0, .num 0, .nil]
/-- NewNXTVendorHeader / NewBundleControl / NewBundleAdd … -/
def mk (vendor ty : Nat) (d : V) : V :=
  .obj "VendorHeader" [msgOfpHeader Gen.openflow13.Type_Experimenter, V.u32 (n32 vendor), V.u32 (n32 ty), d]

def lenWith (child : MsgLenF) : V → R (UInt16 × V)
  | .obj "VendorHeader" [h, vn, t, .nil] => .ok (16, .obj "VendorHeader" [h, vn, t, .nil])
  | .obj "VendorHeader" [h, vn, t, d] => do
    let (l, d) ← child d
    pure (16 + l, .obj "VendorHeader" [h, vn, t, d])
  | _ => .panic

def marshalWith (childLen : MsgLenF) (childMar : MsgMarF) (v : V) : R (Bytes × V) := do
  let (l1, v) ← lenWith childLen v             -- v.Header.Length = v.Len()
  let (l2, v) ← lenWith childLen v             -- data = make([]byte, v.Len())
  match v with
  | .obj "VendorHeader" [h, .num vn, .num t, d] =>
    let h := Header.setLength l1 h
    let hb ← Header.bytes h
    let pre := [pCopy hb, pU32 vn, pU32 t]
    match d with
    | .nil => do
      let bs ← fill l2.toNat pre
      .ok (bs, .obj "VendorHeader" [h, .num vn, .num t, d])
    | _ => do
      let _ ← fill l2.toNat pre
      let (db, d) ← childMar d                 -- an error is returned
      let bs ← fill l2.toNat (pre ++ [pCopy db])
      .ok (bs, .obj "VendorHeader" [h, .num vn, .num t, d])
  | _ => .panic

/-- `decVD` = decodeVendorData(experimenterType, data[16:Header.Length]) -/
def unmarshalWith (decVD : Nat → Slice → R V) (recv : V) (data : Slice) : R V :=
  match recv with
  | .obj "VendorHeader" [h0, _, _, d0] =>
    if data.len < 16 then .err else do
      let (h, _) ← msgTryU Header.unmarshal h0 data
      let vn ← data.u32From 8
      let t ← data.u32From 12
      if 16 < Header.length h then do
        let s ← data.sliceR 16 (Header.length h)
        let d ← decVD t.toNat s
        pure (.obj "VendorHeader" [h, V.u32 vn, V.u32 t, d])
      else pure (.obj "VendorHeader" [h, V.u32 vn, V.u32 t, d0])
  | _ => .panic
end VendorHeader

namespace BundleAdd
def zero : V := .obj "BundleAdd" [.num 0, .bytes (zeros 2), .num 0, .nil, .list []]

/-- Properties is a slice of VALUES; the message is padded to 8 bytes when properties follow (uint16 arithmetic) -/
def lenWith (child : MsgLenF) : V → R (UInt16 × V)
  | .obj "BundleAdd" [i, p, f, m, .list ps] => do
    let (lm, m) ← child m                      -- nil Message: panic
    let (ls, _) ← mapM2 BundlePropertyExperimenter.lenM ps
    let base : UInt16 := 4 + 2 + 2 + lm
    let l := if ps.isEmpty then base else (base + 7) / 8 * 8 + sum16 ls
    pure (l, .obj "BundleAdd" [i, p, f, m, .list ps])
  | _ => .panic

/-- the properties are encoded from copies (range over a slice of values): their Length fields stay as they were -/
def marshalWith (childLen : MsgLenF) (childMar : MsgMarF) (v : V) : R (Bytes × V) := do
  let (l, v) ← lenWith childLen v
  match v with
  | .obj "BundleAdd" [.num i, p, .num f, m, .list ps] =>
    let pre := [pU32 i, pSkip 2, pU16 f]
    let _ ← fill l.toNat pre
    let (mb, m) ← childMar m                   -- an error is returned
    let (pbs, _) ← mapM2 BundlePropertyExperimenter.marshalM ps
    -- copy(data[n:], msgBytes); n += len(msgBytes); with properties: n = (n + 7) / 8 * 8  (int arithmetic)
    let adv := if ps.isEmpty then mb.length else (8 + mb.length + 7) / 8 * 8 - 8
    let bs ← fill l.toNat (pre ++ [.copyAdv mb adv] ++ pbs.map pCopy)
    .ok (bs, .obj "BundleAdd" [.num i, p, .num f, m, .list ps])
  | _ => .panic

structure St where
  n : Nat
  ps : List V

/-- `parseF` = Parse on `data[8 : 8+msgLen]`, msgLen from the embedded header; a nil message (Parse's `break` types)
    is an error -/
def unmarshalWith (parseF : Slice → R V) (_childLen : MsgLenF) (recv : V) (data : Slice) : R V :=
  match recv with
  | .obj "BundleAdd" [_, p, _, _, ps0] =>
    if data.len < 16 then .err else do
    let i ← data.u32From 0
    let f ← data.u16From 6
    let ml ← data.u16From 10
    let msgLen := ml.toNat
    if msgLen < 8 || 8 + msgLen > data.len then .err else do
    let d ← data.sliceR 8 (8 + msgLen)
    let m ← parseF d
    if m.isNil then .err else do
    let n := 8 + msgLen
    if n < data.len then do
      let st ← goLoop (σ := St) (data.len + 1) (fun s => s.n < data.len) (·.n)
        (fun s => do
          let dp ← data.fromR s.n
          let pr ← BundlePropertyExperimenter.unmarshal BundlePropertyExperimenter.zero dp
          let l ← BundlePropertyExperimenter.len pr
          if l = 0 then .err else                     -- "decoded a BundlePropertyExperimenter of length 0"
          pure { n := s.n + l.toNat, ps := s.ps ++ [pr] })
        { n := (n + 7) / 8 * 8, ps := [] }
      pure (.obj "BundleAdd" [V.u32 i, p, V.u16 f, m, .list st.ps])
    else pure (.obj "BundleAdd" [V.u32 i, p, V.u16 f, m, ps0])
  | _ => .panic
end BundleAdd

/-- decodeVendorData: an unknown experimenter type leaves `msg` nil and `msg.UnmarshalBinary` panics -/
def decodeVendorDataWith (parseF : Slice → R V) (childLen : MsgLenF) (ty : Nat) (data : Slice) : R V :=
  if ty = Gen.openflow13.Type_SetControllerId then ControllerID.unmarshal ControllerID.zero data
  else if ty = Gen.openflow13.Type_TlvTableMod then TLVTableMod.unmarshal TLVTableMod.zero data
  else if ty = Gen.openflow13.Type_TlvTableReply then TLVTableReply.unmarshal TLVTableReply.zero data
  else if ty = Gen.openflow13.Type_BundleCtrl then BundleControl.unmarshal BundleControl.zero data
  else if ty = Gen.openflow13.Type_BundleAdd then BundleAdd.unmarshalWith parseF childLen BundleAdd.zero data
  else .panic

namespace MultipartRequest
def zero : V := .obj "MultipartRequest" [Header.zero, .num 0, .num 0, .bytes [], .nil]
def lenWith (child : MsgLenF) : V → R (UInt16 × V)
  | .obj "MultipartRequest" [h, t, f, p, b] => do
    let (l, b) ← child b
    pure (8 + 8 + l, .obj "MultipartRequest" [h, t, f, p, b])
  | _ => .panic
def marshalWith (childLen : MsgLenF) (childMar : MsgMarF) (v : V) : R (Bytes × V) := do
  let (l, v) ← lenWith childLen v
  match v with
  | .obj "MultipartRequest" [h, .num t, .num f, p, b] =>
    let h := Header.setLength l h
    let hb ← Header.bytes h
    let (bb, b) ← childMar b
    .ok (hb ++ (be16 (n16 t) ++ be16 (n16 f) ++ zeros 4) ++ bb, .obj "MultipartRequest" [h, .num t, .num f, p, b])
  | _ => .panic
/-- the body is never decoded: the type switch only type-asserts the receiver's CURRENT Body (nil after `new`:
    the assertion panics) and every other type is reported as unsupported -/
def unmarshal (recv : V) (data : Slice) : R V :=
  match recv with
  | .obj "MultipartRequest" [h0, _, _, p, b] => do
    let h ← Header.unmarshal h0 data
    let t ← data.u16From 8
    let f ← data.u16From 10
    let want : Option String :=
      if t.toNat = Gen.openflow13.MultipartType_Aggregate then some "AggregateStatsRequest"
      else if t.toNat = Gen.openflow13.MultipartType_Flow then some "FlowStatsRequest"
      else if t.toNat = Gen.openflow13.MultipartType_Port then some "PortStatsRequest"
      else if t.toNat = Gen.openflow13.MultipartType_Queue then some "QueueStatsRequest"
      else none
    match want with
    | none => .err
    | some k => if b.kind = k then pure (.obj "MultipartRequest" [h, V.u16 t, V.u16 f, p, b]) else .panic
  | _ => .panic
end MultipartRequest

namespace MultipartReply
def zero : V := .obj "MultipartReply" [Header.zero, .num 0, .num 0, .bytes [], .list []]
def lenWith (child : MsgLenF) : V → R (UInt16 × V)
  | .obj "MultipartReply" [h, t, f, p, .list bs] => do
    let (ls, bs) ← mapM2 child bs
    pure (8 + 8 + sum16 ls, .obj "MultipartReply" [h, t, f, p, .list bs])
  | _ => .panic
/-- err is the LAST record's -/
def marshalWith (childLen : MsgLenF) (childMar : MsgMarF) (v : V) : R (Bytes × V) := do
  let (l, v) ← lenWith childLen v
  match v with
  | .obj "MultipartReply" [h, .num t, .num f, p, .list bs] =>
    let h := Header.setLength l h
    let hb ← Header.bytes h
    let fixed := hb ++ (be16 (n16 t) ++ be16 (n16 f) ++ zeros 4)
    match bs.reverse with
    | [] => .ok (fixed, .obj "MultipartReply" [h, .num t, .num f, p, .list []])
    | last :: revInit => do
      let (ibs, init) ← mapM2 (msgTryM childMar) revInit.reverse
      let (lb, last) ← childMar last
      .ok (fixed ++ ibs.flatten ++ lb, .obj "MultipartReply" [h, .num t, .num f, p, .list (init ++ [last])])
  | _ => .panic

/-- `repl = new(T)` by multipart type, decoded from `d`: (record, error returned?) -/
def decodeRecord (ty : Nat) (d : Slice) : R (V × Bool) :=
  if ty = Gen.openflow13.MultipartType_Aggregate then msgTryU AggregateStats.unmarshal AggregateStats.new d
  else if ty = Gen.openflow13.MultipartType_Desc then msgTryU DescStats.unmarshal DescStats.new d
  else if ty = Gen.openflow13.MultipartType_Flow then FlowStats.unmarshalP FlowStats.new d
  else if ty = Gen.openflow13.MultipartType_Port then msgTryU PortStats.unmarshal PortStats.new d
  else if ty = Gen.openflow13.MultipartType_Table then msgTryU TableStats.unmarshal TableStats.new d
  else if ty = Gen.openflow13.MultipartType_Queue then msgTryU QueueStats.unmarshal QueueStats.zero d
  else .panic     -- repl stays nil

structure St where
  n : Nat
  body : List V
  err : Bool

/-- int cursor; err is the header's, reset by each decoded record; a record that fails to decode, or of length 0, is
    an error -/
def unmarshalWith (childLen : MsgLenF) (recv : V) (data : Slice) : R V :=
  match recv with
  | .obj "MultipartReply" [h0, _, _, p, _] => do
    let (h, e) ← msgTryU Header.unmarshal h0 data
    let t ← data.u16From 8
    let f ← data.u16From 10
    let st ← msgLoopW (σ := St) 65537 (fun s => s.n < Header.length h) (·.n)
      (fun s => do
        let d ← data.fromR s.n
        let (r, e) ← decodeRecord t.toNat d
        if e then .err else do      -- a record that fails to decode ends the reply with its error
        let (l, r) ← childLen r
        if l = 0 then .err else
        pure { n := s.n + l.toNat, body := s.body ++ [r], err := e })
      { n := 16, body := [], err := e }
    if st.err then .err else pure (.obj "MultipartReply" [h, V.u16 t, V.u16 f, p, .list st.body])
  | _ => .panic
end MultipartReply

/-! ### tying the knot: Len / MarshalBinary of an arbitrary `util.Message` value -/

/-- `x.Len()` through the interface.  `depth` bounds the nesting of containers (generators stay far below 8);
    running out of depth is unreachable. -/
def msgAnyLenD : Nat → V → R (UInt16 × V)
  | 0, _ => .panic
  | d + 1, v =>
    match v with
    | .obj "PacketOut" _ => PacketOut.lenWith (msgAnyLenD d) v
    | .obj "VendorHeader" _ => VendorHeader.lenWith (msgAnyLenD d) v
    | .obj "BundleAdd" _ => BundleAdd.lenWith (msgAnyLenD d) v
    | .obj "MultipartRequest" _ => MultipartRequest.lenWith (msgAnyLenD d) v
    | .obj "MultipartReply" _ => MultipartReply.lenWith (msgAnyLenD d) v
    | .obj k _ =>
      match msgLeafKinds.lookup k with
      | some ops => ops.lenM v
      | none => .panic
    | _ => .panic                                -- nil interface

def msgAnyMarshalD : Nat → V → R (Bytes × V)
  | 0, _ => .panic
  | d + 1, v =>
    match v with
    | .obj "PacketOut" _ => PacketOut.marshalWith (msgAnyLenD d) (msgAnyMarshalD d) v
    | .obj "VendorHeader" _ => VendorHeader.marshalWith (msgAnyLenD d) (msgAnyMarshalD d) v
    | .obj "BundleAdd" _ => BundleAdd.marshalWith (msgAnyLenD d) (msgAnyMarshalD d) v
    | .obj "MultipartRequest" _ => MultipartRequest.marshalWith (msgAnyLenD d) (msgAnyMarshalD d) v
    | .obj "MultipartReply" _ => MultipartReply.marshalWith (msgAnyLenD d) (msgAnyMarshalD d) v
    | .obj k _ =>
      match msgLeafKinds.lookup k with
      | some ops => ops.marshalM v
      | none => .panic
    | _ => .panic

def anyLenM : V → R (UInt16 × V) := msgAnyLenD 8
def anyMarshalM : V → R (Bytes × V) := msgAnyMarshalD 8

/-! ### Parse -/

/-- NewFlowMod() / NewFlowRemoved(): the receivers Parse decodes into -/
def flowModRecv : V := .obj "FlowMod" [msgOfpHeader Gen.openflow13.Type_FlowMod, .num 0, .num 0, .num 0, .num 0, .num 0, .num 0,
  .num 1000, .num 4294967295, .num Gen.openflow13.P_ANY, .num Gen.openflow13.OFPG_ANY, .num 0, .bytes [], Match.new, .list []]
def flowRemovedRecv : V := .obj "FlowRemoved" [msgOfpHeader Gen.openflow13.Type_FlowRemoved, .num 0, .num 0, .num 0, .num 0, .num 0, .num 0,
  .num 0, .num 0, .num 0, .num 0, Match.new]

/-- one level of Parse; `self` is Parse for the message embedded in a BundleAdd -/
def parseStep (self : Slice → R V) (b : Slice) : R V := do
  let tb ← b.byteAt 1
  let t := tb.toNat
  if t = Gen.openflow13.Type_Hello then Hello.unmarshal (.obj "Hello" [Header.zero, .list []]) b
  else if t = Gen.openflow13.Type_Error then do
    let e ← ErrorMsg.unmarshal ErrorMsg.zero b
    if ErrorMsg.errType e = Gen.openflow13.ET_EXPERIMENTER then VendorError.unmarshal VendorError.zero b else pure e
  else if t = Gen.openflow13.Type_EchoRequest ∨ t = Gen.openflow13.Type_EchoReply ∨ t = Gen.openflow13.Type_GetConfigRequest
      ∨ t = Gen.openflow13.Type_BarrierRequest ∨ t = Gen.openflow13.Type_BarrierReply then Header.unmarshal Header.zero b
  else if t = Gen.openflow13.Type_Experimenter then
    VendorHeader.unmarshalWith (decodeVendorDataWith self anyLenM) VendorHeader.zero b
  else if t = Gen.openflow13.Type_FeaturesRequest then Header.unmarshal (msgOfpHeader Gen.openflow13.Type_FeaturesRequest) b
  else if t = Gen.openflow13.Type_FeaturesReply then SwitchFeatures.unmarshal SwitchFeatures.new b
  else if t = Gen.openflow13.Type_GetConfigReply then SwitchConfig.unmarshal SwitchConfig.zero b
  else if t = Gen.openflow13.Type_SetConfig then SwitchConfig.unmarshal SwitchConfig.new b
  else if t = Gen.openflow13.Type_PacketIn then PacketIn.unmarshal PacketIn.zero b
  else if t = Gen.openflow13.Type_FlowRemoved then FlowRemoved.unmarshal flowRemovedRecv b
  else if t = Gen.openflow13.Type_PortStatus then PortStatus.unmarshal PortStatus.new b
  else if t = Gen.openflow13.Type_FlowMod then FlowMod.unmarshal flowModRecv b
  else if t = Gen.openflow13.Type_PacketOut ∨ t = Gen.openflow13.Type_GroupMod ∨ t = Gen.openflow13.Type_PortMod
      ∨ t = Gen.openflow13.Type_TableMod ∨ t = Gen.openflow13.Type_QueueGetConfigRequest
      ∨ t = Gen.openflow13.Type_QueueGetConfigReply then pure .nil      -- `break`: (nil, nil)
  else if t = Gen.openflow13.Type_MultiPartRequest then MultipartRequest.unmarshal MultipartRequest.zero b
  else if t = Gen.openflow13.Type_MultiPartReply then MultipartReply.unmarshalWith anyLenM MultipartReply.zero b
  else .err

/-- `defer func() { if r := recover(); r != nil { message = nil; err = … } }()` -/
def recoverR : R V → R V
  | .panic => .err
  | r => r

/-- Parse with an explicit nesting bound (each BundleAdd level consumes at least 24 bytes of the backing array);
    depth 0 is unreachable when the bound is at least cap+1 -/
def parseD : Nat → Slice → R V
  | 0, _ => .panic
  | d + 1, b => recoverR (parseStep (parseD d) b)

/-- openflow13.Parse.  `depth` = nesting bound supplied by the caller (`data.len + 1`); since `data[16:Length]` in
    VendorHeader may reach up to the capacity, the bound is raised to `cap + 1` when smaller. -/
def parse (depth : Nat) (b : Slice) : R V := parseD (max depth (b.cap + 1)) b

/-! ### the container kinds with the knot tied -/

namespace PacketOut
def lenM : V → R (UInt16 × V) := lenWith anyLenM
def marshalM : V → R (Bytes × V) := marshalWith anyLenM anyMarshalM
end PacketOut
namespace VendorHeader
def lenM : V → R (UInt16 × V) := lenWith anyLenM
def marshalM : V → R (Bytes × V) := marshalWith anyLenM anyMarshalM
def unmarshal (recv : V) (data : Slice) : R V :=
  unmarshalWith (decodeVendorDataWith (parse (data.len + 1)) anyLenM) recv data
end VendorHeader
namespace BundleAdd
def lenM : V → R (UInt16 × V) := lenWith anyLenM
def marshalM : V → R (Bytes × V) := marshalWith anyLenM anyMarshalM
def unmarshal (recv : V) (data : Slice) : R V := unmarshalWith (parse (data.len + 1)) anyLenM recv data
end BundleAdd
namespace MultipartRequest
def lenM : V → R (UInt16 × V) := lenWith anyLenM
def marshalM : V → R (Bytes × V) := marshalWith anyLenM anyMarshalM
end MultipartRequest
namespace MultipartReply
def lenM : V → R (UInt16 × V) := lenWith anyLenM
def marshalM : V → R (Bytes × V) := marshalWith anyLenM anyMarshalM
def unmarshal : V → Slice → R V := unmarshalWith anyLenM
end MultipartReply

/-! ### tables -/

def kindsMsg : KindTab := kindsMsgLeaf ++ [
  ("PacketOut", ⟨PacketOut.lenM, PacketOut.marshalM, PacketOut.unmarshal, PacketOut.zero⟩),
  ("VendorHeader", ⟨VendorHeader.lenM, VendorHeader.marshalM, VendorHeader.unmarshal, VendorHeader.zero⟩),
  ("BundleAdd", ⟨BundleAdd.lenM, BundleAdd.marshalM, BundleAdd.unmarshal, BundleAdd.zero⟩),
  ("MultipartRequest", ⟨MultipartRequest.lenM, MultipartRequest.marshalM, MultipartRequest.unmarshal, MultipartRequest.zero⟩),
  ("MultipartReply", ⟨MultipartReply.lenM, MultipartReply.marshalM, MultipartReply.unmarshal, MultipartReply.zero⟩)
]

/-- a constructor without arguments -/
def msgCtor0 (v : V) : List V → R (List V) := fun _ => ret1 v

def funcsMsg : FuncTab := [
  ("NewOfp13Header", msgCtor0 (msgOfpHeader 0)),
  ("NewEchoRequest", msgCtor0 (msgOfpHeader Gen.openflow13.Type_EchoRequest)),
  ("NewEchoReply", msgCtor0 (msgOfpHeader Gen.openflow13.Type_EchoReply)),
  ("NewFeaturesRequest", msgCtor0 (msgOfpHeader Gen.openflow13.Type_FeaturesRequest)),
  ("NewConfigRequest", msgCtor0 (msgOfpHeader Gen.openflow13.Type_GetConfigRequest)),
  ("NewPacketOut", msgCtor0 PacketOut.new),
  ("NewPacketIn", msgCtor0 PacketIn.new),
  ("NewSetConfig", msgCtor0 SwitchConfig.new),
  ("NewErrorMsg", msgCtor0 ErrorMsg.new),
  ("NewFeaturesReply", msgCtor0 SwitchFeatures.new),
  ("NewPhyPort", msgCtor0 PhyPort.new),
  ("NewPortMod", fun args => match args with
    | [.num p] => ret1 (PortMod.new p)
    | _ => .panic),
  ("NewDescStats", msgCtor0 DescStats.new),
  ("NewFlowStatsRequest", msgCtor0 FlowStatsRequest.new),
  ("NewFlowStats", msgCtor0 FlowStats.new),
  ("NewAggregateStatsRequest", msgCtor0 AggregateStatsRequest.new),
  ("NewAggregateStats", msgCtor0 AggregateStats.new),
  ("NewTableStats", msgCtor0 TableStats.new),
  ("NewPortStatsRequest", msgCtor0 PortStatsRequest.new),
  ("NewPortStats", msgCtor0 PortStats.new),
  ("NewQueueStatsRequest", msgCtor0 QueueStatsRequest.new),
  ("NewPortStatus", msgCtor0 PortStatus.new),
  ("NewNXTVendorHeader", fun args => match args with
    | [.num t] => ret1 (VendorHeader.mk Gen.openflow13.NxExperimenterID t .nil)
    | _ => .panic),
  ("NewSetControllerID", fun args => match args with
    | [.num id] => ret1 (VendorHeader.mk Gen.openflow13.NxExperimenterID Gen.openflow13.Type_SetControllerId
        (.obj "ControllerID" [.bytes (zeros 6), V.u16 (n16 id)]))
    | _ => .panic),
  ("NewTLVTableMod", fun args => match args with
    | [.num c, .list ms] => ret1 (.obj "TLVTableMod" [V.u16 (n16 c), .bytes (zeros 6), .list ms])
    | _ => .panic),
  ("NewTLVTableModMessage", fun args => match args with
    | [m] => ret1 (VendorHeader.mk Gen.openflow13.NxExperimenterID Gen.openflow13.Type_TlvTableMod m)
    | _ => .panic),
  ("NewTLVTableRequest", msgCtor0 (VendorHeader.mk Gen.openflow13.NxExperimenterID Gen.openflow13.Type_TlvTableRequest .nil)),
  ("NewBundleControl", fun args => match args with
    | [c] => ret1 (VendorHeader.mk Gen.openflow13.ONF_EXPERIMENTER_ID Gen.openflow13.Type_BundleCtrl c)
    | _ => .panic),
  ("NewBundlePropertyExperimenter", msgCtor0 BundlePropertyExperimenter.new),
  ("NewBundleAdd", fun args => match args with
    | [a] => ret1 (VendorHeader.mk Gen.openflow13.ONF_EXPERIMENTER_ID Gen.openflow13.Type_BundleAdd a)
    | _ => .panic),
  ("NewBundleError", msgCtor0 VendorError.new),
  ("ParseBundleError", fun args => match args with
    | [.num c] => if 2300 ≤ c ∧ c ≤ 2315 then .err else .ok []
    | _ => .panic),
  ("Parse", fun args => match args with
    | [.bytes b] => do let v ← parse (b.length + 1) (Slice.exact b); ret1 v
    | _ => .panic)
]

def methodsMsg : MethodTab := [
  ("PacketOut.AddAction", fun recv args => match args with
    | [a] => do let r ← PacketOut.addAction recv a; upd r
    | _ => .panic),
  ("PacketOut.SetData", fun recv args => match args with
    | [.bytes b] => do let r ← PacketOut.setData recv b; upd r
    | _ => .panic),
  ("PacketOut.GetData", fun recv _ => do
    let (r, bs) ← PacketOut.getDataWith anyMarshalM recv
    pure (r, [.bytes bs])),
  ("PacketIn.GetData", fun recv _ =>
    match recv with
    | .obj "PacketIn" [h, b, t, r, ti, c, m, pad, eth] =>
      match PEthernet.marshalM eth with
      | .ok (bs, eth) => .ok (.obj "PacketIn" [h, b, t, r, ti, c, m, pad, eth], [.bytes bs])
      | .err => .ok (recv, [.bytes []])
      | .panic => .panic
      | .spin => .spin
    | _ => .panic)
]

end OFV.Model
