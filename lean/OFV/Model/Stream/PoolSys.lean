/-
  OFV.Model.Stream.PoolSys — the inbound half of util.MessageStream with the CONTENT of the pooled buffers.

  StreamSys treats a buffer as a bare identifier and takes "the frame the de-framer completed" from a script.  Here a
  buffer is a pair (identifier, content) — a `*bytes.Buffer` and what `b.Bytes()` returns — and nothing is taken
  from a script: the reader appends the bytes it receives to the buffer it holds, whatever that buffer already
  contains, and a parser delivers whatever the buffer it received contains.

      NewBufferPool   50 × `bytes.NewBuffer(make([]byte, 0, 2048))` in pool.Empty      → content []
      inbound()       buf := <-pool.Empty; for { n := conn.Read(tmp); for i < n { … buf.WriteByte(tmp[i]) …
                        if msg == 0 { hdr = 0; pool.Full <- buf; buf = <-pool.Empty } } }
      parse()         b := <-pool.Full; Parse(b.Bytes()); m.Inbound <- msg; b.Reset(); pool.Empty <- b

  Actors, channels and transitions are those of StreamSys; new are `read` (one conn.Read: the next chunk of the byte
  stream, of any size) and `rdByte` / `rdLast` (one iteration of the `for i < n` loop; `onByte` is that loop body, the
  same computation as Deframer.stepByte).  `nBuf`, `nPar`, `capFull`, the byte stream and its cutting into reads are
  not fixed.  The flag `reset` of `Step` is the `b.Reset()` of parse(): `true` is the library; `false` is the variant
  in which the buffer goes back to pool.Empty as it is (used only to show that the Reset is necessary).
-/
import OFV.Go.Bytes
import OFV.Model.Stream.StreamSys
namespace OFV.Model.PoolSys
open OFV

abbrev Frame := List UInt8
abbrev BufId := Nat
/-- a `*bytes.Buffer`: which one, and its unread bytes `b.Bytes()` -/
abbrev Buf := BufId × Bytes

/-- the reader's local variables `hdr`, `hdrBuf[2]`, `hdrBuf[3]`, `msg` -/
structure Regs where
  hdr : Nat
  h2 : UInt8
  h3 : UInt8
  msg : Int
deriving DecidableEq, Repr

/-- one iteration of `for i := 0; i < n; i++` on the byte `c` while the current buffer holds `p`:
    the new local variables, the new content of the buffer, and whether `m.pool.Full <- buf` follows.

        if hdr < 4 { hdrBuf[hdr] = c; buf.WriteByte(c); hdr++; if hdr >= 4 { msg = int(Uint16(hdrBuf[2:])) - 4 }; continue }
        if msg > 0 { buf.WriteByte(c); msg--; if msg == 0 { hdr = 0; pool.Full <- buf; buf = <-pool.Empty }; continue }  -/
def onByte (r : Regs) (p : Bytes) (c : UInt8) : Regs × Bytes × Bool :=
  if r.hdr < 4 then
    let h2 := if r.hdr = 2 then c else r.h2
    let h3 := if r.hdr = 3 then c else r.h3
    let hdr := r.hdr + 1
    let msg := if hdr ≥ 4 then (Int.ofNat (h2.toNat * 256 + h3.toNat)) - 4 else r.msg
    (⟨hdr, h2, h3, msg⟩, p ++ [c], false)
  else if r.msg > 0 then
    let msg := r.msg - 1
    if msg = 0 then (⟨0, r.h2, r.h3, 0⟩, p ++ [c], true)
    else (⟨r.hdr, r.h2, r.h3, msg⟩, p ++ [c], false)
  else (r, p, false)

/-- parser goroutine: waiting in select / after `b := <-pool.Full`, holding buffer b whose content is c /
    after `m.Inbound <- msg`, still holding b with its content, about to Reset and return it / returned -/
inductive PSt | idle | holding (b : BufId) (c : Bytes) | delivered (b : BufId) (c : Bytes) | gone
deriving DecidableEq, Repr

/-- reader goroutine: appending to buffer b, which holds p / frame complete, about to `pool.Full <- buf` /
    about to `buf = <-pool.Empty` / stopped after a read error (it keeps the partially filled buffer) -/
inductive RSt | cur (b : BufId) (p : Bytes) | have_ (b : BufId) (p : Bytes) | needBuf | stopped (b : BufId) (p : Bytes)
deriving DecidableEq, Repr

structure St where
  empty : List Buf             -- pool.Empty
  full : List Buf              -- pool.Full
  rdr : RSt
  regs : Regs
  chunk : Bytes                -- tmp[i:n] — bytes of the last conn.Read not yet looked at
  conn : List Bytes            -- what the coming conn.Reads will return, one list per Read
  handed : List Frame          -- history (never read): contents handed to pool.Full so far, as Deframer.out
  pars : List PSt
  inbound : Option Frame       -- m.Inbound; the message is represented by the bytes the parser was given
  out : List Frame             -- received by the consumer
  errors : Nat                 -- values sent on m.Error
  failed : Bool                -- the connection failed (read error seen)
  shutdownTokens : Nat         -- parserShutdown messages available
deriving DecidableEq, Repr

def PSt.bufs : PSt → List Buf | .holding b c => [(b, c)] | .delivered b c => [(b, c)] | _ => []
def RSt.bufs : RSt → List Buf | .cur b p => [(b, p)] | .have_ b p => [(b, p)] | .stopped b p => [(b, p)] | .needBuf => []
/-- the bytes of the frame in progress that sit in the reader's buffer -/
def RSt.pending : RSt → Bytes | .cur _ p => p | .stopped _ p => p | _ => []

def PSt.frames : PSt → List Frame | .holding _ c => [c] | _ => []
def RSt.frames : RSt → List Frame | .have_ _ p => [p] | _ => []

/-- every buffer with its content, whoever holds it -/
def St.bufs (s : St) : List Buf :=
  s.empty ++ s.rdr.bufs ++ s.full ++ (s.pars.map PSt.bufs).flatten
/-- the bytes of the connection not yet looked at by the reader -/
def St.unread (s : St) : Bytes := s.chunk ++ s.conn.flatten

/-- what was handed over by the reader and has not reached the consumer: in m.Inbound, with a parser that has not
    sent it yet, in pool.Full, or with the reader about to send it -/
def St.inFlight (s : St) : List Frame :=
  s.inbound.toList ++ (s.pars.map PSt.frames).flatten ++ s.full.map (·.2) ++ s.rdr.frames

/-- NewBufferPool + the first `buf := <-m.pool.Empty`: `nBuf` buffers of length 0; `chunks` is the byte stream of the
    connection as the successive conn.Reads will return it -/
def initSt (nBuf nPar : Nat) (chunks : List Bytes) : St :=
  { empty := (List.range nBuf).tail.map (·, []), full := [],
    rdr := if nBuf = 0 then .needBuf else .cur 0 [], regs := ⟨0, 0, 0, 0⟩, chunk := [], conn := chunks, handed := [],
    pars := List.replicate nPar .idle, inbound := none, out := [], errors := 0, failed := false,
    shutdownTokens := 0 }

inductive Step (reset : Bool) (capFull nPar : Nat) : St → St → Prop
  /-- `n, err := m.conn.Read(tmp)` returns the next chunk -/
  | read (s b p c cs) : s.rdr = .cur b p → s.chunk = [] → s.conn = c :: cs →
      Step reset capFull nPar s { s with chunk := c, conn := cs }
  /-- one byte of the chunk, the frame is not complete -/
  | rdByte (s b p c rest) : s.rdr = .cur b p → s.chunk = c :: rest → (onByte s.regs p c).2.2 = false →
      Step reset capFull nPar s
        { s with regs := (onByte s.regs p c).1, rdr := .cur b (onByte s.regs p c).2.1, chunk := rest }
  /-- one byte of the chunk, `msg == 0`: the buffer is to be handed over as it is -/
  | rdLast (s b p c rest) : s.rdr = .cur b p → s.chunk = c :: rest → (onByte s.regs p c).2.2 = true →
      Step reset capFull nPar s
        { s with regs := (onByte s.regs p c).1, rdr := .have_ b (onByte s.regs p c).2.1, chunk := rest,
                 handed := s.handed ++ [(onByte s.regs p c).2.1] }
  /-- `m.pool.Full <- buf` -/
  | sendFull (s b p) : s.rdr = .have_ b p → s.full.length < capFull →
      Step reset capFull nPar s { s with rdr := .needBuf, full := s.full ++ [(b, p)] }
  /-- `buf = <-m.pool.Empty`: the reader goes on with the buffer as it comes out of the pool -/
  | takeBuf (s b p e) : s.rdr = .needBuf → s.empty = (b, p) :: e →
      Step reset capFull nPar s { s with rdr := .cur b p, empty := e }
  /-- `conn.Read` fails: `m.Error <- err; m.Shutdown <- true; return` -/
  | readError (s b p) : s.rdr = .cur b p → s.chunk = [] → s.errors = 0 →
      Step reset capFull nPar s { s with rdr := .stopped b p, errors := 1, failed := true, shutdownTokens := nPar }
  /-- `case b := <-m.pool.Full` -/
  | parTake (s i b c r) (hi : i < s.pars.length) : s.pars[i] = .idle → s.full = (b, c) :: r →
      Step reset capFull nPar s { s with pars := s.pars.set i (.holding b c), full := r }
  /-- `msg := Parse(b.Bytes()); m.Inbound <- msg` -/
  | parSend (s i b c) (hi : i < s.pars.length) : s.pars[i] = .holding b c → s.inbound = none →
      Step reset capFull nPar s { s with pars := s.pars.set i (.delivered b c), inbound := some c }
  /-- `b.Reset(); m.pool.Empty <- b` (without the Reset when `reset = false`) -/
  | parRelease (s i b c) (hi : i < s.pars.length) : s.pars[i] = .delivered b c →
      Step reset capFull nPar s
        { s with pars := s.pars.set i .idle, empty := s.empty ++ [(b, if reset then [] else c)] }
  /-- `case <-m.parserShutdown: return` -/
  | parShutdown (s i k) (hi : i < s.pars.length) : s.pars[i] = .idle → s.shutdownTokens = k + 1 →
      Step reset capFull nPar s { s with pars := s.pars.set i .gone, shutdownTokens := k }
  /-- the consumer receives from m.Inbound -/
  | consume (s f) : s.inbound = some f →
      Step reset capFull nPar s { s with inbound := none, out := s.out ++ [f] }

inductive Reach (reset : Bool) (capFull nPar : Nat) (s0 : St) : St → Prop
  | refl : Reach reset capFull nPar s0 s0
  | step (s s') : Reach reset capFull nPar s0 s → Step reset capFull nPar s s' → Reach reset capFull nPar s0 s'

/-! ### forgetting the contents: the state of StreamSys that a state stands for -/

def RSt.abs : RSt → StreamSys.RSt
  | .cur b _ => .cur b | .have_ b p => .have_ b p | .needBuf => .needBuf | .stopped b _ => .stopped b
def PSt.abs : PSt → StreamSys.PSt
  | .idle => .idle | .holding b c => .holding b c | .delivered b _ => .delivered b | .gone => .gone

/-- buffers become identifiers; "the frames the de-framer will still complete" are the frames of the script behind those
    already handed over -/
def St.abs (script : List Frame) (s : St) : StreamSys.St :=
  { empty := s.empty.map (·.1), full := s.full, rdr := s.rdr.abs, pars := s.pars.map PSt.abs, inbound := s.inbound,
    todo := script.drop s.handed.length, out := s.out, errors := s.errors, failed := s.failed,
    shutdownTokens := s.shutdownTokens }

/-! ### schedules, to write down concrete runs -/

/-- who moves: the reader (`rd` = whatever its next operation is), parser `i`, or the consumer; `fail` makes the
    pending conn.Read return an error -/
inductive Move | rd | fail | par (i : Nat) | consume
deriving DecidableEq, Repr

/-- the state after the move; the state itself if the actor is blocked -/
def fire (reset : Bool) (capFull nPar : Nat) (s : St) : Move → St
  | .rd =>
    match s.rdr with
    | .cur b p =>
      match s.chunk with
      | c :: rest =>
        let r := onByte s.regs p c
        if r.2.2 then { s with regs := r.1, rdr := .have_ b r.2.1, chunk := rest, handed := s.handed ++ [r.2.1] }
        else { s with regs := r.1, rdr := .cur b r.2.1, chunk := rest }
      | [] => match s.conn with
        | c :: cs => { s with chunk := c, conn := cs }
        | [] => s
    | .have_ b p => if s.full.length < capFull then { s with rdr := .needBuf, full := s.full ++ [(b, p)] } else s
    | .needBuf => match s.empty with
      | (b, p) :: e => { s with rdr := .cur b p, empty := e }
      | [] => s
    | .stopped _ _ => s
  | .fail =>
    match s.rdr with
    | .cur b p => if s.chunk = [] ∧ s.errors = 0 then
        { s with rdr := .stopped b p, errors := 1, failed := true, shutdownTokens := nPar } else s
    | _ => s
  | .par i =>
    match s.pars[i]? with
    | some .idle => match s.full with
      | (b, c) :: r => { s with pars := s.pars.set i (.holding b c), full := r }
      | [] => match s.shutdownTokens with
        | k + 1 => { s with pars := s.pars.set i .gone, shutdownTokens := k }
        | 0 => s
    | some (.holding b c) =>
      if s.inbound = none then { s with pars := s.pars.set i (.delivered b c), inbound := some c } else s
    | some (.delivered b c) => { s with pars := s.pars.set i .idle, empty := s.empty ++ [(b, if reset then [] else c)] }
    | _ => s
  | .consume =>
    match s.inbound with
    | some f => { s with inbound := none, out := s.out ++ [f] }
    | none => s

/-- the state after a schedule -/
def run (reset : Bool) (capFull nPar : Nat) (s : St) (ms : List Move) : St := ms.foldl (fire reset capFull nPar) s

end OFV.Model.PoolSys
