/-
  OFV.Model.Stream.StreamSys — the inbound half of util.MessageStream as a labelled transition system.
  Actors: the reader (inbound()), `nPar` parser goroutines (parse()), the consumer of m.Inbound.
  Shared: pool.Empty / pool.Full (buffered channels of buffers), Inbound (capacity 1), Error (capacity 1), the
  shutdown broadcast.  A transition is one channel operation; a buffer is identified by a number; what a buffer
  holds when it is handed over is the frame the de-framer completed (Deframer.out), the script `todo`.
  `nBuf`, `nPar`, `capFull` are NOT fixed: every theorem holds for all of them.
-/
namespace OFV.Model.StreamSys

abbrev Frame := List UInt8
abbrev BufId := Nat

/-- parser goroutine: waiting in select / holding a full buffer after `b := <-pool.Full` and Parse /
    after `m.Inbound <- msg` (about to Reset and return the buffer) / returned after parserShutdown -/
inductive PSt | idle | holding (b : BufId) (f : Frame) | delivered (b : BufId) | gone
deriving DecidableEq, Repr

/-- reader goroutine: filling buffer b / frame complete, about to `pool.Full <- buf` / about to `buf = <-pool.Empty` /
    stopped after a read error (it keeps the partially filled buffer) -/
inductive RSt | cur (b : BufId) | have_ (b : BufId) (f : Frame) | needBuf | stopped (b : BufId)
deriving DecidableEq, Repr

structure St where
  empty : List BufId
  full : List (BufId × Frame)
  rdr : RSt
  pars : List PSt
  inbound : Option Frame
  todo : List Frame            -- frames the de-framer will still complete (the script)
  out : List Frame             -- received by the consumer
  errors : Nat                 -- values sent on m.Error
  failed : Bool                -- the connection failed (read error seen)
  shutdownTokens : Nat         -- parserShutdown messages available
deriving Repr

def PSt.frames : PSt → List Frame | .holding _ f => [f] | _ => []
def PSt.bufs : PSt → List BufId | .holding b _ => [b] | .delivered b => [b] | _ => []
def RSt.frames : RSt → List Frame | .have_ _ f => [f] | _ => []
def RSt.bufs : RSt → List BufId | .cur b => [b] | .have_ b _ => [b] | .stopped b => [b] | .needBuf => []

/-- every frame the system knows about, wherever it is -/
def St.frames (s : St) : List Frame :=
  s.out ++ s.inbound.toList ++ (s.pars.map PSt.frames).flatten ++ s.full.map (·.2) ++ s.rdr.frames ++ s.todo
/-- every buffer, whoever holds it -/
def St.bufs (s : St) : List BufId :=
  s.empty ++ s.rdr.bufs ++ s.full.map (·.1) ++ (s.pars.map PSt.bufs).flatten

def initSt (nBuf nPar : Nat) (script : List Frame) : St :=
  { empty := (List.range nBuf).tail, full := [], rdr := if nBuf = 0 then .needBuf else .cur 0,
    pars := List.replicate nPar .idle, inbound := none, todo := script, out := [], errors := 0,
    failed := false, shutdownTokens := 0 }

inductive Step (capFull nPar : Nat) : St → St → Prop
  /-- the de-framer completes the next frame in the reader's current buffer -/
  | complete (s b f t) : s.rdr = .cur b → s.todo = f :: t → s.failed = false →
      Step capFull nPar s { s with rdr := .have_ b f, todo := t }
  /-- `m.pool.Full <- buf` -/
  | sendFull (s b f) : s.rdr = .have_ b f → s.full.length < capFull →
      Step capFull nPar s { s with rdr := .needBuf, full := s.full ++ [(b, f)] }
  /-- `buf = <-m.pool.Empty` -/
  | takeBuf (s b e) : s.rdr = .needBuf → s.empty = b :: e →
      Step capFull nPar s { s with rdr := .cur b, empty := e }
  /-- `conn.Read` fails while the reader is filling a buffer: `m.Error <- err; m.Shutdown <- true; return` -/
  | readError (s b) : s.rdr = .cur b → s.errors = 0 →
      Step capFull nPar s { s with rdr := .stopped b, errors := 1, failed := true, shutdownTokens := nPar }
  /-- `case b := <-m.pool.Full` -/
  | parTake (s i b f r) (hi : i < s.pars.length) : s.pars[i] = .idle → s.full = (b, f) :: r →
      Step capFull nPar s { s with pars := s.pars.set i (.holding b f), full := r }
  /-- `m.Inbound <- msg` -/
  | parSend (s i b f) (hi : i < s.pars.length) : s.pars[i] = .holding b f → s.inbound = none →
      Step capFull nPar s { s with pars := s.pars.set i (.delivered b), inbound := some f }
  /-- `b.Reset(); m.pool.Empty <- b` -/
  | parRelease (s i b) (hi : i < s.pars.length) : s.pars[i] = .delivered b →
      Step capFull nPar s { s with pars := s.pars.set i .idle, empty := s.empty ++ [b] }
  /-- `case <-m.parserShutdown: return` -/
  | parShutdown (s i k) (hi : i < s.pars.length) : s.pars[i] = .idle → s.shutdownTokens = k + 1 →
      Step capFull nPar s { s with pars := s.pars.set i .gone, shutdownTokens := k }
  /-- the consumer receives from m.Inbound -/
  | consume (s f) : s.inbound = some f →
      Step capFull nPar s { s with inbound := none, out := s.out ++ [f] }

inductive Reach (capFull nPar : Nat) (s0 : St) : St → Prop
  | refl : Reach capFull nPar s0 s0
  | step (s s') : Reach capFull nPar s0 s → Step capFull nPar s s' → Reach capFull nPar s0 s'

end OFV.Model.StreamSys
