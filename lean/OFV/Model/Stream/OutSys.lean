/-
  OFV.Model.Stream.OutSys — the outbound half of util.MessageStream:
  any number of producers send on m.Outbound (a FIFO channel of capacity `cap`); ONE writer goroutine receives,
  encodes and issues ONE conn.Write per message.  A message is represented by its encoding (C13 shows encoding is
  repeatable).  `wire` records the Write calls in order; each Write is contiguous by construction — that there is
  only one writer and one Write per message is the regenerated fact checked in Props/C11.
-/
import OFV.Go.Bytes
namespace OFV.Model.OutSys
open OFV

abbrev Prod := Nat

structure St where
  pending : List (List Bytes)          -- per producer: messages not yet submitted, in program order
  chan : List (Prod × Bytes)           -- m.Outbound content, oldest first
  writer : Option (Prod × Bytes)       -- received by the writer, not yet written
  wire : List (Prod × Bytes)           -- conn.Write calls so far
deriving Repr

def initSt (subm : List (List Bytes)) : St := ⟨subm, [], none, []⟩

inductive Step (cap : Nat) : St → St → Prop
  /-- producer p: `m.Outbound <- msg` -/
  | submit (s p m r) (hp : p < s.pending.length) : s.pending[p] = m :: r → s.chan.length < cap →
      Step cap s { s with pending := s.pending.set p r, chan := s.chan ++ [(p, m)] }
  /-- writer: `msg := <-m.Outbound` -/
  | recv (s x r) : s.chan = x :: r → s.writer = none → Step cap s { s with chan := r, writer := some x }
  /-- writer: `data, _ := msg.MarshalBinary(); m.conn.Write(data)` -/
  | write (s x) : s.writer = some x → Step cap s { s with writer := none, wire := s.wire ++ [x] }

inductive Reach (cap : Nat) (s0 : St) : St → Prop
  | refl : Reach cap s0 s0
  | step (s s') : Reach cap s0 s → Step cap s s' → Reach cap s0 s'

/-- everything of producer p that has left the producer, in the order it will appear / has appeared on the wire -/
def St.sent (s : St) (p : Prod) : List Bytes :=
  ((s.wire ++ s.writer.toList ++ s.chan).filter (fun x => x.1 = p)).map (·.2)

/-- the byte stream on the connection -/
def St.wireBytes (s : St) : Bytes := (s.wire.map (·.2)).flatten

end OFV.Model.OutSys
