/-
  OFV.Model.Stream.OutFault — OutSys (the outbound half of util.MessageStream) plus a connection that can fail:

      for msg := range m.Outbound {
          data, _ := msg.MarshalBinary()
          if err = m.conn.SetWriteDeadline(...); err != nil { goto ret }      -- `deadline`: nothing written
          if _, err := m.conn.Write(data); err != nil { goto ret }            -- `writeFail k`: the first k bytes went out
      }
      ret: log.Fatalf(...)                                                     -- the writer is gone for good

  A failed Write may have handed any prefix of the message (0 ≤ k ≤ length bytes) to the network.  After a failure the
  writer never receives or writes again (`failed` stays `some …`); producers can still fill the channel until it is
  full and then block.  `failed = none` is "the writer is alive".  The post-shutdown drain is not modelled.
  Without the two failure steps this is OutSys (Props/C11b: `C11b_refines`, `C11b_embeds`).
-/
import OFV.Model.Stream.OutSys
namespace OFV.Model.OutFault
open OFV

abbrev Prod := OutSys.Prod

structure St where
  pending : List (List Bytes)             -- per producer: messages not yet submitted, in program order
  chan : List (Prod × Bytes)              -- m.Outbound content, oldest first
  writer : Option (Prod × Bytes)          -- received by the writer, not yet written
  wire : List (Prod × Bytes)              -- conn.Write calls that returned without error, in order
  failed : Option ((Prod × Bytes) × Nat)  -- the message whose write failed, and how many of its bytes went out
deriving Repr

def initSt (subm : List (List Bytes)) : St := ⟨subm, [], none, [], none⟩

inductive Step (cap : Nat) : St → St → Prop
  /-- producer p: `m.Outbound <- msg` (needs room in the channel, not a living writer) -/
  | submit (s p m r) (hp : p < s.pending.length) : s.pending[p] = m :: r → s.chan.length < cap →
      Step cap s { s with pending := s.pending.set p r, chan := s.chan ++ [(p, m)] }
  /-- writer: `msg := <-m.Outbound` -/
  | recv (s x r) : s.failed = none → s.chan = x :: r → s.writer = none →
      Step cap s { s with chan := r, writer := some x }
  /-- writer: `m.conn.Write(data)` returns nil: all of the message went out in one piece -/
  | write (s x) : s.failed = none → s.writer = some x →
      Step cap s { s with writer := none, wire := s.wire ++ [x] }
  /-- writer: `m.conn.Write(data)` returns an error after the connection took the first k bytes; log.Fatalf -/
  | writeFail (s x k) : s.failed = none → s.writer = some x → k ≤ x.2.length →
      Step cap s { s with writer := none, failed := some (x, k) }
  /-- writer: `m.conn.SetWriteDeadline` returns an error: nothing of the message went out; log.Fatalf -/
  | deadline (s x) : s.failed = none → s.writer = some x →
      Step cap s { s with writer := none, failed := some (x, 0) }

inductive Reach (cap : Nat) (s0 : St) : St → Prop
  | refl : Reach cap s0 s0
  | step (s s') : Reach cap s0 s → Step cap s s' → Reach cap s0 s'

/-- the part of the failed message that reached the network (empty while the writer is alive) -/
def St.partialBytes (s : St) : Bytes :=
  match s.failed with
  | none => []
  | some (x, k) => x.2.take k

/-- the byte stream on the connection: the successful Writes, then whatever the failed Write let through -/
def St.wireBytes (s : St) : Bytes := (s.wire.map (·.2)).flatten ++ s.partialBytes

/-- the message lost to the failure, as a (producer, message) list of length ≤ 1 -/
def St.lost (s : St) : List (Prod × Bytes) := (s.failed.map (·.1)).toList

/-- everything of producer p that has left the producer, oldest first: written, lost, held by the writer, queued -/
def St.sent (s : St) (p : Prod) : List Bytes :=
  ((s.wire ++ s.lost ++ s.writer.toList ++ s.chan).filter (fun x => x.1 = p)).map (·.2)

/-! ### n independent connections: a step of the product is a step of one component -/

inductive PStep (cap : Nat → Nat) : List St → List St → Prop
  | at (S : List St) (i : Nat) (s' : St) (hi : i < S.length) : Step (cap i) S[i] s' → PStep cap S (S.set i s')

inductive PReach (cap : Nat → Nat) (S0 : List St) : List St → Prop
  | refl : PReach cap S0 S0
  | step (S S') : PReach cap S0 S → PStep cap S S' → PReach cap S0 S'

/-- the same product when `log.Fatalf` really ends the process (logrus' default exit function is os.Exit): once the
    writer of ANY connection has failed, nothing in the process moves any more -/
inductive XStep (cap : Nat → Nat) : List St → List St → Prop
  | at (S : List St) (i : Nat) (s' : St) (hi : i < S.length) : (∀ t ∈ S, t.failed = none) →
      Step (cap i) S[i] s' → XStep cap S (S.set i s')

inductive XReach (cap : Nat → Nat) (S0 : List St) : List St → Prop
  | refl : XReach cap S0 S0
  | step (S S') : XReach cap S0 S → XStep cap S S' → XReach cap S0 S'

/-- connection i is given the submissions `subms[i]` (a list of producers, each a list of messages) -/
def initP (subms : List (List (List Bytes))) : List St := subms.map initSt

end OFV.Model.OutFault
