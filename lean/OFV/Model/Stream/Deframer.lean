/-
  OFV.Model.Stream.Deframer — the byte-at-a-time de-framing state machine of util.MessageStream.inbound():

      if hdr < 4 { hdrBuf[hdr] = c; buf.WriteByte(c); hdr++; if hdr >= 4 { msg = int(Uint16(hdrBuf[2:])) - 4 }; continue }
      if msg > 0 { buf.WriteByte(c); msg--; if msg == 0 { hdr = 0; pool.Full <- buf; buf = <-pool.Empty }; continue }

  The buffer is an unbounded list (bytes.Buffer grows beyond its 2 KiB initial capacity).  `out` is the sequence of
  buffers handed to pool.Full.  Channel hand-over and buffer identity are the business of StreamSys.
-/
import OFV.Go.Bytes
namespace OFV.Model.Deframer
open OFV

structure St where
  hdr : Nat          -- bytes of the 4-byte prefix seen
  h2 : UInt8         -- hdrBuf[2]
  h3 : UInt8         -- hdrBuf[3]
  msg : Int          -- body bytes still expected (Go int; can be ≤ 0 for a bogus length field)
  buf : Bytes        -- current buffer content
  out : List Bytes   -- frames handed over, oldest first
deriving Repr, DecidableEq

def init : St := ⟨0, 0, 0, 0, [], []⟩

def stepByte (s : St) (c : UInt8) : St :=
  if s.hdr < 4 then
    let h2 := if s.hdr = 2 then c else s.h2
    let h3 := if s.hdr = 3 then c else s.h3
    let hdr := s.hdr + 1
    let msg := if hdr ≥ 4 then (Int.ofNat (h2.toNat * 256 + h3.toNat)) - 4 else s.msg
    { s with hdr := hdr, h2 := h2, h3 := h3, msg := msg, buf := s.buf ++ [c] }
  else if s.msg > 0 then
    let msg := s.msg - 1
    if msg = 0 then { s with hdr := 0, msg := 0, buf := [], out := s.out ++ [s.buf ++ [c]] }
    else { s with msg := msg, buf := s.buf ++ [c] }
  else s

/-- one `conn.Read` worth of bytes -/
def feedBytes (s : St) (bs : Bytes) : St := bs.foldl stepByte s
/-- a sequence of reads -/
def feedAll (s : St) (cs : List Bytes) : St := cs.foldl feedBytes s

def declLen (f : Bytes) : Nat := (f[2]?.getD 0).toNat * 256 + (f[3]?.getD 0).toNat
/-- well-formed frame: at least a header, length field = number of bytes -/
def WFFrame (f : Bytes) : Prop := 8 ≤ f.length ∧ declLen f = f.length

instance (f : Bytes) : Decidable (WFFrame f) := by unfold WFFrame; infer_instance

end OFV.Model.Deframer
