/-
  OFV.Go.Buf — the byte-buffer statements of the straight-line Go encoders, as ofvextract emits them
  (`Gen/Pure.lean`, the regenerated `MarshalBinary` bodies). A local `[]byte` is its visible bytes (`Bytes`); the
  translator only emits these for buffers whose capacity plays no role (made by `make`, or only appended to / copied from).
  A cursor (`n := 0; n += k; n += len(b)`) is a `Nat`: it only ever grows by constants and lengths of allocated slices.

     x = make([]byte, n)                         Buf.make n
     binary.BigEndian.PutUintK(x[lo:], v)        Buf.put x lo (beK v)      panics unless K/8 bytes remain
     binary.BigEndian.PutUintK(x[lo:hi], v)      Buf.putIn x lo hi (beK v) (x fresh from make: cap = len)
     x[i] = v                                    Buf.set x i v
     copy(x[lo:], src)                           Buf.copy x lo src         truncates silently; x[lo:] panics when lo > len
     copy(x[lo:hi], src)                         Buf.copyIn x lo hi src
  Each is one step of `fillFrom` (OFV.Go.Fill), which is how the hand model writes the same idiom.
-/
import OFV.Go.Fill
namespace OFV.Go.Buf
open OFV OFV.Go

def make (n : Nat) : Bytes := zeros n

def put (b : Bytes) (lo : Nat) (bs : Bytes) : Res Bytes :=
  if lo + bs.length ≤ b.length then .ok (overwrite b lo bs) else .panic

def putIn (b : Bytes) (lo hi : Nat) (bs : Bytes) : Res Bytes :=
  if lo ≤ hi ∧ hi ≤ b.length ∧ bs.length ≤ hi - lo then .ok (overwrite b lo bs) else .panic

def set (b : Bytes) (i : Nat) (x : UInt8) : Res Bytes := put b i [x]

def copy (b : Bytes) (lo : Nat) (src : Bytes) : Res Bytes :=
  if lo ≤ b.length then .ok (overwrite b lo src) else .panic

def copyIn (b : Bytes) (lo hi : Nat) (src : Bytes) : Res Bytes :=
  if lo ≤ hi ∧ hi ≤ b.length then .ok (overwrite b lo (src.take (hi - lo))) else .panic

end OFV.Go.Buf
