/-
  OFV.Go.Ints — Go's fixed-width integer operators where they differ from Lean's.
  Go: `x << n` and `x >> n` (unsigned x) give 0 when n ≥ width; Lean's `<<<`/`>>>` reduce n mod width.
  The shift count is passed as a `Nat` (Go requires it to be non-negative; a negative count panics,
  which none of the translated functions can reach because their counts are unsigned conversions).
-/
namespace OFV.Go

def shl8  (x : UInt8)  (n : Nat) : UInt8  := if n < 8  then x <<< UInt8.ofNat n  else 0
def shr8  (x : UInt8)  (n : Nat) : UInt8  := if n < 8  then x >>> UInt8.ofNat n  else 0
def shl16 (x : UInt16) (n : Nat) : UInt16 := if n < 16 then x <<< UInt16.ofNat n else 0
def shr16 (x : UInt16) (n : Nat) : UInt16 := if n < 16 then x >>> UInt16.ofNat n else 0
def shl32 (x : UInt32) (n : Nat) : UInt32 := if n < 32 then x <<< UInt32.ofNat n else 0
def shr32 (x : UInt32) (n : Nat) : UInt32 := if n < 32 then x >>> UInt32.ofNat n else 0
def shl64 (x : UInt64) (n : Nat) : UInt64 := if n < 64 then x <<< UInt64.ofNat n else 0
def shr64 (x : UInt64) (n : Nat) : UInt64 := if n < 64 then x >>> UInt64.ofNat n else 0
/-- signed left shift (Go `int`): bits shifted out are lost -/
def shlI64 (x : Int64) (n : Nat) : Int64 := if n < 64 then (x.toUInt64 <<< UInt64.ofNat n).toInt64 else 0

/-- shift count of a signed expression: two's-complement reading (a negative count would panic in Go) -/
def cntI64 (x : Int64) : Nat := x.toUInt64.toNat

end OFV.Go
