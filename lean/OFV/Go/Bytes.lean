/-
  OFV.Go.Bytes — byte strings and big-endian integers as Go's encoding/binary sees them.
  Core Lean only.  `beN` / `rdN` are defined arithmetically so that `omega` can reason about them.
-/
namespace OFV

abbrev Bytes := List UInt8

def zeros (n : Nat) : Bytes := List.replicate n 0

@[simp] theorem zeros_length (n : Nat) : (zeros n).length = n := by simp [zeros]

def be16 (v : UInt16) : Bytes := [UInt8.ofNat (v.toNat / 256), UInt8.ofNat (v.toNat % 256)]

def be32 (v : UInt32) : Bytes :=
  [UInt8.ofNat (v.toNat / 16777216), UInt8.ofNat (v.toNat / 65536 % 256),
   UInt8.ofNat (v.toNat / 256 % 256), UInt8.ofNat (v.toNat % 256)]

def be64 (v : UInt64) : Bytes :=
  [UInt8.ofNat (v.toNat / 72057594037927936), UInt8.ofNat (v.toNat / 281474976710656 % 256),
   UInt8.ofNat (v.toNat / 1099511627776 % 256), UInt8.ofNat (v.toNat / 4294967296 % 256),
   UInt8.ofNat (v.toNat / 16777216 % 256), UInt8.ofNat (v.toNat / 65536 % 256),
   UInt8.ofNat (v.toNat / 256 % 256), UInt8.ofNat (v.toNat % 256)]

/-- `binary.BigEndian.Uint16(b)`: `none` models the index-out-of-range panic. -/
def rd16 (bs : Bytes) : Option UInt16 :=
  match bs with
  | a :: b :: _ => some (UInt16.ofNat (a.toNat * 256 + b.toNat))
  | _ => none

def rd32 (bs : Bytes) : Option UInt32 :=
  match bs with
  | a :: b :: c :: d :: _ =>
    some (UInt32.ofNat (a.toNat * 16777216 + b.toNat * 65536 + c.toNat * 256 + d.toNat))
  | _ => none

def rd64 (bs : Bytes) : Option UInt64 :=
  match bs with
  | a :: b :: c :: d :: e :: f :: g :: h :: _ =>
    some (UInt64.ofNat (a.toNat * 72057594037927936 + b.toNat * 281474976710656 +
      c.toNat * 1099511627776 + d.toNat * 4294967296 + e.toNat * 16777216 + f.toNat * 65536 +
      g.toNat * 256 + h.toNat))
  | _ => none

def rd8 (bs : Bytes) : Option UInt8 := bs.head?

@[simp] theorem be16_length (v : UInt16) : (be16 v).length = 2 := rfl
@[simp] theorem be32_length (v : UInt32) : (be32 v).length = 4 := rfl
@[simp] theorem be64_length (v : UInt64) : (be64 v).length = 8 := rfl

theorem rd16_be16 (v : UInt16) (rest : Bytes) : rd16 (be16 v ++ rest) = some v := by
  simp only [be16, rd16, List.cons_append, List.nil_append, Option.some.injEq]
  apply UInt16.toNat_inj.mp
  have := v.toNat_lt
  simp [UInt16.toNat_ofNat]
  omega

theorem rd32_be32 (v : UInt32) (rest : Bytes) : rd32 (be32 v ++ rest) = some v := by
  simp only [be32, rd32, List.cons_append, List.nil_append, Option.some.injEq]
  apply UInt32.toNat_inj.mp
  have := v.toNat_lt
  simp [UInt32.toNat_ofNat]
  omega

theorem rd64_be64 (v : UInt64) (rest : Bytes) : rd64 (be64 v ++ rest) = some v := by
  simp only [be64, rd64, List.cons_append, List.nil_append, Option.some.injEq]
  apply UInt64.toNat_inj.mp
  have := v.toNat_lt
  simp [UInt64.toNat_ofNat]
  omega

/-- every 2-byte string is the big-endian form of the word read from it -/
theorem be16_rd16 (a b : UInt8) : be16 (UInt16.ofNat (a.toNat * 256 + b.toNat)) = [a, b] := by
  have ha := a.toNat_lt
  have hb := b.toNat_lt
  simp only [be16, UInt16.toNat_ofNat']
  have h1 : (a.toNat * 256 + b.toNat) % 2 ^ 16 = a.toNat * 256 + b.toNat := by omega
  rw [h1]
  have h2 : (a.toNat * 256 + b.toNat) / 256 = a.toNat := by omega
  have h3 : (a.toNat * 256 + b.toNat) % 256 = b.toNat := by omega
  rw [h2, h3]
  simp

theorem be32_rd32 (a b c d : UInt8) :
    be32 (UInt32.ofNat (a.toNat * 16777216 + b.toNat * 65536 + c.toNat * 256 + d.toNat)) = [a, b, c, d] := by
  have ha := a.toNat_lt
  have hb := b.toNat_lt
  have hc := c.toNat_lt
  have hd := d.toNat_lt
  simp only [be32, UInt32.toNat_ofNat']
  have h1 : (a.toNat * 16777216 + b.toNat * 65536 + c.toNat * 256 + d.toNat) % 2 ^ 32
      = a.toNat * 16777216 + b.toNat * 65536 + c.toNat * 256 + d.toNat := by omega
  rw [h1]
  have h2 : (a.toNat * 16777216 + b.toNat * 65536 + c.toNat * 256 + d.toNat) / 16777216 = a.toNat := by omega
  have h3 : (a.toNat * 16777216 + b.toNat * 65536 + c.toNat * 256 + d.toNat) / 65536 % 256 = b.toNat := by omega
  have h4 : (a.toNat * 16777216 + b.toNat * 65536 + c.toNat * 256 + d.toNat) / 256 % 256 = c.toNat := by omega
  have h5 : (a.toNat * 16777216 + b.toNat * 65536 + c.toNat * 256 + d.toNat) % 256 = d.toNat := by omega
  rw [h2, h3, h4, h5]
  simp

/-! hex, for the line protocol -/

def hexDigit (n : Nat) : Char :=
  if n < 10 then Char.ofNat (48 + n) else Char.ofNat (87 + n)

def hexByte (b : UInt8) : String :=
  String.ofList [hexDigit (b.toNat / 16), hexDigit (b.toNat % 16)]

def toHex (bs : Bytes) : String := bs.foldl (fun s b => s ++ hexByte b) ""

def hexVal (c : Char) : Option Nat :=
  if '0' ≤ c ∧ c ≤ '9' then some (c.toNat - 48)
  else if 'a' ≤ c ∧ c ≤ 'f' then some (c.toNat - 87)
  else if 'A' ≤ c ∧ c ≤ 'F' then some (c.toNat - 55)
  else none

def ofHexChars : List Char → Option Bytes
  | [] => some []
  | a :: b :: r => do
    let x ← hexVal a
    let y ← hexVal b
    let t ← ofHexChars r
    pure (UInt8.ofNat (x * 16 + y) :: t)
  | _ => none

def ofHex (s : String) : Option Bytes := if s = "-" then some [] else ofHexChars s.toList

end OFV
