/-
  OFV.Go.Read — the decoder idioms on a `[]byte` parameter, with Go's exact panic conditions.
     binary.BigEndian.Uint16(data[n:])      u16From  : panics if n > len, or fewer than 2 bytes remain in len
     binary.BigEndian.Uint16(data[a:b])     u16In    : panics if ¬(a ≤ b ≤ cap) or b - a < 2
     data[n]                                 byteAt     : panics if n ≥ len
     data[a:] / data[a:b] / data[:b]         from_ / slice / upto  (Slice)
     copy(dst, src)                          copyInto : never panics; copies min(len dst, len src)
-/
import OFV.Go.Slice
import OFV.Go.Res
namespace OFV.Go
open OFV

namespace Slice

def byteAt (s : Slice) (n : Nat) : Res UInt8 := Res.ofOption (s.index n)

def fromR (s : Slice) (a : Nat) : Res Slice := Res.ofOption (s.from_ a)
def sliceR (s : Slice) (a b : Nat) : Res Slice := Res.ofOption (s.slice a b)
def uptoR (s : Slice) (b : Nat) : Res Slice := Res.ofOption (s.upto b)

def u16Here (s : Slice) : Res UInt16 := Res.ofOption (rd16 s.bytes)
def u32Here (s : Slice) : Res UInt32 := Res.ofOption (rd32 s.bytes)
def u64Here (s : Slice) : Res UInt64 := Res.ofOption (rd64 s.bytes)

def u16From (s : Slice) (n : Nat) : Res UInt16 := do let t ← s.fromR n; t.u16Here
def u32From (s : Slice) (n : Nat) : Res UInt32 := do let t ← s.fromR n; t.u32Here
def u64From (s : Slice) (n : Nat) : Res UInt64 := do let t ← s.fromR n; t.u64Here
def u16In (s : Slice) (a b : Nat) : Res UInt16 := do let t ← s.sliceR a b; t.u16Here
def u32In (s : Slice) (a b : Nat) : Res UInt32 := do let t ← s.sliceR a b; t.u32Here
def u64In (s : Slice) (a b : Nat) : Res UInt64 := do let t ← s.sliceR a b; t.u64Here

end Slice

/-- `copy(dst, src)` where dst currently holds `dst`: the new content of dst -/
def copyInto (dst src : Bytes) : Bytes := src.take dst.length ++ dst.drop src.length

/-- `make([]byte, n)` then `copy(dst, src)` -/
def makeCopy (n : Nat) (src : Bytes) : Bytes := copyInto (zeros n) src

theorem copyInto_length (dst src : Bytes) : (copyInto dst src).length = dst.length := by
  simp [copyInto]; omega

end OFV.Go
