/-
  OFV.Go.Fill — the encoder idiom  `data = make([]byte, L); n := 0; …`  with
     binary.BigEndian.PutUintN(data[n:], v); n += N      (panics when fewer than N bytes remain)
     data[n] = b; n += 1                                 (same)
     copy(data[n:], bs); n += len(bs)                    (silently truncates; data[n:] panics when n > L)
     n += k                                              (skip)
  `fill L pieces` is the resulting buffer; `fill_exact` is the content of C06: when the pieces fit, the buffer is
  their concatenation followed by the unused zero bytes.
-/
import OFV.Go.Bytes
import OFV.Go.Res
namespace OFV.Go
open OFV

inductive Piece where
  | put (bs : Bytes)                -- fixed-width write, must fit
  | copy (bs : Bytes)               -- copy, then n += len bs
  | copyAdv (bs : Bytes) (adv : Nat) -- copy, then n += adv (advance written separately from the copy)
  | skip (k : Nat)
deriving Repr, DecidableEq

def Piece.adv : Piece → Nat
  | .put bs => bs.length
  | .copy bs => bs.length
  | .copyAdv _ a => a
  | .skip k => k

/-- bytes the piece intends to place -/
def Piece.bytes : Piece → Bytes
  | .put bs => bs
  | .copy bs => bs
  | .copyAdv bs a => bs.take a ++ zeros (a - bs.length)
  | .skip k => zeros k

/-- overwrite `buf` at offset `n` with `bs`, truncated to the buffer -/
def overwrite (buf : Bytes) (n : Nat) (bs : Bytes) : Bytes :=
  buf.take n ++ (bs.take (buf.length - n)) ++ buf.drop (n + bs.length)

def fillFrom (buf : Bytes) (n : Nat) : List Piece → Res Bytes
  | [] => .ok buf
  | .put bs :: ps =>
    if n + bs.length ≤ buf.length then fillFrom (overwrite buf n bs) (n + bs.length) ps else .panic
  | .copy bs :: ps =>
    if n ≤ buf.length then fillFrom (overwrite buf n bs) (n + bs.length) ps else .panic
  | .copyAdv bs a :: ps =>
    if n ≤ buf.length then fillFrom (overwrite buf n bs) (n + a) ps else .panic
  | .skip k :: ps => fillFrom buf (n + k) ps

def fill (L : Nat) (ps : List Piece) : Res Bytes := fillFrom (zeros L) 0 ps

def piecesLen (ps : List Piece) : Nat := (ps.map Piece.adv).sum
def piecesBytes (ps : List Piece) : Bytes := (ps.map Piece.bytes).flatten

theorem overwrite_length (buf : Bytes) (n : Nat) (bs : Bytes) (h : n ≤ buf.length) :
    (overwrite buf n bs).length = buf.length := by
  simp [overwrite]; omega

theorem overwrite_zeros (pre bs : Bytes) (k : Nat) (h : bs.length ≤ k) :
    overwrite (pre ++ zeros k) pre.length bs = pre ++ bs ++ zeros (k - bs.length) := by
  unfold overwrite
  have h1 : (pre ++ zeros k).take pre.length = pre := by simp
  have h2 : (pre ++ zeros k).length - pre.length = k := by simp
  have h3 : bs.take k = bs := List.take_of_length_le h
  have h4 : (pre ++ zeros k).drop (pre.length + bs.length) = zeros (k - bs.length) := by
    rw [List.drop_append]
    simp [zeros, List.drop_replicate]
  rw [h1, h2, h3, h4]

/-- a piece is "tight" when its copy does not exceed its advance (always true for put/copy/skip) -/
def Piece.Tight : Piece → Prop
  | .copyAdv bs a => bs.length ≤ a
  | _ => True

theorem fillFrom_exact (pre : Bytes) (ps : List Piece) (k : Nat)
    (ht : ∀ p ∈ ps, p.Tight) (hfit : piecesLen ps ≤ k) :
    fillFrom (pre ++ zeros k) pre.length ps = .ok (pre ++ piecesBytes ps ++ zeros (k - piecesLen ps)) := by
  induction ps generalizing pre k with
  | nil => simp [fillFrom, piecesBytes, piecesLen]
  | cons p ps ih =>
    have htp := ht p (by simp)
    have hts : ∀ q ∈ ps, q.Tight := fun q hq => ht q (by simp [hq])
    have key : ∀ (bs : Bytes) (a : Nat), bs.length ≤ a → a ≤ k →
        overwrite (pre ++ zeros k) pre.length bs = (pre ++ (bs ++ zeros (a - bs.length))) ++ zeros (k - a) := by
      intro bs a h1 h2
      rw [overwrite_zeros pre bs k (by omega)]
      simp only [zeros, List.append_assoc, List.replicate_append_replicate]
      congr 3; omega
    cases p with
    | put bs =>
      have hpl : piecesLen (.put bs :: ps) = bs.length + piecesLen ps := by simp [piecesLen, Piece.adv]
      have hpb : piecesBytes (.put bs :: ps) = bs ++ piecesBytes ps := by simp [piecesBytes, Piece.bytes]
      rw [hpl] at hfit
      simp only [fillFrom, List.length_append, zeros_length]
      rw [if_pos (by omega), key bs bs.length (Nat.le_refl _) (by omega)]
      simp only [Nat.sub_self, zeros, List.replicate_zero, List.append_nil]
      have := ih (pre ++ bs) (k - bs.length) hts (by omega)
      simp only [List.length_append, zeros] at this
      rw [this, hpl, hpb]
      simp only [List.append_assoc]
      rw [Nat.sub_sub]
    | copy bs =>
      have hpl : piecesLen (.copy bs :: ps) = bs.length + piecesLen ps := by simp [piecesLen, Piece.adv]
      have hpb : piecesBytes (.copy bs :: ps) = bs ++ piecesBytes ps := by simp [piecesBytes, Piece.bytes]
      rw [hpl] at hfit
      simp only [fillFrom, List.length_append, zeros_length]
      rw [if_pos (by omega), key bs bs.length (Nat.le_refl _) (by omega)]
      simp only [Nat.sub_self, zeros, List.replicate_zero, List.append_nil]
      have := ih (pre ++ bs) (k - bs.length) hts (by omega)
      simp only [List.length_append, zeros] at this
      rw [this, hpl, hpb]
      simp only [List.append_assoc]
      rw [Nat.sub_sub]
    | copyAdv bs a =>
      simp only [Piece.Tight] at htp
      have hpl : piecesLen (.copyAdv bs a :: ps) = a + piecesLen ps := by simp [piecesLen, Piece.adv]
      have hpb : piecesBytes (.copyAdv bs a :: ps) = (bs ++ zeros (a - bs.length)) ++ piecesBytes ps := by
        simp [piecesBytes, Piece.bytes, List.take_of_length_le htp]
      rw [hpl] at hfit
      simp only [fillFrom, List.length_append, zeros_length]
      rw [if_pos (by omega), key bs a htp (by omega)]
      have := ih (pre ++ (bs ++ zeros (a - bs.length))) (k - a) hts (by omega)
      simp only [List.length_append, zeros_length] at this
      have hl : pre.length + (bs.length + (a - bs.length)) = pre.length + a := by omega
      rw [hl] at this
      rw [this, hpl, hpb]
      simp only [List.append_assoc]
      rw [Nat.sub_sub]
    | skip j =>
      have hpl : piecesLen (.skip j :: ps) = j + piecesLen ps := by simp [piecesLen, Piece.adv]
      have hpb : piecesBytes (.skip j :: ps) = zeros j ++ piecesBytes ps := by simp [piecesBytes, Piece.bytes]
      rw [hpl] at hfit
      simp only [fillFrom]
      have hz : pre ++ zeros k = (pre ++ zeros j) ++ zeros (k - j) := by
        simp only [zeros, List.append_assoc, List.replicate_append_replicate]
        congr 2; omega
      have := ih (pre ++ zeros j) (k - j) hts (by omega)
      simp only [List.length_append, zeros_length] at this
      rw [hz, this, hpl, hpb]
      simp only [List.append_assoc]
      rw [Nat.sub_sub]

/-- C06 in one lemma: pieces that fit ⇒ the encoder returns their concatenation plus the unused zeros -/
theorem fill_exact (L : Nat) (ps : List Piece) (ht : ∀ p ∈ ps, p.Tight) (hfit : piecesLen ps ≤ L) :
    fill L ps = .ok (piecesBytes ps ++ zeros (L - piecesLen ps)) := by
  have := fillFrom_exact [] ps L ht hfit
  simpa [fill] using this

theorem fill_exact' (ps : List Piece) (ht : ∀ p ∈ ps, p.Tight) :
    fill (piecesLen ps) ps = .ok (piecesBytes ps) := by
  rw [fill_exact _ _ ht (Nat.le_refl _)]; simp [zeros]

end OFV.Go
