/-
  OFV.Go.Slice — a Go `[]byte` value as a decoder sees it: the backing array from the slice's first element up to
  its capacity, and the length.  Indexing checks `len`; re-slicing `s[a:b]` checks `cap` (Go lets a slice expression
  reach beyond `len` up to `cap` and exposes whatever the array holds there).
-/
import OFV.Go.Bytes
namespace OFV.Go

structure Slice where
  buf : Bytes        -- elements 0 .. cap-1
  len : Nat
deriving Repr, DecidableEq

namespace Slice

def cap (s : Slice) : Nat := s.buf.length
def WF (s : Slice) : Prop := s.len ≤ s.buf.length
def exact (bs : Bytes) : Slice := ⟨bs, bs.length⟩
/-- the visible bytes `s[0:len]` -/
def bytes (s : Slice) : Bytes := s.buf.take s.len

/-- `s[i]` -/
def index (s : Slice) (i : Nat) : Option UInt8 := if i < s.len then s.buf[i]? else none
/-- `s[a:]` — checks a ≤ len -/
def from_ (s : Slice) (a : Nat) : Option Slice := if a ≤ s.len then some ⟨s.buf.drop a, s.len - a⟩ else none
/-- `s[a:b]` — checks a ≤ b ≤ cap -/
def slice (s : Slice) (a b : Nat) : Option Slice :=
  if a ≤ b ∧ b ≤ s.buf.length then some ⟨s.buf.drop a, b - a⟩ else none
/-- `s[:b]` -/
def upto (s : Slice) (b : Nat) : Option Slice := s.slice 0 b

theorem exact_wf (bs : Bytes) : (exact bs).WF := Nat.le_refl _

end Slice
end OFV.Go
