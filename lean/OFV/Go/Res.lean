/-
  OFV.Go.Res — outcome of a Go call as the properties see it:
  a value, a returned `error`, a run-time panic, or non-termination (a loop that cannot make progress).
-/
namespace OFV.Go

inductive Res (α : Type) where
  | ok (a : α)
  | err            -- the function returned a non-nil error
  | panic          -- index / slice bounds out of range, nil dereference, explicit panic
  | spin           -- the loop does not terminate (model: fuel exhausted with no progress)
deriving Repr, DecidableEq

namespace Res

@[inline] def bind {α β} (r : Res α) (f : α → Res β) : Res β :=
  match r with
  | ok a => f a
  | err => err
  | panic => panic
  | spin => spin

instance : Monad Res where
  pure := ok
  bind := bind

@[simp] theorem bind_ok {α β} (a : α) (f : α → Res β) : (ok a >>= f) = f a := rfl
@[simp] theorem bind_err {α β} (f : α → Res β) : ((err : Res α) >>= f) = err := rfl
@[simp] theorem bind_panic {α β} (f : α → Res β) : ((panic : Res α) >>= f) = panic := rfl
@[simp] theorem bind_spin {α β} (f : α → Res β) : ((spin : Res α) >>= f) = spin := rfl
@[simp] theorem pure_eq {α} (a : α) : (pure a : Res α) = ok a := rfl

def ofOption {α} : Option α → Res α
  | some a => ok a
  | none => panic

def isOk {α} : Res α → Bool
  | ok _ => true
  | _ => false

/-- the two outcomes a total function may have -/
def Total {α} (r : Res α) : Prop := (∃ a, r = ok a) ∨ r = err

def map {α β} (f : α → β) : Res α → Res β
  | ok a => ok (f a)
  | err => err
  | panic => panic
  | spin => spin

end Res
end OFV.Go
