/-
  OFV.Spec.Bits — independent statement of what a bit range means (OVS nicira-ext.h: `ofs_nbits`).
-/
namespace OFV.Spec

/-- the 32-bit word with exactly bits `s..e` (inclusive) set, as arithmetic: (2^(e-s+1) - 1) * 2^s -/
def bits (s e : Nat) : UInt32 := UInt32.ofNat ((2 ^ (e - s + 1) - 1) * 2 ^ s)

/-- OVS `NXM ofs_nbits`: offset in the upper 10 bits, width-1 in the lower 6 -/
def ofsNbits (ofs nbits : Nat) : Nat := ofs * 64 + (nbits - 1)

theorem bits_testBit (s e : Nat) (h : s ≤ e) (he : e ≤ 31) (i : Nat) :
    (bits s e).toNat.testBit i = (decide (s ≤ i) && decide (i ≤ e)) := by
  unfold bits
  have hlt : (2 ^ (e - s + 1) - 1) * 2 ^ s < 2 ^ 32 := by
    have h1 : 2 ^ (e - s + 1) * 2 ^ s ≤ 2 ^ 32 := by
      rw [← Nat.pow_add]; exact Nat.pow_le_pow_right (by omega) (by omega)
    have h2 : 0 < 2 ^ s := Nat.pow_pos (by omega)
    have h3 : 0 < 2 ^ (e - s + 1) := Nat.pow_pos (by omega)
    calc (2 ^ (e - s + 1) - 1) * 2 ^ s < 2 ^ (e - s + 1) * 2 ^ s := by
          apply Nat.mul_lt_mul_of_pos_right _ h2; omega
      _ ≤ 2 ^ 32 := h1
  rw [UInt32.toNat_ofNat', Nat.mod_eq_of_lt hlt, ← Nat.shiftLeft_eq, Nat.testBit_shiftLeft,
    Nat.testBit_two_pow_sub_one]
  by_cases h1 : s ≤ i <;> by_cases h2 : i ≤ e <;> simp [h1, h2] <;> omega

end OFV.Spec
