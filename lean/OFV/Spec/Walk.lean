/-
  OFV.Spec.Walk — an independent receiver for controller-originated OpenFlow 1.3 messages, written ONLY from the wire
  grammar (OpenFlow 1.3.5, OVS nicira-ext.h / meta-flow.h, ONF bundle extension; transcribed from memory, see DESIGN §8):
  it walks a message using nothing but the declared lengths, checks every type/subtype code against the tables, every
  alignment rule, every pad byte (must be zero), and must arrive exactly at the end of the message.
  The result is the sequence of elements visited (pre-order), which the oracles compare with what was added.
-/
import OFV.Go.Bytes
import OFV.Spec.Oxm
namespace OFV.Spec
open OFV

/-- an element visited by the walker: kind code and nested elements -/
inductive Tree where
  | node (kind : String) (bytes : Bytes) (children : List Tree)   -- `bytes`: the bytes the element occupies
deriving Repr, Inhabited

abbrev W := Except String

def fail {α} (msg : String) : W α := .error msg

def u8At (bs : Bytes) (i : Nat) : Nat := (bs[i]?.getD 0).toNat
def u16At (bs : Bytes) (i : Nat) : Nat := u8At bs i * 256 + u8At bs (i + 1)
def u32At (bs : Bytes) (i : Nat) : Nat := u16At bs i * 65536 + u16At bs (i + 2)
def u64At (bs : Bytes) (i : Nat) : Nat := u32At bs i * 4294967296 + u32At bs (i + 4)

def allZero (bs : Bytes) : Bool := bs.all (· == 0)
def slice (bs : Bytes) (a n : Nat) : Bytes := (bs.drop a).take n

def zerosAt (bs : Bytes) (a n : Nat) (what : String) : W Unit :=
  if allZero (slice bs a n) then pure () else fail s!"non-zero padding in {what} at offset {a}"

def round8 (n : Nat) : Nat := (n + 7) / 8 * 8

/-- fields of OpenFlow 1.4/1.5 numbering that OVS also accepts in the basic class -/
def basicExtra : List (Nat × Nat) := [(41, 1), (42, 2), (43, 4)]

/-- payload width of (class, field); `none` = not a legal field -/
def oxmLegalWidth (cls field : Nat) : Option Nat :=
  match oxmWidth cls field with
  | some w => some w
  | none => if cls = 0x8000 then basicExtra.lookup field else none

/-- one OXM/NXM TLV at the start of `bs`: (element, bytes consumed) -/
def walkOxm (bs : Bytes) : W (Tree × Nat) := do
  if bs.length < 4 then fail "oxm: truncated header"
  let cls := u16At bs 0
  let fm := u8At bs 2
  let field := fm / 2
  let hasMask : Bool := fm % 2 = 1
  let len := u8At bs 3
  if bs.length < 4 + len then fail s!"oxm {cls}/{field}: declared payload {len} exceeds the remaining bytes"
  if cls = 0xffff then
    if len < 4 then fail "oxm experimenter: payload shorter than the experimenter id"
    let exp := u32At bs 4
    if exp ≠ 0x4f4e4600 then fail s!"oxm experimenter id {exp}"
    let w ← match basicExtra.lookup field with
      | some w => pure w
      | none => fail s!"oxm experimenter field {field}"
    if len ≠ 4 + (if hasMask then 2 * w else w) then fail s!"oxm experimenter field {field}: length {len}"
    pure (.node s!"oxm {cls} {field} {if hasMask then 1 else 0}" (bs.take (4 + len)) [], 4 + len)
  else
    match oxmLegalWidth cls field with
    | none => fail s!"oxm: unknown field {cls}/{field}"
    | some w =>
      -- tun_metadata (class 1, fields 40..103) is variable-length up to its maximum
      let isVar := cls = 1 ∧ 40 ≤ field ∧ field ≤ 103
      let ok := if isVar then (if hasMask then len % 2 = 0 ∧ len ≤ 2 * w else len ≤ w) ∧ 0 < len
                else len = (if hasMask then 2 * w else w)
      if ¬ ok then fail s!"oxm {cls}/{field} mask={hasMask}: payload length {len}, width {w}"
      pure (.node s!"oxm {cls} {field} {if hasMask then 1 else 0}" (bs.take (4 + len)) [], 4 + len)

/-- consecutive OXM TLVs filling exactly `bs` -/
def walkOxms : Nat → Bytes → W (List Tree)
  | 0, _ => fail "oxm list: out of fuel"
  | fuel + 1, bs =>
    if bs.isEmpty then pure [] else do
      let (t, n) ← walkOxm bs
      if n = 0 then fail "oxm: no progress"
      let rest ← walkOxms fuel (bs.drop n)
      pure (t :: rest)

/-- ofp_match at the start of `bs`: (element, bytes consumed including padding) -/
def walkMatch (bs : Bytes) : W (Tree × Nat) := do
  if bs.length < 4 then fail "match: truncated"
  let ty := u16At bs 0
  let len := u16At bs 2
  if ty ≠ 1 then fail s!"match type {ty}"
  if len < 4 then fail s!"match length {len}"
  let tot := round8 len
  if bs.length < tot then fail s!"match: length {len} (padded {tot}) exceeds the remaining {bs.length} bytes"
  let fields ← walkOxms (len + 1) (slice bs 4 (len - 4))
  zerosAt bs len (tot - len) "match"
  pure (.node "match" (bs.take tot) fields, tot)

/-- sizes of the fixed-size Nicira actions -/
def nxFixed : List (Nat × Nat) :=
  [(1, 16), (14, 16), (44, 16), (6, 24), (7, 24), (15, 24), (18, 16), (20, 16), (34, 16), (43, 16)]

/-- learn flow-mod-specs filling `bs` (the remainder after the last spec must be zero padding) -/
def walkLearnSpecs : Nat → Bytes → W (List Tree)
  | 0, _ => fail "learn specs: out of fuel"
  | fuel + 1, bs =>
    if bs.length < 2 then (if allZero bs then pure [] else fail "learn: non-zero padding")
    else
      let hdr := u16At bs 0
      if hdr = 0 then (if allZero bs then pure [] else fail "learn: data after the terminating zero header")
      else do
        let nbits := hdr % 2048
        let srcImm := (hdr / 8192) % 2 = 1
        let dst := (hdr / 2048) % 4
        if hdr ≥ 16384 then fail s!"learn spec header {hdr}: reserved bits"
        if dst = 3 then fail s!"learn spec header {hdr}: destination kind 3"
        let size := 2 + (if srcImm then 2 * ((nbits + 15) / 16) else 6) + (if dst = 2 then 0 else 6)
        if bs.length < size then fail s!"learn spec needs {size} bytes, {bs.length} left"
        let rest ← walkLearnSpecs fuel (bs.drop size)
        pure (.node s!"spec {if srcImm then 1 else 0} {dst}" (bs.take size) [] :: rest)

mutual
/-- one action at the start of `bs`: (element, bytes consumed) -/
def walkAction : Nat → Bytes → W (Tree × Nat)
  | 0, _ => fail "action: nesting too deep"
  | fuel + 1, bs => do
    if bs.length < 4 then fail "action: truncated header"
    let ty := u16At bs 0
    let len := u16At bs 2
    if len < 8 ∨ len % 8 ≠ 0 then fail s!"action type {ty}: length {len} is not a positive multiple of 8"
    if bs.length < len then fail s!"action type {ty}: length {len} exceeds the remaining {bs.length} bytes"
    let a := bs.take len
    match ty with
    | 0 => do
      if len ≠ 16 then fail s!"output action length {len}"
      zerosAt a 10 6 "output action"
      pure (.node "act 0" a [], len)
    | 11 | 12 | 16 | 18 | 24 | 27 => do
      if len ≠ 8 then fail s!"action type {ty} length {len}"
      zerosAt a 4 4 s!"action {ty}"
      pure (.node s!"act {ty}" a [], len)
    | 15 | 23 => do
      if len ≠ 8 then fail s!"action type {ty} length {len}"
      zerosAt a 5 3 s!"action {ty}"
      pure (.node s!"act {ty}" a [], len)
    | 17 | 19 | 20 | 26 => do
      if len ≠ 8 then fail s!"action type {ty} length {len}"
      zerosAt a 6 2 s!"action {ty}"
      pure (.node s!"act {ty}" a [], len)
    | 21 | 22 => do
      if len ≠ 8 then fail s!"action type {ty} length {len}"
      pure (.node s!"act {ty}" a [], len)
    | 25 => do
      let (f, n) ← walkOxm (a.drop 4)
      if round8 (4 + n) ≠ len then fail s!"set-field: oxm of {n} bytes in an action of {len}"
      zerosAt a (4 + n) (len - 4 - n) "set-field"
      pure (.node "act 25" a [f], len)
    | 65535 => do
      if len < 16 then fail s!"experimenter action length {len}"
      let vendor := u32At a 4
      if vendor ≠ 0x2320 then fail s!"experimenter action vendor {vendor}"
      let sub := u16At a 8
      match nxFixed.lookup sub with
      | some sz =>
        if len ≠ sz then fail s!"nicira action {sub}: length {len}, expected {sz}"
        else pure (.node s!"nx {sub}" a [], len)
      | none =>
        match sub with
        | 8 => pure (.node "nx 8" a [], len)
        | 16 => do
          if len < 32 then fail s!"learn action length {len}"
          let specs ← walkLearnSpecs (len + 1) (a.drop 32)
          pure (.node "nx 16" a specs, len)
        | 21 => do
          let n := u16At a 10
          zerosAt a 12 4 "dec_ttl_cnt_ids"
          if round8 (16 + 2 * n) ≠ len then fail s!"dec_ttl_cnt_ids: {n} ids in an action of {len} bytes"
          zerosAt a (16 + 2 * n) (len - 16 - 2 * n) "dec_ttl_cnt_ids"
          pure (.node "nx 21" a [], len)
        | 32 => if len < 24 then fail "output_reg2 length" else pure (.node "nx 32" a [], len)
        | 33 => do
          let (f, n) ← walkOxm (a.drop 10)
          if round8 (10 + n) ≠ len then fail s!"reg_load2: oxm of {n} bytes in an action of {len}"
          zerosAt a (10 + n) (len - 10 - n) "reg_load2"
          pure (.node "nx 33" a [f], len)
        | 35 => do
          if len < 24 then fail s!"ct action length {len}"
          zerosAt a 19 3 "ct"
          let sub ← walkActions fuel (a.drop 24)
          pure (.node "nx 35" a sub, len)
        | 36 => do
          zerosAt a 10 2 "nat"
          let present := u16At a 14
          if present ≥ 64 then fail s!"nat range_present {present}"
          let sz := 16 + (if present % 2 = 1 then 4 else 0) + (if present / 2 % 2 = 1 then 4 else 0)
            + (if present / 4 % 2 = 1 then 16 else 0) + (if present / 8 % 2 = 1 then 16 else 0)
            + (if present / 16 % 2 = 1 then 2 else 0) + (if present / 32 % 2 = 1 then 2 else 0)
          if round8 sz ≠ len then fail s!"nat: range_present {present} needs {round8 sz} bytes, length is {len}"
          zerosAt a sz (len - sz) "nat"
          pure (.node "nx 36" a [], len)
        | _ => fail s!"nicira action subtype {sub}"
    | _ => fail s!"action type {ty}"

/-- consecutive actions filling exactly `bs` -/
def walkActions : Nat → Bytes → W (List Tree)
  | 0, _ => fail "actions: nesting too deep"
  | fuel + 1, bs =>
    if bs.isEmpty then pure [] else do
      let (t, n) ← walkAction fuel bs
      let rest ← walkActions fuel (bs.drop n)
      pure (t :: rest)
end

def walkInstrs : Nat → Bytes → W (List Tree)
  | 0, _ => fail "instructions: out of fuel"
  | fuel + 1, bs =>
    if bs.isEmpty then pure [] else do
      if bs.length < 4 then fail "instruction: truncated header"
      let ty := u16At bs 0
      let len := u16At bs 2
      if len < 8 ∨ len % 8 ≠ 0 then fail s!"instruction type {ty}: length {len}"
      if bs.length < len then fail s!"instruction type {ty}: length {len} exceeds the remaining {bs.length} bytes"
      let a := bs.take len
      let t ← match ty with
        | 1 => do
          if len ≠ 8 then fail "goto-table length"
          zerosAt a 5 3 "goto-table"
          pure (Tree.node "ins 1" a [])
        | 2 => do
          if len ≠ 24 then fail "write-metadata length"
          zerosAt a 4 4 "write-metadata"
          pure (Tree.node "ins 2" a [])
        | 3 | 4 | 5 => do
          zerosAt a 4 4 s!"instruction {ty}"
          if ty = 5 ∧ len ≠ 8 then fail "clear-actions carries actions"
          let acts ← walkActions (len + 1) (a.drop 8)
          pure (Tree.node s!"ins {ty}" a acts)
        | 6 => do
          if len ≠ 8 then fail "meter length"
          pure (Tree.node "ins 6" a [])
        | _ => fail s!"instruction type {ty}"
      let rest ← walkInstrs fuel (bs.drop len)
      pure (t :: rest)

def walkBuckets : Nat → Bytes → W (List Tree)
  | 0, _ => fail "buckets: out of fuel"
  | fuel + 1, bs =>
    if bs.isEmpty then pure [] else do
      if bs.length < 16 then fail "bucket: truncated"
      let len := u16At bs 0
      if len < 16 ∨ len % 8 ≠ 0 then fail s!"bucket length {len}"
      if bs.length < len then fail s!"bucket length {len} exceeds the remaining {bs.length} bytes"
      let a := bs.take len
      zerosAt a 12 4 "bucket"
      let acts ← walkActions (len + 1) (a.drop 16)
      let rest ← walkBuckets fuel (bs.drop len)
      pure (.node "bucket" a acts :: rest)

def walkHelloElems : Nat → Bytes → W (List Tree)
  | 0, _ => fail "hello: out of fuel"
  | fuel + 1, bs =>
    if bs.isEmpty then pure [] else do
      if bs.length < 4 then fail "hello element: truncated"
      let ty := u16At bs 0
      let len := u16At bs 2
      if len < 4 then fail s!"hello element length {len}"
      let tot := round8 len
      if bs.length < tot then fail s!"hello element: length {len} (padded {tot}) exceeds the remaining {bs.length} bytes"
      if ty = 1 ∧ (len - 4) % 4 ≠ 0 then fail s!"version bitmap element length {len}"
      zerosAt bs len (tot - len) "hello element"
      let rest ← walkHelloElems fuel (bs.drop tot)
      pure (.node s!"helloelem {ty}" (bs.take tot) [] :: rest)

def walkTlvMaps : Nat → Bytes → W (List Tree)
  | 0, _ => fail "tlv maps: out of fuel"
  | fuel + 1, bs =>
    if bs.isEmpty then pure [] else do
      if bs.length < 8 then fail "tlv map: truncated"
      zerosAt bs 6 2 "tlv map"
      let rest ← walkTlvMaps fuel (bs.drop 8)
      pure (.node "tlvmap" (bs.take 8) [] :: rest)

def walkProps : Nat → Bytes → W (List Tree)
  | 0, _ => fail "properties: out of fuel"
  | fuel + 1, bs =>
    if bs.isEmpty then pure [] else do
      if bs.length < 4 then fail "bundle property: truncated"
      let ty := u16At bs 0
      let len := u16At bs 2
      if len < 4 then fail s!"bundle property length {len}"
      let tot := round8 len
      if bs.length < tot then fail s!"bundle property length {len} exceeds the remaining bytes"
      if ty = 0xffff ∧ len < 12 then fail "experimenter property shorter than its header"
      zerosAt bs len (tot - len) "bundle property"
      let rest ← walkProps fuel (bs.drop tot)
      pure (.node s!"prop {ty}" (bs.take tot) [] :: rest)

/-- a whole message: header, fixed part by type, nested lists by declared lengths; must end exactly at the end -/
def walkMsg : Nat → Bytes → W Tree
  | 0, _ => fail "message: nesting too deep"
  | fuel + 1, bs => do
    if bs.length < 8 then fail "message: shorter than a header"
    let ver := u8At bs 0
    let ty := u8At bs 1
    let len := u16At bs 2
    if ver ≠ 4 then fail s!"version {ver}"
    if len ≠ bs.length then fail s!"header length {len}, message has {bs.length} bytes"
    let body := bs.drop 8
    match ty with
    | 0 => do
      let es ← walkHelloElems (len + 1) body
      pure (.node "msg 0" bs es)
    | 2 | 3 => pure (.node s!"msg {ty}" bs [])
    | 5 | 7 | 20 => if body.isEmpty then pure (.node s!"msg {ty}" bs []) else fail s!"message type {ty} carries a body"
    | 9 => if body.length = 4 then pure (.node "msg 9" bs []) else fail "set-config body"
    | 13 => do
      if body.length < 16 then fail "packet-out: truncated"
      let alen := u16At body 8
      zerosAt body 10 6 "packet-out"
      if body.length < 16 + alen then fail s!"packet-out actions_len {alen} exceeds the message"
      let acts ← walkActions (len + 1) (slice body 16 alen)
      pure (.node "msg 13" bs acts)
    | 14 => do
      if body.length < 40 then fail "flow-mod: truncated"
      zerosAt body 38 2 "flow-mod"
      let cmd := u8At body 17
      if cmd > 4 then fail s!"flow-mod command {cmd}"
      let (m, n) ← walkMatch (body.drop 40)
      let ins ← walkInstrs (len + 1) (body.drop (40 + n))
      pure (.node "msg 14" bs (m :: ins))
    | 15 => do
      if body.length < 8 then fail "group-mod: truncated"
      zerosAt body 3 1 "group-mod"
      let bk ← walkBuckets (len + 1) (body.drop 8)
      pure (.node "msg 15" bs bk)
    | 16 => do
      if body.length ≠ 32 then fail s!"port-mod body of {body.length} bytes"
      zerosAt body 4 4 "port-mod"
      zerosAt body 14 2 "port-mod"
      zerosAt body 28 4 "port-mod"
      pure (.node "msg 16" bs [])
    | 18 => do
      if body.length < 8 then fail "multipart request: truncated"
      let mt := u16At body 0
      zerosAt body 4 4 "multipart request"
      let b := body.drop 8
      match mt with
      | 0 | 3 | 7 | 8 | 11 | 13 => if b.isEmpty then pure (.node "msg 18" bs [.node s!"mp {mt}" b []]) else fail s!"multipart {mt} carries a body"
      | 1 | 2 => do
        if b.length < 32 then fail "flow/aggregate stats request: truncated"
        zerosAt b 1 3 "stats request"
        zerosAt b 12 4 "stats request"
        let (m, n) ← walkMatch (b.drop 32)
        if 32 + n ≠ b.length then fail "stats request: trailing bytes after the match"
        pure (.node "msg 18" bs [.node s!"mp {mt}" b [m]])
      | 4 => do
        if b.length ≠ 8 then fail "port stats request body"
        zerosAt b 4 4 "port stats request"
        pure (.node "msg 18" bs [.node "mp 4" b []])
      | 5 | 6 | 9 | 10 => if b.length = 8 then pure (.node "msg 18" bs [.node s!"mp {mt}" b []]) else fail s!"multipart {mt} body"
      | _ => fail s!"multipart type {mt}"
    | 4 => do
      if body.length < 8 then fail "experimenter: truncated"
      let exp := u32At body 0
      let et := u32At body 4
      let d := body.drop 8
      if exp = 0x2320 then
        match et with
        | 20 => do
          if d.length ≠ 8 then fail "set-controller-id body"
          zerosAt d 0 6 "set-controller-id"
          pure (.node "msg 4" bs [.node "nxt 20" d []])
        | 24 => do
          if d.length < 8 then fail "tlv-table-mod: truncated"
          zerosAt d 2 6 "tlv-table-mod"
          let maps ← walkTlvMaps (len + 1) (d.drop 8)
          pure (.node "msg 4" bs [.node "nxt 24" d maps])
        | 25 => if d.isEmpty then pure (.node "msg 4" bs [.node "nxt 25" d []]) else fail "tlv-table-request carries a body"
        | _ => fail s!"nicira message type {et}"
      else if exp = 0x4f4e4600 then
        match et with
        | 2300 => do
          if d.length < 8 then fail "bundle-control: truncated"
          let bt := u16At d 4
          if bt > 7 then fail s!"bundle control type {bt}"
          let ps ← walkProps (len + 1) (d.drop 8)
          pure (.node "msg 4" bs [.node "onf 2300" d ps])
        | 2301 => do
          if d.length < 16 then fail "bundle-add: truncated"
          zerosAt d 4 2 "bundle-add"
          let ilen := u16At d 10
          if ilen < 8 ∨ d.length < 8 + ilen then fail s!"bundle-add: embedded message length {ilen}"
          let inner ← walkMsg fuel (slice d 8 ilen)
          let ps ← walkProps (len + 1) (d.drop (8 + round8 ilen))
          pure (.node "msg 4" bs [.node "onf 2301" d (inner :: ps)])
        | _ => fail s!"onf message type {et}"
      else fail s!"experimenter {exp}"
    | _ => fail s!"message type {ty} is not controller-originated / not supported"

/-- pre-order list of the kinds visited -/
partial def Tree.flat : Tree → List String
  | .node k _ cs => k :: (cs.map Tree.flat).flatten

/-- pre-order list of (kind, bytes of the element) -/
partial def Tree.flatBytes : Tree → List (String × Bytes)
  | .node k b cs => (k, b) :: (cs.map Tree.flatBytes).flatten

def walk (bs : Bytes) : W Tree := walkMsg (bs.length + 8) bs

end OFV.Spec
