/-
  OFV.Spec.Layout — where each field of each element sits on the wire (offset, width, big-endian), per OpenFlow 1.3.5
  and OVS nicira-ext.h (transcribed from memory, DESIGN §8).  Offsets are relative to the first byte of the element
  (for top-level messages: of the OpenFlow header).  Field names are those of the Go structs — they only say WHICH
  supplied value must be found at the position the specification assigns to it.
-/
import OFV.Go.Bytes
namespace OFV.Spec

inductive FK | num | raw | hdrWord
deriving Repr, DecidableEq

structure FL where
  name : String
  off : Nat
  width : Nat
  kind : FK := .num

def layouts : List (String × List FL) := [
  ("FlowMod", [⟨"Cookie", 8, 8, .num⟩, ⟨"CookieMask", 16, 8, .num⟩, ⟨"TableId", 24, 1, .num⟩, ⟨"Command", 25, 1, .num⟩,
               ⟨"IdleTimeout", 26, 2, .num⟩, ⟨"HardTimeout", 28, 2, .num⟩, ⟨"Priority", 30, 2, .num⟩, ⟨"BufferId", 32, 4, .num⟩,
               ⟨"OutPort", 36, 4, .num⟩, ⟨"OutGroup", 40, 4, .num⟩, ⟨"Flags", 44, 2, .num⟩]),
  ("GroupMod", [⟨"Command", 8, 2, .num⟩, ⟨"Type", 10, 1, .num⟩, ⟨"GroupId", 12, 4, .num⟩]),
  ("Bucket", [⟨"Weight", 2, 2, .num⟩, ⟨"WatchPort", 4, 4, .num⟩, ⟨"WatchGroup", 8, 4, .num⟩]),
  ("PacketOut", [⟨"BufferId", 8, 4, .num⟩, ⟨"InPort", 12, 4, .num⟩]),
  ("PortMod", [⟨"PortNo", 8, 4, .num⟩, ⟨"HWAddr", 16, 6, .raw⟩, ⟨"Config", 24, 4, .num⟩, ⟨"Mask", 28, 4, .num⟩,
               ⟨"Advertise", 32, 4, .num⟩]),
  ("SwitchConfig", [⟨"Flags", 8, 2, .num⟩, ⟨"MissSendLen", 10, 2, .num⟩]),
  ("MultipartRequest", [⟨"Type", 8, 2, .num⟩, ⟨"Flags", 10, 2, .num⟩]),
  -- multipart bodies: relative to the body (after the 16 bytes of header + type/flags/pad)
  ("FlowStatsRequest", [⟨"TableId", 0, 1, .num⟩, ⟨"OutPort", 4, 4, .num⟩, ⟨"OutGroup", 8, 4, .num⟩, ⟨"Cookie", 16, 8, .num⟩,
               ⟨"CookieMask", 24, 8, .num⟩]),
  ("AggregateStatsRequest", [⟨"TableId", 0, 1, .num⟩, ⟨"OutPort", 4, 4, .num⟩, ⟨"OutGroup", 8, 4, .num⟩,
               ⟨"Cookie", 16, 8, .num⟩, ⟨"CookieMask", 24, 8, .num⟩]),
  ("PortStatsRequest", [⟨"PortNo", 0, 4, .num⟩]),
  ("QueueStatsRequest", [⟨"PortNo", 0, 4, .num⟩, ⟨"QueueId", 4, 4, .num⟩]),
  -- standard actions
  ("ActionOutput", [⟨"Port", 4, 4, .num⟩, ⟨"MaxLen", 8, 2, .num⟩]),
  ("ActionSetqueue", [⟨"QueueId", 4, 4, .num⟩]),
  ("ActionGroup", [⟨"GroupId", 4, 4, .num⟩]),
  ("ActionPush", [⟨"EtherType", 4, 2, .num⟩]),
  ("ActionPopMpls", [⟨"EtherType", 4, 2, .num⟩]),
  ("ActionMplsTtl", [⟨"MplsTtl", 4, 1, .num⟩]),
  ("ActionNwTtl", [⟨"NwTtl", 4, 1, .num⟩]),
  -- Nicira actions (type 0xffff, len, vendor 0x2320 at 4, subtype at 8)
  ("NXActionResubmit", [⟨"InPort", 10, 2, .num⟩]),
  ("NXActionResubmitTable", [⟨"InPort", 10, 2, .num⟩, ⟨"TableID", 12, 1, .num⟩]),
  ("NXActionRegMove", [⟨"Nbits", 10, 2, .num⟩, ⟨"SrcOfs", 12, 2, .num⟩, ⟨"DstOfs", 14, 2, .num⟩,
               ⟨"SrcField", 16, 4, .hdrWord⟩, ⟨"DstField", 20, 4, .hdrWord⟩]),
  ("NXActionRegLoad", [⟨"OfsNbits", 10, 2, .num⟩, ⟨"DstReg", 12, 4, .hdrWord⟩, ⟨"Value", 16, 8, .num⟩]),
  ("NXActionOutputReg", [⟨"OfsNbits", 10, 2, .num⟩, ⟨"SrcField", 12, 4, .hdrWord⟩, ⟨"MaxLen", 16, 2, .num⟩]),
  ("NXActionConjunction", [⟨"Clause", 10, 1, .num⟩, ⟨"NClause", 11, 1, .num⟩, ⟨"ID", 12, 4, .num⟩]),
  ("NXActionController", [⟨"MaxLen", 10, 2, .num⟩, ⟨"ControllerID", 12, 2, .num⟩, ⟨"Reason", 14, 1, .num⟩]),
  ("NXActionConnTrack", [⟨"Flags", 10, 2, .num⟩, ⟨"ZoneSrc", 12, 4, .num⟩, ⟨"ZoneOfsNbits", 16, 2, .num⟩,
               ⟨"RecircTable", 18, 1, .num⟩, ⟨"Alg", 22, 2, .num⟩]),
  ("NXActionCTNAT", [⟨"Flags", 12, 2, .num⟩, ⟨"rangePresent", 14, 2, .num⟩]),
  ("NXActionLearn", [⟨"IdleTimeout", 10, 2, .num⟩, ⟨"HardTimeout", 12, 2, .num⟩, ⟨"Priority", 14, 2, .num⟩,
               ⟨"Cookie", 16, 8, .num⟩, ⟨"Flags", 24, 2, .num⟩, ⟨"TableID", 26, 1, .num⟩, ⟨"FinIdleTimeout", 28, 2, .num⟩,
               ⟨"FinHardTimeout", 30, 2, .num⟩]),
  ("NXActionDecTTLCntIDs", [⟨"controllers", 10, 2, .num⟩]),
  -- instructions
  ("InstrGotoTable", [⟨"TableId", 4, 1, .num⟩]),
  ("InstrWriteMetadata", [⟨"Metadata", 8, 8, .num⟩, ⟨"MetadataMask", 16, 8, .num⟩]),
  ("InstrMeter", [⟨"MeterId", 4, 4, .num⟩]),
  -- vendor payloads: relative to the experimenter payload (after header 8 + experimenter 4 + type 4)
  ("ControllerID", [⟨"ID", 6, 2, .num⟩]),
  ("TLVTableMod", [⟨"Command", 0, 2, .num⟩]),
  ("TLVTableMap", [⟨"OptClass", 0, 2, .num⟩, ⟨"OptType", 2, 1, .num⟩, ⟨"OptLength", 3, 1, .num⟩, ⟨"Index", 4, 2, .num⟩]),
  ("BundleControl", [⟨"BundleID", 0, 4, .num⟩, ⟨"Type", 4, 2, .num⟩, ⟨"Flags", 6, 2, .num⟩]),
  ("BundleAdd", [⟨"BundleID", 0, 4, .num⟩, ⟨"Flags", 6, 2, .num⟩])
]

/-- big-endian value of `w` bytes at `off` -/
def beAt (bs : Bytes) (off w : Nat) : Nat := ((bs.drop off).take w).foldl (fun acc b => acc * 256 + b.toNat) 0

end OFV.Spec
