/-
  C05c — decoding an encoding gives back the same value (library round trip): the pieces OFV/Props/C05b.lean left open.
  Statement style as in C05 / C05b (`RoundTrip enc dec v v' bs`); proofs and predicates in OFV/Lemmas/RT3*.lean.

  §1 the eleven NXM_1 match fields decodable since the last repair (tun_id … tun_flags): nxm1_byteArray_roundtrip /
     nxm1_byteArray_masked_roundtrip (any value / mask bytes; already instances of C05's matchField_roundtrip through the table),
     nxm1_examples, and fields built by the generic builder NewMatchField: built_tunId_tcpFlags_roundtrip (every 64-bit / 16-bit value),
     built_tunId_masked_roundtrip (every window), built_recircId_unknown (the builder's name registry has no recirc_id / dp_hash).
  §2 conntrack inside conntrack to any depth: `ActionRTn n` (round trip at nesting level n), nxConnTrack_nested_roundtrip (the induction
     step n ↦ n + 1, no "non-conntrack" restriction), ctTower_roundtrip (EVERY height that fits 64 KiB), ctTower_example,
     ctTower_budget_example, nxConnTrack_nested_in_lists (→ `ActionRTd`: InstrActions / Bucket / FlowMod / FlowStats),
     instrActions_ctTower_roundtrip, flowMod_ctTower_roundtrip (through Parse).
  §3 TableStats / PortStats records for all field values (record_tableStats, record_portStats; usable in C05b's
     multipartReply_roundtrip), tableStats_literal_counterexample (a literal with nil pad / Name does not round-trip).
  §4 MultipartRequest (known D28): multipartRequest_decoder (exactly which fields come back; the body is the receiver's),
     multipartRequest_body_dropped, multipartRequest_never_parsed, multipartRequest_zero_receiver_never, multipartRequest_every_kind
     (incl.: a request with a nil Body cannot be encoded — no body-less request round-trips).
-/
import OFV.Props.C05b
import OFV.Props.C17
import OFV.Lemmas.RT3Match
import OFV.Lemmas.RT3Ct
import OFV.Lemmas.RT3Stats
import OFV.Lemmas.RT3Multipart
namespace OFV.Props.C05c
open OFV OFV.Go OFV.Model OFV.RT OFV.RT2 OFV.RT3 OFV.Props.C05

/-! ## §1 the NXM_1 match fields decodable since the last repair

`newNxm1Fields` = tun_id 16, ip_frag 26, ip_ecn 28, ip_ttl 29, mpls_ttl 30, tcp_flags 34, dp_hash 35, recirc_id 36, tun_gbp_id 38,
tun_gbp_flags 39, tun_flags 104.  `DecodeMatchField` now allocates a ByteArrayField of the header's Length (half of it with a mask)
for them — they are entries of `nxm1FieldTable`, so C05's `matchField_roundtrip` (any `MatchFieldWF` value) and
`matchField_registry_covered` already cover them through the table; stated here explicitly, with the wire bytes.
`nxmField f b` = MatchField(class 1, field f, no mask, Length |b|, ByteArrayField b), `nxmFieldMasked f b m` = the masked one
(Length 2·|b|, value b, mask m). -/

example : newNxm1Fields = [16, 26, 28, 29, 30, 34, 35, 36, 38, 39, 104] := rfl

/-- each of the eleven fields, WITHOUT mask, with ANY value bytes `b` (the width is whatever the header's Length says — the decoder
    does not check it against the field's registered width): 4-byte OXM header, the value; decoded into `new(MatchField)`,
    followed by anything. -/
theorem nxm1_byteArray_roundtrip (f : Nat) (b : Bytes) (hf : f ∈ newNxm1Fields) (hb : b.length < 256) :
    MatchFieldWF (nxmField f b) ∧
    RoundTrip MatchField.marshalM (MatchField.unmarshal MatchField.zero) (nxmField f b) (nxmField f b)
      (be16 (n16 Gen.openflow13.OXM_CLASS_NXM_1) ++ [shl8 (n8 f) 1, n8 b.length] ++ b) := by
  obtain ⟨h1, h2⟩ := nxmField_rt f b hf hb
  exact ⟨nxmField_wf f b hf hb, h1, h1, h2⟩

/-- … and WITH mask: value `b` and mask `m` of the same width (Length = 2·|b| < 256): OXM header with the mask bit, value, mask -/
theorem nxm1_byteArray_masked_roundtrip (f : Nat) (b m : Bytes) (hf : f ∈ newNxm1Fields) (hb : 2 * b.length < 256)
    (hm : m.length = b.length) :
    MatchFieldWF (nxmFieldMasked f b m) ∧
    RoundTrip MatchField.marshalM (MatchField.unmarshal MatchField.zero) (nxmFieldMasked f b m) (nxmFieldMasked f b m)
      (be16 (n16 Gen.openflow13.OXM_CLASS_NXM_1) ++ [shl8 (n8 f) 1 ||| 1, n8 (2 * b.length)] ++ b ++ m) := by
  obtain ⟨h1, h2⟩ := nxmFieldMasked_rt f b m hf hb hm
  exact ⟨nxmFieldMasked_wf f b m hf hb hm, h1, h1, h2⟩

/-- satisfiable: tcp_flags (34) = 0x0012 / mask 0x0fff -/
example : 34 ∈ newNxm1Fields ∧ 2 * ([0, 18] : Bytes).length < 256 ∧ ([15, 255] : Bytes).length = ([0, 18] : Bytes).length :=
  ⟨by decide, by decide, rfl⟩

/-- concrete bytes: recirc_id = 7 (00 01 48 04 | 00 00 00 07) and tun_id = 0x1234 / mask 0xffff (00 01 21 10 | value | mask) -/
theorem nxm1_examples (tail : Bytes) :
    MatchField.marshalM (nxmField 36 [0, 0, 0, 7]) = .ok ([0, 1, 72, 4, 0, 0, 0, 7], nxmField 36 [0, 0, 0, 7]) ∧
    MatchField.unmarshal MatchField.zero (Slice.exact ([0, 1, 72, 4, 0, 0, 0, 7] ++ tail)) = .ok (nxmField 36 [0, 0, 0, 7]) ∧
    MatchField.marshalM (nxmFieldMasked 16 [0, 0, 0, 0, 0, 0, 18, 52] [0, 0, 0, 0, 0, 0, 255, 255])
      = .ok ([0, 1, 33, 16, 0, 0, 0, 0, 0, 0, 18, 52, 0, 0, 0, 0, 0, 0, 255, 255],
          nxmFieldMasked 16 [0, 0, 0, 0, 0, 0, 18, 52] [0, 0, 0, 0, 0, 0, 255, 255]) ∧
    MatchField.unmarshal MatchField.zero (Slice.exact ([0, 1, 33, 16, 0, 0, 0, 0, 0, 0, 18, 52, 0, 0, 0, 0, 0, 0, 255, 255] ++ tail))
      = .ok (nxmFieldMasked 16 [0, 0, 0, 0, 0, 0, 18, 52] [0, 0, 0, 0, 0, 0, 255, 255]) :=
  ⟨rfl, rfl, rfl, rfl⟩

open OFV.Model.MFG in
/-- fields built by the generic builder: `NewMatchField("NXM_NX_TUN_ID", v)` for EVERY 64-bit `v` and
    `NewMatchField("NXM_NX_TCP_FLAGS", v)` for every 16-bit `v` (no mask) return a field that round-trips: the value right-aligned,
    big-endian, in 8 resp. 2 bytes (`beN`).  (recirc_id and dp_hash have no entry in the builder's NAME registry — see
    built_recircId_unknown — so a recirc_id field can only be written as a literal: nxm1_examples.) -/
theorem built_tunId_tcpFlags_roundtrip (v : Nat) :
    (v < 2 ^ 64 → NewMatchField "NXM_NX_TUN_ID" (v : Int) [] = .ok (nxmField 16 (beN 8 v)) ∧
      RoundTrip MatchField.marshalM (MatchField.unmarshal MatchField.zero) (nxmField 16 (beN 8 v)) (nxmField 16 (beN 8 v))
        ([0, 1, 32, 8] ++ beN 8 v)) ∧
    (v < 2 ^ 16 → NewMatchField "NXM_NX_TCP_FLAGS" (v : Int) [] = .ok (nxmField 34 (beN 2 v)) ∧
      RoundTrip MatchField.marshalM (MatchField.unmarshal MatchField.zero) (nxmField 34 (beN 2 v)) (nxmField 34 (beN 2 v))
        ([0, 1, 68, 2] ++ beN 2 v)) := by
  have f1 : FindFieldHeaderByName "NXM_NX_TUN_ID" false = some { Class := 1, Field := 16, HasMask := false, Length := 8 } := by
    decide +kernel
  have f2 : FindFieldHeaderByName "NXM_NX_TCP_FLAGS" false = some { Class := 1, Field := 34, HasMask := false, Length := 2 } := by
    decide +kernel
  constructor
  · intro hv
    have hb := C17.C17_nomask "NXM_NX_TUN_ID" _ v f1 hv
    obtain ⟨_, hr⟩ := nxm1_byteArray_roundtrip 16 (beN 8 v) (by decide) (by rw [beN_length]; decide)
    rw [beN_length] at hr
    refine ⟨?_, hr⟩
    rw [hb, nxmField, baV, beN_length]; rfl
  · intro hv
    have hb := C17.C17_nomask "NXM_NX_TCP_FLAGS" _ v f2 hv
    obtain ⟨_, hr⟩ := nxm1_byteArray_roundtrip 34 (beN 2 v) (by decide) (by rw [beN_length]; decide)
    rw [beN_length] at hr
    refine ⟨?_, hr⟩
    rw [hb, nxmField, baV, beN_length]; rfl

open OFV.Model.MFG in
/-- the builder knows no field named NXM_NX_RECIRC_ID / NXM_NX_DP_HASH (they are decodable, constants exist, but the name registry
    has no entry): it returns an error, with or without mask -/
theorem built_recircId_unknown (v : Int) (mask : List Int) :
    NewMatchField "NXM_NX_RECIRC_ID" v mask = .err ∧ NewMatchField "NXM_NX_DP_HASH" v mask = .err := by
  have h1 : ∀ b, FindFieldHeaderByName "NXM_NX_RECIRC_ID" b = none := by decide +kernel
  have h2 : ∀ b, FindFieldHeaderByName "NXM_NX_DP_HASH" b = none := by decide +kernel
  constructor <;> (unfold NewMatchField; split <;> simp only [h1, h2])

open OFV.Model.MFG in
/-- … and a MASKED tun_id from the builder, `NewMatchField("NXM_NX_TUN_ID", v, s, w)` (value `v` of `w` bits at bit offset `s`): the
    field it returns is `nxmFieldMasked 16 value mask` and round-trips -/
theorem built_tunId_masked_roundtrip (v s w : Nat) (hwin : s + w ≤ 64) (hw : 0 < w) (hv : v < 2 ^ w) :
    let b := beN 8 (v * 2 ^ s)
    let m := beN 8 ((2 ^ w - 1) * 2 ^ s)
    NewMatchField "NXM_NX_TUN_ID" (v : Int) [(s : Int), (w : Int)] = .ok (nxmFieldMasked 16 b m) ∧
    RoundTrip MatchField.marshalM (MatchField.unmarshal MatchField.zero) (nxmFieldMasked 16 b m) (nxmFieldMasked 16 b m)
      ([0, 1, 33, 16] ++ b ++ m) := by
  intro b m
  have f1 : FindFieldHeaderByName "NXM_NX_TUN_ID" true = some { Class := 1, Field := 16, HasMask := true, Length := 16 } := by
    decide +kernel
  obtain ⟨hb, _⟩ := C17.C17_window "NXM_NX_TUN_ID" _ 8 s w v f1 rfl hwin hw hv
  obtain ⟨_, hr⟩ := nxm1_byteArray_masked_roundtrip 16 b m (by decide) (by simp only [b, beN_length]; decide)
    (by simp only [b, m, beN_length])
  have hl : b.length = 8 := beN_length _ _
  rw [hl] at hr
  refine ⟨?_, hr⟩
  rw [hb, nxmFieldMasked, baV, baV, hl, show m.length = 8 from beN_length _ _]; rfl

open OFV.Model.MFG in
/-- satisfiable and concrete: tun_id 0x1234 in bits 8..23 -/
example : NewMatchField "NXM_NX_TUN_ID" 4660 [8, 16]
    = .ok (nxmFieldMasked 16 [0, 0, 0, 0, 0, 18, 52, 0] [0, 0, 0, 0, 0, 255, 255, 0]) :=
  (built_tunId_masked_roundtrip 4660 8 16 (by decide) (by decide) (by decide)).1

/-! ## §2 conntrack actions nested inside conntrack actions, to any depth

`ActionRTn n a e` (OFV/Lemmas/RT3Ct.lean): the action `a` round-trips with encoding `e` at conntrack nesting level `n` — the
depth-indexed encoders `Action.marshalD (d+1)` / `Action.lenD (d+1)` return `e` / |e| and leave `a` unchanged for every budget `d ≥ n`,
and `DecodeAction (k+1)` returns `a` from `e` followed by anything for every nesting budget `k ≥ n`.  `ActionsRTn n as encs`: element-wise.
Level 0 = C05 / C05b's `ActionRT` facts about non-conntrack kinds (`ActionRTn.of`); levels are upper bounds (`ActionRTn.mono`).
`Action.marshalM = Action.marshalD (Action.encDepth + 1)` (encDepth = 4096 in the model; no theorem here depends on its value). -/

/-- THE INDUCTION STEP on the nesting depth: NXActionConnTrack holding ANY list `as` of actions that round-trip at level `n` —
    conntrack actions whose own lists round-trip at level n − 1 among them — round-trips at level `n + 1`, provided `n` is below the
    encoder's bound `Action.encDepth`.  C05b's `nxConnTrack_roundtrip` is the case n = 0 (nxConnTrack_level0), its restriction
    "no nested conntrack" is gone.  First part: `MarshalBinary` with any stored Length `ln0` and a pad of ≤ 3 zero bytes; second:
    round trip through DecodeAction with any nesting budget ≥ n + 2; third: the action is a level-(n+1) fact, so it can itself be
    nested (iterate). -/
theorem nxConnTrack_nested_roundtrip (n fl zs zo rt alg : Nat) (as : List V) (encs : List Bytes)
    (hfl : fl < 65536) (hzs : zs < 4294967296) (hzo : zo < 65536) (hrt : rt < 256) (halg : alg < 65536)
    (has : ActionsRTn n as encs) (hn : n < Action.encDepth) (hS : 24 + encs.flatten.length < 65536) :
    let L := 24 + encs.flatten.length
    let v' := ctV L fl zs zo rt [] alg as
    let bs := nxHdrBytes L Gen.openflow13.NXAST_CT ++ ctFixed fl zs zo rt alg ++ encs.flatten
    (∀ ln0 kp : Nat, kp ≤ 3 → Action.marshalM (ctV ln0 fl zs zo rt (zeros kp) alg as) = .ok (bs, ctV L fl zs zo rt (zeros kp) alg as)) ∧
    (∀ k, RoundTrip Action.marshalM (DecodeAction (n + k + 2)) v' v' bs) ∧
    ActionRTn (n + 1) v' bs := by
  intro L v' bs
  obtain ⟨h1, _, h3⟩ := nxConnTrack_step n fl zs zo rt alg as encs hfl hzs hzo hrt halg has (by omega) hS
  have hm : Action.marshalM v' = .ok (bs, v') := h3 Action.encDepth L 0 hn (by omega)
  exact ⟨fun ln0 kp hkp => h3 Action.encDepth ln0 kp hn hkp,
    fun k => ⟨hm, hm, fun data tail hd hb => h1.2.2.2 data tail (n + k + 1) hd hb (by omega)⟩, h1⟩

/-- C05b's case: a list of non-conntrack `ActionRT` facts is a level-0 list -/
theorem nxConnTrack_level0 (as : List V) (encs : List Bytes) (has : ActionsRT as encs) (hleaf : Leafs as) : ActionsRTn 0 as encs :=
  ActionsRTn.of has hleaf

/-- satisfiable with a mixed list at level 1: [ct(commit, exec(load 1 → reg0[0..15], ct_clear)), ct_clear] — the outer conntrack
    action of the theorem then is ct(exec(ct(exec(load, ct_clear)), ct_clear)) -/
example : ∃ as encs, ActionsRTn 1 as encs ∧ as.length = 2 ∧ encs.flatten.length = 80 := by
  have h0 : ActionsRTn 0 _ _ := ActionsRTn.of
    (.cons (actionRT_regLoad 15 1 0 0 4 1 (by decide) ⟨by decide, by decide, by decide, by decide⟩ (by decide))
      (.cons actionRT_ctClear .nil))
    (by intro a ha; simp only [List.mem_cons, List.not_mem_nil, or_false] at ha; rcases ha with rfl | rfl <;> decide)
  obtain ⟨_, _, h1⟩ := nxConnTrack_nested_roundtrip 0 1 0 0 5 0 _ _ (by decide) (by decide) (by decide) (by decide) (by decide) h0
    (by decide) (by decide)
  exact ⟨_, _, .cons h1 (.cons ((ActionRTn.of actionRT_ctClear (by decide)).mono (by decide)) .nil), rfl, rfl⟩

/-- ANY depth: the tower `ctTower n` = ct(exec(ct(exec(… ct_clear …)))) of `n` conntrack actions inside each other (16 + 24·n bytes)
    round-trips through `Action.MarshalBinary` / `DecodeAction` (budget above n) for EVERY n within the encoder's bound and the
    64 KiB size limit (2729 levels fit) — by induction on n with the step above. -/
theorem ctTower_roundtrip (n : Nat) (hn : n ≤ Action.encDepth) (hS : 16 + 24 * n < 65536) :
    (ctTower n).2.length = 16 + 24 * n ∧ ActionRTn n (ctTower n).1 (ctTower n).2 ∧
    ∀ k, RoundTrip Action.marshalM (DecodeAction (n + k + 1)) (ctTower n).1 (ctTower n).1 (ctTower n).2 := by
  have h := ctTower_rt n hn hS
  have hm : Action.marshalM (ctTower n).1 = .ok ((ctTower n).2, (ctTower n).1) := (h.1 Action.encDepth hn).1
  exact ⟨ctTower_length n, h, fun k => ⟨hm, hm, fun data tail hd hb => h.2.2.2 data tail (n + k) hd hb (by omega)⟩⟩

/-- the tower of height 3 spelled out: 88 bytes, decoded back from the front of any buffer with nesting budget 4 -/
theorem ctTower_example (tail : Bytes) :
    (ctTower 3).2 = [255, 255, 0, 88, 0, 0, 35, 32, 0, 35,  0, 0, 0, 0, 0, 0, 0, 0, 255, 0, 0, 0, 0, 0,
                     255, 255, 0, 64, 0, 0, 35, 32, 0, 35,  0, 0, 0, 0, 0, 0, 0, 0, 255, 0, 0, 0, 0, 0,
                     255, 255, 0, 40, 0, 0, 35, 32, 0, 35,  0, 0, 0, 0, 0, 0, 0, 0, 255, 0, 0, 0, 0, 0,
                     255, 255, 0, 16, 0, 0, 35, 32, 0, 43,  0, 0, 0, 0, 0, 0] ∧
    DecodeAction 4 (Slice.exact ((ctTower 3).2 ++ tail)) = .ok (ctTower 3).1 ∧
    Action.marshalM (ctTower 3).1 = .ok ((ctTower 3).2, (ctTower 3).1) := by
  obtain ⟨_, _, h⟩ := ctTower_roundtrip 3 (by decide) (by decide)
  exact ⟨rfl, (h 0).2.2 _ tail (Slice.exact_wf _) (List.take_length (l := (ctTower 3).2 ++ tail)), (h 0).1⟩

/-- the budget is needed: with nesting budget 3 (= its height) the same tower does not decode — `DecodeAction` reaches depth 0 and
    panics (the library starts the budget at len(data) + 1, which always exceeds the height: 24 bytes per level) -/
theorem ctTower_budget_example : DecodeAction 3 (Slice.exact (ctTower 3).2) = .panic := rfl

/-- Elements inside a list: a conntrack action over a level-`n` list (n below the encoder's bound and below its own size) is an
    `ActionRTd` fact (OFV/Lemmas/RT2Deep.lean), hence an element of the lists of C05b's `instrActions_deep_roundtrip`,
    `bucket_roundtrip`, and — through `instrRT_actions_d` — of C05's `flowMod_roundtrip` and C05b's `record_flowStats`. -/
theorem nxConnTrack_nested_in_lists (n fl zs zo rt alg : Nat) (as : List V) (encs : List Bytes)
    (hfl : fl < 65536) (hzs : zs < 4294967296) (hzo : zo < 65536) (hrt : rt < 256) (halg : alg < 65536)
    (has : ActionsRTn n as encs) (hn : n < Action.encDepth) (hnl : n < 24 + encs.flatten.length)
    (hS : 24 + encs.flatten.length < 65536) :
    ActionRTd (ctV (24 + encs.flatten.length) fl zs zo rt [] alg as)
      (nxHdrBytes (24 + encs.flatten.length) Gen.openflow13.NXAST_CT ++ ctFixed fl zs zo rt alg ++ encs.flatten) :=
  actionRTd_connTrack_n n fl zs zo rt alg as encs hfl hzs hzo hrt halg has hn hnl hS

/-- Instruction corollary: apply-actions / write-actions [tower of height n, output 2] round-trips through DecodeInstr, for EVERY
    height n that fits -/
theorem instrActions_ctTower_roundtrip (ty n : Nat)
    (hty : ty = Gen.openflow13.InstrType_WRITE_ACTIONS ∨ ty = Gen.openflow13.InstrType_APPLY_ACTIONS)
    (hn : n ≤ Action.encDepth) (hS : 40 + 24 * n < 65536) :
    let out := V.obj "ActionOutput" [ActionHeader.mk 0 16, .num 2, .num 65535, .bytes []]
    let v := V.obj "InstrActions" [.obj "InstrHeader" [.num ty, .num (40 + 24 * n)], .bytes [], .list [(ctTower n).1, out]]
    ∃ ob, ob.length = 16 ∧ RoundTrip Instruction.marshalM DecodeInstr v v
      (be16 (n16 ty) ++ be16 (n16 (40 + 24 * n)) ++ zeros 4 ++ ((ctTower n).2 ++ ob)) ∧
      InstrRT v (be16 (n16 ty) ++ be16 (n16 (40 + 24 * n)) ++ zeros 4 ++ ((ctTower n).2 ++ ob)) := by
  intro out v
  have hl := ctTower_length n
  have ht : ActionRTd (ctTower n).1 (ctTower n).2 := (ctTower_rt n hn (by omega)).toRTd hn (by omega)
  have has : ActionsRTd _ _ := .cons ht (.cons (.of (actionRT_output 16 2 65535 (by decide) (by decide) (by decide))) .nil)
  have hi := instrRT_actions_d ty (40 + 24 * n) _ _ (by rcases hty with h | h; exact Or.inl h; exact Or.inr (Or.inl h)) has
    (by simp only [List.flatten_cons, List.flatten_nil, List.append_nil, List.length_append, hl]
        show 40 + 24 * n = 8 + (16 + 24 * n + 16); omega) (by omega)
  simp only [List.flatten_cons, List.flatten_nil, List.append_nil] at hi
  exact ⟨_, rfl, ⟨hi.1, hi.1, hi.2.2.2.2⟩, hi⟩

/-- Flow-mod corollary: a FlowMod (any scalar fields, empty OXM match, ADD / MODIFY command) whose instruction list is
    [apply-actions [tower of height n, output 2]] round-trips through `Parse` for EVERY height n that fits: 96 + 24·n bytes,
    decoded back followed by anything, whatever depth argument Parse is given. -/
theorem flowMod_ctTower_roundtrip (n ver xid ck cm tid cmd it ht pr bid op og fl : Nat)
    (hver : ver < 256) (hxid : xid < 4294967296) (hck : ck < 18446744073709551616) (hcm : cm < 18446744073709551616)
    (htid : tid < 256) (hcmd : cmd < 256) (hit : it < 65536) (hht : ht < 65536) (hpr : pr < 65536)
    (hbid : bid < 4294967296) (hop : op < 4294967296) (hog : og < 4294967296) (hfl : fl < 65536)
    (hadd : cmd ≠ Gen.openflow13.FC_DELETE ∧ cmd ≠ Gen.openflow13.FC_DELETE_STRICT)
    (hn : n ≤ Action.encDepth) (hS : 96 + 24 * n < 65536) :
    let out := V.obj "ActionOutput" [ActionHeader.mk 0 16, .num 2, .num 65535, .bytes []]
    let i := V.obj "InstrActions" [.obj "InstrHeader" [.num Gen.openflow13.InstrType_APPLY_ACTIONS, .num (40 + 24 * n)], .bytes [],
      .list [(ctTower n).1, out]]
    let m := V.obj "Match" [.num 1, .num 4, .list []]
    ∃ bs, bs.length = 96 + 24 * n ∧
      (∀ (ln0 : Nat) (pad : V), FlowMod.marshalM (flowModV ver ln0 xid ck cm tid cmd it ht pr bid op og fl pad m [i]) =
        .ok (bs, flowModV ver bs.length xid ck cm tid cmd it ht pr bid op og fl pad m [i])) ∧
      ∀ (depth : Nat) (data : Slice) (tail : Bytes), data.WF → data.bytes = bs ++ tail →
        parse depth data = .ok (flowModV ver bs.length xid ck cm tid cmd it ht pr bid op og fl (.bytes []) m [i]) := by
  intro out i m
  obtain ⟨ob, hob, _, hi⟩ := instrActions_ctTower_roundtrip Gen.openflow13.InstrType_APPLY_ACTIONS n (Or.inr rfl) hn (by omega)
  have hm : MatchWF m := ⟨by decide, fun f hf => absurd hf (by simp), rfl, by decide⟩
  have hmb : Match.marshalM m = .ok ([0, 1, 0, 4, 0, 0, 0, 0], m) := rfl
  obtain ⟨mbs, hmm, h⟩ := flowMod_roundtrip ver xid ck cm tid cmd it ht pr bid op og fl m [i] _ hver hxid hck hcm htid hcmd hit hht
    hpr hbid hop hog hfl hm (.cons hi .nil) (fun h => by rcases h with h | h; exact absurd h hadd.1; exact absurd h hadd.2)
  rw [hmb] at hmm
  cases hmm
  have hlen : 48 + ([0, 1, 0, 4, 0, 0, 0, 0] : Bytes).length
      + [be16 (n16 Gen.openflow13.InstrType_APPLY_ACTIONS) ++ be16 (n16 (40 + 24 * n)) ++ zeros 4 ++ ((ctTower n).2 ++ ob)].flatten.length
      = 96 + 24 * n := by
    simp only [List.flatten_cons, List.flatten_nil, List.append_nil, List.length_append, be16_length, zeros_length, ctTower_length,
      hob, List.length_cons, List.length_nil]
    omega
  obtain ⟨bs, hbl, h1, h2⟩ := h (by rw [hlen]; exact hS)
  exact ⟨bs, by rw [hbl, hlen], h1, h2⟩

/-! ## §3 TableStats and PortStats records of a multipart reply (general; C05b has concrete examples only)

`RecordRT ty r e` as in C05b §4.  The library's encoder / decoder pair IS a round trip for both kinds (their OpenFlow 1.0-style
layout — known finding D51 — is a conformance matter), for values in the form the constructors / the decoder produce: the decoder's
offsets follow the pad and name lengths of the receiver Parse allocates (NewTableStats(): 3 + 32 bytes, NewPortStats(): 6 bytes). -/

/-- TableStats record (64 bytes: table id, 3 pad bytes — ANY content, they are copied back —, 32-byte name, wildcards, max entries,
    active count, lookup count, matched count), for ALL field values -/
theorem record_tableStats (t : Nat) (pad name : Bytes) (w me ac lc mc : Nat) (ht : t < 256) (hpad : pad.length = 3)
    (hname : name.length = 32) (hw : w < 4294967296) (hme : me < 4294967296) (hac : ac < 4294967296)
    (hlc : lc < 18446744073709551616) (hmc : mc < 18446744073709551616) :
    RecordRT Gen.openflow13.MultipartType_Table (tableStatsV t pad name w me ac lc mc)
      ([n8 t] ++ pad ++ name ++ be32 (n32 w) ++ be32 (n32 me) ++ be32 (n32 ac) ++ be64 (n64 lc) ++ be64 (n64 mc)) :=
  recordRT_table t pad name w me ac lc mc ht hpad hname hw hme hac hlc hmc

/-- PortStats record (104 bytes: port, 6 pad bytes, the twelve 64-bit counters), for ALL field values -/
theorem record_portStats (p : Nat) (pad : Bytes) (c1 c2 c3 c4 c5 c6 c7 c8 c9 c10 c11 c12 : Nat) (hp : p < 65536) (hpad : pad.length = 6)
    (hcs : ∀ c ∈ [c1, c2, c3, c4, c5, c6, c7, c8, c9, c10, c11, c12], c < 18446744073709551616) :
    RecordRT Gen.openflow13.MultipartType_Port (portStatsV p pad [c1, c2, c3, c4, c5, c6, c7, c8, c9, c10, c11, c12])
      (be16 (n16 p) ++ pad ++ (be64 (n64 c1) ++ be64 (n64 c2) ++ be64 (n64 c3) ++ be64 (n64 c4) ++ be64 (n64 c5) ++ be64 (n64 c6) ++ be64 (n64 c7) ++ be64 (n64 c8) ++ be64 (n64 c9) ++ be64 (n64 c10) ++ be64 (n64 c11) ++ be64 (n64 c12))) :=
  recordRT_port p pad c1 c2 c3 c4 c5 c6 c7 c8 c9 c10 c11 c12 hp hpad hcs

set_option maxRecDepth 20000 in
/-- satisfiable, and as elements of C05b's `multipartReply_roundtrip`: a table-stats reply with two records and a port-stats reply
    with one record, through Parse -/
example (depth : Nat) : (∃ v' bs, RoundTrip MultipartReply.marshalM (parse depth) v' v' bs ∧ bs.length = 144) ∧
    (∃ v' bs, RoundTrip MultipartReply.marshalM (parse depth) v' v' bs ∧ bs.length = 120) := by
  have r1 := record_tableStats 3 [1, 2, 3] (zeros 32) 5 100 10 1 2 (by decide) rfl rfl (by decide) (by decide) (by decide) (by decide)
    (by decide)
  have r2 := record_tableStats 254 (zeros 3) (List.replicate 32 65) 0 4294967295 0 18446744073709551615 7 (by decide) rfl rfl
    (by decide) (by decide) (by decide) (by decide) (by decide)
  have r3 := record_portStats 3 (zeros 6) 1 2 3 4 5 6 7 8 9 10 11 18446744073709551615 (by decide) rfl (by decide)
  obtain ⟨_, h1⟩ := C05b.multipartReply_roundtrip 4 7 Gen.openflow13.MultipartType_Table 0 _ _ (by decide) (by decide) (by decide) (by decide)
    (.cons r1 (.cons r2 .nil)) (by decide)
  obtain ⟨_, h2⟩ := C05b.multipartReply_roundtrip 4 7 Gen.openflow13.MultipartType_Port 0 _ _ (by decide) (by decide) (by decide) (by decide)
    (.cons r3 .nil) (by decide)
  exact ⟨⟨_, _, h1 depth, rfl⟩, ⟨_, _, h2 depth, rfl⟩⟩

/-- the hypotheses on pad and name are needed: a TableStats written as a literal with nil pad and nil Name (`&TableStats{TableId: 3,
    …}` instead of NewTableStats()) still encodes to 64 bytes — the fields move up by 35 bytes, zero fill at the end — and Parse's
    record decoder (offsets 4 / 36) reads the counters as the name and zeros as the counters: observable fields differ.  A value of
    a hand-built shape, not what the constructor or the decoder produce; the same shape dependence as QueueStats' pad in C05b. -/
theorem tableStats_literal_counterexample :
    let v := tableStatsV 3 [] [] 5 100 10 1 2
    ∃ bs, anyMarshalM v = .ok (bs, v) ∧ bs.length = 64 ∧
      MultipartReply.decodeRecord Gen.openflow13.MultipartType_Table (Slice.exact bs)
        = .ok (tableStatsV 3 (zeros 3) [5, 0, 0, 0, 100, 0, 0, 0, 10, 0, 0, 0, 0, 0, 0, 0, 1, 0, 0, 0, 0, 0, 0, 0, 2, 0, 0, 0, 0, 0, 0, 0]
            0 0 0 0 0, false) :=
  ⟨_, rfl, rfl, rfl⟩

/-! ## §4 MultipartRequest (known finding D28: its decoder never decodes a body)

`MultipartRequest.UnmarshalBinary` reads Header, Type and Flags; its type switch only type-asserts the receiver's CURRENT Body: for the
four types with a request body (aggregate 2, flow 1, port 4, queue 5 — `mpBodyKind`) the receiver must already hold a Body of that
kind, which is left as it is; every other type (desc, table, …) is "unsupported".  `Parse` decodes into `new(MultipartRequest)` (Body
nil), so it never returns a multipart request. -/

/-- exactly what the decoder does, for ANY receiver (fields h0 t0 f0 p0 b0) and ANY bytes `rest` behind the 12 bytes it reads:
    types without a body kind → error; a body kind and a receiver whose Body is of another kind (or nil) → panic (failed type
    assertion); otherwise Header, Type, Flags come back from the bytes, pad and Body are the RECEIVER's — `rest` (the encoded body)
    has no influence on the result. -/
theorem multipartRequest_decoder (ver ty ln xid t f : Nat) (h0 t0 f0 p0 b0 : V) (hver : ver < 256) (hty : ty < 256) (hln : ln < 65536)
    (hxid : xid < 4294967296) (ht : t < 65536) (hf : f < 65536) (data : Slice) (rest : Bytes) (hd : data.WF)
    (hb : data.bytes = [n8 ver, n8 ty] ++ be16 (n16 ln) ++ be32 (n32 xid) ++ (be16 (n16 t) ++ be16 (n16 f) ++ rest)) :
    MultipartRequest.unmarshal (.obj "MultipartRequest" [h0, t0, f0, p0, b0]) data =
      match mpBodyKind t with
      | none => .err
      | some k => if b0.kind = k then .ok (.obj "MultipartRequest" [.obj "Header" [.num ver, .num ty, .num ln, .num xid], .num t, .num f, p0, b0])
                  else .panic :=
  mpRequest_own ver ty ln xid t f h0 t0 f0 p0 b0 hver hty hln hxid ht hf data rest hd hb

example : mpBodyKind Gen.openflow13.MultipartType_Port = some "PortStatsRequest" ∧ mpBodyKind Gen.openflow13.MultipartType_Desc = none :=
  ⟨rfl, rfl⟩

/-- the strongest positive statement: header and fixed fields round-trip into a receiver that already holds a Body of the right kind
    — a port-stats request for port 3, decoded into a receiver built for port 0: Header, Type, Flags are the encoded ones, the Body
    is still the receiver's (port 0: the encoded port number 3 is dropped).  Same for a queue-stats request (port 3 queue 9). -/
theorem multipartRequest_body_dropped :
    let hdr (ln : Nat) : V := .obj "Header" [.num 4, .num 18, .num ln, .num 7]
    let v := V.obj "MultipartRequest" [hdr 0, .num 4, .num 0, .bytes (zeros 4), .obj "PortStatsRequest" [.num 3, .bytes (zeros 6)]]
    let q := V.obj "MultipartRequest" [hdr 0, .num 5, .num 0, .bytes (zeros 4), .obj "QueueStatsRequest" [.num 3, .bytes (zeros 2), .num 9]]
    ∃ bs qs, bs = [4, 18, 0, 24, 0, 0, 0, 7, 0, 4, 0, 0, 0, 0, 0, 0, 0, 3, 0, 0, 0, 0, 0, 0] ∧
      MultipartRequest.marshalM v = .ok (bs, .obj "MultipartRequest" [hdr 24, .num 4, .num 0, .bytes (zeros 4),
        .obj "PortStatsRequest" [.num 3, .bytes (zeros 6)]]) ∧
      MultipartRequest.unmarshal (.obj "MultipartRequest" [Header.zero, .num 0, .num 0, .bytes [], PortStatsRequest.new]) (Slice.exact bs)
        = .ok (.obj "MultipartRequest" [hdr 24, .num 4, .num 0, .bytes [], PortStatsRequest.new]) ∧
      MultipartRequest.unmarshal MultipartRequest.zero (Slice.exact bs) = .panic ∧
      MultipartRequest.marshalM q = .ok (qs, .obj "MultipartRequest" [hdr 24, .num 5, .num 0, .bytes (zeros 4),
        .obj "QueueStatsRequest" [.num 3, .bytes (zeros 2), .num 9]]) ∧
      MultipartRequest.unmarshal (.obj "MultipartRequest" [Header.zero, .num 0, .num 0, .bytes [], QueueStatsRequest.new]) (Slice.exact qs)
        = .ok (.obj "MultipartRequest" [hdr 24, .num 5, .num 0, .bytes [], QueueStatsRequest.new]) :=
  ⟨_, _, rfl, rfl, rfl, rfl, rfl, rfl⟩

/-- `Parse` NEVER returns a multipart request: for every buffer whose type byte is 18 (and every depth argument) the result is
    not a value — the receiver's Body is nil, so the type assertion panics (recovered: error) or the type is "unsupported". -/
theorem multipartRequest_never_parsed (depth : Nat) (data : Slice)
    (h1 : data.byteAt 1 = .ok (n8 Gen.openflow13.Type_MultiPartRequest)) (v : V) : parse depth data ≠ .ok v :=
  parse_mpRequest_never depth data h1 v

/-- … and the own decoder into `new(MultipartRequest)` never returns a value either, whatever the bytes -/
theorem multipartRequest_zero_receiver_never (data : Slice) (v : V) :
    MultipartRequest.unmarshal MultipartRequest.zero data ≠ .ok v :=
  mpRequest_zero_never data v

set_option maxRecDepth 20000 in
/-- every body kind, concretely: the encodings of a flow-stats, aggregate, port-stats, queue-stats request and of a desc request
    with an empty `util.Buffer` body (56 / 56 / 24 / 24 / 16 bytes) all parse to an error; a request whose Body is a nil interface
    (a "body-less" desc / table request built without a body) cannot even be encoded: `Len()` panics on the nil interface — there is
    no body-less request that round-trips. -/
theorem multipartRequest_every_kind :
    let hdr : V := .obj "Header" [.num 4, .num 18, .num 0, .num 7]
    let req (t : Nat) (b : V) : V := .obj "MultipartRequest" [hdr, .num t, .num 0, .bytes (zeros 4), b]
    (∀ tb ∈ [(Gen.openflow13.MultipartType_Flow, FlowStatsRequest.new), (Gen.openflow13.MultipartType_Aggregate, AggregateStatsRequest.new),
        (Gen.openflow13.MultipartType_Port, V.obj "PortStatsRequest" [.num 3, .bytes (zeros 6)]),
        (Gen.openflow13.MultipartType_Queue, V.obj "QueueStatsRequest" [.num 3, .bytes (zeros 2), .num 9]),
        (Gen.openflow13.MultipartType_Desc, UBuffer.mk [])],
      ∃ bs v', MultipartRequest.marshalM (req tb.1 tb.2) = .ok (bs, v') ∧ parse (bs.length + 1) (Slice.exact bs) = .err) ∧
    MultipartRequest.marshalM (req Gen.openflow13.MultipartType_Desc .nil) = .panic := by
  refine ⟨?_, rfl⟩
  intro tb htb
  simp only [List.mem_cons, List.not_mem_nil, or_false] at htb
  rcases htb with rfl | rfl | rfl | rfl | rfl <;> exact ⟨_, _, rfl, rfl⟩

/-- flowMod_ctTower_roundtrip is satisfiable: height 100 (2496 bytes), command ADD -/
example : (0 : Nat) ≠ Gen.openflow13.FC_DELETE ∧ (0 : Nat) ≠ Gen.openflow13.FC_DELETE_STRICT ∧ 96 + 24 * 100 < 65536 :=
  ⟨by decide, by decide, by decide⟩

end OFV.Props.C05c
