/-
  C13 — repeatability: "Sizing and encoding are repeatable and do not disturb the value: asking a completed value for
  its size, or encoding it, any number of times and in any order gives the same answer every time, and neither operation
  changes what a later encoding or decoding of the same value produces.  Containers may therefore size and embed the
  same child repeatedly."

  (a) `Pure2 K.lenM K.marshalM v` — neither Len() nor MarshalBinary() modifies the value (most kinds);
  (b) `Repeatable K.lenM K.marshalM v` (OFV/Lemmas/SizeRepeat.lean) for the kinds that DO store something in the
      receiver (header Length fields, Bucket.Length, the hello element's Length, NXActionCTNAT's rounding,
      NXActionResubmit.TableID …):
        lenIdem      Len(); Len()                       second call: same size, nothing changes any more
        marIdem      MarshalBinary(); MarshalBinary()   second call: same bytes, nothing changes any more
        lenAfterMar  Len() after MarshalBinary()        the size Len() gave before
        marAfterLen  MarshalBinary() after Len()        the bytes (and the value) MarshalBinary() alone gives
      Every pure kind is repeatable (`Pure2.repeatable`).  Together with C06/C06b (`SizeOK`): the size reported after
      encoding is the length of the bytes produced (`len_after_marshal_eq_length`).
  All statements hold for EVERY value of the kind — no well-formedness hypothesis; containers are proved from their
  children's repeatability.  No kind was found for which repeatability fails in the model.
-/
import OFV.Model.All
import OFV.Lemmas.Size
import OFV.Lemmas.SizeTac
import OFV.Lemmas.SizeNoErr
import OFV.Lemmas.SizeList
import OFV.Lemmas.SizeIdem
import OFV.Lemmas.SizeInstr
import OFV.Lemmas.SizeMsg
import OFV.Lemmas.SizeRepeat
import OFV.Props.C06
import OFV.Props.C06b
namespace OFV.Props.C13
open OFV OFV.Go OFV.Model InstrAux

/-! ### rounding -/

/-- rounding up to a multiple of 8 twice is rounding once — for EVERY uint16 n.  There is no overflow condition: when
    `n + 7` wraps (n > 65528) the first rounding already gives 0, and 0 rounds to 0. -/
theorem round8_idempotent (n : UInt16) : round8 (round8 n) = round8 n := round8_idem n

/-- what `round8` does: a multiple of 8; the least one ≥ n when n ≤ 65528, and 0 (NOT ≥ n) above -/
theorem round8_spec (n : UInt16) :
    (round8 n).toNat % 8 = 0 ∧ (n.toNat ≤ 65528 → n.toNat ≤ (round8 n).toNat ∧ (round8 n).toNat < n.toNat + 8) ∧
    (65528 < n.toNat → round8 n = 0) :=
  ⟨round8_aligned n, round8_ge n, round8_wrap n⟩

/-! ### general facts -/

/-- a pure kind is repeatable -/
theorem pure_repeatable {lenM marshalM v} (h : Pure2 lenM marshalM v) : Repeatable lenM marshalM v := h.repeatable

/-- repeatability + C06: after encoding, the value reports exactly the number of bytes that were produced, and a
    second encoding produces those same bytes -/
theorem len_after_marshal_eq_length {lenM marshalM v} (hr : Repeatable lenM marshalM v) (hs : SizeOK lenM marshalM v)
    (l : UInt16) (v1 : V) (bs : Bytes) (v2 : V) (h1 : lenM v = .ok (l, v1)) (h2 : marshalM v = .ok (bs, v2)) :
    lenM v2 = .ok (l, v2) ∧ l.toNat = bs.length ∧ marshalM v2 = .ok (bs, v2) :=
  ⟨hr.lenAfterMar l v1 bs v2 h1 h2, (hs l v1 bs v2 h1 h2).symm, hr.marIdem bs v2 h2⟩

/-! ### (a) kinds that store nothing: header, match payloads, MatchField, Match -/

/-- the OpenFlow header -/
theorem header_pure (v : V) : Pure2 Header.lenM Header.marshalM v :=
  ⟨fun _ _ h => (same_ok _ _ _ _ h).2, Header.marshalM_pure v⟩

/-- all 30 match payload kinds -/
theorem payload_pure (v : V) : Pure2 MatchPayload.lenM MatchPayload.marshalM v :=
  ⟨MatchPayload.lenM_pure v, MatchPayload.marshalM_pure v⟩

/-- MatchField, whatever value / mask it holds -/
theorem matchField_pure (v : V) : Pure2 MatchField.lenM MatchField.marshalM v :=
  ⟨MatchField.lenM_pure v, MatchField.marshalM_pure v⟩

/-- Match, whatever fields it holds -/
theorem match_pure (v : V) : Pure2 Match.lenM Match.marshalM v :=
  ⟨Match.lenM_pure v, Match.marshalM_pure v⟩

/-! ### (a) actions that store nothing -/

/-- ActionHeader: neither Len() nor MarshalBinary() modifies the value -/
theorem actionHeader_pure (v : V) : Pure2 ActionHeader.lenM ActionHeader.marshalM v := ⟨ActionHeader.lenM_pure v, ActionHeader.marshalM_pure v⟩
/-- ActionOutput: neither Len() nor MarshalBinary() modifies the value -/
theorem actionOutput_pure (v : V) : Pure2 ActionOutput.lenM ActionOutput.marshalM v := ⟨ActionOutput.lenM_pure v, ActionOutput.marshalM_pure v⟩
/-- ActionSetqueue: neither Len() nor MarshalBinary() modifies the value -/
theorem actionSetqueue_pure (v : V) : Pure2 ActionSetqueue.lenM ActionSetqueue.marshalM v := ⟨ActionSetqueue.lenM_pure v, ActionSetqueue.marshalM_pure v⟩
/-- ActionGroup: neither Len() nor MarshalBinary() modifies the value -/
theorem actionGroup_pure (v : V) : Pure2 ActionGroup.lenM ActionGroup.marshalM v := ⟨ActionGroup.lenM_pure v, ActionGroup.marshalM_pure v⟩
/-- ActionMplsTtl: neither Len() nor MarshalBinary() modifies the value -/
theorem actionMplsTtl_pure (v : V) : Pure2 ActionMplsTtl.lenM ActionMplsTtl.marshalM v := ⟨ActionMplsTtl.lenM_pure v, ActionMplsTtl.marshalM_pure v⟩
/-- ActionNwTtl: neither Len() nor MarshalBinary() modifies the value -/
theorem actionNwTtl_pure (v : V) : Pure2 ActionNwTtl.lenM ActionNwTtl.marshalM v := ⟨ActionNwTtl.lenM_pure v, ActionNwTtl.marshalM_pure v⟩
/-- ActionDecNwTtl: neither Len() nor MarshalBinary() modifies the value -/
theorem actionDecNwTtl_pure (v : V) : Pure2 ActionDecNwTtl.lenM ActionDecNwTtl.marshalM v := ⟨ActionDecNwTtl.lenM_pure v, ActionDecNwTtl.marshalM_pure v⟩
/-- ActionPush: neither Len() nor MarshalBinary() modifies the value -/
theorem actionPush_pure (v : V) : Pure2 ActionPush.lenM ActionPush.marshalM v := ⟨ActionPush.lenM_pure v, ActionPush.marshalM_pure v⟩
/-- ActionPopVlan: neither Len() nor MarshalBinary() modifies the value -/
theorem actionPopVlan_pure (v : V) : Pure2 ActionPopVlan.lenM ActionPopVlan.marshalM v := ⟨ActionPopVlan.lenM_pure v, ActionPopVlan.marshalM_pure v⟩
/-- ActionPopMpls: neither Len() nor MarshalBinary() modifies the value -/
theorem actionPopMpls_pure (v : V) : Pure2 ActionPopMpls.lenM ActionPopMpls.marshalM v := ⟨ActionPopMpls.lenM_pure v, ActionPopMpls.marshalM_pure v⟩
/-- ActionSetField (whatever field it holds): neither Len() nor MarshalBinary() modifies the value -/
theorem actionSetField_pure (v : V) : Pure2 ActionSetField.lenM ActionSetField.marshalM v := ⟨ActionSetField.lenM_pure v, ActionSetField.marshalM_pure v⟩
/-- NXActionHeader: neither Len() nor MarshalBinary() modifies the value -/
theorem nxHeader_pure (v : V) : Pure2 NXActionHeader.lenM NXActionHeader.marshalM v := ⟨NXActionHeader.lenM_pure v, NXActionHeader.marshalM_pure v⟩
/-- NXActionConjunction: neither Len() nor MarshalBinary() modifies the value -/
theorem nxConjunction_pure (v : V) : Pure2 NXActionConjunction.lenM NXActionConjunction.marshalM v := ⟨NXActionConjunction.lenM_pure v, NXActionConjunction.marshalM_pure v⟩
/-- NXActionRegLoad: neither Len() nor MarshalBinary() modifies the value -/
theorem nxRegLoad_pure (v : V) : Pure2 NXActionRegLoad.lenM NXActionRegLoad.marshalM v := ⟨NXActionRegLoad.lenM_pure v, NXActionRegLoad.marshalM_pure v⟩
/-- NXActionRegMove: neither Len() nor MarshalBinary() modifies the value -/
theorem nxRegMove_pure (v : V) : Pure2 NXActionRegMove.lenM NXActionRegMove.marshalM v := ⟨NXActionRegMove.lenM_pure v, NXActionRegMove.marshalM_pure v⟩
/-- NXActionResubmitTable: neither Len() nor MarshalBinary() modifies the value -/
theorem nxResubmitTable_pure (v : V) : Pure2 NXActionResubmitTable.lenM NXActionResubmitTable.marshalM v := ⟨NXActionResubmitTable.lenM_pure v, NXActionResubmitTable.marshalM_pure v⟩
/-- NXActionOutputReg: neither Len() nor MarshalBinary() modifies the value -/
theorem nxOutputReg_pure (v : V) : Pure2 NXActionOutputReg.lenM NXActionOutputReg.marshalM v := ⟨NXActionOutputReg.lenM_pure v, NXActionOutputReg.marshalM_pure v⟩
/-- NXActionCTClear: neither Len() nor MarshalBinary() modifies the value -/
theorem nxCTClear_pure (v : V) : Pure2 NXActionCTClear.lenM NXActionCTClear.marshalM v := ⟨NXActionCTClear.lenM_pure v, NXActionCTClear.marshalM_pure v⟩
/-- NXActionDecTTL: neither Len() nor MarshalBinary() modifies the value -/
theorem nxDecTTL_pure (v : V) : Pure2 NXActionDecTTL.lenM NXActionDecTTL.marshalM v := ⟨NXActionDecTTL.lenM_pure v, NXActionDecTTL.marshalM_pure v⟩
/-- NXActionDecTTLCntIDs: neither Len() nor MarshalBinary() modifies the value -/
theorem nxDecTTLCntIDs_pure (v : V) : Pure2 NXActionDecTTLCntIDs.lenM NXActionDecTTLCntIDs.marshalM v := ⟨NXActionDecTTLCntIDs.lenM_pure v, NXActionDecTTLCntIDs.marshalM_pure v⟩
/-- NXLearnSpecHeader: neither Len() nor MarshalBinary() modifies the value -/
theorem nxLearnSpecHeader_pure (v : V) : Pure2 NXLearnSpecHeader.lenM NXLearnSpecHeader.marshalM v := ⟨NXLearnSpecHeader.lenM_pure v, NXLearnSpecHeader.marshalM_pure v⟩
/-- NXLearnSpecField: neither Len() nor MarshalBinary() modifies the value -/
theorem nxLearnSpecField_pure (v : V) : Pure2 NXLearnSpecField.lenM NXLearnSpecField.marshalM v := ⟨NXLearnSpecField.lenM_pure v, NXLearnSpecField.marshalM_pure v⟩
/-- NXLearnSpec: neither Len() nor MarshalBinary() modifies the value -/
theorem nxLearnSpec_pure (v : V) : Pure2 NXLearnSpec.lenM NXLearnSpec.marshalM v := ⟨NXLearnSpec.lenM_pure v, NXLearnSpec.marshalM_pure v⟩

/-! ### (b) actions that store something -/

/-- NXActionResubmit: MarshalBinary() stores `TableID = OFPTT_ALL` in the RECEIVER (not in the buffer), so it is not
    pure — but it is repeatable: the table id is never encoded, and storing it twice changes nothing -/
theorem nxResubmit_repeatable (v : V) : Repeatable NXActionResubmit.lenM NXActionResubmit.marshalM v := by
  have hlp := NXActionResubmit.lenM_pure v
  refine ⟨hlp.idem, ?_, ?_, ?_⟩
  · intro bs v2 h2
    unfold NXActionResubmit.marshalM at h2
    split at h2
    · obtain ⟨l, hl, h3⟩ := bind_ok_inv _ _ _ h2
      obtain ⟨hb, hhb, h4⟩ := bind_ok_inv _ _ _ h3
      obtain ⟨b, hf, h5⟩ := bind_ok_inv _ _ _ h4
      cases h5
      simp only [NXActionResubmit.marshalM, hl, hhb, hf, Res.bind_ok]
    · exact absurd h2 (by simp)
  · intro l v1 bs v2 h1 h2
    unfold NXActionResubmit.marshalM at h2
    split at h2
    · obtain ⟨l', hl, h3⟩ := bind_ok_inv _ _ _ h2
      obtain ⟨hb, hhb, h4⟩ := bind_ok_inv _ _ _ h3
      obtain ⟨b, hf, h5⟩ := bind_ok_inv _ _ _ h4
      cases h5
      simp only [NXActionResubmit.lenM] at h1 ⊢
      obtain ⟨l'', hl2, h1'⟩ := bind_ok_inv _ _ _ h1
      obtain ⟨rfl, _⟩ := same_ok _ _ _ _ h1'
      simp only [hl2, Res.bind_ok, same]
    · exact absurd h2 (by simp)
  · intro l v1 bs v2 h1 h2
    have := hlp l v1 h1
    subst this
    exact h2

/-- …and a witness that it is NOT pure: a hand-built NXActionResubmit whose TableID is 0 comes back with TableID = 255 -/
theorem nxResubmit_not_pure : ∃ v bs v2, NXActionResubmit.marshalM v = .ok (bs, v2) ∧ v2 ≠ v :=
  ⟨.obj "NXActionResubmit" [NXActionHeader.newL Gen.openflow13.NXAST_RESUBMIT 16, .num 1, .num 0, .bytes (zeros 3)], _, _, rfl, by
    intro h
    simp only [V.obj.injEq, List.cons.injEq, V.num.injEq, true_and, and_true] at h
    revert h; decide⟩

/-- NXActionController: MarshalBinary() stores Length = 16 in the header -/
theorem nxController_repeatable (v : V) : Repeatable NXActionController.lenM NXActionController.marshalM v := by
  have hlp := NXActionController.lenM_pure v
  refine ⟨hlp.idem, ?_, ?_, ?_⟩
  · intro bs v2 h2
    unfold NXActionController.marshalM at h2
    split at h2
    · obtain ⟨h', hs, h3⟩ := bind_ok_inv _ _ _ h2
      obtain ⟨hb, hhb, h4⟩ := bind_ok_inv _ _ _ h3
      obtain ⟨b, hf, h5⟩ := bind_ok_inv _ _ _ h4
      cases h5
      simp only [NXActionController.marshalM, NXActionHeader.setLength_idem _ _ _ hs, hhb, hf, Res.bind_ok]
    · exact absurd h2 (by simp)
  · intro l v1 bs v2 h1 h2
    obtain ⟨rfl, _⟩ := same_ok _ _ _ _ h1
    rfl
  · intro l v1 bs v2 h1 h2
    have := hlp l v1 h1
    subst this
    exact h2

/-- NXActionNote: MarshalBinary() stores Length = Len() in the header -/
theorem nxNote_repeatable (v : V) : Repeatable NXActionNote.lenM NXActionNote.marshalM v := by
  have hlp := NXActionNote.lenM_pure v
  refine ⟨hlp.idem, ?_, ?_, ?_⟩
  · intro bs v2 h2
    unfold NXActionNote.marshalM at h2
    split at h2
    · obtain ⟨h', hs, h3⟩ := bind_ok_inv _ _ _ h2
      obtain ⟨hb, hhb, h4⟩ := bind_ok_inv _ _ _ h3
      obtain ⟨b, hf, h5⟩ := bind_ok_inv _ _ _ h4
      cases h5
      simp only [NXActionNote.marshalM, NXActionHeader.setLength_idem _ _ _ hs, hhb, hf, Res.bind_ok]
    · exact absurd h2 (by simp)
  · intro l v1 bs v2 h1 h2
    unfold NXActionNote.marshalM at h2
    split at h2
    · obtain ⟨h', hs, h3⟩ := bind_ok_inv _ _ _ h2
      obtain ⟨hb, hhb, h4⟩ := bind_ok_inv _ _ _ h3
      obtain ⟨b, hf, h5⟩ := bind_ok_inv _ _ _ h4
      cases h5
      simp only [NXActionNote.lenM] at h1 ⊢
      obtain ⟨rfl, _⟩ := same_ok _ _ _ _ h1
      rfl
    · exact absurd h2 (by simp)
  · intro l v1 bs v2 h1 h2
    have := hlp l v1 h1
    subst this
    exact h2

/-- NXActionRegLoad2: MarshalBinary() stores Length = Len() in the header -/
theorem nxRegLoad2_repeatable (v : V) : Repeatable NXActionRegLoad2.lenM NXActionRegLoad2.marshalM v := by
  have hlp := NXActionRegLoad2.lenM_pure v
  -- what one successful MarshalBinary() looks like
  have shape : ∀ bs v2, NXActionRegLoad2.marshalM v = .ok (bs, v2) →
      ∃ h f pad l h' hb fb, v = .obj "NXActionRegLoad2" [h, f, pad] ∧ NXActionRegLoad2.lenM v = .ok (l, v) ∧
        NXActionHeader.setLength l h = .ok h' ∧ NXActionHeader.bytes h' = .ok hb ∧ MatchField.marshalM f = .ok (fb, f) ∧
        fill l.toNat [pCopy hb, pCopy fb] = .ok bs ∧ v2 = .obj "NXActionRegLoad2" [h', f, pad] := by
    intro bs v2 h2
    unfold NXActionRegLoad2.marshalM at h2
    obtain ⟨⟨l0, va⟩, hl0, h3⟩ := bind_ok_inv _ _ _ h2
    have ea := hlp _ _ hl0
    subst ea
    obtain ⟨⟨l1, vb⟩, hl1, h4⟩ := bind_ok_inv _ _ _ h3
    have eb := hlp _ _ hl1
    subst eb
    rw [hl0] at hl1
    cases hl1
    simp only at h4
    split at h4
    · rename_i h f pad
      obtain ⟨h', hs, h5⟩ := bind_ok_inv _ _ _ h4
      obtain ⟨hb, hhb, h6⟩ := bind_ok_inv _ _ _ h5
      obtain ⟨⟨fb, f'⟩, hf, h7⟩ := bind_ok_inv _ _ _ h6
      obtain ⟨b, hfill, h8⟩ := bind_ok_inv _ _ _ h7
      have ef := MatchField.marshalM_pure _ _ _ hf
      subst ef
      cases h8
      exact ⟨h, _, pad, l0, h', hb, fb, rfl, hl0, hs, hhb, hf, hfill, rfl⟩
    · exact absurd h4 (by simp)
  -- Len() only looks at the field
  have lenOf : ∀ h h' f pad l, NXActionRegLoad2.lenM (.obj "NXActionRegLoad2" [h, f, pad]) = .ok (l, .obj "NXActionRegLoad2" [h, f, pad]) →
      NXActionRegLoad2.lenM (.obj "NXActionRegLoad2" [h', f, pad]) = .ok (l, .obj "NXActionRegLoad2" [h', f, pad]) := by
    intro h h' f pad l hl
    simp only [NXActionRegLoad2.lenM] at hl ⊢
    split at hl
    · exact absurd hl (by simp)
    · rename_i hnn
      obtain ⟨⟨fl, f'⟩, hfl, hl'⟩ := bind_ok_inv _ _ _ hl
      have ef := MatchField.lenM_pure _ _ _ hfl
      subst ef
      simp only [Res.ok.injEq, Prod.mk.injEq] at hl'
      simp only [hfl, Res.bind_ok, hl'.1]
  refine ⟨hlp.idem, ?_, ?_, ?_⟩
  · intro bs v2 h2
    obtain ⟨h, f, pad, l, h', hb, fb, rfl, hl, hs, hhb, hf, hfill, rfl⟩ := shape bs v2 h2
    have hl' := lenOf h h' f pad l hl
    simp only [NXActionRegLoad2.marshalM, hl', Res.bind_ok, NXActionHeader.setLength_idem _ _ _ hs, hhb, hf, hfill]
  · intro l v1 bs v2 h1 h2
    obtain ⟨h, f, pad, l', h', hb, fb, rfl, hl, hs, hhb, hf, hfill, rfl⟩ := shape bs v2 h2
    rw [hl] at h1
    cases h1
    exact lenOf h h' f pad _ hl
  · intro l v1 bs v2 h1 h2
    have := hlp l v1 h1
    subst this
    exact h2

/-- NXActionLearn: MarshalBinary() stores Length = Len() in the header (the specs are untouched) -/
theorem nxLearn_repeatable (v : V) : Repeatable NXActionLearn.lenM NXActionLearn.marshalM v := by
  have hlp := NXActionLearn.lenM_pure v
  refine ⟨hlp.idem, ?_, ?_, ?_⟩
  · intro bs v2 h2
    unfold NXActionLearn.marshalM at h2
    obtain ⟨l, hl, h3⟩ := bind_ok_inv _ _ _ h2
    split at h3
    · rename_i h idle hard prio cookie fl tid pad fi fh specs pad2
      obtain ⟨h', hs, h4⟩ := bind_ok_inv _ _ _ h3
      obtain ⟨hb, hhb, h5⟩ := bind_ok_inv _ _ _ h4
      obtain ⟨⟨sbs, sp'⟩, hsp, h6⟩ := bind_ok_inv _ _ _ h5
      obtain ⟨b, hf, h7⟩ := bind_ok_inv _ _ _ h6
      cases h7
      have hl' : NXActionLearn.len (.obj "NXActionLearn" [h', .num idle, .num hard, .num prio, .num cookie, .num fl,
          .num tid, pad, .num fi, .num fh, .list specs, pad2]) = .ok l := by
        simpa only [NXActionLearn.len] using hl
      simp only [NXActionLearn.marshalM, hl', Res.bind_ok, NXActionHeader.setLength_idem _ _ _ hs, hhb, hsp, hf]
    · exact absurd h3 (by simp)
  · intro l v1 bs v2 h1 h2
    unfold NXActionLearn.marshalM at h2
    obtain ⟨l', hl, h3⟩ := bind_ok_inv _ _ _ h2
    split at h3
    · rename_i h idle hard prio cookie fl tid pad fi fh specs pad2
      obtain ⟨h', hs, h4⟩ := bind_ok_inv _ _ _ h3
      obtain ⟨hb, hhb, h5⟩ := bind_ok_inv _ _ _ h4
      obtain ⟨⟨sbs, sp'⟩, hsp, h6⟩ := bind_ok_inv _ _ _ h5
      obtain ⟨b, hf, h7⟩ := bind_ok_inv _ _ _ h6
      cases h7
      unfold NXActionLearn.lenM at h1 ⊢
      obtain ⟨l2, hl2, h1'⟩ := bind_ok_inv _ _ _ h1
      obtain ⟨rfl, _⟩ := same_ok _ _ _ _ h1'
      have hl' : NXActionLearn.len (.obj "NXActionLearn" [h', .num idle, .num hard, .num prio, .num cookie, .num fl,
          .num tid, pad, .num fi, .num fh, .list specs, pad2]) = .ok l := by
        simpa only [NXActionLearn.len] using hl2
      simp only [hl', Res.bind_ok, same]
    · exact absurd h3 (by simp)
  · intro l v1 bs v2 h1 h2
    have := hlp l v1 h1
    subst this
    exact h2

/-- NXActionCTNAT: Len() rounds the STORED length up to 8 and stores it back; MarshalBinary() calls Len() first.
    Neither is pure, both are repeatable, in any order (`round8_idem`) — for every stored length, also one that wraps. -/
theorem nxCTNAT_repeatable (v : V) : Repeatable NXActionCTNAT.lenM NXActionCTNAT.marshalM v := by
  have hidem := NXActionCTNAT.lenM_idem
  -- MarshalBinary() leaves exactly what its leading Len() left
  have shape : ∀ w bs v2, NXActionCTNAT.marshalM w = .ok (bs, v2) → ∃ l, NXActionCTNAT.lenM w = .ok (l, v2) := by
    intro w bs v2 h2
    unfold NXActionCTNAT.marshalM at h2
    obtain ⟨⟨l, v'⟩, hl, h3⟩ := bind_ok_inv _ _ _ h2
    simp only at h3
    split at h3
    · obtain ⟨hb, _, h4⟩ := bind_ok_inv _ _ _ h3
      obtain ⟨pp, _, h5⟩ := bind_ok_inv _ _ _ h4
      obtain ⟨b, _, h6⟩ := bind_ok_inv _ _ _ h5
      cases h6
      exact ⟨l, hl⟩
    · exact absurd h3 (by simp)
  -- and only depends on it
  have after : ∀ w l w1, NXActionCTNAT.lenM w = .ok (l, w1) → NXActionCTNAT.marshalM w1 = NXActionCTNAT.marshalM w := by
    intro w l w1 hl
    have hl1 := hidem w l w1 hl
    unfold NXActionCTNAT.marshalM
    rw [hl, hl1]
  refine ⟨hidem v, ?_, ?_, ?_⟩
  · intro bs v2 h2
    obtain ⟨l, hl⟩ := shape v bs v2 h2
    rw [after v l v2 hl]; exact h2
  · intro l v1 bs v2 h1 h2
    obtain ⟨l', hl⟩ := shape v bs v2 h2
    rw [h1] at hl
    cases hl
    exact hidem v l v1 h1
  · intro l v1 bs v2 h1 h2
    rw [after v l v1 h1]; exact h2



/-- NXActionConnTrack, for ANY repeatable Len() / encoder pair of the nested actions:
    Len() recomputes the size from the nested actions and stores it in the header; MarshalBinary() calls Len() and
    threads what the nested encoders store.  Repeatable in any order. -/
theorem nxConnTrack_repeatable (subLen : V → R (UInt16 × V)) (sub : V → R (Bytes × V))
    (hsub : ∀ a, Repeatable subLen sub a) (v : V) :
    Repeatable (NXActionConnTrack.lenWith subLen) (NXActionConnTrack.marshalWith subLen sub) v := by
  have hidem := NXActionConnTrack.lenWith_idem subLen (fun a => (hsub a).lenIdem)
  -- MarshalBinary() on a value Len() has already run over
  have cont : ∀ w l, NXActionConnTrack.lenWith subLen w = .ok (l, w) →
      NXActionConnTrack.marshalWith subLen sub w =
        (match w with
          | .obj "NXActionConnTrack" [h, .num fl, .num zs, .num zo, .num rt, .bytes pad, .num alg, .list acts] => do
            let hb ← NXActionHeader.bytes h
            let buf ← fill l.toNat [pCopy hb, pU16 fl, pU32 zs, pU16 zo, pU8 rt, pCopyAdv pad 3, pU16 alg]
            let (buf', acts') ← NXActionConnTrack.marshalActs sub acts buf 24
            .ok (buf', .obj "NXActionConnTrack" [h, .num fl, .num zs, .num zo, .num rt, .bytes pad, .num alg, .list acts'])
          | _ => .panic) := by
    intro w l hw
    unfold NXActionConnTrack.marshalWith
    rw [hw]
    rfl
  -- Len() only looks at the header and the nested actions' sizes
  have lenOf : ∀ h a b c d e f acts ls acts1 l, mapM2 subLen acts = .ok (ls, acts1) →
      l = n16 Gen.openflow13.NxActionHeaderLength + 14 + sum16 ls →
      ∀ h', NXActionHeader.setLength l h = .ok h' →
      NXActionConnTrack.lenWith subLen (.obj "NXActionConnTrack" [h, a, b, c, d, e, f, .list acts]) =
        .ok (l, .obj "NXActionConnTrack" [h', a, b, c, d, e, f, .list acts1]) := by
    intro h a b c d e f acts ls acts1 l hm hl h' hs
    subst hl
    simp only [NXActionConnTrack.lenWith, NXActionHeader.lenM, same, Res.bind_ok, hm, hs]
  -- one successful MarshalBinary()
  have shape : ∀ w bs v2, NXActionConnTrack.marshalWith subLen sub w = .ok (bs, v2) →
      ∃ l w1 h fl zs zo rt pad alg acts1 hb buf bss acts2,
        NXActionConnTrack.lenWith subLen w = .ok (l, w1) ∧
        w1 = .obj "NXActionConnTrack" [h, .num fl, .num zs, .num zo, .num rt, .bytes pad, .num alg, .list acts1] ∧
        NXActionHeader.bytes h = .ok hb ∧
        fill l.toNat [pCopy hb, pU16 fl, pU32 zs, pU16 zo, pU8 rt, pCopyAdv pad 3, pU16 alg] = .ok buf ∧
        mapM2 sub acts1 = .ok (bss, acts2) ∧ writeAll buf 24 bss = .ok bs ∧
        v2 = .obj "NXActionConnTrack" [h, .num fl, .num zs, .num zo, .num rt, .bytes pad, .num alg, .list acts2] := by
    intro w bs v2 h2
    unfold NXActionConnTrack.marshalWith at h2
    obtain ⟨⟨l, w1⟩, hl, h3⟩ := bind_ok_inv _ _ _ h2
    simp only at h3
    split at h3
    · rename_i h fl zs zo rt pad alg acts1
      obtain ⟨hb, hhb, h4⟩ := bind_ok_inv _ _ _ h3
      obtain ⟨buf, hbuf, h5⟩ := bind_ok_inv _ _ _ h4
      obtain ⟨⟨buf', acts2⟩, hacts, h6⟩ := bind_ok_inv _ _ _ h5
      cases h6
      obtain ⟨bss, hm, hw⟩ := NXActionConnTrack.marshalActs_split _ _ _ _ _ _ hacts
      exact ⟨l, _, h, fl, zs, zo, rt, pad, alg, acts1, hb, buf, bss, acts2, hl, rfl, hhb, hbuf, hm, hw, rfl⟩
    · exact absurd h3 (by simp)
  -- the pieces of a successful Len()
  have lenShape : ∀ w l w1, NXActionConnTrack.lenWith subLen w = .ok (l, w1) →
      ∃ h a b c d e f acts ls acts1 h', w = .obj "NXActionConnTrack" [h, a, b, c, d, e, f, .list acts] ∧
        mapM2 subLen acts = .ok (ls, acts1) ∧ l = n16 Gen.openflow13.NxActionHeaderLength + 14 + sum16 ls ∧
        NXActionHeader.setLength l h = .ok h' ∧ w1 = .obj "NXActionConnTrack" [h', a, b, c, d, e, f, .list acts1] := by
    intro w l w1 hw
    unfold NXActionConnTrack.lenWith at hw
    split at hw
    · rename_i h a b c d e f acts
      obtain ⟨⟨hl, h0⟩, hh, hw2⟩ := bind_ok_inv _ _ _ hw
      obtain ⟨e1, e2⟩ := same_ok _ _ _ _ hh
      subst e1; subst e2
      obtain ⟨⟨ls, acts1⟩, hm, hw3⟩ := bind_ok_inv _ _ _ hw2
      obtain ⟨h', hs, hw4⟩ := bind_ok_inv _ _ _ hw3
      cases hw4
      exact ⟨_, a, b, c, d, e, f, acts, ls, acts1, h', rfl, hm, rfl, hs, rfl⟩
    · exact absurd hw (by simp)
  -- Len() after the encoder loop ran over the nested actions
  have lenAfter : ∀ l w1 h fl zs zo rt pad alg acts1 bss acts2,
      NXActionConnTrack.lenWith subLen w1 = .ok (l, w1) →
      w1 = .obj "NXActionConnTrack" [h, .num fl, .num zs, .num zo, .num rt, .bytes pad, .num alg, .list acts1] →
      mapM2 sub acts1 = .ok (bss, acts2) →
      NXActionConnTrack.lenWith subLen (.obj "NXActionConnTrack" [h, .num fl, .num zs, .num zo, .num rt, .bytes pad, .num alg, .list acts2]) =
        .ok (l, .obj "NXActionConnTrack" [h, .num fl, .num zs, .num zo, .num rt, .bytes pad, .num alg, .list acts2]) := by
    intro l w1 h fl zs zo rt pad alg acts1 bss acts2 hl hw1 hm
    subst hw1
    obtain ⟨h0, a, b, c, d, e, f, acts, ls, acts1', h', heq, hml, hleq, hs, heq2⟩ := lenShape _ _ _ hl
    cases heq
    cases heq2
    have hml2 := mapM2_len_after_mar subLen sub _ _ _ _ _ hml hm
      (fun x _ l y b z hx hy => (hsub x).lenAfterMar l y b z hx hy)
    exact lenOf _ _ _ _ _ _ _ _ _ _ _ hml2 hleq _ hs
  refine ⟨hidem v, ?_, ?_, ?_⟩
  · intro bs v2 h2
    obtain ⟨l, w1, h, fl, zs, zo, rt, pad, alg, acts1, hb, buf, bss, acts2, hl, hw1, hhb, hbuf, hm, hw, rfl⟩ := shape v bs v2 h2
    have hl1 := hidem v l w1 hl
    have hl2 := lenAfter l w1 h fl zs zo rt pad alg acts1 bss acts2 hl1 hw1 hm
    have hm2 := mapM2_idem sub _ _ _ (fun x _ b z hx => (hsub x).marIdem b z hx) hm
    rw [cont _ _ hl2]
    simp only [hhb, hbuf, Res.bind_ok, NXActionConnTrack.marshalActs_join _ _ _ _ _ _ _ hm2 hw]
  · intro l v1 bs v2 h1 h2
    obtain ⟨l', w1, h, fl, zs, zo, rt, pad, alg, acts1, hb, buf, bss, acts2, hl, hw1, hhb, hbuf, hm, hw, rfl⟩ := shape v bs v2 h2
    rw [h1] at hl
    cases hl
    have hl1 := hidem v l v1 h1
    exact lenAfter l v1 h fl zs zo rt pad alg acts1 bss acts2 hl1 hw1 hm
  · intro l v1 bs v2 h1 h2
    obtain ⟨l', w1, h, fl, zs, zo, rt, pad, alg, acts1, hb, buf, bss, acts2, hl, hw1, hhb, hbuf, hm, hw, rfl⟩ := shape v bs v2 h2
    rw [h1] at hl
    cases hl
    have hl1 := hidem v l v1 h1
    rw [cont _ _ hl1]
    subst hw1
    simp only [hhb, hbuf, Res.bind_ok, NXActionConnTrack.marshalActs_join _ _ _ _ _ _ _ hm hw]

/-! ### the Action interface -/

/-- MarshalBinary() of a non-conntrack action never changes its dynamic type -/
theorem marshalLeaf_kind (v : V) (bs : Bytes) (v2 : V) (h : Action.marshalLeaf v = .ok (bs, v2)) : v2.kind = v.kind := by
  unfold Action.marshalLeaf at h
  split at h <;> rename_i hk
  all_goals first
    | (rw [hk]; exact NXActionCTNAT.marshalM_kind v bs v2 h)
    | exact NXActionResubmit.marshalM_kind v bs v2 h
    | exact NXActionController.marshalM_kind v bs v2 h
    | exact NXActionNote.marshalM_kind v bs v2 h
    | exact NXActionLearn.marshalM_kind v bs v2 h
    | exact NXActionRegLoad2.marshalM_kind v bs v2 h
    | (have e := ActionHeader.marshalM_pure v bs v2 h; rw [e])
    | (have e := ActionOutput.marshalM_pure v bs v2 h; rw [e])
    | (have e := ActionSetqueue.marshalM_pure v bs v2 h; rw [e])
    | (have e := ActionGroup.marshalM_pure v bs v2 h; rw [e])
    | (have e := ActionMplsTtl.marshalM_pure v bs v2 h; rw [e])
    | (have e := ActionNwTtl.marshalM_pure v bs v2 h; rw [e])
    | (have e := ActionDecNwTtl.marshalM_pure v bs v2 h; rw [e])
    | (have e := ActionPush.marshalM_pure v bs v2 h; rw [e])
    | (have e := ActionPopVlan.marshalM_pure v bs v2 h; rw [e])
    | (have e := ActionPopMpls.marshalM_pure v bs v2 h; rw [e])
    | (have e := ActionSetField.marshalM_pure v bs v2 h; rw [e])
    | (have e := NXActionHeader.marshalM_pure v bs v2 h; rw [e])
    | (have e := NXActionConjunction.marshalM_pure v bs v2 h; rw [e])
    | (have e := NXActionRegLoad.marshalM_pure v bs v2 h; rw [e])
    | (have e := NXActionRegMove.marshalM_pure v bs v2 h; rw [e])
    | (have e := NXActionResubmitTable.marshalM_pure v bs v2 h; rw [e])
    | (have e := NXActionOutputReg.marshalM_pure v bs v2 h; rw [e])
    | (have e := NXActionCTClear.marshalM_pure v bs v2 h; rw [e])
    | (have e := NXActionDecTTL.marshalM_pure v bs v2 h; rw [e])
    | (have e := NXActionDecTTLCntIDs.marshalM_pure v bs v2 h; rw [e])
    | exact absurd h (by simp)

/-- MarshalBinary() never changes the dynamic type of an action -/
theorem marshalD_kind (d : Nat) (v : V) (bs : Bytes) (v2 : V) (h : Action.marshalD d v = .ok (bs, v2)) : v2.kind = v.kind := by
  cases d with
  | zero => exact absurd h (by simp [Action.marshalD])
  | succ d =>
    unfold Action.marshalD at h
    split at h
    · exact NXActionConnTrack.marshalWith_kind _ _ v bs v2 h
    · exact marshalLeaf_kind v bs v2 h

/-- every action kind except conntrack, through the interface dispatch -/
theorem action_repeatable_leaf (v : V) : Repeatable Action.lenLeaf Action.marshalLeaf v := by
  refine ⟨Action.lenLeaf_idem v, ?_, ?_, ?_⟩
  · intro bs v2 h2
    have hkind := marshalLeaf_kind v bs v2 h2
    unfold Action.marshalLeaf at h2 ⊢
    split at h2 <;> rename_i hk
    all_goals first
      | (rw [hk] at hkind; simp only [hkind]
         first
          | exact (actionHeader_pure v).repeatable.marIdem bs v2 h2
          | exact (actionOutput_pure v).repeatable.marIdem bs v2 h2
          | exact (actionSetqueue_pure v).repeatable.marIdem bs v2 h2
          | exact (actionGroup_pure v).repeatable.marIdem bs v2 h2
          | exact (actionMplsTtl_pure v).repeatable.marIdem bs v2 h2
          | exact (actionNwTtl_pure v).repeatable.marIdem bs v2 h2
          | exact (actionDecNwTtl_pure v).repeatable.marIdem bs v2 h2
          | exact (actionPush_pure v).repeatable.marIdem bs v2 h2
          | exact (actionPopVlan_pure v).repeatable.marIdem bs v2 h2
          | exact (actionPopMpls_pure v).repeatable.marIdem bs v2 h2
          | exact (actionSetField_pure v).repeatable.marIdem bs v2 h2
          | exact (nxHeader_pure v).repeatable.marIdem bs v2 h2
          | exact (nxConjunction_pure v).repeatable.marIdem bs v2 h2
          | exact (nxRegLoad_pure v).repeatable.marIdem bs v2 h2
          | exact (nxRegMove_pure v).repeatable.marIdem bs v2 h2
          | exact (nxResubmit_repeatable v).marIdem bs v2 h2
          | exact (nxResubmitTable_pure v).repeatable.marIdem bs v2 h2
          | exact (nxCTNAT_repeatable v).marIdem bs v2 h2
          | exact (nxOutputReg_pure v).repeatable.marIdem bs v2 h2
          | exact (nxCTClear_pure v).repeatable.marIdem bs v2 h2
          | exact (nxDecTTL_pure v).repeatable.marIdem bs v2 h2
          | exact (nxDecTTLCntIDs_pure v).repeatable.marIdem bs v2 h2
          | exact (nxLearn_repeatable v).marIdem bs v2 h2
          | exact (nxNote_repeatable v).marIdem bs v2 h2
          | exact (nxRegLoad2_repeatable v).marIdem bs v2 h2
          | exact (nxController_repeatable v).marIdem bs v2 h2)
      | exact absurd h2 (by simp)
  · intro l v1 bs v2 h1 h2
    have hkind := marshalLeaf_kind v bs v2 h2
    unfold Action.lenLeaf at h1 ⊢
    unfold Action.marshalLeaf at h2
    split at h1 <;> rename_i hk <;> simp only [hk] at h2
    all_goals first
      | (rw [hk] at hkind; simp only [hkind]
         first
          | exact (actionHeader_pure v).repeatable.lenAfterMar l v1 bs v2 h1 h2
          | exact (actionOutput_pure v).repeatable.lenAfterMar l v1 bs v2 h1 h2
          | exact (actionSetqueue_pure v).repeatable.lenAfterMar l v1 bs v2 h1 h2
          | exact (actionGroup_pure v).repeatable.lenAfterMar l v1 bs v2 h1 h2
          | exact (actionMplsTtl_pure v).repeatable.lenAfterMar l v1 bs v2 h1 h2
          | exact (actionNwTtl_pure v).repeatable.lenAfterMar l v1 bs v2 h1 h2
          | exact (actionDecNwTtl_pure v).repeatable.lenAfterMar l v1 bs v2 h1 h2
          | exact (actionPush_pure v).repeatable.lenAfterMar l v1 bs v2 h1 h2
          | exact (actionPopVlan_pure v).repeatable.lenAfterMar l v1 bs v2 h1 h2
          | exact (actionPopMpls_pure v).repeatable.lenAfterMar l v1 bs v2 h1 h2
          | exact (actionSetField_pure v).repeatable.lenAfterMar l v1 bs v2 h1 h2
          | exact (nxHeader_pure v).repeatable.lenAfterMar l v1 bs v2 h1 h2
          | exact (nxConjunction_pure v).repeatable.lenAfterMar l v1 bs v2 h1 h2
          | exact (nxRegLoad_pure v).repeatable.lenAfterMar l v1 bs v2 h1 h2
          | exact (nxRegMove_pure v).repeatable.lenAfterMar l v1 bs v2 h1 h2
          | exact (nxResubmit_repeatable v).lenAfterMar l v1 bs v2 h1 h2
          | exact (nxResubmitTable_pure v).repeatable.lenAfterMar l v1 bs v2 h1 h2
          | exact (nxCTNAT_repeatable v).lenAfterMar l v1 bs v2 h1 h2
          | exact (nxOutputReg_pure v).repeatable.lenAfterMar l v1 bs v2 h1 h2
          | exact (nxCTClear_pure v).repeatable.lenAfterMar l v1 bs v2 h1 h2
          | exact (nxDecTTL_pure v).repeatable.lenAfterMar l v1 bs v2 h1 h2
          | exact (nxDecTTLCntIDs_pure v).repeatable.lenAfterMar l v1 bs v2 h1 h2
          | exact (nxLearn_repeatable v).lenAfterMar l v1 bs v2 h1 h2
          | exact (nxNote_repeatable v).lenAfterMar l v1 bs v2 h1 h2
          | exact (nxRegLoad2_repeatable v).lenAfterMar l v1 bs v2 h1 h2
          | exact (nxController_repeatable v).lenAfterMar l v1 bs v2 h1 h2)
      | exact absurd h2 (by simp)
      | exact absurd h1 (by simp)
  · intro l v1 bs v2 h1 h2
    by_cases hk : v.kind = "NXActionCTNAT"
    · have hkind := Action.lenLeaf_kind v l v1 h1
      rw [hk] at hkind
      unfold Action.lenLeaf at h1
      unfold Action.marshalLeaf at h2 ⊢
      simp only [hk] at h1 h2
      simp only [hkind]
      exact (nxCTNAT_repeatable v).marAfterLen l v1 bs v2 h1 h2
    · have := Action.lenLeaf_pure v hk l v1 h1
      subst this
      exact h2


/-- unfolding the interface dispatch on a conntrack action -/
theorem marshalD_succ_ct (d : Nat) (v : V) (hk : v.kind = "NXActionConnTrack") :
    Action.marshalD (d + 1) v = NXActionConnTrack.marshalWith (Action.lenD d) (Action.marshalD d) v := by
  unfold Action.marshalD; simp only [hk, if_true]
/-- unfolding the interface dispatch on any other action -/
theorem marshalD_succ_leaf (d : Nat) (v : V) (hk : v.kind ≠ "NXActionConnTrack") :
    Action.marshalD (d + 1) v = Action.marshalLeaf v := by
  rw [Action.marshalD]; simp only [hk, if_false]

/-- Action.Len() / Action.MarshalBinary() through the interface are repeatable, in any order, for EVERY action value
    (any kind, any field values, conntrack actions nested to any depth) -/
theorem action_repeatableD : ∀ (d : Nat) (v : V), Repeatable (Action.lenD d) (Action.marshalD d) v := by
  intro d
  induction d with
  | zero =>
    intro v
    refine ⟨Action.lenD_idem 0 v, ?_, ?_, ?_⟩
    · intro bs v2 h2; exact absurd h2 (by simp [Action.marshalD])
    · intro l v1 bs v2 _ h2; exact absurd h2 (by simp [Action.marshalD])
    · intro l v1 bs v2 _ h2; exact absurd h2 (by simp [Action.marshalD])
  | succ d ih =>
    intro v
    by_cases hk : v.kind = "NXActionConnTrack"
    · have R := nxConnTrack_repeatable (Action.lenD d) (Action.marshalD d) ih v
      refine ⟨Action.lenD_idem _ v, ?_, ?_, ?_⟩
      · intro bs v2 h2
        have hk2 := marshalD_kind _ v bs v2 h2
        rw [hk] at hk2
        rw [marshalD_succ_ct d v hk] at h2
        rw [marshalD_succ_ct d v2 hk2]
        exact R.marIdem bs v2 h2
      · intro l v1 bs v2 h1 h2
        have hk2 := marshalD_kind _ v bs v2 h2
        rw [hk] at hk2
        rw [marshalD_succ_ct d v hk] at h2
        rw [Action.lenD_succ_ct d v hk] at h1
        rw [Action.lenD_succ_ct d v2 hk2]
        exact R.lenAfterMar l v1 bs v2 h1 h2
      · intro l v1 bs v2 h1 h2
        have hk1 := Action.lenD_kind _ v l v1 h1
        rw [hk] at hk1
        rw [marshalD_succ_ct d v hk] at h2
        rw [Action.lenD_succ_ct d v hk] at h1
        rw [marshalD_succ_ct d v1 hk1]
        exact R.marAfterLen l v1 bs v2 h1 h2
    · have R := action_repeatable_leaf v
      refine ⟨Action.lenD_idem _ v, ?_, ?_, ?_⟩
      · intro bs v2 h2
        have hk2 := marshalD_kind _ v bs v2 h2
        rw [marshalD_succ_leaf d v hk] at h2
        rw [marshalD_succ_leaf d v2 (by rw [hk2]; exact hk)]
        exact R.marIdem bs v2 h2
      · intro l v1 bs v2 h1 h2
        have hk2 := marshalD_kind _ v bs v2 h2
        rw [marshalD_succ_leaf d v hk] at h2
        rw [Action.lenD_succ_leaf d v hk] at h1
        rw [Action.lenD_succ_leaf d v2 (by rw [hk2]; exact hk)]
        exact R.lenAfterMar l v1 bs v2 h1 h2
      · intro l v1 bs v2 h1 h2
        have hk1 := Action.lenD_kind _ v l v1 h1
        rw [marshalD_succ_leaf d v hk] at h2
        rw [Action.lenD_succ_leaf d v hk] at h1
        rw [marshalD_succ_leaf d v1 (by rw [hk1]; exact hk)]
        exact R.marAfterLen l v1 bs v2 h1 h2

/-- the Action interface: repeatable for every action value -/
theorem action_repeatable (v : V) : Repeatable Action.lenM Action.marshalM v := action_repeatableD _ v

/-- NXActionConnTrack with the knot tied -/
theorem nxConnTrack_repeatable' (v : V) : Repeatable NXActionConnTrack.lenM NXActionConnTrack.marshalM v :=
  nxConnTrack_repeatable _ _ (action_repeatableD _) v


/-- what one successful run of the `append` loop over actions is: `mapM2` + concatenation, error flag false -/
theorem actions_loop (as : List V) (e : Bool) (bs : Bytes) (as2 : List V) (e' : Bool)
    (h : marshalList Action.marshalM as e = .ok (bs, as2, e')) :
    ∃ bss, mapM2 Action.marshalM as = .ok (bss, as2) ∧ bs = bss.flatten ∧ e' = (if as = [] then e else false) := by
  obtain ⟨bss, hm, rfl⟩ := marshalList_eq_mapM2 _ _ _ _ _ _ (fun x _ => Action.marshalM_noErr x) h
  exact ⟨bss, hm, rfl, marshalList_flag _ _ _ _ _ _ (fun x _ => Action.marshalM_noErr x) h⟩

/-! ### lists of actions -/

/-- lists of actions: the three facts containers need -/
theorem actions_len_idem (as : List V) (ls : List UInt16) (as1 : List V) (h : mapM2 Action.lenM as = .ok (ls, as1)) :
    mapM2 Action.lenM as1 = .ok (ls, as1) :=
  mapM2_idem Action.lenM as ls as1 (fun x _ a x' hx => Action.lenM_idem x a x' hx) h
/-- encoding a list of actions a second time gives the same encodings and changes nothing further -/
theorem actions_mar_idem (as : List V) (bss : List Bytes) (as2 : List V) (h : mapM2 Action.marshalM as = .ok (bss, as2)) :
    mapM2 Action.marshalM as2 = .ok (bss, as2) :=
  mapM2_idem Action.marshalM as bss as2 (fun x _ b z hx => (action_repeatable x).marIdem b z hx) h
/-- sizing a list of actions after encoding it gives the sizes it gave before -/
theorem actions_len_after_mar (as : List V) (ls : List UInt16) (as1 : List V) (bss : List Bytes) (as2 : List V)
    (h1 : mapM2 Action.lenM as = .ok (ls, as1)) (h2 : mapM2 Action.marshalM as = .ok (bss, as2)) :
    mapM2 Action.lenM as2 = .ok (ls, as2) :=
  mapM2_len_after_mar Action.lenM Action.marshalM as ls as1 bss as2 h1 h2
    (fun x _ l y b z hx hy => (action_repeatable x).lenAfterMar l y b z hx hy)
/-- encoding a list of actions after sizing it gives what encoding alone gives -/
theorem actions_mar_after_len (as : List V) (ls : List UInt16) (as1 : List V) (bss : List Bytes) (as2 : List V)
    (h1 : mapM2 Action.lenM as = .ok (ls, as1)) (h2 : mapM2 Action.marshalM as = .ok (bss, as2)) :
    mapM2 Action.marshalM as1 = .ok (bss, as2) :=
  mapM2_mar_after_len Action.lenM Action.marshalM as ls as1 bss as2 h1 h2
    (fun x _ l y b z hx hy => (action_repeatable x).marAfterLen l y b z hx hy)

/-! ### instructions -/

/-- InstrHeader: neither Len() nor MarshalBinary() modifies the value -/
theorem instrHeader_pure (v : V) : Pure2 InstrHeader.lenM InstrHeader.marshalM v :=
  ⟨fun _ _ h => (same_ok _ _ _ _ h).2, InstrHeader.marshalM_pure v⟩
/-- InstrGotoTable: neither Len() nor MarshalBinary() modifies the value -/
theorem instrGotoTable_pure (v : V) : Pure2 InstrGotoTable.lenM InstrGotoTable.marshalM v :=
  ⟨fun _ _ h => (same_ok _ _ _ _ h).2, InstrGotoTable.marshalM_pure v⟩
/-- InstrWriteMetadata: neither Len() nor MarshalBinary() modifies the value -/
theorem instrWriteMetadata_pure (v : V) : Pure2 InstrWriteMetadata.lenM InstrWriteMetadata.marshalM v :=
  ⟨fun _ _ h => (same_ok _ _ _ _ h).2, InstrWriteMetadata.marshalM_pure v⟩
/-- InstrMeter: neither Len() nor MarshalBinary() modifies the value -/
theorem instrMeter_pure (v : V) : Pure2 InstrMeter.lenM InstrMeter.marshalM v :=
  ⟨fun _ _ h => (same_ok _ _ _ _ h).2, InstrMeter.marshalM_pure v⟩


/-- InstrActions: Len() threads what the actions store; MarshalBinary() calls Len(), stores `Length = Len()` in the
    instruction header and encodes the actions.  Sizing / encoding the instruction again — in any order — gives the
    same answers and changes nothing further. -/
theorem instrActions_repeatable (v : V) : Repeatable InstrActions.lenM InstrActions.marshalM v := by
  have lenOf : ∀ h p as ls as1, mapM2 Action.lenM as = .ok (ls, as1) →
      InstrActions.lenM (.obj "InstrActions" [h, p, .list as]) = .ok (8 + sum16 ls, .obj "InstrActions" [h, p, .list as1]) := by
    intro h p as ls as1 hm
    simp only [InstrActions.lenM, hm, Res.bind_ok]
  have build : ∀ t x pad as ls bss as2 hb, mapM2 Action.lenM as = .ok (ls, as) →
      InstrHeader.bytes (.obj "InstrHeader" [t, V.u16 (8 + sum16 ls)]) = .ok hb →
      mapM2 Action.marshalM as = .ok (bss, as2) →
      InstrActions.marshalM (.obj "InstrActions" [.obj "InstrHeader" [t, x], .bytes pad, .list as]) =
        .ok (hb ++ makeCopy 4 pad ++ bss.flatten,
             .obj "InstrActions" [.obj "InstrHeader" [t, V.u16 (8 + sum16 ls)], .bytes pad, .list as2]) := by
    intro t x pad as ls bss as2 hb hl hhb hm
    have := marshalList_of_mapM2 Action.marshalM as false bss as2 hm
    simp only [InstrActions.marshalM, lenOf _ _ _ _ _ hl, Res.bind_ok, hhb, this]
    split <;> simp
  have shape : ∀ w bs v2, InstrActions.marshalM w = .ok (bs, v2) →
      ∃ t x pad as ls as1 hb bss as2, w = .obj "InstrActions" [.obj "InstrHeader" [t, x], .bytes pad, .list as] ∧
        mapM2 Action.lenM as = .ok (ls, as1) ∧
        InstrHeader.bytes (.obj "InstrHeader" [t, V.u16 (8 + sum16 ls)]) = .ok hb ∧
        mapM2 Action.marshalM as1 = .ok (bss, as2) ∧ bs = hb ++ makeCopy 4 pad ++ bss.flatten ∧
        v2 = .obj "InstrActions" [.obj "InstrHeader" [t, V.u16 (8 + sum16 ls)], .bytes pad, .list as2] := by
    intro w bs v2 h2
    unfold InstrActions.marshalM at h2
    obtain ⟨⟨l, v'⟩, hl, h3⟩ := bind_ok_inv _ _ _ h2
    unfold InstrActions.lenM at hl
    split at hl
    · rename_i h p as
      obtain ⟨⟨ls, as1⟩, hm, hl'⟩ := bind_ok_inv _ _ _ hl
      cases hl'
      simp only at h3
      split at h3
      · rename_i heq
        cases heq
        obtain ⟨hb, hhb, h4⟩ := bind_ok_inv _ _ _ h3
        obtain ⟨⟨abs, as2, e⟩, hml, h5⟩ := bind_ok_inv _ _ _ h4
        obtain ⟨bss, hmm, rfl, he⟩ := actions_loop _ _ _ _ _ hml
        simp only at h5
        split at h5
        · exact absurd h5 (by simp)
        · cases h5
          exact ⟨_, _, _, as, ls, as1, hb, bss, as2, rfl, hm, hhb, hmm, rfl, rfl⟩
      · exact absurd h3 (by simp)
    · exact absurd hl (by simp)
  refine ⟨InstrActions.lenM_idem v, ?_, ?_, ?_⟩
  · intro bs v2 h2
    obtain ⟨t, x, pad, as, ls, as1, hb, bss, as2, rfl, hl, hhb, hm, rfl, rfl⟩ := shape v bs v2 h2
    have hl1 := actions_len_idem _ _ _ hl
    have hl2 := actions_len_after_mar _ _ _ _ _ hl1 hm
    have hm2 := actions_mar_idem _ _ _ hm
    exact build t _ pad as2 ls bss as2 hb hl2 hhb hm2
  · intro l v1 bs v2 h1 h2
    obtain ⟨t, x, pad, as, ls, as1, hb, bss, as2, rfl, hl, hhb, hm, rfl, rfl⟩ := shape v bs v2 h2
    rw [lenOf _ _ _ _ _ hl] at h1
    cases h1
    have hl1 := actions_len_idem _ _ _ hl
    have hl2 := actions_len_after_mar _ _ _ _ _ hl1 hm
    exact lenOf _ _ _ _ _ hl2
  · intro l v1 bs v2 h1 h2
    obtain ⟨t, x, pad, as, ls, as1, hb, bss, as2, rfl, hl, hhb, hm, rfl, rfl⟩ := shape v bs v2 h2
    rw [lenOf _ _ _ _ _ hl] at h1
    cases h1
    have hl1 := actions_len_idem _ _ _ hl
    exact build t x pad as1 ls bss as2 hb hl1 hhb hm

/-- InstrActions.MarshalBinary() returns an InstrActions -/
theorem instrActions_marshal_kind (v : V) (bs : Bytes) (v2 : V) (h : InstrActions.marshalM v = .ok (bs, v2)) :
    v2.kind = "InstrActions" := by
  unfold InstrActions.marshalM at h
  obtain ⟨⟨l, v'⟩, hl, h3⟩ := bind_ok_inv _ _ _ h
  simp only at h3
  split at h3
  · obtain ⟨hb, hhb, h4⟩ := bind_ok_inv _ _ _ h3
    obtain ⟨⟨abs, as2, e⟩, hml, h5⟩ := bind_ok_inv _ _ _ h4
    simp only at h5
    split at h5
    · exact absurd h5 (by simp)
    · cases h5; rfl
  · exact absurd h3 (by simp)

/-- the Instruction interface: repeatable for every instruction value -/
theorem instruction_repeatable (v : V) : Repeatable Instruction.lenM Instruction.marshalM v := by
  refine ⟨Instruction.lenM_idem v, ?_, ?_, ?_⟩
  · intro bs v2 h2
    unfold Instruction.marshalM at h2
    split at h2 <;> rename_i hk
    · have := InstrGotoTable.marshalM_pure v bs v2 h2; subst this; unfold Instruction.marshalM; simp only [hk]; exact h2
    · have := InstrWriteMetadata.marshalM_pure v bs v2 h2; subst this; unfold Instruction.marshalM; simp only [hk]; exact h2
    · have hk2 := instrActions_marshal_kind v bs v2 h2
      unfold Instruction.marshalM; simp only [hk2]
      exact (instrActions_repeatable v).marIdem bs v2 h2
    · have := InstrMeter.marshalM_pure v bs v2 h2; subst this; unfold Instruction.marshalM; simp only [hk]; exact h2
    · exact absurd h2 (by simp)
  · intro l v1 bs v2 h1 h2
    unfold Instruction.marshalM at h2
    unfold Instruction.lenM at h1
    split at h1 <;> rename_i hk <;> simp only [hk] at h2
    · have := InstrGotoTable.marshalM_pure v bs v2 h2; subst this
      obtain ⟨_, e⟩ := same_ok _ _ _ _ h1; subst e
      unfold Instruction.lenM; simp only [hk]; exact h1
    · have := InstrWriteMetadata.marshalM_pure v bs v2 h2; subst this
      obtain ⟨_, e⟩ := same_ok _ _ _ _ h1; subst e
      unfold Instruction.lenM; simp only [hk]; exact h1
    · have hk2 := instrActions_marshal_kind v bs v2 h2
      unfold Instruction.lenM; simp only [hk2]
      exact (instrActions_repeatable v).lenAfterMar l v1 bs v2 h1 h2
    · have := InstrMeter.marshalM_pure v bs v2 h2; subst this
      obtain ⟨_, e⟩ := same_ok _ _ _ _ h1; subst e
      unfold Instruction.lenM; simp only [hk]; exact h1
    · exact absurd h1 (by simp)
  · intro l v1 bs v2 h1 h2
    unfold Instruction.marshalM at h2
    unfold Instruction.lenM at h1
    split at h1 <;> rename_i hk <;> simp only [hk] at h2
    · obtain ⟨_, e⟩ := same_ok _ _ _ _ h1; subst e
      unfold Instruction.marshalM; simp only [hk]; exact h2
    · obtain ⟨_, e⟩ := same_ok _ _ _ _ h1; subst e
      unfold Instruction.marshalM; simp only [hk]; exact h2
    · have hk1 := InstrActions.lenM_kind v l v1 h1
      unfold Instruction.marshalM; simp only [hk1]
      exact (instrActions_repeatable v).marAfterLen l v1 bs v2 h1 h2
    · obtain ⟨_, e⟩ := same_ok _ _ _ _ h1; subst e
      unfold Instruction.marshalM; simp only [hk]; exact h2
    · exact absurd h1 (by simp)

/-! ### buckets -/

/-- a bucket's encoding: the fixed 16 bytes, the actions' bytes `x`, zero padding up to the reported size `l` -/
def bucketEnc (l : UInt16) (w wp wg : Nat) (x : Bytes) : Bytes :=
  (be16 l ++ be16 (n16 w) ++ be32 (n32 wp) ++ be32 (n32 wg) ++ zeros 4 ++ x) ++
    zeros (l.toNat - (be16 l ++ be16 (n16 w) ++ be32 (n32 wp) ++ be32 (n32 wg) ++ zeros 4 ++ x).length)

/-- a uint16 stored in a field and read back is unchanged -/
theorem u16_roundtrip (l : UInt16) : n16 l.toNat = l := by
  apply UInt16.toNat_inj.mp
  simp only [n16, UInt16.toNat_ofNat']
  exact Nat.mod_eq_of_lt l.toNat_lt

/-- Bucket: MarshalBinary() stores `Length = Len()` in the receiver (and the actions may store things too);
    sizing / encoding again, in any order, gives the same answers and changes nothing further -/
theorem bucket_repeatable (v : V) : Repeatable Bucket.lenM Bucket.marshalM v := by
  have lenOf : ∀ l0 w wp wg p as ls as1, mapM2 Action.lenM as = .ok (ls, as1) →
      Bucket.lenM (.obj "Bucket" [l0, w, wp, wg, p, .list as]) =
        .ok (round8 (16 + sum16 ls), .obj "Bucket" [l0, w, wp, wg, p, .list as1]) := by
    intro l0 w wp wg p as ls as1 h
    simp only [Bucket.lenM, h, Res.bind_ok]
  have build : ∀ l0 w wp wg p as ls bss as2, mapM2 Action.lenM as = .ok (ls, as) →
      mapM2 Action.marshalM as = .ok (bss, as2) →
      Bucket.marshalM (.obj "Bucket" [l0, .num w, .num wp, .num wg, p, .list as]) =
        .ok (bucketEnc (round8 (16 + sum16 ls)) w wp wg bss.flatten,
             .obj "Bucket" [V.u16 (round8 (16 + sum16 ls)), .num w, .num wp, .num wg, p, .list as2]) := by
    intro l0 w wp wg p as ls bss as2 hl hm
    have := marshalList_of_mapM2 Action.marshalM as false bss as2 hm
    simp only [Bucket.marshalM, lenOf _ _ _ _ _ _ _ _ hl, Res.bind_ok, this, bucketEnc]
    split <;> simp
  have shape : ∀ w bs v2, Bucket.marshalM w = .ok (bs, v2) →
      ∃ l0 wt wp wg p as ls as1 bss as2, w = .obj "Bucket" [l0, .num wt, .num wp, .num wg, p, .list as] ∧
        mapM2 Action.lenM as = .ok (ls, as1) ∧ mapM2 Action.marshalM as1 = .ok (bss, as2) ∧
        bs = bucketEnc (round8 (16 + sum16 ls)) wt wp wg bss.flatten ∧
        v2 = .obj "Bucket" [V.u16 (round8 (16 + sum16 ls)), .num wt, .num wp, .num wg, p, .list as2] := by
    intro w bs v2 h2
    unfold Bucket.marshalM at h2
    obtain ⟨⟨l, v'⟩, hl, h3⟩ := bind_ok_inv _ _ _ h2
    unfold Bucket.lenM at hl
    split at hl
    · rename_i l0 w' wp' wg' p as
      obtain ⟨⟨ls, as1⟩, hm, hl'⟩ := bind_ok_inv _ _ _ hl
      cases hl'
      simp only at h3
      split at h3
      · rename_i heq
        cases heq
        obtain ⟨⟨abs, as2, e⟩, hml, h4⟩ := bind_ok_inv _ _ _ h3
        obtain ⟨bss, hmm, rfl, he⟩ := actions_loop _ _ _ _ _ hml
        simp only at h4
        split at h4
        · exact absurd h4 (by simp)
        · cases h4
          exact ⟨l0, _, _, _, p, as, ls, as1, bss, as2, rfl, hm, hmm, rfl, rfl⟩
      · exact absurd h3 (by simp)
    · exact absurd hl (by simp)
  refine ⟨Bucket.lenM_idem v, ?_, ?_, ?_⟩
  · intro bs v2 h2
    obtain ⟨l0, wt, wp, wg, p, as, ls, as1, bss, as2, rfl, hl, hm, rfl, rfl⟩ := shape v bs v2 h2
    have hl1 := actions_len_idem _ _ _ hl
    have hl2 := actions_len_after_mar _ _ _ _ _ hl1 hm
    have hm2 := actions_mar_idem _ _ _ hm
    exact build _ wt wp wg p as2 ls bss as2 hl2 hm2
  · intro l v1 bs v2 h1 h2
    obtain ⟨l0, wt, wp, wg, p, as, ls, as1, bss, as2, rfl, hl, hm, rfl, rfl⟩ := shape v bs v2 h2
    rw [lenOf _ _ _ _ _ _ _ _ hl] at h1
    cases h1
    have hl1 := actions_len_idem _ _ _ hl
    have hl2 := actions_len_after_mar _ _ _ _ _ hl1 hm
    exact lenOf _ _ _ _ _ _ _ _ hl2
  · intro l v1 bs v2 h1 h2
    obtain ⟨l0, wt, wp, wg, p, as, ls, as1, bss, as2, rfl, hl, hm, rfl, rfl⟩ := shape v bs v2 h2
    rw [lenOf _ _ _ _ _ _ _ _ hl] at h1
    cases h1
    have hl1 := actions_len_idem _ _ _ hl
    exact build _ wt wp wg p as1 ls bss as2 hl1 hm



/-! ### Hello -/

/-- HelloElemHeader: neither Len() nor MarshalBinary() modifies the value -/
theorem helloElemHeader_pure (v : V) : Pure2 HelloElemHeader.lenM HelloElemHeader.marshalM v :=
  ⟨fun _ _ h => (same_ok _ _ _ _ h).2, HelloElemHeader.marshalM_pure v⟩
/-- HelloElemVersionBitmap: Len() does not modify the value -/
theorem helloElemVersionBitmap_len_pure (v : V) : LenPure HelloElemVersionBitmap.lenM v :=
  HelloElemVersionBitmap.lenM_pure v

/-- HelloElemVersionBitmap: MarshalBinary() now STORES `Length = 4 + 4·|bitmaps|` in the element header and changes
    nothing else: what it leaves behind is the same element (same type, same bitmaps) with that Length -/
theorem helloElemVersionBitmap_marshal_stores (v : V) (bs : Bytes) (v2 : V)
    (h : HelloElemVersionBitmap.marshalM v = .ok (bs, v2)) :
    ∃ ty l0 bms, v = .obj "HelloElemVersionBitmap" [.obj "HelloElemHeader" [ty, l0], .list bms] ∧
      v2 = .obj "HelloElemVersionBitmap" [.obj "HelloElemHeader" [ty, V.u16 (4 + n16 (bms.length * 4))], .list bms] :=
  HelloElemVersionBitmap.marshalM_shape v bs v2 h

/-- … so the kind is no longer pure (`Pure2` fails): an element built with a stale Length (here 0) comes back with
    Length 8 -/
theorem helloElemVersionBitmap_not_pure :
    ∃ v bs v2, HelloElemVersionBitmap.marshalM v = .ok (bs, v2) ∧ v2 ≠ v :=
  ⟨.obj "HelloElemVersionBitmap" [.obj "HelloElemHeader" [.num 1, .num 0], .list [.num 18]], _, _, rfl, by
    intro h; injection h with _ h; injection h with h _; injection h with _ h; injection h with _ h
    injection h with h _; injection h with h; exact absurd h (by decide)⟩

/-- HelloElemVersionBitmap is repeatable in any order, like the other kinds that store a length: a second
    MarshalBinary() gives the same bytes and changes nothing further, Len() is the same before and after -/
theorem helloElemVersionBitmap_repeatable (v : V) :
    Repeatable HelloElemVersionBitmap.lenM HelloElemVersionBitmap.marshalM v :=
  HelloElemVersionBitmap.repeatable v

/-- an element that already holds its Length is left untouched by MarshalBinary() -/
theorem helloElemVersionBitmap_pure_of_settled (ty : V) (bms : List V) :
    Pure2 HelloElemVersionBitmap.lenM HelloElemVersionBitmap.marshalM
      (.obj "HelloElemVersionBitmap" [.obj "HelloElemHeader" [ty, V.u16 (4 + n16 (bms.length * 4))], .list bms]) := by
  refine ⟨HelloElemVersionBitmap.lenM_pure _, ?_⟩
  intro bs v2 h
  obtain ⟨ty', l0, bms', e1, e2⟩ := HelloElemVersionBitmap.marshalM_shape _ bs v2 h
  cases e1; exact e2

/-- the HelloElem interface: Len() does not modify the value -/
theorem helloElem_len_pure (v : V) : LenPure HelloElem.lenM v := by
  intro l v1 h
  unfold HelloElem.lenM at h
  split at h
  · exact helloElemVersionBitmap_len_pure v l v1 h
  · exact (helloElemHeader_pure v).1 l v1 h
  · exact absurd h (by simp)

/-- the HelloElem interface: repeatable in any order, whatever element the value holds -/
theorem helloElem_repeatable (v : V) : Repeatable HelloElem.lenM HelloElem.marshalM v := by
  have hl : ∀ w : V, w.kind = "HelloElemVersionBitmap" → HelloElem.lenM w = HelloElemVersionBitmap.lenM w := by
    intro w hw; simp only [HelloElem.lenM, hw]
  have hm : ∀ w : V, w.kind = "HelloElemVersionBitmap" → HelloElem.marshalM w = HelloElemVersionBitmap.marshalM w := by
    intro w hw; simp only [HelloElem.marshalM, hw]
  by_cases hk : v.kind = "HelloElemVersionBitmap"
  · have r := HelloElemVersionBitmap.repeatable v
    have hk2 : ∀ bs v2, HelloElemVersionBitmap.marshalM v = .ok (bs, v2) → v2.kind = "HelloElemVersionBitmap" := by
      intro bs v2 h
      obtain ⟨_, _, _, _, e⟩ := HelloElemVersionBitmap.marshalM_shape v bs v2 h
      subst e; rfl
    refine ⟨?_, ?_, ?_, ?_⟩
    · intro l v1 h1
      have e := helloElem_len_pure v l v1 h1
      subst e; exact h1
    · intro bs v2 h2
      rw [hm v hk] at h2
      rw [hm v2 (hk2 _ _ h2)]
      exact r.marIdem _ _ h2
    · intro l v1 bs v2 h1 h2
      rw [hl v hk] at h1
      rw [hm v hk] at h2
      rw [hl v2 (hk2 _ _ h2)]
      exact r.lenAfterMar _ _ _ _ h1 h2
    · intro l v1 bs v2 h1 h2
      have e := helloElem_len_pure v l v1 h1
      subst e; exact h2
  · apply Pure2.repeatable
    refine ⟨helloElem_len_pure v, ?_⟩
    intro bs v2 h
    unfold HelloElem.marshalM at h
    split at h
    · rename_i hk'; exact absurd hk' hk
    · exact (helloElemHeader_pure v).2 bs v2 h
    · exact absurd h (by simp)

/-- Hello.Len() changes nothing (no element's Len() does) -/
theorem hello_len_pure (v : V) : LenPure Hello.lenM v := by
  intro l v1 h
  unfold Hello.lenM at h
  split at h
  · obtain ⟨⟨ls, es'⟩, hm, h'⟩ := bind_ok_inv _ _ _ h
    cases h'
    rw [mapM2_pure _ _ _ _ (fun x _ a x' hx => helloElem_len_pure x a x' hx) hm]
  · exact absurd h (by simp)

/-- Hello: MarshalBinary() stores `Header.Length = Len()` (and every element its own Length); repeatable in any order -/
theorem hello_repeatable : ∀ v, Repeatable Hello.lenM Hello.marshalM v := by
  apply repeatable_of_lenThen Hello.lenM
    (fun l0 v => do
      let (l1, v) ← Hello.lenM v
      match v with
      | .obj "Hello" [hdr, .list es] =>
        let hdr := Header.setLength l1 hdr
        let hb ← Header.bytes hdr
        let (ebs, es') ← mapM2 HelloElem.marshalM es
        let bs ← fill l0.toNat (pCopy hb :: ebs.map pCopy)
        .ok (bs, .obj "Hello" [hdr, .list es'])
      | _ => .panic)
  · intro v; rfl
  · intro v; exact (hello_len_pure v).idem
  · intro l v1 bs v2 hl hE
    simp only [hl, Res.bind_ok] at hE
    split at hE
    · rename_i hdr es
      obtain ⟨hb, hhb, h3⟩ := bind_ok_inv _ _ _ hE
      obtain ⟨⟨ebs, es'⟩, hm, h4⟩ := bind_ok_inv _ _ _ h3
      obtain ⟨b, hf, h5⟩ := bind_ok_inv _ _ _ h4
      cases h5
      simp only [Hello.lenM] at hl
      obtain ⟨⟨ls, es1⟩, hm1, hl'⟩ := bind_ok_inv _ _ _ hl
      simp only [Res.ok.injEq, Prod.mk.injEq, V.obj.injEq, List.cons.injEq, V.list.injEq, true_and, and_true] at hl'
      obtain ⟨e1, e2⟩ := hl'
      subst e1; subst e2
      have hm2 := mapM2_len_after_mar HelloElem.lenM HelloElem.marshalM _ _ _ _ _ hm1 hm
        (fun x _ l y b z hx hy => (helloElem_repeatable x).lenAfterMar l y b z hx hy)
      have hm3 := mapM2_idem HelloElem.marshalM _ _ _
        (fun x _ b z hx => (helloElem_repeatable x).marIdem b z hx) hm
      have hl2 : Hello.lenM (.obj "Hello" [Header.setLength (8 + sum16 ls) hdr, .list es']) =
          .ok (8 + sum16 ls, .obj "Hello" [Header.setLength (8 + sum16 ls) hdr, .list es']) := by
        simp only [Hello.lenM, hm2, Res.bind_ok]
      refine ⟨hl2, ?_⟩
      simp only [hl2, Res.bind_ok, Header.setLength_idem, hhb, hm3, hf]
    · exact absurd hE (by simp)

/-! ### lists of instructions -/

/-- one successful run of the `append` loop over instructions is `mapM2` + concatenation, error flag false -/
theorem instrs_loop (is : List V) (e : Bool) (bs : Bytes) (is2 : List V) (e' : Bool)
    (h : marshalList Instruction.marshalM is e = .ok (bs, is2, e')) :
    ∃ bss, mapM2 Instruction.marshalM is = .ok (bss, is2) ∧ bs = bss.flatten ∧ e' = (if is = [] then e else false) := by
  obtain ⟨bss, hm, rfl⟩ := marshalList_eq_mapM2 _ _ _ _ _ _ (fun x _ => Instruction.marshalM_noErr x) h
  exact ⟨bss, hm, rfl, marshalList_flag _ _ _ _ _ _ (fun x _ => Instruction.marshalM_noErr x) h⟩
/-- sizing a list of instructions twice gives the same sizes and changes nothing further -/
theorem instrs_len_idem (is : List V) (ls : List UInt16) (is1 : List V) (h : mapM2 Instruction.lenM is = .ok (ls, is1)) :
    mapM2 Instruction.lenM is1 = .ok (ls, is1) :=
  mapM2_idem Instruction.lenM is ls is1 (fun x _ a x' hx => Instruction.lenM_idem x a x' hx) h
/-- encoding a list of instructions twice gives the same encodings and changes nothing further -/
theorem instrs_mar_idem (is : List V) (bss : List Bytes) (is2 : List V) (h : mapM2 Instruction.marshalM is = .ok (bss, is2)) :
    mapM2 Instruction.marshalM is2 = .ok (bss, is2) :=
  mapM2_idem Instruction.marshalM is bss is2 (fun x _ b z hx => (instruction_repeatable x).marIdem b z hx) h
/-- sizing a list of instructions after encoding it gives the sizes it gave before -/
theorem instrs_len_after_mar (is : List V) (ls : List UInt16) (is1 : List V) (bss : List Bytes) (is2 : List V)
    (h1 : mapM2 Instruction.lenM is = .ok (ls, is1)) (h2 : mapM2 Instruction.marshalM is = .ok (bss, is2)) :
    mapM2 Instruction.lenM is2 = .ok (ls, is2) :=
  mapM2_len_after_mar Instruction.lenM Instruction.marshalM is ls is1 bss is2 h1 h2
    (fun x _ l y b z hx hy => (instruction_repeatable x).lenAfterMar l y b z hx hy)

/-! ### FlowMod -/

/-- FlowMod.Len() does not look at the header -/
theorem flowMod_len_hdr (h h2 ck cm tid cmd it ht pr bid op og fl pad m : V) (is is1 : List V) (l : UInt16) (m1 : V)
    (hl : FlowMod.lenM (.obj "FlowMod" [h, ck, cm, tid, cmd, it, ht, pr, bid, op, og, fl, pad, m, .list is]) =
      .ok (l, .obj "FlowMod" [h, ck, cm, tid, cmd, it, ht, pr, bid, op, og, fl, pad, m1, .list is1])) :
    FlowMod.lenM (.obj "FlowMod" [h2, ck, cm, tid, cmd, it, ht, pr, bid, op, og, fl, pad, m, .list is]) =
      .ok (l, .obj "FlowMod" [h2, ck, cm, tid, cmd, it, ht, pr, bid, op, og, fl, pad, m1, .list is1]) := by
  unfold FlowMod.lenM at hl ⊢
  split at hl
  · rename_i heq
    cases heq
    obtain ⟨⟨ml, m'⟩, hml, hl2⟩ := bind_ok_inv _ _ _ hl
    simp only [hml, Res.bind_ok]
    simp only at hl2
    split at hl2
    · rename_i hd
      simp only [hd, if_true]
      simp only [Res.ok.injEq, Prod.mk.injEq, V.obj.injEq, List.cons.injEq, V.list.injEq, true_and, and_true] at hl2
      obtain ⟨e1, e2, e3⟩ := hl2
      simp only [e1, e2, e3]
    · rename_i hd
      simp only [hd, if_false]
      obtain ⟨⟨ls, is'⟩, hm, hl3⟩ := bind_ok_inv _ _ _ hl2
      simp only [Res.ok.injEq, Prod.mk.injEq, V.obj.injEq, List.cons.injEq, V.list.injEq, true_and, and_true] at hl3
      obtain ⟨e1, e2, e3⟩ := hl3
      simp only [hm, Res.bind_ok, e1, e2, e3]
  · exact absurd hl (by simp)

/-- the pieces of a successful FlowMod.Len() -/
theorem flowMod_len_shape (v : V) (l : UInt16) (v1 : V) (hl : FlowMod.lenM v = .ok (l, v1)) :
    ∃ h ck cm tid cmd it ht pr bid op og fl pad m is ml m1 is1,
      v = .obj "FlowMod" [h, ck, cm, tid, .num cmd, it, ht, pr, bid, op, og, fl, pad, m, .list is] ∧
      v1 = .obj "FlowMod" [h, ck, cm, tid, .num cmd, it, ht, pr, bid, op, og, fl, pad, m1, .list is1] ∧
      Match.lenM m = .ok (ml, m1) ∧
      ((cmd = Gen.openflow13.FC_DELETE ∨ cmd = Gen.openflow13.FC_DELETE_STRICT) ∧ is1 = is ∧ l = 8 + 40 + ml ∨
       ¬(cmd = Gen.openflow13.FC_DELETE ∨ cmd = Gen.openflow13.FC_DELETE_STRICT) ∧
         ∃ ls, mapM2 Instruction.lenM is = .ok (ls, is1) ∧ l = 8 + 40 + ml + sum16 ls) := by
  unfold FlowMod.lenM at hl
  split at hl
  · rename_i h ck cm tid cmd it ht pr bid op og fl pad m is
    obtain ⟨⟨ml, m'⟩, hml, hl2⟩ := bind_ok_inv _ _ _ hl
    simp only at hl2
    split at hl2
    · rename_i hd
      cases hl2
      exact ⟨h, ck, cm, tid, cmd, it, ht, pr, bid, op, og, fl, pad, m, is, ml, m', is, rfl, rfl, hml, Or.inl ⟨hd, rfl, rfl⟩⟩
    · rename_i hd
      obtain ⟨⟨ls, is'⟩, hm, hl3⟩ := bind_ok_inv _ _ _ hl2
      cases hl3
      exact ⟨h, ck, cm, tid, cmd, it, ht, pr, bid, op, og, fl, pad, m, is, ml, m', is', rfl, rfl, hml, Or.inr ⟨hd, ls, hm, rfl⟩⟩
  · exact absurd hl (by simp)

/-- FlowMod.Len() from its pieces (delete commands / other commands) -/
theorem flowMod_len_build (h ck cm tid : V) (cmd : Nat) (it ht pr bid op og fl pad m : V) (is : List V) (ml : UInt16) (m1 : V)
    (hml : Match.lenM m = .ok (ml, m1)) :
    ((cmd = Gen.openflow13.FC_DELETE ∨ cmd = Gen.openflow13.FC_DELETE_STRICT) →
      FlowMod.lenM (.obj "FlowMod" [h, ck, cm, tid, .num cmd, it, ht, pr, bid, op, og, fl, pad, m, .list is]) =
        .ok (8 + 40 + ml, .obj "FlowMod" [h, ck, cm, tid, .num cmd, it, ht, pr, bid, op, og, fl, pad, m1, .list is])) ∧
    (¬(cmd = Gen.openflow13.FC_DELETE ∨ cmd = Gen.openflow13.FC_DELETE_STRICT) → ∀ ls is1,
      mapM2 Instruction.lenM is = .ok (ls, is1) →
      FlowMod.lenM (.obj "FlowMod" [h, ck, cm, tid, .num cmd, it, ht, pr, bid, op, og, fl, pad, m, .list is]) =
        .ok (8 + 40 + ml + sum16 ls, .obj "FlowMod" [h, ck, cm, tid, .num cmd, it, ht, pr, bid, op, og, fl, pad, m1, .list is1])) := by
  constructor
  · intro hd
    simp only [FlowMod.lenM, hml, Res.bind_ok, hd, if_true]
  · intro hd ls is1 hm
    simp only [FlowMod.lenM, hml, Res.bind_ok, hd, if_false, hm]

/-- FlowMod: MarshalBinary() stores `Header.Length = Len()`, and the instructions (and their actions) may store things
    too; sizing / encoding again, in any order, gives the same answers and changes nothing further -/
theorem flowMod_repeatable : ∀ v, Repeatable FlowMod.lenM FlowMod.marshalM v := by
  have hidem : ∀ v, LenIdem FlowMod.lenM v := by
    intro v l v1 hl
    obtain ⟨h, ck, cm, tid, cmd, it, ht, pr, bid, op, og, fl, pad, m, is, ml, m1, is1, rfl, rfl, hml, hcase⟩ :=
      flowMod_len_shape v l v1 hl
    have em := Match.lenM_pure _ _ _ hml
    subst em
    rcases hcase with ⟨hd, rfl, rfl⟩ | ⟨hd, ls, hm, rfl⟩
    · exact (flowMod_len_build h ck cm tid cmd it ht pr bid op og fl pad m1 is1 ml m1 hml).1 hd
    · exact (flowMod_len_build h ck cm tid cmd it ht pr bid op og fl pad m1 is1 ml m1 hml).2 hd ls is1 (instrs_len_idem _ _ _ hm)
  apply repeatable_of_lenThen FlowMod.lenM
    (fun l v => match v with
      | .obj "FlowMod" [h, .num ck, .num cm, .num tid, .num cmd, .num it, .num ht, .num pr, .num bid, .num op, .num og,
          .num fl, pad, m, .list is] => do
        let h := Header.setLength l h
        let hb ← Header.bytes h
        let fixed := be64 (n64 ck) ++ be64 (n64 cm) ++ [n8 tid, n8 cmd] ++ be16 (n16 it) ++ be16 (n16 ht)
          ++ be16 (n16 pr) ++ be32 (n32 bid) ++ be32 (n32 op) ++ be32 (n32 og)
          ++ be16 (n16 fl) ++ zeros 2
        let ((mb, m'), e0) ← catchErr (Match.marshalM m) ([], m)
        let (ib, is', e) ← (if cmd = Gen.openflow13.FC_DELETE ∨ cmd = Gen.openflow13.FC_DELETE_STRICT
          then (.ok ([], is, e0) : R (Bytes × List V × Bool)) else marshalList Instruction.marshalM is e0)
        if e then .err
        else .ok (hb ++ fixed ++ mb ++ ib,
          .obj "FlowMod" [h, .num ck, .num cm, .num tid, .num cmd, .num it, .num ht, .num pr, .num bid, .num op, .num og,
            .num fl, pad, m', .list is'])
      | _ => .panic)
  · intro v; rfl
  · exact hidem
  · intro l v1 bs v2 hl hE
    split at hE
    · rename_i h ck cm tid cmd it ht pr bid op og fl pad m is
      obtain ⟨hb, hhb, h3⟩ := bind_ok_inv _ _ _ hE
      obtain ⟨⟨⟨mb, m'⟩, e0⟩, hmm, h4⟩ := bind_ok_inv _ _ _ h3
      obtain ⟨hmm', he0⟩ := catchErr_noErr _ _ _ _ (Match.marshalM_noErr _) hmm
      subst he0
      have em := Match.marshalM_pure _ _ _ hmm'
      subst em
      obtain ⟨h0, ck0, cm0, tid0, cmd0, it0, ht0, pr0, bid0, op0, og0, fl0, pad0, m0, is0, ml, m1, is1, heq, heq1, hml, hcase⟩ :=
        flowMod_len_shape _ l _ hl
      cases heq
      cases heq1
      by_cases hd : cmd = Gen.openflow13.FC_DELETE ∨ cmd = Gen.openflow13.FC_DELETE_STRICT
      · simp only [hd, if_true, Res.bind_ok] at h4
        split at h4
        · exact absurd h4 (by simp)
        · cases h4
          have hl2 := flowMod_len_hdr _ (Header.setLength l h) _ _ _ _ _ _ _ _ _ _ _ _ _ _ _ _ _ hl
          refine ⟨hl2, ?_⟩
          simp only [Header.setLength_idem, hhb, hmm, Res.bind_ok, hd, if_true]
          rfl
      · simp only [hd, if_false] at h4
        obtain ⟨⟨ib, is2, e⟩, hml2, h5⟩ := bind_ok_inv _ _ _ h4
        obtain ⟨bss, hmi, rfl, he⟩ := instrs_loop _ _ _ _ _ hml2
        have he' : e = false := by rw [he]; split <;> rfl
        subst he'
        simp only at h5
        cases h5
        rcases hcase with ⟨hd', _, _⟩ | ⟨_, ls, hm, rfl⟩
        · exact absurd hd' hd
        · have hm2 := instrs_len_after_mar _ _ _ _ _ hm hmi
          have hl2 := (flowMod_len_build (Header.setLength (8 + 40 + ml + sum16 ls) h) (.num ck) (.num cm) (.num tid) cmd
            (.num it) (.num ht) (.num pr) (.num bid) (.num op) (.num og) (.num fl) pad _ is2 ml _ hml).2 hd ls is2 hm2
          refine ⟨hl2, ?_⟩
          have hmi2 := instrs_mar_idem _ _ _ hmi
          have := marshalList_of_mapM2 Instruction.marshalM is2 false bss is2 hmi2
          simp only [Header.setLength_idem, hhb, hmm, Res.bind_ok, hd, if_false, this]
          split <;> simp
    · exact absurd hE (by simp)


/-! ### GroupMod -/

/-- Bucket.Len() / MarshalBinary() do not look at the stored Length field -/
theorem bucket_len_ignores (x l0 w wp wg p as : V) (l : UInt16) (v1 : V)
    (h : Bucket.lenM (.obj "Bucket" [l0, w, wp, wg, p, as]) = .ok (l, v1)) :
    ∃ as1, v1 = .obj "Bucket" [l0, w, wp, wg, p, as1] ∧
      Bucket.lenM (.obj "Bucket" [x, w, wp, wg, p, as]) = .ok (l, .obj "Bucket" [x, w, wp, wg, p, as1]) := by
  unfold Bucket.lenM at h ⊢
  split at h
  · rename_i heq
    cases heq
    obtain ⟨⟨ls, as'⟩, hm, h'⟩ := bind_ok_inv _ _ _ h
    cases h'
    exact ⟨_, rfl, by simp only [hm, Res.bind_ok]⟩
  · exact absurd h (by simp)

/-- Bucket.MarshalBinary() does not look at the stored Length field -/
theorem bucket_mar_ignores (x l0 w wp wg p as : V) (bs : Bytes) (v2 : V)
    (h : Bucket.marshalM (.obj "Bucket" [l0, w, wp, wg, p, as]) = .ok (bs, v2)) :
    Bucket.marshalM (.obj "Bucket" [x, w, wp, wg, p, as]) = .ok (bs, v2) := by
  unfold Bucket.marshalM at h ⊢
  obtain ⟨⟨l, v1⟩, hl, h3⟩ := bind_ok_inv _ _ _ h
  obtain ⟨as1, rfl, hl'⟩ := bucket_len_ignores x l0 w wp wg p as l v1 hl
  rw [hl']
  simp only [Res.bind_ok] at h3 ⊢
  split at h3
  · rename_i heq
    cases heq
    exact h3
  · exact absurd h3 (by simp)

/-- what a bucket's encoder returns has the shape of a bucket -/
theorem bucket_mar_shape (v : V) (bs : Bytes) (v2 : V) (h : Bucket.marshalM v = .ok (bs, v2)) :
    (∃ l0 w wp wg p as, v = .obj "Bucket" [l0, w, wp, wg, p, as]) ∧ (∃ l w wp wg p as, v2 = .obj "Bucket" [l, w, wp, wg, p, as]) := by
  unfold Bucket.marshalM at h
  obtain ⟨⟨l, v1⟩, hl, h3⟩ := bind_ok_inv _ _ _ h
  unfold Bucket.lenM at hl
  split at hl
  · obtain ⟨⟨ls, as'⟩, hm, h'⟩ := bind_ok_inv _ _ _ hl
    cases h'
    simp only at h3
    split at h3
    · obtain ⟨⟨abs, as2, e⟩, hml, h4⟩ := bind_ok_inv _ _ _ h3
      simp only at h4
      split at h4
      · exact absurd h4 (by simp)
      · cases h4
        exact ⟨⟨_, _, _, _, _, _, rfl⟩, ⟨_, _, _, _, _, _, rfl⟩⟩
    · exact absurd h3 (by simp)
  · exact absurd hl (by simp)

/-- the encoder GroupMod uses for its buckets (MarshalBinary() on a COPY of the bucket struct: the Length it stores is
    lost, what the shared action pointers store is kept): repeatable together with Bucket.Len() -/
theorem bucketCopy_repeatable (v : V) : Repeatable Bucket.lenM Bucket.marshalCopyM v := by
  have R := bucket_repeatable
  have unf : ∀ w bs w2, Bucket.marshalCopyM w = .ok (bs, w2) →
      ∃ w2', Bucket.marshalM w = .ok (bs, w2') ∧ w2 = Bucket.setLength (Bucket.length w) w2' := by
    intro w bs w2 h
    unfold Bucket.marshalCopyM at h
    obtain ⟨⟨b, w2'⟩, hm, h'⟩ := bind_ok_inv _ _ _ h
    cases h'
    exact ⟨w2', hm, rfl⟩
  have fold : ∀ w bs w2', Bucket.marshalM w = .ok (bs, w2') →
      Bucket.marshalCopyM w = .ok (bs, Bucket.setLength (Bucket.length w) w2') := by
    intro w bs w2' h
    simp only [Bucket.marshalCopyM, h, Res.bind_ok, Res.pure_eq]
  refine ⟨(R v).lenIdem, ?_, ?_, ?_⟩
  · intro bs v2 h2
    obtain ⟨v2', hm, rfl⟩ := unf v bs v2 h2
    obtain ⟨⟨l0, w, wp, wg, p, as, rfl⟩, ⟨l', w', wp', wg', p', as', rfl⟩⟩ := bucket_mar_shape v bs v2' hm
    have hm2 := (R _).marIdem bs _ hm
    have hm3 := bucket_mar_ignores l0 _ _ _ _ _ _ bs _ hm2
    simp only [Bucket.length, Bucket.setLength]
    have := fold _ _ _ hm3
    simpa only [Bucket.length, Bucket.setLength] using this
  · intro l v1 bs v2 h1 h2
    obtain ⟨v2', hm, rfl⟩ := unf v bs v2 h2
    obtain ⟨⟨l0, w, wp, wg, p, as, rfl⟩, ⟨l', w', wp', wg', p', as', rfl⟩⟩ := bucket_mar_shape v bs v2' hm
    have hl2 := (R _).lenAfterMar l v1 bs _ h1 hm
    obtain ⟨as1, heq, hl3⟩ := bucket_len_ignores l0 _ _ _ _ _ _ l _ hl2
    simp only [Bucket.length, Bucket.setLength]
    simp only [V.obj.injEq, List.cons.injEq, true_and, and_true] at heq
    rw [← heq] at hl3
    exact hl3
  · intro l v1 bs v2 h1 h2
    obtain ⟨v2', hm, rfl⟩ := unf v bs v2 h2
    obtain ⟨⟨l0, w, wp, wg, p, as, rfl⟩, _⟩ := bucket_mar_shape v bs v2' hm
    have hm1 := (R _).marAfterLen l v1 bs _ h1 hm
    obtain ⟨as1, rfl, _⟩ := bucket_len_ignores l0 l0 w wp wg p as l v1 h1
    have := fold _ _ _ hm1
    simpa only [Bucket.length] using this

/-- one successful run of GroupMod's `append` loop over buckets is `mapM2` + concatenation, error flag false -/
theorem buckets_loop (bks : List V) (e : Bool) (bs : Bytes) (bks2 : List V) (e' : Bool)
    (h : marshalList Bucket.marshalCopyM bks e = .ok (bs, bks2, e')) :
    ∃ bss, mapM2 Bucket.marshalCopyM bks = .ok (bss, bks2) ∧ bs = bss.flatten ∧ e' = (if bks = [] then e else false) := by
  obtain ⟨bss, hm, rfl⟩ := marshalList_eq_mapM2 _ _ _ _ _ _ (fun x _ => Bucket.marshalCopyM_noErr x) h
  exact ⟨bss, hm, rfl, marshalList_flag _ _ _ _ _ _ (fun x _ => Bucket.marshalCopyM_noErr x) h⟩

/-- the pieces of a successful GroupMod.Len() -/
theorem groupMod_len_shape (v : V) (l : UInt16) (v1 : V) (hl : GroupMod.lenM v = .ok (l, v1)) :
    ∃ h cmd t p g bks bks1,
      v = .obj "GroupMod" [h, .num cmd, t, p, g, .list bks] ∧ v1 = .obj "GroupMod" [h, .num cmd, t, p, g, .list bks1] ∧
      (cmd = Gen.openflow13.OFPGC_DELETE ∧ bks1 = bks ∧ l = 16 ∨
       cmd ≠ Gen.openflow13.OFPGC_DELETE ∧ ∃ ls, mapM2 Bucket.lenM bks = .ok (ls, bks1) ∧ l = 16 + sum16 ls) := by
  unfold GroupMod.lenM at hl
  split at hl
  · rename_i h cmd t p g bks
    split at hl
    · rename_i hd
      cases hl
      exact ⟨h, cmd, t, p, g, bks, bks, rfl, rfl, Or.inl ⟨hd, rfl, rfl⟩⟩
    · rename_i hd
      obtain ⟨⟨ls, bks'⟩, hm, hl3⟩ := bind_ok_inv _ _ _ hl
      cases hl3
      exact ⟨h, cmd, t, p, g, bks, bks', rfl, rfl, Or.inr ⟨hd, ls, hm, rfl⟩⟩
  · exact absurd hl (by simp)

/-- GroupMod.Len() from its pieces (DELETE / other commands) -/
theorem groupMod_len_build (h : V) (cmd : Nat) (t p g : V) (bks : List V) :
    (cmd = Gen.openflow13.OFPGC_DELETE →
      GroupMod.lenM (.obj "GroupMod" [h, .num cmd, t, p, g, .list bks]) = .ok (16, .obj "GroupMod" [h, .num cmd, t, p, g, .list bks])) ∧
    (cmd ≠ Gen.openflow13.OFPGC_DELETE → ∀ ls bks1, mapM2 Bucket.lenM bks = .ok (ls, bks1) →
      GroupMod.lenM (.obj "GroupMod" [h, .num cmd, t, p, g, .list bks]) =
        .ok (16 + sum16 ls, .obj "GroupMod" [h, .num cmd, t, p, g, .list bks1])) := by
  constructor
  · intro hd
    simp only [GroupMod.lenM, hd, if_true]
  · intro hd ls bks1 hm
    simp only [GroupMod.lenM, hd, if_false, hm, Res.bind_ok]

/-- GroupMod: MarshalBinary() stores `Header.Length = Len()`; the buckets are encoded from copies (their Length is
    not stored) but their actions keep what they store.  Repeatable in any order. -/
theorem groupMod_repeatable : ∀ v, Repeatable GroupMod.lenM GroupMod.marshalM v := by
  have RB := bucketCopy_repeatable
  have hidem : ∀ v, LenIdem GroupMod.lenM v := by
    intro v l v1 hl
    obtain ⟨h, cmd, t, p, g, bks, bks1, rfl, rfl, hcase⟩ := groupMod_len_shape v l v1 hl
    rcases hcase with ⟨hd, rfl, rfl⟩ | ⟨hd, ls, hm, rfl⟩
    · exact (groupMod_len_build h cmd t p g bks1).1 hd
    · exact (groupMod_len_build h cmd t p g bks1).2 hd ls bks1
        (mapM2_idem Bucket.lenM _ _ _ (fun x _ a x' hx => Bucket.lenM_idem x a x' hx) hm)
  apply repeatable_of_lenThen GroupMod.lenM
    (fun l v => match v with
      | .obj "GroupMod" [h, .num cmd, .num t, .num p, .num g, .list bs] => do
        let h := Header.setLength l h
        let hb ← Header.bytes h
        let (bb, bs', e) ← (if cmd = Gen.openflow13.OFPGC_DELETE
          then (.ok ([], bs, false) : R (Bytes × List V × Bool)) else marshalList Bucket.marshalCopyM bs false)
        if e then .err
        else .ok (hb ++ be16 (n16 cmd) ++ [n8 t, n8 p] ++ be32 (n32 g) ++ bb,
                  .obj "GroupMod" [h, .num cmd, .num t, .num p, .num g, .list bs'])
      | _ => .panic)
  · intro v; rfl
  · exact hidem
  · intro l v1 bs v2 hl hE
    split at hE
    · rename_i h cmd t p g bks
      obtain ⟨hb, hhb, h3⟩ := bind_ok_inv _ _ _ hE
      obtain ⟨h0, cmd0, t0, p0, g0, bks0, bks1, heq, heq1, hcase⟩ := groupMod_len_shape _ l _ hl
      cases heq
      cases heq1
      by_cases hd : cmd = Gen.openflow13.OFPGC_DELETE
      · subst hd
        simp only [if_true, Res.bind_ok] at h3
        split at h3
        · exact absurd h3 (by simp)
        · cases h3
          rcases hcase with ⟨_, _, rfl⟩ | ⟨hd', _⟩
          · refine ⟨(groupMod_len_build _ _ _ _ _ _).1 rfl, ?_⟩
            simp only [Header.setLength_idem, hhb, Res.bind_ok, if_true]
            rfl
          · exact absurd rfl hd'
      · simp only [hd, if_false] at h3
        obtain ⟨⟨bb, bks2, e⟩, hml2, h5⟩ := bind_ok_inv _ _ _ h3
        obtain ⟨bss, hmi, rfl, he⟩ := buckets_loop _ _ _ _ _ hml2
        have he' : e = false := by rw [he]; split <;> rfl
        subst he'
        simp only at h5
        cases h5
        rcases hcase with ⟨hd', _, _⟩ | ⟨_, ls, hm, rfl⟩
        · exact absurd hd' hd
        · have hm2 := mapM2_len_after_mar Bucket.lenM Bucket.marshalCopyM _ _ _ _ _ hm hmi
            (fun x _ l y b z hx hy => (RB x).lenAfterMar l y b z hx hy)
          refine ⟨(groupMod_len_build _ cmd _ _ _ _).2 hd ls bks2 hm2, ?_⟩
          have hmi2 := mapM2_idem Bucket.marshalCopyM _ _ _ (fun x _ b z hx => (RB x).marIdem b z hx) hmi
          have := marshalList_of_mapM2 Bucket.marshalCopyM bks2 false bss bks2 hmi2
          simp only [Header.setLength_idem, hhb, Res.bind_ok, hd, if_false, this]
          split <;> simp
    · exact absurd hE (by simp)


/-! ### (a) messages and multipart bodies that store nothing -/

/-- PhyPort: neither Len() nor MarshalBinary() modifies the value -/
theorem phyPort_pure (v : V) : Pure2 PhyPort.lenM PhyPort.marshalM v := ⟨PhyPort.lenM_pure v, PhyPort.marshalM_pure v⟩
/-- DescStats: neither Len() nor MarshalBinary() modifies the value -/
theorem descStats_pure (v : V) : Pure2 DescStats.lenM DescStats.marshalM v :=
  ⟨fun _ _ h => (same_ok _ _ _ _ h).2, DescStats.marshalM_pure v⟩
/-- AggregateStats: neither Len() nor MarshalBinary() modifies the value -/
theorem aggregateStats_pure (v : V) : Pure2 AggregateStats.lenM AggregateStats.marshalM v :=
  ⟨fun _ _ h => (same_ok _ _ _ _ h).2, AggregateStats.marshalM_pure v⟩
/-- TableStats: neither Len() nor MarshalBinary() modifies the value -/
theorem tableStats_pure (v : V) : Pure2 TableStats.lenM TableStats.marshalM v :=
  ⟨fun _ _ h => (same_ok _ _ _ _ h).2, TableStats.marshalM_pure v⟩
/-- PortStatsRequest: neither Len() nor MarshalBinary() modifies the value -/
theorem portStatsRequest_pure (v : V) : Pure2 PortStatsRequest.lenM PortStatsRequest.marshalM v :=
  ⟨fun _ _ h => (same_ok _ _ _ _ h).2, PortStatsRequest.marshalM_pure v⟩
/-- QueueStatsRequest: neither Len() nor MarshalBinary() modifies the value -/
theorem queueStatsRequest_pure (v : V) : Pure2 QueueStatsRequest.lenM QueueStatsRequest.marshalM v :=
  ⟨fun _ _ h => (same_ok _ _ _ _ h).2, QueueStatsRequest.marshalM_pure v⟩
/-- QueueStats: neither Len() nor MarshalBinary() modifies the value -/
theorem queueStats_pure (v : V) : Pure2 QueueStats.lenM QueueStats.marshalM v :=
  ⟨fun _ _ h => (same_ok _ _ _ _ h).2, QueueStats.marshalM_pure v⟩
/-- ControllerID: neither Len() nor MarshalBinary() modifies the value -/
theorem controllerID_pure (v : V) : Pure2 ControllerID.lenM ControllerID.marshalM v :=
  ⟨fun _ _ h => (same_ok _ _ _ _ h).2, ControllerID.marshalM_pure v⟩
/-- TLVTableMap: neither Len() nor MarshalBinary() modifies the value -/
theorem tlvTableMap_pure (v : V) : Pure2 TLVTableMap.lenM TLVTableMap.marshalM v :=
  ⟨fun _ _ h => (same_ok _ _ _ _ h).2, TLVTableMap.marshalM_pure v⟩
/-- BundleControl: neither Len() nor MarshalBinary() modifies the value -/
theorem bundleControl_pure (v : V) : Pure2 BundleControl.lenM BundleControl.marshalM v :=
  ⟨fun _ _ h => (same_ok _ _ _ _ h).2, BundleControl.marshalM_pure v⟩

/-- PortStats: neither Len() nor MarshalBinary() modifies the value -/
theorem portStats_pure (v : V) : Pure2 PortStats.lenM PortStats.marshalM v := by
  refine ⟨fun _ _ h => (same_ok _ _ _ _ h).2, ?_⟩
  intro bs v2 h
  unfold PortStats.marshalM at h
  split at h
  · split at h
    · exact absurd h (by simp)
    · obtain ⟨_, _, h'⟩ := bind_ok_inv _ _ _ h
      exact (same_ok _ _ _ _ h').2
  · exact absurd h (by simp)

/-- util.Buffer: neither Len() nor MarshalBinary() modifies the value -/
theorem uBuffer_pure (v : V) : Pure2 UBuffer.lenM UBuffer.marshalM v := by
  refine ⟨?_, UBuffer.marshalM_pure v⟩
  intro l v1 h
  unfold UBuffer.lenM at h
  obtain ⟨_, _, h'⟩ := bind_ok_inv _ _ _ h
  exact (same_ok _ _ _ _ h').2

/-- FlowStatsRequest / AggregateStatsRequest -/
theorem statsReq_pure (k : String) (v : V) : Pure2 (StatsReq.lenM k) (StatsReq.marshalM k) v := by
  constructor
  · intro l v1 h
    unfold StatsReq.lenM at h
    split at h
    · split at h
      · exact absurd h (by simp)
      · rename_i hk
        have hk' : _ = k := Decidable.of_not_not hk
        subst hk'
        obtain ⟨⟨lm, m'⟩, hlm, h2⟩ := bind_ok_inv _ _ _ h
        have em := Match.lenM_pure _ _ _ hlm
        subst em
        cases h2; rfl
    · exact absurd h (by simp)
  · intro bs v2 h
    unfold StatsReq.marshalM at h
    split at h
    · split at h
      · exact absurd h (by simp)
      · rename_i hk
        have hk' : _ = k := Decidable.of_not_not hk
        subst hk'
        obtain ⟨fb, _, h2⟩ := bind_ok_inv _ _ _ h
        obtain ⟨⟨mb, m'⟩, hmm, h3⟩ := bind_ok_inv _ _ _ h2
        have em := Match.marshalM_pure _ _ _ hmm
        subst em
        cases h3; rfl
    · exact absurd h (by simp)

/-- SwitchConfig (SetConfig / GetConfigReply) -/
theorem switchConfig_repeatable : ∀ v, Repeatable SwitchConfig.lenM SwitchConfig.marshalM v := by
  apply repeatable_of_lenThen SwitchConfig.lenM
    (fun l0 v => do
      let (l1, v) ← SwitchConfig.lenM v
      match v with
      | .obj "SwitchConfig" [h, .num fl, .num ms] =>
        let h := Header.setLength l1 h
        let hb ← Header.bytes h
        let bs ← fill l0.toNat [pCopy hb, pU16 fl, pU16 ms]
        .ok (bs, .obj "SwitchConfig" [h, .num fl, .num ms])
      | _ => .panic)
  · intro v; rfl
  · intro v l v1 h; obtain ⟨_, e⟩ := same_ok _ _ _ _ h; subst e; exact h
  · intro l v1 bs v2 hl hE
    obtain ⟨e1, _⟩ := same_ok _ _ _ _ hl
    subst e1
    simp only [SwitchConfig.lenM, same, Res.bind_ok] at hE
    split at hE
    · obtain ⟨hb, hhb, h3⟩ := bind_ok_inv _ _ _ hE
      obtain ⟨b, hf, h4⟩ := bind_ok_inv _ _ _ h3
      cases h4
      refine ⟨rfl, ?_⟩
      simp only [SwitchConfig.lenM, same, Res.bind_ok, Header.setLength_idem, hhb, hf]
    · exact absurd hE (by simp)

/-- PortMod -/
theorem portMod_repeatable : ∀ v, Repeatable PortMod.lenM PortMod.marshalM v := by
  apply repeatable_of_lenThen PortMod.lenM
    (fun l v => match v with
      | .obj "PortMod" [h, .num no, .bytes pad, .bytes hw, .bytes pad2, .num cfg, .num mask, .num adv, .bytes pad3] => do
        let h := Header.setLength l h
        let hb ← Header.bytes h
        let b ← fill 32 [pU32 no, pCopyAdv pad 4, pCopyAdv hw Gen.openflow13.ETH_ALEN, pCopyAdv pad2 2, pU32 cfg, pU32 mask,
          pU32 adv, pCopyAdv pad3 4]
        .ok (hb ++ b, .obj "PortMod" [h, .num no, .bytes pad, .bytes hw, .bytes pad2, .num cfg, .num mask, .num adv, .bytes pad3])
      | _ => .panic)
  · intro v; rfl
  · intro v l v1 h; obtain ⟨_, e⟩ := same_ok _ _ _ _ h; subst e; exact h
  · intro l v1 bs v2 hl hE
    obtain ⟨e1, _⟩ := same_ok _ _ _ _ hl
    subst e1
    split at hE
    · obtain ⟨hb, hhb, h3⟩ := bind_ok_inv _ _ _ hE
      obtain ⟨b, hf, h4⟩ := bind_ok_inv _ _ _ h3
      cases h4
      refine ⟨rfl, ?_⟩
      simp only [Header.setLength_idem, hhb, hf, Res.bind_ok]
    · exact absurd hE (by simp)

/-- PortStatus -/
theorem portStatus_repeatable : ∀ v, Repeatable PortStatus.lenM PortStatus.marshalM v := by
  have hlp : ∀ v, LenPure PortStatus.lenM v := by
    intro v l v1 h
    unfold PortStatus.lenM at h
    split at h
    · obtain ⟨⟨lp, d'⟩, hd, h2⟩ := bind_ok_inv _ _ _ h
      have e := PhyPort.lenM_pure _ _ _ hd
      subst e
      cases h2; rfl
    · exact absurd h (by simp)
  apply repeatable_of_lenThen PortStatus.lenM
    (fun l v => match v with
      | .obj "PortStatus" [h, .num r, .bytes pad, d] => do
        let h := Header.setLength l h
        let hb ← Header.bytes h
        let (db, d) ← PhyPort.marshalM d
        .ok (hb ++ ([n8 r] ++ makeCopy 7 pad) ++ db, .obj "PortStatus" [h, .num r, .bytes pad, d])
      | _ => .panic)
  · intro v; rfl
  · intro v; exact (hlp v).idem
  · intro l v1 bs v2 hl hE
    split at hE
    · rename_i h r pad d
      obtain ⟨hb, hhb, h3⟩ := bind_ok_inv _ _ _ hE
      obtain ⟨⟨db, d'⟩, hd, h4⟩ := bind_ok_inv _ _ _ h3
      have e := PhyPort.marshalM_pure _ _ _ hd
      subst e
      cases h4
      have hl2 : PortStatus.lenM (.obj "PortStatus" [Header.setLength l h, .num r, .bytes pad, d']) =
          .ok (l, .obj "PortStatus" [Header.setLength l h, .num r, .bytes pad, d']) := by
        simp only [PortStatus.lenM] at hl ⊢
        obtain ⟨⟨lp, d2⟩, hd2, hl'⟩ := bind_ok_inv _ _ _ hl
        simp only [Res.pure_eq, Res.ok.injEq, Prod.mk.injEq, V.obj.injEq, List.cons.injEq, true_and, and_true] at hl'
        obtain ⟨e1, e2⟩ := hl'
        subst e1; subst e2
        simp only [hd2, Res.bind_ok, Res.pure_eq]
      refine ⟨hl2, ?_⟩
      simp only [Header.setLength_idem, hhb, hd, Res.bind_ok]
    · exact absurd hE (by simp)

/-- BundlePropertyExperimenter: MarshalBinary() stores `Length = 12 + len(data)` -/
theorem bundleProperty_repeatable : ∀ v, Repeatable BundlePropertyExperimenter.lenM BundlePropertyExperimenter.marshalM v := by
  intro v
  have hlp : ∀ w, LenPure BundlePropertyExperimenter.lenM w := by
    intro w l v1 h
    unfold BundlePropertyExperimenter.lenM at h
    obtain ⟨_, _, h'⟩ := bind_ok_inv _ _ _ h
    exact (same_ok _ _ _ _ h').2
  have shape : ∀ w bs v2, BundlePropertyExperimenter.marshalM w = .ok (bs, v2) →
      ∃ t x ei et d l, w = .obj "BundlePropertyExperimenter" [.num t, x, .num ei, .num et, .bytes d] ∧
        BundlePropertyExperimenter.len w = .ok l ∧
        fill l.toNat [pU16 t, .put (be16 (n16 (12 + d.length))), pU32 ei, pU32 et, pCopy d] = .ok bs ∧
        v2 = .obj "BundlePropertyExperimenter" [.num t, V.u16 (n16 (12 + d.length)), .num ei, .num et, .bytes d] := by
    intro w bs v2 h
    unfold BundlePropertyExperimenter.marshalM at h
    split at h
    · obtain ⟨l, hl, h2⟩ := bind_ok_inv _ _ _ h
      obtain ⟨b, hf, h3⟩ := bind_ok_inv _ _ _ h2
      cases h3
      exact ⟨_, _, _, _, _, l, rfl, hl, hf, rfl⟩
    · exact absurd h (by simp)
  refine ⟨(hlp v).idem, ?_, ?_, ?_⟩
  · intro bs v2 h2
    obtain ⟨t, x, ei, et, d, l, rfl, hl, hf, rfl⟩ := shape v bs v2 h2
    simp only [BundlePropertyExperimenter.len] at hl
    cases hl
    simp only [BundlePropertyExperimenter.marshalM, BundlePropertyExperimenter.len, V.u16, Res.bind_ok, hf]
  · intro l v1 bs v2 h1 h2
    obtain ⟨t, x, ei, et, d, l', rfl, hl, hf, rfl⟩ := shape v bs v2 h2
    unfold BundlePropertyExperimenter.lenM at h1 ⊢
    obtain ⟨l2, hl2, h1'⟩ := bind_ok_inv _ _ _ h1
    obtain ⟨e1, _⟩ := same_ok _ _ _ _ h1'
    subst e1
    have hl' : BundlePropertyExperimenter.len (.obj "BundlePropertyExperimenter" [.num t, V.u16 (n16 (12 + d.length)), .num ei, .num et, .bytes d]) = .ok l := by
      simpa only [BundlePropertyExperimenter.len] using hl2
    simp only [hl', Res.bind_ok, same]
  · intro l v1 bs v2 h1 h2
    have := hlp v l v1 h1
    subst this
    exact h2


/-- TLVTableMod -/
theorem tlvTableMod_pure (v : V) : Pure2 TLVTableMod.lenM TLVTableMod.marshalM v := by
  have hl : LenPure TLVTableMod.lenM v := by
    intro l v1 h
    unfold TLVTableMod.lenM at h
    split at h
    · obtain ⟨⟨ls, ms'⟩, hm, h2⟩ := bind_ok_inv _ _ _ h
      have e := mapM2_pure _ _ _ _ (fun x _ a x' hx => (tlvTableMap_pure x).1 a x' hx) hm
      subst e
      cases h2; rfl
    · exact absurd h (by simp)
  refine ⟨hl, ?_⟩
  intro bs v2 h
  unfold TLVTableMod.marshalM at h
  obtain ⟨⟨l, v'⟩, hlen, h2⟩ := bind_ok_inv _ _ _ h
  have e := hl _ _ hlen
  subst e
  simp only at h2
  split at h2
  · obtain ⟨⟨bss, ms'⟩, hm, h3⟩ := bind_ok_inv _ _ _ h2
    obtain ⟨b, _, h4⟩ := bind_ok_inv _ _ _ h3
    have e2 := mapM2_pure _ _ _ _ (fun x _ a x' hx => (tlvTableMap_pure x).2 a x' hx) hm
    subst e2
    cases h4; rfl
  · exact absurd h2 (by simp)

/-- TLVTableReply -/
theorem tlvTableReply_pure (v : V) : Pure2 TLVTableReply.lenM TLVTableReply.marshalM v := by
  have hl : LenPure TLVTableReply.lenM v := by
    intro l v1 h
    unfold TLVTableReply.lenM at h
    split at h
    · obtain ⟨⟨ls, ms'⟩, hm, h2⟩ := bind_ok_inv _ _ _ h
      have e := mapM2_pure _ _ _ _ (fun x _ a x' hx => (tlvTableMap_pure x).1 a x' hx) hm
      subst e
      cases h2; rfl
    · exact absurd h (by simp)
  refine ⟨hl, ?_⟩
  intro bs v2 h
  unfold TLVTableReply.marshalM at h
  obtain ⟨⟨l, v'⟩, hlen, h2⟩ := bind_ok_inv _ _ _ h
  have e := hl _ _ hlen
  subst e
  simp only at h2
  split at h2
  · obtain ⟨⟨bss, ms'⟩, hm, h3⟩ := bind_ok_inv _ _ _ h2
    obtain ⟨b, _, h4⟩ := bind_ok_inv _ _ _ h3
    have e2 := mapM2_pure _ _ _ _ (fun x _ a x' hx => (tlvTableMap_pure x).2 a x' hx) hm
    subst e2
    cases h4; rfl
  · exact absurd h2 (by simp)

/-- SwitchFeatures: MarshalBinary() stores `Header.Length = Len()`; the ports are encoded from copies -/
theorem switchFeatures_repeatable : ∀ v, Repeatable SwitchFeatures.lenM SwitchFeatures.marshalM v := by
  have hlp : ∀ v, LenPure SwitchFeatures.lenM v := by
    intro v l v1 h
    unfold SwitchFeatures.lenM at h
    split at h
    · obtain ⟨_, _, h2⟩ := bind_ok_inv _ _ _ h
      cases h2; rfl
    · exact absurd h (by simp)
  apply repeatable_of_lenThen SwitchFeatures.lenM
    (fun l0 v => do
      let (l1, v) ← SwitchFeatures.lenM v
      match v with
      | .obj "SwitchFeatures" [h, dpid, .num b, .num nt, .num ax, .bytes pad, .num caps, .num acts, .list ports] =>
        let h := Header.setLength l1 h
        let hb ← Header.bytes h
        let (pbs, _) ← mapM2 PhyPort.marshalM ports
        let bs ← fill l0.toNat ([pCopy hb, pCopy dpid.asBytes, pU32 b, pU8 nt, pU8 ax, pCopy pad, pU32 caps, pU32 acts] ++ pbs.map pCopy)
        .ok (bs, .obj "SwitchFeatures" [h, dpid, .num b, .num nt, .num ax, .bytes pad, .num caps, .num acts, .list ports])
      | _ => .panic)
  · intro v; rfl
  · intro v; exact (hlp v).idem
  · intro l v1 bs v2 hl hE
    simp only [hl, Res.bind_ok] at hE
    split at hE
    · rename_i h dpid b nt ax pad caps acts ports
      obtain ⟨hb, hhb, h3⟩ := bind_ok_inv _ _ _ hE
      obtain ⟨⟨pbs, ps'⟩, hm, h4⟩ := bind_ok_inv _ _ _ h3
      obtain ⟨bb, hf, h5⟩ := bind_ok_inv _ _ _ h4
      cases h5
      have hl2 : SwitchFeatures.lenM (.obj "SwitchFeatures" [Header.setLength l h, dpid, .num b, .num nt, .num ax, .bytes pad, .num caps, .num acts, .list ports]) =
          .ok (l, .obj "SwitchFeatures" [Header.setLength l h, dpid, .num b, .num nt, .num ax, .bytes pad, .num caps, .num acts, .list ports]) := by
        unfold SwitchFeatures.lenM at hl ⊢
        split at hl
        · rename_i heq
          cases heq
          obtain ⟨⟨ls, ps2⟩, hml, hl'⟩ := bind_ok_inv _ _ _ hl
          simp only [Res.pure_eq, Res.ok.injEq, Prod.mk.injEq, and_true] at hl'
          simp only [hml, Res.bind_ok, Res.pure_eq, hl']
        · exact absurd hl (by simp)
      refine ⟨hl2, ?_⟩
      simp only [hl2, Res.bind_ok, Header.setLength_idem, hhb, hm, hf]
    · exact absurd hE (by simp)


/-! ### (b) messages that store `Header.Length = Len()`: ErrorMsg, VendorError, FlowRemoved
  (since Go commits mirrored on 2026-09-29 their encoders set the header length; they were pure before) -/

/-- ErrorMsg: MarshalBinary() stores `Header.Length = Len()`; Len() itself changes nothing -/
theorem errorMsg_repeatable : ∀ v, Repeatable ErrorMsg.lenM ErrorMsg.marshalM v := by
  apply repeatable_of_lenThen ErrorMsg.lenM
    (fun l0 v => do
      let (l, v) ← ErrorMsg.lenM v
      match v with
      | .obj "ErrorMsg" [h, .num t, .num c, d] =>
        let h := Header.setLength l0 h
        let hb ← Header.bytes h
        let (db, d) ← UBuffer.marshalM d
        let bs ← fill l.toNat [pCopy hb, pU16 t, pU16 c, pCopy db]
        .ok (bs, .obj "ErrorMsg" [h, .num t, .num c, d])
      | _ => .panic)
  · intro v; rfl
  · intro v; exact (ErrorMsg.lenM_pure v).idem
  · intro l v1 bs v2 hl hE
    simp only [hl, Res.bind_ok] at hE
    split at hE
    · rename_i h t c d
      obtain ⟨hb, hhb, h3⟩ := bind_ok_inv _ _ _ hE
      obtain ⟨⟨db, d'⟩, hd, h4⟩ := bind_ok_inv _ _ _ h3
      obtain ⟨b, hf, h5⟩ := bind_ok_inv _ _ _ h4
      have e := UBuffer.marshalM_pure _ _ _ hd
      subst e
      cases h5
      have hl2 : ErrorMsg.lenM (.obj "ErrorMsg" [Header.setLength l h, .num t, .num c, d']) =
          .ok (l, .obj "ErrorMsg" [Header.setLength l h, .num t, .num c, d']) := by
        simp only [ErrorMsg.lenM] at hl ⊢
        obtain ⟨⟨lb, d2⟩, hd2, hl'⟩ := bind_ok_inv _ _ _ hl
        simp only [Res.pure_eq, Res.ok.injEq, Prod.mk.injEq, V.obj.injEq, List.cons.injEq, true_and, and_true] at hl'
        obtain ⟨e1, e2⟩ := hl'
        subst e1; subst e2
        simp only [hd2, Res.bind_ok, Res.pure_eq]
      refine ⟨hl2, ?_⟩
      simp only [hl2, Res.bind_ok, Header.setLength_idem, hhb, hd, hf]
    · exact absurd hE (by simp)

/-- …and it is no longer pure: encoding a fresh ErrorMsg changes its header's Length from 8 to 12 -/
theorem errorMsg_not_pure : ∃ v bs v2, ErrorMsg.marshalM v = .ok (bs, v2) ∧ v2 ≠ v :=
  ⟨ErrorMsg.new, _, _, rfl, by
    intro h
    simp only [ErrorMsg.new, msgOfpHeader, msgHdrType, newHeader, Header.setLength, V.u8, V.u16, V.u32, V.obj.injEq,
      List.cons.injEq, V.num.injEq, true_and, and_true] at h
    revert h; decide⟩

/-- VendorError (bundle error): MarshalBinary() stores the embedded header's `Length = Len()` -/
theorem vendorError_repeatable : ∀ v, Repeatable VendorError.lenM VendorError.marshalM v := by
  apply repeatable_of_lenThen VendorError.lenM
    (fun l0 v => do
      let (l, v) ← VendorError.lenM v
      match v with
      | .obj "VendorError" [.obj "ErrorMsg" [h, .num t, .num c, d], .num x] =>
        let h := Header.setLength l0 h
        let hb ← Header.bytes h
        let (db, d) ← UBuffer.marshalM d
        let bs ← fill l.toNat [pCopy hb, pU16 t, pU16 c, pU32 x, pCopy db]
        .ok (bs, .obj "VendorError" [.obj "ErrorMsg" [h, .num t, .num c, d], .num x])
      | _ => .panic)
  · intro v; rfl
  · intro v; exact (VendorError.lenM_pure v).idem
  · intro l v1 bs v2 hl hE
    simp only [hl, Res.bind_ok] at hE
    split at hE
    · rename_i h t c d x
      obtain ⟨hb, hhb, h3⟩ := bind_ok_inv _ _ _ hE
      obtain ⟨⟨db, d'⟩, hd, h4⟩ := bind_ok_inv _ _ _ h3
      obtain ⟨b, hf, h5⟩ := bind_ok_inv _ _ _ h4
      have e := UBuffer.marshalM_pure _ _ _ hd
      subst e
      cases h5
      have hl2 : VendorError.lenM (.obj "VendorError" [.obj "ErrorMsg" [Header.setLength l h, .num t, .num c, d'], .num x]) =
          .ok (l, .obj "VendorError" [.obj "ErrorMsg" [Header.setLength l h, .num t, .num c, d'], .num x]) := by
        simp only [VendorError.lenM, ErrorMsg.lenM] at hl ⊢
        obtain ⟨⟨le, e2⟩, he, hl'⟩ := bind_ok_inv _ _ _ hl
        obtain ⟨⟨lb, d2⟩, hd2, he'⟩ := bind_ok_inv _ _ _ he
        simp only [Res.pure_eq, Res.ok.injEq, Prod.mk.injEq] at he'
        obtain ⟨e3, e4⟩ := he'
        subst e3; subst e4
        simp only [Res.pure_eq, Res.ok.injEq, Prod.mk.injEq, V.obj.injEq, List.cons.injEq, true_and, and_true] at hl'
        obtain ⟨e5, e6⟩ := hl'
        subst e5; subst e6
        simp only [hd2, Res.bind_ok, Res.pure_eq]
      refine ⟨hl2, ?_⟩
      simp only [hl2, Res.bind_ok, Header.setLength_idem, hhb, hd, hf]
    · exact absurd hE (by simp)

/-- FlowRemoved: MarshalBinary() stores `Header.Length = Len()`; Len() itself changes nothing -/
theorem flowRemoved_repeatable : ∀ v, Repeatable FlowRemoved.lenM FlowRemoved.marshalM v := by
  apply repeatable_of_lenThen FlowRemoved.lenM
    (fun l0 v => do
      let (l, v) ← FlowRemoved.lenM v
      match v with
      | .obj "FlowRemoved" [h, .num ck, .num pr, .num rs, .num tid, .num ds, .num dn, .num it, .num ht, .num pc,
          .num bc, m] => do
        let h := Header.setLength l0 h
        let hb ← Header.bytes h
        let fixed := [pCopyAdv hb 8, pU64 ck, pU16 pr, pU8 rs, pU8 tid, pU32 ds, pU32 dn, pU16 it, pU16 ht,
          pU64 pc, pU64 bc]
        let _ ← fill l.toNat fixed
        let (mb, m) ← Match.marshalM m
        let (_, m) ← Match.lenM m
        let bs ← fill l.toNat (fixed ++ [pCopy mb])
        .ok (bs, .obj "FlowRemoved" [h, .num ck, .num pr, .num rs, .num tid, .num ds, .num dn, .num it, .num ht,
          .num pc, .num bc, m])
      | _ => .panic)
  · intro v; rfl
  · intro v; exact (FlowRemoved.lenM_pure v).idem
  · intro l v1 bs v2 hl hE
    simp only [hl, Res.bind_ok] at hE
    split at hE
    · rename_i h ck pr rs tid ds dn it ht pc bc m
      obtain ⟨hb, hhb, h3⟩ := bind_ok_inv _ _ _ hE
      obtain ⟨f0, hf0, h4⟩ := bind_ok_inv _ _ _ h3
      obtain ⟨⟨mb, m'⟩, hmm, h5⟩ := bind_ok_inv _ _ _ h4
      have e := Match.marshalM_pure _ _ _ hmm
      subst e
      obtain ⟨⟨lm, m''⟩, hml, h6⟩ := bind_ok_inv _ _ _ h5
      have e2 := Match.lenM_pure _ _ _ hml
      subst e2
      obtain ⟨b, hf, h7⟩ := bind_ok_inv _ _ _ h6
      cases h7
      have hl2 : FlowRemoved.lenM (.obj "FlowRemoved" [Header.setLength l h, .num ck, .num pr, .num rs, .num tid, .num ds, .num dn,
            .num it, .num ht, .num pc, .num bc, m'']) =
          .ok (l, .obj "FlowRemoved" [Header.setLength l h, .num ck, .num pr, .num rs, .num tid, .num ds, .num dn,
            .num it, .num ht, .num pc, .num bc, m'']) := by
        simp only [FlowRemoved.lenM] at hl ⊢
        obtain ⟨⟨lm2, m2⟩, hm2, hl'⟩ := bind_ok_inv _ _ _ hl
        simp only [Res.ok.injEq, Prod.mk.injEq, V.obj.injEq, List.cons.injEq, true_and, and_true] at hl'
        obtain ⟨e1, e3⟩ := hl'
        subst e1; subst e3
        simp only [hm2, Res.bind_ok]
      refine ⟨hl2, ?_⟩
      simp only [hl2, Res.bind_ok, Header.setLength_idem, hhb, hf0, hmm, hml, hf]
    · exact absurd hE (by simp)

end OFV.Props.C13
