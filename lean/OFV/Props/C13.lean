/-
  C13 — repeatability: "Sizing and encoding are repeatable and do not disturb the value: asking a completed value for
  its size, or encoding it, any number of times and in any order gives the same answer every time, and neither operation
  changes what a later encoding or decoding of the same value produces.  Containers may therefore size and embed the
  same child repeatedly."

  (a) `Pure2 K.lenM K.marshalM v` — neither Len() nor MarshalBinary() modifies the value (most kinds);
  (b) `Repeatable K.lenM K.marshalM v` (OFV/Lemmas/SizeRepeat.lean) for the kinds that DO store something in the
      receiver (header Length fields, Bucket.Length, NXActionCTNAT's rounding, NXActionResubmit.TableID …):
        lenIdem      Len(); Len()                       second call: same size, nothing changes any more
        marIdem      MarshalBinary(); MarshalBinary()   second call: same bytes, nothing changes any more
        lenAfterMar  Len() after MarshalBinary()        the size Len() gave before
        marAfterLen  MarshalBinary() after Len()        the bytes (and the value) MarshalBinary() alone gives
      Every pure kind is repeatable (`Pure2.repeatable`).  Together with C06/C06b (`SizeOK`): the size reported after
      encoding is the length of the bytes produced (`len_after_marshal_eq_length`).
  All statements hold for EVERY value of the kind — no well-formedness hypothesis; containers are proved from their
  children's repeatability.  No kind was found for which repeatability fails in the model.
-/
import OFV.Model.All
import OFV.Lemmas.Size
import OFV.Lemmas.SizeTac
import OFV.Lemmas.SizeNoErr
import OFV.Lemmas.SizeList
import OFV.Lemmas.SizeIdem
import OFV.Lemmas.SizeInstr
import OFV.Lemmas.SizeMsg
import OFV.Lemmas.SizeRepeat
import OFV.Props.C06
import OFV.Props.C06b
namespace OFV.Props.C13
open OFV OFV.Go OFV.Model InstrAux

/-! ### rounding -/

/-- rounding up to a multiple of 8 twice is rounding once — for EVERY uint16 n.  There is no overflow condition: when
    `n + 7` wraps (n > 65528) the first rounding already gives 0, and 0 rounds to 0. -/
theorem round8_idempotent (n : UInt16) : round8 (round8 n) = round8 n := round8_idem n

/-- what `round8` does: a multiple of 8; the least one ≥ n when n ≤ 65528, and 0 (NOT ≥ n) above -/
theorem round8_spec (n : UInt16) :
    (round8 n).toNat % 8 = 0 ∧ (n.toNat ≤ 65528 → n.toNat ≤ (round8 n).toNat ∧ (round8 n).toNat < n.toNat + 8) ∧
    (65528 < n.toNat → round8 n = 0) :=
  ⟨round8_aligned n, round8_ge n, round8_wrap n⟩

/-! ### general facts -/

/-- a pure kind is repeatable -/
theorem pure_repeatable {lenM marshalM v} (h : Pure2 lenM marshalM v) : Repeatable lenM marshalM v := h.repeatable

/-- repeatability + C06: after encoding, the value reports exactly the number of bytes that were produced, and a
    second encoding produces those same bytes -/
theorem len_after_marshal_eq_length {lenM marshalM v} (hr : Repeatable lenM marshalM v) (hs : SizeOK lenM marshalM v)
    (l : UInt16) (v1 : V) (bs : Bytes) (v2 : V) (h1 : lenM v = .ok (l, v1)) (h2 : marshalM v = .ok (bs, v2)) :
    lenM v2 = .ok (l, v2) ∧ l.toNat = bs.length ∧ marshalM v2 = .ok (bs, v2) :=
  ⟨hr.lenAfterMar l v1 bs v2 h1 h2, (hs l v1 bs v2 h1 h2).symm, hr.marIdem bs v2 h2⟩

/-! ### (a) kinds that store nothing: header, match payloads, MatchField, Match -/

/-- the OpenFlow header -/
theorem header_pure (v : V) : Pure2 Header.lenM Header.marshalM v :=
  ⟨fun _ _ h => (same_ok _ _ _ _ h).2, Header.marshalM_pure v⟩

/-- all 30 match payload kinds -/
theorem payload_pure (v : V) : Pure2 MatchPayload.lenM MatchPayload.marshalM v :=
  ⟨MatchPayload.lenM_pure v, MatchPayload.marshalM_pure v⟩

/-- MatchField, whatever value / mask it holds -/
theorem matchField_pure (v : V) : Pure2 MatchField.lenM MatchField.marshalM v :=
  ⟨MatchField.lenM_pure v, MatchField.marshalM_pure v⟩

/-- Match, whatever fields it holds -/
theorem match_pure (v : V) : Pure2 Match.lenM Match.marshalM v :=
  ⟨Match.lenM_pure v, Match.marshalM_pure v⟩

/-! ### (a) actions that store nothing -/

theorem actionHeader_pure (v : V) : Pure2 ActionHeader.lenM ActionHeader.marshalM v := ⟨ActionHeader.lenM_pure v, ActionHeader.marshalM_pure v⟩
theorem actionOutput_pure (v : V) : Pure2 ActionOutput.lenM ActionOutput.marshalM v := ⟨ActionOutput.lenM_pure v, ActionOutput.marshalM_pure v⟩
theorem actionSetqueue_pure (v : V) : Pure2 ActionSetqueue.lenM ActionSetqueue.marshalM v := ⟨ActionSetqueue.lenM_pure v, ActionSetqueue.marshalM_pure v⟩
theorem actionGroup_pure (v : V) : Pure2 ActionGroup.lenM ActionGroup.marshalM v := ⟨ActionGroup.lenM_pure v, ActionGroup.marshalM_pure v⟩
theorem actionMplsTtl_pure (v : V) : Pure2 ActionMplsTtl.lenM ActionMplsTtl.marshalM v := ⟨ActionMplsTtl.lenM_pure v, ActionMplsTtl.marshalM_pure v⟩
theorem actionNwTtl_pure (v : V) : Pure2 ActionNwTtl.lenM ActionNwTtl.marshalM v := ⟨ActionNwTtl.lenM_pure v, ActionNwTtl.marshalM_pure v⟩
theorem actionDecNwTtl_pure (v : V) : Pure2 ActionDecNwTtl.lenM ActionDecNwTtl.marshalM v := ⟨ActionDecNwTtl.lenM_pure v, ActionDecNwTtl.marshalM_pure v⟩
theorem actionPush_pure (v : V) : Pure2 ActionPush.lenM ActionPush.marshalM v := ⟨ActionPush.lenM_pure v, ActionPush.marshalM_pure v⟩
theorem actionPopVlan_pure (v : V) : Pure2 ActionPopVlan.lenM ActionPopVlan.marshalM v := ⟨ActionPopVlan.lenM_pure v, ActionPopVlan.marshalM_pure v⟩
theorem actionPopMpls_pure (v : V) : Pure2 ActionPopMpls.lenM ActionPopMpls.marshalM v := ⟨ActionPopMpls.lenM_pure v, ActionPopMpls.marshalM_pure v⟩
theorem actionSetField_pure (v : V) : Pure2 ActionSetField.lenM ActionSetField.marshalM v := ⟨ActionSetField.lenM_pure v, ActionSetField.marshalM_pure v⟩
theorem nxHeader_pure (v : V) : Pure2 NXActionHeader.lenM NXActionHeader.marshalM v := ⟨NXActionHeader.lenM_pure v, NXActionHeader.marshalM_pure v⟩
theorem nxConjunction_pure (v : V) : Pure2 NXActionConjunction.lenM NXActionConjunction.marshalM v := ⟨NXActionConjunction.lenM_pure v, NXActionConjunction.marshalM_pure v⟩
theorem nxRegLoad_pure (v : V) : Pure2 NXActionRegLoad.lenM NXActionRegLoad.marshalM v := ⟨NXActionRegLoad.lenM_pure v, NXActionRegLoad.marshalM_pure v⟩
theorem nxRegMove_pure (v : V) : Pure2 NXActionRegMove.lenM NXActionRegMove.marshalM v := ⟨NXActionRegMove.lenM_pure v, NXActionRegMove.marshalM_pure v⟩
theorem nxResubmitTable_pure (v : V) : Pure2 NXActionResubmitTable.lenM NXActionResubmitTable.marshalM v := ⟨NXActionResubmitTable.lenM_pure v, NXActionResubmitTable.marshalM_pure v⟩
theorem nxOutputReg_pure (v : V) : Pure2 NXActionOutputReg.lenM NXActionOutputReg.marshalM v := ⟨NXActionOutputReg.lenM_pure v, NXActionOutputReg.marshalM_pure v⟩
theorem nxCTClear_pure (v : V) : Pure2 NXActionCTClear.lenM NXActionCTClear.marshalM v := ⟨NXActionCTClear.lenM_pure v, NXActionCTClear.marshalM_pure v⟩
theorem nxDecTTL_pure (v : V) : Pure2 NXActionDecTTL.lenM NXActionDecTTL.marshalM v := ⟨NXActionDecTTL.lenM_pure v, NXActionDecTTL.marshalM_pure v⟩
theorem nxDecTTLCntIDs_pure (v : V) : Pure2 NXActionDecTTLCntIDs.lenM NXActionDecTTLCntIDs.marshalM v := ⟨NXActionDecTTLCntIDs.lenM_pure v, NXActionDecTTLCntIDs.marshalM_pure v⟩
theorem nxLearnSpecHeader_pure (v : V) : Pure2 NXLearnSpecHeader.lenM NXLearnSpecHeader.marshalM v := ⟨NXLearnSpecHeader.lenM_pure v, NXLearnSpecHeader.marshalM_pure v⟩
theorem nxLearnSpecField_pure (v : V) : Pure2 NXLearnSpecField.lenM NXLearnSpecField.marshalM v := ⟨NXLearnSpecField.lenM_pure v, NXLearnSpecField.marshalM_pure v⟩
theorem nxLearnSpec_pure (v : V) : Pure2 NXLearnSpec.lenM NXLearnSpec.marshalM v := ⟨NXLearnSpec.lenM_pure v, NXLearnSpec.marshalM_pure v⟩

/-! ### (b) actions that store something -/

/-- NXActionResubmit: MarshalBinary() stores `TableID = OFPTT_ALL` in the RECEIVER (not in the buffer), so it is not
    pure — but it is repeatable: the table id is never encoded, and storing it twice changes nothing -/
theorem nxResubmit_repeatable (v : V) : Repeatable NXActionResubmit.lenM NXActionResubmit.marshalM v := by
  have hlp := NXActionResubmit.lenM_pure v
  refine ⟨hlp.idem, ?_, ?_, ?_⟩
  · intro bs v2 h2
    unfold NXActionResubmit.marshalM at h2
    split at h2
    · obtain ⟨l, hl, h3⟩ := bind_ok_inv _ _ _ h2
      obtain ⟨hb, hhb, h4⟩ := bind_ok_inv _ _ _ h3
      obtain ⟨b, hf, h5⟩ := bind_ok_inv _ _ _ h4
      cases h5
      simp only [NXActionResubmit.marshalM, hl, hhb, hf, Res.bind_ok]
    · exact absurd h2 (by simp)
  · intro l v1 bs v2 h1 h2
    unfold NXActionResubmit.marshalM at h2
    split at h2
    · obtain ⟨l', hl, h3⟩ := bind_ok_inv _ _ _ h2
      obtain ⟨hb, hhb, h4⟩ := bind_ok_inv _ _ _ h3
      obtain ⟨b, hf, h5⟩ := bind_ok_inv _ _ _ h4
      cases h5
      simp only [NXActionResubmit.lenM] at h1 ⊢
      obtain ⟨l'', hl2, h1'⟩ := bind_ok_inv _ _ _ h1
      obtain ⟨rfl, _⟩ := same_ok _ _ _ _ h1'
      simp only [hl2, Res.bind_ok, same]
    · exact absurd h2 (by simp)
  · intro l v1 bs v2 h1 h2
    have := hlp l v1 h1
    subst this
    exact h2

theorem nxResubmit_not_pure : ∃ v bs v2, NXActionResubmit.marshalM v = .ok (bs, v2) ∧ v2 ≠ v :=
  ⟨.obj "NXActionResubmit" [NXActionHeader.newL Gen.openflow13.NXAST_RESUBMIT 16, .num 1, .num 0, .bytes (zeros 3)], _, _, rfl, by
    intro h
    simp only [V.obj.injEq, List.cons.injEq, V.num.injEq, true_and, and_true] at h
    revert h; decide⟩

/-- NXActionController: MarshalBinary() stores Length = 16 in the header -/
theorem nxController_repeatable (v : V) : Repeatable NXActionController.lenM NXActionController.marshalM v := by
  have hlp := NXActionController.lenM_pure v
  refine ⟨hlp.idem, ?_, ?_, ?_⟩
  · intro bs v2 h2
    unfold NXActionController.marshalM at h2
    split at h2
    · obtain ⟨h', hs, h3⟩ := bind_ok_inv _ _ _ h2
      obtain ⟨hb, hhb, h4⟩ := bind_ok_inv _ _ _ h3
      obtain ⟨b, hf, h5⟩ := bind_ok_inv _ _ _ h4
      cases h5
      simp only [NXActionController.marshalM, NXActionHeader.setLength_idem _ _ _ hs, hhb, hf, Res.bind_ok]
    · exact absurd h2 (by simp)
  · intro l v1 bs v2 h1 h2
    obtain ⟨rfl, _⟩ := same_ok _ _ _ _ h1
    rfl
  · intro l v1 bs v2 h1 h2
    have := hlp l v1 h1
    subst this
    exact h2

/-- NXActionNote: MarshalBinary() stores Length = Len() in the header -/
theorem nxNote_repeatable (v : V) : Repeatable NXActionNote.lenM NXActionNote.marshalM v := by
  have hlp := NXActionNote.lenM_pure v
  refine ⟨hlp.idem, ?_, ?_, ?_⟩
  · intro bs v2 h2
    unfold NXActionNote.marshalM at h2
    split at h2
    · obtain ⟨h', hs, h3⟩ := bind_ok_inv _ _ _ h2
      obtain ⟨hb, hhb, h4⟩ := bind_ok_inv _ _ _ h3
      obtain ⟨b, hf, h5⟩ := bind_ok_inv _ _ _ h4
      cases h5
      simp only [NXActionNote.marshalM, NXActionHeader.setLength_idem _ _ _ hs, hhb, hf, Res.bind_ok]
    · exact absurd h2 (by simp)
  · intro l v1 bs v2 h1 h2
    unfold NXActionNote.marshalM at h2
    split at h2
    · obtain ⟨h', hs, h3⟩ := bind_ok_inv _ _ _ h2
      obtain ⟨hb, hhb, h4⟩ := bind_ok_inv _ _ _ h3
      obtain ⟨b, hf, h5⟩ := bind_ok_inv _ _ _ h4
      cases h5
      simp only [NXActionNote.lenM] at h1 ⊢
      obtain ⟨rfl, _⟩ := same_ok _ _ _ _ h1
      rfl
    · exact absurd h2 (by simp)
  · intro l v1 bs v2 h1 h2
    have := hlp l v1 h1
    subst this
    exact h2

/-- NXActionRegLoad2: MarshalBinary() stores Length = Len() in the header -/
theorem nxRegLoad2_repeatable (v : V) : Repeatable NXActionRegLoad2.lenM NXActionRegLoad2.marshalM v := by
  have hlp := NXActionRegLoad2.lenM_pure v
  -- what one successful MarshalBinary() looks like
  have shape : ∀ bs v2, NXActionRegLoad2.marshalM v = .ok (bs, v2) →
      ∃ h f pad l h' hb fb, v = .obj "NXActionRegLoad2" [h, f, pad] ∧ NXActionRegLoad2.lenM v = .ok (l, v) ∧
        NXActionHeader.setLength l h = .ok h' ∧ NXActionHeader.bytes h' = .ok hb ∧ MatchField.marshalM f = .ok (fb, f) ∧
        fill l.toNat [pCopy hb, pCopy fb] = .ok bs ∧ v2 = .obj "NXActionRegLoad2" [h', f, pad] := by
    intro bs v2 h2
    unfold NXActionRegLoad2.marshalM at h2
    obtain ⟨⟨l0, va⟩, hl0, h3⟩ := bind_ok_inv _ _ _ h2
    have ea := hlp _ _ hl0
    subst ea
    obtain ⟨⟨l1, vb⟩, hl1, h4⟩ := bind_ok_inv _ _ _ h3
    have eb := hlp _ _ hl1
    subst eb
    rw [hl0] at hl1
    cases hl1
    simp only at h4
    split at h4
    · rename_i h f pad
      obtain ⟨h', hs, h5⟩ := bind_ok_inv _ _ _ h4
      obtain ⟨hb, hhb, h6⟩ := bind_ok_inv _ _ _ h5
      obtain ⟨⟨fb, f'⟩, hf, h7⟩ := bind_ok_inv _ _ _ h6
      obtain ⟨b, hfill, h8⟩ := bind_ok_inv _ _ _ h7
      have ef := MatchField.marshalM_pure _ _ _ hf
      subst ef
      cases h8
      exact ⟨h, _, pad, l0, h', hb, fb, rfl, hl0, hs, hhb, hf, hfill, rfl⟩
    · exact absurd h4 (by simp)
  -- Len() only looks at the field
  have lenOf : ∀ h h' f pad l, NXActionRegLoad2.lenM (.obj "NXActionRegLoad2" [h, f, pad]) = .ok (l, .obj "NXActionRegLoad2" [h, f, pad]) →
      NXActionRegLoad2.lenM (.obj "NXActionRegLoad2" [h', f, pad]) = .ok (l, .obj "NXActionRegLoad2" [h', f, pad]) := by
    intro h h' f pad l hl
    simp only [NXActionRegLoad2.lenM] at hl ⊢
    split at hl
    · exact absurd hl (by simp)
    · rename_i hnn
      obtain ⟨⟨fl, f'⟩, hfl, hl'⟩ := bind_ok_inv _ _ _ hl
      have ef := MatchField.lenM_pure _ _ _ hfl
      subst ef
      simp only [Res.ok.injEq, Prod.mk.injEq] at hl'
      simp only [hfl, Res.bind_ok, hl'.1]
  refine ⟨hlp.idem, ?_, ?_, ?_⟩
  · intro bs v2 h2
    obtain ⟨h, f, pad, l, h', hb, fb, rfl, hl, hs, hhb, hf, hfill, rfl⟩ := shape bs v2 h2
    have hl' := lenOf h h' f pad l hl
    simp only [NXActionRegLoad2.marshalM, hl', Res.bind_ok, NXActionHeader.setLength_idem _ _ _ hs, hhb, hf, hfill]
  · intro l v1 bs v2 h1 h2
    obtain ⟨h, f, pad, l', h', hb, fb, rfl, hl, hs, hhb, hf, hfill, rfl⟩ := shape bs v2 h2
    rw [hl] at h1
    cases h1
    exact lenOf h h' f pad _ hl
  · intro l v1 bs v2 h1 h2
    have := hlp l v1 h1
    subst this
    exact h2

/-- NXActionLearn: MarshalBinary() stores Length = Len() in the header (the specs are untouched) -/
theorem nxLearn_repeatable (v : V) : Repeatable NXActionLearn.lenM NXActionLearn.marshalM v := by
  have hlp := NXActionLearn.lenM_pure v
  refine ⟨hlp.idem, ?_, ?_, ?_⟩
  · intro bs v2 h2
    unfold NXActionLearn.marshalM at h2
    obtain ⟨l, hl, h3⟩ := bind_ok_inv _ _ _ h2
    split at h3
    · rename_i h idle hard prio cookie fl tid pad fi fh specs pad2
      obtain ⟨h', hs, h4⟩ := bind_ok_inv _ _ _ h3
      obtain ⟨hb, hhb, h5⟩ := bind_ok_inv _ _ _ h4
      obtain ⟨⟨sbs, sp'⟩, hsp, h6⟩ := bind_ok_inv _ _ _ h5
      obtain ⟨b, hf, h7⟩ := bind_ok_inv _ _ _ h6
      cases h7
      have hl' : NXActionLearn.len (.obj "NXActionLearn" [h', .num idle, .num hard, .num prio, .num cookie, .num fl,
          .num tid, pad, .num fi, .num fh, .list specs, pad2]) = .ok l := by
        simpa only [NXActionLearn.len] using hl
      simp only [NXActionLearn.marshalM, hl', Res.bind_ok, NXActionHeader.setLength_idem _ _ _ hs, hhb, hsp, hf]
    · exact absurd h3 (by simp)
  · intro l v1 bs v2 h1 h2
    unfold NXActionLearn.marshalM at h2
    obtain ⟨l', hl, h3⟩ := bind_ok_inv _ _ _ h2
    split at h3
    · rename_i h idle hard prio cookie fl tid pad fi fh specs pad2
      obtain ⟨h', hs, h4⟩ := bind_ok_inv _ _ _ h3
      obtain ⟨hb, hhb, h5⟩ := bind_ok_inv _ _ _ h4
      obtain ⟨⟨sbs, sp'⟩, hsp, h6⟩ := bind_ok_inv _ _ _ h5
      obtain ⟨b, hf, h7⟩ := bind_ok_inv _ _ _ h6
      cases h7
      unfold NXActionLearn.lenM at h1 ⊢
      obtain ⟨l2, hl2, h1'⟩ := bind_ok_inv _ _ _ h1
      obtain ⟨rfl, _⟩ := same_ok _ _ _ _ h1'
      have hl' : NXActionLearn.len (.obj "NXActionLearn" [h', .num idle, .num hard, .num prio, .num cookie, .num fl,
          .num tid, pad, .num fi, .num fh, .list specs, pad2]) = .ok l := by
        simpa only [NXActionLearn.len] using hl2
      simp only [hl', Res.bind_ok, same]
    · exact absurd h3 (by simp)
  · intro l v1 bs v2 h1 h2
    have := hlp l v1 h1
    subst this
    exact h2

/-- NXActionCTNAT: Len() rounds the STORED length up to 8 and stores it back; MarshalBinary() calls Len() first.
    Neither is pure, both are repeatable, in any order (`round8_idem`) — for every stored length, also one that wraps. -/
theorem nxCTNAT_repeatable (v : V) : Repeatable NXActionCTNAT.lenM NXActionCTNAT.marshalM v := by
  have hidem := NXActionCTNAT.lenM_idem
  -- MarshalBinary() leaves exactly what its leading Len() left
  have shape : ∀ w bs v2, NXActionCTNAT.marshalM w = .ok (bs, v2) → ∃ l, NXActionCTNAT.lenM w = .ok (l, v2) := by
    intro w bs v2 h2
    unfold NXActionCTNAT.marshalM at h2
    obtain ⟨⟨l, v'⟩, hl, h3⟩ := bind_ok_inv _ _ _ h2
    simp only at h3
    split at h3
    · obtain ⟨hb, _, h4⟩ := bind_ok_inv _ _ _ h3
      obtain ⟨pp, _, h5⟩ := bind_ok_inv _ _ _ h4
      obtain ⟨b, _, h6⟩ := bind_ok_inv _ _ _ h5
      cases h6
      exact ⟨l, hl⟩
    · exact absurd h3 (by simp)
  -- and only depends on it
  have after : ∀ w l w1, NXActionCTNAT.lenM w = .ok (l, w1) → NXActionCTNAT.marshalM w1 = NXActionCTNAT.marshalM w := by
    intro w l w1 hl
    have hl1 := hidem w l w1 hl
    unfold NXActionCTNAT.marshalM
    rw [hl, hl1]
  refine ⟨hidem v, ?_, ?_, ?_⟩
  · intro bs v2 h2
    obtain ⟨l, hl⟩ := shape v bs v2 h2
    rw [after v l v2 hl]; exact h2
  · intro l v1 bs v2 h1 h2
    obtain ⟨l', hl⟩ := shape v bs v2 h2
    rw [h1] at hl
    cases hl
    exact hidem v l v1 h1
  · intro l v1 bs v2 h1 h2
    rw [after v l v1 h1]; exact h2


/-- NXActionConnTrack, for ANY encoder `sub` of the nested actions that is itself idempotent on them:
    Len() is the stored length (pure); MarshalBinary() threads the nested actions' modifications -/
theorem nxConnTrack_repeatable (sub : V → R (Bytes × V)) (v : V)
    (hsub : ∀ a b a', sub a = .ok (b, a') → sub a' = .ok (b, a')) :
    Repeatable NXActionConnTrack.lenM (NXActionConnTrack.marshalWith sub) v := by
  have hlp := NXActionConnTrack.lenM_pure v
  refine ⟨hlp.idem, ?_, ?_, ?_⟩
  · intro bs v2 h2
    unfold NXActionConnTrack.marshalWith at h2
    split at h2
    · obtain ⟨l, hl, h3⟩ := bind_ok_inv _ _ _ h2
      obtain ⟨hb, hhb, h4⟩ := bind_ok_inv _ _ _ h3
      obtain ⟨buf, hf, h5⟩ := bind_ok_inv _ _ _ h4
      obtain ⟨⟨buf', acts'⟩, hacts, h6⟩ := bind_ok_inv _ _ _ h5
      cases h6
      have := NXActionConnTrack.marshalActs_idem sub _ _ _ _ _ (fun a _ => hsub a) hacts
      simp only [NXActionConnTrack.marshalWith, hl, hhb, hf, this, Res.bind_ok]
    · exact absurd h2 (by simp)
  · intro l v1 bs v2 h1 h2
    unfold NXActionConnTrack.marshalWith at h2
    split at h2
    · obtain ⟨l', hl, h3⟩ := bind_ok_inv _ _ _ h2
      obtain ⟨hb, hhb, h4⟩ := bind_ok_inv _ _ _ h3
      obtain ⟨buf, hf, h5⟩ := bind_ok_inv _ _ _ h4
      obtain ⟨⟨buf', acts'⟩, hacts, h6⟩ := bind_ok_inv _ _ _ h5
      cases h6
      simp only [NXActionConnTrack.lenM] at h1 ⊢
      obtain ⟨l'', hl2, h1'⟩ := bind_ok_inv _ _ _ h1
      obtain ⟨rfl, _⟩ := same_ok _ _ _ _ h1'
      simp only [hl2, Res.bind_ok, same]
    · exact absurd h2 (by simp)
  · intro l v1 bs v2 h1 h2
    have := hlp l v1 h1
    subst this
    exact h2

/-! ### the Action interface -/

theorem marshalLeaf_kind (v : V) (bs : Bytes) (v2 : V) (h : Action.marshalLeaf v = .ok (bs, v2)) : v2.kind = v.kind := by
  unfold Action.marshalLeaf at h
  split at h <;> rename_i hk
  all_goals first
    | (rw [hk]; exact NXActionCTNAT.marshalM_kind v bs v2 h)
    | exact NXActionResubmit.marshalM_kind v bs v2 h
    | exact NXActionController.marshalM_kind v bs v2 h
    | exact NXActionNote.marshalM_kind v bs v2 h
    | exact NXActionLearn.marshalM_kind v bs v2 h
    | exact NXActionRegLoad2.marshalM_kind v bs v2 h
    | (have e := ActionHeader.marshalM_pure v bs v2 h; rw [e])
    | (have e := ActionOutput.marshalM_pure v bs v2 h; rw [e])
    | (have e := ActionSetqueue.marshalM_pure v bs v2 h; rw [e])
    | (have e := ActionGroup.marshalM_pure v bs v2 h; rw [e])
    | (have e := ActionMplsTtl.marshalM_pure v bs v2 h; rw [e])
    | (have e := ActionNwTtl.marshalM_pure v bs v2 h; rw [e])
    | (have e := ActionDecNwTtl.marshalM_pure v bs v2 h; rw [e])
    | (have e := ActionPush.marshalM_pure v bs v2 h; rw [e])
    | (have e := ActionPopVlan.marshalM_pure v bs v2 h; rw [e])
    | (have e := ActionPopMpls.marshalM_pure v bs v2 h; rw [e])
    | (have e := ActionSetField.marshalM_pure v bs v2 h; rw [e])
    | (have e := NXActionHeader.marshalM_pure v bs v2 h; rw [e])
    | (have e := NXActionConjunction.marshalM_pure v bs v2 h; rw [e])
    | (have e := NXActionRegLoad.marshalM_pure v bs v2 h; rw [e])
    | (have e := NXActionRegMove.marshalM_pure v bs v2 h; rw [e])
    | (have e := NXActionResubmitTable.marshalM_pure v bs v2 h; rw [e])
    | (have e := NXActionOutputReg.marshalM_pure v bs v2 h; rw [e])
    | (have e := NXActionCTClear.marshalM_pure v bs v2 h; rw [e])
    | (have e := NXActionDecTTL.marshalM_pure v bs v2 h; rw [e])
    | (have e := NXActionDecTTLCntIDs.marshalM_pure v bs v2 h; rw [e])
    | exact absurd h (by simp)

/-- MarshalBinary() never changes the dynamic type of an action -/
theorem marshalD_kind (d : Nat) (v : V) (bs : Bytes) (v2 : V) (h : Action.marshalD d v = .ok (bs, v2)) : v2.kind = v.kind := by
  cases d with
  | zero => exact absurd h (by simp [Action.marshalD])
  | succ d =>
    unfold Action.marshalD at h
    split at h
    · exact NXActionConnTrack.marshalWith_kind _ v bs v2 h
    · exact marshalLeaf_kind v bs v2 h

/-- every action kind except conntrack, through the interface dispatch -/
theorem action_repeatable_leaf (v : V) : Repeatable Action.lenM Action.marshalLeaf v := by
  refine ⟨Action.lenM_idem v, ?_, ?_, ?_⟩
  · intro bs v2 h2
    have hkind := marshalLeaf_kind v bs v2 h2
    unfold Action.marshalLeaf at h2 ⊢
    split at h2 <;> rename_i hk
    all_goals first
      | (rw [hk] at hkind; simp only [hkind]
         first
          | exact (actionHeader_pure v).repeatable.marIdem bs v2 h2
          | exact (actionOutput_pure v).repeatable.marIdem bs v2 h2
          | exact (actionSetqueue_pure v).repeatable.marIdem bs v2 h2
          | exact (actionGroup_pure v).repeatable.marIdem bs v2 h2
          | exact (actionMplsTtl_pure v).repeatable.marIdem bs v2 h2
          | exact (actionNwTtl_pure v).repeatable.marIdem bs v2 h2
          | exact (actionDecNwTtl_pure v).repeatable.marIdem bs v2 h2
          | exact (actionPush_pure v).repeatable.marIdem bs v2 h2
          | exact (actionPopVlan_pure v).repeatable.marIdem bs v2 h2
          | exact (actionPopMpls_pure v).repeatable.marIdem bs v2 h2
          | exact (actionSetField_pure v).repeatable.marIdem bs v2 h2
          | exact (nxHeader_pure v).repeatable.marIdem bs v2 h2
          | exact (nxConjunction_pure v).repeatable.marIdem bs v2 h2
          | exact (nxRegLoad_pure v).repeatable.marIdem bs v2 h2
          | exact (nxRegMove_pure v).repeatable.marIdem bs v2 h2
          | exact (nxResubmit_repeatable v).marIdem bs v2 h2
          | exact (nxResubmitTable_pure v).repeatable.marIdem bs v2 h2
          | exact (nxCTNAT_repeatable v).marIdem bs v2 h2
          | exact (nxOutputReg_pure v).repeatable.marIdem bs v2 h2
          | exact (nxCTClear_pure v).repeatable.marIdem bs v2 h2
          | exact (nxDecTTL_pure v).repeatable.marIdem bs v2 h2
          | exact (nxDecTTLCntIDs_pure v).repeatable.marIdem bs v2 h2
          | exact (nxLearn_repeatable v).marIdem bs v2 h2
          | exact (nxNote_repeatable v).marIdem bs v2 h2
          | exact (nxRegLoad2_repeatable v).marIdem bs v2 h2
          | exact (nxController_repeatable v).marIdem bs v2 h2)
      | exact absurd h2 (by simp)
  · intro l v1 bs v2 h1 h2
    have hkind := marshalLeaf_kind v bs v2 h2
    unfold Action.lenM at h1 ⊢
    unfold Action.marshalLeaf at h2
    split at h1 <;> rename_i hk <;> simp only [hk] at h2
    all_goals first
      | (rw [hk] at hkind; simp only [hkind]
         first
          | exact (actionHeader_pure v).repeatable.lenAfterMar l v1 bs v2 h1 h2
          | exact (actionOutput_pure v).repeatable.lenAfterMar l v1 bs v2 h1 h2
          | exact (actionSetqueue_pure v).repeatable.lenAfterMar l v1 bs v2 h1 h2
          | exact (actionGroup_pure v).repeatable.lenAfterMar l v1 bs v2 h1 h2
          | exact (actionMplsTtl_pure v).repeatable.lenAfterMar l v1 bs v2 h1 h2
          | exact (actionNwTtl_pure v).repeatable.lenAfterMar l v1 bs v2 h1 h2
          | exact (actionDecNwTtl_pure v).repeatable.lenAfterMar l v1 bs v2 h1 h2
          | exact (actionPush_pure v).repeatable.lenAfterMar l v1 bs v2 h1 h2
          | exact (actionPopVlan_pure v).repeatable.lenAfterMar l v1 bs v2 h1 h2
          | exact (actionPopMpls_pure v).repeatable.lenAfterMar l v1 bs v2 h1 h2
          | exact (actionSetField_pure v).repeatable.lenAfterMar l v1 bs v2 h1 h2
          | exact (nxHeader_pure v).repeatable.lenAfterMar l v1 bs v2 h1 h2
          | exact (nxConjunction_pure v).repeatable.lenAfterMar l v1 bs v2 h1 h2
          | exact (nxRegLoad_pure v).repeatable.lenAfterMar l v1 bs v2 h1 h2
          | exact (nxRegMove_pure v).repeatable.lenAfterMar l v1 bs v2 h1 h2
          | exact (nxResubmit_repeatable v).lenAfterMar l v1 bs v2 h1 h2
          | exact (nxResubmitTable_pure v).repeatable.lenAfterMar l v1 bs v2 h1 h2
          | exact (nxCTNAT_repeatable v).lenAfterMar l v1 bs v2 h1 h2
          | exact (nxOutputReg_pure v).repeatable.lenAfterMar l v1 bs v2 h1 h2
          | exact (nxCTClear_pure v).repeatable.lenAfterMar l v1 bs v2 h1 h2
          | exact (nxDecTTL_pure v).repeatable.lenAfterMar l v1 bs v2 h1 h2
          | exact (nxDecTTLCntIDs_pure v).repeatable.lenAfterMar l v1 bs v2 h1 h2
          | exact (nxLearn_repeatable v).lenAfterMar l v1 bs v2 h1 h2
          | exact (nxNote_repeatable v).lenAfterMar l v1 bs v2 h1 h2
          | exact (nxRegLoad2_repeatable v).lenAfterMar l v1 bs v2 h1 h2
          | exact (nxController_repeatable v).lenAfterMar l v1 bs v2 h1 h2)
      | exact absurd h2 (by simp)
      | exact absurd h1 (by simp)
  · intro l v1 bs v2 h1 h2
    by_cases hk : v.kind = "NXActionCTNAT"
    · have hkind := Action.lenM_kind v l v1 h1
      rw [hk] at hkind
      unfold Action.lenM at h1
      unfold Action.marshalLeaf at h2 ⊢
      simp only [hk] at h1 h2
      simp only [hkind]
      exact (nxCTNAT_repeatable v).marAfterLen l v1 bs v2 h1 h2
    · have := Action.lenM_pure v hk l v1 h1
      subst this
      exact h2

theorem marshalD_succ_ct (d : Nat) (v : V) (hk : v.kind = "NXActionConnTrack") :
    Action.marshalD (d + 1) v = NXActionConnTrack.marshalWith (Action.marshalD d) v := by
  unfold Action.marshalD; simp only [hk, if_true]
theorem marshalD_succ_leaf (d : Nat) (v : V) (hk : v.kind ≠ "NXActionConnTrack") :
    Action.marshalD (d + 1) v = Action.marshalLeaf v := by
  rw [Action.marshalD]; simp only [hk, if_false]
theorem lenM_ct (v : V) (hk : v.kind = "NXActionConnTrack") : Action.lenM v = NXActionConnTrack.lenM v := by
  unfold Action.lenM; simp only [hk]

/-- Action.Len() / Action.MarshalBinary() through the interface are repeatable, in any order, for EVERY action value
    (any kind, any field values, conntrack actions nested to any depth) -/
theorem action_repeatableD : ∀ (d : Nat) (v : V), Repeatable Action.lenM (Action.marshalD d) v := by
  intro d
  induction d with
  | zero =>
    intro v
    refine ⟨Action.lenM_idem v, ?_, ?_, ?_⟩
    · intro bs v2 h2; exact absurd h2 (by simp [Action.marshalD])
    · intro l v1 bs v2 _ h2; exact absurd h2 (by simp [Action.marshalD])
    · intro l v1 bs v2 _ h2; exact absurd h2 (by simp [Action.marshalD])
  | succ d ih =>
    intro v
    by_cases hk : v.kind = "NXActionConnTrack"
    · have R := nxConnTrack_repeatable (Action.marshalD d) v (fun a b a' h => (ih a).marIdem b a' h)
      refine ⟨Action.lenM_idem v, ?_, ?_, ?_⟩
      · intro bs v2 h2
        have hk2 := marshalD_kind _ v bs v2 h2
        rw [hk] at hk2
        rw [marshalD_succ_ct d v hk] at h2
        rw [marshalD_succ_ct d v2 hk2]
        exact R.marIdem bs v2 h2
      · intro l v1 bs v2 h1 h2
        have hk2 := marshalD_kind _ v bs v2 h2
        rw [hk] at hk2
        rw [marshalD_succ_ct d v hk] at h2
        rw [lenM_ct v hk] at h1
        rw [lenM_ct v2 hk2]
        exact R.lenAfterMar l v1 bs v2 h1 h2
      · intro l v1 bs v2 h1 h2
        have hk1 := Action.lenM_kind v l v1 h1
        rw [hk] at hk1
        rw [marshalD_succ_ct d v hk] at h2
        rw [lenM_ct v hk] at h1
        rw [marshalD_succ_ct d v1 hk1]
        exact R.marAfterLen l v1 bs v2 h1 h2
    · have R := action_repeatable_leaf v
      refine ⟨Action.lenM_idem v, ?_, ?_, ?_⟩
      · intro bs v2 h2
        have hk2 := marshalD_kind _ v bs v2 h2
        rw [marshalD_succ_leaf d v hk] at h2
        rw [marshalD_succ_leaf d v2 (by rw [hk2]; exact hk)]
        exact R.marIdem bs v2 h2
      · intro l v1 bs v2 h1 h2
        rw [marshalD_succ_leaf d v hk] at h2
        exact R.lenAfterMar l v1 bs v2 h1 h2
      · intro l v1 bs v2 h1 h2
        have hk1 := Action.lenM_kind v l v1 h1
        rw [marshalD_succ_leaf d v hk] at h2
        rw [marshalD_succ_leaf d v1 (by rw [hk1]; exact hk)]
        exact R.marAfterLen l v1 bs v2 h1 h2

/-- the Action interface: repeatable for every action value -/
theorem action_repeatable (v : V) : Repeatable Action.lenM Action.marshalM v := action_repeatableD _ v

/-- NXActionConnTrack with the knot tied -/
theorem nxConnTrack_repeatable' (v : V) : Repeatable NXActionConnTrack.lenM NXActionConnTrack.marshalM v :=
  nxConnTrack_repeatable _ v (fun a b a' h => (action_repeatableD _ a).marIdem b a' h)


/-- what one successful run of the `append` loop over actions is: `mapM2` + concatenation, error flag false -/
theorem actions_loop (as : List V) (e : Bool) (bs : Bytes) (as2 : List V) (e' : Bool)
    (h : marshalList Action.marshalM as e = .ok (bs, as2, e')) :
    ∃ bss, mapM2 Action.marshalM as = .ok (bss, as2) ∧ bs = bss.flatten ∧ e' = (if as = [] then e else false) := by
  obtain ⟨bss, hm, rfl⟩ := marshalList_eq_mapM2 _ _ _ _ _ _ (fun x _ => Action.marshalM_noErr x) h
  exact ⟨bss, hm, rfl, marshalList_flag _ _ _ _ _ _ (fun x _ => Action.marshalM_noErr x) h⟩

/-! ### instructions -/

theorem instrHeader_pure (v : V) : Pure2 InstrHeader.lenM InstrHeader.marshalM v :=
  ⟨fun _ _ h => (same_ok _ _ _ _ h).2, InstrHeader.marshalM_pure v⟩
theorem instrGotoTable_pure (v : V) : Pure2 InstrGotoTable.lenM InstrGotoTable.marshalM v :=
  ⟨fun _ _ h => (same_ok _ _ _ _ h).2, InstrGotoTable.marshalM_pure v⟩
theorem instrWriteMetadata_pure (v : V) : Pure2 InstrWriteMetadata.lenM InstrWriteMetadata.marshalM v :=
  ⟨fun _ _ h => (same_ok _ _ _ _ h).2, InstrWriteMetadata.marshalM_pure v⟩
theorem instrMeter_pure (v : V) : Pure2 InstrMeter.lenM InstrMeter.marshalM v :=
  ⟨fun _ _ h => (same_ok _ _ _ _ h).2, InstrMeter.marshalM_pure v⟩

/-- InstrActions: whatever the actions store when sized or encoded stays inside the instruction, and sizing /
    encoding the instruction again — in any order — gives the same answers -/
theorem instrActions_repeatable (v : V) : Repeatable InstrActions.lenM InstrActions.marshalM v := by
  -- one successful MarshalBinary()
  have shape : ∀ w bs v2, InstrActions.marshalM w = .ok (bs, v2) →
      ∃ h pad as hb bss as2, w = .obj "InstrActions" [h, .bytes pad, .list as] ∧ InstrHeader.bytes h = .ok hb ∧
        mapM2 Action.marshalM as = .ok (bss, as2) ∧ bs = hb ++ makeCopy 4 pad ++ bss.flatten ∧
        v2 = .obj "InstrActions" [h, .bytes pad, .list as2] := by
    intro w bs v2 h2
    unfold InstrActions.marshalM at h2
    split at h2
    · rename_i h pad as
      obtain ⟨hb, hhb, h3⟩ := bind_ok_inv _ _ _ h2
      obtain ⟨⟨abs, as2, e⟩, hml, h4⟩ := bind_ok_inv _ _ _ h3
      obtain ⟨bss, hm, rfl, he⟩ := actions_loop _ _ _ _ _ hml
      simp only at h4
      split at h4
      · exact absurd h4 (by simp)
      · cases h4
        exact ⟨h, pad, as, hb, bss, as2, rfl, hhb, hm, rfl, rfl⟩
    · exact absurd h2 (by simp)
  -- and the converse
  have build : ∀ h pad as hb bss as2, InstrHeader.bytes h = .ok hb → mapM2 Action.marshalM as = .ok (bss, as2) →
      InstrActions.marshalM (.obj "InstrActions" [h, .bytes pad, .list as]) =
        .ok (hb ++ makeCopy 4 pad ++ bss.flatten, .obj "InstrActions" [h, .bytes pad, .list as2]) := by
    intro h pad as hb bss as2 hhb hm
    have := marshalList_of_mapM2 Action.marshalM as false bss as2 hm
    simp only [InstrActions.marshalM, hhb, this, Res.bind_ok]
    split <;> simp
  refine ⟨InstrActions.lenM_idem v, ?_, ?_, ?_⟩
  · intro bs v2 h2
    obtain ⟨h, pad, as, hb, bss, as2, rfl, hhb, hm, rfl, rfl⟩ := shape v bs v2 h2
    have hm2 := mapM2_idem Action.marshalM as bss as2 (fun x _ b z hx => (action_repeatable x).marIdem b z hx) hm
    exact build h pad as2 hb bss as2 hhb hm2
  · intro l v1 bs v2 h1 h2
    obtain ⟨h, pad, as, hb, bss, as2, rfl, hhb, hm, rfl, rfl⟩ := shape v bs v2 h2
    simp only [InstrActions.lenM] at h1 ⊢
    obtain ⟨⟨ls, as1⟩, hl, h1'⟩ := bind_ok_inv _ _ _ h1
    cases h1'
    have := mapM2_len_after_mar Action.lenM Action.marshalM as ls as1 bss as2 hl hm
      (fun x _ l y b z hx hy => (action_repeatable x).lenAfterMar l y b z hx hy)
    simp only [this, Res.bind_ok]
  · intro l v1 bs v2 h1 h2
    obtain ⟨h, pad, as, hb, bss, as2, rfl, hhb, hm, rfl, rfl⟩ := shape v bs v2 h2
    simp only [InstrActions.lenM] at h1
    obtain ⟨⟨ls, as1⟩, hl, h1'⟩ := bind_ok_inv _ _ _ h1
    cases h1'
    have := mapM2_mar_after_len Action.lenM Action.marshalM as ls as1 bss as2 hl hm
      (fun x _ l y b z hx hy => (action_repeatable x).marAfterLen l y b z hx hy)
    exact build h pad as1 hb bss as2 hhb this

theorem instrActions_marshal_kind (v : V) (bs : Bytes) (v2 : V) (h : InstrActions.marshalM v = .ok (bs, v2)) :
    v2.kind = "InstrActions" := by
  unfold InstrActions.marshalM at h
  split at h
  · obtain ⟨hb, hhb, h3⟩ := bind_ok_inv _ _ _ h
    obtain ⟨⟨abs, as2, e⟩, hml, h4⟩ := bind_ok_inv _ _ _ h3
    simp only at h4
    split at h4
    · exact absurd h4 (by simp)
    · cases h4; rfl
  · exact absurd h (by simp)

/-- the Instruction interface: repeatable for every instruction value -/
theorem instruction_repeatable (v : V) : Repeatable Instruction.lenM Instruction.marshalM v := by
  refine ⟨Instruction.lenM_idem v, ?_, ?_, ?_⟩
  · intro bs v2 h2
    unfold Instruction.marshalM at h2
    split at h2 <;> rename_i hk
    · have := InstrGotoTable.marshalM_pure v bs v2 h2; subst this; unfold Instruction.marshalM; simp only [hk]; exact h2
    · have := InstrWriteMetadata.marshalM_pure v bs v2 h2; subst this; unfold Instruction.marshalM; simp only [hk]; exact h2
    · have hk2 := instrActions_marshal_kind v bs v2 h2
      unfold Instruction.marshalM; simp only [hk2]
      exact (instrActions_repeatable v).marIdem bs v2 h2
    · have := InstrMeter.marshalM_pure v bs v2 h2; subst this; unfold Instruction.marshalM; simp only [hk]; exact h2
    · exact absurd h2 (by simp)
  · intro l v1 bs v2 h1 h2
    unfold Instruction.marshalM at h2
    unfold Instruction.lenM at h1
    split at h1 <;> rename_i hk <;> simp only [hk] at h2
    · have := InstrGotoTable.marshalM_pure v bs v2 h2; subst this
      obtain ⟨_, e⟩ := same_ok _ _ _ _ h1; subst e
      unfold Instruction.lenM; simp only [hk]; exact h1
    · have := InstrWriteMetadata.marshalM_pure v bs v2 h2; subst this
      obtain ⟨_, e⟩ := same_ok _ _ _ _ h1; subst e
      unfold Instruction.lenM; simp only [hk]; exact h1
    · have hk2 := instrActions_marshal_kind v bs v2 h2
      unfold Instruction.lenM; simp only [hk2]
      exact (instrActions_repeatable v).lenAfterMar l v1 bs v2 h1 h2
    · have := InstrMeter.marshalM_pure v bs v2 h2; subst this
      obtain ⟨_, e⟩ := same_ok _ _ _ _ h1; subst e
      unfold Instruction.lenM; simp only [hk]; exact h1
    · exact absurd h1 (by simp)
  · intro l v1 bs v2 h1 h2
    unfold Instruction.marshalM at h2
    unfold Instruction.lenM at h1
    split at h1 <;> rename_i hk <;> simp only [hk] at h2
    · obtain ⟨_, e⟩ := same_ok _ _ _ _ h1; subst e
      unfold Instruction.marshalM; simp only [hk]; exact h2
    · obtain ⟨_, e⟩ := same_ok _ _ _ _ h1; subst e
      unfold Instruction.marshalM; simp only [hk]; exact h2
    · have hk1 := InstrActions.lenM_kind v l v1 h1
      unfold Instruction.marshalM; simp only [hk1]
      exact (instrActions_repeatable v).marAfterLen l v1 bs v2 h1 h2
    · obtain ⟨_, e⟩ := same_ok _ _ _ _ h1; subst e
      unfold Instruction.marshalM; simp only [hk]; exact h2
    · exact absurd h1 (by simp)


end OFV.Props.C13
