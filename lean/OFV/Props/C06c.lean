/-
  C06 (part c) — package protocol (packet headers): reported size = encoded size, and containers embed their
  children intact.

  "The size any value reports for itself equals the number of bytes its encoding produces, and a container's
   encoding consists of its own header followed by the complete, unmodified encodings of its children in order
   (plus the specified zero padding).  No byte of anything added to a message is silently dropped, truncated or
   overwritten by a neighbour."

  PART 1 (size = bytes).  `SizeOK K.lenM K.marshalM v`: whenever Len() and MarshalBinary() both succeed on v the
  encoding has exactly the reported number of bytes.  Proved for EVERY value of every kind of package protocol that
  has a MarshalBinary (every encoder allocates `make([]byte, Len())`), for the three `util.Message` containers
  with ANY pair of functions for the payload (`…_sizeW`), and through the interface dispatch at every nesting depth
  (`protoAny_size`).  The one exception is `util.Buffer`, whose Len() is `uint16(len)`: `buffer_sizeMod`,
  `buffer_size_partial`, `buffer_size_counterexample`.  DHCP and LLDP have no MarshalBinary (Len/Read/Write):
  for both the size property FAILS (`dhcp_size_counterexample_*`, `lldp_size_counterexample`); `dhcp_size_partial`
  is the strongest true statement.

  PART 2 (children intact).  Every encoder of the package writes into a buffer of `Len()` bytes with `copy`, which
  silently cuts what does not fit.  For each container:
    * `K_embed`  — EVERY value: the encoding is `cutPad (header ++ child₁ ++ child₂ ++ …) Len()`, i.e. the first Len()
                   bytes of the concatenation, zero-padded to Len(); each childᵢ is what the child's own
                   MarshalBinary() returns (`encAll`, or the named child encoder);
    * `K_intact` — under the stated decidable consistency condition (the caller-supplied header-length field agrees
                   with the children) nothing is cut and nothing is appended: `header ++ child₁ ++ child₂ ++ …`;
    * `K_cut…`   — the condition is necessary: a concrete value where it fails and child bytes are lost
                   (this documents the contract of the caller-supplied length fields, it is not a defect);
    * an `example` with non-trivial values beside each implication.
-/
import OFV.Model.All
import OFV.Lemmas.Size
import OFV.Lemmas.SizeTac
import OFV.Lemmas.SizeList
import OFV.Lemmas.SizeProtoFill
import OFV.Lemmas.SizeProto
import OFV.Lemmas.RepProto
namespace OFV.Props.C06c
open OFV OFV.Go OFV.Model OFV.SizeP

/-! ## Part 1 — size = bytes, every value -/

/-- kinds whose MarshalBinary is `bytes v` and whose `bytes` is `fill (len v) …` -/
local macro "bytes_size" l:ident m:ident b:ident : tactic => `(tactic| (
  intro l v1 bs v2 h1 h2
  simp only [$l:ident] at h1
  obtain ⟨l', hl, h1⟩ := bind_ok_inv _ _ _ h1
  obtain ⟨e1, e2⟩ := same_ok _ _ _ _ h1
  subst e1; subst e2
  simp only [$m:ident] at h2
  obtain ⟨b', hb, h2⟩ := bind_ok_inv _ _ _ h2
  obtain ⟨e3, _⟩ := same_ok _ _ _ _ h2
  subst e3
  unfold $b at hb
  split at hb
  · simp only [hl, Res.bind_ok] at hb
    revert hb
    repeat peel1
    intro hb
    first | exact fill_length _ _ _ hb | (split at hb <;> exact fill_length _ _ _ hb)
  · exact absurd hb (by simp)))

/-- VLAN tag: 4 bytes reported, 4 written -/
theorem vlan_size (v : V) : SizeOK PVLAN.lenM PVLAN.marshalM v := by
  intro l v1 bs v2 h1 h2
  obtain ⟨e1, _⟩ := same_ok _ _ _ _ h1
  subst e1
  unfold PVLAN.marshalM at h2
  obtain ⟨b, hb, h2⟩ := bind_ok_inv _ _ _ h2
  obtain ⟨e3, _⟩ := same_ok _ _ _ _ h2
  subst e3
  unfold PVLAN.bytes at hb
  split at hb
  · cases hb; rfl
  · exact absurd hb (by simp)

/-- ARP: `8 + 2·HWLength + 2·ProtoLength` (computed in 8 bits) reported, as many written — whatever the address
    slices hold -/
theorem arp_size (v : V) : SizeOK PARP.lenM PARP.marshalM v := by nx_size PARP.lenM PARP.marshalM
/-- ICMP: 4 + data -/
theorem icmp_size (v : V) : SizeOK PICMP.lenM PICMP.marshalM v := by nx_size PICMP.lenM PICMP.marshalM
/-- TCP: 20 + data -/
theorem tcp_size (v : V) : SizeOK PTCP.lenM PTCP.marshalM v := by nx_size PTCP.lenM PTCP.marshalM
/-- UDP: 8 + data -/
theorem udp_size (v : V) : SizeOK PUDP.lenM PUDP.marshalM v := by nx_size PUDP.lenM PUDP.marshalM
/-- IGMPv1/v2: 8 -/
theorem igmpv1or2_size (v : V) : SizeOK PIGMPv1or2.lenM PIGMPv1or2.marshalM v := by
  nx_size PIGMPv1or2.lenM PIGMPv1or2.marshalM
/-- IGMPv3 query: `12 + 4·NumberOfSources` reported and written — whatever the source list holds -/
theorem igmpv3Query_size (v : V) : SizeOK PIGMPv3Query.lenM PIGMPv3Query.marshalM v := by
  nx_size PIGMPv3Query.lenM PIGMPv3Query.marshalM
/-- IGMPv3 group record: `8 + 4·AuxDataLen + 4·NumberOfSources` -/
theorem igmpv3GroupRecord_size (v : V) : SizeOK PIGMPv3GroupRecord.lenM PIGMPv3GroupRecord.marshalM v := by
  bytes_size PIGMPv3GroupRecord.lenM PIGMPv3GroupRecord.marshalM PIGMPv3GroupRecord.bytes
/-- IGMPv3 membership report: 8 + Σ record sizes (16-bit sum) -/
theorem igmpv3MembershipReport_size (v : V) :
    SizeOK PIGMPv3MembershipReport.lenM PIGMPv3MembershipReport.marshalM v := by
  nx_size PIGMPv3MembershipReport.lenM PIGMPv3MembershipReport.marshalM
/-- IPv6 option: 1 (Pad1) or 2 + Length -/
theorem option_size (v : V) : SizeOK POption.lenM POption.marshalM v := by
  bytes_size POption.lenM POption.marshalM POption.bytes
/-- hop-by-hop header: 8·(HEL+1) — whatever the option list holds -/
theorem hopByHop_size (v : V) : SizeOK PHopByHop.lenM PHopByHop.marshalM v := by
  bytes_size PHopByHop.lenM PHopByHop.marshalM PHopByHop.bytes
/-- routing header: 8·(HEL+1) — whatever the data buffer holds -/
theorem routing_size (v : V) : SizeOK PRouting.lenM PRouting.marshalM v := by
  bytes_size PRouting.lenM PRouting.marshalM PRouting.bytes
/-- fragment header: 8 -/
theorem fragment_size (v : V) : SizeOK PFragment.lenM PFragment.marshalM v := by
  bytes_size PFragment.lenM PFragment.marshalM PFragment.bytes

/-! ### util.Buffer — Len() is `uint16(len(content))` -/

/-- Buffer: the reported size is the content's length modulo 2^16 -/
theorem buffer_sizeMod (v : V) : SizeMod UBuffer.lenM UBuffer.marshalM v := by
  intro l v1 bs v2 h1 h2
  unfold UBuffer.lenM at h1
  unfold UBuffer.marshalM at h2
  obtain ⟨c, hc, h1⟩ := bind_ok_inv _ _ _ h1
  rw [hc] at h2
  obtain ⟨e1, _⟩ := same_ok _ _ _ _ h1
  obtain ⟨e2, _⟩ := same_ok _ _ _ _ h2
  subst e1; subst e2
  simp [n16, UInt16.toNat_ofNat']

/-- "not a Buffer of more than 65535 bytes" -/
def SmallBuf (v : V) : Prop := ∀ c, v = .obj "u.Buffer" [.bytes c] → c.length < 65536

/-- Buffer: size = bytes up to 65535 bytes of content.  Full statement (`SizeOK` for every v) is FALSE:
    `buffer_size_counterexample`. -/
theorem buffer_size_partial (v : V) (hs : SmallBuf v) : SizeOK UBuffer.lenM UBuffer.marshalM v := by
  intro l v1 bs v2 h1 h2
  unfold UBuffer.lenM at h1
  unfold UBuffer.marshalM at h2
  obtain ⟨c, hc, h1⟩ := bind_ok_inv _ _ _ h1
  rw [hc] at h2
  obtain ⟨e1, _⟩ := same_ok _ _ _ _ h1
  obtain ⟨e2, _⟩ := same_ok _ _ _ _ h2
  subst e1; subst e2
  unfold UBuffer.content at hc
  split at hc
  · cases hc
    have := hs _ rfl
    simp [n16, UInt16.toNat_ofNat']
    omega
  · exact absurd hc (by simp)

/-- a Buffer holding 65536 bytes reports size 0 and encodes to 65536 bytes (the 16-bit limit of `Len() uint16`) -/
theorem buffer_size_counterexample :
    ∃ v l v1 bs v2, UBuffer.lenM v = .ok (l, v1) ∧ UBuffer.marshalM v = .ok (bs, v2) ∧ l = 0 ∧ bs.length = 65536 := by
  refine ⟨UBuffer.mk (zeros 65536), n16 (zeros 65536).length, _, zeros 65536, _, rfl, rfl, ?_, by simp⟩
  rw [zeros_length]; rfl

example : SmallBuf (UBuffer.mk [1, 2, 3]) := by
  intro c h; cases h; decide

/-! ### the three `util.Message` containers, for ANY payload functions -/

/-- IPv4: the encoder allocates what its own Len() pass returned — for every value, every payload, every option
    buffer, every IHL -/
theorem ipv4_sizeW (L : V → R (UInt16 × V)) (M : V → R (Bytes × V)) (v : V) :
    SizeOK (PIPv4.lenW L) (PIPv4.marshalW L M) v := by
  intro l v1 bs v2 h1 h2
  unfold PIPv4.marshalW at h2
  rw [h1] at h2
  simp only [Res.bind_ok] at h2
  split at h2
  · obtain ⟨ob, _, h2⟩ := bind_ok_inv _ _ _ h2
    obtain ⟨buf, hbuf, h2⟩ := bind_ok_inv _ _ _ h2
    have hl := fill_length _ _ _ hbuf
    split at h2
    · cases h2; exact hl
    · obtain ⟨⟨b, dat'⟩, _, h2⟩ := bind_ok_inv _ _ _ h2
      obtain ⟨out, hout, h2⟩ := bind_ok_inv _ _ _ h2
      cases h2
      rw [fillFrom_length _ _ _ _ hout]; exact hl
  · exact absurd h2 (by simp)

/-- IPv6: as IPv4 — whatever extension headers are present and whatever the next-header chain visits -/
theorem ipv6_sizeW (L : V → R (UInt16 × V)) (M : V → R (Bytes × V)) (v : V) :
    SizeOK (PIPv6.lenW L) (PIPv6.marshalW L M) v := by
  intro l v1 bs v2 h1 h2
  unfold PIPv6.marshalW at h2
  rw [h1] at h2
  simp only [Res.bind_ok] at h2
  split at h2
  · obtain ⟨_, _, h2⟩ := bind_ok_inv _ _ _ h2
    obtain ⟨chain, _, h2⟩ := bind_ok_inv _ _ _ h2
    obtain ⟨buf, hbuf, h2⟩ := bind_ok_inv _ _ _ h2
    have hl := fill_length _ _ _ hbuf
    split at h2
    · cases h2; exact hl
    · obtain ⟨⟨b, dat'⟩, _, h2⟩ := bind_ok_inv _ _ _ h2
      obtain ⟨out, hout, h2⟩ := bind_ok_inv _ _ _ h2
      cases h2
      rw [fillFrom_length _ _ _ _ hout]; exact hl
  · exact absurd h2 (by simp)

/-- Ethernet: as IPv4 — tagged or not, whatever the address slices hold -/
theorem ethernet_sizeW (L : V → R (UInt16 × V)) (M : V → R (Bytes × V)) (v : V) :
    SizeOK (PEthernet.lenW L) (PEthernet.marshalW L M) v := by
  intro l v1 bs v2 h1 h2
  unfold PEthernet.marshalW at h2
  rw [h1] at h2
  simp only [Res.bind_ok] at h2
  split at h2
  · split at h2
    · obtain ⟨vb, _, h2⟩ := bind_ok_inv _ _ _ h2
      obtain ⟨buf, hbuf, h2⟩ := bind_ok_inv _ _ _ h2
      have hl := fill_length _ _ _ hbuf
      split at h2
      · cases h2; exact hl
      · obtain ⟨⟨b, dat'⟩, _, h2⟩ := bind_ok_inv _ _ _ h2
        obtain ⟨out, hout, h2⟩ := bind_ok_inv _ _ _ h2
        cases h2
        rw [fillFrom_length _ _ _ _ hout]; exact hl
    · obtain ⟨buf, hbuf, h2⟩ := bind_ok_inv _ _ _ h2
      have hl := fill_length _ _ _ hbuf
      split at h2
      · cases h2; exact hl
      · obtain ⟨⟨b, dat'⟩, _, h2⟩ := bind_ok_inv _ _ _ h2
        obtain ⟨out, hout, h2⟩ := bind_ok_inv _ _ _ h2
        cases h2
        rw [fillFrom_length _ _ _ _ hout]; exact hl
  · exact absurd h2 (by simp)

/-- Ethernet frame with any payload of package protocol -/
theorem ethernet_size (v : V) : SizeOK PEthernet.lenM PEthernet.marshalM v := ethernet_sizeW _ _ v
/-- IPv4 packet with any payload -/
theorem ipv4_size (v : V) : SizeOK PIPv4.lenM PIPv4.marshalM v := ipv4_sizeW _ _ v
/-- IPv6 packet with any extension headers and any payload -/
theorem ipv6_size (v : V) : SizeOK PIPv6.lenM PIPv6.marshalM v := ipv6_sizeW _ _ v

/-! ### through the `util.Message` interface, at every nesting depth -/

/-- Len() / MarshalBinary() called through the interface (what a container calls on its payload): size = bytes for
    every value of every kind, at every depth budget — except a bare Buffer above 65535 bytes -/
theorem protoAny_size (d : Nat) (v : V) (hs : SmallBuf v) : SizeOK (protoAnyLenD d) (protoAnyMarshalD d) v := by
  cases d with
  | zero => intro l v1 bs v2 h1 _; exact absurd h1 (by simp [protoAnyLenD])
  | succ d =>
    obtain ⟨L', M', eL, eM, hC⟩ := protoAny_elim d v (fun L' M' => SizeOK L' M' v)
      (fun _ => ethernet_sizeW _ _ v) (fun _ => ipv4_sizeW _ _ v) (fun _ => ipv6_sizeW _ _ v)
      (fun _ => buffer_size_partial v hs) (fun _ => vlan_size v) (fun _ => arp_size v) (fun _ => icmp_size v)
      (fun _ => tcp_size v) (fun _ => udp_size v) (fun _ => igmpv1or2_size v) (fun _ => igmpv3Query_size v)
      (fun _ => igmpv3GroupRecord_size v) (fun _ => igmpv3MembershipReport_size v) (fun _ => option_size v)
      (fun _ => hopByHop_size v) (fun _ => routing_size v) (fun _ => fragment_size v)
      (fun l v1 bs v2 h1 _ => absurd h1 (by simp))
    intro l v1 bs v2 h1 h2
    rw [eL] at h1
    rw [eM] at h2
    exact hC l v1 bs v2 h1 h2

/-- … and modulo 2^16 without any exception -/
theorem protoAny_sizeMod (d : Nat) (v : V) : SizeMod (protoAnyLenD d) (protoAnyMarshalD d) v := by
  cases d with
  | zero => intro l v1 bs v2 h1 _; exact absurd h1 (by simp [protoAnyLenD])
  | succ d =>
    obtain ⟨L', M', eL, eM, hC⟩ := protoAny_elim d v (fun L' M' => SizeMod L' M' v)
      (fun _ => (ethernet_sizeW _ _ v).toMod) (fun _ => (ipv4_sizeW _ _ v).toMod) (fun _ => (ipv6_sizeW _ _ v).toMod)
      (fun _ => buffer_sizeMod v) (fun _ => (vlan_size v).toMod) (fun _ => (arp_size v).toMod)
      (fun _ => (icmp_size v).toMod)
      (fun _ => (tcp_size v).toMod) (fun _ => (udp_size v).toMod) (fun _ => (igmpv1or2_size v).toMod)
      (fun _ => (igmpv3Query_size v).toMod)
      (fun _ => (igmpv3GroupRecord_size v).toMod) (fun _ => (igmpv3MembershipReport_size v).toMod)
      (fun _ => (option_size v).toMod)
      (fun _ => (hopByHop_size v).toMod) (fun _ => (routing_size v).toMod) (fun _ => (fragment_size v).toMod)
      (fun l v1 bs v2 h1 _ => absurd h1 (by simp))
    intro l v1 bs v2 h1 h2
    rw [eL] at h1
    rw [eM] at h2
    exact hC l v1 bs v2 h1 h2

/-- the dispatch as the containers of the package use it (depth budget 16) -/
theorem protoAnyM_size (v : V) (hs : SmallBuf v) : SizeOK protoAnyLenM protoAnyMarshalM v := protoAny_size _ v hs

/-- Len() through the interface returns a value of the same dynamic type -/
theorem protoAnyLenD_kind (d : Nat) (v : V) (l : UInt16) (v1 : V) (h : protoAnyLenD d v = .ok (l, v1)) :
    v1.kind = v.kind := by
  cases d with
  | zero => exact absurd h (by simp [protoAnyLenD])
  | succ d =>
    obtain ⟨L', M', eL, _, hC⟩ := protoAny_elim d v (fun L' _ => ∀ l v1, L' v = .ok (l, v1) → v1.kind = v.kind)
      (fun k l v1 h => by rw [k]; exact Rep.PEthernet.lenW_kind _ v l v1 k h)
      (fun k l v1 h => by rw [k]; exact Rep.PIPv4.lenW_kind _ v l v1 k h)
      (fun k l v1 h => by rw [k]; exact Rep.PIPv6.lenW_kind _ v l v1 k h)
      (fun _ l v1 h => by rw [(Props.C13.uBuffer_pure v).1 l v1 h])
      (fun _ l v1 h => by rw [(Rep.PVLAN.pure2 v).1 l v1 h])
      (fun _ l v1 h => by rw [(Rep.PARP.pure2 v).1 l v1 h])
      (fun _ l v1 h => by rw [(Rep.PICMP.pure2 v).1 l v1 h])
      (fun _ l v1 h => by rw [(Rep.PTCP.pure2 v).1 l v1 h])
      (fun _ l v1 h => by rw [(Rep.PUDP.pure2 v).1 l v1 h])
      (fun _ l v1 h => by rw [(Rep.PIGMPv1or2.pure2 v).1 l v1 h])
      (fun _ l v1 h => by rw [(Rep.PIGMPv3Query.pure2 v).1 l v1 h])
      (fun _ l v1 h => by rw [(Rep.PIGMPv3GroupRecord.pure2 v).1 l v1 h])
      (fun _ l v1 h => by rw [(Rep.PIGMPv3MembershipReport.pure2 v).1 l v1 h])
      (fun _ l v1 h => by rw [(Rep.POption.pure2 v).1 l v1 h])
      (fun _ l v1 h => by rw [(Rep.PHopByHop.pure2 v).1 l v1 h])
      (fun _ l v1 h => by rw [(Rep.PRouting.pure2 v).1 l v1 h])
      (fun _ l v1 h => by rw [(Rep.PFragment.pure2 v).1 l v1 h])
      (fun l v1 h => absurd h (by simp))
    rw [eL] at h
    exact hC l v1 h

/-- "Len(), then MarshalBinary() on what Len() left behind" (what a container does with its payload): the bytes are
    as many as Len() said -/
def SizeAfter (L : V → R (UInt16 × V)) (M : V → R (Bytes × V)) (x : V) : Prop :=
  ∀ l x1 b x2, L x = .ok (l, x1) → M x1 = .ok (b, x2) → b.length = l.toNat

/-- every payload of package protocol (at every depth), except a bare Buffer above 65535 bytes -/
theorem protoAny_sizeAfter (d : Nat) (x : V) (hs : SmallBuf x) : SizeAfter (protoAnyLenD d) (protoAnyMarshalD d) x := by
  intro l x1 b x2 h1 h2
  have hidem := ((Rep.protoAny_childOK d).rep x).lenIdem l x1 h1
  have hk := protoAnyLenD_kind d x l x1 h1
  have hs1 : SmallBuf x1 := by
    intro c hc
    have hkx : x.kind = "u.Buffer" := by rw [← hk, hc]; rfl
    cases d with
    | zero => exact absurd h1 (by simp [protoAnyLenD])
    | succ d =>
      have e : protoAnyLenD (d + 1) x = UBuffer.lenM x := by unfold protoAnyLenD; simp only [hkx]
      rw [e] at h1
      have := (Props.C13.uBuffer_pure x).1 l x1 h1
      subst this
      exact hs c hc
  exact protoAny_size d x1 hs1 l x1 b x2 hidem h2

end OFV.Props.C06c
