/-
  C06 (part c) — package protocol (packet headers): reported size = encoded size, and containers embed their
  children intact.

  "The size any value reports for itself equals the number of bytes its encoding produces, and a container's
   encoding consists of its own header followed by the complete, unmodified encodings of its children in order
   (plus the specified zero padding).  No byte of anything added to a message is silently dropped, truncated or
   overwritten by a neighbour."

  PART 1 (size = bytes).  `SizeOK K.lenM K.marshalM v`: whenever Len() and MarshalBinary() both succeed on v the
  encoding has exactly the reported number of bytes.  Proved for EVERY value of every kind of package protocol that
  has a MarshalBinary (every encoder allocates `make([]byte, Len())`), for the three `util.Message` containers
  with ANY pair of functions for the payload (`…_sizeW`), and through the interface dispatch at every nesting depth
  (`protoAny_size`).  The one exception is `util.Buffer`, whose Len() is `uint16(len)`: `buffer_sizeMod`,
  `buffer_size_partial`, `buffer_size_counterexample`.  DHCP and LLDP have no MarshalBinary (Len/Read/Write):
  for both, Len() is the number of bytes Read produces — for EVERY value on which both succeed, modulo 2^16
  (`dhcp_size`, `lldp_size_mod`), hence exactly below 64 KiB (`dhcp_size_exact`, `dhcp_read_all`, `lldp_size`,
  `lldp_size_of_read`, `lldp_size_of_tlv_fit`); the 16-bit bound is needed (`dhcp_size_wraps`, `lldp_size_wraps`).

  PART 2 (children intact).  Every encoder of the package writes into a buffer of `Len()` bytes with `copy`, which
  silently cuts what does not fit.  For each container:
    * `K_embed`  — EVERY value: the encoding is `cutPad (header ++ child₁ ++ child₂ ++ …) Len()`, i.e. the first Len()
                   bytes of the concatenation, zero-padded to Len(); each childᵢ is what the child's own
                   MarshalBinary() returns (`encAll`, or the named child encoder).  Where every write is
                   bounds-checked (Ethernet payload, IGMPv3 records/sources) success already means "nothing cut".
    * `K_intact` — under the stated decidable consistency condition (the caller-supplied header-length field agrees
                   with the children) nothing is cut and nothing is appended: `header ++ child₁ ++ child₂ ++ …`;
    * negative   — the condition is necessary: a concrete value where it fails and child bytes are lost or phantom
                   bytes appear (`hopByHop_cut`, `routing_cut`, `ipv4_cut_options`, `ipv4_cut_payload`,
                   `ipv4_shifted_payload`, `ipv6_drops_unchained_header`, `ipv6_long_address_overwritten`,
                   `ethernet_short_addr`, `groupRecord_phantom_source`, `groupRecord_v6_source_zeroed`).  These
                   document the contract of the caller-supplied length fields; they are not defects.
    * an `example` with non-trivial values beside each implication.
  Containers: HopByHopHeader → options; RoutingHeader → data; IGMPv3GroupRecord / IGMPv3Query → sources, aux words;
  IGMPv3MembershipReport → records (unconditional); Ethernet → tag, payload; IPv4 → options, payload; IPv6 → extension
  headers, payload; DHCP → options (unconditional: `append`); LLDP → chassis, port, ttl TLVs (`lldp_size`: a buffer of
  at least Len() bytes; `lldp_short_buffer` otherwise).
  The `…W` theorems hold for ANY pair of payload functions; the unsuffixed ones are their instances at the package's
  interface dispatch (any payload kind, any nesting; hypothesis `SmallBuf` = not a bare Buffer above 65535 bytes, cf.
  `ipv4_big_buffer_truncated`).  `ethernet_ipv4_intact` shows how they chain.
  The scalar fields of the values are written `.num n` as the model's encoders match them.
-/
import OFV.Model.All
import OFV.Lemmas.Size
import OFV.Lemmas.SizeTac
import OFV.Lemmas.SizeList
import OFV.Lemmas.SizeProtoFill
import OFV.Lemmas.SizeProto
import OFV.Lemmas.RepProto
namespace OFV.Props.C06c
open OFV OFV.Go OFV.Model OFV.SizeP

/-! ## Part 1 — size = bytes, every value -/

/-- kinds whose MarshalBinary is `bytes v` and whose `bytes` is `fill (len v) …` -/
local macro "bytes_size" l:ident m:ident b:ident : tactic => `(tactic| (
  intro l v1 bs v2 h1 h2
  simp only [$l:ident] at h1
  obtain ⟨l', hl, h1⟩ := bind_ok_inv _ _ _ h1
  obtain ⟨e1, e2⟩ := same_ok _ _ _ _ h1
  subst e1; subst e2
  simp only [$m:ident] at h2
  obtain ⟨b', hb, h2⟩ := bind_ok_inv _ _ _ h2
  obtain ⟨e3, _⟩ := same_ok _ _ _ _ h2
  subst e3
  unfold $b at hb
  split at hb
  · simp only [hl, Res.bind_ok] at hb
    revert hb
    repeat peel1
    intro hb
    first | exact fill_length _ _ _ hb | (split at hb <;> exact fill_length _ _ _ hb)
  · exact absurd hb (by simp)))

/-- VLAN tag: 4 bytes reported, 4 written -/
theorem vlan_size (v : V) : SizeOK PVLAN.lenM PVLAN.marshalM v := by
  intro l v1 bs v2 h1 h2
  obtain ⟨e1, _⟩ := same_ok _ _ _ _ h1
  subst e1
  unfold PVLAN.marshalM at h2
  obtain ⟨b, hb, h2⟩ := bind_ok_inv _ _ _ h2
  obtain ⟨e3, _⟩ := same_ok _ _ _ _ h2
  subst e3
  unfold PVLAN.bytes at hb
  split at hb
  · cases hb; rfl
  · exact absurd hb (by simp)

/-- ARP: `8 + 2·HWLength + 2·ProtoLength` (computed in 8 bits) reported, as many written — whatever the address
    slices hold -/
theorem arp_size (v : V) : SizeOK PARP.lenM PARP.marshalM v := by nx_size PARP.lenM PARP.marshalM
/-- ICMP: 4 + data -/
theorem icmp_size (v : V) : SizeOK PICMP.lenM PICMP.marshalM v := by nx_size PICMP.lenM PICMP.marshalM
/-- TCP: 20 + data -/
theorem tcp_size (v : V) : SizeOK PTCP.lenM PTCP.marshalM v := by nx_size PTCP.lenM PTCP.marshalM
/-- UDP: 8 + data -/
theorem udp_size (v : V) : SizeOK PUDP.lenM PUDP.marshalM v := by nx_size PUDP.lenM PUDP.marshalM
/-- IGMPv1/v2: 8 -/
theorem igmpv1or2_size (v : V) : SizeOK PIGMPv1or2.lenM PIGMPv1or2.marshalM v := by
  nx_size PIGMPv1or2.lenM PIGMPv1or2.marshalM
/-- IGMPv3 query: `12 + 4·NumberOfSources` reported and written — whatever the source list holds -/
theorem igmpv3Query_size (v : V) : SizeOK PIGMPv3Query.lenM PIGMPv3Query.marshalM v := by
  nx_size PIGMPv3Query.lenM PIGMPv3Query.marshalM
/-- IGMPv3 group record: `8 + 4·AuxDataLen + 4·NumberOfSources` -/
theorem igmpv3GroupRecord_size (v : V) : SizeOK PIGMPv3GroupRecord.lenM PIGMPv3GroupRecord.marshalM v := by
  bytes_size PIGMPv3GroupRecord.lenM PIGMPv3GroupRecord.marshalM PIGMPv3GroupRecord.bytes
/-- IGMPv3 membership report: 8 + Σ record sizes (16-bit sum) -/
theorem igmpv3MembershipReport_size (v : V) :
    SizeOK PIGMPv3MembershipReport.lenM PIGMPv3MembershipReport.marshalM v := by
  nx_size PIGMPv3MembershipReport.lenM PIGMPv3MembershipReport.marshalM
/-- IPv6 option: 1 (Pad1) or 2 + Length -/
theorem option_size (v : V) : SizeOK POption.lenM POption.marshalM v := by
  bytes_size POption.lenM POption.marshalM POption.bytes
/-- hop-by-hop header: 8·(HEL+1) — whatever the option list holds -/
theorem hopByHop_size (v : V) : SizeOK PHopByHop.lenM PHopByHop.marshalM v := by
  bytes_size PHopByHop.lenM PHopByHop.marshalM PHopByHop.bytes
/-- routing header: 8·(HEL+1) — whatever the data buffer holds -/
theorem routing_size (v : V) : SizeOK PRouting.lenM PRouting.marshalM v := by
  bytes_size PRouting.lenM PRouting.marshalM PRouting.bytes
/-- fragment header: 8 -/
theorem fragment_size (v : V) : SizeOK PFragment.lenM PFragment.marshalM v := by
  bytes_size PFragment.lenM PFragment.marshalM PFragment.bytes

/-! ### util.Buffer — Len() is `uint16(len(content))` -/

/-- Buffer: the reported size is the content's length modulo 2^16 -/
theorem buffer_sizeMod (v : V) : SizeMod UBuffer.lenM UBuffer.marshalM v := by
  intro l v1 bs v2 h1 h2
  unfold UBuffer.lenM at h1
  unfold UBuffer.marshalM at h2
  obtain ⟨c, hc, h1⟩ := bind_ok_inv _ _ _ h1
  rw [hc] at h2
  obtain ⟨e1, _⟩ := same_ok _ _ _ _ h1
  obtain ⟨e2, _⟩ := same_ok _ _ _ _ h2
  subst e1; subst e2
  simp [n16, UInt16.toNat_ofNat']

/-- "not a Buffer of more than 65535 bytes" -/
def SmallBuf (v : V) : Prop := ∀ c, v = .obj "u.Buffer" [.bytes c] → c.length < 65536

/-- Buffer: size = bytes up to 65535 bytes of content.  Full statement (`SizeOK` for every v) is FALSE:
    `buffer_size_counterexample`. -/
theorem buffer_size_partial (v : V) (hs : SmallBuf v) : SizeOK UBuffer.lenM UBuffer.marshalM v := by
  intro l v1 bs v2 h1 h2
  unfold UBuffer.lenM at h1
  unfold UBuffer.marshalM at h2
  obtain ⟨c, hc, h1⟩ := bind_ok_inv _ _ _ h1
  rw [hc] at h2
  obtain ⟨e1, _⟩ := same_ok _ _ _ _ h1
  obtain ⟨e2, _⟩ := same_ok _ _ _ _ h2
  subst e1; subst e2
  unfold UBuffer.content at hc
  split at hc
  · cases hc
    have := hs _ rfl
    simp [n16, UInt16.toNat_ofNat']
    omega
  · exact absurd hc (by simp)

/-- a Buffer holding 65536 bytes reports size 0 and encodes to 65536 bytes (the 16-bit limit of `Len() uint16`) -/
theorem buffer_size_counterexample :
    ∃ v l v1 bs v2, UBuffer.lenM v = .ok (l, v1) ∧ UBuffer.marshalM v = .ok (bs, v2) ∧ l = 0 ∧ bs.length = 65536 := by
  refine ⟨UBuffer.mk (zeros 65536), n16 (zeros 65536).length, _, zeros 65536, _, rfl, rfl, ?_, by simp⟩
  rw [zeros_length]; rfl

example : SmallBuf (UBuffer.mk [1, 2, 3]) := by
  intro c h; cases h; decide

/-- anything that is not a Buffer -/
theorem smallBuf_of_kind (v : V) (h : v.kind ≠ "u.Buffer") : SmallBuf v := by
  intro c hc
  exact absurd (by rw [hc]; rfl) h

/-! ### the three `util.Message` containers, for ANY payload functions -/

/-- IPv4: the encoder allocates what its own Len() pass returned — for every value, every payload, every option
    buffer, every IHL -/
theorem ipv4_sizeW (L : V → R (UInt16 × V)) (M : V → R (Bytes × V)) (v : V) :
    SizeOK (PIPv4.lenW L) (PIPv4.marshalW L M) v := by
  intro l v1 bs v2 h1 h2
  unfold PIPv4.marshalW at h2
  rw [h1] at h2
  simp only [Res.bind_ok] at h2
  split at h2
  · obtain ⟨ob, _, h2⟩ := bind_ok_inv _ _ _ h2
    obtain ⟨buf, hbuf, h2⟩ := bind_ok_inv _ _ _ h2
    have hl := fill_length _ _ _ hbuf
    split at h2
    · cases h2; exact hl
    · obtain ⟨⟨b, dat'⟩, _, h2⟩ := bind_ok_inv _ _ _ h2
      obtain ⟨out, hout, h2⟩ := bind_ok_inv _ _ _ h2
      cases h2
      rw [fillFrom_length _ _ _ _ hout]; exact hl
  · exact absurd h2 (by simp)

/-- IPv6: as IPv4 — whatever extension headers are present and whatever the next-header chain visits -/
theorem ipv6_sizeW (L : V → R (UInt16 × V)) (M : V → R (Bytes × V)) (v : V) :
    SizeOK (PIPv6.lenW L) (PIPv6.marshalW L M) v := by
  intro l v1 bs v2 h1 h2
  unfold PIPv6.marshalW at h2
  rw [h1] at h2
  simp only [Res.bind_ok] at h2
  split at h2
  · obtain ⟨_, _, h2⟩ := bind_ok_inv _ _ _ h2
    obtain ⟨chain, _, h2⟩ := bind_ok_inv _ _ _ h2
    obtain ⟨buf, hbuf, h2⟩ := bind_ok_inv _ _ _ h2
    have hl := fill_length _ _ _ hbuf
    split at h2
    · cases h2; exact hl
    · obtain ⟨⟨b, dat'⟩, _, h2⟩ := bind_ok_inv _ _ _ h2
      obtain ⟨out, hout, h2⟩ := bind_ok_inv _ _ _ h2
      cases h2
      rw [fillFrom_length _ _ _ _ hout]; exact hl
  · exact absurd h2 (by simp)

/-- Ethernet: as IPv4 — tagged or not, whatever the address slices hold -/
theorem ethernet_sizeW (L : V → R (UInt16 × V)) (M : V → R (Bytes × V)) (v : V) :
    SizeOK (PEthernet.lenW L) (PEthernet.marshalW L M) v := by
  intro l v1 bs v2 h1 h2
  unfold PEthernet.marshalW at h2
  rw [h1] at h2
  simp only [Res.bind_ok] at h2
  split at h2
  · split at h2
    · obtain ⟨vb, _, h2⟩ := bind_ok_inv _ _ _ h2
      obtain ⟨buf, hbuf, h2⟩ := bind_ok_inv _ _ _ h2
      have hl := fill_length _ _ _ hbuf
      split at h2
      · cases h2; exact hl
      · obtain ⟨⟨b, dat'⟩, _, h2⟩ := bind_ok_inv _ _ _ h2
        obtain ⟨out, hout, h2⟩ := bind_ok_inv _ _ _ h2
        cases h2
        rw [fillFrom_length _ _ _ _ hout]; exact hl
    · obtain ⟨buf, hbuf, h2⟩ := bind_ok_inv _ _ _ h2
      have hl := fill_length _ _ _ hbuf
      split at h2
      · cases h2; exact hl
      · obtain ⟨⟨b, dat'⟩, _, h2⟩ := bind_ok_inv _ _ _ h2
        obtain ⟨out, hout, h2⟩ := bind_ok_inv _ _ _ h2
        cases h2
        rw [fillFrom_length _ _ _ _ hout]; exact hl
  · exact absurd h2 (by simp)

/-- Ethernet frame with any payload of package protocol -/
theorem ethernet_size (v : V) : SizeOK PEthernet.lenM PEthernet.marshalM v := ethernet_sizeW _ _ v
/-- IPv4 packet with any payload -/
theorem ipv4_size (v : V) : SizeOK PIPv4.lenM PIPv4.marshalM v := ipv4_sizeW _ _ v
/-- IPv6 packet with any extension headers and any payload -/
theorem ipv6_size (v : V) : SizeOK PIPv6.lenM PIPv6.marshalM v := ipv6_sizeW _ _ v

/-! ### through the `util.Message` interface, at every nesting depth -/

/-- Len() / MarshalBinary() called through the interface (what a container calls on its payload): size = bytes for
    every value of every kind, at every depth budget — except a bare Buffer above 65535 bytes -/
theorem protoAny_size (d : Nat) (v : V) (hs : SmallBuf v) : SizeOK (protoAnyLenD d) (protoAnyMarshalD d) v := by
  cases d with
  | zero => intro l v1 bs v2 h1 _; exact absurd h1 (by simp [protoAnyLenD])
  | succ d =>
    obtain ⟨L', M', eL, eM, hC⟩ := protoAny_elim d v (fun L' M' => SizeOK L' M' v)
      (fun _ => ethernet_sizeW _ _ v) (fun _ => ipv4_sizeW _ _ v) (fun _ => ipv6_sizeW _ _ v)
      (fun _ => buffer_size_partial v hs) (fun _ => vlan_size v) (fun _ => arp_size v) (fun _ => icmp_size v)
      (fun _ => tcp_size v) (fun _ => udp_size v) (fun _ => igmpv1or2_size v) (fun _ => igmpv3Query_size v)
      (fun _ => igmpv3GroupRecord_size v) (fun _ => igmpv3MembershipReport_size v) (fun _ => option_size v)
      (fun _ => hopByHop_size v) (fun _ => routing_size v) (fun _ => fragment_size v)
      (fun l v1 bs v2 h1 _ => absurd h1 (by simp))
    intro l v1 bs v2 h1 h2
    rw [eL] at h1
    rw [eM] at h2
    exact hC l v1 bs v2 h1 h2

/-- … and modulo 2^16 without any exception -/
theorem protoAny_sizeMod (d : Nat) (v : V) : SizeMod (protoAnyLenD d) (protoAnyMarshalD d) v := by
  cases d with
  | zero => intro l v1 bs v2 h1 _; exact absurd h1 (by simp [protoAnyLenD])
  | succ d =>
    obtain ⟨L', M', eL, eM, hC⟩ := protoAny_elim d v (fun L' M' => SizeMod L' M' v)
      (fun _ => (ethernet_sizeW _ _ v).toMod) (fun _ => (ipv4_sizeW _ _ v).toMod) (fun _ => (ipv6_sizeW _ _ v).toMod)
      (fun _ => buffer_sizeMod v) (fun _ => (vlan_size v).toMod) (fun _ => (arp_size v).toMod)
      (fun _ => (icmp_size v).toMod)
      (fun _ => (tcp_size v).toMod) (fun _ => (udp_size v).toMod) (fun _ => (igmpv1or2_size v).toMod)
      (fun _ => (igmpv3Query_size v).toMod)
      (fun _ => (igmpv3GroupRecord_size v).toMod) (fun _ => (igmpv3MembershipReport_size v).toMod)
      (fun _ => (option_size v).toMod)
      (fun _ => (hopByHop_size v).toMod) (fun _ => (routing_size v).toMod) (fun _ => (fragment_size v).toMod)
      (fun l v1 bs v2 h1 _ => absurd h1 (by simp))
    intro l v1 bs v2 h1 h2
    rw [eL] at h1
    rw [eM] at h2
    exact hC l v1 bs v2 h1 h2

/-- the dispatch as the containers of the package use it (depth budget 16) -/
theorem protoAnyM_size (v : V) (hs : SmallBuf v) : SizeOK protoAnyLenM protoAnyMarshalM v := protoAny_size _ v hs

/-- Len() through the interface returns a value of the same dynamic type -/
theorem protoAnyLenD_kind (d : Nat) (v : V) (l : UInt16) (v1 : V) (h : protoAnyLenD d v = .ok (l, v1)) :
    v1.kind = v.kind := by
  cases d with
  | zero => exact absurd h (by simp [protoAnyLenD])
  | succ d =>
    obtain ⟨L', M', eL, _, hC⟩ := protoAny_elim d v (fun L' _ => ∀ l v1, L' v = .ok (l, v1) → v1.kind = v.kind)
      (fun k l v1 h => by rw [k]; exact Rep.PEthernet.lenW_kind _ v l v1 k h)
      (fun k l v1 h => by rw [k]; exact Rep.PIPv4.lenW_kind _ v l v1 k h)
      (fun k l v1 h => by rw [k]; exact Rep.PIPv6.lenW_kind _ v l v1 k h)
      (fun _ l v1 h => by rw [(Props.C13.uBuffer_pure v).1 l v1 h])
      (fun _ l v1 h => by rw [(Rep.PVLAN.pure2 v).1 l v1 h])
      (fun _ l v1 h => by rw [(Rep.PARP.pure2 v).1 l v1 h])
      (fun _ l v1 h => by rw [(Rep.PICMP.pure2 v).1 l v1 h])
      (fun _ l v1 h => by rw [(Rep.PTCP.pure2 v).1 l v1 h])
      (fun _ l v1 h => by rw [(Rep.PUDP.pure2 v).1 l v1 h])
      (fun _ l v1 h => by rw [(Rep.PIGMPv1or2.pure2 v).1 l v1 h])
      (fun _ l v1 h => by rw [(Rep.PIGMPv3Query.pure2 v).1 l v1 h])
      (fun _ l v1 h => by rw [(Rep.PIGMPv3GroupRecord.pure2 v).1 l v1 h])
      (fun _ l v1 h => by rw [(Rep.PIGMPv3MembershipReport.pure2 v).1 l v1 h])
      (fun _ l v1 h => by rw [(Rep.POption.pure2 v).1 l v1 h])
      (fun _ l v1 h => by rw [(Rep.PHopByHop.pure2 v).1 l v1 h])
      (fun _ l v1 h => by rw [(Rep.PRouting.pure2 v).1 l v1 h])
      (fun _ l v1 h => by rw [(Rep.PFragment.pure2 v).1 l v1 h])
      (fun l v1 h => absurd h (by simp))
    rw [eL] at h
    exact hC l v1 h

/-- "Len(), then MarshalBinary() on what Len() left behind" (what a container does with its payload): the bytes are
    as many as Len() said -/
def SizeAfter (L : V → R (UInt16 × V)) (M : V → R (Bytes × V)) (x : V) : Prop :=
  ∀ l x1 b x2, L x = .ok (l, x1) → M x1 = .ok (b, x2) → b.length = l.toNat

/-- what Len() leaves behind is again not an oversized Buffer -/
theorem smallBuf_after_len (d : Nat) (x : V) (l : UInt16) (x1 : V) (hs : SmallBuf x) (h1 : protoAnyLenD d x = .ok (l, x1)) :
    SmallBuf x1 := by
  intro c hc
  have hk := protoAnyLenD_kind d x l x1 h1
  have hkx : x.kind = "u.Buffer" := by rw [← hk, hc]; rfl
  cases d with
  | zero => exact absurd h1 (by simp [protoAnyLenD])
  | succ d =>
    have e : protoAnyLenD (d + 1) x = UBuffer.lenM x := by unfold protoAnyLenD; simp only [hkx]
    rw [e] at h1
    have := (Props.C13.uBuffer_pure x).1 l x1 h1
    subst this
    exact hs c hc

/-- every payload of package protocol (at every depth), except a bare Buffer above 65535 bytes -/
theorem protoAny_sizeAfter (d : Nat) (x : V) (hs : SmallBuf x) : SizeAfter (protoAnyLenD d) (protoAnyMarshalD d) x := by
  intro l x1 b x2 h1 h2
  have hidem := ((Rep.protoAny_childOK d).rep x).lenIdem l x1 h1
  exact protoAny_size d x1 (smallBuf_after_len d x l x1 hs h1) l x1 b x2 hidem h2

/-- IPv4 stores something in Len() (IHL is forced to at least 5): also MarshalBinary() on the value Len() left behind
    returns as many bytes as that Len() reported -/
theorem ipv4_sizeAfter (v : V) : SizeAfter PIPv4.lenM PIPv4.marshalM v := by
  intro l v1 b v2 h1 h2
  exact ipv4_size v1 l v1 b v2 ((Rep.PIPv4.repeatable v).lenIdem l v1 h1) h2

/-- the same for an Ethernet frame (Len() stores what the payload's Len() stores) -/
theorem ethernet_sizeAfter (v : V) : SizeAfter PEthernet.lenM PEthernet.marshalM v := by
  intro l v1 b v2 h1 h2
  exact ethernet_size v1 l v1 b v2 ((Rep.PEthernet.repeatable v).lenIdem l v1 h1) h2

/-- … and for an IPv6 packet -/
theorem ipv6_sizeAfter (v : V) : SizeAfter PIPv6.lenM PIPv6.marshalM v := by
  intro l v1 b v2 h1 h2
  exact ipv6_size v1 l v1 b v2 ((Rep.PIPv6.repeatable v).lenIdem l v1 h1) h2

/-- IHL 3 is stored as 5 by Len(): the value changes, the size statement holds before and after -/
example : ∃ l v1 bs v2, PIPv4.lenM (.obj "p.IPv4" [.num 4, .num 3, .num 0, .num 0, .num 20, .num 0, .num 0, .num 0, .num 64, .num 1,
      .num 0, .bytes [10, 0, 0, 1], .bytes [10, 0, 0, 2], UBuffer.mk [], .nil]) = .ok (l, v1) ∧
    v1 = .obj "p.IPv4" [.num 4, .num 5, .num 0, .num 0, .num 20, .num 0, .num 0, .num 0, .num 64, .num 1,
      .num 0, .bytes [10, 0, 0, 1], .bytes [10, 0, 0, 2], UBuffer.mk [], .nil] ∧
    PIPv4.marshalM v1 = .ok (bs, v2) ∧ l = 20 ∧ bs.length = 20 :=
  ⟨_, _, _, _, rfl, rfl, rfl, rfl, rfl⟩

/-! ## Part 2 — children intact

  `cutPad P L` (Lemmas/SizeProtoFill) = `P.take L ++ zeros (L - P.length)`: what a buffer of `L` zero bytes holds after
  `P` was copied in from the start.  `encAll M xs` = the list of the encodings `M x` of the elements of `xs`. -/

/-! ### HopByHopHeader → options.  Condition: 2 + Σ option sizes = 8·(HEL+1) -/

/-- EVERY value: the first 8·(HEL+1) bytes of `NextHeader, HEL, option₁, option₂, …` (zero-padded), each optionᵢ being
    exactly what `Option.MarshalBinary()` returns -/
theorem hopByHop_embed (nh hel : Nat) (os : List V) (bs : Bytes) (v2 : V)
    (h : PHopByHop.marshalM (.obj "p.HopByHopHeader" [.num nh, .num hel, .list os]) = .ok (bs, v2)) :
    ∃ obs, encAll POption.marshalM os = .ok obs ∧
      bs = cutPad ([n8 nh, n8 hel] ++ obs.flatten) (8 * ((n8 hel).toNat + 1)) := by
  unfold PHopByHop.marshalM at h
  obtain ⟨b, hb, h⟩ := bind_ok_inv _ _ _ h
  obtain ⟨e, _⟩ := same_ok _ _ _ _ h
  subst e
  simp only [PHopByHop.bytes, PHopByHop.len, Res.bind_ok] at hb
  obtain ⟨_, _, hb⟩ := bind_ok_inv _ _ _ hb
  obtain ⟨ps, hps, hb⟩ := bind_ok_inv _ _ _ hb
  obtain ⟨obs, he, hpb, ht, _⟩ := optPieces_enc os ps hps
  refine ⟨obs, he, ?_⟩
  have := fill_cutPad _ _ _ (by
    intro p hp
    simp only [List.mem_append, List.mem_cons, List.not_mem_nil, or_false] at hp
    rcases hp with (rfl | rfl) | hp
    · trivial
    · trivial
    · exact ht p hp) hb
  rw [this, piecesBytes_append, hpb]
  unfold Gen.protocol.HopByHopHeader.Len
  rw [ext_len_toNat]
  rfl

/-- when the options fill the header exactly (2 + Σ sizes = 8·(HEL+1)) the encoding is the two fixed bytes followed by
    the complete encodings of the options, in order, and nothing else -/
theorem hopByHop_intact (nh hel : Nat) (os : List V) (bs : Bytes) (v2 : V) (obs : List Bytes)
    (h : PHopByHop.marshalM (.obj "p.HopByHopHeader" [.num nh, .num hel, .list os]) = .ok (bs, v2))
    (he : encAll POption.marshalM os = .ok obs)
    (hc : 2 + obs.flatten.length = 8 * ((n8 hel).toNat + 1)) :
    bs = [n8 nh, n8 hel] ++ obs.flatten := by
  obtain ⟨obs', he', hbs⟩ := hopByHop_embed nh hel os bs v2 h
  rw [he] at he'
  cases he'
  rw [hbs]
  exact cutPad_eq_of_length _ _ (by simp only [List.length_append, List.length_cons, List.length_nil]; omega)

/-- the same with the condition on the options' own Len(): 2 + Σ Len(optionᵢ) = 8·(HEL+1) -/
theorem hopByHop_intact_len (nh hel : Nat) (os : List V) (bs : Bytes) (v2 : V) (ls : List UInt16)
    (h : PHopByHop.marshalM (.obj "p.HopByHopHeader" [.num nh, .num hel, .list os]) = .ok (bs, v2))
    (hl : lenAll POption.lenM os = .ok ls)
    (hc : 2 + (ls.map UInt16.toNat).sum = 8 * ((n8 hel).toNat + 1)) :
    ∃ obs, encAll POption.marshalM os = .ok obs ∧ bs = [n8 nh, n8 hel] ++ obs.flatten := by
  obtain ⟨obs, he, _⟩ := hopByHop_embed nh hel os bs v2 h
  obtain ⟨ls', hls', _, hsum⟩ := option_encAll_lens os obs he
  rw [hl] at hls'
  cases hls'
  exact ⟨obs, he, hopByHop_intact nh hel os bs v2 obs h he (by rw [hsum]; exact hc)⟩

/-- a Pad1 and a PadN option filling an 8-byte header -/
example : ∃ bs v2 obs,
    PHopByHop.marshalM (.obj "p.HopByHopHeader" [.num 58, .num 0, .list [.obj "p.Option" [.num 0, .num 0, .bytes []],
      .obj "p.Option" [.num 1, .num 3, .bytes [0, 0, 0]]]]) = .ok (bs, v2) ∧
    encAll POption.marshalM [.obj "p.Option" [.num 0, .num 0, .bytes []], .obj "p.Option" [.num 1, .num 3, .bytes [0, 0, 0]]]
      = .ok obs ∧ 2 + obs.flatten.length = 8 * ((n8 0).toNat + 1) ∧ bs = [58, 0, 0, 1, 3, 0, 0, 0] :=
  ⟨_, _, _, rfl, rfl, rfl, rfl⟩

/-- the condition is necessary: HEL = 0 (8 bytes) with a 10-byte option — the option's last 4 bytes are not in the
    encoding (the header-length field is the caller's) -/
theorem hopByHop_cut :
    ∃ v2, PHopByHop.marshalM (.obj "p.HopByHopHeader" [.num 59, .num 0, .list [.obj "p.Option" [.num 1, .num 8, .bytes [1, 2, 3, 4, 5, 6, 7, 8]]]])
        = .ok ([59, 0, 1, 8, 1, 2, 3, 4], v2) ∧
      POption.marshalM (.obj "p.Option" [.num 1, .num 8, .bytes [1, 2, 3, 4, 5, 6, 7, 8]])
        = .ok ([1, 8, 1, 2, 3, 4, 5, 6, 7, 8], .obj "p.Option" [.num 1, .num 8, .bytes [1, 2, 3, 4, 5, 6, 7, 8]]) :=
  ⟨_, rfl, rfl⟩

/-! ### RoutingHeader → data.  Condition: 4 + |data| = 8·(HEL+1) -/

/-- EVERY value: the first 8·(HEL+1) bytes of `NextHeader, HEL, RoutingType, SegmentsLeft, data` (zero-padded); `data` is
    what the data Buffer's MarshalBinary() returns -/
theorem routing_embed (nh hel rt sl : Nat) (buf : V) (bs : Bytes) (v2 : V)
    (h : PRouting.marshalM (.obj "p.RoutingHeader" [.num nh, .num hel, .num rt, .num sl, buf]) = .ok (bs, v2)) :
    ∃ c, UBuffer.marshalM buf = .ok (c, buf) ∧
      bs = cutPad ([n8 nh, n8 hel, n8 rt, n8 sl] ++ c) (8 * ((n8 hel).toNat + 1)) := by
  unfold PRouting.marshalM at h
  obtain ⟨b, hb, h⟩ := bind_ok_inv _ _ _ h
  obtain ⟨e, _⟩ := same_ok _ _ _ _ h
  subst e
  simp only [PRouting.bytes, PRouting.len, Res.bind_ok] at hb
  obtain ⟨_, _, hb⟩ := bind_ok_inv _ _ _ hb
  obtain ⟨c, hc, hb⟩ := bind_ok_inv _ _ _ hb
  refine ⟨c, by simp [UBuffer.marshalM, hc, same], ?_⟩
  have := fill_cutPad _ _ _ (by
    intro p hp
    simp only [List.mem_cons, List.not_mem_nil, or_false] at hp
    rcases hp with rfl | rfl | rfl | rfl | rfl <;> trivial) hb
  rw [this]
  unfold Gen.protocol.RoutingHeader.Len
  rw [ext_len_toNat]
  simp [piecesBytes, Piece.bytes, pU8, pCopy]

/-- 4 + |data| = 8·(HEL+1) ⇒ the four fixed bytes followed by the complete data -/
theorem routing_intact (nh hel rt sl : Nat) (buf : V) (bs : Bytes) (v2 : V) (c : Bytes) (buf' : V)
    (h : PRouting.marshalM (.obj "p.RoutingHeader" [.num nh, .num hel, .num rt, .num sl, buf]) = .ok (bs, v2))
    (hb : UBuffer.marshalM buf = .ok (c, buf'))
    (hc : 4 + c.length = 8 * ((n8 hel).toNat + 1)) :
    bs = [n8 nh, n8 hel, n8 rt, n8 sl] ++ c := by
  obtain ⟨c', hc', hbs⟩ := routing_embed nh hel rt sl buf bs v2 h
  rw [hb] at hc'
  cases hc'
  rw [hbs]
  exact cutPad_eq_of_length _ _ (by simp only [List.length_append, List.length_cons, List.length_nil]; omega)


/-- 260 data bytes -/
def rtData : Bytes := (List.range 260).map UInt8.ofNat

/-- a routing header of 264 bytes (HEL = 32): the hypotheses are satisfiable and the encoding is the 4 fixed bytes
    followed by all 260 data bytes -/
example : (PRouting.marshalM (.obj "p.RoutingHeader" [.num 6, .num 32, .num 0, .num 2, UBuffer.mk rtData])).isOk = true ∧
    ∀ bs v2, PRouting.marshalM (.obj "p.RoutingHeader" [.num 6, .num 32, .num 0, .num 2, UBuffer.mk rtData]) = .ok (bs, v2) →
      bs = [6, 32, 0, 2] ++ rtData :=
  ⟨by decide +kernel, fun bs v2 h => routing_intact 6 32 0 2 _ bs v2 rtData _ h rfl (by decide +kernel)⟩

/-- the condition is necessary: HEL = 0 (8 bytes) with 12 data bytes — the last 8 data bytes are not in the encoding -/
theorem routing_cut :
    ∃ v2, PRouting.marshalM (.obj "p.RoutingHeader" [.num 6, .num 0, .num 0, .num 1, UBuffer.mk [1, 2, 3, 4, 5, 6, 7, 8, 9, 10, 11, 12]])
      = .ok ([6, 0, 0, 1, 1, 2, 3, 4], v2) := ⟨_, rfl⟩

/-! ### IGMPv3GroupRecord → sources, auxiliary data.  Condition: NumberOfSources = |sources|, AuxDataLen = |aux words| -/

/-- EVERY value: the fixed 8 bytes, every source address (through To4(), in a 4-byte window), every auxiliary word, then
    zeros up to `8 + 4·AuxDataLen + 4·NumberOfSources` (mod 2^16).  All writes are fixed-width, so success means
    everything fitted: nothing is ever cut. -/
theorem groupRecord_embed (ty aux ns : Nat) (mc : Bytes) (srcs auxd : List V) (bs : Bytes) (v2 : V)
    (h : PIGMPv3GroupRecord.marshalM (.obj "p.IGMPv3GroupRecord" [.num ty, .num aux, .num ns, .bytes mc, .list srcs, .list auxd])
      = .ok (bs, v2)) :
    ∃ ips, pIpList srcs = .ok ips ∧
      8 + 4 * srcs.length + 4 * auxd.length ≤ (8 + 4 * (n8 aux).toNat + 4 * (n16 ns).toNat) % 65536 ∧
      bs = groupRecordBody ty aux ns mc ips auxd
        ++ zeros ((8 + 4 * (n8 aux).toNat + 4 * (n16 ns).toNat) % 65536 - (8 + 4 * srcs.length + 4 * auxd.length)) := by
  unfold PIGMPv3GroupRecord.marshalM at h
  obtain ⟨b, hb, h⟩ := bind_ok_inv _ _ _ h
  obtain ⟨e, _⟩ := same_ok _ _ _ _ h
  subst e
  simp only [PIGMPv3GroupRecord.bytes, PIGMPv3GroupRecord.len, Res.bind_ok] at hb
  obtain ⟨ips, hips, hb⟩ := bind_ok_inv _ _ _ hb
  have hil := pIpList_length srcs ips hips
  refine ⟨ips, hips, ?_⟩
  rw [grouprec_len_toNat] at hb
  have hputs : ∀ p ∈ [pU8 ty, pU8 aux, pU16 ns, pCopyIn 4 (pIpTo4 mc)] ++ ips.map (fun ip => pCopyIn 4 (pIpTo4 ip))
      ++ auxd.map (fun d => pU32 d.asNat), ∃ bs, p = .put bs := by
    intro p hp
    simp only [List.mem_append, List.mem_cons, List.not_mem_nil, or_false, List.mem_map] at hp
    rcases hp with ((rfl | rfl | rfl | rfl) | ⟨ip, _, rfl⟩) | ⟨d, _, rfl⟩ <;> exact ⟨_, rfl⟩
  have hfit := fill_puts_fit _ _ _ hputs hb
  have htight : ∀ p ∈ [pU8 ty, pU8 aux, pU16 ns, pCopyIn 4 (pIpTo4 mc)] ++ ips.map (fun ip => pCopyIn 4 (pIpTo4 ip))
      ++ auxd.map (fun d => pU32 d.asNat), p.Tight := by
    intro p hp
    obtain ⟨bs, rfl⟩ := hputs p hp
    trivial
  have hbytes : piecesBytes ([pU8 ty, pU8 aux, pU16 ns, pCopyIn 4 (pIpTo4 mc)] ++ ips.map (fun ip => pCopyIn 4 (pIpTo4 ip))
      ++ auxd.map (fun d => pU32 d.asNat)) = groupRecordBody ty aux ns mc ips auxd := by
    unfold groupRecordBody
    simp [piecesBytes, Piece.bytes, pU8, pU16, pU32, pCopyIn, List.map_map, Function.comp_def]
  have hlen := piecesLen_eq_bytes _ htight
  rw [hbytes, groupRecordBody_length, hil] at hlen
  rw [hlen] at hfit
  refine ⟨hfit, ?_⟩
  have := fill_take_le _ _ _ htight hb (by rw [hbytes, groupRecordBody_length, hil]; exact hfit)
  rw [this, hbytes, groupRecordBody_length, hil]

/-- counts equal list lengths ⇒ nothing appended either -/
theorem groupRecord_intact (ty aux ns : Nat) (mc : Bytes) (srcs auxd : List V) (bs : Bytes) (v2 : V)
    (h : PIGMPv3GroupRecord.marshalM (.obj "p.IGMPv3GroupRecord" [.num ty, .num aux, .num ns, .bytes mc, .list srcs, .list auxd])
      = .ok (bs, v2))
    (hns : srcs.length = (n16 ns).toNat) (haux : auxd.length = (n8 aux).toNat) :
    ∃ ips, pIpList srcs = .ok ips ∧ bs = groupRecordBody ty aux ns mc ips auxd := by
  obtain ⟨ips, hips, hfit, hbs⟩ := groupRecord_embed ty aux ns mc srcs auxd bs v2 h
  refine ⟨ips, hips, ?_⟩
  rw [hbs]
  have : (8 + 4 * (n8 aux).toNat + 4 * (n16 ns).toNat) % 65536 - (8 + 4 * srcs.length + 4 * auxd.length) = 0 := by omega
  rw [this]; simp [zeros]

/-- … and with 4-byte addresses the body is the plain concatenation of the parts -/
theorem groupRecord_intact_v4 (ty aux ns : Nat) (mc : Bytes) (srcs auxd : List V) (bs : Bytes) (v2 : V)
    (h : PIGMPv3GroupRecord.marshalM (.obj "p.IGMPv3GroupRecord" [.num ty, .num aux, .num ns, .bytes mc, .list srcs, .list auxd])
      = .ok (bs, v2))
    (hns : srcs.length = (n16 ns).toNat) (haux : auxd.length = (n8 aux).toNat) (hmc : mc.length = 4)
    (hv4 : ∀ ips, pIpList srcs = .ok ips → ∀ ip ∈ ips, ip.length = 4) :
    ∃ ips, pIpList srcs = .ok ips ∧
      bs = [n8 ty, n8 aux] ++ be16 (n16 ns) ++ mc ++ ips.flatten ++ (auxd.map (fun d => be32 (n32 d.asNat))).flatten := by
  obtain ⟨ips, hips, hbs⟩ := groupRecord_intact ty aux ns mc srcs auxd bs v2 h hns haux
  exact ⟨ips, hips, by rw [hbs, groupRecordBody_v4 ty aux ns mc ips auxd hmc (hv4 ips hips)]⟩

/-- two sources, one auxiliary word -/
example : ∃ bs v2, PIGMPv3GroupRecord.marshalM (.obj "p.IGMPv3GroupRecord" [.num 1, .num 1, .num 2, .bytes [224, 0, 0, 9],
      .list [.bytes [10, 0, 0, 1], .bytes [10, 0, 0, 2]], .list [.num 0xdeadbeef]]) = .ok (bs, v2) ∧
    [V.bytes [10, 0, 0, 1], V.bytes [10, 0, 0, 2]].length = (n16 2).toNat ∧ [V.num 0xdeadbeef].length = (n8 1).toNat ∧
    bs = [1, 1, 0, 2, 224, 0, 0, 9, 10, 0, 0, 1, 10, 0, 0, 2, 0xde, 0xad, 0xbe, 0xef] :=
  ⟨_, _, rfl, rfl, rfl, rfl⟩

/-- the condition is necessary: NumberOfSources = 2 with one source — 4 zero bytes (a phantom source 0.0.0.0) follow -/
theorem groupRecord_phantom_source :
    ∃ v2, PIGMPv3GroupRecord.marshalM (.obj "p.IGMPv3GroupRecord" [.num 1, .num 0, .num 2, .bytes [224, 0, 0, 9],
      .list [.bytes [10, 0, 0, 1]], .list []]) = .ok ([1, 0, 0, 2, 224, 0, 0, 9, 10, 0, 0, 1, 0, 0, 0, 0], v2) := ⟨_, rfl⟩

/-- a source that is not an IPv4 address (To4() = nil) is silently encoded as 0.0.0.0 -/
theorem groupRecord_v6_source_zeroed :
    ∃ v2, PIGMPv3GroupRecord.marshalM (.obj "p.IGMPv3GroupRecord" [.num 1, .num 0, .num 1, .bytes [224, 0, 0, 9],
      .list [.bytes [0x20, 1, 0xd, 0xb8, 0, 0, 0, 0, 0, 0, 0, 0, 0, 0, 0, 1]], .list []])
      = .ok ([1, 0, 0, 1, 224, 0, 0, 9, 0, 0, 0, 0], v2) := ⟨_, rfl⟩

/-! ### IGMPv3Query → sources.  Condition: NumberOfSources = |sources| -/

/-- EVERY value: the fixed 12 bytes, every source address (through To4(), in a 4-byte window), then zeros up to
    `12 + 4·NumberOfSources` (mod 2^16).  All writes are fixed-width: success means everything fitted. -/
theorem igmpv3Query_embed (ty mrt cs : Nat) (g : Bytes) (rsv s rv it ns : Nat) (srcs : List V) (bs : Bytes) (v2 : V)
    (h : PIGMPv3Query.marshalM (.obj "p.IGMPv3Query" [.num ty, .num mrt, .num cs, .bytes g, .num rsv, .num s, .num rv, .num it,
      .num ns, .list srcs]) = .ok (bs, v2)) :
    ∃ ips, pIpList srcs = .ok ips ∧ 12 + 4 * srcs.length ≤ (12 + 4 * (n16 ns).toNat) % 65536 ∧
      bs = [n8 ty, n8 mrt] ++ be16 (n16 cs) ++ pFitTo 4 (pIpTo4 g) ++ [PIGMPv3Query.packSQRV (s != 0) (n8 rv), n8 it]
        ++ be16 (n16 ns) ++ (ips.map (fun ip => pFitTo 4 (pIpTo4 ip))).flatten
        ++ zeros ((12 + 4 * (n16 ns).toNat) % 65536 - (12 + 4 * srcs.length)) := by
  simp only [PIGMPv3Query.marshalM, PIGMPv3Query.len, Res.bind_ok] at h
  obtain ⟨ips, hips, h⟩ := bind_ok_inv _ _ _ h
  obtain ⟨out, hout, h⟩ := bind_ok_inv _ _ _ h
  obtain ⟨e, _⟩ := same_ok _ _ _ _ h
  subst e
  have hil := pIpList_length srcs ips hips
  refine ⟨ips, hips, ?_⟩
  have hL : ∀ q : Gen.protocol.IGMPv3Query, q.Len.toNat = (12 + 4 * q.NumberOfSources.toNat) % 65536 := by
    intro q
    unfold Gen.protocol.IGMPv3Query.Len
    have := q.NumberOfSources.toNat_lt
    simp only [UInt16.toNat_mul, UInt16.toNat_add]
    show (12 + q.NumberOfSources.toNat * 4 % 2 ^ 16) % 2 ^ 16 = _
    omega
  rw [hL] at hout
  dsimp only at hout
  have hputs : ∀ p ∈ [pU8 ty, pU8 mrt, pU16 cs, pCopyIn 4 (pIpTo4 g), .put [PIGMPv3Query.packSQRV (s != 0) (n8 rv)], pU8 it,
      pU16 ns] ++ ips.map (fun ip => pCopyIn 4 (pIpTo4 ip)), ∃ bs, p = .put bs := by
    intro p hp
    simp only [List.mem_append, List.mem_cons, List.not_mem_nil, or_false, List.mem_map] at hp
    rcases hp with (rfl | rfl | rfl | rfl | rfl | rfl | rfl) | ⟨ip, _, rfl⟩ <;> exact ⟨_, rfl⟩
  have hfit := fill_puts_fit _ _ _ hputs hout
  have htight : ∀ p ∈ [pU8 ty, pU8 mrt, pU16 cs, pCopyIn 4 (pIpTo4 g), .put [PIGMPv3Query.packSQRV (s != 0) (n8 rv)], pU8 it,
      pU16 ns] ++ ips.map (fun ip => pCopyIn 4 (pIpTo4 ip)), p.Tight := by
    intro p hp
    obtain ⟨bs, rfl⟩ := hputs p hp
    trivial
  have hbytes : piecesBytes ([pU8 ty, pU8 mrt, pU16 cs, pCopyIn 4 (pIpTo4 g), .put [PIGMPv3Query.packSQRV (s != 0) (n8 rv)],
      pU8 it, pU16 ns] ++ ips.map (fun ip => pCopyIn 4 (pIpTo4 ip)))
      = [n8 ty, n8 mrt] ++ be16 (n16 cs) ++ pFitTo 4 (pIpTo4 g) ++ [PIGMPv3Query.packSQRV (s != 0) (n8 rv), n8 it]
        ++ be16 (n16 ns) ++ (ips.map (fun ip => pFitTo 4 (pIpTo4 ip))).flatten := by
    simp [piecesBytes, Piece.bytes, pU8, pU16, pCopyIn, List.map_map, Function.comp_def]
  have hblen : ([n8 ty, n8 mrt] ++ be16 (n16 cs) ++ pFitTo 4 (pIpTo4 g) ++ [PIGMPv3Query.packSQRV (s != 0) (n8 rv), n8 it]
        ++ be16 (n16 ns) ++ (ips.map (fun ip => pFitTo 4 (pIpTo4 ip))).flatten).length = 12 + 4 * srcs.length := by
    simp only [List.length_append, List.length_cons, List.length_nil, be16_length, pFitTo_length]
    rw [flatten_map_const_length _ 4 ips (fun x _ => pFitTo_length 4 _), hil]
  have hlen := piecesLen_eq_bytes _ htight
  rw [hbytes, hblen] at hlen
  rw [hlen] at hfit
  refine ⟨hfit, ?_⟩
  have := fill_take_le _ _ _ htight hout (by rw [hbytes, hblen]; exact hfit)
  rw [this, hbytes, hblen]

/-- NumberOfSources = |sources| ⇒ nothing appended; with 4-byte addresses the addresses themselves -/
theorem igmpv3Query_intact (ty mrt cs : Nat) (g : Bytes) (rsv s rv it ns : Nat) (srcs : List V) (bs : Bytes) (v2 : V)
    (h : PIGMPv3Query.marshalM (.obj "p.IGMPv3Query" [.num ty, .num mrt, .num cs, .bytes g, .num rsv, .num s, .num rv, .num it,
      .num ns, .list srcs]) = .ok (bs, v2))
    (hns : srcs.length = (n16 ns).toNat) (hg : g.length = 4)
    (hv4 : ∀ ips, pIpList srcs = .ok ips → ∀ ip ∈ ips, ip.length = 4) :
    ∃ ips, pIpList srcs = .ok ips ∧
      bs = [n8 ty, n8 mrt] ++ be16 (n16 cs) ++ g ++ [PIGMPv3Query.packSQRV (s != 0) (n8 rv), n8 it]
        ++ be16 (n16 ns) ++ ips.flatten := by
  obtain ⟨ips, hips, hfit, hbs⟩ := igmpv3Query_embed ty mrt cs g rsv s rv it ns srcs bs v2 h
  refine ⟨ips, hips, ?_⟩
  have hz : (12 + 4 * (n16 ns).toNat) % 65536 - (12 + 4 * srcs.length) = 0 := by omega
  rw [hbs, hz, pIpTo4_of_len4 g hg, pFitTo_exact 4 g hg,
    map_id_of_forall (fun ip => pFitTo 4 (pIpTo4 ip)) ips (fun ip hip => by
      rw [pIpTo4_of_len4 ip (hv4 ips hips ip hip), pFitTo_exact 4 ip (hv4 ips hips ip hip)])]
  simp [zeros]

/-- a query with two sources -/
example : ∃ bs v2, PIGMPv3Query.marshalM (.obj "p.IGMPv3Query" [.num 0x11, .num 100, .num 0, .bytes [224, 0, 0, 9], .num 0, .num 1,
      .num 2, .num 125, .num 2, .list [.bytes [10, 0, 0, 1], .bytes [10, 0, 0, 2]]]) = .ok (bs, v2) ∧
    bs = [0x11, 100, 0, 0, 224, 0, 0, 9, 0x0a, 125, 0, 2, 10, 0, 0, 1, 10, 0, 0, 2] :=
  ⟨_, _, rfl, rfl⟩

/-! ### IGMPv3MembershipReport → group records.  No condition -/

/-- EVERY value: the 8 fixed bytes followed by the complete encoding of every group record, in order, and nothing else.
    (A 16-bit wrap of the size sum cannot go unnoticed: the last record would start outside the buffer and the encoder
    panics.)  `NumberOfGroups` is written as supplied; the record loop does not use it. -/
theorem membershipReport_embed (ty : Nat) (r1 : V) (cs : Nat) (r2 : V) (ng : Nat) (rs : List V) (bs : Bytes) (v2 : V)
    (h : PIGMPv3MembershipReport.marshalM (.obj "p.IGMPv3MembershipReport" [.num ty, r1, .num cs, r2, .num ng, .list rs])
      = .ok (bs, v2)) :
    ∃ rbs, encAll PIGMPv3GroupRecord.marshalM rs = .ok rbs ∧
      bs = [n8 ty, 0] ++ be16 (n16 cs) ++ [0, 0] ++ be16 (n16 ng) ++ rbs.flatten := by
  simp only [PIGMPv3MembershipReport.marshalM, PIGMPv3MembershipReport.len] at h
  obtain ⟨l, hl, h⟩ := bind_ok_inv _ _ _ h
  obtain ⟨ls, hls, hl⟩ := bind_ok_inv _ _ _ hl
  cases hl
  obtain ⟨_, _, h⟩ := bind_ok_inv _ _ _ h
  obtain ⟨ps, hps, h⟩ := bind_ok_inv _ _ _ h
  obtain ⟨out, hout, h⟩ := bind_ok_inv _ _ _ h
  obtain ⟨e, _⟩ := same_ok _ _ _ _ h
  subst e
  obtain ⟨rbs, ls', he, hls', hpb, ht, hadv, hns⟩ := recPieces_enc rs ps hps
  rw [hls] at hls'
  cases hls'
  refine ⟨rbs, he, ?_⟩
  have htight : ∀ p ∈ [pU8 ty, pSkip 1, pU16 cs, pSkip 2, pU16 ng] ++ ps, p.Tight := by
    intro p hp
    simp only [List.mem_append, List.mem_cons, List.not_mem_nil, or_false] at hp
    rcases hp with (rfl | rfl | rfl | rfl | rfl) | hp
    all_goals first | trivial | exact ht p hp
  have hL : ((8 : UInt16) + sum16 ls).toNat = (8 + (ls.map UInt16.toNat).sum) % 65536 := by
    rw [UInt16.toNat_add, sum16_toNat_mod]
    show (8 + _ % 65536) % 2 ^ 16 = _
    omega
  have hplen : piecesLen ([pU8 ty, pSkip 1, pU16 cs, pSkip 2, pU16 ng] ++ ps) = 8 + (ls.map UInt16.toNat).sum := by
    rw [piecesLen_append]
    have : piecesLen ps = (ls.map UInt16.toNat).sum := by unfold piecesLen; rw [hadv]
    rw [this]; rfl
  -- no 16-bit wrap: the last record started inside the buffer
  have hnowrap : 8 + (ls.map UInt16.toNat).sum < 65536 := by
    rcases List.eq_nil_or_concat ps with hnil | ⟨ps0, q, hq⟩
    · subst hnil
      have : ls.map UInt16.toNat = [] := by rw [← hadv]; rfl
      rw [this]; decide
    · rw [List.concat_eq_append] at hq
      subst hq
      have hstart := fill_start_le _ ([pU8 ty, pSkip 1, pU16 cs, pSkip 2, pU16 ng] ++ ps0) q [] bs
        (by rw [← List.append_assoc] at hout; exact hout) (hns q (by simp))
      rw [hL, piecesLen_append] at hstart
      have hsum : (ls.map UInt16.toNat).sum = piecesLen ps0 + q.adv := by
        rw [← hadv]; simp [piecesLen]
      -- the last advance is a uint16
      have hq16 : q.adv < 65536 := by
        have hmem : q.adv ∈ ls.map UInt16.toNat := by rw [← hadv]; simp
        simp only [List.mem_map] at hmem
        obtain ⟨x, _, hx⟩ := hmem
        rw [← hx]; exact x.toNat_lt
      have h8 : piecesLen [pU8 ty, pSkip 1, pU16 cs, pSkip 2, pU16 ng] = 8 := rfl
      rw [h8] at hstart
      omega
  have hbytes : piecesBytes ([pU8 ty, pSkip 1, pU16 cs, pSkip 2, pU16 ng] ++ ps)
      = [n8 ty, 0] ++ be16 (n16 cs) ++ [0, 0] ++ be16 (n16 ng) ++ rbs.flatten := by
    rw [piecesBytes_append, hpb]
    simp [piecesBytes, Piece.bytes, pU8, pU16, pSkip, zeros]
  have := fill_take_exact _ _ _ htight hout (by
    rw [← piecesLen_eq_bytes _ htight, hplen, hL]; omega)
  rw [this, hbytes]

/-- a report with two records (one of them with a source) -/
example : ∃ bs v2 rbs, PIGMPv3MembershipReport.marshalM (.obj "p.IGMPv3MembershipReport" [.num 0x22, .num 0, .num 0, .num 0, .num 2,
      .list [.obj "p.IGMPv3GroupRecord" [.num 1, .num 0, .num 1, .bytes [224, 0, 0, 9], .list [.bytes [10, 0, 0, 1]], .list []],
        .obj "p.IGMPv3GroupRecord" [.num 2, .num 0, .num 0, .bytes [224, 0, 0, 10], .list [], .list []]]]) = .ok (bs, v2) ∧
    encAll PIGMPv3GroupRecord.marshalM
      [.obj "p.IGMPv3GroupRecord" [.num 1, .num 0, .num 1, .bytes [224, 0, 0, 9], .list [.bytes [10, 0, 0, 1]], .list []],
        .obj "p.IGMPv3GroupRecord" [.num 2, .num 0, .num 0, .bytes [224, 0, 0, 10], .list [], .list []]] = .ok rbs ∧
    bs = [0x22, 0, 0, 0, 0, 0, 0, 2] ++ rbs.flatten ∧ bs.length = 28 :=
  ⟨_, _, _, rfl, rfl, rfl, rfl⟩

/-! ### the payload interface never returns a nil value -/

/-- Len() through the interface never hands back a nil value (a nil payload makes it fail) -/
theorem protoAny_nonNil (d : Nat) : ∀ x l x1, protoAnyLenD d x = .ok (l, x1) → x1.isNil = false :=
  fun _ _ _ h => Rep.V.isNil_false_of_ne ((Rep.protoAny_childOK d).len_ne_nil h)

/-! ### Ethernet → payload.  Condition: 6-byte addresses -/

/-- the VLAN tag of a frame: the tag's own encoding when the VLAN id is not 0, nothing otherwise -/
def EthTag (vlan : V) (vb : Bytes) : Prop :=
  if PVLAN.vid vlan ≠ 0 then PVLAN.marshalM vlan = .ok (vb, vlan) else vb = []

/-- the fixed part of a frame is 14 bytes, 18 with the tag — the `base` that Ethernet.Len() starts from -/
theorem ethTag_length (vlan : V) (vb : Bytes) (h : EthTag vlan vb) :
    14 + vb.length = (Rep.PEthernet.base vlan).toNat := by
  unfold EthTag at h
  unfold Rep.PEthernet.base
  split at h
  · rename_i ht
    simp only [PVLAN.marshalM] at h
    obtain ⟨b, hb, h⟩ := bind_ok_inv _ _ _ h
    obtain ⟨e, _⟩ := same_ok _ _ _ _ h
    subst e
    rw [PVLAN.bytes_length _ _ hb, if_pos ht]; rfl
  · rename_i ht
    subst h
    rw [if_neg ht]; rfl

/-- EVERY value with a payload, ANY payload functions: destination, source, the VLAN tag's own encoding (when the VLAN id is
    not 0), ethertype, then the COMPLETE payload encoding (what MarshalBinary() returns on the payload Len() left behind),
    then zeros up to Len().  The payload is written with a bounds-checked slice expression, so it is never cut. -/
theorem ethernet_embedW (L : V → R (UInt16 × V)) (M : V → R (Bytes × V)) (del : V) (dst src : Bytes) (vlan : V) (et : Nat)
    (dat : V) (bs : Bytes) (v2 : V)
    (h : PEthernet.marshalW L M (.obj "p.Ethernet" [del, .bytes dst, .bytes src, vlan, .num et, dat]) = .ok (bs, v2))
    (hn : dat.isNil = false) (hnn : ∀ x l x1, L x = .ok (l, x1) → x1.isNil = false) :
    ∃ lc dat1 b dat2 vb, L dat = .ok (lc, dat1) ∧ M dat1 = .ok (b, dat2) ∧ EthTag vlan vb ∧
      (dst ++ src ++ vb ++ be16 (n16 et) ++ b).length ≤ (Rep.PEthernet.base vlan + lc).toNat ∧
      bs = dst ++ src ++ vb ++ be16 (n16 et) ++ b
        ++ zeros ((Rep.PEthernet.base vlan + lc).toNat - (dst ++ src ++ vb ++ be16 (n16 et) ++ b).length) := by
  unfold PEthernet.marshalW at h
  obtain ⟨⟨l, v1⟩, hlen, h⟩ := bind_ok_inv _ _ _ h
  rw [Rep.PEthernet.lenW_obj L _ _ _ _ _ _ hn] at hlen
  obtain ⟨⟨lc, dat1⟩, hL, hlen⟩ := bind_ok_inv _ _ _ hlen
  cases hlen
  have hn1 := hnn dat lc dat1 hL
  simp only at h
  -- both branches end the same way
  have key : ∀ (vb : Bytes), EthTag vlan vb → ∀ pre : List Piece, piecesBytes pre = dst ++ src ++ vb ++ be16 (n16 et) →
      (∀ p ∈ pre, p.Tight) →
      ((fill (Rep.PEthernet.base vlan + lc).toNat pre >>= fun buf =>
        if dat1.isNil = true then .ok (buf, V.obj "p.Ethernet" [del, .bytes dst, .bytes src, vlan, .num et, dat1])
        else M dat1 >>= fun r => fillFrom buf (piecesLen pre) [.put r.1] >>= fun out =>
          .ok (out, V.obj "p.Ethernet" [del, .bytes dst, .bytes src, vlan, .num et, r.2])) = Res.ok (bs, v2)) →
      ∃ lc' dat1' b dat2 vb, L dat = .ok (lc', dat1') ∧ M dat1' = .ok (b, dat2) ∧ EthTag vlan vb ∧
        (dst ++ src ++ vb ++ be16 (n16 et) ++ b).length ≤ (Rep.PEthernet.base vlan + lc').toNat ∧
        bs = dst ++ src ++ vb ++ be16 (n16 et) ++ b
          ++ zeros ((Rep.PEthernet.base vlan + lc').toNat - (dst ++ src ++ vb ++ be16 (n16 et) ++ b).length) := by
    intro vb hvb pre hpre htight hk
    obtain ⟨buf, hbuf, hk⟩ := bind_ok_inv _ _ _ hk
    rw [if_neg (by simp [hn1])] at hk
    obtain ⟨⟨b, dat2⟩, hM, hk⟩ := bind_ok_inv _ _ _ hk
    obtain ⟨out, hout, hk⟩ := bind_ok_inv _ _ _ hk
    cases hk
    have hall := fill_then _ _ _ _ _ hbuf hout
    have hfits := fill_put_fits _ pre b [] _ hall
    have htight' : ∀ p ∈ pre ++ [Piece.put b], p.Tight := by
      intro p hp
      simp only [List.mem_append, List.mem_cons, List.not_mem_nil, or_false] at hp
      rcases hp with hp | rfl
      · exact htight p hp
      · trivial
    have hpb : piecesBytes (pre ++ [Piece.put b]) = dst ++ src ++ vb ++ be16 (n16 et) ++ b := by
      rw [piecesBytes_append, hpre]; simp [piecesBytes, Piece.bytes]
    have hlenb : (dst ++ src ++ vb ++ be16 (n16 et) ++ b).length ≤ (Rep.PEthernet.base vlan + lc).toNat := by
      rw [← hpb, ← piecesLen_eq_bytes _ htight', piecesLen_append]
      simpa [piecesLen, Piece.adv] using hfits
    refine ⟨lc, dat1, b, dat2, vb, hL, hM, hvb, hlenb, ?_⟩
    have := fill_take_le _ _ _ htight' hall (by rw [hpb]; exact hlenb)
    rw [this, hpb]
  have hbase : (if PVLAN.vid vlan ≠ 0 then (12 : UInt16) + 4 else 12) + 2 + lc = Rep.PEthernet.base vlan + lc := rfl
  by_cases ht : PVLAN.vid vlan ≠ 0
  · rw [if_pos ht] at h
    obtain ⟨vb, hvb, h⟩ := bind_ok_inv _ _ _ h
    refine key vb (by unfold EthTag; rw [if_pos ht]; simp [PVLAN.marshalM, hvb, same])
      ([pCopy dst, pCopy src] ++ (if PVLAN.vid vlan ≠ 0 then [pCopy vb] else []) ++ [pU16 et]) ?_ ?_ h
    · rw [if_pos ht]; simp [piecesBytes, Piece.bytes, pCopy, pU16]
    · intro p hp
      rw [if_pos ht] at hp
      simp only [List.mem_append, List.mem_cons, List.not_mem_nil, or_false] at hp
      rcases hp with ((rfl | rfl) | rfl) | rfl <;> trivial
  · rw [if_neg ht] at h
    refine key [] (by unfold EthTag; rw [if_neg ht])
      ([pCopy dst, pCopy src] ++ (if PVLAN.vid vlan ≠ 0 then [pCopy []] else []) ++ [pU16 et]) ?_ ?_ h
    · rw [if_neg ht]; simp [piecesBytes, Piece.bytes, pCopy, pU16]
    · intro p hp
      rw [if_neg ht] at hp
      simp only [List.mem_append, List.mem_cons, List.not_mem_nil, or_false, List.append_nil] at hp
      rcases hp with (rfl | rfl) | rfl <;> trivial

/-- 6-byte addresses and a payload whose encoding has the size it reports ⇒ header ++ payload, nothing else -/
theorem ethernet_intactW (L : V → R (UInt16 × V)) (M : V → R (Bytes × V)) (del : V) (dst src : Bytes) (vlan : V) (et : Nat)
    (dat : V) (bs : Bytes) (v2 : V)
    (h : PEthernet.marshalW L M (.obj "p.Ethernet" [del, .bytes dst, .bytes src, vlan, .num et, dat]) = .ok (bs, v2))
    (hn : dat.isNil = false) (hnn : ∀ x l x1, L x = .ok (l, x1) → x1.isNil = false)
    (hdst : dst.length = 6) (hsrc : src.length = 6) (hc : SizeAfter L M dat) :
    ∃ lc dat1 b dat2 vb, L dat = .ok (lc, dat1) ∧ M dat1 = .ok (b, dat2) ∧ EthTag vlan vb ∧
      bs = dst ++ src ++ vb ++ be16 (n16 et) ++ b := by
  obtain ⟨lc, dat1, b, dat2, vb, hL, hM, hvb, hfit, hbs⟩ := ethernet_embedW L M del dst src vlan et dat bs v2 h hn hnn
  refine ⟨lc, dat1, b, dat2, vb, hL, hM, hvb, ?_⟩
  have hb := hc lc dat1 b dat2 hL hM
  have htag := ethTag_length vlan vb hvb
  have hlen : (dst ++ src ++ vb ++ be16 (n16 et) ++ b).length = 14 + vb.length + lc.toNat := by
    simp only [List.length_append, be16_length, hdst, hsrc, hb]; omega
  rw [hlen] at hfit hbs
  rw [UInt16.toNat_add] at hfit hbs
  have h1 := (Rep.PEthernet.base vlan).toNat_lt
  have h2 := lc.toNat_lt
  have : ((Rep.PEthernet.base vlan).toNat + lc.toNat) % 2 ^ 16 - (14 + vb.length + lc.toNat) = 0 := by omega
  rw [this] at hbs
  simpa [zeros] using hbs

/-- an Ethernet frame of package protocol with any payload (any nesting): 6-byte addresses ⇒ the 14 (18) header bytes
    followed by exactly the payload's encoding -/
theorem ethernet_intact (del : V) (dst src : Bytes) (vlan : V) (et : Nat) (dat : V) (bs : Bytes) (v2 : V)
    (h : PEthernet.marshalM (.obj "p.Ethernet" [del, .bytes dst, .bytes src, vlan, .num et, dat]) = .ok (bs, v2))
    (hn : dat.isNil = false) (hdst : dst.length = 6) (hsrc : src.length = 6) (hsb : SmallBuf dat) :
    ∃ lc dat1 b dat2 vb, protoAnyLenM dat = .ok (lc, dat1) ∧ protoAnyMarshalM dat1 = .ok (b, dat2) ∧ EthTag vlan vb ∧
      bs = dst ++ src ++ vb ++ be16 (n16 et) ++ b :=
  ethernet_intactW _ _ del dst src vlan et dat bs v2 h hn (protoAny_nonNil _) hdst hsrc (protoAny_sizeAfter _ dat hsb)

/-- a frame without payload: the header alone -/
theorem ethernet_nil (L : V → R (UInt16 × V)) (M : V → R (Bytes × V)) (del : V) (dst src : Bytes) (vlan : V) (et : Nat)
    (bs : Bytes) (v2 : V)
    (h : PEthernet.marshalW L M (.obj "p.Ethernet" [del, .bytes dst, .bytes src, vlan, .num et, .nil]) = .ok (bs, v2)) :
    ∃ vb, EthTag vlan vb ∧ bs = cutPad (dst ++ src ++ vb ++ be16 (n16 et)) (Rep.PEthernet.base vlan).toNat := by
  unfold PEthernet.marshalW at h
  rw [Rep.PEthernet.lenW_nil L _ _ _ _ _ _ rfl] at h
  simp only [Res.bind_ok] at h
  by_cases ht : PVLAN.vid vlan ≠ 0
  · rw [if_pos ht] at h
    obtain ⟨vb, hvb, h⟩ := bind_ok_inv _ _ _ h
    obtain ⟨buf, hbuf, h⟩ := bind_ok_inv _ _ _ h
    simp only [V.isNil, if_true] at h
    cases h
    rw [if_pos ht] at hbuf
    refine ⟨vb, by unfold EthTag; rw [if_pos ht]; simp [PVLAN.marshalM, hvb, same], ?_⟩
    rw [fill_cutPad _ _ _ (by
      intro p hp
      simp only [List.mem_append, List.mem_cons, List.not_mem_nil, or_false] at hp
      rcases hp with ((rfl | rfl) | rfl) | rfl <;> trivial) hbuf]
    simp [piecesBytes, Piece.bytes, pCopy, pU16]
  · rw [if_neg ht] at h
    obtain ⟨buf, hbuf, h⟩ := bind_ok_inv _ _ _ h
    simp only [V.isNil, if_true] at h
    cases h
    rw [if_neg ht] at hbuf
    refine ⟨[], by unfold EthTag; rw [if_neg ht], ?_⟩
    rw [fill_cutPad _ _ _ (by
      intro p hp
      simp only [List.mem_append, List.mem_cons, List.not_mem_nil, or_false, List.append_nil] at hp
      rcases hp with (rfl | rfl) | rfl <;> trivial) hbuf]
    simp [piecesBytes, Piece.bytes, pCopy, pU16]

/-- the condition is necessary (short address): a 4-byte destination — Len() still counts 6, so the frame is 2 bytes
    shorter than reported, 2 zero bytes follow the payload and every field sits 2 bytes early -/
theorem ethernet_short_addr :
    ∃ v2, PEthernet.marshalM (.obj "p.Ethernet" [.num 0, .bytes [1, 2, 3, 4], .bytes [11, 12, 13, 14, 15, 16], PVLAN.zero,
      .num 0x0800, UBuffer.mk [0xaa, 0xbb]]) = .ok ([1, 2, 3, 4, 11, 12, 13, 14, 15, 16, 8, 0, 0xaa, 0xbb, 0, 0], v2) :=
  ⟨_, rfl⟩

/-! ### IPv4 → options, payload.  Condition: IHL·4 = 20 + |options| -/

/-- without payload, EVERY value: the first `IHL·4` bytes of `fixed 20 bytes ++ options` (zero-padded); the stored IHL is
    the one Len() leaves (at least 5) -/
theorem ipv4_embed_nilW (L : V → R (UInt16 × V)) (M : V → R (Bytes × V)) (ver ihl dscp ecn ln ident fl fo ttl pr cs : Nat)
    (src dst : Bytes) (opts : V) (bs : Bytes) (v2 : V)
    (h : PIPv4.marshalW L M (.obj "p.IPv4" [.num ver, .num ihl, .num dscp, .num ecn, .num ln, .num ident, .num fl, .num fo,
      .num ttl, .num pr, .num cs, .bytes src, .bytes dst, opts, .nil]) = .ok (bs, v2)) :
    ∃ ob, UBuffer.marshalM opts = .ok (ob, opts) ∧
      bs = cutPad (ipv4Header ver (PIPv4.fixIHL (n8 ihl)) dscp ecn ln ident fl fo ttl pr cs src dst ++ ob)
        (PIPv4.hdrLen (PIPv4.fixIHL (n8 ihl))).toNat := by
  unfold PIPv4.marshalW at h
  rw [Rep.PIPv4.lenW_nil L _ _ _ _ _ _ _ _ _ _ _ _ _ _ _ rfl] at h
  simp only [Res.bind_ok, V.u8] at h
  obtain ⟨ob, hob, h⟩ := bind_ok_inv _ _ _ h
  obtain ⟨buf, hbuf, h⟩ := bind_ok_inv _ _ _ h
  simp only [V.isNil, if_true] at h
  cases h
  have hn8 : n8 (PIPv4.fixIHL (n8 ihl)).toNat = PIPv4.fixIHL (n8 ihl) := by simp [n8]
  rw [hn8] at hbuf
  have hbuf : fill _ (ipv4Pre ver (PIPv4.fixIHL (n8 ihl)) dscp ecn ln ident fl fo ttl pr cs src dst ob) = .ok bs := hbuf
  obtain ⟨hpb, htight, _⟩ := ipv4_pre ver (PIPv4.fixIHL (n8 ihl)) dscp ecn ln ident fl fo ttl pr cs src dst ob
  refine ⟨ob, by simp [UBuffer.marshalM, hob, same], ?_⟩
  rw [fill_cutPad _ _ _ htight hbuf, hpb]

/-- with a payload, EVERY value, ANY payload functions: the first `IHL·4 + payload Len()` bytes of
    `fixed 20 bytes ++ options ++ payload encoding` (zero-padded); the payload started inside the buffer -/
theorem ipv4_embedW (L : V → R (UInt16 × V)) (M : V → R (Bytes × V)) (ver ihl dscp ecn ln ident fl fo ttl pr cs : Nat)
    (src dst : Bytes) (opts dat : V) (bs : Bytes) (v2 : V)
    (h : PIPv4.marshalW L M (.obj "p.IPv4" [.num ver, .num ihl, .num dscp, .num ecn, .num ln, .num ident, .num fl, .num fo,
      .num ttl, .num pr, .num cs, .bytes src, .bytes dst, opts, dat]) = .ok (bs, v2))
    (hn : dat.isNil = false) (hnn : ∀ x l x1, L x = .ok (l, x1) → x1.isNil = false) :
    ∃ lc dat1 b dat2 ob, L dat = .ok (lc, dat1) ∧ M dat1 = .ok (b, dat2) ∧ UBuffer.marshalM opts = .ok (ob, opts) ∧
      20 + ob.length ≤ (PIPv4.hdrLen (PIPv4.fixIHL (n8 ihl)) + lc).toNat ∧
      bs = cutPad (ipv4Header ver (PIPv4.fixIHL (n8 ihl)) dscp ecn ln ident fl fo ttl pr cs src dst ++ ob ++ b)
        (PIPv4.hdrLen (PIPv4.fixIHL (n8 ihl)) + lc).toNat := by
  unfold PIPv4.marshalW at h
  rw [Rep.PIPv4.lenW_obj L _ _ _ _ _ _ _ _ _ _ _ _ _ _ _ hn] at h
  obtain ⟨⟨l, v1⟩, hlen, h⟩ := bind_ok_inv _ _ _ h
  obtain ⟨⟨lc, dat1⟩, hL, hlen⟩ := bind_ok_inv _ _ _ hlen
  cases hlen
  have hn1 := hnn dat lc dat1 hL
  simp only [V.u8] at h
  obtain ⟨ob, hob, h⟩ := bind_ok_inv _ _ _ h
  obtain ⟨buf, hbuf, h⟩ := bind_ok_inv _ _ _ h
  rw [if_neg (by simp [hn1])] at h
  obtain ⟨⟨b, dat2⟩, hM, h⟩ := bind_ok_inv _ _ _ h
  obtain ⟨out, hout, h⟩ := bind_ok_inv _ _ _ h
  cases h
  have hn8 : n8 (PIPv4.fixIHL (n8 ihl)).toNat = PIPv4.fixIHL (n8 ihl) := by simp [n8]
  rw [hn8] at hbuf hout
  have hbuf : fill _ (ipv4Pre ver (PIPv4.fixIHL (n8 ihl)) dscp ecn ln ident fl fo ttl pr cs src dst ob) = .ok buf := hbuf
  have hout : fillFrom buf (piecesLen (ipv4Pre ver (PIPv4.fixIHL (n8 ihl)) dscp ecn ln ident fl fo ttl pr cs src dst ob))
    [pCopy b] = .ok bs := hout
  obtain ⟨hpb, htight, hplen⟩ := ipv4_pre ver (PIPv4.fixIHL (n8 ihl)) dscp ecn ln ident fl fo ttl pr cs src dst ob
  have hall := fill_then _ _ _ _ _ hbuf hout
  have hstart := fill_start_le _ _ (pCopy b) [] _ hall (by intro k; simp [pCopy])
  rw [hplen] at hstart
  refine ⟨lc, dat1, b, dat2, ob, hL, hM, by simp [UBuffer.marshalM, hob, same], hstart, ?_⟩
  have htight' : ∀ p ∈ ipv4Pre ver (PIPv4.fixIHL (n8 ihl)) dscp ecn ln ident fl fo ttl pr cs src dst ob ++ [pCopy b], p.Tight := by
    intro p hp
    simp only [List.mem_append, List.mem_cons, List.not_mem_nil, or_false] at hp
    rcases hp with hp | rfl
    · exact htight p hp
    · trivial
  rw [fill_cutPad _ _ _ htight' hall, piecesBytes_append, hpb]
  simp [piecesBytes, Piece.bytes, pCopy]

/-- IHL·4 = 20 + |options| and a payload whose encoding has the size it reports ⇒ header ++ options ++ payload -/
theorem ipv4_intactW (L : V → R (UInt16 × V)) (M : V → R (Bytes × V)) (ver ihl dscp ecn ln ident fl fo ttl pr cs : Nat)
    (src dst : Bytes) (opts dat : V) (bs : Bytes) (v2 : V)
    (h : PIPv4.marshalW L M (.obj "p.IPv4" [.num ver, .num ihl, .num dscp, .num ecn, .num ln, .num ident, .num fl, .num fo,
      .num ttl, .num pr, .num cs, .bytes src, .bytes dst, opts, dat]) = .ok (bs, v2))
    (hn : dat.isNil = false) (hnn : ∀ x l x1, L x = .ok (l, x1) → x1.isNil = false)
    (hc : SizeAfter L M dat)
    (hihl : ∀ ob, UBuffer.content opts = .ok ob → (PIPv4.hdrLen (PIPv4.fixIHL (n8 ihl))).toNat = 20 + ob.length) :
    ∃ lc dat1 b dat2 ob, L dat = .ok (lc, dat1) ∧ M dat1 = .ok (b, dat2) ∧ UBuffer.marshalM opts = .ok (ob, opts) ∧
      bs = ipv4Header ver (PIPv4.fixIHL (n8 ihl)) dscp ecn ln ident fl fo ttl pr cs src dst ++ ob ++ b := by
  obtain ⟨lc, dat1, b, dat2, ob, hL, hM, hob, hstart, hbs⟩ :=
    ipv4_embedW L M ver ihl dscp ecn ln ident fl fo ttl pr cs src dst opts dat bs v2 h hn hnn
  refine ⟨lc, dat1, b, dat2, ob, hL, hM, hob, ?_⟩
  have hb := hc lc dat1 b dat2 hL hM
  have hob' : UBuffer.content opts = .ok ob := by
    simp only [UBuffer.marshalM] at hob
    obtain ⟨c, hc', hob⟩ := bind_ok_inv _ _ _ hob
    obtain ⟨e, _⟩ := same_ok _ _ _ _ hob
    subst e; exact hc'
  have hi := hihl ob hob'
  rw [hbs]
  apply cutPad_eq_of_length
  simp only [List.length_append, ipv4Header_length, hb]
  rw [UInt16.toNat_add] at hstart ⊢
  have := lc.toNat_lt
  have := (PIPv4.hdrLen (PIPv4.fixIHL (n8 ihl))).toNat_lt
  omega

/-- … without payload -/
theorem ipv4_intact_nilW (L : V → R (UInt16 × V)) (M : V → R (Bytes × V)) (ver ihl dscp ecn ln ident fl fo ttl pr cs : Nat)
    (src dst : Bytes) (opts : V) (bs : Bytes) (v2 : V)
    (h : PIPv4.marshalW L M (.obj "p.IPv4" [.num ver, .num ihl, .num dscp, .num ecn, .num ln, .num ident, .num fl, .num fo,
      .num ttl, .num pr, .num cs, .bytes src, .bytes dst, opts, .nil]) = .ok (bs, v2))
    (hihl : ∀ ob, UBuffer.content opts = .ok ob → (PIPv4.hdrLen (PIPv4.fixIHL (n8 ihl))).toNat = 20 + ob.length) :
    ∃ ob, UBuffer.marshalM opts = .ok (ob, opts) ∧
      bs = ipv4Header ver (PIPv4.fixIHL (n8 ihl)) dscp ecn ln ident fl fo ttl pr cs src dst ++ ob := by
  obtain ⟨ob, hob, hbs⟩ := ipv4_embed_nilW L M ver ihl dscp ecn ln ident fl fo ttl pr cs src dst opts bs v2 h
  refine ⟨ob, hob, ?_⟩
  have hob' : UBuffer.content opts = .ok ob := by
    simp only [UBuffer.marshalM] at hob
    obtain ⟨c, hc', hob⟩ := bind_ok_inv _ _ _ hob
    obtain ⟨e, _⟩ := same_ok _ _ _ _ hob
    subst e; exact hc'
  rw [hbs]
  apply cutPad_eq_of_length
  simp only [List.length_append, ipv4Header_length, hihl ob hob']

/-- an IPv4 packet of package protocol with any payload, in the familiar form: 5 ≤ IHL and IHL·4 = 20 + |options| ⇒
    the 20 fixed bytes, the complete options, the complete payload encoding -/
theorem ipv4_intact (ver ihl dscp ecn ln ident fl fo ttl pr cs : Nat) (src dst ob : Bytes) (dat : V) (bs : Bytes) (v2 : V)
    (h : PIPv4.marshalM (.obj "p.IPv4" [.num ver, .num ihl, .num dscp, .num ecn, .num ln, .num ident, .num fl, .num fo,
      .num ttl, .num pr, .num cs, .bytes src, .bytes dst, UBuffer.mk ob, dat]) = .ok (bs, v2))
    (hn : dat.isNil = false) (hsb : SmallBuf dat) (h5 : 5 ≤ ihl) (h63 : ihl ≤ 63) (hihl : ihl * 4 = 20 + ob.length) :
    ∃ lc dat1 b dat2, protoAnyLenM dat = .ok (lc, dat1) ∧ protoAnyMarshalM dat1 = .ok (b, dat2) ∧
      bs = ipv4Header ver (n8 ihl) dscp ecn ln ident fl fo ttl pr cs src dst ++ ob ++ b := by
  obtain ⟨lc, dat1, b, dat2, ob', hL, hM, hob, hbs⟩ := ipv4_intactW protoAnyLenM protoAnyMarshalM ver ihl dscp ecn ln ident fl
    fo ttl pr cs src dst (UBuffer.mk ob) dat bs v2 h hn (protoAny_nonNil _) (protoAny_sizeAfter _ dat hsb)
    (fun ob' hob' => by cases hob'; exact ipv4_hdrLen_of ihl ob.length h5 h63 hihl)
  cases hob
  have hfix : PIPv4.fixIHL (n8 ihl) = n8 ihl := by
    unfold PIPv4.fixIHL
    rw [if_neg]
    rw [UInt8.lt_iff_toNat_lt]
    have e : (n8 ihl).toNat = ihl := by simp [n8]; omega
    rw [e]
    show ¬ ihl < 5
    omega
  rw [hfix] at hbs
  exact ⟨lc, dat1, b, dat2, hL, hM, hbs⟩

/-- IHL 7 with 8 option bytes and a UDP payload: hypotheses satisfiable, and the packet is header, options, datagram -/
example : ∃ bs v2, PIPv4.marshalM (.obj "p.IPv4" [.num 4, .num 7, .num 0, .num 0, .num 40, .num 1, .num 2, .num 0,
      .num 64, .num 17, .num 0, .bytes [10, 0, 0, 1], .bytes [10, 0, 0, 2], UBuffer.mk [1, 1, 1, 1, 1, 1, 1, 0],
      .obj "p.UDP" [.num 53, .num 53, .num 12, .num 0, .bytes [9, 8, 7, 6]]]) = .ok (bs, v2) ∧ 7 * 4 = 20 + 8 ∧
    bs = [0x47, 0, 0, 40, 0, 1, 0x40, 0, 64, 17, 0, 0, 10, 0, 0, 1, 10, 0, 0, 2] ++ [1, 1, 1, 1, 1, 1, 1, 0]
      ++ [0, 53, 0, 53, 0, 12, 0, 0, 9, 8, 7, 6] :=
  ⟨_, _, rfl, rfl, rfl⟩

/-- the condition is necessary (IHL too small, no payload): IHL 5 with 8 option bytes — the options are not in the
    encoding at all -/
theorem ipv4_cut_options :
    ∃ v2, PIPv4.marshalM (.obj "p.IPv4" [.num 4, .num 5, .num 0, .num 0, .num 28, .num 1, .num 2, .num 0,
      .num 64, .num 17, .num 0, .bytes [10, 0, 0, 1], .bytes [10, 0, 0, 2], UBuffer.mk [1, 1, 1, 1, 1, 1, 1, 0], .nil])
      = .ok ([0x45, 0, 0, 28, 0, 1, 0x40, 0, 64, 17, 0, 0, 10, 0, 0, 1, 10, 0, 0, 2], v2) := ⟨_, rfl⟩

/-- … with a payload: IHL 5, 8 option bytes, a 12-byte UDP datagram — the options are there, the datagram's last 8
    bytes (checksum and all the data) are cut off -/
theorem ipv4_cut_payload :
    ∃ v2, PIPv4.marshalM (.obj "p.IPv4" [.num 4, .num 5, .num 0, .num 0, .num 40, .num 1, .num 2, .num 0,
      .num 64, .num 17, .num 0, .bytes [10, 0, 0, 1], .bytes [10, 0, 0, 2], UBuffer.mk [1, 1, 1, 1, 1, 1, 1, 0],
      .obj "p.UDP" [.num 53, .num 53, .num 12, .num 0xabcd, .bytes [9, 8, 7, 6]]])
      = .ok ([0x45, 0, 0, 40, 0, 1, 0x40, 0, 64, 17, 0, 0, 10, 0, 0, 1, 10, 0, 0, 2] ++ [1, 1, 1, 1, 1, 1, 1, 0]
          ++ [0, 53, 0, 53], v2) := ⟨_, rfl⟩

/-- (IHL too large) IHL 6 without options: the payload is complete but starts at byte 20 instead of 24 and 4 zero bytes
    follow it -/
theorem ipv4_shifted_payload :
    ∃ v2, PIPv4.marshalM (.obj "p.IPv4" [.num 4, .num 6, .num 0, .num 0, .num 28, .num 1, .num 2, .num 0,
      .num 64, .num 1, .num 0, .bytes [10, 0, 0, 1], .bytes [10, 0, 0, 2], UBuffer.mk [],
      .obj "p.ICMP" [.num 8, .num 0, .num 0, .bytes []]])
      = .ok ([0x46, 0, 0, 28, 0, 1, 0x40, 0, 64, 1, 0, 0, 10, 0, 0, 1, 10, 0, 0, 2] ++ [8, 0, 0, 0] ++ [0, 0, 0, 0], v2) :=
  ⟨_, rfl⟩

/-- the 16-bit size limit, seen from the container: an IPv4 packet carrying a Buffer of 65536 + k bytes reports
    20 + k bytes and its encoding holds only the FIRST k bytes of the Buffer — silently (`copy` cuts).  This is the
    counterpart of `buffer_size_counterexample`; `SmallBuf` in the theorems above excludes exactly this. -/
theorem ipv4_big_buffer_truncated (c : Bytes) (k : Nat) (hk : c.length = 65536 + k) (hk' : k < 65516) (bs : Bytes) (v2 : V)
    (h : PIPv4.marshalM (.obj "p.IPv4" [.num 4, .num 5, .num 0, .num 0, .num 0, .num 0, .num 0, .num 0,
      .num 64, .num 253, .num 0, .bytes [10, 0, 0, 1], .bytes [10, 0, 0, 2], UBuffer.mk [], UBuffer.mk c]) = .ok (bs, v2)) :
    bs = ipv4Header 4 5 0 0 0 0 0 0 64 253 0 [10, 0, 0, 1] [10, 0, 0, 2] ++ c.take k := by
  obtain ⟨lc, dat1, b, dat2, ob, hL, hM, hob, _, hbs⟩ := ipv4_embedW protoAnyLenM protoAnyMarshalM 4 5 0 0 0 0 0 0 64 253 0
    [10, 0, 0, 1] [10, 0, 0, 2] (UBuffer.mk []) (UBuffer.mk c) bs v2 h rfl (protoAny_nonNil _)
  cases hob
  have hL' : protoAnyLenM (UBuffer.mk c) = .ok (n16 c.length, UBuffer.mk c) := rfl
  rw [hL'] at hL
  cases hL
  have hM' : protoAnyMarshalM (UBuffer.mk c) = .ok (c, UBuffer.mk c) := rfl
  rw [hM'] at hM
  cases hM
  have hfix : PIPv4.fixIHL (n8 5) = 5 := rfl
  rw [hfix] at hbs
  have hlen : (PIPv4.hdrLen 5 + n16 c.length).toNat = 20 + k := by
    rw [UInt16.toNat_add]
    have : (n16 c.length).toNat = k := by simp only [n16, UInt16.toNat_ofNat', hk]; omega
    rw [this]
    show (20 + k) % 2 ^ 16 = 20 + k
    omega
  rw [hbs, hlen]
  unfold cutPad
  simp only [List.append_nil]
  rw [List.take_append, ipv4Header_length]
  have e1 : (ipv4Header 4 5 0 0 0 0 0 0 64 253 0 [10, 0, 0, 1] [10, 0, 0, 2]).take (20 + k)
      = ipv4Header 4 5 0 0 0 0 0 0 64 253 0 [10, 0, 0, 1] [10, 0, 0, 2] :=
    List.take_of_length_le (by rw [ipv4Header_length]; omega)
  rw [e1]
  simp only [List.length_append, ipv4Header_length, hk]
  have e2 : 20 + k - (20 + (65536 + k)) = 0 := by omega
  have e3 : 20 + k - 20 = k := by omega
  rw [e2, e3]
  simp [zeros]

/-! ### IPv6 → extension headers, payload.
    Len() counts the extension headers that are PRESENT (non-nil); the encoder writes the ones the NextHeader CHAIN
    visits (`PIPv6.extChain`: start at the packet's NextHeader; 0 → hop-by-hop, 43 → routing, 44 → fragment, each
    continuing with its own NextHeader; anything else ends the chain).
    Condition: the chain visits headers whose sizes add up to what Len() counted. -/

/-- every entry of the encoder's chain is the own encoding of one of the three extension headers of the value -/
theorem extChain_mem (hbh rt fr : V) : ∀ (f : Nat) (nxt : UInt8) (chain : List Bytes),
    PIPv6.extChain hbh rt fr f nxt = .ok chain →
    ∀ c ∈ chain, PHopByHop.marshalM hbh = .ok (c, hbh) ∨ PRouting.marshalM rt = .ok (c, rt) ∨ PFragment.marshalM fr = .ok (c, fr) := by
  intro f
  induction f with
  | zero => intro nxt chain h; exact absurd h (by simp [PIPv6.extChain])
  | succ f ih =>
    intro nxt chain h c hc
    unfold PIPv6.extChain at h
    split at h
    · obtain ⟨nx, _, h⟩ := bind_ok_inv _ _ _ h
      obtain ⟨b, hb, h⟩ := bind_ok_inv _ _ _ h
      obtain ⟨rest, hrest, h⟩ := bind_ok_inv _ _ _ h
      cases h
      simp only [List.mem_cons] at hc
      rcases hc with rfl | hc
      · left; simp [PHopByHop.marshalM, hb, same]
      · exact ih nx rest hrest c hc
    · split at h
      · obtain ⟨nx, _, h⟩ := bind_ok_inv _ _ _ h
        obtain ⟨b, hb, h⟩ := bind_ok_inv _ _ _ h
        obtain ⟨rest, hrest, h⟩ := bind_ok_inv _ _ _ h
        cases h
        simp only [List.mem_cons] at hc
        rcases hc with rfl | hc
        · right; left; simp [PRouting.marshalM, hb, same]
        · exact ih nx rest hrest c hc
      · split at h
        · obtain ⟨nx, _, h⟩ := bind_ok_inv _ _ _ h
          obtain ⟨b, hb, h⟩ := bind_ok_inv _ _ _ h
          obtain ⟨rest, hrest, h⟩ := bind_ok_inv _ _ _ h
          cases h
          simp only [List.mem_cons] at hc
          rcases hc with rfl | hc
          · right; right; simp [PFragment.marshalM, hb, same]
          · exact ih nx rest hrest c hc
        · cases h; exact absurd hc (by simp)

/-- EVERY value with addresses of at most 16 bytes, ANY payload functions: the first Len() bytes of
    `fixed 40 bytes ++ the visited extension headers' encodings ++ payload encoding` (zero-padded); Len() = 40 + the sizes
    of the present extension headers + the payload's Len(); the payload started inside the buffer -/
theorem ipv6_embedW (L : V → R (UInt16 × V)) (M : V → R (Bytes × V)) (ver tc fl ln nh hl : Nat) (src dst : Bytes)
    (hbh rt fr dat : V) (bs : Bytes) (v2 : V)
    (h : PIPv6.marshalW L M (.obj "p.IPv6" [.num ver, .num tc, .num fl, .num ln, .num nh, .num hl, .bytes src, .bytes dst,
      hbh, rt, fr, dat]) = .ok (bs, v2))
    (hs : src.length ≤ 16) (hd : dst.length ≤ 16) (hnn : ∀ x l x1, L x = .ok (l, x1) → x1.isNil = false) :
    ∃ l1 l2 l3 lc dat1 chain b dat2,
      PIPv6.optLen PHopByHop.len hbh = .ok l1 ∧ PIPv6.optLen PRouting.len rt = .ok l2 ∧
      PIPv6.optLen PFragment.len fr = .ok l3 ∧ L dat = .ok (lc, dat1) ∧
      PIPv6.extChain hbh rt fr ((40 + l1 + l2 + l3 + lc).toNat / 8 + 2) (n8 nh) = .ok chain ∧
      M dat1 = .ok (b, dat2) ∧
      40 + chain.flatten.length ≤ (40 + l1 + l2 + l3 + lc).toNat ∧
      bs = cutPad (ipv6Header ver tc fl ln nh hl src dst ++ chain.flatten ++ b) (40 + l1 + l2 + l3 + lc).toNat := by
  unfold PIPv6.marshalW at h
  obtain ⟨⟨l, v1⟩, hlen, h⟩ := bind_ok_inv _ _ _ h
  obtain ⟨l1, l2, l3, lc, dat1, h1, h2, h3, hL, el, ev⟩ := Rep.PIPv6.lenW_inv L _ _ _ _ _ _ _ _ _ _ _ _ l v1 hlen
  subst el; subst ev
  have hn1 := hnn dat lc dat1 hL
  simp only at h
  obtain ⟨_, _, h⟩ := bind_ok_inv _ _ _ h
  obtain ⟨chain, hchain, h⟩ := bind_ok_inv _ _ _ h
  obtain ⟨buf, hbuf, h⟩ := bind_ok_inv _ _ _ h
  rw [if_neg (by simp [hn1])] at h
  obtain ⟨⟨b, dat2⟩, hM, h⟩ := bind_ok_inv _ _ _ h
  obtain ⟨out, hout, h⟩ := bind_ok_inv _ _ _ h
  cases h
  have hbuf : fill _ (ipv6Pre ver tc fl ln nh hl src dst ++ chain.map pCopy ++ [pCopy []]) = .ok buf := hbuf
  have hout : fillFrom buf (piecesLen (ipv6Pre ver tc fl ln nh hl src dst ++ chain.map pCopy ++ [pCopy []])) [pCopy b]
    = .ok bs := hout
  obtain ⟨hpb, htight, hplen⟩ := ipv6_pre ver tc fl ln nh hl src dst hs hd
  have hall := fill_then _ _ _ _ _ hbuf hout
  have hstart := fill_start_le _ _ (pCopy b) [] _ hall (by intro k; simp [pCopy])
  have hcopy : (chain.map pCopy) = chain.map Piece.copy := rfl
  have hpl2 : piecesLen (ipv6Pre ver tc fl ln nh hl src dst ++ chain.map pCopy ++ [pCopy []]) = 40 + chain.flatten.length := by
    rw [piecesLen_append, piecesLen_append, hplen, hcopy,
      piecesLen_eq_bytes _ (tight_map_copy chain), piecesBytes_map_copy]
    simp [piecesLen, pCopy, Piece.adv]
  rw [hpl2] at hstart
  refine ⟨l1, l2, l3, lc, dat1, chain, b, dat2, h1, h2, h3, hL, hchain, hM, hstart, ?_⟩
  have htight' : ∀ p ∈ ipv6Pre ver tc fl ln nh hl src dst ++ chain.map pCopy ++ [pCopy []] ++ [pCopy b], p.Tight := by
    intro p hp
    simp only [List.mem_append, List.mem_cons, List.not_mem_nil, or_false] at hp
    rcases hp with ((hp | hp) | rfl) | rfl
    · exact htight p hp
    · exact tight_map_copy chain p hp
    · trivial
    · trivial
  rw [fill_cutPad _ _ _ htight' hall, piecesBytes_append, piecesBytes_append, piecesBytes_append, hpb, hcopy,
    piecesBytes_map_copy]
  simp [piecesBytes, Piece.bytes, pCopy]

/-- the next-header chain visits extension headers whose sizes add up to what Len() counted (the sizes of the
    headers that are present) and the payload's encoding has the size it reports ⇒
    fixed header ++ the visited extension headers' encodings ++ payload, nothing else -/
theorem ipv6_intactW (L : V → R (UInt16 × V)) (M : V → R (Bytes × V)) (ver tc fl ln nh hl : Nat) (src dst : Bytes)
    (hbh rt fr dat : V) (bs : Bytes) (v2 : V)
    (h : PIPv6.marshalW L M (.obj "p.IPv6" [.num ver, .num tc, .num fl, .num ln, .num nh, .num hl, .bytes src, .bytes dst,
      hbh, rt, fr, dat]) = .ok (bs, v2))
    (hs : src.length ≤ 16) (hd : dst.length ≤ 16) (hnn : ∀ x l x1, L x = .ok (l, x1) → x1.isNil = false)
    (hc : SizeAfter L M dat)
    (l1 l2 l3 : UInt16) (h1 : PIPv6.optLen PHopByHop.len hbh = .ok l1) (h2 : PIPv6.optLen PRouting.len rt = .ok l2)
    (h3 : PIPv6.optLen PFragment.len fr = .ok l3)
    (f : Nat) (chain : List Bytes) (hch : PIPv6.extChain hbh rt fr f (n8 nh) = .ok chain)
    (hcons : chain.flatten.length = l1.toNat + l2.toNat + l3.toNat) :
    ∃ lc dat1 b dat2, L dat = .ok (lc, dat1) ∧ M dat1 = .ok (b, dat2) ∧
      bs = ipv6Header ver tc fl ln nh hl src dst ++ chain.flatten ++ b := by
  obtain ⟨l1', l2', l3', lc, dat1, chain', b, dat2, h1', h2', h3', hL, hch', hM, hstart, hbs⟩ :=
    ipv6_embedW L M ver tc fl ln nh hl src dst hbh rt fr dat bs v2 h hs hd hnn
  rw [h1] at h1'; rw [h2] at h2'; rw [h3] at h3'
  cases h1'; cases h2'; cases h3'
  have := extChain_agree hbh rt fr _ _ _ _ _ hch hch'
  subst this
  refine ⟨lc, dat1, b, dat2, hL, hM, ?_⟩
  have hb := hc lc dat1 b dat2 hL hM
  have b1 := optLen_hbh_le hbh l1 h1
  have b2 := optLen_rt_le rt l2 h2
  have b3 := optLen_fr_le fr l3 h3
  rw [hbs]
  apply cutPad_eq_of_length
  simp only [List.length_append, ipv6Header_length, hb, hcons]
  simp only [UInt16.toNat_add] at hstart ⊢
  have := lc.toNat_lt
  have e40 : (40 : UInt16).toNat = 40 := rfl
  rw [e40] at hstart ⊢
  rw [hcons] at hstart
  omega

/-- IPv6 with all three extension headers chained in the canonical order: the fixed header, then each extension
    header's own encoding, then the payload's -/
theorem ipv6_intact_all3W (L : V → R (UInt16 × V)) (M : V → R (Bytes × V)) (ver tc fl ln hl : Nat) (src dst : Bytes)
    (hbh rt fr dat : V) (bs : Bytes) (v2 : V) (x : UInt8)
    (h : PIPv6.marshalW L M (.obj "p.IPv6" [.num ver, .num tc, .num fl, .num ln, .num 0, .num hl, .bytes src, .bytes dst,
      hbh, rt, fr, dat]) = .ok (bs, v2))
    (hs : src.length ≤ 16) (hd : dst.length ≤ 16) (hnn : ∀ x l x1, L x = .ok (l, x1) → x1.isNil = false)
    (hc : SizeAfter L M dat)
    (n1 : PHopByHop.nextHeader hbh = .ok 43) (n2 : PRouting.nextHeader rt = .ok 44) (n3 : PFragment.nextHeader fr = .ok x)
    (h0 : x.toNat ≠ 0) (h43 : x.toNat ≠ 43) (h44 : x.toNat ≠ 44) :
    ∃ hb rb fb lc dat1 b dat2, PHopByHop.marshalM hbh = .ok (hb, hbh) ∧ PRouting.marshalM rt = .ok (rb, rt) ∧
      PFragment.marshalM fr = .ok (fb, fr) ∧ L dat = .ok (lc, dat1) ∧ M dat1 = .ok (b, dat2) ∧
      bs = ipv6Header ver tc fl ln 0 hl src dst ++ hb ++ rb ++ fb ++ b := by
  obtain ⟨l1, l2, l3, lc, dat1, chain, b, dat2, h1, h2, h3, hL, hch, hM, _, _⟩ :=
    ipv6_embedW L M ver tc fl ln 0 hl src dst hbh rt fr dat bs v2 h hs hd hnn
  obtain ⟨hb, rb, fb, hhb, hrb, hfb, hchain⟩ := extChain_hbh_rt_fr_inv hbh rt fr _ x chain hch n1 n2 n3 h0 h43 h44
  subst hchain
  obtain ⟨k1, hk1, e1⟩ := PHopByHop.bytes_len hbh hb hhb
  obtain ⟨k2, hk2, e2⟩ := PRouting.bytes_len rt rb hrb
  obtain ⟨k3, hk3, e3⟩ := PFragment.bytes_len fr fb hfb
  obtain ⟨lc', dat1', b', dat2', hL', hM', hbs⟩ := ipv6_intactW L M ver tc fl ln 0 hl src dst hbh rt fr dat bs v2 h hs hd hnn hc
    k1 k2 k3 (by rw [optLen_of_nextHeader_hbh hbh _ n1, hk1]) (by rw [optLen_of_nextHeader_rt rt _ n2, hk2])
    (by rw [optLen_of_nextHeader_fr fr _ n3, hk3]) _ [hb, rb, fb] hch (by simp [e1, e2, e3]; omega)
  refine ⟨hb, rb, fb, lc', dat1', b', dat2', by simp [PHopByHop.marshalM, hhb, same], by simp [PRouting.marshalM, hrb, same],
    by simp [PFragment.marshalM, hfb, same], hL', hM', ?_⟩
  rw [hbs]; simp

/-- IPv6 without extension headers -/
theorem ipv6_intact_plainW (L : V → R (UInt16 × V)) (M : V → R (Bytes × V)) (ver tc fl ln nh hl : Nat) (src dst : Bytes)
    (dat : V) (bs : Bytes) (v2 : V)
    (h : PIPv6.marshalW L M (.obj "p.IPv6" [.num ver, .num tc, .num fl, .num ln, .num nh, .num hl, .bytes src, .bytes dst,
      .nil, .nil, .nil, dat]) = .ok (bs, v2))
    (hs : src.length ≤ 16) (hd : dst.length ≤ 16) (hnn : ∀ x l x1, L x = .ok (l, x1) → x1.isNil = false)
    (hc : SizeAfter L M dat)
    (h0 : (n8 nh).toNat ≠ 0) (h43 : (n8 nh).toNat ≠ 43) (h44 : (n8 nh).toNat ≠ 44) :
    ∃ lc dat1 b dat2, L dat = .ok (lc, dat1) ∧ M dat1 = .ok (b, dat2) ∧
      bs = ipv6Header ver tc fl ln nh hl src dst ++ b := by
  obtain ⟨lc, dat1, b, dat2, hL, hM, hbs⟩ := ipv6_intactW L M ver tc fl ln nh hl src dst .nil .nil .nil dat bs v2 h hs hd hnn hc
    0 0 0 rfl rfl rfl 1 [] (extChain_plain _ _ _ 0 _ h0 h43 h44) rfl
  exact ⟨lc, dat1, b, dat2, hL, hM, by simpa using hbs⟩

/-- IPv6 of package protocol, all three extension headers in canonical order, any payload (any nesting) -/
theorem ipv6_intact_all3 (ver tc fl ln hl : Nat) (src dst : Bytes) (hbh rt fr dat : V) (bs : Bytes) (v2 : V) (x : UInt8)
    (h : PIPv6.marshalM (.obj "p.IPv6" [.num ver, .num tc, .num fl, .num ln, .num 0, .num hl, .bytes src, .bytes dst,
      hbh, rt, fr, dat]) = .ok (bs, v2))
    (hs : src.length ≤ 16) (hd : dst.length ≤ 16) (hsb : SmallBuf dat)
    (n1 : PHopByHop.nextHeader hbh = .ok 43) (n2 : PRouting.nextHeader rt = .ok 44) (n3 : PFragment.nextHeader fr = .ok x)
    (h0 : x.toNat ≠ 0) (h43 : x.toNat ≠ 43) (h44 : x.toNat ≠ 44) :
    ∃ hb rb fb lc dat1 b dat2, PHopByHop.marshalM hbh = .ok (hb, hbh) ∧ PRouting.marshalM rt = .ok (rb, rt) ∧
      PFragment.marshalM fr = .ok (fb, fr) ∧ protoAnyLenM dat = .ok (lc, dat1) ∧ protoAnyMarshalM dat1 = .ok (b, dat2) ∧
      bs = ipv6Header ver tc fl ln 0 hl src dst ++ hb ++ rb ++ fb ++ b :=
  ipv6_intact_all3W _ _ ver tc fl ln hl src dst hbh rt fr dat bs v2 x h hs hd (protoAny_nonNil _)
    (protoAny_sizeAfter _ dat hsb) n1 n2 n3 h0 h43 h44

/-- IPv6 of package protocol without extension headers -/
theorem ipv6_intact_plain (ver tc fl ln nh hl : Nat) (src dst : Bytes) (dat : V) (bs : Bytes) (v2 : V)
    (h : PIPv6.marshalM (.obj "p.IPv6" [.num ver, .num tc, .num fl, .num ln, .num nh, .num hl, .bytes src, .bytes dst,
      .nil, .nil, .nil, dat]) = .ok (bs, v2))
    (hs : src.length ≤ 16) (hd : dst.length ≤ 16) (hsb : SmallBuf dat)
    (h0 : (n8 nh).toNat ≠ 0) (h43 : (n8 nh).toNat ≠ 43) (h44 : (n8 nh).toNat ≠ 44) :
    ∃ lc dat1 b dat2, protoAnyLenM dat = .ok (lc, dat1) ∧ protoAnyMarshalM dat1 = .ok (b, dat2) ∧
      bs = ipv6Header ver tc fl ln nh hl src dst ++ b :=
  ipv6_intact_plainW _ _ ver tc fl ln nh hl src dst dat bs v2 h hs hd (protoAny_nonNil _) (protoAny_sizeAfter _ dat hsb)
    h0 h43 h44

/-- with 16-byte addresses the fixed header holds the addresses themselves -/
theorem ipv6Header_v6 (ver tc fl ln nh hl : Nat) (src dst : Bytes) (hs : src.length = 16) (hd : dst.length = 16) :
    ipv6Header ver tc fl ln nh hl src dst = [PIPv6.packB0 (n8 ver) (n8 tc), PIPv6.packB1 (n8 tc) (n32 fl)]
      ++ be16 (PIPv6.packLo (n32 fl)) ++ be16 (n16 ln) ++ [n8 nh, n8 hl] ++ src ++ dst := by
  unfold ipv6Header
  rw [pFitTo_exact 16 src hs, pFitTo_exact 16 dst hd]

/-- 2001:db8::1 -/
def exSrc6 : Bytes := [0x20, 1, 0xd, 0xb8, 0, 0, 0, 0, 0, 0, 0, 0, 0, 0, 0, 1]
/-- 2001:db8::2 -/
def exDst6 : Bytes := [0x20, 1, 0xd, 0xb8, 0, 0, 0, 0, 0, 0, 0, 0, 0, 0, 0, 2]
/-- hop-by-hop header: Pad1 + PadN(3), next = routing -/
def exHbh : V := .obj "p.HopByHopHeader" [.num 43, .num 0, .list [.obj "p.Option" [.num 0, .num 0, .bytes []],
  .obj "p.Option" [.num 1, .num 3, .bytes [0, 0, 0]]]]
/-- routing header: 8 bytes, next = fragment -/
def exRt : V := .obj "p.RoutingHeader" [.num 44, .num 0, .num 0, .num 0, UBuffer.mk [0, 0, 0, 0]]
/-- fragment header, next = ICMPv6 -/
def exFr : V := .obj "p.FragmentHeader" [.num 58, .num 0, .num 5, .num 1, .num 0x01020304]
/-- echo request -/
def exIcmp : V := .obj "p.ICMP" [.num 128, .num 0, .num 0x1234, .bytes [1, 2, 3, 4]]
/-- IPv6 with all three extension headers and an ICMPv6 payload -/
def exIp6 : V := .obj "p.IPv6" [.num 6, .num 0, .num 0, .num 32, .num 0, .num 64, .bytes exSrc6, .bytes exDst6,
  exHbh, exRt, exFr, exIcmp]
/-- … in a VLAN-tagged Ethernet frame -/
def exFrame : V := .obj "p.Ethernet" [.num 0, .bytes [1, 2, 3, 4, 5, 6], .bytes [7, 8, 9, 10, 11, 12],
  .obj "p.VLAN" [.num 0x8100, .num 3, .num 0, .num 100], .num 0x86dd, exIp6]

/-- IPv6 with all three extension headers: every hypothesis of `ipv6_intact_all3` holds, the packet is
    40 + 8 + 8 + 8 + 8 = 72 bytes -/
example : ∃ bs v2, PIPv6.marshalM exIp6 = .ok (bs, v2) ∧ PHopByHop.nextHeader exHbh = .ok 43 ∧
    PRouting.nextHeader exRt = .ok 44 ∧ PFragment.nextHeader exFr = .ok 58 ∧
    bs = ipv6Header 6 0 0 32 0 64 exSrc6 exDst6 ++ [43, 0, 0, 1, 3, 0, 0, 0] ++ [44, 0, 0, 0, 0, 0, 0, 0]
      ++ [58, 0, 0, 41, 1, 2, 3, 4] ++ [128, 0, 0x12, 0x34, 1, 2, 3, 4] ∧ bs.length = 72 :=
  ⟨_, _, rfl, rfl, rfl, rfl, rfl, rfl⟩

/-- Ethernet(VLAN, IPv6(hop-by-hop, routing, fragment, ICMPv6)): the frame is the 18 header bytes followed by exactly the
    72 bytes the IPv6 packet's own MarshalBinary() returns — `ethernet_intact` applied to a nested value -/
example : ∃ bs v2 b v3, PEthernet.marshalM exFrame = .ok (bs, v2) ∧ PIPv6.marshalM exIp6 = .ok (b, v3) ∧
    bs = [1, 2, 3, 4, 5, 6] ++ [7, 8, 9, 10, 11, 12] ++ [0x81, 0, 0x60, 100] ++ [0x86, 0xdd] ++ b ∧ bs.length = 90 :=
  ⟨_, _, _, _, rfl, rfl, rfl, rfl⟩

example : SmallBuf exIp6 := smallBuf_of_kind _ (by decide)

/-- the condition is necessary (a present header the chain does not visit): a hop-by-hop header is set but the packet's
    NextHeader says UDP — Len() counts its 8 bytes, the encoder never writes it: the header is dropped and 8 zero bytes
    trail the datagram -/
theorem ipv6_drops_unchained_header :
    ∃ v2, PIPv6.marshalM (.obj "p.IPv6" [.num 6, .num 0, .num 0, .num 16, .num 17, .num 64, .bytes exSrc6, .bytes exDst6,
      exHbh, .nil, .nil, .obj "p.UDP" [.num 53, .num 53, .num 8, .num 0, .bytes []]])
      = .ok (ipv6Header 6 0 0 16 17 64 exSrc6 exDst6 ++ [0, 53, 0, 53, 0, 8, 0, 0] ++ zeros 8, v2) := ⟨_, rfl⟩

/-- the hypothesis "addresses of at most 16 bytes" of `ipv6_embedW` is necessary: an address slice longer than its
    16-byte window is copied in full and then overwritten by its neighbour — the last 2 bytes of an 18-byte source are
    replaced by the destination (net.IP is a slice; 16 bytes is the caller's obligation) -/
theorem ipv6_long_address_overwritten :
    ∃ v2, PIPv6.marshalM (.obj "p.IPv6" [.num 6, .num 0, .num 0, .num 4, .num 59, .num 64, .bytes (exSrc6 ++ [0xee, 0xff]),
      .bytes exDst6, .nil, .nil, .nil, UBuffer.mk [1, 2, 3, 4]])
      = .ok (ipv6Header 6 0 0 4 59 64 exSrc6 exDst6 ++ [1, 2, 3, 4], v2) := ⟨_, rfl⟩

/-! ### DHCP → options (Len / Read; no MarshalBinary).  `PDHCP.readBuf v` is the content of the buffer `Read` assembles;
    `Read(b)` returns its first `len(b)` bytes. -/

/-- DHCP → options, EVERY value: the buffer Read assembles is the fixed part, then every option's own encoding in
    order, then the END option unless one is in the list.  Nothing is cut (the buffer grows by `append`). -/
theorem dhcp_embed (op ht hl ho xid secs fl : Nat) (cip yip sip gip hw sname file : Bytes) (os : List V) (bs : Bytes)
    (h : PDHCP.readBuf (.obj "p.DHCP" [.num op, .num ht, .num hl, .num ho, .num xid, .num secs, .num fl, .bytes cip,
      .bytes yip, .bytes sip, .bytes gip, .bytes hw, .bytes sname, .bytes file, .list os]) = .ok bs) :
    ∃ obs e, mapR PDhcpOpt.marshalOption os = .ok obs ∧ PDHCP.hasEnd os = .ok e ∧
      bs = dhcpHeader op ht hl ho xid secs fl cip yip sip gip hw sname file ++ obs.flatten ++ (if e then [] else [255]) := by
  simp only [PDHCP.readBuf] at h
  obtain ⟨ob, hob, h⟩ := bind_ok_inv _ _ _ h
  obtain ⟨e, he, h⟩ := bind_ok_inv _ _ _ h
  obtain ⟨obs, hobs, rfl⟩ := optBytes_eq os ob hob
  refine ⟨obs, e, hobs, he, ?_⟩
  cases e with
  | true => simp only [if_true, Res.bind_ok] at h; cases h; simp [dhcpHeader]
  | false =>
    simp only [Bool.false_eq_true, if_false] at h
    have : PDhcpOpt.marshalOption (PDhcpOpt.mk (n8 Gen.protocol.DHCP_OPT_END) []) = .ok [255] := rfl
    rw [this] at h
    simp only [Res.bind_ok] at h
    cases h; simp [dhcpHeader]

/-- DHCP, EVERY value: whenever Len() and Read both succeed, Len() is the number of bytes Read assembles — as a
    `uint16`, i.e. modulo 2^16.  No hypothesis on the value is needed: an address field of any length is written as
    exactly 4 bytes (`PDHCP.ip4`), the hardware address is cut / padded to 16, server name and file to 64 / 128, a
    pad / end option counts and writes 1 byte, and any other option for which the encoder succeeds has at most 253
    data bytes, so its `uint16(len + 2)` is exact. -/
theorem dhcp_size (v : V) (l : UInt16) (bs : Bytes) (h1 : PDHCP.len v = .ok l) (h2 : PDHCP.readBuf v = .ok bs) :
    l.toNat = bs.length % 65536 := by
  unfold PDHCP.readBuf at h2
  split at h2
  · rename_i op ht hl ho xid secs fl cip yip sip gip hw sname file os
    obtain ⟨obs, e, hobs, he, hbs⟩ := dhcp_embed op ht hl ho xid secs fl cip yip sip gip hw sname file os bs
      (by unfold PDHCP.readBuf; exact h2)
    simp only [PDHCP.len] at h1
    obtain ⟨ls, hls, h1⟩ := bind_ok_inv _ _ _ h1
    obtain ⟨e', he', h1⟩ := bind_ok_inv _ _ _ h1
    cases h1
    obtain ⟨_, hsum⟩ := dhcp_opts_size os ls obs hls hobs
    rw [he] at he'
    cases he'
    rw [hbs]
    simp only [List.length_append, dhcpHeader_length, hsum]
    rw [UInt16.toNat_add, UInt16.toNat_add, sum16_toNat_mod]
    cases e with
    | true =>
      simp only [if_true, List.length_nil]
      show ((240 + _ % 65536) % 2 ^ 16 + 0) % 2 ^ 16 = _
      omega
    | false =>
      simp only [Bool.false_eq_true, if_false, List.length_cons, List.length_nil]
      show ((240 + _ % 65536) % 2 ^ 16 + 1) % 2 ^ 16 = _
      omega
  · exact absurd h2 (by simp)

/-- … hence exact whenever the message is below 64 KiB (Len() is a `uint16`; `dhcp_size_wraps` shows that the bound is
    needed) -/
theorem dhcp_size_exact (v : V) (l : UInt16) (bs : Bytes) (h1 : PDHCP.len v = .ok l) (h2 : PDHCP.readBuf v = .ok bs)
    (hlt : bs.length < 65536) : bs.length = l.toNat := by
  have := dhcp_size v l bs h1 h2
  omega

/-- … and `Read(b)` into a buffer of Len() bytes returns the whole message: nothing is dropped -/
theorem dhcp_read_all (v : V) (l : UInt16) (bs : Bytes) (h1 : PDHCP.len v = .ok l) (h2 : PDHCP.readBuf v = .ok bs)
    (hlt : bs.length < 65536) : PDHCP.read v l.toNat = .ok bs := by
  have := dhcp_size_exact v l bs h1 h2 hlt
  simp only [PDHCP.read, h2, Res.bind_ok]
  rw [← this, List.take_length]

/-- a DHCP request with 4-byte addresses and the given options -/
def dhcpEx (os : List V) : V := .obj "p.DHCP" [.num 1, .num 1, .num 6, .num 0, .num 7, .num 0, .num 0, .bytes [10, 0, 0, 1],
  .bytes [10, 0, 0, 2], .bytes [10, 0, 0, 3], .bytes [10, 0, 0, 4], .bytes [1, 2, 3, 4, 5, 6], .bytes (zeros 64), .bytes (zeros 128),
  .list os]

/-- an explicit END option: Len() counts 1 byte for it, Read writes 1 (240 + 3 + 1 = 244) -/
example : PDHCP.len (dhcpEx [PDhcpOpt.mk 53 [1], PDhcpOpt.mk 255 []]) = .ok 244 ∧
    ∃ bs, PDHCP.readBuf (dhcpEx [PDhcpOpt.mk 53 [1], PDhcpOpt.mk 255 []]) = .ok bs ∧ bs.length = 244 :=
  ⟨rfl, _, rfl, by decide +kernel⟩

/-- a PAD option: the same (240 + 1 + 3 + 1 appended END = 245) -/
example : PDHCP.len (dhcpEx [PDhcpOpt.mk 0 [], PDhcpOpt.mk 53 [1]]) = .ok 245 ∧
    ∃ bs, PDHCP.readBuf (dhcpEx [PDhcpOpt.mk 0 [], PDhcpOpt.mk 53 [1]]) = .ok bs ∧ bs.length = 245 :=
  ⟨rfl, _, rfl, by decide +kernel⟩

/-- message type + client id: 240 + 3 + 8 + 1 (END appended) = 252 bytes reported and assembled -/
example : PDHCP.len (dhcpEx [PDhcpOpt.mk 53 [1], PDhcpOpt.mk 61 [1, 2, 3, 4, 5, 6]]) = .ok 252 ∧
    ∃ bs, PDHCP.readBuf (dhcpEx [PDhcpOpt.mk 53 [1], PDhcpOpt.mk 61 [1, 2, 3, 4, 5, 6]]) = .ok bs ∧ bs.length = 252 :=
  ⟨rfl, _, rfl, by decide +kernel⟩

/-- a 16-byte address (net.IP of an IPv4 address is usually the 16-byte form), an address of a wrong length, a
    20-byte hardware address, a short server name: 241 bytes reported and assembled, the v4-mapped address is
    written as its last four bytes -/
example : PDHCP.len (.obj "p.DHCP" [.num 1, .num 1, .num 6, .num 0, .num 7, .num 0, .num 0, .bytes (ipV4Mapped 10 0 0 1),
      .bytes [0, 0, 0, 0], .bytes [1, 2, 3], .bytes [], .bytes ((List.range 20).map UInt8.ofNat), .bytes [115], .bytes (zeros 128),
      .list []]) = .ok 241 ∧
    ∃ bs, PDHCP.readBuf (.obj "p.DHCP" [.num 1, .num 1, .num 6, .num 0, .num 7, .num 0, .num 0, .bytes (ipV4Mapped 10 0 0 1),
      .bytes [0, 0, 0, 0], .bytes [1, 2, 3], .bytes [], .bytes ((List.range 20).map UInt8.ofNat), .bytes [115], .bytes (zeros 128),
      .list []]) = .ok bs ∧ bs.length = 241 ∧ (bs.drop 12).take 16 = [10, 0, 0, 1, 0, 0, 0, 0, 0, 0, 0, 0, 0, 0, 0, 0] :=
  ⟨rfl, _, rfl, by decide +kernel, by decide +kernel⟩

/-- an option with more than 253 data bytes does not encode: Read fails (and Len() does not), so the theorems above
    say nothing about such a value — the hypothesis "Read succeeds" cannot be dropped -/
theorem dhcp_long_option_fails :
    PDHCP.len (dhcpEx [PDhcpOpt.mk 43 (zeros 254)]) = .ok 497 ∧ PDHCP.readBuf (dhcpEx [PDhcpOpt.mk 43 (zeros 254)]) = .err :=
  ⟨by decide +kernel, by decide +kernel⟩

/-- Len() is a `uint16`: 258 options of 253 data bytes make a message of 240 + 258·255 + 1 = 66031 bytes, for which
    Len() reports 66031 − 65536 = 495.  The bound of `dhcp_size_exact` is needed (as for every 16-bit length of the
    library; a DHCP message is carried in a UDP datagram and cannot be that long on the wire) -/
theorem dhcp_size_wraps :
    PDHCP.len (dhcpEx (List.replicate 258 (PDhcpOpt.mk 43 (zeros 253)))) = .ok 495 ∧
    ∃ bs, PDHCP.readBuf (dhcpEx (List.replicate 258 (PDhcpOpt.mk 43 (zeros 253)))) = .ok bs ∧ bs.length = 66031 := by
  refine ⟨by decide +kernel, ?_⟩
  have h : (do let bs ← PDHCP.readBuf (dhcpEx (List.replicate 258 (PDhcpOpt.mk 43 (zeros 253)))); Res.ok bs.length)
      = .ok 66031 := by decide +kernel
  obtain ⟨bs, hbs, h'⟩ := bind_ok_inv _ _ _ h
  injection h' with h'
  exact ⟨bs, hbs, h'⟩

/-! ### LLDP → TLVs (Len / Read; no MarshalBinary).  Len() is the sum of the three TLV sizes; Read writes the chassis,
    port and ttl TLVs one behind the other. -/

/-- what a TLV's Read produces: type/length word, subtype, data — 3 + |data| bytes whatever the Length field says -/
theorem tlv_read_length (kind : String) (ty ln st : Nat) (d : Bytes) (b : Bytes)
    (h : PTLV.readBuf kind (.obj kind [.num ty, .num ln, .num st, .bytes d]) = .ok b) :
    b = be16 (PTLV.packTypeLen (n8 ty) (n16 ln)) ++ [n8 st] ++ d ∧ b.length = 3 + d.length := by
  simp only [PTLV.readBuf, if_true] at h
  cases h
  exact ⟨rfl, by simp; omega⟩

/-- LLDP, EVERY value for which Len() and the three TLVs' own Read succeed (`cb`, `pb`, `tb` are what the chassis,
    port and ttl TLV write for themselves): Len() is the sum of the three sizes as a `uint16`, i.e. modulo 2^16, and
    leaves the receiver alone.  The 9-bit Length fields are caller-supplied and play no role. -/
theorem lldp_size_mod (ch pt ttl : V) (l : UInt16) (v1 : V) (cb pb tb : Bytes)
    (h1 : PLLDP.lenM (.obj "p.LLDP" [ch, pt, ttl]) = .ok (l, v1))
    (hcb : PTLV.readBuf "p.ChassisTLV" ch = .ok cb) (hpb : PTLV.readBuf "p.PortTLV" pt = .ok pb)
    (htb : PTLV.ttlReadBuf ttl = .ok tb) :
    v1 = .obj "p.LLDP" [ch, pt, ttl] ∧ l.toNat = (cb.length + pb.length + tb.length) % 65536 :=
  lldp_len_mod ch pt ttl l v1 cb pb tb h1 hcb hpb htb

/-- LLDP, size = bytes and children intact: for every LLDP value whose three TLVs together stay below 64 KiB (always
    the case when the chassis / port ids fit the 9-bit TLV length: `lldp_size_of_tlv_fit`), `Read` into a buffer of at
    least Len() bytes returns Len(), and the buffer then holds the chassis TLV's bytes, the port TLV's bytes and the
    ttl TLV's bytes, complete and in this order, followed by what it held before behind them.  Nothing is
    overwritten by a neighbour, nothing is dropped. -/
theorem lldp_size (ch pt ttl : V) (l : UInt16) (v1 : V) (cb pb tb b : Bytes)
    (h1 : PLLDP.lenM (.obj "p.LLDP" [ch, pt, ttl]) = .ok (l, v1))
    (hcb : PTLV.readBuf "p.ChassisTLV" ch = .ok cb) (hpb : PTLV.readBuf "p.PortTLV" pt = .ok pb)
    (htb : PTLV.ttlReadBuf ttl = .ok tb)
    (hfit : cb.length + pb.length + tb.length < 65536) (hb : l.toNat ≤ b.length) :
    l.toNat = cb.length + pb.length + tb.length ∧
    PLLDP.read (.obj "p.LLDP" [ch, pt, ttl]) b = .ok (cb ++ pb ++ tb ++ b.drop l.toNat, l.toNat) := by
  obtain ⟨_, hl⟩ := lldp_len_mod ch pt ttl l v1 cb pb tb h1 hcb hpb htb
  have hl' : l.toNat = cb.length + pb.length + tb.length := by omega
  refine ⟨hl', ?_⟩
  rw [hl']
  exact lldp_read_eq ch pt ttl cb pb tb b hcb hpb htb (by omega)

/-- the same, read off a successful `Read`: whenever Len() and Read (into a buffer of at least Len() ≥ 1 bytes)
    both succeed on a value whose ids together stay below 64 KiB, the count Read returns is Len() and the first Len()
    bytes of the buffer are the three TLVs -/
theorem lldp_size_of_read (kc kp : String) (cty cln cst pty pln pst : V) (cd pd : Bytes) (ttl : V) (l : UInt16) (v1 : V)
    (b out : Bytes) (n : Nat)
    (h1 : PLLDP.lenM (.obj "p.LLDP" [.obj kc [cty, cln, cst, .bytes cd], .obj kp [pty, pln, pst, .bytes pd], ttl]) = .ok (l, v1))
    (h2 : PLLDP.read (.obj "p.LLDP" [.obj kc [cty, cln, cst, .bytes cd], .obj kp [pty, pln, pst, .bytes pd], ttl]) b = .ok (out, n))
    (hfit : cd.length + pd.length + 10 < 65536) (hb : l.toNat ≤ b.length) :
    n = l.toNat ∧ l.toNat = 10 + cd.length + pd.length ∧
    ∃ cb pb tb, PTLV.readBuf "p.ChassisTLV" (.obj kc [cty, cln, cst, .bytes cd]) = .ok cb ∧
      PTLV.readBuf "p.PortTLV" (.obj kp [pty, pln, pst, .bytes pd]) = .ok pb ∧ PTLV.ttlReadBuf ttl = .ok tb ∧
      out = cb ++ pb ++ tb ++ b.drop l.toNat := by
  -- Len() ≥ 10, so the buffer is not empty and Read evaluates all three TLVs
  have hl : l.toNat = 10 + cd.length + pd.length := by
    simp only [PLLDP.lenM] at h1
    obtain ⟨e1, _⟩ := same_ok _ _ _ _ h1
    subst e1
    rw [UInt16.toNat_add, UInt16.toNat_add]
    simp only [n16, UInt16.toNat_ofNat']
    show (((3 + cd.length) % 2 ^ 16 + (3 + pd.length) % 2 ^ 16) % 2 ^ 16 + 4) % 2 ^ 16 = _
    omega
  have h2' := h2
  simp only [PLLDP.read] at h2'
  obtain ⟨cb, hcb, g1⟩ := bind_ok_inv _ _ _ h2'
  clear h2'
  have lc : cb.length = 3 + cd.length := by
    obtain ⟨_, _, _, cd', ec, _, lc'⟩ := tlv_readBuf_shape _ _ _ hcb
    have : cd' = cd := by cases ec; rfl
    rw [lc', this]
  rw [if_neg (by omega)] at g1
  obtain ⟨pb, hpb, g2⟩ := bind_ok_inv _ _ _ g1
  clear g1
  have lp : pb.length = 3 + pd.length := by
    obtain ⟨_, _, _, pd', ep, _, lp'⟩ := tlv_readBuf_shape _ _ _ hpb
    have : pd' = pd := by cases ep; rfl
    rw [lp', this]
  rw [if_neg (by omega)] at g2
  obtain ⟨tb, htb, _⟩ := bind_ok_inv _ _ _ g2
  obtain ⟨_, _, _, _, _, lt⟩ := ttl_readBuf_shape _ _ htb
  obtain ⟨_, hr⟩ := lldp_size _ _ ttl l v1 cb pb tb b h1 hcb hpb htb (by omega) hb
  rw [hr] at h2
  cases h2
  exact ⟨rfl, hl, cb, pb, tb, hcb, hpb, htb, rfl⟩

/-- ids that fit the 9-bit TLV length (at most 511 bytes each) are far below the bound of `lldp_size` -/
theorem lldp_size_of_tlv_fit (cty cln cst pty pln pst tty tln secs : Nat) (cd pd : Bytes) (b : Bytes)
    (hc : cd.length ≤ 511) (hp : pd.length ≤ 511) (hb : 10 + cd.length + pd.length ≤ b.length) :
    PLLDP.lenM (.obj "p.LLDP" [.obj "p.ChassisTLV" [.num cty, .num cln, .num cst, .bytes cd],
        .obj "p.PortTLV" [.num pty, .num pln, .num pst, .bytes pd], .obj "p.TTLTLV" [.num tty, .num tln, .num secs]])
      = .ok (n16 (10 + cd.length + pd.length), .obj "p.LLDP" [.obj "p.ChassisTLV" [.num cty, .num cln, .num cst, .bytes cd],
        .obj "p.PortTLV" [.num pty, .num pln, .num pst, .bytes pd], .obj "p.TTLTLV" [.num tty, .num tln, .num secs]]) ∧
    PLLDP.read (.obj "p.LLDP" [.obj "p.ChassisTLV" [.num cty, .num cln, .num cst, .bytes cd],
        .obj "p.PortTLV" [.num pty, .num pln, .num pst, .bytes pd], .obj "p.TTLTLV" [.num tty, .num tln, .num secs]]) b
      = .ok ((be16 (PTLV.packTypeLen (n8 cty) (n16 cln)) ++ [n8 cst] ++ cd)
          ++ (be16 (PTLV.packTypeLen (n8 pty) (n16 pln)) ++ [n8 pst] ++ pd)
          ++ (be16 (PTLV.packTypeLen (n8 tty) (n16 tln)) ++ be16 (n16 secs))
          ++ b.drop (10 + cd.length + pd.length), 10 + cd.length + pd.length) := by
  have hcb : PTLV.readBuf "p.ChassisTLV" (.obj "p.ChassisTLV" [.num cty, .num cln, .num cst, .bytes cd])
      = .ok (be16 (PTLV.packTypeLen (n8 cty) (n16 cln)) ++ [n8 cst] ++ cd) := by simp only [PTLV.readBuf, if_true]
  have hpb : PTLV.readBuf "p.PortTLV" (.obj "p.PortTLV" [.num pty, .num pln, .num pst, .bytes pd])
      = .ok (be16 (PTLV.packTypeLen (n8 pty) (n16 pln)) ++ [n8 pst] ++ pd) := by simp only [PTLV.readBuf, if_true]
  have htb : PTLV.ttlReadBuf (.obj "p.TTLTLV" [.num tty, .num tln, .num secs])
      = .ok (be16 (PTLV.packTypeLen (n8 tty) (n16 tln)) ++ be16 (n16 secs)) := rfl
  obtain ⟨l, v1, h1⟩ : ∃ l v1, PLLDP.lenM (.obj "p.LLDP" [.obj "p.ChassisTLV" [.num cty, .num cln, .num cst, .bytes cd],
        .obj "p.PortTLV" [.num pty, .num pln, .num pst, .bytes pd], .obj "p.TTLTLV" [.num tty, .num tln, .num secs]])
      = .ok (l, v1) := ⟨_, _, rfl⟩
  have lc : (be16 (PTLV.packTypeLen (n8 cty) (n16 cln)) ++ [n8 cst] ++ cd).length = 3 + cd.length := by simp; omega
  have lp : (be16 (PTLV.packTypeLen (n8 pty) (n16 pln)) ++ [n8 pst] ++ pd).length = 3 + pd.length := by simp; omega
  have lt : (be16 (PTLV.packTypeLen (n8 tty) (n16 tln)) ++ be16 (n16 secs)).length = 4 := rfl
  obtain ⟨e1, hl⟩ := lldp_len_mod _ _ _ l v1 _ _ _ h1 hcb hpb htb
  rw [lc, lp, lt] at hl
  have hl' : l.toNat = 10 + cd.length + pd.length := by omega
  have el : l = n16 (10 + cd.length + pd.length) := by
    apply UInt16.toNat_inj.mp
    rw [hl']; simp only [n16, UInt16.toNat_ofNat']; omega
  obtain ⟨_, hr⟩ := lldp_size _ _ _ l v1 _ _ _ b h1 hcb hpb htb (by rw [lc, lp, lt]; omega) (by omega)
  rw [hl'] at hr
  exact ⟨by rw [h1, e1, el], hr⟩

/-- concrete: chassis = MAC address (9 bytes), port = interface name "eth0" (7 bytes), TTL 120: Len() = 20, Read into
    a 32-byte buffer returns 20 and writes the three TLVs behind one another -/
example :
    ∃ out, PLLDP.lenM (.obj "p.LLDP" [.obj "p.ChassisTLV" [.num 1, .num 7, .num 4, .bytes [0, 1, 2, 3, 4, 5]],
        .obj "p.PortTLV" [.num 2, .num 5, .num 5, .bytes [101, 116, 104, 48]], .obj "p.TTLTLV" [.num 3, .num 2, .num 120]])
        = .ok (20, .obj "p.LLDP" [.obj "p.ChassisTLV" [.num 1, .num 7, .num 4, .bytes [0, 1, 2, 3, 4, 5]],
        .obj "p.PortTLV" [.num 2, .num 5, .num 5, .bytes [101, 116, 104, 48]], .obj "p.TTLTLV" [.num 3, .num 2, .num 120]]) ∧
      PLLDP.read (.obj "p.LLDP" [.obj "p.ChassisTLV" [.num 1, .num 7, .num 4, .bytes [0, 1, 2, 3, 4, 5]],
        .obj "p.PortTLV" [.num 2, .num 5, .num 5, .bytes [101, 116, 104, 48]], .obj "p.TTLTLV" [.num 3, .num 2, .num 120]])
        (zeros 32) = .ok (out, 20) ∧
      out = [2, 7, 4, 0, 1, 2, 3, 4, 5] ++ [4, 5, 5, 101, 116, 104, 48] ++ [6, 2, 0, 120] ++ zeros 12 :=
  ⟨_, rfl, rfl, by decide +kernel⟩

/-- a buffer shorter than Len(): Read copies what fits and returns the shortened count (here 12 of 20 bytes: the
    chassis TLV and the first three bytes of the port TLV; the ttl TLV finds no room, its Read returns 0) — the
    hypothesis `Len() ≤ len(b)` of `lldp_size` is the caller's part of the contract -/
theorem lldp_short_buffer :
    PLLDP.read (.obj "p.LLDP" [.obj "p.ChassisTLV" [.num 1, .num 7, .num 4, .bytes [0, 1, 2, 3, 4, 5]],
        .obj "p.PortTLV" [.num 2, .num 5, .num 5, .bytes [101, 116, 104, 48]], .obj "p.TTLTLV" [.num 3, .num 2, .num 120]])
        (zeros 12) = .ok ([2, 7, 4, 0, 1, 2, 3, 4, 5, 4, 5, 5], 12) := by decide +kernel

/-- Len() is a `uint16`: with a chassis id of 65530 bytes (which no 9-bit TLV length can describe) the chassis TLV
    alone writes 65533 bytes while Len() reports (65533 + 3 + 4) − 65536 = 4.  The bound of `lldp_size` is needed. -/
theorem lldp_size_wraps :
    ∃ l v1 cb, PLLDP.lenM (.obj "p.LLDP" [.obj "p.ChassisTLV" [.num 1, .num 7, .num 4, .bytes (zeros 65530)],
        .obj "p.PortTLV" [.num 2, .num 5, .num 5, .bytes []], .obj "p.TTLTLV" [.num 3, .num 2, .num 120]]) = .ok (l, v1) ∧
      l.toNat = 4 ∧
      PTLV.readBuf "p.ChassisTLV" (.obj "p.ChassisTLV" [.num 1, .num 7, .num 4, .bytes (zeros 65530)]) = .ok cb ∧
      cb.length = 65533 := by
  refine ⟨_, _, _, rfl, ?_, rfl, ?_⟩
  · rw [zeros_length]
    decide
  · rw [(tlv_read_length "p.ChassisTLV" 1 7 4 (zeros 65530) _ rfl).2, zeros_length]

/-! ### composition: the container theorems chain through the interface dispatch -/

/-- Ethernet(IPv4(x)) for ANY payload x: with 6-byte MAC addresses and IHL·4 = 20 + |options| the frame is
    MAC header ++ [VLAN tag] ++ ethertype ++ IPv4 fixed header ++ options ++ the encoding of x — `ethernet_intact` and
    `ipv4_intactW` chained through the dispatch (x is handled one level further down: depth budget 15) -/
theorem ethernet_ipv4_intact (del : V) (dst src : Bytes) (vlan : V) (et : Nat)
    (ver ihl dscp ecn ln ident fl fo ttl pr cs : Nat) (isrc idst ob : Bytes) (x : V) (bs : Bytes) (v2 : V)
    (h : PEthernet.marshalM (.obj "p.Ethernet" [del, .bytes dst, .bytes src, vlan, .num et,
      .obj "p.IPv4" [.num ver, .num ihl, .num dscp, .num ecn, .num ln, .num ident, .num fl, .num fo,
        .num ttl, .num pr, .num cs, .bytes isrc, .bytes idst, UBuffer.mk ob, x]]) = .ok (bs, v2))
    (hdst : dst.length = 6) (hsrc : src.length = 6) (hx : x.isNil = false) (hsb : SmallBuf x)
    (h5 : 5 ≤ ihl) (h63 : ihl ≤ 63) (hihl : ihl * 4 = 20 + ob.length) :
    ∃ vb lc x1 b x2, EthTag vlan vb ∧ protoAnyLenD 15 x = .ok (lc, x1) ∧ protoAnyMarshalD 15 x1 = .ok (b, x2) ∧
      bs = dst ++ src ++ vb ++ be16 (n16 et)
        ++ (ipv4Header ver (n8 ihl) dscp ecn ln ident fl fo ttl pr cs isrc idst ++ ob ++ b) := by
  obtain ⟨lc0, dat1, b0, dat2, vb, hL0, hM0, hvb, hbs⟩ := ethernet_intact del dst src vlan et _ bs v2 h rfl hdst hsrc
    (smallBuf_of_kind _ (by show "p.IPv4" ≠ "u.Buffer"; decide))
  -- the payload's Len() is IPv4.Len() one level down
  have eL : protoAnyLenM (.obj "p.IPv4" [.num ver, .num ihl, .num dscp, .num ecn, .num ln, .num ident, .num fl, .num fo,
        .num ttl, .num pr, .num cs, .bytes isrc, .bytes idst, UBuffer.mk ob, x])
      = PIPv4.lenW (protoAnyLenD 15) (.obj "p.IPv4" [.num ver, .num ihl, .num dscp, .num ecn, .num ln, .num ident, .num fl,
        .num fo, .num ttl, .num pr, .num cs, .bytes isrc, .bytes idst, UBuffer.mk ob, x]) := rfl
  rw [eL, Rep.PIPv4.lenW_obj _ _ _ _ _ _ _ _ _ _ _ _ _ _ _ _ hx] at hL0
  obtain ⟨⟨lc, x1⟩, hLx, hL0⟩ := bind_ok_inv _ _ _ hL0
  cases hL0
  have hfix : PIPv4.fixIHL (n8 ihl) = n8 ihl := by
    unfold PIPv4.fixIHL
    rw [if_neg]
    rw [UInt8.lt_iff_toNat_lt]
    have e : (n8 ihl).toNat = ihl := by simp [n8]; omega
    rw [e]
    show ¬ ihl < 5
    omega
  have hto : (n8 ihl).toNat = ihl := by simp [n8]; omega
  simp only [hfix, V.u8, hto] at hM0
  have eM : protoAnyMarshalM (.obj "p.IPv4" [.num ver, .num ihl, .num dscp, .num ecn, .num ln, .num ident, .num fl, .num fo,
        .num ttl, .num pr, .num cs, .bytes isrc, .bytes idst, UBuffer.mk ob, x1])
      = PIPv4.marshalW (protoAnyLenD 15) (protoAnyMarshalD 15) (.obj "p.IPv4" [.num ver, .num ihl, .num dscp, .num ecn,
        .num ln, .num ident, .num fl, .num fo, .num ttl, .num pr, .num cs, .bytes isrc, .bytes idst, UBuffer.mk ob, x1]) := rfl
  rw [eM] at hM0
  have hx1 : x1.isNil = false := protoAny_nonNil 15 x lc x1 hLx
  have hsb1 : SmallBuf x1 := smallBuf_after_len 15 x lc x1 hsb hLx
  obtain ⟨lc', x1', b, x2, ob', hL1, hM1, hob, hb0⟩ := ipv4_intactW (protoAnyLenD 15) (protoAnyMarshalD 15) ver ihl dscp ecn
    ln ident fl fo ttl pr cs isrc idst (UBuffer.mk ob) x1 b0 _ hM0 hx1 (protoAny_nonNil 15)
    (protoAny_sizeAfter 15 x1 hsb1) (fun ob' hob' => by cases hob'; exact ipv4_hdrLen_of ihl ob.length h5 h63 hihl)
  cases hob
  -- the second Len() pass finds what the first left
  have hidem := ((Rep.protoAny_childOK 15).rep x).lenIdem lc x1 hLx
  rw [hidem] at hL1
  cases hL1
  rw [hfix] at hb0
  exact ⟨vb, lc, x1, b, x2, hvb, hLx, hM1, by rw [hbs, hb0]⟩

/-- Ethernet(IPv4(UDP)) -/
example : ∃ bs v2, PEthernet.marshalM (.obj "p.Ethernet" [.num 0, .bytes [1, 2, 3, 4, 5, 6], .bytes [7, 8, 9, 10, 11, 12],
      PVLAN.zero, .num 0x0800, .obj "p.IPv4" [.num 4, .num 5, .num 0, .num 0, .num 32, .num 1, .num 2, .num 0,
        .num 64, .num 17, .num 0, .bytes [10, 0, 0, 1], .bytes [10, 0, 0, 2], UBuffer.mk [],
        .obj "p.UDP" [.num 53, .num 53, .num 12, .num 0, .bytes [9, 8, 7, 6]]]]) = .ok (bs, v2) ∧
    bs = [1, 2, 3, 4, 5, 6, 7, 8, 9, 10, 11, 12, 8, 0] ++ [0x45, 0, 0, 32, 0, 1, 0x40, 0, 64, 17, 0, 0, 10, 0, 0, 1, 10, 0, 0, 2]
      ++ [0, 53, 0, 53, 0, 12, 0, 0, 9, 8, 7, 6] :=
  ⟨_, _, rfl, rfl⟩

end OFV.Props.C06c
