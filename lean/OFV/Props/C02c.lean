/-
  C02 (part c) — the INDEPENDENT grammar walker (OFV.Spec.Walk, written from the OpenFlow 1.3 / Nicira / ONF-bundle
  specifications) accepts what the model's container encoders produce, and sees exactly the children, for EVERY value.

  C02b proved the per-element wire facts and walks by a generic "follow the declared lengths" receiver (`Elem.walkBy`).
  Here the receiver is the specification walker itself (`Spec.walkTlvMaps`, `Spec.walkHelloElems`, `Spec.walkProps`,
  `Spec.walkLearnSpecs`, `Spec.walkBuckets` / `Spec.walkActions`, `Spec.walk`), which besides following the lengths
  checks minimum lengths, alignment, zero padding and type codes.
  Reading: `K.marshalM v = .ok (bs, _)` and explicit size hypotheses ("the message stays below 64 KiB", as the sizes are
  computed in uint16 by the library)  ⇒  the walker's list walk over the element area of `bs` returns `.ok` with one
  subtree per child, whose bytes are the child's own encoding, in order.
  Helpers about the walker alone are in OFV/Lemmas/Walk2.lean.
  Done: TLV-table-mod body (`tlvTableMod_walk`), Hello element list and the WHOLE Hello through `Spec.walk`
  (`hello_walk`, `hello_specWalk`), any list of experimenter bundle properties (`bundleProps_walk`);
  single actions through the real `Spec.walkAction` for the kinds listed in `ActionKnown` (`action_accept`,
  `actionOutput_accept`, `nx_accept_of_wire`), a Bucket (`bucket_specWalk`) and a GroupMod with any list of buckets of
  such actions through `Spec.walkBuckets` (`groupMod_embeds`, `groupMod_specWalk`).
  Not done (time): packet-out, acceptance of note / controller / learn / set-field / reg-load2 / dec-ttl-cnt-ids /
  nat / conntrack actions, the BundleAdd frame, learn specs (`Spec.walkLearnSpecs`), flow-mod through `Spec.walk`,
  group-mod through the top-level `Spec.walk` (needs the header codes and the pad byte of the GroupMod to be zero).
  No encoding produced by the model was found that the walker rejects.
-/
import OFV.Props.C02b
import OFV.Lemmas.Walk2
import OFV.Lemmas.Walk3
import OFV.Lemmas.LayNat
namespace OFV.Props.C02c
open OFV OFV.Go OFV.Model OFV.Spec OFV.Elem OFV.Walk2 OFV.Walk3 OFV.Props.C02b

/-- a list of encodings whose sizes are the reported 16-bit sizes, fitting 16 bits in total -/
theorem flat_sum (ls : List UInt16) (bss : List Bytes) (h : bss.map List.length = ls.map UInt16.toNat)
    (hlt : bss.flatten.length < 65536) : (sum16 ls).toNat = bss.flatten.length := by
  have : bss.flatten.length = (ls.map UInt16.toNat).sum := by rw [flatten_length_sum, h]
  rw [this]; exact sum16_toNat ls (by omega)

theorem flatten_length_const (bss : List Bytes) (k : Nat) (h : ∀ b ∈ bss, b.length = k) : bss.flatten.length = k * bss.length := by
  induction bss with
  | nil => simp
  | cons b bs ih =>
    have := ih (fun x hx => h x (by simp [hx]))
    have := h b (by simp)
    simp only [List.flatten_cons, List.length_append, List.length_cons]
    rw [Nat.mul_add]; omega

theorem count_le_flatten (bss : List Bytes) (h : ∀ b ∈ bss, 1 ≤ b.length) : bss.length ≤ bss.flatten.length := by
  induction bss with
  | nil => simp
  | cons b bs ih =>
    have := ih (fun x hx => h x (by simp [hx]))
    have := h b (by simp)
    simp only [List.flatten_cons, List.length_append, List.length_cons]
    omega

theorem tlvMap_ok (x : V) (b : Bytes) (y : V) (h : TLVTableMap.marshalM x = .ok (b, y)) : TlvOK b := by
  unfold TLVTableMap.marshalM at h
  split at h
  · rename_i c t l i p
    have h' : TLVTableMap.marshalM (.obj "TLVTableMap" [.num c, .num t, .num l, .num i, p]) = .ok (b, y) := h
    obtain ⟨h8, e⟩ := tlvTableMap_wire c t l i p b y h'
    refine ⟨h8, ?_⟩
    rw [e]
    have : ∀ (pre z : Bytes), pre.length = 6 → slice (pre ++ z) 6 2 = z.take 2 := by
      intro pre z hp
      unfold slice
      rw [← hp, List.drop_left]
    rw [this _ _ (by simp)]; rfl
  · exact absurd h (by simp)

theorem tlvMap_len_same (xs : List V) (ls : List UInt16) (ys : List V) (h : mapM2 TLVTableMap.lenM xs = .ok (ls, ys)) :
    ys = xs := by
  induction xs generalizing ls ys with
  | nil => simp [mapM2] at h; exact h.2
  | cons x xs ih =>
    obtain ⟨a, x', as', xs', h1, h2, _, e2⟩ := mapM2_cons_ok _ _ _ _ _ h
    obtain ⟨_, e⟩ := same_ok _ _ _ _ h1
    rw [e2, e, ih _ _ h2]

/-- WALK of a TLV-table-mod body (the Nicira vendor message NXT_TLV_TABLE_MOD), EVERY value with fewer than 8 191 maps:
    the specification walker's map walk over the bytes behind the 8 fixed bytes accepts and returns exactly one
    subtree per map — the maps' own encodings, in order — and the 6 reserved bytes are zero -/
theorem tlvTableMod_walk (c : V) (p : V) (ms : List V) (bs : Bytes) (v2 : V) (hn : 8 + 8 * ms.length < 65536)
    (h : TLVTableMod.marshalM (.obj "TLVTableMod" [c, p, .list ms]) = .ok (bs, v2)) :
    ∃ mbs ms2, mapM2 TLVTableMap.marshalM ms = .ok (mbs, ms2) ∧ bs.length = 8 + 8 * ms.length ∧
      zerosAt bs 2 6 "tlv-table-mod" = .ok () ∧ bs.drop 8 = mbs.flatten ∧
      ∀ fuel, ms.length < fuel →
        walkTlvMaps fuel (bs.drop 8) = .ok (mbs.map (fun b => Tree.node "tlvmap" b [])) := by
  unfold TLVTableMod.marshalM at h
  obtain ⟨⟨l, v1⟩, hl, g1⟩ := bind_ok_inv _ _ _ h
  simp only [TLVTableMod.lenM] at hl
  obtain ⟨⟨ls, ms1⟩, hm1, g2⟩ := bind_ok_inv _ _ _ hl
  have e1 := tlvMap_len_same _ _ _ hm1
  subst e1
  have el : l = 8 + sum16 ls ∧ v1 = .obj "TLVTableMod" [c, p, .list ms1] := by cases g2; exact ⟨rfl, rfl⟩
  obtain ⟨rfl, rfl⟩ := el
  simp only at g1
  split at g1
  · rename_i heq
    cases heq
    rename_i cn
    obtain ⟨⟨mbs, ms2⟩, hm2, g3⟩ := bind_ok_inv _ _ _ g1
    obtain ⟨out, hf, g4⟩ := bind_ok_inv _ _ _ g3
    have eb : bs = out := by cases g4; rfl
    subst eb
    have hok : ∀ b ∈ mbs, TlvOK b := mapM2_forall_bytes _ TlvOK _ _ _ hm2 (fun x _ b y hb => tlvMap_ok x b y hb)
    have hcnt : mbs.length = ms1.length := (mapM2_length _ _ _ _ hm2).1
    have hfl : mbs.flatten.length = 8 * ms1.length := by
      rw [flatten_length_const mbs 8 (fun b hb => (hok b hb).1), hcnt]
    have hlens := mapM2_lengths TLVTableMap.lenM TLVTableMap.marshalM ms1 ls ms1 mbs ms2 hm1 hm2
      (fun x _ l y b z hx hy => by
        obtain ⟨e, _⟩ := same_ok _ _ _ _ hx
        rw [e, (tlvMap_ok y b z hy).1]; rfl)
    have hs := flat_sum ls mbs hlens (by omega)
    have hp : (2 : Nat) ^ 16 = 65536 := rfl
    have eL : (8 + sum16 ls : UInt16).toNat = 8 + mbs.flatten.length := by
      have h8 : (8 : UInt16).toNat = 8 := rfl
      rw [UInt16.toNat_add, hs, h8, hp]; omega
    rw [eL] at hf
    have hfx := (fill_fixed_list _ [pU16 cn, pSkip 6] mbs bs hf
      (by intro q hq; simp only [List.mem_cons, List.mem_nil_iff, or_false] at hq; rcases hq with rfl | rfl <;> simp [pU16, pSkip, Piece.Tight])
      (by simp [piecesLen, pU16, pSkip, Piece.adv])).1
    have hpl : piecesLen [pU16 cn, pSkip 6] = 8 := by simp [piecesLen, pU16, pSkip, Piece.adv]
    have hpb : piecesBytes [pU16 cn, pSkip 6] = be16 (n16 cn) ++ zeros 6 := by simp [piecesBytes, pU16, pSkip, Piece.bytes]
    rw [hpl, hpb, Nat.sub_self] at hfx
    simp only [zeros, List.replicate_zero, List.append_nil] at hfx
    have hdrop : bs.drop 8 = mbs.flatten := by
      rw [hfx]
      have : (be16 (n16 cn) ++ List.replicate 6 (0 : UInt8)).length = 8 := by simp
      rw [← this, List.drop_left]
    refine ⟨mbs, ms2, hm2, ?_, ?_, hdrop, ?_⟩
    · rw [hfx]; simp only [List.length_append, be16_length, List.length_replicate, hfl]
    · apply zerosAt_ok
      rw [hfx, List.append_assoc]
      have : ∀ (pre z r : Bytes), pre.length = 2 → z.length = 6 → slice (pre ++ (z ++ r)) 2 6 = z := by
        intro pre z r hp hz
        unfold slice
        rw [← hp, List.drop_left, ← hz, List.take_left]
      rw [this _ _ _ (by simp) (by simp)]; rfl
    · intro fuel hfu
      rw [hdrop]
      exact walkTlvMaps_flatten mbs hok fuel (by omega)
  · exact absurd g1 (by simp)

theorem helloElem_len_pure (x : V) (l : UInt16) (y : V) (h : HelloElem.lenM x = .ok (l, y)) : y = x := by
  unfold HelloElem.lenM at h
  split at h
  · unfold HelloElemVersionBitmap.lenM at h
    obtain ⟨l', _, g⟩ := bind_ok_inv _ _ _ h
    exact (same_ok _ _ _ _ g).2
  · exact (same_ok _ _ _ _ h).2
  · exact absurd h (by simp)

theorem mapM2_len_pure (g : V → R (UInt16 × V)) (hp : ∀ x l y, g x = .ok (l, y) → y = x) (xs : List V) (ls : List UInt16)
    (ys : List V) (h : mapM2 g xs = .ok (ls, ys)) : ys = xs := by
  induction xs generalizing ls ys with
  | nil => simp [mapM2] at h; exact h.2
  | cons x xs ih =>
    obtain ⟨a, x', as', xs', h1, h2, _, e2⟩ := mapM2_cons_ok _ _ _ _ _ h
    rw [e2, hp _ _ _ h1, ih _ _ h2]

/-- the shape of a version-bitmap element with fewer than 16 000 bitmaps (any type code, any stored length) -/
def HelloElemShape (e : V) : Prop :=
  ∃ ty x bms, e = .obj "HelloElemVersionBitmap" [.obj "HelloElemHeader" [.num ty, x], .list bms] ∧ bms.length < 16000

theorem helloElem_ok (e : V) (hs : HelloElemShape e) (b : Bytes) (y : V) (h : HelloElem.marshalM e = .ok (b, y)) :
    HelloOK b := by
  obtain ⟨ty, x, bms, rfl, hn⟩ := hs
  have h' : HelloElemVersionBitmap.marshalM (.obj "HelloElemVersionBitmap" [.obj "HelloElemHeader" [.num ty, x], .list bms])
      = .ok (b, y) := by
    simpa [HelloElem.marshalM, V.kind] using h
  obtain ⟨a, r, _, z, _⟩ := helloElem_padded ty x bms b y hn h'
  have h8 : 8 ≤ b.length := by rw [r, a]; unfold Spec.round8; omega
  have e2 : u16At b 2 = 4 + 4 * bms.length := by rw [u16At_eq_beAt b 2 (by omega), a]
  refine ⟨by omega, by rw [e2, ← a]; exact r, fun _ => by omega, ?_⟩
  rw [e2, ← a]
  exact (allZero_iff _).mpr z

/-- WALK of a Hello with ANY list of version-bitmap elements (each with fewer than 16 000 bitmaps, any type code, any
    stored length; `hfit`: the message stays below 64 KiB): the specification walker's element walk over the bytes behind
    the 8-byte header accepts — every declared length is at least 4, every element is zero-padded to 8, every bitmap
    element holds whole words — and returns exactly one subtree per element: the elements' own encodings, in order -/
theorem hello_walk (hdr : V) (es : List V) (bs : Bytes) (v2 : V) (hes : ∀ e ∈ es, HelloElemShape e)
    (hfit : ∀ ls es1, mapM2 HelloElem.lenM es = .ok (ls, es1) → 8 + (ls.map UInt16.toNat).sum < 65536)
    (h : Hello.marshalM (.obj "Hello" [hdr, .list es]) = .ok (bs, v2)) :
    ∃ ebs es2, mapM2 HelloElem.marshalM es = .ok (ebs, es2) ∧ bs.length = 8 + ebs.flatten.length ∧
      bs.drop 8 = ebs.flatten ∧
      (∀ fuel, es.length < fuel →
        walkHelloElems fuel (bs.drop 8) = .ok (ebs.map (fun b => Tree.node s!"helloelem {u16At b 0}" b []))) ∧
      es.length ≤ ebs.flatten.length ∧
      ∃ l1 : UInt16, l1.toNat = bs.length ∧ Header.bytes (Header.setLength l1 hdr) = .ok (bs.take 8) := by
  unfold Hello.marshalM at h
  obtain ⟨⟨l0, va⟩, hl0, g1⟩ := bind_ok_inv _ _ _ h
  simp only [Hello.lenM] at hl0
  obtain ⟨⟨ls, es1⟩, hm1, g2⟩ := bind_ok_inv _ _ _ hl0
  have e1 := mapM2_len_pure _ helloElem_len_pure _ _ _ hm1
  subst e1
  have el : l0 = 8 + sum16 ls ∧ va = .obj "Hello" [hdr, .list es1] := by cases g2; exact ⟨rfl, rfl⟩
  obtain ⟨rfl, rfl⟩ := el
  simp only at g1
  obtain ⟨⟨l1, vb⟩, hl1, g3⟩ := bind_ok_inv _ _ _ g1
  simp only [Hello.lenM, hm1, Res.bind_ok] at hl1
  have el1 : l1 = 8 + sum16 ls ∧ vb = .obj "Hello" [hdr, .list es1] := by cases hl1; exact ⟨rfl, rfl⟩
  obtain ⟨rfl, rfl⟩ := el1
  simp only at g3
  obtain ⟨hb, hhb, g4⟩ := bind_ok_inv _ _ _ g3
  obtain ⟨⟨ebs, es2⟩, hm2, g5⟩ := bind_ok_inv _ _ _ g4
  obtain ⟨out, hf, g6⟩ := bind_ok_inv _ _ _ g5
  have eb : bs = out := by cases g6; rfl
  subst eb
  have hbl := Header.bytes_length _ _ hhb
  have hok : ∀ b ∈ ebs, HelloOK b := by
    intro b hb'
    obtain ⟨x, hx, y, hxy⟩ := mapM2_mem_bytes _ _ _ _ hm2 b hb'
    exact helloElem_ok x (hes x hx) b y hxy
  have hlens := mapM2_lengths HelloElem.lenM HelloElem.marshalM es1 ls es1 ebs es2 hm1 hm2
    (fun x _ l y b z hx hy => by
      have := helloElem_len_pure _ _ _ hx
      subst this
      exact C06b.helloElem_size y l y b z hx hy)
  have hflat : ebs.flatten.length = (ls.map UInt16.toNat).sum := by rw [flatten_length_sum, hlens]
  have hbig := hfit ls es1 hm1
  have hs := flat_sum ls ebs hlens (by omega)
  have hp : (2 : Nat) ^ 16 = 65536 := rfl
  have eL : (8 + sum16 ls : UInt16).toNat = 8 + ebs.flatten.length := by
    have h8 : (8 : UInt16).toNat = 8 := rfl
    rw [UInt16.toNat_add, hs, h8, hp]; omega
  rw [eL] at hf
  have hpl : piecesLen [pCopy hb] = 8 := by simp [piecesLen, pCopy, Piece.adv, hbl]
  have hpb : piecesBytes [pCopy hb] = hb := by simp [piecesBytes, pCopy, Piece.bytes]
  have hfx := (fill_fixed_list _ [pCopy hb] ebs bs hf
    (by intro q hq; simp only [List.mem_cons, List.mem_nil_iff, or_false] at hq; subst hq; simp [pCopy, Piece.Tight])
    (by rw [hpl]; omega)).1
  rw [hpl, hpb, Nat.sub_self] at hfx
  simp only [zeros, List.replicate_zero, List.append_nil] at hfx
  have hdrop : bs.drop 8 = ebs.flatten := by rw [hfx, ← hbl, List.drop_left]
  have hlen : bs.length = 8 + ebs.flatten.length := by rw [hfx, List.length_append, hbl]
  refine ⟨ebs, es2, hm2, hlen, hdrop, fun fuel hfu => ?_, ?_, 8 + sum16 ls, by rw [eL, hlen], ?_⟩
  · rw [hdrop]
    exact walkHelloElems_flatten ebs hok fuel (by rw [(mapM2_length _ _ _ _ hm2).1]; exact hfu)
  · rw [← (mapM2_length _ _ _ _ hm2).1]
    refine count_le_flatten ebs (fun b hb' => ?_)
    obtain ⟨_, r, _, _⟩ := hok b hb'
    rw [r]; unfold Spec.round8; omega
  · rw [hhb, hfx, ← hbl, List.take_left]

/-- three different TLV maps -/
def exTlvMaps : List V := [
  .obj "TLVTableMap" [.num 0xffff, .num 0, .num 4, .num 0, .bytes (zeros 2)],
  .obj "TLVTableMap" [.num 0x0102, .num 0x80, .num 8, .num 1, .bytes (zeros 2)],
  .obj "TLVTableMap" [.num 0xffff, .num 2, .num 124, .num 63, .bytes (zeros 2)]]

/-- the hypotheses of `tlvTableMod_walk` are satisfiable: a TLV-table-mod with three different maps encodes, and the
    walker returns three subtrees -/
example : ∃ bs v2, TLVTableMod.marshalM (.obj "TLVTableMod" [.num 0, .bytes (zeros 6), .list exTlvMaps]) = .ok (bs, v2) ∧
    ∃ ts, walkTlvMaps (bs.length + 1) (bs.drop 8) = .ok ts ∧ ts.length = 3 := by
  refine ⟨_, _, rfl, ?_⟩
  obtain ⟨mbs, ms2, hm, hl, _, _, hw⟩ := tlvTableMod_walk (.num 0) (.bytes (zeros 6)) exTlvMaps _ _ (by decide) rfl
  refine ⟨_, hw _ (by rw [hl]; show 3 < 8 + 8 * 3 + 1; omega), ?_⟩
  rw [List.length_map, (mapM2_length _ _ _ _ hm).1]; rfl

/-- three version-bitmap elements: one, two and three bitmaps; a stale stored length; a foreign type code -/
def exHelloElems : List V := [
  .obj "HelloElemVersionBitmap" [.obj "HelloElemHeader" [.num 1, .num 8], .list [.num 18]],
  .obj "HelloElemVersionBitmap" [.obj "HelloElemHeader" [.num 1, .num 0], .list [.num 18, .num 1]],
  .obj "HelloElemVersionBitmap" [.obj "HelloElemHeader" [.num 2, .num 16], .list [.num 1, .num 2, .num 3]]]

/-- the hypotheses of `hello_walk` are satisfiable: a Hello with those three elements -/
example : ∃ bs v2, Hello.marshalM (.obj "Hello" [.obj "Header" [.num 4, .num 0, .num 8, .num 7], .list exHelloElems]) = .ok (bs, v2) ∧
    ∃ ts, walkHelloElems (bs.length + 1) (bs.drop 8) = .ok ts ∧ ts.length = 3 := by
  refine ⟨_, _, rfl, ?_⟩
  obtain ⟨ebs, es2, hm, hl, _, hw, _, _⟩ := hello_walk (.obj "Header" [.num 4, .num 0, .num 8, .num 7]) exHelloElems _ _ (by
      intro e he
      simp only [exHelloElems, List.mem_cons, List.mem_nil_iff, or_false] at he
      rcases he with rfl | rfl | rfl <;> exact ⟨_, _, _, rfl, by decide⟩)
    (by intro ls es1 h
        have e : mapM2 HelloElem.lenM exHelloElems = .ok ([8, 16, 16], exHelloElems) := rfl
        rw [e] at h; cases h; decide) rfl
  refine ⟨_, hw _ (by rw [hl]; simp [exHelloElems]; omega), ?_⟩
  rw [List.length_map, (mapM2_length _ _ _ _ hm).1]; rfl

theorem bundleProp_ok (x : V) (b : Bytes) (y : V) (hd : ∀ t l ei et d, x = .obj "BundlePropertyExperimenter" [t, l, ei, et, .bytes d] → d.length ≤ 65500)
    (h : BundlePropertyExperimenter.marshalM x = .ok (b, y)) : PropOK b := by
  unfold BundlePropertyExperimenter.marshalM at h
  split at h
  · rename_i t l ei et d
    have hdl := hd _ _ _ _ _ rfl
    have h' : BundlePropertyExperimenter.marshalM (.obj "BundlePropertyExperimenter" [.num t, l, .num ei, .num et, .bytes d])
        = .ok (b, y) := h
    obtain ⟨_, a, r, _, z⟩ := bundleProp_wire t l ei et d b y hdl h'
    have h8 : 8 ≤ b.length := by rw [r]; unfold Spec.round8; omega
    have e2 : u16At b 2 = 12 + d.length := by rw [u16At_eq_beAt b 2 (by omega), a]
    refine ⟨by omega, by rw [e2]; exact r, fun _ => by omega, ?_⟩
    rw [e2, z]
    exact (allZero_iff _).mpr (allZero_zeros _)
  · exact absurd h (by simp)

/-- WALK of ANY list of experimenter bundle properties (each with at most 65 500 data bytes, any type code): the
    specification walker's property walk over their concatenated encodings accepts — every declared length at least 4
    (12 for experimenter properties), every property zero-padded to 8 — and returns one subtree per property -/
theorem bundleProps_walk (ps : List V) (pbs : List Bytes) (ps2 : List V)
    (hd : ∀ x ∈ ps, ∀ t l ei et d, x = .obj "BundlePropertyExperimenter" [t, l, ei, et, .bytes d] → d.length ≤ 65500)
    (hm : mapM2 BundlePropertyExperimenter.marshalM ps = .ok (pbs, ps2)) :
    ∀ fuel, ps.length < fuel →
      walkProps fuel pbs.flatten = .ok (pbs.map (fun b => Tree.node s!"prop {u16At b 0}" b [])) := by
  intro fuel hf
  refine walkProps_flatten pbs ?_ fuel (by rw [(mapM2_length _ _ _ _ hm).1]; exact hf)
  intro b hb
  obtain ⟨x, hx, y, hxy⟩ := mapM2_mem_bytes _ _ _ _ hm b hb
  exact bundleProp_ok x b y (hd x hx) hxy

/-- two experimenter properties with 3 and 8 data bytes -/
def exProps : List V := [
  .obj "BundlePropertyExperimenter" [.num 0xffff, .num 0, .num 0x2320, .num 1, .bytes [1, 2, 3]],
  .obj "BundlePropertyExperimenter" [.num 0xffff, .num 0, .num 0x2320, .num 2, .bytes [1, 2, 3, 4, 5, 6, 7, 8]]]

/-- `bundleProps_walk` applies to them -/
example : ∃ pbs ps2, mapM2 BundlePropertyExperimenter.marshalM exProps = .ok (pbs, ps2) ∧
    ∃ ts, walkProps 3 pbs.flatten = .ok ts ∧ ts.length = 2 := by
  refine ⟨_, _, rfl, _, bundleProps_walk exProps _ _ (by
    intro x hx t l ei et d e
    simp only [exProps, List.mem_cons, List.mem_nil_iff, or_false] at hx
    rcases hx with rfl | rfl <;> (simp only [V.obj.injEq, List.cons.injEq, V.bytes.injEq, true_and] at e; obtain ⟨_, _, _, _, rfl, _⟩ := e; decide)) rfl 3 (by decide), rfl⟩

/-- WALK of a whole Hello message by the top-level specification walker: version 4, type OFPT_HELLO, any transaction
    id, whatever length is stored in the header (the encoder stores Len()), ANY list of version-bitmap elements as in
    `hello_walk`: `Spec.walk` accepts the encoding — the header declares exactly the bytes present — and its tree is the
    message node with exactly one child per element, the elements' own encodings in order -/
theorem hello_specWalk (ln : V) (xid : Nat) (es : List V) (bs : Bytes) (v2 : V) (hes : ∀ e ∈ es, HelloElemShape e)
    (hfit : ∀ ls es1, mapM2 HelloElem.lenM es = .ok (ls, es1) → 8 + (ls.map UInt16.toNat).sum < 65536)
    (h : Hello.marshalM (.obj "Hello" [.obj "Header" [.num 4, .num 0, ln, .num xid], .list es]) = .ok (bs, v2)) :
    ∃ ebs es2, mapM2 HelloElem.marshalM es = .ok (ebs, es2) ∧
      Spec.walk bs = .ok (.node "msg 0" bs (ebs.map (fun b => Tree.node s!"helloelem {u16At b 0}" b []))) := by
  obtain ⟨ebs, es2, hm, hl, hd, hw, hcnt, l1, hl1, hhb⟩ := hello_walk _ es bs v2 hes hfit h
  refine ⟨ebs, es2, hm, ?_⟩
  simp only [Header.setLength, Header.bytes, V.u16] at hhb
  have e8 : bs.take 8 = [n8 4, n8 0] ++ be16 (n16 l1.toNat) ++ be32 (n32 xid) := (Res.ok.inj hhb).symm
  have hsplit : bs = ([n8 4, n8 0] ++ be16 (n16 l1.toNat) ++ be32 (n32 xid)) ++ bs.drop 8 := by
    rw [← e8, List.take_append_drop]
  have hv : u8At bs 0 = 4 := by rw [hsplit, u8At_append_left _ _ _ (by simp)]; rfl
  have ht : u8At bs 1 = 0 := by rw [hsplit, u8At_append_left _ _ _ (by simp)]; rfl
  have hln : u16At bs 2 = bs.length := by
    rw [u16At_eq_beAt bs 2 (by omega)]
    have hs2 : bs = [n8 4, n8 0] ++ (be16 (n16 l1.toNat) ++ (be32 (n32 xid) ++ bs.drop 8)) := by
      conv => lhs; rw [hsplit]
      simp only [List.append_assoc]
    have hr := beAt_append_right [n8 4, n8 0] (be16 (n16 l1.toNat) ++ (be32 (n32 xid) ++ bs.drop 8)) 0 2
    rw [← hs2] at hr
    have hr' : beAt bs 2 2 = beAt (be16 (n16 l1.toNat) ++ (be32 (n32 xid) ++ bs.drop 8)) 0 2 := hr
    rw [hr', beAt_be16, n16_of_toNat, hl1]
  have hnl : ¬ bs.length < 8 := by omega
  unfold Spec.walk
  simp only [walkMsg, hnl, hv, ht, hln, if_false, ne_eq, not_true_eq_false, hw (bs.length + 1) (by omega)]
  rfl

/-- `hello_specWalk` applies to the three-element Hello: the top-level walker accepts and sees three children -/
example : ∃ bs v2, Hello.marshalM (.obj "Hello" [.obj "Header" [.num 4, .num 0, .num 8, .num 7], .list exHelloElems]) = .ok (bs, v2) ∧
    ∃ t, Spec.walk bs = .ok t := by
  refine ⟨_, _, rfl, ?_⟩
  obtain ⟨ebs, es2, _, hw⟩ := hello_specWalk (.num 8) 7 exHelloElems _ _ (by
      intro e he
      simp only [exHelloElems, List.mem_cons, List.mem_nil_iff, or_false] at he
      rcases he with rfl | rfl | rfl <;> exact ⟨_, _, _, rfl, by decide⟩)
    (by intro ls es1 h
        have e : mapM2 HelloElem.lenM exHelloElems = .ok ([8, 16, 16], exHelloElems) := rfl
        rw [e] at h; cases h; decide) rfl
  exact ⟨_, hw⟩

/-! ### single actions: the REAL walker (`Spec.walkAction`) accepts what the library writes -/

/-- an output action with the header NewActionOutput stores (type 0, length 16), ANY port and max-length, 6 zero pad
    bytes: accepted as "act 0", 16 bytes consumed -/
theorem actionOutput_accept (port ml : Nat) (bs : Bytes) (v2 : V)
    (h : ActionOutput.marshalM (.obj "ActionOutput" [ActionHeader.mk 0 16, .num port, .num ml, .bytes (zeros 6)]) = .ok (bs, v2)) :
    ActAccept bs (.node "act 0" bs []) := by
  obtain ⟨a, b, c⟩ := actionOutput_wire _ bs v2 0 16 rfl h
  refine accept_output bs a b c ?_
  simp only [ActionOutput.marshalM, ActionHeader.mk, ActionHeader.bytes, Res.bind_ok] at h
  obtain ⟨out, hf, h⟩ := bind_ok_inv _ _ _ h
  obtain ⟨rfl, _⟩ := same_ok _ _ _ _ h
  have := fill_all _ _ _ (by intro p hp; simp only [List.mem_cons, List.mem_nil_iff, or_false] at hp
                             rcases hp with rfl | rfl | rfl | rfl <;> simp [pCopy, pU32, pU16, Piece.Tight])
    (by simp [piecesLen, pCopy, pU32, pU16, Piece.adv]) hf
  rw [this]
  simp [piecesBytes, piecesLen, pCopy, pU32, pU16, Piece.bytes, Piece.adv, zeros, be16, be32]

/-- the table of the walker's fixed-size Nicira actions only holds sizes 16 and 24 and 16-bit subtypes -/
theorem nxFixed_facts (sub sz : Nat) (h : nxFixed.lookup sub = some sz) : (sz = 16 ∨ sz = 24) ∧ sub < 65536 := by
  have key : ∀ l : List (Nat × Nat), (∀ p ∈ l, (p.2 = 16 ∨ p.2 = 24) ∧ p.1 < 65536) → l.lookup sub = some sz →
      (sz = 16 ∨ sz = 24) ∧ sub < 65536 := by
    intro l
    induction l with
    | nil => intro _ h; simp [List.lookup] at h
    | cons p ps ih =>
      intro hp h
      obtain ⟨k, v⟩ := p
      simp only [List.lookup] at h
      split at h
      · rename_i heq
        cases h
        have := hp (k, sz) (by simp)
        have hk : sub = k := by simpa using heq
        subst hk; exact this
      · exact ih (fun q hq => hp q (by simp [hq])) h
  exact key nxFixed (by decide) h

/-- a Nicira action whose wire facts are those of a stored-length kind with the header (0xffff, size, 0x2320, subtype)
    where the walker's table gives that size for that subtype -/
theorem nx_accept_of_wire (sub sz : Nat) (bs : Bytes) (hs : nxFixed.lookup sub = some sz)
    (hw : bs.length = sz % 65536 ∧ (10 ≤ bs.length → NXw (0xffff % 65536) (0x2320 % 4294967296) (sub % 65536) bs)) :
    ActAccept bs (.node s!"nx {sub}" bs []) := by
  obtain ⟨hsz, hsub⟩ := nxFixed_facts sub sz hs
  obtain ⟨a, b⟩ := hw
  have e : bs.length = sz := by rw [a]; rcases hsz with rfl | rfl <;> rfl
  have hn := b (by rcases hsz with rfl | rfl <;> omega)
  rw [Nat.mod_eq_of_lt hsub] at hn
  exact accept_nxFixed sub bs (by rw [e]; exact hs) (by rcases hsz with rfl | rfl <;> omega)
    (by rcases hsz with rfl | rfl <;> omega) hn.code_ok hn.len_ok hn.vendor_ok hn.sub_ok

/-- the Nicira kinds whose encoder writes the stored header and whose size the walker's table fixes -/
def nxFixedKinds : List String := ["NXActionConjunction", "NXActionRegLoad", "NXActionRegMove", "NXActionResubmit",
  "NXActionResubmitTable", "NXActionOutputReg", "NXActionCTClear", "NXActionDecTTL"]

/-- ACTION KINDS FOR WHICH ACCEPTANCE BY THE REAL WALKER IS PROVED, with the header the constructors store:
    output (6 zero pad bytes), group, set-queue, dec-nw-ttl, pop-vlan, push-vlan/mpls/pbb, pop-mpls, set-mpls-ttl,
    set-nw-ttl, and the fixed-size Nicira actions conjunction, reg-load, reg-move, resubmit, resubmit-table (also the
    ct variant), output-reg, ct-clear, dec-ttl — any field values -/
def ActionKnown (v : V) : Prop :=
  (∃ port ml, v = .obj "ActionOutput" [ActionHeader.mk 0 16, .num port, .num ml, .bytes (zeros 6)]) ∨
  (v.kind = "ActionGroup" ∧ ahdr v = some (22, 8)) ∨
  (v.kind = "ActionSetqueue" ∧ ahdr v = some (21, 8)) ∨
  (v.kind = "ActionDecNwTtl" ∧ ahdr v = some (24, 8)) ∨
  (v.kind = "ActionPopVlan" ∧ ahdr v = some (18, 8)) ∨
  (v.kind = "ActionPush" ∧ ∃ ty, ty ∈ [17, 19, 26] ∧ ahdr v = some (ty, 8)) ∨
  (v.kind = "ActionPopMpls" ∧ ahdr v = some (20, 8)) ∨
  (v.kind = "ActionMplsTtl" ∧ ahdr v = some (15, 8)) ∨
  (v.kind = "ActionNwTtl" ∧ ahdr v = some (23, 8)) ∨
  (v.kind ∈ nxFixedKinds ∧ ∃ sub sz, nxFixed.lookup sub = some sz ∧ nxhdr v = some (0xffff, sz, 0x2320, sub))

macro "act_leaf0" v:ident hk:ident h:ident K:ident : tactic => `(tactic| (
  have e : Action.marshalM $v = $K $v := by
    simp [Action.marshalM, Action.marshalD, Action.marshalLeaf, $hk:ident]
  rw [e] at $h:ident))

/-- ACCEPTANCE through the Action interface: the real walker accepts the encoding of EVERY action of a known kind (any
    field values), whatever follows it, consuming exactly its bytes -/
theorem action_accept (v : V) (hk : ActionKnown v) (bs : Bytes) (v2 : V) (h : Action.marshalM v = .ok (bs, v2)) :
    Accepted bs := by
  rcases hk with ⟨port, ml, rfl⟩ | ⟨hk, ha⟩ | ⟨hk, ha⟩ | ⟨hk, ha⟩ | ⟨hk, ha⟩ | ⟨hk, ty, hty, ha⟩ | ⟨hk, ha⟩ | ⟨hk, ha⟩ |
    ⟨hk, ha⟩ | ⟨hk, sub, sz, hs, hn⟩
  · have e : Action.marshalM (.obj "ActionOutput" [ActionHeader.mk 0 16, .num port, .num ml, .bytes (zeros 6)]) =
        ActionOutput.marshalM (.obj "ActionOutput" [ActionHeader.mk 0 16, .num port, .num ml, .bytes (zeros 6)]) := by
      simp [Action.marshalM, Action.marshalD, Action.marshalLeaf, V.kind]
    rw [e] at h
    exact accepted_of _ _ (actionOutput_accept port ml bs v2 h)
  · act_leaf0 v hk h ActionGroup.marshalM
    obtain ⟨a, b, c⟩ := actionGroup_wire v bs v2 _ _ ha h
    exact accepted_of _ _ (accept_nopad 22 (by decide) bs a b c)
  · act_leaf0 v hk h ActionSetqueue.marshalM
    obtain ⟨a, b, c⟩ := actionSetqueue_wire v bs v2 _ _ ha h
    exact accepted_of _ _ (accept_nopad 21 (by decide) bs a b c)
  · act_leaf0 v hk h ActionDecNwTtl.marshalM
    obtain ⟨a, b, c, d⟩ := actionDecNwTtl_wire v bs v2 _ _ ha h
    exact accepted_of _ _ (accept_pad4 24 (by decide) bs a b c d)
  · act_leaf0 v hk h ActionPopVlan.marshalM
    obtain ⟨a, b, c, d⟩ := actionPopVlan_wire v bs v2 _ _ ha h
    exact accepted_of _ _ (accept_pad4 18 (by decide) bs a b c d)
  · act_leaf0 v hk h ActionPush.marshalM
    obtain ⟨a, b, c, d⟩ := actionPush_wire v bs v2 _ _ ha h
    have hlt : ty < 65536 := by
      simp only [List.mem_cons, List.mem_nil_iff, or_false] at hty; omega
    rw [Nat.mod_eq_of_lt hlt] at b
    exact accepted_of _ _ (accept_pad2 ty (by
      simp only [List.mem_cons, List.mem_nil_iff, or_false] at hty ⊢; omega) bs a b c d)
  · act_leaf0 v hk h ActionPopMpls.marshalM
    obtain ⟨a, b, c, d⟩ := actionPopMpls_wire v bs v2 _ _ ha h
    exact accepted_of _ _ (accept_pad2 20 (by decide) bs a b c d)
  · act_leaf0 v hk h ActionMplsTtl.marshalM
    obtain ⟨a, b, c, d⟩ := actionMplsTtl_wire v bs v2 _ _ ha h
    exact accepted_of _ _ (accept_pad3 15 (by decide) bs a b c d)
  · act_leaf0 v hk h ActionNwTtl.marshalM
    obtain ⟨a, b, c, d⟩ := actionNwTtl_wire v bs v2 _ _ ha h
    exact accepted_of _ _ (accept_pad3 23 (by decide) bs a b c d)
  · simp only [nxFixedKinds, List.mem_cons, List.mem_nil_iff, or_false] at hk
    rcases hk with hk | hk | hk | hk | hk | hk | hk | hk
    · act_leaf0 v hk h NXActionConjunction.marshalM
      exact accepted_of _ _ (nx_accept_of_wire sub sz bs hs (nxConjunction_wire v bs v2 _ _ _ _ hn h))
    · act_leaf0 v hk h NXActionRegLoad.marshalM
      exact accepted_of _ _ (nx_accept_of_wire sub sz bs hs (nxRegLoad_wire v bs v2 _ _ _ _ hn h))
    · act_leaf0 v hk h NXActionRegMove.marshalM
      exact accepted_of _ _ (nx_accept_of_wire sub sz bs hs (nxRegMove_wire v bs v2 _ _ _ _ hn h))
    · act_leaf0 v hk h NXActionResubmit.marshalM
      exact accepted_of _ _ (nx_accept_of_wire sub sz bs hs (nxResubmit_wire v bs v2 _ _ _ _ hn h))
    · act_leaf0 v hk h NXActionResubmitTable.marshalM
      exact accepted_of _ _ (nx_accept_of_wire sub sz bs hs (nxResubmitTable_wire v bs v2 _ _ _ _ hn h))
    · act_leaf0 v hk h NXActionOutputReg.marshalM
      exact accepted_of _ _ (nx_accept_of_wire sub sz bs hs (nxOutputReg_wire v bs v2 _ _ _ _ hn h))
    · act_leaf0 v hk h NXActionCTClear.marshalM
      exact accepted_of _ _ (nx_accept_of_wire sub sz bs hs (nxCTClear_wire v bs v2 _ _ _ _ hn h))
    · act_leaf0 v hk h NXActionDecTTL.marshalM
      exact accepted_of _ _ (nx_accept_of_wire sub sz bs hs (nxDecTTL_wire v bs v2 _ _ _ _ hn h))

/-! ### buckets and group-mod through the real walker -/

/-- a bucket whose actions — as Len() leaves them — are well-formed and of known kinds -/
def BucketKnown (bk : V) : Prop :=
  ∃ as ls as1, bk.fields[5]? = some (.list as) ∧ mapM2 Action.lenM as = .ok (ls, as1) ∧
    ∀ a ∈ as1, ActionWF a ∧ ActionKnown a

/-- WALK of a Bucket by the real walker: EVERY bucket (any weight / watch fields, any list of well-formed actions of the
    known kinds, at most 65 528 bytes) satisfies what `Spec.walkBuckets` demands of one bucket — it declares exactly its
    bytes, a multiple of 8, the 4 pad bytes are zero — and `Spec.walkActions` over the bytes behind the 16 fixed ones
    accepts and returns exactly one subtree per action -/
theorem bucket_specWalk (v : V) (hk : BucketKnown v) (bs : Bytes) (v2 : V) (h : Bucket.marshalM v = .ok (bs, v2))
    (hlt : bs.length ≤ 65528) :
    ∃ bss : List Bytes, bs.drop 16 = bss.flatten ∧ BucketOK bs (bss.map actTree) := by
  obtain ⟨as, ls, as1, hf, hm, hwf⟩ := hk
  obtain ⟨bss, as2, hmm, hd, hw, hlen, hal⟩ := bucket_walk v as ls as1 hf hm (fun a ha => (hwf a ha).1) bs v2 h hlt
  have hfl : bss.flatten = bs.drop 16 := walkBy_total _ _ _ _ hw
  obtain ⟨_, _, _, _, _, _, _, _, _, hpad, _, _⟩ := bucket_wire v bs v2 h
  have hacc : ∀ b ∈ bss, Accepted b ∧ 0 < b.length := by
    intro b hb
    obtain ⟨x, hx, y, hxy⟩ := mapM2_mem_bytes _ _ _ _ hmm b hb
    have hdcl := action_declares x (hwf x hx).1 b y hxy
    exact ⟨action_accept x (hwf x hx).2 b y hxy, by have := hdcl.2.1; omega⟩
  have hcnt := count_le_flatten bss (fun b hb => (hacc b hb).2)
  refine ⟨bss, hfl.symm, by omega, hal, hd, ?_, ?_⟩
  · unfold slice; rw [hpad]; exact (allZero_iff _).mpr (allZero_zeros 4)
  · rw [← hfl]
    exact walkActions_flatten bss hacc _ (by omega)

/-- the bytes of a GroupMod (any command but delete) are the 8 header bytes, the 8 fixed bytes, and the buckets' own
    encodings (each from the bucket as Len() left it), complete and in order -/
theorem groupMod_embeds (hh : V) (cmd t p g : Nat) (bks : List V) (bs : Bytes) (v2 : V)
    (hdel : cmd ≠ Gen.openflow13.OFPGC_DELETE)
    (h : GroupMod.marshalM (.obj "GroupMod" [hh, .num cmd, .num t, .num p, .num g, .list bks]) = .ok (bs, v2)) :
    ∃ ls bks1 bss bks2 pre, mapM2 Bucket.lenM bks = .ok (ls, bks1) ∧ mapM2 Bucket.marshalCopyM bks1 = .ok (bss, bks2) ∧
      pre.length = 16 ∧ bs = pre ++ bss.flatten ∧
      Header.bytes (Header.setLength (16 + sum16 ls) hh) = .ok (pre.take 8) ∧ pre.drop 8 = be16 (n16 cmd) ++ pre.drop 10 := by
  unfold GroupMod.marshalM at h
  obtain ⟨⟨l, v'⟩, hl, h3⟩ := bind_ok_inv _ _ _ h
  simp only [GroupMod.lenM, hdel, if_false] at hl
  obtain ⟨⟨ls, bks1⟩, hm, h1'⟩ := bind_ok_inv _ _ _ hl
  cases h1'
  simp only at h3
  obtain ⟨hb, hhb, h4⟩ := bind_ok_inv _ _ _ h3
  obtain ⟨⟨bb, bks3, e⟩, hml, h5⟩ := bind_ok_inv _ _ _ h4
  rw [if_neg hdel] at hml
  simp only at h5
  split at h5
  · exact absurd h5 (by simp)
  · cases h5
    obtain ⟨bss, hmm, rfl⟩ := marshalList_eq_mapM2 _ _ _ _ _ _ (fun x _ => Bucket.marshalCopyM_noErr x) hml
    have e8 := Header.bytes_length _ _ hhb
    refine ⟨ls, bks1, bss, bks3, hb ++ be16 (n16 cmd) ++ [n8 t, n8 p] ++ be32 (n32 g), hm, hmm, by simp [e8], rfl, ?_, ?_⟩
    · rw [hhb]; congr 1
      simp only [List.append_assoc]
      rw [← e8, List.take_left]
    · have d8 : ∀ (a r : Bytes), a.length = 8 → (a ++ r).drop 8 = r := by
        intro a r ha; rw [← ha, List.drop_left]
      have e10 : ∀ (a c r : Bytes), a.length = 8 → c.length = 2 → (a ++ (c ++ r)).drop 10 = r := by
        intro a c r ha hc
        have : (a ++ c).length = 10 := by simp [ha, hc]
        rw [← List.append_assoc, ← this, List.drop_left]
      simp only [List.append_assoc]
      rw [d8 _ _ e8, e10 hb (be16 (n16 cmd)) _ e8 (by simp)]

/-- the action subtrees the walker builds for the bucket `c` -/
def bucketTrees (c : Bytes) : List Tree :=
  match walkActions (c.length + 1) (c.drop 16) with
  | .ok ts => ts
  | .error _ => []

theorem bucketTrees_of_ok (c : Bytes) (ts : List Tree) (h : BucketOK c ts) : BucketOK c (bucketTrees c) := by
  have : bucketTrees c = ts := by unfold bucketTrees; rw [h.2.2.2.2]
  rw [this]; exact h

/-- WALK of a GroupMod (any command but delete; any type / group id / header) with ANY list of buckets whose actions — as
    Len() leaves them — are well-formed and of the known kinds, shorter than 64 KiB: the bytes behind the 16 header and
    fixed bytes are exactly the buckets' encodings, and the REAL walker's bucket walk over them accepts — every bucket
    declares its own bytes, is 8-aligned with zero pad bytes, every action inside is accepted — returning exactly one
    "bucket" subtree per bucket, in order -/
theorem groupMod_specWalk (hh : V) (cmd t p g : Nat) (bks : List V) (bs : Bytes) (v2 : V)
    (hdel : cmd ≠ Gen.openflow13.OFPGC_DELETE) (hlt : bs.length < 65536)
    (hk : ∀ ls bks1, mapM2 Bucket.lenM bks = .ok (ls, bks1) → ∀ bk ∈ bks1, BucketKnown bk)
    (h : GroupMod.marshalM (.obj "GroupMod" [hh, .num cmd, .num t, .num p, .num g, .list bks]) = .ok (bs, v2)) :
    ∃ bss : List Bytes, bs.drop 16 = bss.flatten ∧ bss.length = bks.length ∧
      ∀ fuel, bks.length < fuel →
        walkBuckets fuel (bs.drop 16) = .ok (bss.map (fun c => Tree.node "bucket" c (bucketTrees c))) := by
  obtain ⟨ls, bks1, bss, bks2, pre, hm, hmm, hpre, rfl, _, _⟩ := groupMod_embeds hh cmd t p g bks bs v2 hdel h
  have hdrop : (pre ++ bss.flatten).drop 16 = bss.flatten := by rw [← hpre, List.drop_left]
  have hcnt : bss.length = bks.length := by
    rw [(mapM2_length _ _ _ _ hmm).1, (mapM2_length _ _ _ _ hm).2]
  have hok : ∀ c ∈ bss, BucketOK c (bucketTrees c) := by
    intro c hc
    obtain ⟨x, hx, y, hxy⟩ := mapM2_mem_bytes _ _ _ _ hmm c hc
    unfold Bucket.marshalCopyM at hxy
    obtain ⟨⟨c', z⟩, hmb, e⟩ := bind_ok_inv _ _ _ hxy
    have ec : c' = c := by cases e; rfl
    subst ec
    have hle := length_le_flatten bss c' hc
    simp only [List.length_append, hpre] at hlt
    obtain ⟨abss, _, hb⟩ := bucket_specWalk x (hk ls bks1 hm x hx) c' z hmb (by omega)
    exact bucketTrees_of_ok c' _ hb
  refine ⟨bss, hdrop, hcnt, fun fuel hf => ?_⟩
  rw [hdrop]
  exact walkBuckets_flatten bucketTrees bss hok fuel (by omega)

/-- two buckets with different actions: [output 7, group 3] and [pop-vlan, set-queue 5, resubmit-table(3)] -/
def exBuckets : List V := [
  .obj "Bucket" [.num 16, .num 0, .num Gen.openflow13.P_ANY, .num Gen.openflow13.OFPG_ANY, .bytes (zeros 4),
    .list [ActionOutput.new 7, ActionGroup.new 3]],
  .obj "Bucket" [.num 16, .num 1, .num Gen.openflow13.P_ANY, .num Gen.openflow13.OFPG_ANY, .bytes (zeros 4),
    .list [ActionPopVlan.new, ActionSetqueue.new 5, NXActionCTClear.new]]]

theorem known_output (p : Nat) : ActionKnown (ActionOutput.new p) := Or.inl ⟨_, _, rfl⟩
theorem known_group (g : Nat) : ActionKnown (ActionGroup.new g) := Or.inr (Or.inl ⟨rfl, rfl⟩)
theorem known_setqueue (q : Nat) : ActionKnown (ActionSetqueue.new q) := Or.inr (Or.inr (Or.inl ⟨rfl, rfl⟩))
theorem known_popVlan : ActionKnown ActionPopVlan.new := Or.inr (Or.inr (Or.inr (Or.inr (Or.inl ⟨rfl, rfl⟩))))
theorem known_ctClear : ActionKnown NXActionCTClear.new :=
  Or.inr (Or.inr (Or.inr (Or.inr (Or.inr (Or.inr (Or.inr (Or.inr (Or.inr
    ⟨by show "NXActionCTClear" ∈ nxFixedKinds; decide, 43, 16, by decide, rfl⟩))))))))

/-- the hypotheses of `groupMod_specWalk` are satisfiable: a group-mod ADD with those two buckets encodes, and the real
    walker's bucket walk returns two bucket subtrees -/
example : (GroupMod.marshalM (.obj "GroupMod" [.obj "Header" [.num 4, .num 15, .num 8, .num 7],
      .num Gen.openflow13.OFPGC_ADD, .num 0, .num 0, .num 1, .list exBuckets])).isOk = true ∧
    ∀ bs v2, GroupMod.marshalM (.obj "GroupMod" [.obj "Header" [.num 4, .num 15, .num 8, .num 7],
      .num Gen.openflow13.OFPGC_ADD, .num 0, .num 0, .num 1, .list exBuckets]) = .ok (bs, v2) → bs.length < 65536 →
    ∃ ts, walkBuckets 3 (bs.drop 16) = .ok ts ∧ ts.length = 2 := by
  refine ⟨rfl, fun bs v2 h hlt => ?_⟩
  obtain ⟨bss, hd, hc, hw⟩ := groupMod_specWalk (.obj "Header" [.num 4, .num 15, .num 8, .num 7])
    Gen.openflow13.OFPGC_ADD 0 0 1 exBuckets bs v2 (by decide) hlt (by
      intro ls bks1 hm bk hbk
      have e : mapM2 Bucket.lenM exBuckets = .ok ([40, 48], exBuckets) := rfl
      rw [e] at hm; cases hm
      simp only [exBuckets, List.mem_cons, List.mem_nil_iff, or_false] at hbk
      rcases hbk with rfl | rfl
      · refine ⟨_, [16, 8], _, rfl, rfl, ?_⟩
        intro a ha
        simp only [List.mem_cons, List.mem_nil_iff, or_false] at ha
        rcases ha with rfl | rfl
        · exact ⟨actionWF_output 7, known_output 7⟩
        · exact ⟨actionWF_group 3, known_group 3⟩
      · refine ⟨_, [8, 8, 16], _, rfl, rfl, ?_⟩
        intro a ha
        simp only [List.mem_cons, List.mem_nil_iff, or_false] at ha
        rcases ha with rfl | rfl | rfl
        · exact ⟨actionWF_popVlan, known_popVlan⟩
        · exact ⟨actionWF_setqueue 5, known_setqueue 5⟩
        · exact ⟨actionWF_ctClear, known_ctClear⟩) h
  refine ⟨_, hw 3 (by decide), ?_⟩
  rw [List.length_map, hc]; rfl

end OFV.Props.C02c
