/-
  C02 (part c) — the INDEPENDENT grammar walker (OFV.Spec.Walk, written from the OpenFlow 1.3 / Nicira / ONF-bundle
  specifications) accepts what the model's container encoders produce, and sees exactly the children, for EVERY value.

  C02b proved the per-element wire facts and walks by a generic "follow the declared lengths" receiver (`Elem.walkBy`).
  Here the receiver is the specification walker itself (`Spec.walkTlvMaps`, `Spec.walkHelloElems`, `Spec.walkProps`,
  `Spec.walkLearnSpecs`, `Spec.walkBuckets` / `Spec.walkActions`, `Spec.walk`), which besides following the lengths
  checks minimum lengths, alignment, zero padding and type codes.
  Reading: `K.marshalM v = .ok (bs, _)` and explicit size hypotheses ("the message stays below 64 KiB", as the sizes are
  computed in uint16 by the library)  ⇒  the walker's list walk over the element area of `bs` returns `.ok` with one
  subtree per child, whose bytes are the child's own encoding, in order.
  Helpers about the walker alone are in OFV/Lemmas/Walk2.lean.
  Done: TLV-table-mod body (`tlvTableMod_walk`), Hello element list and the WHOLE Hello through `Spec.walk`
  (`hello_walk`, `hello_specWalk`), any list of experimenter bundle properties (`bundleProps_walk`);
  single actions through the real `Spec.walkAction` for the kinds listed in `ActionKnown` (`action_accept`,
  `actionOutput_accept`, `nx_accept_of_wire`; includes controller and note), a Bucket (`bucket_specWalk`), a GroupMod
  with any list of buckets of such actions through `Spec.walkBuckets` (`groupMod_embeds`, `groupMod_specWalk`) and
  through the TOP-LEVEL `Spec.walk` for version 4 / type 15 / pad byte 0 as NewGroupMod stores (`groupMod_topWalk`),
  a PacketOut with any such actions and any payload through `Spec.walkActions` over its actions_len bytes
  (`packetOut_specWalk`).
  Instructions through `Spec.walkInstrs` for the kinds in `InstrKnown` (`instr_accept`), the empty match
  (`matchNew_accept`), and a whole FlowMod — any command 0..4, any accepted match, any list of known instructions —
  through the TOP-LEVEL `Spec.walk` (`flowMod_embeds2`, `flowMod_topWalk`).  Match fields generically over the walker's
  width table (`FieldKnown`, `matchField_accept`, `fieldKnown_mk`, `fieldKnown_mkMasked`), any match of such fields through
  `Spec.walkMatch` (`match_accept`), the flow-mod with such a match (`flowMod_topWalk_known`), set-field of a known
  field (`actionSetField_accept`, also in `ActionKnown`).  Walker-side lemmas: OFV/Lemmas/Walk2..Walk5.lean.
  reg_load2 of a known field (`nxRegLoad2_accept`, in `ActionKnown`), packet-out through the TOP-LEVEL `Spec.walk` for any
  payload with a repeatable Len() (`packetOut_topWalk`).
  NAT actions built by ANY setter history (`nxCTNAT_accept`, in `ActionKnown`; walker side `Walk7.accept_nat`).
  Conntrack, one nesting level, stated separately with two explicit hypotheses (`accept_ct`, `conntrack_accept`).
  Not done (time): conntrack inside `ActionKnown`, its example / learn / dec-ttl-cnt-ids
  actions, the BundleAdd frame, learn specs, tun_metadata fields (variable length).
  No encoding produced by the model was found that the walker rejects.
-/
import OFV.Props.C02b
import OFV.Lemmas.Walk2
import OFV.Lemmas.Walk3
import OFV.Lemmas.Walk4
import OFV.Lemmas.Walk5
import OFV.Lemmas.Walk6
import OFV.Lemmas.Walk7
import OFV.Props.C03c
import OFV.Lemmas.LayNat
import OFV.Lemmas.FrameMsg
import OFV.Lemmas.RepMsg
namespace OFV.Props.C02c
open OFV OFV.Go OFV.Model OFV.Spec OFV.Elem OFV.Walk2 OFV.Walk3 OFV.Walk4 OFV.Walk5 OFV.Walk6 OFV.Walk7 OFV.Props.C02b OFV.Model.Hist

/-- a list of encodings whose sizes are the reported 16-bit sizes, fitting 16 bits in total -/
theorem flat_sum (ls : List UInt16) (bss : List Bytes) (h : bss.map List.length = ls.map UInt16.toNat)
    (hlt : bss.flatten.length < 65536) : (sum16 ls).toNat = bss.flatten.length := by
  have : bss.flatten.length = (ls.map UInt16.toNat).sum := by rw [flatten_length_sum, h]
  rw [this]; exact sum16_toNat ls (by omega)

theorem flatten_length_const (bss : List Bytes) (k : Nat) (h : ∀ b ∈ bss, b.length = k) : bss.flatten.length = k * bss.length := by
  induction bss with
  | nil => simp
  | cons b bs ih =>
    have := ih (fun x hx => h x (by simp [hx]))
    have := h b (by simp)
    simp only [List.flatten_cons, List.length_append, List.length_cons]
    rw [Nat.mul_add]; omega

theorem count_le_flatten (bss : List Bytes) (h : ∀ b ∈ bss, 1 ≤ b.length) : bss.length ≤ bss.flatten.length := by
  induction bss with
  | nil => simp
  | cons b bs ih =>
    have := ih (fun x hx => h x (by simp [hx]))
    have := h b (by simp)
    simp only [List.flatten_cons, List.length_append, List.length_cons]
    omega

theorem tlvMap_ok (x : V) (b : Bytes) (y : V) (h : TLVTableMap.marshalM x = .ok (b, y)) : TlvOK b := by
  unfold TLVTableMap.marshalM at h
  split at h
  · rename_i c t l i p
    have h' : TLVTableMap.marshalM (.obj "TLVTableMap" [.num c, .num t, .num l, .num i, p]) = .ok (b, y) := h
    obtain ⟨h8, e⟩ := tlvTableMap_wire c t l i p b y h'
    refine ⟨h8, ?_⟩
    rw [e]
    have : ∀ (pre z : Bytes), pre.length = 6 → slice (pre ++ z) 6 2 = z.take 2 := by
      intro pre z hp
      unfold slice
      rw [← hp, List.drop_left]
    rw [this _ _ (by simp)]; rfl
  · exact absurd h (by simp)

theorem tlvMap_len_same (xs : List V) (ls : List UInt16) (ys : List V) (h : mapM2 TLVTableMap.lenM xs = .ok (ls, ys)) :
    ys = xs := by
  induction xs generalizing ls ys with
  | nil => simp [mapM2] at h; exact h.2
  | cons x xs ih =>
    obtain ⟨a, x', as', xs', h1, h2, _, e2⟩ := mapM2_cons_ok _ _ _ _ _ h
    obtain ⟨_, e⟩ := same_ok _ _ _ _ h1
    rw [e2, e, ih _ _ h2]

/-- WALK of a TLV-table-mod body (the Nicira vendor message NXT_TLV_TABLE_MOD), EVERY value with fewer than 8 191 maps:
    the specification walker's map walk over the bytes behind the 8 fixed bytes accepts and returns exactly one
    subtree per map — the maps' own encodings, in order — and the 6 reserved bytes are zero -/
theorem tlvTableMod_walk (c : V) (p : V) (ms : List V) (bs : Bytes) (v2 : V) (hn : 8 + 8 * ms.length < 65536)
    (h : TLVTableMod.marshalM (.obj "TLVTableMod" [c, p, .list ms]) = .ok (bs, v2)) :
    ∃ mbs ms2, mapM2 TLVTableMap.marshalM ms = .ok (mbs, ms2) ∧ bs.length = 8 + 8 * ms.length ∧
      zerosAt bs 2 6 "tlv-table-mod" = .ok () ∧ bs.drop 8 = mbs.flatten ∧
      ∀ fuel, ms.length < fuel →
        walkTlvMaps fuel (bs.drop 8) = .ok (mbs.map (fun b => Tree.node "tlvmap" b [])) := by
  unfold TLVTableMod.marshalM at h
  obtain ⟨⟨l, v1⟩, hl, g1⟩ := bind_ok_inv _ _ _ h
  simp only [TLVTableMod.lenM] at hl
  obtain ⟨⟨ls, ms1⟩, hm1, g2⟩ := bind_ok_inv _ _ _ hl
  have e1 := tlvMap_len_same _ _ _ hm1
  subst e1
  have el : l = 8 + sum16 ls ∧ v1 = .obj "TLVTableMod" [c, p, .list ms1] := by cases g2; exact ⟨rfl, rfl⟩
  obtain ⟨rfl, rfl⟩ := el
  simp only at g1
  split at g1
  · rename_i heq
    cases heq
    rename_i cn
    obtain ⟨⟨mbs, ms2⟩, hm2, g3⟩ := bind_ok_inv _ _ _ g1
    obtain ⟨out, hf, g4⟩ := bind_ok_inv _ _ _ g3
    have eb : bs = out := by cases g4; rfl
    subst eb
    have hok : ∀ b ∈ mbs, TlvOK b := mapM2_forall_bytes _ TlvOK _ _ _ hm2 (fun x _ b y hb => tlvMap_ok x b y hb)
    have hcnt : mbs.length = ms1.length := (mapM2_length _ _ _ _ hm2).1
    have hfl : mbs.flatten.length = 8 * ms1.length := by
      rw [flatten_length_const mbs 8 (fun b hb => (hok b hb).1), hcnt]
    have hlens := mapM2_lengths TLVTableMap.lenM TLVTableMap.marshalM ms1 ls ms1 mbs ms2 hm1 hm2
      (fun x _ l y b z hx hy => by
        obtain ⟨e, _⟩ := same_ok _ _ _ _ hx
        rw [e, (tlvMap_ok y b z hy).1]; rfl)
    have hs := flat_sum ls mbs hlens (by omega)
    have hp : (2 : Nat) ^ 16 = 65536 := rfl
    have eL : (8 + sum16 ls : UInt16).toNat = 8 + mbs.flatten.length := by
      have h8 : (8 : UInt16).toNat = 8 := rfl
      rw [UInt16.toNat_add, hs, h8, hp]; omega
    rw [eL] at hf
    have hfx := (fill_fixed_list _ [pU16 cn, pSkip 6] mbs bs hf
      (by intro q hq; simp only [List.mem_cons, List.mem_nil_iff, or_false] at hq; rcases hq with rfl | rfl <;> simp [pU16, pSkip, Piece.Tight])
      (by simp [piecesLen, pU16, pSkip, Piece.adv])).1
    have hpl : piecesLen [pU16 cn, pSkip 6] = 8 := by simp [piecesLen, pU16, pSkip, Piece.adv]
    have hpb : piecesBytes [pU16 cn, pSkip 6] = be16 (n16 cn) ++ zeros 6 := by simp [piecesBytes, pU16, pSkip, Piece.bytes]
    rw [hpl, hpb, Nat.sub_self] at hfx
    simp only [zeros, List.replicate_zero, List.append_nil] at hfx
    have hdrop : bs.drop 8 = mbs.flatten := by
      rw [hfx]
      have : (be16 (n16 cn) ++ List.replicate 6 (0 : UInt8)).length = 8 := by simp
      rw [← this, List.drop_left]
    refine ⟨mbs, ms2, hm2, ?_, ?_, hdrop, ?_⟩
    · rw [hfx]; simp only [List.length_append, be16_length, List.length_replicate, hfl]
    · apply zerosAt_ok
      rw [hfx, List.append_assoc]
      have : ∀ (pre z r : Bytes), pre.length = 2 → z.length = 6 → slice (pre ++ (z ++ r)) 2 6 = z := by
        intro pre z r hp hz
        unfold slice
        rw [← hp, List.drop_left, ← hz, List.take_left]
      rw [this _ _ _ (by simp) (by simp)]; rfl
    · intro fuel hfu
      rw [hdrop]
      exact walkTlvMaps_flatten mbs hok fuel (by omega)
  · exact absurd g1 (by simp)

theorem helloElem_len_pure (x : V) (l : UInt16) (y : V) (h : HelloElem.lenM x = .ok (l, y)) : y = x := by
  unfold HelloElem.lenM at h
  split at h
  · unfold HelloElemVersionBitmap.lenM at h
    obtain ⟨l', _, g⟩ := bind_ok_inv _ _ _ h
    exact (same_ok _ _ _ _ g).2
  · exact (same_ok _ _ _ _ h).2
  · exact absurd h (by simp)

theorem mapM2_len_pure (g : V → R (UInt16 × V)) (hp : ∀ x l y, g x = .ok (l, y) → y = x) (xs : List V) (ls : List UInt16)
    (ys : List V) (h : mapM2 g xs = .ok (ls, ys)) : ys = xs := by
  induction xs generalizing ls ys with
  | nil => simp [mapM2] at h; exact h.2
  | cons x xs ih =>
    obtain ⟨a, x', as', xs', h1, h2, _, e2⟩ := mapM2_cons_ok _ _ _ _ _ h
    rw [e2, hp _ _ _ h1, ih _ _ h2]

/-- the shape of a version-bitmap element with fewer than 16 000 bitmaps (any type code, any stored length) -/
def HelloElemShape (e : V) : Prop :=
  ∃ ty x bms, e = .obj "HelloElemVersionBitmap" [.obj "HelloElemHeader" [.num ty, x], .list bms] ∧ bms.length < 16000

theorem helloElem_ok (e : V) (hs : HelloElemShape e) (b : Bytes) (y : V) (h : HelloElem.marshalM e = .ok (b, y)) :
    HelloOK b := by
  obtain ⟨ty, x, bms, rfl, hn⟩ := hs
  have h' : HelloElemVersionBitmap.marshalM (.obj "HelloElemVersionBitmap" [.obj "HelloElemHeader" [.num ty, x], .list bms])
      = .ok (b, y) := by
    simpa [HelloElem.marshalM, V.kind] using h
  obtain ⟨a, r, _, z, _⟩ := helloElem_padded ty x bms b y hn h'
  have h8 : 8 ≤ b.length := by rw [r, a]; unfold Spec.round8; omega
  have e2 : u16At b 2 = 4 + 4 * bms.length := by rw [u16At_eq_beAt b 2 (by omega), a]
  refine ⟨by omega, by rw [e2, ← a]; exact r, fun _ => by omega, ?_⟩
  rw [e2, ← a]
  exact (allZero_iff _).mpr z

/-- WALK of a Hello with ANY list of version-bitmap elements (each with fewer than 16 000 bitmaps, any type code, any
    stored length; `hfit`: the message stays below 64 KiB): the specification walker's element walk over the bytes behind
    the 8-byte header accepts — every declared length is at least 4, every element is zero-padded to 8, every bitmap
    element holds whole words — and returns exactly one subtree per element: the elements' own encodings, in order -/
theorem hello_walk (hdr : V) (es : List V) (bs : Bytes) (v2 : V) (hes : ∀ e ∈ es, HelloElemShape e)
    (hfit : ∀ ls es1, mapM2 HelloElem.lenM es = .ok (ls, es1) → 8 + (ls.map UInt16.toNat).sum < 65536)
    (h : Hello.marshalM (.obj "Hello" [hdr, .list es]) = .ok (bs, v2)) :
    ∃ ebs es2, mapM2 HelloElem.marshalM es = .ok (ebs, es2) ∧ bs.length = 8 + ebs.flatten.length ∧
      bs.drop 8 = ebs.flatten ∧
      (∀ fuel, es.length < fuel →
        walkHelloElems fuel (bs.drop 8) = .ok (ebs.map (fun b => Tree.node s!"helloelem {u16At b 0}" b []))) ∧
      es.length ≤ ebs.flatten.length ∧
      ∃ l1 : UInt16, l1.toNat = bs.length ∧ Header.bytes (Header.setLength l1 hdr) = .ok (bs.take 8) := by
  unfold Hello.marshalM at h
  obtain ⟨⟨l0, va⟩, hl0, g1⟩ := bind_ok_inv _ _ _ h
  simp only [Hello.lenM] at hl0
  obtain ⟨⟨ls, es1⟩, hm1, g2⟩ := bind_ok_inv _ _ _ hl0
  have e1 := mapM2_len_pure _ helloElem_len_pure _ _ _ hm1
  subst e1
  have el : l0 = 8 + sum16 ls ∧ va = .obj "Hello" [hdr, .list es1] := by cases g2; exact ⟨rfl, rfl⟩
  obtain ⟨rfl, rfl⟩ := el
  simp only at g1
  obtain ⟨⟨l1, vb⟩, hl1, g3⟩ := bind_ok_inv _ _ _ g1
  simp only [Hello.lenM, hm1, Res.bind_ok] at hl1
  have el1 : l1 = 8 + sum16 ls ∧ vb = .obj "Hello" [hdr, .list es1] := by cases hl1; exact ⟨rfl, rfl⟩
  obtain ⟨rfl, rfl⟩ := el1
  simp only at g3
  obtain ⟨hb, hhb, g4⟩ := bind_ok_inv _ _ _ g3
  obtain ⟨⟨ebs, es2⟩, hm2, g5⟩ := bind_ok_inv _ _ _ g4
  obtain ⟨out, hf, g6⟩ := bind_ok_inv _ _ _ g5
  have eb : bs = out := by cases g6; rfl
  subst eb
  have hbl := Header.bytes_length _ _ hhb
  have hok : ∀ b ∈ ebs, HelloOK b := by
    intro b hb'
    obtain ⟨x, hx, y, hxy⟩ := mapM2_mem_bytes _ _ _ _ hm2 b hb'
    exact helloElem_ok x (hes x hx) b y hxy
  have hlens := mapM2_lengths HelloElem.lenM HelloElem.marshalM es1 ls es1 ebs es2 hm1 hm2
    (fun x _ l y b z hx hy => by
      have := helloElem_len_pure _ _ _ hx
      subst this
      exact C06b.helloElem_size y l y b z hx hy)
  have hflat : ebs.flatten.length = (ls.map UInt16.toNat).sum := by rw [flatten_length_sum, hlens]
  have hbig := hfit ls es1 hm1
  have hs := flat_sum ls ebs hlens (by omega)
  have hp : (2 : Nat) ^ 16 = 65536 := rfl
  have eL : (8 + sum16 ls : UInt16).toNat = 8 + ebs.flatten.length := by
    have h8 : (8 : UInt16).toNat = 8 := rfl
    rw [UInt16.toNat_add, hs, h8, hp]; omega
  rw [eL] at hf
  have hpl : piecesLen [pCopy hb] = 8 := by simp [piecesLen, pCopy, Piece.adv, hbl]
  have hpb : piecesBytes [pCopy hb] = hb := by simp [piecesBytes, pCopy, Piece.bytes]
  have hfx := (fill_fixed_list _ [pCopy hb] ebs bs hf
    (by intro q hq; simp only [List.mem_cons, List.mem_nil_iff, or_false] at hq; subst hq; simp [pCopy, Piece.Tight])
    (by rw [hpl]; omega)).1
  rw [hpl, hpb, Nat.sub_self] at hfx
  simp only [zeros, List.replicate_zero, List.append_nil] at hfx
  have hdrop : bs.drop 8 = ebs.flatten := by rw [hfx, ← hbl, List.drop_left]
  have hlen : bs.length = 8 + ebs.flatten.length := by rw [hfx, List.length_append, hbl]
  refine ⟨ebs, es2, hm2, hlen, hdrop, fun fuel hfu => ?_, ?_, 8 + sum16 ls, by rw [eL, hlen], ?_⟩
  · rw [hdrop]
    exact walkHelloElems_flatten ebs hok fuel (by rw [(mapM2_length _ _ _ _ hm2).1]; exact hfu)
  · rw [← (mapM2_length _ _ _ _ hm2).1]
    refine count_le_flatten ebs (fun b hb' => ?_)
    obtain ⟨_, r, _, _⟩ := hok b hb'
    rw [r]; unfold Spec.round8; omega
  · rw [hhb, hfx, ← hbl, List.take_left]

/-- three different TLV maps -/
def exTlvMaps : List V := [
  .obj "TLVTableMap" [.num 0xffff, .num 0, .num 4, .num 0, .bytes (zeros 2)],
  .obj "TLVTableMap" [.num 0x0102, .num 0x80, .num 8, .num 1, .bytes (zeros 2)],
  .obj "TLVTableMap" [.num 0xffff, .num 2, .num 124, .num 63, .bytes (zeros 2)]]

/-- the hypotheses of `tlvTableMod_walk` are satisfiable: a TLV-table-mod with three different maps encodes, and the
    walker returns three subtrees -/
example : ∃ bs v2, TLVTableMod.marshalM (.obj "TLVTableMod" [.num 0, .bytes (zeros 6), .list exTlvMaps]) = .ok (bs, v2) ∧
    ∃ ts, walkTlvMaps (bs.length + 1) (bs.drop 8) = .ok ts ∧ ts.length = 3 := by
  refine ⟨_, _, rfl, ?_⟩
  obtain ⟨mbs, ms2, hm, hl, _, _, hw⟩ := tlvTableMod_walk (.num 0) (.bytes (zeros 6)) exTlvMaps _ _ (by decide) rfl
  refine ⟨_, hw _ (by rw [hl]; show 3 < 8 + 8 * 3 + 1; omega), ?_⟩
  rw [List.length_map, (mapM2_length _ _ _ _ hm).1]; rfl

/-- three version-bitmap elements: one, two and three bitmaps; a stale stored length; a foreign type code -/
def exHelloElems : List V := [
  .obj "HelloElemVersionBitmap" [.obj "HelloElemHeader" [.num 1, .num 8], .list [.num 18]],
  .obj "HelloElemVersionBitmap" [.obj "HelloElemHeader" [.num 1, .num 0], .list [.num 18, .num 1]],
  .obj "HelloElemVersionBitmap" [.obj "HelloElemHeader" [.num 2, .num 16], .list [.num 1, .num 2, .num 3]]]

/-- the hypotheses of `hello_walk` are satisfiable: a Hello with those three elements -/
example : ∃ bs v2, Hello.marshalM (.obj "Hello" [.obj "Header" [.num 4, .num 0, .num 8, .num 7], .list exHelloElems]) = .ok (bs, v2) ∧
    ∃ ts, walkHelloElems (bs.length + 1) (bs.drop 8) = .ok ts ∧ ts.length = 3 := by
  refine ⟨_, _, rfl, ?_⟩
  obtain ⟨ebs, es2, hm, hl, _, hw, _, _⟩ := hello_walk (.obj "Header" [.num 4, .num 0, .num 8, .num 7]) exHelloElems _ _ (by
      intro e he
      simp only [exHelloElems, List.mem_cons, List.mem_nil_iff, or_false] at he
      rcases he with rfl | rfl | rfl <;> exact ⟨_, _, _, rfl, by decide⟩)
    (by intro ls es1 h
        have e : mapM2 HelloElem.lenM exHelloElems = .ok ([8, 16, 16], exHelloElems) := rfl
        rw [e] at h; cases h; decide) rfl
  refine ⟨_, hw _ (by rw [hl]; simp [exHelloElems]; omega), ?_⟩
  rw [List.length_map, (mapM2_length _ _ _ _ hm).1]; rfl

theorem bundleProp_ok (x : V) (b : Bytes) (y : V) (hd : ∀ t l ei et d, x = .obj "BundlePropertyExperimenter" [t, l, ei, et, .bytes d] → d.length ≤ 65500)
    (h : BundlePropertyExperimenter.marshalM x = .ok (b, y)) : PropOK b := by
  unfold BundlePropertyExperimenter.marshalM at h
  split at h
  · rename_i t l ei et d
    have hdl := hd _ _ _ _ _ rfl
    have h' : BundlePropertyExperimenter.marshalM (.obj "BundlePropertyExperimenter" [.num t, l, .num ei, .num et, .bytes d])
        = .ok (b, y) := h
    obtain ⟨_, a, r, _, z⟩ := bundleProp_wire t l ei et d b y hdl h'
    have h8 : 8 ≤ b.length := by rw [r]; unfold Spec.round8; omega
    have e2 : u16At b 2 = 12 + d.length := by rw [u16At_eq_beAt b 2 (by omega), a]
    refine ⟨by omega, by rw [e2]; exact r, fun _ => by omega, ?_⟩
    rw [e2, z]
    exact (allZero_iff _).mpr (allZero_zeros _)
  · exact absurd h (by simp)

/-- WALK of ANY list of experimenter bundle properties (each with at most 65 500 data bytes, any type code): the
    specification walker's property walk over their concatenated encodings accepts — every declared length at least 4
    (12 for experimenter properties), every property zero-padded to 8 — and returns one subtree per property -/
theorem bundleProps_walk (ps : List V) (pbs : List Bytes) (ps2 : List V)
    (hd : ∀ x ∈ ps, ∀ t l ei et d, x = .obj "BundlePropertyExperimenter" [t, l, ei, et, .bytes d] → d.length ≤ 65500)
    (hm : mapM2 BundlePropertyExperimenter.marshalM ps = .ok (pbs, ps2)) :
    ∀ fuel, ps.length < fuel →
      walkProps fuel pbs.flatten = .ok (pbs.map (fun b => Tree.node s!"prop {u16At b 0}" b [])) := by
  intro fuel hf
  refine walkProps_flatten pbs ?_ fuel (by rw [(mapM2_length _ _ _ _ hm).1]; exact hf)
  intro b hb
  obtain ⟨x, hx, y, hxy⟩ := mapM2_mem_bytes _ _ _ _ hm b hb
  exact bundleProp_ok x b y (hd x hx) hxy

/-- two experimenter properties with 3 and 8 data bytes -/
def exProps : List V := [
  .obj "BundlePropertyExperimenter" [.num 0xffff, .num 0, .num 0x2320, .num 1, .bytes [1, 2, 3]],
  .obj "BundlePropertyExperimenter" [.num 0xffff, .num 0, .num 0x2320, .num 2, .bytes [1, 2, 3, 4, 5, 6, 7, 8]]]

/-- `bundleProps_walk` applies to them -/
example : ∃ pbs ps2, mapM2 BundlePropertyExperimenter.marshalM exProps = .ok (pbs, ps2) ∧
    ∃ ts, walkProps 3 pbs.flatten = .ok ts ∧ ts.length = 2 := by
  refine ⟨_, _, rfl, _, bundleProps_walk exProps _ _ (by
    intro x hx t l ei et d e
    simp only [exProps, List.mem_cons, List.mem_nil_iff, or_false] at hx
    rcases hx with rfl | rfl <;> (simp only [V.obj.injEq, List.cons.injEq, V.bytes.injEq, true_and] at e; obtain ⟨_, _, _, _, rfl, _⟩ := e; decide)) rfl 3 (by decide), rfl⟩

/-- WALK of a whole Hello message by the top-level specification walker: version 4, type OFPT_HELLO, any transaction
    id, whatever length is stored in the header (the encoder stores Len()), ANY list of version-bitmap elements as in
    `hello_walk`: `Spec.walk` accepts the encoding — the header declares exactly the bytes present — and its tree is the
    message node with exactly one child per element, the elements' own encodings in order -/
theorem hello_specWalk (ln : V) (xid : Nat) (es : List V) (bs : Bytes) (v2 : V) (hes : ∀ e ∈ es, HelloElemShape e)
    (hfit : ∀ ls es1, mapM2 HelloElem.lenM es = .ok (ls, es1) → 8 + (ls.map UInt16.toNat).sum < 65536)
    (h : Hello.marshalM (.obj "Hello" [.obj "Header" [.num 4, .num 0, ln, .num xid], .list es]) = .ok (bs, v2)) :
    ∃ ebs es2, mapM2 HelloElem.marshalM es = .ok (ebs, es2) ∧
      Spec.walk bs = .ok (.node "msg 0" bs (ebs.map (fun b => Tree.node s!"helloelem {u16At b 0}" b []))) := by
  obtain ⟨ebs, es2, hm, hl, hd, hw, hcnt, l1, hl1, hhb⟩ := hello_walk _ es bs v2 hes hfit h
  refine ⟨ebs, es2, hm, ?_⟩
  simp only [Header.setLength, Header.bytes, V.u16] at hhb
  have e8 : bs.take 8 = [n8 4, n8 0] ++ be16 (n16 l1.toNat) ++ be32 (n32 xid) := (Res.ok.inj hhb).symm
  have hsplit : bs = ([n8 4, n8 0] ++ be16 (n16 l1.toNat) ++ be32 (n32 xid)) ++ bs.drop 8 := by
    rw [← e8, List.take_append_drop]
  have hv : u8At bs 0 = 4 := by rw [hsplit, u8At_append_left _ _ _ (by simp)]; rfl
  have ht : u8At bs 1 = 0 := by rw [hsplit, u8At_append_left _ _ _ (by simp)]; rfl
  have hln : u16At bs 2 = bs.length := by
    rw [u16At_eq_beAt bs 2 (by omega)]
    have hs2 : bs = [n8 4, n8 0] ++ (be16 (n16 l1.toNat) ++ (be32 (n32 xid) ++ bs.drop 8)) := by
      conv => lhs; rw [hsplit]
      simp only [List.append_assoc]
    have hr := beAt_append_right [n8 4, n8 0] (be16 (n16 l1.toNat) ++ (be32 (n32 xid) ++ bs.drop 8)) 0 2
    rw [← hs2] at hr
    have hr' : beAt bs 2 2 = beAt (be16 (n16 l1.toNat) ++ (be32 (n32 xid) ++ bs.drop 8)) 0 2 := hr
    rw [hr', beAt_be16, n16_of_toNat, hl1]
  have hnl : ¬ bs.length < 8 := by omega
  unfold Spec.walk
  simp only [walkMsg, hnl, hv, ht, hln, if_false, ne_eq, not_true_eq_false, hw (bs.length + 1) (by omega)]
  rfl

/-- `hello_specWalk` applies to the three-element Hello: the top-level walker accepts and sees three children -/
example : ∃ bs v2, Hello.marshalM (.obj "Hello" [.obj "Header" [.num 4, .num 0, .num 8, .num 7], .list exHelloElems]) = .ok (bs, v2) ∧
    ∃ t, Spec.walk bs = .ok t := by
  refine ⟨_, _, rfl, ?_⟩
  obtain ⟨ebs, es2, _, hw⟩ := hello_specWalk (.num 8) 7 exHelloElems _ _ (by
      intro e he
      simp only [exHelloElems, List.mem_cons, List.mem_nil_iff, or_false] at he
      rcases he with rfl | rfl | rfl <;> exact ⟨_, _, _, rfl, by decide⟩)
    (by intro ls es1 h
        have e : mapM2 HelloElem.lenM exHelloElems = .ok ([8, 16, 16], exHelloElems) := rfl
        rw [e] at h; cases h; decide) rfl
  exact ⟨_, hw⟩

/-! ### match fields and the match through the real walker -/

theorem shl8_fieldByte : ∀ f : Fin 128, (shl8 (n8 f.val) 1).toNat = 2 * f.val ∧ (shl8 (n8 f.val) 1 ||| 1).toNat = 2 * f.val + 1 := by
  decide

/-- the subtree the walker builds for the OXM TLV `b` -/
def oxmTree (b : Bytes) : Tree :=
  match walkOxm b with
  | .ok (t, _) => t
  | .error _ => .node "rejected" b []

theorem oxmTree_of_accept (b : Bytes) (t : Tree) (h : OxmAccept b t) : OxmAccept b (oxmTree b) := by
  have := h.2 []
  rw [List.append_nil] at this
  have e : oxmTree b = t := by unfold oxmTree; rw [this]
  rw [e]; exact h

/-- MATCH FIELDS FOR WHICH ACCEPTANCE BY THE REAL WALKER IS PROVED — generically over the walker's table: any
    non-experimenter (class, field) the table knows with a fixed width `w` (everything but tun_metadata: in_port,
    eth_type, eth_dst/src, vlan_vid, ip_proto, ipv4/ipv6 addresses, ports, reg0..15, ct_state/zone/mark/label, …), no
    experimenter id, a value payload of exactly `w` bytes, optionally a mask payload of `w` bytes, and the stored Length
    `w` (`2·w` with a mask) — what the constructors of match.go / nx_match.go store -/
def FieldKnown (v : V) : Prop :=
  ∃ c f hm ln val mask lv w, v = .obj "MatchField" [.num c, .num f, .num hm, .num ln, .num 0, val, mask] ∧
    c < 65535 ∧ f < 128 ∧ oxmLegalWidth c f = some w ∧ ¬ (c = 1 ∧ 40 ≤ f ∧ f ≤ 103) ∧
    MatchPayload.lenM val = .ok (lv, val) ∧ lv.toNat = w ∧
    (hm = 0 ∨ hm ≠ 0 ∧ MatchPayload.lenM mask = .ok (lv, mask)) ∧ ln = (if hm = 0 then w else 2 * w) ∧ ln < 256

/-- ACCEPTANCE of a match field: the real walker's `walkOxm` accepts the encoding of EVERY known field (any payload
    bytes), whatever follows it, consuming exactly its bytes -/
theorem matchField_accept (v : V) (hk : FieldKnown v) (bs : Bytes) (v2 : V) (h : MatchField.marshalM v = .ok (bs, v2)) :
    OxmAccept bs (oxmTree bs) := by
  obtain ⟨c, f, hm, ln, val, mask, lv, w, rfl, hc, hf, hw, hnv, hlv, hlw, hmk, hln, hlt⟩ := hk
  obtain ⟨c', f', hm', ln', eid', val', mask', heq, a0, a3, a2, lv', lm', hlv', hlm', hsz⟩ := matchField_wire _ bs v2 h
  cases heq
  rw [hlv] at hlv'
  cases hlv'
  obtain ⟨s0, s1⟩ := shl8_fieldByte ⟨f, hf⟩
  simp only at s0 s1
  simp only [if_true] at hsz
  rw [Nat.mod_eq_of_lt (by omega)] at a0
  rw [Nat.mod_eq_of_lt hlt] at a3
  by_cases hm0 : hm = 0
  · have elm : lm'.toNat = 0 := by
      rcases hlm' with ⟨_, rfl⟩ | ⟨h1, _⟩
      · rfl
      · exact absurd hm0 h1
    rw [if_pos hm0, s0] at a2
    rw [if_pos hm0] at hln
    have hlen : bs.length = 4 + ln := by omega
    refine oxmTree_of_accept _ _ ⟨by omega, fun tail => walkOxm_accept bs tail c (2 * f) ln w hlen ?_ ?_ ?_ (by omega) ?_ ?_ ?_⟩
    · rw [u16At_eq_beAt _ _ (by omega), a0]
    · rw [u8At_eq_beAt _ _ (by omega), a2]
    · rw [u8At_eq_beAt _ _ (by omega), a3]
    · rw [Nat.mul_div_cancel_left f (by decide)]; exact hw
    · rw [Nat.mul_div_cancel_left f (by decide)]; exact hnv
    · have : 2 * f % 2 = 0 := by omega
      rw [this]; simpa using hln
  · have elm : lm' = lv := by
      rcases hlm' with ⟨h0, _⟩ | ⟨_, hm1'⟩
      · exact absurd h0 hm0
      · rcases hmk with h0 | ⟨_, hm1⟩
        · exact absurd h0 hm0
        · rw [hm1] at hm1'; cases hm1'; rfl
    subst elm
    rw [if_neg hm0, s1] at a2
    rw [if_neg hm0] at hln
    have hlen : bs.length = 4 + ln := by omega
    have hd : (2 * f + 1) / 2 = f := by omega
    refine oxmTree_of_accept _ _ ⟨by omega, fun tail => walkOxm_accept bs tail c (2 * f + 1) ln w hlen ?_ ?_ ?_ (by omega) ?_ ?_ ?_⟩
    · rw [u16At_eq_beAt _ _ (by omega), a0]
    · rw [u8At_eq_beAt _ _ (by omega), a2]
    · rw [u8At_eq_beAt _ _ (by omega), a3]
    · rw [hd]; exact hw
    · rw [hd]; exact hnv
    · have : (2 * f + 1) % 2 = 1 := by omega
      rw [this]; simpa using hln

/-- set-field (type 25) as NewActionSetField(field) stores it (stored Length = Len()), for EVERY known field: the real
    walker accepts the action — the embedded OXM TLV is legal, the action is 4 + the field rounded up to 8, zero padded -/
theorem actionSetField_accept (hd f : V) (hkf : FieldKnown f) (l : UInt16) (v1 : V) (bs : Bytes) (v2 : V)
    (hl : ActionSetField.lenM (.obj "ActionSetField" [hd, f]) = .ok (l, v1))
    (hwf : ahdr (.obj "ActionSetField" [hd, f]) = some (25, l.toNat))
    (h : ActionSetField.marshalM (.obj "ActionSetField" [hd, f]) = .ok (bs, v2)) : Accepted bs := by
  obtain ⟨hal, a0, a2, hd', f', fb, f'', heq, hfm, hmid, hzero⟩ := actionSetField_wire _ bs v2 _ _ hwf h
  cases heq
  have hs := C06b.actionSetField_size _ l v1 bs v2 hl h
  have hlt := l.toNat_lt
  rw [Nat.mod_eq_of_lt hlt, ← hs] at a2
  -- the size: 4 + the field, rounded up
  unfold ActionSetField.lenM at hl
  obtain ⟨⟨fl, f1⟩, hfl, hl2⟩ := bind_ok_inv _ _ _ hl
  have el : l = Model.round8 (4 + fl) := by cases hl2; rfl
  have hfsz := C06.matchField_size _ fl f1 fb f'' hfl hfm
  have hfle := C06b.matchField_len_le _ _ _ hfl
  have hp : (2 : Nat) ^ 16 = 65536 := rfl
  have e4 : (4 + fl : UInt16).toNat = 4 + fb.length := by
    have h4 : (4 : UInt16).toNat = 4 := rfl
    rw [UInt16.toNat_add, h4, hp, hfsz]; omega
  have hge := C02.round8_ge (4 + fl) (by omega)
  have hra := C02.round8_aligned (4 + fl)
  rw [← el, ← hs, e4] at hge
  rw [← el, ← hs] at hra
  have hox := matchField_accept _ hkf fb f'' hfm
  have hpos := hox.1
  refine accepted_of _ _ (accept_setField bs fb (oxmTree fb) (by omega) hal (by rw [a0]) a2 hox ?_ ?_)
  · unfold Spec.round8; omega
  · have : bs.drop 4 = (bs.drop 4).take fb.length ++ (bs.drop 4).drop fb.length := (List.take_append_drop _ _).symm
    rw [this, hmid, List.drop_drop, hzero]
    rfl

/-- reg_load2 (Nicira subtype 33) with the header NewNXActionRegLoad2 stores (any stored length: the encoder overwrites
    it), for EVERY known field: the real walker accepts the action — the embedded OXM TLV is legal, the action is 10 +
    the field rounded up to 8, zero padded -/
theorem nxRegLoad2_accept (hd f pad : V) (hkf : FieldKnown f) (ln : Nat) (bs : Bytes) (v2 : V)
    (hwf : nxhdr (.obj "NXActionRegLoad2" [hd, f, pad]) = some (0xffff, ln, 0x2320, 33))
    (h : NXActionRegLoad2.marshalM (.obj "NXActionRegLoad2" [hd, f, pad]) = .ok (bs, v2)) : Accepted bs := by
  obtain ⟨hal, hnx, hd', f', pad', fb, f'', heq, hfm, hmid, hzero⟩ := nxRegLoad2_wire _ bs v2 _ _ _ _ hwf h
  cases heq
  have h' := h
  unfold NXActionRegLoad2.marshalM at h'
  obtain ⟨⟨l0, va⟩, hl0, _⟩ := bind_ok_inv _ _ _ h'
  have hs := C06b.nxRegLoad2_size _ l0 va bs v2 hl0 h
  unfold NXActionRegLoad2.lenM at hl0
  simp only at hl0
  split at hl0
  · exact absurd hl0 (by simp)
  · obtain ⟨⟨fl, f1⟩, hfl, hl2⟩ := bind_ok_inv _ _ _ hl0
    have el : l0 = Model.round8 (10 + fl) := by cases hl2; rfl
    have hfsz := C06.matchField_size _ fl f1 fb f'' hfl hfm
    have hfle := C06b.matchField_len_le _ _ _ hfl
    have hp : (2 : Nat) ^ 16 = 65536 := rfl
    have e4 : (10 + fl : UInt16).toNat = 10 + fb.length := by
      have h10 : (10 : UInt16).toNat = 10 := rfl
      rw [UInt16.toNat_add, h10, hp, hfsz]; omega
    have hge := C02.round8_ge (10 + fl) (by omega)
    rw [← el, ← hs, e4] at hge
    have hox := matchField_accept _ hkf fb f'' hfm
    have hpos := hox.1
    refine accepted_of _ _ (accept_regLoad2 bs fb (oxmTree fb) (by omega) hal hnx.code_ok hnx.len_ok hnx.vendor_ok
      hnx.sub_ok hox ?_ ?_)
    · unfold Spec.round8; omega
    · have : bs.drop 10 = (bs.drop 10).take fb.length ++ (bs.drop 10).drop fb.length := (List.take_append_drop _ _).symm
      rw [this, hmid, List.drop_drop, hzero]
      rfl

/-! ### NAT actions built by any setter history -/

theorem natRp_lt (ops : List NatOp) : ∀ rp, rp < 64 → natRpFrom rp ops < 64 := by
  induction ops with
  | nil => intro rp h; exact h
  | cons op ops ih =>
    intro rp h
    simp only [natRpFrom, List.foldl_cons]
    apply ih
    cases op with
    | range i x =>
      simp only [natRpStep]
      have hb : natBit i < 2 ^ 6 := by revert i; decide
      exact Nat.or_lt_two_pow (n := 6) h hb
    | _ => exact h

theorem unpaddedLen_natSz : ∀ rp : Fin 64, (NXActionCTNAT.unpaddedLen rp.val).toNat = natSz rp.val := by decide

/-- NAT ACTIONS BUILT BY ANY SETTER HISTORY are accepted by the real walker: for every sequence of calls (flag setters,
    the six range setters with proper arguments, in any order, with repetitions, Len() interleaved) starting from
    NewNXActionCTNAT(), the encoding has the Nicira NAT codes, zero pad bytes, a presence word below 64, exactly the
    size the presence bits demand rounded up to 8, and a zero tail -/
theorem nxCTNAT_accept (ops : List NatOp) (hok : ∀ op ∈ ops, NatArgOK op) (w : V)
    (h : runOps natApply NXActionCTNAT.new ops = .ok w) (bs : Bytes) (w' : V) (hm : NXActionCTNAT.marshalM w = .ok (bs, w')) :
    Accepted bs := by
  obtain ⟨h1, fl', rp', a, b, c, d, e, f, hw, hp⟩ := nat_present_from_any ops _ _ 0 0 [] [] [] [] .nil .nil w h hok natPresent_new
  obtain ⟨ln, fl, a2, b2, c2, d2, e2, f2, hw2, _, _, _, hlen⟩ := C03c.nat_history_length ops w h
  obtain ⟨hl1, hl2, hl3⟩ := hlen bs w' hm
  have hnx : nxhdr w = some (Gen.openflow13.ActionType_Experimenter, ln, Gen.openflow13.NxExperimenterID,
      (n16 Gen.openflow13.NXAST_NAT).toNat) := by rw [hw2]; rfl
  obtain ⟨_, hal, hnxw⟩ := nxCTNAT_wire w bs w' _ _ _ _ hnx hm
  rw [hw] at hw2
  simp only [natObj, V.obj.injEq, true_and, List.cons.injEq, V.num.injEq, and_true] at hw2
  obtain ⟨_, _, erp, _⟩ := hw2
  subst hw
  have hrp : rp' < 64 := by rw [erp]; exact natRp_lt ops 0 (by decide)
  have hopt := natOptBits_length rp' a b c d e f hp
  rw [← erp] at hl2 hl3
  have hsz : (NXActionCTNAT.unpaddedLen rp').toNat = natSz rp' := unpaddedLen_natSz ⟨rp', hrp⟩
  rw [hsz] at hl2 hl3 hopt
  obtain ⟨hb, hhb, hbs⟩ := C03b.nxCTNAT_presence _ _ _ _ _ _ _ _ _ _ bs w' hm hp (by omega)
  have h16 : 16 ≤ bs.length := by unfold natSz at hl2; omega
  have hN := hnxw (by omega)
  generalize hO : natOptBits rp' a b c d e f = O at hbs hopt
  have hrpn : (n16 rp').toNat = rp' := by rw [n16_toNat']; omega
  refine accepted_of _ _ (accept_nat bs rp' h16 hal hN.code_ok hN.len_ok hN.vendor_ok hN.sub_ok ?_ ?_ hrp ?_ ?_)
  · rw [hbs]
    have : ∀ (p z r : Bytes), p.length = 10 → z.length = 2 → slice (p ++ z ++ r) 10 2 = z := by
      intro p z r hp' hz
      unfold slice
      rw [List.append_assoc, ← hp', List.drop_left, ← hz, List.take_left]
    simp only [List.append_assoc]
    have := this hb (zeros 2) (be16 (n16 fl') ++ (be16 (n16 rp') ++ (O ++ zeros (bs.length - (16 + O.length))))) hhb (by simp [zeros])
    simp only [List.append_assoc] at this
    rw [this]; exact (allZero_iff _).mpr (allZero_zeros 2)
  · rw [u16At_eq_beAt _ _ (by omega)]
    conv => lhs; rw [hbs]
    have hr := beAt_append_right (hb ++ zeros 2 ++ be16 (n16 fl')) (be16 (n16 rp') ++ (O ++ zeros (bs.length - (16 + O.length)))) 0 2
    simp only [List.length_append, hhb, zeros_length, be16_length, Nat.add_zero, List.append_assoc] at hr ⊢
    rw [hr, beAt_be16, hrpn]
  · unfold Spec.round8; omega
  · have hd : bs.drop (natSz rp') = zeros (bs.length - (16 + O.length)) := by
      conv => lhs; rw [hbs]
      have : (hb ++ zeros 2 ++ be16 (n16 fl') ++ be16 (n16 rp') ++ O).length = natSz rp' := by
        simp [hhb, zeros_length]; omega
      rw [← this, List.drop_left]
    unfold slice
    rw [hd]
    apply (allZero_iff _).mpr
    intro x hx
    exact allZero_zeros _ x (List.mem_of_mem_take hx)

/-- ports before addresses, SNAT, a Len() in the middle, IPv4-min set twice -/
def exNatOps : List NatOp :=
  [.range 4 (.num 1000), .snat, .range 0 (.bytes [10, 0, 0, 1]), .len, .range 0 (.bytes [10, 0, 0, 9])]

/-- `nxCTNAT_accept` applies to that history -/
example : ∃ w, runOps natApply NXActionCTNAT.new exNatOps = .ok w ∧
    (NXActionCTNAT.marshalM w).isOk = true ∧ ∀ bs w', NXActionCTNAT.marshalM w = .ok (bs, w') → Accepted bs := by
  refine ⟨_, rfl, rfl, fun bs w' hm => nxCTNAT_accept exNatOps ?_ _ rfl bs w' hm⟩
  intro op hop
  simp only [exNatOps, List.mem_cons, List.mem_nil_iff, or_false] at hop
  rcases hop with rfl | rfl | rfl | rfl | rfl <;> simp [NatArgOK] <;> decide

/-! ### single actions: the REAL walker (`Spec.walkAction`) accepts what the library writes -/

/-- an output action with the header NewActionOutput stores (type 0, length 16), ANY port and max-length, 6 zero pad
    bytes: accepted as "act 0", 16 bytes consumed -/
theorem actionOutput_accept (port ml : Nat) (bs : Bytes) (v2 : V)
    (h : ActionOutput.marshalM (.obj "ActionOutput" [ActionHeader.mk 0 16, .num port, .num ml, .bytes (zeros 6)]) = .ok (bs, v2)) :
    ActAccept bs (.node "act 0" bs []) := by
  obtain ⟨a, b, c⟩ := actionOutput_wire _ bs v2 0 16 rfl h
  refine accept_output bs a b c ?_
  simp only [ActionOutput.marshalM, ActionHeader.mk, ActionHeader.bytes, Res.bind_ok] at h
  obtain ⟨out, hf, h⟩ := bind_ok_inv _ _ _ h
  obtain ⟨rfl, _⟩ := same_ok _ _ _ _ h
  have := fill_all _ _ _ (by intro p hp; simp only [List.mem_cons, List.mem_nil_iff, or_false] at hp
                             rcases hp with rfl | rfl | rfl | rfl <;> simp [pCopy, pU32, pU16, Piece.Tight])
    (by simp [piecesLen, pCopy, pU32, pU16, Piece.adv]) hf
  rw [this]
  simp [piecesBytes, piecesLen, pCopy, pU32, pU16, Piece.bytes, Piece.adv, zeros, be16, be32]

/-- the table of the walker's fixed-size Nicira actions only holds sizes 16 and 24 and 16-bit subtypes -/
theorem nxFixed_facts (sub sz : Nat) (h : nxFixed.lookup sub = some sz) : (sz = 16 ∨ sz = 24) ∧ sub < 65536 := by
  have key : ∀ l : List (Nat × Nat), (∀ p ∈ l, (p.2 = 16 ∨ p.2 = 24) ∧ p.1 < 65536) → l.lookup sub = some sz →
      (sz = 16 ∨ sz = 24) ∧ sub < 65536 := by
    intro l
    induction l with
    | nil => intro _ h; simp [List.lookup] at h
    | cons p ps ih =>
      intro hp h
      obtain ⟨k, v⟩ := p
      simp only [List.lookup] at h
      split at h
      · rename_i heq
        cases h
        have := hp (k, sz) (by simp)
        have hk : sub = k := by simpa using heq
        subst hk; exact this
      · exact ih (fun q hq => hp q (by simp [hq])) h
  exact key nxFixed (by decide) h

/-- a Nicira action whose wire facts are those of a stored-length kind with the header (0xffff, size, 0x2320, subtype)
    where the walker's table gives that size for that subtype -/
theorem nx_accept_of_wire (sub sz : Nat) (bs : Bytes) (hs : nxFixed.lookup sub = some sz)
    (hw : bs.length = sz % 65536 ∧ (10 ≤ bs.length → NXw (0xffff % 65536) (0x2320 % 4294967296) (sub % 65536) bs)) :
    ActAccept bs (.node s!"nx {sub}" bs []) := by
  obtain ⟨hsz, hsub⟩ := nxFixed_facts sub sz hs
  obtain ⟨a, b⟩ := hw
  have e : bs.length = sz := by rw [a]; rcases hsz with rfl | rfl <;> rfl
  have hn := b (by rcases hsz with rfl | rfl <;> omega)
  rw [Nat.mod_eq_of_lt hsub] at hn
  exact accept_nxFixed sub bs (by rw [e]; exact hs) (by rcases hsz with rfl | rfl <;> omega)
    (by rcases hsz with rfl | rfl <;> omega) hn.code_ok hn.len_ok hn.vendor_ok hn.sub_ok

/-- the Nicira kinds whose encoder writes the stored header and whose size the walker's table fixes -/
def nxFixedKinds : List String := ["NXActionConjunction", "NXActionRegLoad", "NXActionRegMove", "NXActionResubmit",
  "NXActionResubmitTable", "NXActionOutputReg", "NXActionCTClear", "NXActionDecTTL"]

/-- ACTION KINDS FOR WHICH ACCEPTANCE BY THE REAL WALKER IS PROVED, with the header the constructors store:
    output (6 zero pad bytes), group, set-queue, dec-nw-ttl, pop-vlan, push-vlan/mpls/pbb, pop-mpls, set-mpls-ttl,
    set-nw-ttl, and the fixed-size Nicira actions conjunction, reg-load, reg-move, resubmit, resubmit-table (also the
    ct variant), output-reg, ct-clear, dec-ttl, controller (whatever length is stored), note (any note of at most
    65 518 bytes), set-field of any known match field with the stored Length = Len(), reg_load2 of any known match field, a NAT action built from NewNXActionCTNAT() by ANY
    setter history with proper arguments — any field values -/
def ActionKnown (v : V) : Prop :=
  (∃ port ml, v = .obj "ActionOutput" [ActionHeader.mk 0 16, .num port, .num ml, .bytes (zeros 6)]) ∨
  (v.kind = "ActionGroup" ∧ ahdr v = some (22, 8)) ∨
  (v.kind = "ActionSetqueue" ∧ ahdr v = some (21, 8)) ∨
  (v.kind = "ActionDecNwTtl" ∧ ahdr v = some (24, 8)) ∨
  (v.kind = "ActionPopVlan" ∧ ahdr v = some (18, 8)) ∨
  (v.kind = "ActionPush" ∧ ∃ ty, ty ∈ [17, 19, 26] ∧ ahdr v = some (ty, 8)) ∨
  (v.kind = "ActionPopMpls" ∧ ahdr v = some (20, 8)) ∨
  (v.kind = "ActionMplsTtl" ∧ ahdr v = some (15, 8)) ∨
  (v.kind = "ActionNwTtl" ∧ ahdr v = some (23, 8)) ∨
  (v.kind ∈ nxFixedKinds ∧ ∃ sub sz, nxFixed.lookup sub = some sz ∧ nxhdr v = some (0xffff, sz, 0x2320, sub)) ∨
  (v.kind = "NXActionController" ∧ ∃ ln, nxhdr v = some (0xffff, ln, 0x2320, 20)) ∨
  (∃ hd note ln, v = .obj "NXActionNote" [hd, .bytes note] ∧ note.length ≤ 65518 ∧ nxhdr v = some (0xffff, ln, 0x2320, 8)) ∨
  (∃ hd f l v1, v = .obj "ActionSetField" [hd, f] ∧ FieldKnown f ∧
    ActionSetField.lenM (.obj "ActionSetField" [hd, f]) = .ok (l, v1) ∧
    ahdr (.obj "ActionSetField" [hd, f]) = some (25, l.toNat)) ∨
  (∃ hd f pad ln, v = .obj "NXActionRegLoad2" [hd, f, pad] ∧ FieldKnown f ∧
    nxhdr (.obj "NXActionRegLoad2" [hd, f, pad]) = some (0xffff, ln, 0x2320, 33)) ∨
  (∃ ops, runOps natApply NXActionCTNAT.new ops = .ok v ∧ ∀ op ∈ ops, NatArgOK op)

macro "act_leaf0" v:ident hk:ident h:ident K:ident : tactic => `(tactic| (
  have e : Action.marshalM $v = $K $v := by
    simp [Action.marshalM, Action.marshalD, Action.marshalLeaf, $hk:ident]
  rw [e] at $h:ident))

/-- ACCEPTANCE through the Action interface: the real walker accepts the encoding of EVERY action of a known kind (any
    field values), whatever follows it, consuming exactly its bytes -/
theorem action_accept (v : V) (hk : ActionKnown v) (bs : Bytes) (v2 : V) (h : Action.marshalM v = .ok (bs, v2)) :
    Accepted bs := by
  rcases hk with ⟨port, ml, rfl⟩ | ⟨hk, ha⟩ | ⟨hk, ha⟩ | ⟨hk, ha⟩ | ⟨hk, ha⟩ | ⟨hk, ty, hty, ha⟩ | ⟨hk, ha⟩ | ⟨hk, ha⟩ |
    ⟨hk, ha⟩ | ⟨hk, sub, sz, hs, hn⟩ | ⟨hk, ln, hn⟩ | ⟨hd, note, ln, rfl, hfit, hn⟩ |
    ⟨hd, f, l, v1, rfl, hkf, hl, hwf⟩ | ⟨hd, f, pad, ln, rfl, hkf, hwf⟩ | ⟨ops, hops, hok⟩
  · have e : Action.marshalM (.obj "ActionOutput" [ActionHeader.mk 0 16, .num port, .num ml, .bytes (zeros 6)]) =
        ActionOutput.marshalM (.obj "ActionOutput" [ActionHeader.mk 0 16, .num port, .num ml, .bytes (zeros 6)]) := by
      simp [Action.marshalM, Action.marshalD, Action.marshalLeaf, V.kind]
    rw [e] at h
    exact accepted_of _ _ (actionOutput_accept port ml bs v2 h)
  · act_leaf0 v hk h ActionGroup.marshalM
    obtain ⟨a, b, c⟩ := actionGroup_wire v bs v2 _ _ ha h
    exact accepted_of _ _ (accept_nopad 22 (by decide) bs a b c)
  · act_leaf0 v hk h ActionSetqueue.marshalM
    obtain ⟨a, b, c⟩ := actionSetqueue_wire v bs v2 _ _ ha h
    exact accepted_of _ _ (accept_nopad 21 (by decide) bs a b c)
  · act_leaf0 v hk h ActionDecNwTtl.marshalM
    obtain ⟨a, b, c, d⟩ := actionDecNwTtl_wire v bs v2 _ _ ha h
    exact accepted_of _ _ (accept_pad4 24 (by decide) bs a b c d)
  · act_leaf0 v hk h ActionPopVlan.marshalM
    obtain ⟨a, b, c, d⟩ := actionPopVlan_wire v bs v2 _ _ ha h
    exact accepted_of _ _ (accept_pad4 18 (by decide) bs a b c d)
  · act_leaf0 v hk h ActionPush.marshalM
    obtain ⟨a, b, c, d⟩ := actionPush_wire v bs v2 _ _ ha h
    have hlt : ty < 65536 := by
      simp only [List.mem_cons, List.mem_nil_iff, or_false] at hty; omega
    rw [Nat.mod_eq_of_lt hlt] at b
    exact accepted_of _ _ (accept_pad2 ty (by
      simp only [List.mem_cons, List.mem_nil_iff, or_false] at hty ⊢; omega) bs a b c d)
  · act_leaf0 v hk h ActionPopMpls.marshalM
    obtain ⟨a, b, c, d⟩ := actionPopMpls_wire v bs v2 _ _ ha h
    exact accepted_of _ _ (accept_pad2 20 (by decide) bs a b c d)
  · act_leaf0 v hk h ActionMplsTtl.marshalM
    obtain ⟨a, b, c, d⟩ := actionMplsTtl_wire v bs v2 _ _ ha h
    exact accepted_of _ _ (accept_pad3 15 (by decide) bs a b c d)
  · act_leaf0 v hk h ActionNwTtl.marshalM
    obtain ⟨a, b, c, d⟩ := actionNwTtl_wire v bs v2 _ _ ha h
    exact accepted_of _ _ (accept_pad3 23 (by decide) bs a b c d)
  · simp only [nxFixedKinds, List.mem_cons, List.mem_nil_iff, or_false] at hk
    rcases hk with hk | hk | hk | hk | hk | hk | hk | hk
    · act_leaf0 v hk h NXActionConjunction.marshalM
      exact accepted_of _ _ (nx_accept_of_wire sub sz bs hs (nxConjunction_wire v bs v2 _ _ _ _ hn h))
    · act_leaf0 v hk h NXActionRegLoad.marshalM
      exact accepted_of _ _ (nx_accept_of_wire sub sz bs hs (nxRegLoad_wire v bs v2 _ _ _ _ hn h))
    · act_leaf0 v hk h NXActionRegMove.marshalM
      exact accepted_of _ _ (nx_accept_of_wire sub sz bs hs (nxRegMove_wire v bs v2 _ _ _ _ hn h))
    · act_leaf0 v hk h NXActionResubmit.marshalM
      exact accepted_of _ _ (nx_accept_of_wire sub sz bs hs (nxResubmit_wire v bs v2 _ _ _ _ hn h))
    · act_leaf0 v hk h NXActionResubmitTable.marshalM
      exact accepted_of _ _ (nx_accept_of_wire sub sz bs hs (nxResubmitTable_wire v bs v2 _ _ _ _ hn h))
    · act_leaf0 v hk h NXActionOutputReg.marshalM
      exact accepted_of _ _ (nx_accept_of_wire sub sz bs hs (nxOutputReg_wire v bs v2 _ _ _ _ hn h))
    · act_leaf0 v hk h NXActionCTClear.marshalM
      exact accepted_of _ _ (nx_accept_of_wire sub sz bs hs (nxCTClear_wire v bs v2 _ _ _ _ hn h))
    · act_leaf0 v hk h NXActionDecTTL.marshalM
      exact accepted_of _ _ (nx_accept_of_wire sub sz bs hs (nxDecTTL_wire v bs v2 _ _ _ _ hn h))
  · act_leaf0 v hk h NXActionController.marshalM
    obtain ⟨a, b⟩ := nxController_wire v bs v2 _ _ _ _ hn h
    exact accepted_of _ _ (accept_nxFixed 20 bs (by rw [a]; decide) (by omega) (by omega) b.code_ok b.len_ok b.vendor_ok b.sub_ok)
  · have e : Action.marshalM (.obj "NXActionNote" [hd, .bytes note]) = NXActionNote.marshalM (.obj "NXActionNote" [hd, .bytes note]) := by
      simp [Action.marshalM, Action.marshalD, Action.marshalLeaf, V.kind]
    rw [e] at h
    obtain ⟨a, b, c, _⟩ := nxNote_ok ln hd note bs v2 hfit hn h
    exact accepted_of _ _ (accept_note bs (by omega) b a.code_ok a.len_ok a.vendor_ok a.sub_ok)
  · have e : Action.marshalM (.obj "ActionSetField" [hd, f]) = ActionSetField.marshalM (.obj "ActionSetField" [hd, f]) := by
      simp [Action.marshalM, Action.marshalD, Action.marshalLeaf, V.kind]
    rw [e] at h
    exact actionSetField_accept hd f hkf l v1 bs v2 hl hwf h
  · have e : Action.marshalM (.obj "NXActionRegLoad2" [hd, f, pad]) = NXActionRegLoad2.marshalM (.obj "NXActionRegLoad2" [hd, f, pad]) := by
      simp [Action.marshalM, Action.marshalD, Action.marshalLeaf, V.kind]
    rw [e] at h
    exact nxRegLoad2_accept hd f pad hkf ln bs v2 hwf h
  · obtain ⟨_, _, _, _, _, _, _, _, hw2, _⟩ := C03c.nat_history_length ops v hops
    have e : Action.marshalM v = NXActionCTNAT.marshalM v := by
      rw [hw2]; simp [Action.marshalM, Action.marshalD, Action.marshalLeaf, natObj, V.kind]
    rw [e] at h
    exact nxCTNAT_accept ops hok v hops bs v2 h

/-! ### buckets and group-mod through the real walker -/

/-- a bucket whose actions — as Len() leaves them — are well-formed and of known kinds -/
def BucketKnown (bk : V) : Prop :=
  ∃ as ls as1, bk.fields[5]? = some (.list as) ∧ mapM2 Action.lenM as = .ok (ls, as1) ∧
    ∀ a ∈ as1, ActionWF a ∧ ActionKnown a

/-- WALK of a Bucket by the real walker: EVERY bucket (any weight / watch fields, any list of well-formed actions of the
    known kinds, at most 65 528 bytes) satisfies what `Spec.walkBuckets` demands of one bucket — it declares exactly its
    bytes, a multiple of 8, the 4 pad bytes are zero — and `Spec.walkActions` over the bytes behind the 16 fixed ones
    accepts and returns exactly one subtree per action -/
theorem bucket_specWalk (v : V) (hk : BucketKnown v) (bs : Bytes) (v2 : V) (h : Bucket.marshalM v = .ok (bs, v2))
    (hlt : bs.length ≤ 65528) :
    ∃ bss : List Bytes, bs.drop 16 = bss.flatten ∧ BucketOK bs (bss.map actTree) := by
  obtain ⟨as, ls, as1, hf, hm, hwf⟩ := hk
  obtain ⟨bss, as2, hmm, hd, hw, hlen, hal⟩ := bucket_walk v as ls as1 hf hm (fun a ha => (hwf a ha).1) bs v2 h hlt
  have hfl : bss.flatten = bs.drop 16 := walkBy_total _ _ _ _ hw
  obtain ⟨_, _, _, _, _, _, _, _, _, hpad, _, _⟩ := bucket_wire v bs v2 h
  have hacc : ∀ b ∈ bss, Accepted b ∧ 0 < b.length := by
    intro b hb
    obtain ⟨x, hx, y, hxy⟩ := mapM2_mem_bytes _ _ _ _ hmm b hb
    have hdcl := action_declares x (hwf x hx).1 b y hxy
    exact ⟨action_accept x (hwf x hx).2 b y hxy, by have := hdcl.2.1; omega⟩
  have hcnt := count_le_flatten bss (fun b hb => (hacc b hb).2)
  refine ⟨bss, hfl.symm, by omega, hal, hd, ?_, ?_⟩
  · unfold slice; rw [hpad]; exact (allZero_iff _).mpr (allZero_zeros 4)
  · rw [← hfl]
    exact walkActions_flatten bss hacc _ (by omega)

/-- the bytes of a GroupMod (any command but delete) are the 8 header bytes, the 8 fixed bytes, and the buckets' own
    encodings (each from the bucket as Len() left it), complete and in order -/
theorem groupMod_embeds (hh : V) (cmd t p g : Nat) (bks : List V) (bs : Bytes) (v2 : V)
    (hdel : cmd ≠ Gen.openflow13.OFPGC_DELETE)
    (h : GroupMod.marshalM (.obj "GroupMod" [hh, .num cmd, .num t, .num p, .num g, .list bks]) = .ok (bs, v2)) :
    ∃ ls bks1 bss bks2 pre, mapM2 Bucket.lenM bks = .ok (ls, bks1) ∧ mapM2 Bucket.marshalCopyM bks1 = .ok (bss, bks2) ∧
      pre.length = 16 ∧ bs = pre ++ bss.flatten ∧
      Header.bytes (Header.setLength (16 + sum16 ls) hh) = .ok (pre.take 8) ∧
      pre.drop 8 = be16 (n16 cmd) ++ [n8 t, n8 p] ++ be32 (n32 g) := by
  unfold GroupMod.marshalM at h
  obtain ⟨⟨l, v'⟩, hl, h3⟩ := bind_ok_inv _ _ _ h
  simp only [GroupMod.lenM, hdel, if_false] at hl
  obtain ⟨⟨ls, bks1⟩, hm, h1'⟩ := bind_ok_inv _ _ _ hl
  cases h1'
  simp only at h3
  obtain ⟨hb, hhb, h4⟩ := bind_ok_inv _ _ _ h3
  obtain ⟨⟨bb, bks3, e⟩, hml, h5⟩ := bind_ok_inv _ _ _ h4
  rw [if_neg hdel] at hml
  simp only at h5
  split at h5
  · exact absurd h5 (by simp)
  · cases h5
    obtain ⟨bss, hmm, rfl⟩ := marshalList_eq_mapM2 _ _ _ _ _ _ (fun x _ => Bucket.marshalCopyM_noErr x) hml
    have e8 := Header.bytes_length _ _ hhb
    refine ⟨ls, bks1, bss, bks3, hb ++ be16 (n16 cmd) ++ [n8 t, n8 p] ++ be32 (n32 g), hm, hmm, by simp [e8], rfl, ?_, ?_⟩
    · rw [hhb]; congr 1
      simp only [List.append_assoc]
      rw [← e8, List.take_left]
    · have d8 : ∀ (a r : Bytes), a.length = 8 → (a ++ r).drop 8 = r := by
        intro a r ha; rw [← ha, List.drop_left]
      simp only [List.append_assoc]
      rw [d8 _ _ e8]

/-- the action subtrees the walker builds for the bucket `c` -/
def bucketTrees (c : Bytes) : List Tree :=
  match walkActions (c.length + 1) (c.drop 16) with
  | .ok ts => ts
  | .error _ => []

theorem bucketTrees_of_ok (c : Bytes) (ts : List Tree) (h : BucketOK c ts) : BucketOK c (bucketTrees c) := by
  have : bucketTrees c = ts := by unfold bucketTrees; rw [h.2.2.2.2]
  rw [this]; exact h

/-- WALK of a GroupMod (any command but delete; any type / group id / header) with ANY list of buckets whose actions — as
    Len() leaves them — are well-formed and of the known kinds, shorter than 64 KiB: the bytes behind the 16 header and
    fixed bytes are exactly the buckets' encodings, and the REAL walker's bucket walk over them accepts — every bucket
    declares its own bytes, is 8-aligned with zero pad bytes, every action inside is accepted — returning exactly one
    "bucket" subtree per bucket, in order -/
theorem groupMod_specWalk (hh : V) (cmd t p g : Nat) (bks : List V) (bs : Bytes) (v2 : V)
    (hdel : cmd ≠ Gen.openflow13.OFPGC_DELETE) (hlt : bs.length < 65536)
    (hk : ∀ ls bks1, mapM2 Bucket.lenM bks = .ok (ls, bks1) → ∀ bk ∈ bks1, BucketKnown bk)
    (h : GroupMod.marshalM (.obj "GroupMod" [hh, .num cmd, .num t, .num p, .num g, .list bks]) = .ok (bs, v2)) :
    ∃ bss : List Bytes, bs.drop 16 = bss.flatten ∧ bss.length = bks.length ∧
      (∀ fuel, bks.length < fuel →
        walkBuckets fuel (bs.drop 16) = .ok (bss.map (fun c => Tree.node "bucket" c (bucketTrees c)))) ∧
      bks.length ≤ bs.length := by
  obtain ⟨ls, bks1, bss, bks2, pre, hm, hmm, hpre, rfl, _, _⟩ := groupMod_embeds hh cmd t p g bks bs v2 hdel h
  have hdrop : (pre ++ bss.flatten).drop 16 = bss.flatten := by rw [← hpre, List.drop_left]
  have hcnt : bss.length = bks.length := by
    rw [(mapM2_length _ _ _ _ hmm).1, (mapM2_length _ _ _ _ hm).2]
  have hok : ∀ c ∈ bss, BucketOK c (bucketTrees c) := by
    intro c hc
    obtain ⟨x, hx, y, hxy⟩ := mapM2_mem_bytes _ _ _ _ hmm c hc
    unfold Bucket.marshalCopyM at hxy
    obtain ⟨⟨c', z⟩, hmb, e⟩ := bind_ok_inv _ _ _ hxy
    have ec : c' = c := by cases e; rfl
    subst ec
    have hle := length_le_flatten bss c' hc
    simp only [List.length_append, hpre] at hlt
    obtain ⟨abss, _, hb⟩ := bucket_specWalk x (hk ls bks1 hm x hx) c' z hmb (by omega)
    exact bucketTrees_of_ok c' _ hb
  refine ⟨bss, hdrop, hcnt, fun fuel hf => ?_, ?_⟩
  · rw [hdrop]
    exact walkBuckets_flatten bucketTrees bss hok fuel (by omega)
  · have := count_le_flatten bss (fun c hc => by have := (hok c hc).1; omega)
    simp only [List.length_append]; omega

/-- two buckets with different actions: [output 7, group 3] and [pop-vlan, set-queue 5, resubmit-table(3)] -/
def exBuckets : List V := [
  .obj "Bucket" [.num 16, .num 0, .num Gen.openflow13.P_ANY, .num Gen.openflow13.OFPG_ANY, .bytes (zeros 4),
    .list [ActionOutput.new 7, ActionGroup.new 3]],
  .obj "Bucket" [.num 16, .num 1, .num Gen.openflow13.P_ANY, .num Gen.openflow13.OFPG_ANY, .bytes (zeros 4),
    .list [ActionPopVlan.new, ActionSetqueue.new 5, NXActionCTClear.new]]]

theorem known_output (p : Nat) : ActionKnown (ActionOutput.new p) := Or.inl ⟨_, _, rfl⟩
theorem known_group (g : Nat) : ActionKnown (ActionGroup.new g) := Or.inr (Or.inl ⟨rfl, rfl⟩)
theorem known_setqueue (q : Nat) : ActionKnown (ActionSetqueue.new q) := Or.inr (Or.inr (Or.inl ⟨rfl, rfl⟩))
theorem known_popVlan : ActionKnown ActionPopVlan.new := Or.inr (Or.inr (Or.inr (Or.inr (Or.inl ⟨rfl, rfl⟩))))
theorem known_ctClear : ActionKnown NXActionCTClear.new :=
  Or.inr (Or.inr (Or.inr (Or.inr (Or.inr (Or.inr (Or.inr (Or.inr (Or.inr (Or.inl
    ⟨by show "NXActionCTClear" ∈ nxFixedKinds; decide, 43, 16, by decide, rfl⟩)))))))))
theorem known_controller (id : Nat) : ActionKnown (NXActionController.new id) :=
  Or.inr (Or.inr (Or.inr (Or.inr (Or.inr (Or.inr (Or.inr (Or.inr (Or.inr (Or.inr (Or.inl ⟨rfl, 16, rfl⟩))))))))))

/-- the hypotheses of `groupMod_specWalk` are satisfiable: a group-mod ADD with those two buckets encodes, and the real
    walker's bucket walk returns two bucket subtrees -/
example : (GroupMod.marshalM (.obj "GroupMod" [.obj "Header" [.num 4, .num 15, .num 8, .num 7],
      .num Gen.openflow13.OFPGC_ADD, .num 0, .num 0, .num 1, .list exBuckets])).isOk = true ∧
    ∀ bs v2, GroupMod.marshalM (.obj "GroupMod" [.obj "Header" [.num 4, .num 15, .num 8, .num 7],
      .num Gen.openflow13.OFPGC_ADD, .num 0, .num 0, .num 1, .list exBuckets]) = .ok (bs, v2) → bs.length < 65536 →
    ∃ ts, walkBuckets 3 (bs.drop 16) = .ok ts ∧ ts.length = 2 := by
  refine ⟨rfl, fun bs v2 h hlt => ?_⟩
  obtain ⟨bss, hd, hc, hw, _⟩ := groupMod_specWalk (.obj "Header" [.num 4, .num 15, .num 8, .num 7])
    Gen.openflow13.OFPGC_ADD 0 0 1 exBuckets bs v2 (by decide) hlt (by
      intro ls bks1 hm bk hbk
      have e : mapM2 Bucket.lenM exBuckets = .ok ([40, 48], exBuckets) := rfl
      rw [e] at hm; cases hm
      simp only [exBuckets, List.mem_cons, List.mem_nil_iff, or_false] at hbk
      rcases hbk with rfl | rfl
      · refine ⟨_, [16, 8], _, rfl, rfl, ?_⟩
        intro a ha
        simp only [List.mem_cons, List.mem_nil_iff, or_false] at ha
        rcases ha with rfl | rfl
        · exact ⟨actionWF_output 7, known_output 7⟩
        · exact ⟨actionWF_group 3, known_group 3⟩
      · refine ⟨_, [8, 8, 16], _, rfl, rfl, ?_⟩
        intro a ha
        simp only [List.mem_cons, List.mem_nil_iff, or_false] at ha
        rcases ha with rfl | rfl | rfl
        · exact ⟨actionWF_popVlan, known_popVlan⟩
        · exact ⟨actionWF_setqueue 5, known_setqueue 5⟩
        · exact ⟨actionWF_ctClear, known_ctClear⟩) h
  refine ⟨_, hw 3 (by decide), ?_⟩
  rw [List.length_map, hc]; rfl

/-- WALK of a whole GroupMod by the TOP-LEVEL specification walker: version 4, type OFPT_GROUP_MOD, pad byte 0 (what
    NewGroupMod stores), any transaction id / stored length / command but delete / group type / group id, ANY list of
    buckets as in `groupMod_specWalk`: `Spec.walk` accepts the encoding — the header declares exactly the bytes present,
    the pad byte is zero, every bucket and every action inside is legal — and its tree is the message node with exactly
    one "bucket" child per bucket -/
theorem groupMod_topWalk (ln : V) (xid cmd t g : Nat) (bks : List V) (bs : Bytes) (v2 : V)
    (hdel : cmd ≠ Gen.openflow13.OFPGC_DELETE) (hlt : bs.length < 65536)
    (hk : ∀ ls bks1, mapM2 Bucket.lenM bks = .ok (ls, bks1) → ∀ bk ∈ bks1, BucketKnown bk)
    (h : GroupMod.marshalM (.obj "GroupMod" [.obj "Header" [.num 4, .num 15, ln, .num xid], .num cmd, .num t, .num 0,
      .num g, .list bks]) = .ok (bs, v2)) :
    ∃ bss : List Bytes, bs.drop 16 = bss.flatten ∧ bss.length = bks.length ∧
      Spec.walk bs = .ok (.node "msg 15" bs (bss.map (fun c => Tree.node "bucket" c (bucketTrees c)))) := by
  obtain ⟨bss, hd, hc, hw, hcnt⟩ := groupMod_specWalk _ cmd t 0 g bks bs v2 hdel hlt hk h
  refine ⟨bss, hd, hc, ?_⟩
  obtain ⟨ls, bks1, bss', bks2, pre, hm, hmm, hpre, rfl, hhb, hfix⟩ := groupMod_embeds _ cmd t 0 g bks bs v2 hdel h
  have hflat : bss'.flatten = bss.flatten := by rw [← hd, ← hpre, List.drop_left]
  -- the stored header length is the number of bytes
  have hsum := OFV.Frame.buckets_size bks ls bks1 bss' bks2 hm hmm (by
    simp only [List.length_append, hpre] at hlt; omega)
  have hp : (2 : Nat) ^ 16 = 65536 := rfl
  have eL : (16 + sum16 ls : UInt16).toNat = (pre ++ bss'.flatten).length := by
    have h16 : (16 : UInt16).toNat = 16 := rfl
    simp only [List.length_append, hpre] at hlt ⊢
    rw [UInt16.toNat_add, hsum, h16, hp]; omega
  simp only [Header.setLength, Header.bytes, V.u16] at hhb
  have e8 : pre.take 8 = [n8 4, n8 15] ++ be16 (n16 (16 + sum16 ls : UInt16).toNat) ++ be32 (n32 xid) := (Res.ok.inj hhb).symm
  have hsplit : pre = ([n8 4, n8 15] ++ be16 (n16 (16 + sum16 ls : UInt16).toNat) ++ be32 (n32 xid)) ++
      (be16 (n16 cmd) ++ [n8 t, n8 0] ++ be32 (n32 g)) := by
    rw [← e8, ← hfix, List.take_append_drop]
  generalize hB : pre ++ bss'.flatten = B at *
  have hB' : B = [n8 4, n8 15] ++ (be16 (n16 (16 + sum16 ls : UInt16).toNat) ++ (be32 (n32 xid) ++
      ((be16 (n16 cmd) ++ [n8 t, n8 0] ++ be32 (n32 g)) ++ bss'.flatten))) := by
    rw [← hB, hsplit]; simp only [List.append_assoc]
  have hBl : 16 ≤ B.length := by rw [← hB]; simp [hpre]
  have hv : u8At B 0 = 4 := by rw [hB']; rfl
  have ht : u8At B 1 = 15 := by rw [hB']; rfl
  have hln : u16At B 2 = B.length := by
    rw [u16At_eq_beAt B 2 (by omega)]
    have hr := beAt_append_right [n8 4, n8 15] (be16 (n16 (16 + sum16 ls : UInt16).toNat) ++ (be32 (n32 xid) ++
      ((be16 (n16 cmd) ++ [n8 t, n8 0] ++ be32 (n32 g)) ++ bss'.flatten))) 0 2
    rw [← hB'] at hr
    have hr' : beAt B 2 2 = beAt (be16 (n16 (16 + sum16 ls : UInt16).toNat) ++ (be32 (n32 xid) ++
      ((be16 (n16 cmd) ++ [n8 t, n8 0] ++ be32 (n32 g)) ++ bss'.flatten))) 0 2 := hr
    rw [hr', beAt_be16, n16_of_toNat, eL]
  have hbody : B.drop 8 = (be16 (n16 cmd) ++ [n8 t, n8 0] ++ be32 (n32 g)) ++ bss'.flatten := by
    rw [hB']
    have : ([n8 4, n8 15] ++ (be16 (n16 (16 + sum16 ls : UInt16).toNat) ++ be32 (n32 xid))).length = 8 := by simp
    rw [← List.append_assoc, ← List.append_assoc, ← this, List.append_assoc [n8 4, n8 15], List.drop_left]
  have hz : zerosAt (B.drop 8) 3 1 "group-mod" = .ok () := by
    apply zerosAt_ok
    rw [hbody]
    have : ∀ (c r : Bytes) (x : UInt8), c.length = 2 → slice ((c ++ [x, 0] ++ be32 (n32 g)) ++ r) 3 1 = [0] := by
      intro c r x hc
      match c, hc with
      | [a, b], _ => rfl
    rw [show n8 0 = (0 : UInt8) from rfl, this _ _ _ (by simp)]; rfl
  have hdd : (B.drop 8).drop 8 = B.drop 16 := by rw [List.drop_drop]
  have hnl : ¬ B.length < 8 := by omega
  have hbl : ¬ (B.drop 8).length < 8 := by simp; omega
  unfold Spec.walk
  simp only [walkMsg, hnl, hv, ht, hln, hz, hbl, hdd, if_false, ne_eq, not_true_eq_false,
    hw (B.length + 1) (by omega)]
  rfl

theorem exBuckets_known : ∀ ls bks1, mapM2 Bucket.lenM exBuckets = .ok (ls, bks1) → ∀ bk ∈ bks1, BucketKnown bk := by
  intro ls bks1 hm bk hbk
  have e : mapM2 Bucket.lenM exBuckets = .ok ([40, 48], exBuckets) := rfl
  rw [e] at hm; cases hm
  simp only [exBuckets, List.mem_cons, List.mem_nil_iff, or_false] at hbk
  rcases hbk with rfl | rfl
  · refine ⟨_, [16, 8], _, rfl, rfl, ?_⟩
    intro a ha
    simp only [List.mem_cons, List.mem_nil_iff, or_false] at ha
    rcases ha with rfl | rfl
    · exact ⟨actionWF_output 7, known_output 7⟩
    · exact ⟨actionWF_group 3, known_group 3⟩
  · refine ⟨_, [8, 8, 16], _, rfl, rfl, ?_⟩
    intro a ha
    simp only [List.mem_cons, List.mem_nil_iff, or_false] at ha
    rcases ha with rfl | rfl | rfl
    · exact ⟨actionWF_popVlan, known_popVlan⟩
    · exact ⟨actionWF_setqueue 5, known_setqueue 5⟩
    · exact ⟨actionWF_ctClear, known_ctClear⟩

/-- `groupMod_topWalk` applies to what the constructors build: NewGroupMod() (transaction id 7) + AddBucket twice has
    version 4, type 15, pad byte 0; it encodes, and the top-level walker accepts the encoding -/
example : exBuckets.foldlM GroupMod.addBucket (GroupMod.new 7) = .ok (.obj "GroupMod" [.obj "Header" [.num 4, .num 15, .num 8, .num 7],
      .num Gen.openflow13.OFPGC_ADD, .num Gen.openflow13.OFPGT_ALL, .num 0, .num 0, .list exBuckets]) ∧
    (GroupMod.marshalM (.obj "GroupMod" [.obj "Header" [.num 4, .num 15, .num 8, .num 7],
      .num Gen.openflow13.OFPGC_ADD, .num Gen.openflow13.OFPGT_ALL, .num 0, .num 0, .list exBuckets])).isOk = true ∧
    ∀ bs v2, GroupMod.marshalM (.obj "GroupMod" [.obj "Header" [.num 4, .num 15, .num 8, .num 7],
      .num Gen.openflow13.OFPGC_ADD, .num Gen.openflow13.OFPGT_ALL, .num 0, .num 0, .list exBuckets]) = .ok (bs, v2) →
      bs.length < 65536 → ∃ t, Spec.walk bs = .ok t := by
  refine ⟨rfl, rfl, fun bs v2 h hlt => ?_⟩
  obtain ⟨bss, _, _, hw⟩ := groupMod_topWalk (.num 8) 7 Gen.openflow13.OFPGC_ADD Gen.openflow13.OFPGT_ALL 0 exBuckets bs v2
    (by decide) hlt exBuckets_known h
  exact ⟨_, hw⟩

/-! ### packet-out -/

/-- WALK of a PacketOut (any payload functions `cl` / `cm`, i.e. any kind of Data; any buffer id / in-port / stored
    actions_len / header) with ANY list of actions that — as Len() leaves them — are well-formed and of the known kinds,
    the whole staying below 64 KiB: behind the 8 header bytes come buffer id, in-port, the actions_len word holding
    exactly the number of action bytes, 6 zero pad bytes, and the actions' own encodings; the REAL walker's action walk
    over the `actions_len` bytes behind the 16 fixed bytes accepts and returns exactly one subtree per action -/
theorem packetOut_specWalk (cl : MsgLenF) (cm : MsgMarF) (hh : V) (b ip al0 : Nat) (pad : V) (as : List V) (d : V)
    (bs : Bytes) (v2 : V)
    (hk : ∀ ls as1, mapM2 Action.lenM as = .ok (ls, as1) → ∀ a ∈ as1, ActionWF a ∧ ActionKnown a)
    (hfit : ∀ ls as1 ld d1, mapM2 Action.lenM as = .ok (ls, as1) → cl d = .ok (ld, d1) →
      24 + (ls.map UInt16.toNat).sum + ld.toNat < 65536)
    (h : PacketOut.marshalWith cl cm (.obj "PacketOut" [hh, .num b, .num ip, .num al0, pad, .list as, d]) = .ok (bs, v2)) :
    ∃ (abs : List Bytes) (hb : Bytes), hb.length = 8 ∧ abs.length = as.length ∧ 24 + abs.flatten.length ≤ bs.length ∧
      bs.take (24 + abs.flatten.length) =
        hb ++ be32 (n32 b) ++ be32 (n32 ip) ++ be16 (n16 abs.flatten.length) ++ zeros 6 ++ abs.flatten ∧
      u16At (bs.drop 8) 8 = abs.flatten.length ∧ zerosAt (bs.drop 8) 10 6 "packet-out" = .ok () ∧
      (∀ fuel, as.length + 1 < fuel →
        walkActions fuel (slice (bs.drop 8) 16 (u16At (bs.drop 8) 8)) = .ok (abs.map actTree)) ∧
      ∃ l0 l1 : UInt16, bs.length = l0.toNat ∧ Header.bytes (Header.setLength l1 hh) = .ok hb ∧
        ((∀ l v1, cl d = .ok (l, v1) → cl v1 = .ok (l, v1)) → l1 = l0) ∧ as.length ≤ abs.flatten.length := by
  unfold PacketOut.marshalWith at h
  obtain ⟨⟨l0, va⟩, hl0, g1⟩ := bind_ok_inv _ _ _ h
  obtain ⟨ls, as1, ld, d1, hm1, hd1, rfl, rfl⟩ := OFV.Rep.PacketOut.lenWith_inv cl _ _ _ _ _ _ _ _ _ hl0
  simp only at g1
  obtain ⟨⟨l1, vb⟩, hl1, g2⟩ := bind_ok_inv _ _ _ g1
  have hm1' := OFV.Props.C13.actions_len_idem _ _ _ hm1
  obtain ⟨ls', as1', ld', d1', hm2, hd2, rfl, rfl⟩ := OFV.Rep.PacketOut.lenWith_inv cl _ _ _ _ _ _ _ _ _ hl1
  rw [hm1'] at hm2
  cases hm2
  simp only [OFV.Model.msgTryM_eq _ Action.marshalM_noErr] at g2
  obtain ⟨hb, hhb, g3⟩ := bind_ok_inv _ _ _ g2
  obtain ⟨⟨als, as3⟩, hm3, g4⟩ := bind_ok_inv _ _ _ g3
  rw [hm1'] at hm3
  cases hm3
  obtain ⟨⟨abs, as2⟩, hmm, g5⟩ := bind_ok_inv _ _ _ g4
  obtain ⟨f0, hf0, g6⟩ := bind_ok_inv _ _ _ g5
  obtain ⟨⟨db, d2⟩, hdm, g7⟩ := bind_ok_inv _ _ _ g6
  obtain ⟨out, hout, g8⟩ := bind_ok_inv _ _ _ g7
  have eb : bs = out := by cases g8; rfl
  subst eb
  have hbl := Header.bytes_length _ _ hhb
  have hlens := mapM2_lengths Action.lenM Action.marshalM as1 ls as1 abs as2 hm1' hmm
    (fun x _ l y bx z hx hy => C06b.action_size y l y bx z (Action.lenM_idem x l y hx) hy)
  have hbig := hfit ls as1 ld d1 hm1 hd1
  have hflat : abs.flatten.length = (ls.map UInt16.toNat).sum := by rw [flatten_length_sum, hlens]
  have hs := flat_sum ls abs hlens (by omega)
  have hp : (2 : Nat) ^ 16 = 65536 := rfl
  have eL : (8 + 16 + sum16 ls + ld : UInt16).toNat = 24 + abs.flatten.length + ld.toNat := by
    have h8 : (8 : UInt16).toNat = 8 := rfl
    have h16 : (16 : UInt16).toNat = 16 := rfl
    rw [UInt16.toNat_add, UInt16.toNat_add, UInt16.toNat_add, hs, h8, h16, hp]; omega
  have hlen := fill_length _ _ _ hout
  have hlen0 : bs.length = (8 + 16 + sum16 ls + ld : UInt16).toNat := hlen
  rw [eL] at hlen hout
  have htf : ∀ q ∈ [pCopy hb, pU32 b, pU32 ip, pU16 (sum16 ls).toNat, pSkip 6], q.Tight := by
    intro q hq; simp only [List.mem_cons, List.mem_nil_iff, or_false] at hq
    rcases hq with rfl | rfl | rfl | rfl | rfl <;> simp [pCopy, pU32, pU16, pSkip, Piece.Tight]
  have htl : ∀ q ∈ [pCopy hb, pU32 b, pU32 ip, pU16 (sum16 ls).toNat, pSkip 6] ++ abs.map pCopy, q.Tight := by
    intro q hq
    rw [List.mem_append] at hq
    rcases hq with hq | hq
    · exact htf q hq
    · exact tight_map_pCopy abs q hq
  have hplf : piecesLen [pCopy hb, pU32 b, pU32 ip, pU16 (sum16 ls).toNat, pSkip 6] = 24 := by
    simp [piecesLen, pCopy, pU32, pU16, pSkip, Piece.adv, hbl]
  have hpl : piecesLen ([pCopy hb, pU32 b, pU32 ip, pU16 (sum16 ls).toNat, pSkip 6] ++ abs.map pCopy) =
      24 + abs.flatten.length := by
    rw [piecesLen_append, hplf, piecesLen_eq_bytes _ (tight_map_pCopy abs), piecesBytes_map_pCopy]
  have hpb : piecesBytes ([pCopy hb, pU32 b, pU32 ip, pU16 (sum16 ls).toNat, pSkip 6] ++ abs.map pCopy) =
      hb ++ be32 (n32 b) ++ be32 (n32 ip) ++ be16 (n16 abs.flatten.length) ++ zeros 6 ++ abs.flatten := by
    rw [piecesBytes_append, piecesBytes_map_pCopy, hs]
    simp [piecesBytes, pCopy, pU32, pU16, pSkip, Piece.bytes]
  have hpre := fill_prefix _ _ _ _ htl (by rw [hpl]; omega) hout
  rw [hpl, hpb] at hpre
  have hcnt : abs.length = as.length := by
    rw [(mapM2_length _ _ _ _ hmm).1, (mapM2_length _ _ _ _ hm1).2]
  -- the bytes behind the header
  generalize hF : abs.flatten = F at *
  have hsplit : bs = (hb ++ be32 (n32 b) ++ be32 (n32 ip) ++ be16 (n16 F.length) ++ zeros 6 ++ F) ++ bs.drop (24 + F.length) := by
    rw [← hpre, List.take_append_drop]
  have hbody : bs.drop 8 = (be32 (n32 b) ++ be32 (n32 ip)) ++ (be16 (n16 F.length) ++ (zeros 6 ++ (F ++ bs.drop (24 + F.length)))) := by
    conv => lhs; rw [hsplit]
    simp only [List.append_assoc]
    rw [← hbl, List.drop_left]
  have hn16 : (n16 F.length).toNat = F.length := by rw [n16_toNat']; omega
  have hal : u16At (bs.drop 8) 8 = F.length := by
    rw [u16At_eq_beAt _ _ (by simp; omega), hbody]
    have hr := beAt_append_right (be32 (n32 b) ++ be32 (n32 ip)) (be16 (n16 F.length) ++ (zeros 6 ++ (F ++ bs.drop (24 + F.length)))) 0 2
    simp only [List.length_append, be32_length, Nat.add_zero] at hr
    rw [hr, beAt_be16, hn16]
  have hz : zerosAt (bs.drop 8) 10 6 "packet-out" = .ok () := by
    apply zerosAt_ok
    rw [hbody]
    have : ∀ (p q z r : Bytes), p.length = 8 → q.length = 2 → z.length = 6 → slice (p ++ (q ++ (z ++ r))) 10 6 = z := by
      intro p q z r hp' hq hz'
      unfold slice
      have : (p ++ q).length = 10 := by simp [hp', hq]
      rw [← List.append_assoc, ← this, List.drop_left, ← hz', List.take_left]
    rw [this _ _ _ _ (by simp) (by simp) (by simp [zeros])]
    exact (allZero_iff _).mpr (allZero_zeros 6)
  have hsl : slice (bs.drop 8) 16 F.length = F := by
    rw [hbody]
    have : ∀ (p q z r : Bytes), p.length = 8 → q.length = 2 → z.length = 6 → slice (p ++ (q ++ (z ++ (F ++ r)))) 16 F.length = F := by
      intro p q z r hp' hq hz'
      unfold slice
      have : (p ++ q ++ z).length = 16 := by simp [hp', hq, hz']
      rw [← List.append_assoc, ← List.append_assoc, ← this, List.drop_left, List.take_left]
    exact this _ _ _ _ (by simp) (by simp) (by simp [zeros])
  have hacc : ∀ bx ∈ abs, Accepted bx ∧ 0 < bx.length := by
    intro bx hbx
    obtain ⟨x, hx, y, hxy⟩ := mapM2_mem_bytes _ _ _ _ hmm bx hbx
    have hw := hk ls as1 hm1 x hx
    have hdcl := action_declares x hw.1 bx y hxy
    exact ⟨action_accept x hw.2 bx y hxy, by have := hdcl.2.1; omega⟩
  have hcl := count_le_flatten abs (fun bx hbx => (hacc bx hbx).2)
  refine ⟨abs, hb, hbl, hcnt, by rw [hF]; omega, by rw [hF]; exact hpre, by rw [hF]; exact hal, hz, fun fuel hfu => ?_,
    8 + 16 + sum16 ls + ld, 8 + 16 + sum16 ls + ld', hlen0, hhb, fun hid => ?_, by rw [hF, ← hcnt]; rw [hF] at hcl; exact hcl⟩
  · rw [hal, hsl, ← hF]
    exact walkActions_flatten abs hacc fuel (by omega)
  · have := hid ld d1 hd1
    rw [this] at hd2; cases hd2; rfl

/-- WALK of a whole PacketOut by the TOP-LEVEL specification walker: version 4, type OFPT_PACKET_OUT, any transaction
    id / stored length / buffer id / in-port / stored actions_len, ANY list of known actions as in `packetOut_specWalk`,
    any payload whose Len() is repeatable (`hid`; true of every payload kind of the library), total below 64 KiB:
    `Spec.walk` accepts the encoding — the header declares exactly the bytes present, the actions_len word covers exactly
    the actions, the pad bytes are zero — and its tree is the message node with exactly one child per action -/
theorem packetOut_topWalk (cl : MsgLenF) (cm : MsgMarF) (ln : V) (xid b ip al0 : Nat) (pad : V) (as : List V) (d : V)
    (bs : Bytes) (v2 : V)
    (hk : ∀ ls as1, mapM2 Action.lenM as = .ok (ls, as1) → ∀ a ∈ as1, ActionWF a ∧ ActionKnown a)
    (hfit : ∀ ls as1 ld d1, mapM2 Action.lenM as = .ok (ls, as1) → cl d = .ok (ld, d1) →
      24 + (ls.map UInt16.toNat).sum + ld.toNat < 65536)
    (hid : ∀ l v1, cl d = .ok (l, v1) → cl v1 = .ok (l, v1))
    (h : PacketOut.marshalWith cl cm (.obj "PacketOut" [.obj "Header" [.num 4, .num 13, ln, .num xid], .num b, .num ip,
      .num al0, pad, .list as, d]) = .ok (bs, v2)) :
    ∃ abs : List Bytes, abs.length = as.length ∧ Spec.walk bs = .ok (.node "msg 13" bs (abs.map actTree)) := by
  obtain ⟨abs, hb, hbl, hcnt, hle, htake, hal, hz, hw, l0, l1, hl0, hhb, hidem, hcl⟩ :=
    packetOut_specWalk cl cm _ b ip al0 pad as d bs v2 hk hfit h
  have e10 := hidem hid
  subst e10
  refine ⟨abs, hcnt, ?_⟩
  simp only [Header.setLength, Header.bytes, V.u16] at hhb
  have ehb : hb = [n8 4, n8 13] ++ be16 (n16 l1.toNat) ++ be32 (n32 xid) := (Res.ok.inj hhb).symm
  have ht8 : bs.take 8 = hb := by
    have : (bs.take (24 + abs.flatten.length)).take 8 = bs.take 8 := by
      rw [List.take_take]; congr 1; omega
    rw [← this, htake]
    simp only [List.append_assoc]
    rw [← hbl, List.take_left]
  have hB' : bs = [n8 4, n8 13] ++ (be16 (n16 l1.toNat) ++ (be32 (n32 xid) ++ bs.drop 8)) := by
    conv => lhs; rw [← List.take_append_drop 8 bs, ht8, ehb]
    simp only [List.append_assoc]
  have hv : u8At bs 0 = 4 := by rw [hB']; rfl
  have ht : u8At bs 1 = 13 := by rw [hB']; rfl
  have hln : u16At bs 2 = bs.length := by
    rw [u16At_eq_beAt bs 2 (by omega)]
    have hr := beAt_append_right [n8 4, n8 13] (be16 (n16 l1.toNat) ++ (be32 (n32 xid) ++ bs.drop 8)) 0 2
    rw [← hB'] at hr
    have hr' : beAt bs 2 2 = beAt (be16 (n16 l1.toNat) ++ (be32 (n32 xid) ++ bs.drop 8)) 0 2 := hr
    rw [hr', beAt_be16, n16_of_toNat, hl0]
  have hnl : ¬ bs.length < 8 := by omega
  have hbl16 : ¬ (bs.drop 8).length < 16 := by simp; omega
  have hbl2 : ¬ (bs.drop 8).length < 16 + u16At (bs.drop 8) 8 := by
    rw [hal]; simp only [List.length_drop]; omega
  unfold Spec.walk
  simp only [walkMsg, hnl, hv, ht, hln, hbl16, hz, hbl2, if_false, ne_eq, not_true_eq_false]
  rw [hw (bs.length + 1) (by omega)]
  rfl

/-- a packet-out as NewPacketOut() + AddAction(output 7) + AddAction(group 3) + a 3-byte payload builds it -/
def exPacketOut : V := .obj "PacketOut" [.obj "Header" [.num 4, .num 13, .num 8, .num 7], .num 4294967295,
  .num Gen.openflow13.P_ANY, .num 24, .bytes (zeros 6), .list [ActionOutput.new 7, ActionGroup.new 3],
  .obj "u.Buffer" [.bytes [1, 2, 3]]]

/-- `packetOut_specWalk` applies to it (with the library's own payload functions): the encoder succeeds and the real
    walker's action walk over the declared actions_len bytes returns two subtrees -/
example : (PacketOut.marshalM exPacketOut).isOk = true ∧
    ∀ bs v2, PacketOut.marshalM exPacketOut = .ok (bs, v2) →
      ∃ ts, walkActions 4 (slice (bs.drop 8) 16 (u16At (bs.drop 8) 8)) = .ok ts ∧ ts.length = 2 := by
  refine ⟨rfl, fun bs v2 h => ?_⟩
  have hm : mapM2 Action.lenM [ActionOutput.new 7, ActionGroup.new 3] = .ok ([16, 8], [ActionOutput.new 7, ActionGroup.new 3]) := rfl
  have hd : anyLenM (.obj "u.Buffer" [.bytes [1, 2, 3]]) = .ok (3, .obj "u.Buffer" [.bytes [1, 2, 3]]) := rfl
  obtain ⟨abs, hb, _, hc, _, _, _, _, hw, _⟩ := packetOut_specWalk anyLenM anyMarshalM _ _ _ _ _ _ _ bs v2 (by
      intro ls as1 hm' a ha
      rw [hm] at hm'; cases hm'
      simp only [List.mem_cons, List.mem_nil_iff, or_false] at ha
      rcases ha with rfl | rfl
      · exact ⟨actionWF_output 7, known_output 7⟩
      · exact ⟨actionWF_group 3, known_group 3⟩)
    (by intro ls as1 ld d1 hm' hd'
        rw [hm] at hm'; cases hm'
        rw [hd] at hd'; cases hd'
        decide) h
  exact ⟨_, hw 4 (by decide), by rw [List.length_map, hc]; rfl⟩

/-- `packetOut_topWalk` applies to the same packet-out (version 4, type 13 as NewPacketOut stores, two actions added,
    a 3-byte payload set): the top-level walker accepts the encoding -/
example : ∀ bs v2, PacketOut.marshalM exPacketOut = .ok (bs, v2) → ∃ t, Spec.walk bs = .ok t := by
  intro bs v2 h
  have hm : mapM2 Action.lenM [ActionOutput.new 7, ActionGroup.new 3] = .ok ([16, 8], [ActionOutput.new 7, ActionGroup.new 3]) := rfl
  have hd : anyLenM (.obj "u.Buffer" [.bytes [1, 2, 3]]) = .ok (3, .obj "u.Buffer" [.bytes [1, 2, 3]]) := rfl
  obtain ⟨abs, _, hw⟩ := packetOut_topWalk anyLenM anyMarshalM (.num 8) 7 4294967295 Gen.openflow13.P_ANY 24 (.bytes (zeros 6))
    [ActionOutput.new 7, ActionGroup.new 3] (.obj "u.Buffer" [.bytes [1, 2, 3]]) bs v2 (by
      intro ls as1 hm' a ha
      rw [hm] at hm'; cases hm'
      simp only [List.mem_cons, List.mem_nil_iff, or_false] at ha
      rcases ha with rfl | rfl
      · exact ⟨actionWF_output 7, known_output 7⟩
      · exact ⟨actionWF_group 3, known_group 3⟩)
    (by intro ls as1 ld d1 hm' hd'
        rw [hm] at hm'; cases hm'
        rw [hd] at hd'; cases hd'
        decide)
    (by intro l v1 hl
        rw [hd] at hl; cases hl; exact hd) h
  exact ⟨_, hw⟩

/-! ### instructions and the flow-mod through the real walker -/

/-- the subtree the walker builds for the instruction `c` -/
def instrTree (c : Bytes) : Tree :=
  match walkInstrs 2 c with
  | .ok [t] => t
  | _ => .node "rejected" c []

theorem instrTree_of_accept (c : Bytes) (t : Tree) (h : InstrAccept c t) : InstrAccept c (instrTree c) := by
  have := h 1 []
  rw [List.append_nil] at this
  have e : instrTree c = t := by
    unfold instrTree; rw [this]; rfl
  rw [e]; exact h

/-- INSTRUCTIONS FOR WHICH ACCEPTANCE BY THE REAL WALKER IS PROVED: goto-table and write-metadata as their
    constructors build them, meter with the header (6, 8), write- / apply-actions (type 3 / 4, zero pad bytes, any stored
    length) whose actions — as Len() leaves them — are well-formed and of the known kinds, clear-actions (type 5)
    without actions -/
def InstrKnown (v : V) : Prop :=
  (∃ tid, v = InstrGotoTable.new tid) ∨
  (∃ md mk, v = InstrWriteMetadata.new md mk) ∨
  (v.kind = "InstrMeter" ∧ ihdr v = some (6, 8)) ∨
  (∃ ty x pad as ls as1, v = .obj "InstrActions" [.obj "InstrHeader" [.num ty, x], .bytes pad, .list as] ∧
    ty ∈ [3, 4, 5] ∧ (ty = 5 → as = []) ∧ makeCopy 4 pad = zeros 4 ∧
    mapM2 Action.lenM as = .ok (ls, as1) ∧ ∀ a ∈ as1, ActionWF a ∧ ActionKnown a)

/-- ACCEPTANCE through the Instruction interface: the real walker accepts the encoding of EVERY known instruction
    (shorter than 64 KiB) in front of whatever follows, and goes on behind it -/
theorem instr_accept (v : V) (hk : InstrKnown v) (bs : Bytes) (v2 : V) (h : Instruction.marshalM v = .ok (bs, v2))
    (hlt : bs.length < 65536) : InstrAccept bs (instrTree bs) ∧ 8 ≤ bs.length := by
  rcases hk with ⟨tid, rfl⟩ | ⟨md, mk, rfl⟩ | ⟨hk, hi⟩ | ⟨ty, x, pad, as, ls, as1, rfl, hty, h5, hpad, hm, hwf⟩
  · have e : Instruction.marshalM (InstrGotoTable.new tid) = InstrGotoTable.marshalM (InstrGotoTable.new tid) := by
      simp [Instruction.marshalM, InstrGotoTable.new, V.kind]
    rw [e] at h
    obtain ⟨a, _, c⟩ := instrGotoTable_new_ok tid bs v2 h
    obtain ⟨l8, _, _⟩ := instrGotoTable_wire _ bs v2 _ _ rfl h
    exact ⟨instrTree_of_accept _ _ (accept_goto bs l8 a.code_ok (by rw [a.len_ok, l8]) c), by omega⟩
  · have e : Instruction.marshalM (InstrWriteMetadata.new md mk) = InstrWriteMetadata.marshalM (InstrWriteMetadata.new md mk) := by
      simp [Instruction.marshalM, InstrWriteMetadata.new, V.kind]
    rw [e] at h
    obtain ⟨a, _, c⟩ := instrWriteMetadata_new_ok md mk bs v2 h
    obtain ⟨l24, _, _⟩ := instrWriteMetadata_wire _ bs v2 _ _ rfl h
    exact ⟨instrTree_of_accept _ _ (accept_writeMetadata bs l24 a.code_ok (by rw [a.len_ok, l24]) (by
      unfold slice; rw [c]; exact (allZero_iff _).mpr (allZero_zeros 4))), by omega⟩
  · have e : Instruction.marshalM v = InstrMeter.marshalM v := by simp [Instruction.marshalM, hk]
    rw [e] at h
    obtain ⟨a, b, c⟩ := instrMeter_wire v bs v2 _ _ hi h
    exact ⟨instrTree_of_accept _ _ (accept_meter bs a b c), by omega⟩
  · have e : Instruction.marshalM (.obj "InstrActions" [.obj "InstrHeader" [.num ty, x], .bytes pad, .list as]) =
        InstrActions.marshalM (.obj "InstrActions" [.obj "InstrHeader" [.num ty, x], .bytes pad, .list as]) := by
      simp [Instruction.marshalM, V.kind]
    rw [e] at h
    obtain ⟨bss, as2, hmm, hd, hw, hlen, hal⟩ :=
      instrActions_walk ty x pad as ls as1 hm (fun a ha => (hwf a ha).1) bs v2 h hlt
    obtain ⟨h0, _, hp4, _⟩ := instrActions_wire ty x pad as bs v2 h hlt
    have hfl : bss.flatten = bs.drop 8 := walkBy_total _ _ _ _ hw
    have htl : ty < 65536 := by simp only [List.mem_cons, List.mem_nil_iff, or_false] at hty; omega
    rw [Nat.mod_eq_of_lt htl] at h0
    have hacc : ∀ b ∈ bss, Accepted b ∧ 0 < b.length := by
      intro b hb
      obtain ⟨y, hy, z, hyz⟩ := mapM2_mem_bytes _ _ _ _ hmm b hb
      have hdcl := action_declares y (hwf y hy).1 b z hyz
      exact ⟨action_accept y (hwf y hy).2 b z hyz, by have := hdcl.2.1; omega⟩
    have hcnt := count_le_flatten bss (fun b hb => (hacc b hb).2)
    refine ⟨instrTree_of_accept _ _ (accept_instrActions ty hty bs (bss.map actTree) (by omega) hal h0 hd ?_ ?_ ?_), by omega⟩
    · unfold slice; rw [hp4, hpad]; exact (allZero_iff _).mpr (allZero_zeros 4)
    · intro e5
      have := h5 e5
      subst this
      simp [mapM2] at hm
      obtain ⟨_, rfl⟩ := hm
      simp [mapM2] at hmm
      obtain ⟨rfl, _⟩ := hmm
      simpa using hlen
    · rw [← hfl]
      exact walkActions_flatten bss hacc _ (by omega)

/-- the bytes of a FlowMod, every command: the 8 header bytes (Length = Len()), the 40 fixed bytes spelled out, the
    Match, and — unless the command is one of the two deletes — the instructions' encodings, complete and in order -/
theorem flowMod_embeds2 (hh : V) (ck cm tid cmd it ht pr bid op og fl : Nat) (pad m : V) (is : List V) (bs : Bytes) (v2 : V)
    (h : FlowMod.marshalM (.obj "FlowMod" [hh, .num ck, .num cm, .num tid, .num cmd, .num it, .num ht, .num pr, .num bid,
      .num op, .num og, .num fl, pad, m, .list is]) = .ok (bs, v2)) :
    ∃ l v1 hb mb m' ib, FlowMod.lenM (.obj "FlowMod" [hh, .num ck, .num cm, .num tid, .num cmd, .num it, .num ht, .num pr,
        .num bid, .num op, .num og, .num fl, pad, m, .list is]) = .ok (l, v1) ∧
      Header.bytes (Header.setLength l hh) = .ok hb ∧ Match.marshalM m = .ok (mb, m') ∧
      bs = hb ++ (be64 (n64 ck) ++ be64 (n64 cm) ++ [n8 tid, n8 cmd] ++ be16 (n16 it) ++ be16 (n16 ht)
        ++ be16 (n16 pr) ++ be32 (n32 bid) ++ be32 (n32 op) ++ be32 (n32 og) ++ be16 (n16 fl) ++ zeros 2) ++ mb ++ ib ∧
      ((cmd = Gen.openflow13.FC_DELETE ∨ cmd = Gen.openflow13.FC_DELETE_STRICT) ∧ ib = [] ∨
       ¬(cmd = Gen.openflow13.FC_DELETE ∨ cmd = Gen.openflow13.FC_DELETE_STRICT) ∧
         ∃ ls is1 bss is2, mapM2 Instruction.lenM is = .ok (ls, is1) ∧ mapM2 Instruction.marshalM is1 = .ok (bss, is2) ∧
           ib = bss.flatten) := by
  unfold FlowMod.marshalM at h
  obtain ⟨⟨l, v'⟩, hl, h3⟩ := bind_ok_inv _ _ _ h
  refine ⟨l, v', ?_⟩
  have hl0 := hl
  unfold FlowMod.lenM at hl
  simp only at hl
  obtain ⟨⟨ml, m1⟩, hml, hl2⟩ := bind_ok_inv _ _ _ hl
  have em := Match.lenM_pure _ _ _ hml
  subst em
  simp only at hl2
  split at hl2
  · rename_i hd
    cases hl2
    simp only at h3
    obtain ⟨hb, hhb, h4⟩ := bind_ok_inv _ _ _ h3
    obtain ⟨⟨⟨mb, m''⟩, e0⟩, hmm, h5⟩ := bind_ok_inv _ _ _ h4
    obtain ⟨hmm', rfl⟩ := catchErr_noErr _ _ _ _ (Match.marshalM_noErr _) hmm
    simp only [hd, if_true, Res.bind_ok] at h5
    split at h5
    · exact absurd h5 (by simp)
    · cases h5
      exact ⟨hb, mb, m'', [], hl0, hhb, hmm', rfl, Or.inl ⟨hd, rfl⟩⟩
  · rename_i hd
    obtain ⟨⟨ls, is1⟩, hm, hl3⟩ := bind_ok_inv _ _ _ hl2
    cases hl3
    simp only at h3
    obtain ⟨hb, hhb, h4⟩ := bind_ok_inv _ _ _ h3
    obtain ⟨⟨⟨mb, m''⟩, e0⟩, hmm, h5⟩ := bind_ok_inv _ _ _ h4
    obtain ⟨hmm', rfl⟩ := catchErr_noErr _ _ _ _ (Match.marshalM_noErr _) hmm
    simp only [hd, if_false] at h5
    obtain ⟨⟨ib, is2, e⟩, hmli, h6⟩ := bind_ok_inv _ _ _ h5
    obtain ⟨bss, hmi, rfl⟩ := marshalList_eq_mapM2 _ _ _ _ _ _ (fun x _ => Instruction.marshalM_noErr x) hmli
    simp only at h6
    split at h6
    · exact absurd h6 (by simp)
    · cases h6
      exact ⟨hb, mb, m'', bss.flatten, hl0, hhb, hmm', rfl, Or.inr ⟨hd, ls, is1, bss, is2, hm, hmi, rfl⟩⟩

/-- the empty match NewMatch() builds is accepted by `Spec.walkMatch` (8 bytes: type 1, length 4, 4 zero pad bytes) -/
theorem matchNew_accept (mb : Bytes) (m' : V) (h : Match.marshalM Match.new = .ok (mb, m')) (tail : Bytes) :
    walkMatch (mb ++ tail) = .ok (.node "match" mb [], mb.length) := by
  have e : Match.marshalM Match.new = .ok ([0, 1, 0, 4, 0, 0, 0, 0], Match.new) := rfl
  rw [e] at h; cases h
  exact walkMatch_accept (fun b => .node "" b []) _ tail [] 4 rfl rfl rfl rfl rfl rfl (by intro b hb; simp at hb)

/-- WALK of a whole FlowMod by the TOP-LEVEL specification walker: version 4, type OFPT_FLOW_MOD, ANY command 0..4
    (for the two deletes no instructions are written), any cookie / table / timeouts / priority / buffer / ports / flags /
    transaction id / stored length, a match whose encoding `Spec.walkMatch` accepts with subtree `mt` (`hmatch`; see
    `matchNew_accept`), ANY list of instructions that — as Len() leaves them — are of the known kinds, total below
    64 KiB: `Spec.walk` accepts, and its tree is the message node with the match and exactly one child per instruction -/
theorem flowMod_topWalk (ln : V) (xid ck cm tid cmd it ht pr bid op og fl : Nat) (pad m : V) (is : List V) (bs : Bytes)
    (v2 : V) (hcmd : cmd ≤ 4) (hlt : bs.length < 65536) (mt : Tree)
    (hmatch : ∀ mb m', Match.marshalM m = .ok (mb, m') → ∀ tail, walkMatch (mb ++ tail) = .ok (mt, mb.length))
    (hk : ∀ ls is1, mapM2 Instruction.lenM is = .ok (ls, is1) → ∀ i ∈ is1, InstrKnown i)
    (h : FlowMod.marshalM (.obj "FlowMod" [.obj "Header" [.num 4, .num 14, ln, .num xid], .num ck, .num cm, .num tid,
      .num cmd, .num it, .num ht, .num pr, .num bid, .num op, .num og, .num fl, pad, m, .list is]) = .ok (bs, v2)) :
    ∃ ibs : List Bytes, Spec.walk bs = .ok (.node "msg 14" bs (mt :: ibs.map instrTree)) ∧
      ((cmd = Gen.openflow13.FC_DELETE ∨ cmd = Gen.openflow13.FC_DELETE_STRICT) ∧ ibs = [] ∨
       ¬(cmd = Gen.openflow13.FC_DELETE ∨ cmd = Gen.openflow13.FC_DELETE_STRICT) ∧ ibs.length = is.length) := by
  obtain ⟨l, v1, hb, mb, m', ib, hl, hhb, hmm, hbs, hcase⟩ := flowMod_embeds2 _ ck cm tid cmd it ht pr bid op og fl pad m is bs v2 h
  have hsz := C06b.flowMod_sizeMod _ l v1 bs v2 hl h
  rw [Nat.mod_eq_of_lt hlt] at hsz
  simp only [Header.setLength, Header.bytes, V.u16] at hhb
  have ehb : hb = [n8 4, n8 14] ++ be16 (n16 l.toNat) ++ be32 (n32 xid) := (Res.ok.inj hhb).symm
  -- the instruction area
  have hins : ∃ ibs : List Bytes, ib = ibs.flatten ∧ (∀ fuel, ibs.length < fuel → walkInstrs fuel ib = .ok (ibs.map instrTree)) ∧
      ibs.length ≤ ib.length ∧
      ((cmd = Gen.openflow13.FC_DELETE ∨ cmd = Gen.openflow13.FC_DELETE_STRICT) ∧ ibs = [] ∨
       ¬(cmd = Gen.openflow13.FC_DELETE ∨ cmd = Gen.openflow13.FC_DELETE_STRICT) ∧ ibs.length = is.length) := by
    rcases hcase with ⟨hd, rfl⟩ | ⟨hd, ls, is1, bss, is2, hm, hmi, rfl⟩
    · exact ⟨[], rfl, fun fuel hf => walkInstrs_flatten instrTree [] (by intro c hc; simp at hc) fuel hf, by simp, Or.inl ⟨hd, rfl⟩⟩
    · have hacc : ∀ c ∈ bss, InstrAccept c (instrTree c) ∧ 8 ≤ c.length := by
        intro c hc
        obtain ⟨i, hi, i', hci⟩ := mapM2_mem_bytes _ _ _ _ hmi c hc
        have hle := length_le_flatten bss c hc
        have : bss.flatten.length ≤ bs.length := by rw [hbs]; simp only [List.length_append]; omega
        exact instr_accept i (hk ls is1 hm i hi) c i' hci (by omega)
      refine ⟨bss, rfl, fun fuel hf => walkInstrs_flatten instrTree bss (fun c hc => (hacc c hc).1) fuel hf,
        count_le_flatten bss (fun c hc => by have := (hacc c hc).2; omega), Or.inr ⟨hd, ?_⟩⟩
      rw [(mapM2_length _ _ _ _ hmi).1, (mapM2_length _ _ _ _ hm).2]
  obtain ⟨ibs, hib, hwi, hcnt, hcs⟩ := hins
  refine ⟨ibs, ?_, hcs⟩
  generalize hF : (be64 (n64 ck) ++ be64 (n64 cm) ++ [n8 tid, n8 cmd] ++ be16 (n16 it) ++ be16 (n16 ht)
        ++ be16 (n16 pr) ++ be32 (n32 bid) ++ be32 (n32 op) ++ be32 (n32 og) ++ be16 (n16 fl) ++ zeros 2) = F at hbs
  have hFl : F.length = 40 := by rw [← hF]; simp [zeros]
  have hF17 : ∀ R : Bytes, u8At (F ++ R) 17 = cmd := by
    intro R; rw [← hF]
    have : (n8 cmd).toNat = cmd := by simp [n8]; omega
    simp [u8At, be64, this]
  have hF38 : ∀ R : Bytes, slice (F ++ R) 38 2 = zeros 2 := by
    intro R; rw [← hF]
    have : ∀ (X Z : Bytes), X.length = 38 → Z.length = 2 → slice ((X ++ Z) ++ R) 38 2 = Z := by
      intro X Z hx hz
      unfold slice
      rw [List.append_assoc, ← hx, List.drop_left, ← hz, List.take_left]
    exact this _ _ (by simp) (by simp [zeros])
  have hmw := hmatch mb m' hmm ib
  have hB' : bs = [n8 4, n8 14] ++ (be16 (n16 l.toNat) ++ (be32 (n32 xid) ++ (F ++ (mb ++ ib)))) := by
    rw [hbs, ehb]; simp only [List.append_assoc]
  have hBl : bs.length = 48 + mb.length + ib.length := by rw [hB']; simp [hFl]; omega
  have hv : u8At bs 0 = 4 := by rw [hB']; rfl
  have ht : u8At bs 1 = 14 := by rw [hB']; rfl
  have hln : u16At bs 2 = bs.length := by
    rw [u16At_eq_beAt bs 2 (by omega)]
    have hr := beAt_append_right [n8 4, n8 14] (be16 (n16 l.toNat) ++ (be32 (n32 xid) ++ (F ++ (mb ++ ib)))) 0 2
    rw [← hB'] at hr
    have hr' : beAt bs 2 2 = beAt (be16 (n16 l.toNat) ++ (be32 (n32 xid) ++ (F ++ (mb ++ ib)))) 0 2 := hr
    rw [hr', beAt_be16, n16_of_toNat, hsz]
  have hbody : bs.drop 8 = F ++ (mb ++ ib) := by
    conv => lhs; rw [hB']
    have : ([n8 4, n8 14] ++ (be16 (n16 l.toNat) ++ be32 (n32 xid))).length = 8 := by simp
    rw [← List.append_assoc, ← List.append_assoc, ← this, List.append_assoc [n8 4, n8 14], List.drop_left]
  have hz : zerosAt (bs.drop 8) 38 2 "flow-mod" = .ok () := by
    apply zerosAt_ok; rw [hbody, hF38]; exact (allZero_iff _).mpr (allZero_zeros 2)
  have hc17 : u8At (bs.drop 8) 17 = cmd := by rw [hbody, hF17]
  have hd40 : (bs.drop 8).drop 40 = mb ++ ib := by rw [hbody, ← hFl, List.drop_left]
  have hd40n : (bs.drop 8).drop (40 + mb.length) = ib := by
    rw [← List.drop_drop, hd40, List.drop_left]
  have hnl : ¬ bs.length < 8 := by omega
  have hbl : ¬ (bs.drop 8).length < 40 := by simp; omega
  have hc4 : ¬ cmd > 4 := by omega
  unfold Spec.walk
  simp only [walkMsg, hnl, hv, ht, hln, hz, hbl, hc17, hc4, hd40, hmw, if_false, ne_eq, not_true_eq_false]
  show (do let ins ← walkInstrs (bs.length + 1) ((bs.drop 8).drop (40 + mb.length))
           pure (Tree.node "msg 14" bs (mt :: ins)) : W Tree) = _
  rw [hd40n, hwi (bs.length + 1) (by omega)]
  rfl

/-- goto-table 1, then apply-actions [output 7, group 3] -/
def exInstrs : List V := [InstrGotoTable.new 1,
  .obj "InstrActions" [.obj "InstrHeader" [.num Gen.openflow13.InstrType_APPLY_ACTIONS, .num 32], .bytes (zeros 4),
    .list [ActionOutput.new 7, ActionGroup.new 3]]]

/-- what NewFlowMod() (transaction id 7) + AddInstruction twice builds -/
def exFlowMod : V := .obj "FlowMod" [.obj "Header" [.num 4, .num 14, .num 8, .num 7],
  .num 0, .num 0, .num 0, .num Gen.openflow13.FC_ADD, .num 0, .num 0, .num 1000, .num 4294967295,
  .num Gen.openflow13.P_ANY, .num Gen.openflow13.OFPG_ANY, .num 0, .bytes [], Match.new, .list exInstrs]

/-- `flowMod_topWalk` applies to what the constructors build: NewFlowMod() + AddInstruction(goto-table 1) +
    AddInstruction(apply-actions [output 7, group 3]) — version 4, type 14, the empty match; it encodes, and the
    top-level walker accepts the encoding -/
example : exInstrs.foldlM FlowMod.addInstruction (FlowMod.new 7) = .ok exFlowMod ∧
    (FlowMod.marshalM exFlowMod).isOk = true ∧
    ∀ bs v2, FlowMod.marshalM exFlowMod = .ok (bs, v2) → bs.length < 65536 → ∃ t, Spec.walk bs = .ok t := by
  refine ⟨rfl, rfl, fun bs v2 h hlt => ?_⟩
  obtain ⟨ibs, hw, _⟩ := flowMod_topWalk (.num 8) 7 0 0 0 Gen.openflow13.FC_ADD 0 0 1000 4294967295
    Gen.openflow13.P_ANY Gen.openflow13.OFPG_ANY 0 (.bytes []) Match.new exInstrs bs v2 (by decide) hlt
    (.node "match" [0, 1, 0, 4, 0, 0, 0, 0] [])
    (by intro mb m' hm tail
        have e : Match.marshalM Match.new = .ok ([0, 1, 0, 4, 0, 0, 0, 0], Match.new) := rfl
        rw [e] at hm; cases hm
        exact matchNew_accept _ _ e tail)
    (by intro ls is1 hm i hi
        have e : mapM2 Instruction.lenM exInstrs = .ok ([8, 32], exInstrs) := rfl
        rw [e] at hm; cases hm
        simp only [exInstrs, List.mem_cons, List.mem_nil_iff, or_false] at hi
        rcases hi with rfl | rfl
        · exact Or.inl ⟨1, rfl⟩
        · refine Or.inr (Or.inr (Or.inr ⟨_, _, _, _, [16, 8], _, rfl, by decide, by decide, rfl, rfl, ?_⟩))
          intro a ha
          simp only [List.mem_cons, List.mem_nil_iff, or_false] at ha
          rcases ha with rfl | rfl
          · exact ⟨actionWF_output 7, known_output 7⟩
          · exact ⟨actionWF_group 3, known_group 3⟩) h
  exact ⟨_, hw⟩

/-- ACCEPTANCE of a match: a match as NewMatch() + any AddField history leaves it (`C02.MatchWF`) whose fields are all
    known, with at most 65 524 field bytes: `Spec.walkMatch` accepts the encoding `Match.marshalM` produces — the
    library's own length word and zero padding — whatever follows, consumes exactly its bytes and returns one subtree per
    field, in order -/
theorem match_accept (m : V) (hwf : C02.MatchWF m) (hk : ∀ fs, m.fields[2]? = some (.list fs) → ∀ f ∈ fs, FieldKnown f)
    (mb : Bytes) (m' : V) (h : Match.marshalM m = .ok (mb, m')) (hne : mb.length ≠ 0)
    (hfit : ∀ fs bss fs', m.fields[2]? = some (.list fs) → mapM2 MatchField.marshalM fs = .ok (bss, fs') →
      4 + bss.flatten.length ≤ 65528) :
    ∃ fbs : List Bytes, (∀ fs, m.fields[2]? = some (.list fs) → fbs.length = fs.length) ∧
      ∀ tail, walkMatch (mb ++ tail) = .ok (.node "match" mb (fbs.map oxmTree), mb.length) := by
  obtain ⟨fs, bss, fs', hf, hmm, a0, a2, hrest⟩ := match_ok m hwf mb m' h hne
  have hsm := hfit fs bss fs' hf hmm
  have e2 : beAt mb 2 2 = 4 + bss.flatten.length := by
    rcases a2 with e | e
    · exact e
    · omega
  obtain ⟨hl, hfl, hz⟩ := hrest hsm
  rw [e2] at hl hz
  have h8 : 8 ≤ mb.length := by rw [hl]; unfold Spec.round8; omega
  have hacc : ∀ b ∈ bss, OxmAccept b (oxmTree b) := by
    intro b hb
    obtain ⟨x, hx, y, hxy⟩ := mapM2_mem_bytes _ _ _ _ hmm b hb
    exact matchField_accept x (hk fs hf x hx) b y hxy
  refine ⟨bss, fun fs2 hf2 => ?_, fun tail => ?_⟩
  · rw [hf] at hf2; cases hf2
    exact (mapM2_length _ _ _ _ hmm).1
  · refine walkMatch_accept oxmTree mb tail bss (4 + bss.flatten.length) ?_ ?_ rfl hl ?_ ?_ hacc
    · rw [u16At_eq_beAt _ _ (by omega), a0]; rfl
    · rw [u16At_eq_beAt _ _ (by omega), e2]
    · unfold slice
      rw [Nat.add_sub_cancel_left]; exact hfl
    · rw [hz]; exact (allZero_iff _).mpr (allZero_zeros _)

/-- WALK of a whole FlowMod by the TOP-LEVEL specification walker, with the match instantiated: version 4, type 14, any
    command 0..4, ANY match built by NewMatch() + AddField of known fields, ANY list of known instructions, total below
    64 KiB: `Spec.walk` accepts, and its tree is the message node whose first child is the match (one grandchild per
    field) followed by one child per instruction -/
theorem flowMod_topWalk_known (ln : V) (xid ck cm tid cmd it ht pr bid op og fl : Nat) (pad m : V) (is : List V)
    (bs : Bytes) (v2 : V) (hcmd : cmd ≤ 4) (hlt : bs.length < 65536) (hwf : C02.MatchWF m)
    (hkf : ∀ fs, m.fields[2]? = some (.list fs) → ∀ f ∈ fs, FieldKnown f)
    (hfit : ∀ fs bss fs', m.fields[2]? = some (.list fs) → mapM2 MatchField.marshalM fs = .ok (bss, fs') →
      4 + bss.flatten.length ≤ 65528)
    (hne : ∀ mb m', Match.marshalM m = .ok (mb, m') → mb.length ≠ 0)
    (hk : ∀ ls is1, mapM2 Instruction.lenM is = .ok (ls, is1) → ∀ i ∈ is1, InstrKnown i)
    (h : FlowMod.marshalM (.obj "FlowMod" [.obj "Header" [.num 4, .num 14, ln, .num xid], .num ck, .num cm, .num tid,
      .num cmd, .num it, .num ht, .num pr, .num bid, .num op, .num og, .num fl, pad, m, .list is]) = .ok (bs, v2)) :
    ∃ (mb : Bytes) (fbs ibs : List Bytes),
      Spec.walk bs = .ok (.node "msg 14" bs (.node "match" mb (fbs.map oxmTree) :: ibs.map instrTree)) ∧
      (∀ fs, m.fields[2]? = some (.list fs) → fbs.length = fs.length) ∧
      ((cmd = Gen.openflow13.FC_DELETE ∨ cmd = Gen.openflow13.FC_DELETE_STRICT) ∧ ibs = [] ∨
       ¬(cmd = Gen.openflow13.FC_DELETE ∨ cmd = Gen.openflow13.FC_DELETE_STRICT) ∧ ibs.length = is.length) := by
  obtain ⟨_, _, _, mb, m', _, _, _, hmm, _, _⟩ := flowMod_embeds2 _ ck cm tid cmd it ht pr bid op og fl pad m is bs v2 h
  obtain ⟨fbs, hcnt, hw⟩ := match_accept m hwf hkf mb m' hmm (hne mb m' hmm) hfit
  obtain ⟨ibs, hwalk, hcs⟩ := flowMod_topWalk ln xid ck cm tid cmd it ht pr bid op og fl pad m is bs v2 hcmd hlt
    (.node "match" mb (fbs.map oxmTree))
    (by intro mb2 m2 hm2 tail
        rw [hmm] at hm2; cases hm2
        exact hw tail) hk h
  exact ⟨mb, fbs, ibs, hwalk, hcnt, hcs⟩

/-- MatchField.mk (the constructors without mask: NewInPortField, NewEthTypeField, NewIpProtoField, …) builds a known
    field whenever (class, field) is a fixed-width row of the walker's table and the value has that width -/
theorem fieldKnown_mk (cls field : Nat) (l : UInt8) (val : V) (hc : cls < 65535) (hf : field < 128)
    (hw : oxmLegalWidth cls field = some l.toNat) (hnv : ¬ (cls = 1 ∧ 40 ≤ field ∧ field ≤ 103))
    (hv : MatchPayload.lenM val = .ok (l.toUInt16, val)) : FieldKnown (MatchField.mk cls field false l val .nil) :=
  ⟨cls, field, 0, l.toNat, val, .nil, l.toUInt16, l.toNat, rfl, hc, hf, hw, hnv, hv, by simp, Or.inl rfl, by simp, l.toNat_lt⟩

/-- MatchField.mkMasked with a mask (NewEthDstField(addr, mask), NewIpv4SrcField(addr, mask), NewRegMatchField…) -/
theorem fieldKnown_mkMasked (cls field : Nat) (l : UInt8) (val m : V) (hc : cls < 65535) (hf : field < 128)
    (hw : oxmLegalWidth cls field = some l.toNat) (hnv : ¬ (cls = 1 ∧ 40 ≤ field ∧ field ≤ 103)) (hl : l.toNat ≤ 127)
    (hv : MatchPayload.lenM val = .ok (l.toUInt16, val)) (hm : MatchPayload.lenM m = .ok (l.toUInt16, m)) :
    FieldKnown (MatchField.mkMasked cls field l val (some m)) := by
  refine ⟨cls, field, 1, (l + l).toNat, val, m, l.toUInt16, l.toNat, rfl, hc, hf, hw, hnv, hv, by simp,
    Or.inr ⟨by decide, hm⟩, ?_, (l + l).toNat_lt⟩
  rw [UInt8.toNat_add]
  simp only [Nat.one_ne_zero, if_false]
  omega

/-- in_port 7, eth_dst 01:02:03:04:05:06 / ff:ff:ff:00:00:00, reg0 0x11223344 / 0xffff0000 -/
def exFields : List V := [
  MatchField.mk 0x8000 0 false 4 (.obj "InPortField" [.num 7]) .nil,
  MatchField.mkMasked 0x8000 3 6 (.obj "EthDstField" [.bytes [1, 2, 3, 4, 5, 6]])
    (some (.obj "EthDstField" [.bytes [255, 255, 255, 0, 0, 0]])),
  MatchField.mkMasked 1 0 4 (Uint32Message.new 0x11223344) (some (Uint32Message.new 0xffff0000))]

theorem exFields_known : ∀ f ∈ exFields, FieldKnown f := by
  intro f hf
  simp only [exFields, List.mem_cons, List.mem_nil_iff, or_false] at hf
  rcases hf with rfl | rfl | rfl
  · exact fieldKnown_mk _ _ 4 _ (by decide) (by decide) (by decide) (by decide) rfl
  · exact fieldKnown_mkMasked _ _ 6 _ _ (by decide) (by decide) (by decide) (by decide) (by decide) rfl rfl
  · exact fieldKnown_mkMasked _ _ 4 _ _ (by decide) (by decide) (by decide) (by decide) (by decide) rfl rfl

/-- NewMatch() + AddField × 3, then a flow-mod (NewFlowMod with transaction id 7, Match set to that match) +
    AddInstruction × 2 -/
def exFlowMod2 (m : V) : V := .obj "FlowMod" [.obj "Header" [.num 4, .num 14, .num 8, .num 7],
  .num 0, .num 0, .num 0, .num Gen.openflow13.FC_ADD, .num 0, .num 0, .num 1000, .num 4294967295,
  .num Gen.openflow13.P_ANY, .num Gen.openflow13.OFPG_ANY, .num 0, .bytes [], m, .list exInstrs]

/-- `flowMod_topWalk_known` applies to what the constructors build: the match history NewMatch() + AddField(in_port) +
    AddField(eth_dst/mask) + AddField(reg0/mask) succeeds, the flow-mod carrying it and the two instructions encodes,
    and the top-level walker accepts the encoding -/
example : ∃ m, exFields.foldlM (fun acc f => Match.addField acc f) Match.new = .ok m ∧
    (FlowMod.marshalM (exFlowMod2 m)).isOk = true ∧
    ∀ bs v2, FlowMod.marshalM (exFlowMod2 m) = .ok (bs, v2) → bs.length < 65536 → ∃ t, Spec.walk bs = .ok t := by
  refine ⟨_, rfl, rfl, fun bs v2 h hlt => ?_⟩
  have hw := C02.C02_match_history exFields _ rfl
  have hmar : ∃ bss fs', mapM2 MatchField.marshalM exFields = .ok (bss, fs') ∧ bss.flatten.length = 36 := ⟨_, _, rfl, rfl⟩
  obtain ⟨bss0, fs0, hm0, hl0⟩ := hmar
  obtain ⟨mb, fbs, ibs, hwalk, _, _⟩ := flowMod_topWalk_known (.num 8) 7 0 0 0 Gen.openflow13.FC_ADD 0 0 1000 4294967295
    Gen.openflow13.P_ANY Gen.openflow13.OFPG_ANY 0 (.bytes []) _ exInstrs bs v2 (by decide) hlt hw
    (by intro fs hf f hff
        have : fs = exFields := by
          simp only [V.fields] at hf
          injection hf with hf; injection hf with hf; exact hf.symm
        subst this; exact exFields_known f hff)
    (by intro fs bss fs' hf hmm
        have : fs = exFields := by
          simp only [V.fields] at hf
          injection hf with hf; injection hf with hf; exact hf.symm
        subst this
        rw [hm0] at hmm; cases hmm; omega)
    (by intro mb m' hmm
        have e : ∃ b, Match.marshalM (.obj "Match" [.num Gen.openflow13.MatchType_OXM, V.u16 (4 + sum16 [8, 16, 12]), .list exFields])
            = .ok (b, .obj "Match" [.num Gen.openflow13.MatchType_OXM, V.u16 (4 + sum16 [8, 16, 12]), .list exFields]) ∧ b.length = 40 :=
          ⟨_, rfl, rfl⟩
        obtain ⟨b, eb, el⟩ := e
        have hmm' : Match.marshalM (.obj "Match" [.num Gen.openflow13.MatchType_OXM, V.u16 (4 + sum16 [8, 16, 12]), .list exFields])
            = .ok (mb, m') := hmm
        rw [eb] at hmm'; cases hmm'; omega)
    (by intro ls is1 hm i hi
        have e : mapM2 Instruction.lenM exInstrs = .ok ([8, 32], exInstrs) := rfl
        rw [e] at hm; cases hm
        simp only [exInstrs, List.mem_cons, List.mem_nil_iff, or_false] at hi
        rcases hi with rfl | rfl
        · exact Or.inl ⟨1, rfl⟩
        · refine Or.inr (Or.inr (Or.inr ⟨_, _, _, _, [16, 8], _, rfl, by decide, by decide, rfl, rfl, ?_⟩))
          intro a ha
          simp only [List.mem_cons, List.mem_nil_iff, or_false] at ha
          rcases ha with rfl | rfl
          · exact ⟨actionWF_output 7, known_output 7⟩
          · exact ⟨actionWF_group 3, known_group 3⟩) h
  exact ⟨_, hwalk⟩

/-! ### conntrack: one level of nesting through the real walker -/

/-- walker side: a conntrack action (Nicira subtype 35) that declares its own bytes, has zero bytes 19-21 and whose
    bytes behind the 24 fixed ones are a concatenation of accepted actions is accepted for every nesting bound that
    leaves the nested list enough fuel, with one subtree per nested action -/
theorem accept_ct (b : Bytes) (nested : List Bytes) (h24 : 24 ≤ b.length) (hal : b.length % 8 = 0)
    (h0 : beAt b 0 2 = 65535) (h2 : beAt b 2 2 = b.length) (hv : beAt b 4 4 = 0x2320) (hsb : beAt b 8 2 = 35)
    (hz : allZero (slice b 19 3) = true) (hd : b.drop 24 = nested.flatten)
    (hacc : ∀ x ∈ nested, Accepted x ∧ 0 < x.length) (fuel : Nat) (tail : Bytes) (hf : nested.length + 1 < fuel) :
    walkAction (fuel + 1) (b ++ tail) = .ok (.node "nx 35" b (nested.map actTree), b.length) := by
  rw [walkAction_tail b tail fuel (by omega) hal h2]
  have e0 : u16At b 0 = 65535 := by rw [u16At_eq_beAt _ _ (by omega), h0]
  have e2 : u16At b 2 = b.length := by rw [u16At_eq_beAt _ _ (by omega), h2]
  have e4 : u32At b 4 = 0x2320 := by rw [u32At_eq_beAt _ _ (by omega), hv]
  have e8 : u16At b 8 = 35 := by rw [u16At_eq_beAt _ _ (by omega), hsb]
  have t2 : b.take b.length = b := List.take_length
  have l1 : ¬ b.length < 4 := by omega
  have l2 : ¬ (b.length < 8 ∨ b.length % 8 ≠ 0) := by omega
  have l3 : ¬ b.length < b.length := by omega
  have l4 : ¬ b.length < 16 := by omega
  have l5 : ¬ b.length < 24 := by omega
  have hn : nxFixed.lookup 35 = none := by decide
  have z := zerosAt_ok b 19 3 "ct" hz
  have hw := walkActions_flatten nested hacc fuel hf
  rw [← hd] at hw
  simp only [walkAction, e0, e2, e4, e8, t2, l1, l2, l3, l4, l5, hn, z, hw, if_false, ne_eq, not_true_eq_false]
  rfl

/-- CONNTRACK through the real walker (one nesting level): a conntrack action with the Nicira CT header (any stored
    length), any flags / zone / table / alg fields, whose nested actions — as Len() leaves them — are well-formed and
    of the known kinds (incl. NAT of any setter history), below 64 KiB, and whose bytes 19-21 are zero (`hz`, a
    decidable condition on the encoding: the model copies the 3-byte pad array there): `walkAction` accepts it for every
    nesting bound ≥ #nested + 3, whatever follows, with one subtree per nested action -/
theorem conntrack_accept (hd a b c d : V) (pad : Bytes) (f : V) (acts : List V) (hpad : pad.length ≤ 3) (bs : Bytes) (v2 : V)
    (ln : Nat) (hn : nxhdr (.obj "NXActionConnTrack" [hd, a, b, c, d, .bytes pad, f, .list acts]) = some (0xffff, ln, 0x2320, 35))
    (h : NXActionConnTrack.marshalM (.obj "NXActionConnTrack" [hd, a, b, c, d, .bytes pad, f, .list acts]) = .ok (bs, v2))
    (hwf : ∀ ls acts1, mapM2 (Action.lenD Action.encDepth) acts = .ok (ls, acts1) → ∀ x ∈ acts1,
      ActionWFD (Action.encDepth - 1) x ∧ ActionKnown x)
    (hlt : ∀ ls acts1, mapM2 (Action.lenD Action.encDepth) acts = .ok (ls, acts1) → 24 + (ls.map UInt16.toNat).sum < 65536)
    (hz : allZero (slice bs 19 3) = true)
    (hdep : ∀ x bx y, Action.marshalD Action.encDepth x = .ok (bx, y) → ActionKnown x → Accepted bx) :
    ∃ nested : List Bytes, nested.length = acts.length ∧ ∀ fuel tail, acts.length + 1 < fuel →
      walkAction (fuel + 1) (bs ++ tail) = .ok (.node "nx 35" bs (nested.map actTree), bs.length) := by
  obtain ⟨ls, acts1, bss, acts2, hm, hmm, hfit⟩ := nxConnTrack_embeds (Action.lenD Action.encDepth) (Action.marshalD Action.encDepth)
    (fun x l y bx z hx hy => C06b.action_sizeD _ y l y bx z (Action.lenD_idem _ x l y hx) hy) hd a b c d pad f acts hpad bs v2 h
  obtain ⟨_, hw⟩ := nxConnTrack_wire _ _ _ bs v2 _ _ _ _ hn h
  have hlens := mapM2_lengths _ _ acts ls acts1 bss acts2 hm hmm
    (fun x _ l y bx z hx hy => C06b.action_sizeD _ y l y bx z (Action.lenD_idem _ x l y hx) hy)
  have hflat : bss.flatten.length = (ls.map UInt16.toNat).sum := by rw [flatten_length_sum, hlens]
  obtain ⟨e1, e2⟩ := hfit (by rw [hflat]; exact hlt ls acts1 hm)
  have hacc : ∀ bx ∈ bss, Accepted bx ∧ 0 < bx.length := by
    intro bx hbx
    obtain ⟨x, hx, y, hxy⟩ := mapM2_mem_bytes _ _ _ _ hmm bx hbx
    have hk := hwf ls acts1 hm x hx
    have hdcl := action_declaresD (Action.encDepth - 1) x hk.1 bx y hxy
    exact ⟨hdep x bx y hxy hk.2, by have := hdcl.2.1; omega⟩
  have hdc : ∀ bx ∈ bss, Declares bx := by
    intro bx hbx
    obtain ⟨x, hx, y, hxy⟩ := mapM2_mem_bytes _ _ _ _ hmm bx hbx
    exact action_declaresD (Action.encDepth - 1) x (hwf ls acts1 hm x hx).1 bx y hxy
  have hal := flatten_aligned bss (fun bx hbx => (hdc bx hbx).2.2)
  have hN := hw (by omega)
  have hcnt : bss.length = acts.length := by rw [(mapM2_length _ _ _ _ hmm).1, (mapM2_length _ _ _ _ hm).2]
  refine ⟨bss, hcnt, fun fuel tail hf => ?_⟩
  exact accept_ct bs bss (by omega) (by omega) hN.code_ok hN.len_ok hN.vendor_ok hN.sub_ok hz e1 hacc fuel tail (by omega)

/-- no known action kind is a conntrack action -/
theorem known_not_ct (v : V) (hk : ActionKnown v) : v.kind ≠ "NXActionConnTrack" := by
  rcases hk with ⟨_, _, rfl⟩ | ⟨hk, _⟩ | ⟨hk, _⟩ | ⟨hk, _⟩ | ⟨hk, _⟩ | ⟨hk, _⟩ | ⟨hk, _⟩ | ⟨hk, _⟩ |
    ⟨hk, _⟩ | ⟨hk, _⟩ | ⟨hk, _⟩ | ⟨_, _, _, rfl, _⟩ | ⟨_, _, _, _, rfl, _⟩ | ⟨_, _, _, _, rfl, _⟩ | ⟨ops, hops, _⟩
  all_goals first
    | (rw [hk]; decide)
    | (intro hc; rw [hc] at hk; simp [nxFixedKinds] at hk; done)
    | (obtain ⟨_, _, _, _, _, _, _, _, hw2, _⟩ := C03c.nat_history_length ops v hops
       rw [hw2]; simp [natObj, V.kind]; done)
    | (simp [V.kind]; done)

/-- BRIDGE: the interface dispatch of a known (non-conntrack) action does not depend on the nesting bound, so the
    acceptance proved for Action.MarshalBinary() holds for the nested dispatch inside a conntrack action -/
theorem action_accept_inner (x : V) (bx : Bytes) (y : V) (h : Action.marshalD Action.encDepth x = .ok (bx, y))
    (hk : ActionKnown x) : Accepted bx := by
  have hne := known_not_ct x hk
  have hleaf : ∀ d : Nat, Action.marshalD (d + 1) x = Action.marshalLeaf x := by
    intro d; simp only [Action.marshalD, hne, if_false]
  have e : Action.marshalD Action.encDepth x = Action.marshalM x := by
    show Action.marshalD (4095 + 1) x = Action.marshalD (4096 + 1) x
    rw [hleaf 4095, hleaf 4096]
  rw [e] at h
  exact action_accept x hk bx y h

/-- `conntrack_accept` with the nested-dispatch hypothesis discharged by `action_accept_inner` -/
theorem conntrack_accept' (hd a b c d : V) (pad : Bytes) (f : V) (acts : List V) (hpad : pad.length ≤ 3) (bs : Bytes) (v2 : V)
    (ln : Nat) (hn : nxhdr (.obj "NXActionConnTrack" [hd, a, b, c, d, .bytes pad, f, .list acts]) = some (0xffff, ln, 0x2320, 35))
    (h : NXActionConnTrack.marshalM (.obj "NXActionConnTrack" [hd, a, b, c, d, .bytes pad, f, .list acts]) = .ok (bs, v2))
    (hwf : ∀ ls acts1, mapM2 (Action.lenD Action.encDepth) acts = .ok (ls, acts1) → ∀ x ∈ acts1,
      ActionWFD (Action.encDepth - 1) x ∧ ActionKnown x)
    (hlt : ∀ ls acts1, mapM2 (Action.lenD Action.encDepth) acts = .ok (ls, acts1) → 24 + (ls.map UInt16.toNat).sum < 65536)
    (hz : allZero (slice bs 19 3) = true) :
    ∃ nested : List Bytes, nested.length = acts.length ∧ ∀ fuel tail, acts.length + 1 < fuel →
      walkAction (fuel + 1) (bs ++ tail) = .ok (.node "nx 35" bs (nested.map actTree), bs.length) :=
  conntrack_accept hd a b c d pad f acts hpad bs v2 ln hn h hwf hlt hz (fun x bx y hxy hk => action_accept_inner x bx y hxy hk)

end OFV.Props.C02c
