/-
  C06 (part b) — reported size equals encoded size: actions, instructions, buckets, messages.

  "The size any value reports for itself equals the number of bytes its encoding produces, and a container's
   encoding consists of its own header followed by the complete, unmodified encodings of its children in order."

  * `SizeOK K.lenM K.marshalM v`  : whenever Len() and MarshalBinary() both succeed on v, the encoding has exactly the
    reported number of bytes.  Proved for EVERY value of the kind (no well-formedness hypothesis) unless stated.
  * `SizeMod …` : the same modulo 2^16 — what is true of the kinds that build their encoding with `append`
    (Len() adds in uint16 and wraps, the encoding does not).
  * containers are proved from their children's property, so the statements compose to every nesting.
  * where the property FAILS in the model a concrete counterexample is proved (`…_counterexample`) and the theorem
    with the excluding hypothesis is called `…_partial`.
-/
import OFV.Model.All
import OFV.Lemmas.Size
import OFV.Lemmas.SizeTac
import OFV.Lemmas.SizeNoErr
import OFV.Lemmas.SizeList
import OFV.Lemmas.SizeIdem
import OFV.Lemmas.SizeInstr
import OFV.Lemmas.SizeMsg
import OFV.Lemmas.SizeCex
import OFV.Props.C06
namespace OFV.Props.C06b
open OFV OFV.Go OFV.Model InstrAux

/-! ### plain OpenFlow actions -/

/-- a bare ActionHeader value: 4 bytes reported, 4 bytes written -/
theorem actionHeader_size (v : V) : SizeOK ActionHeader.lenM ActionHeader.marshalM v := by
  intro l v1 bs v2 h1 h2
  obtain ⟨rfl, rfl⟩ := same_ok _ _ _ _ h1
  unfold ActionHeader.marshalM at h2
  obtain ⟨b, hb, h2⟩ := bind_ok_inv _ _ _ h2
  obtain ⟨rfl, _⟩ := same_ok _ _ _ _ h2
  exact ActionHeader.bytes_length _ _ hb

/-- ActionMplsTtl: 8 bytes reported, 8 written (header, the ttl, 3 bytes of padding) -/
theorem actionMplsTtl_size (v : V) : SizeOK ActionMplsTtl.lenM ActionMplsTtl.marshalM v := by
  intro l v1 bs v2 h1 h2
  obtain ⟨rfl, rfl⟩ := same_ok _ _ _ _ h1
  unfold ActionMplsTtl.marshalM at h2
  split at h2
  · obtain ⟨b, hb, h2⟩ := bind_ok_inv _ _ _ h2
    obtain ⟨rfl, _⟩ := same_ok _ _ _ _ h2
    have := ActionHeader.bytes_length _ _ hb
    simp [this]
  · exact absurd h2 (by simp)

/-- ActionNwTtl: as ActionMplsTtl, 8 bytes -/
theorem actionNwTtl_size (v : V) : SizeOK ActionNwTtl.lenM ActionNwTtl.marshalM v := by
  intro l v1 bs v2 h1 h2
  obtain ⟨rfl, rfl⟩ := same_ok _ _ _ _ h1
  unfold ActionNwTtl.marshalM at h2
  split at h2
  · obtain ⟨b, hb, h2⟩ := bind_ok_inv _ _ _ h2
    obtain ⟨rfl, _⟩ := same_ok _ _ _ _ h2
    have := ActionHeader.bytes_length _ _ hb
    simp [this]
  · exact absurd h2 (by simp)

/-- ActionOutput: 16 bytes -/
theorem actionOutput_size (v : V) : SizeOK ActionOutput.lenM ActionOutput.marshalM v := by
  intro l v1 bs v2 h1 h2
  obtain ⟨rfl, rfl⟩ := same_ok _ _ _ _ h1
  unfold ActionOutput.marshalM at h2
  split at h2
  · revert h2; size_fill
  · exact absurd h2 (by simp)

/-- ActionGroup: 8 bytes -/
theorem actionGroup_size (v : V) : SizeOK ActionGroup.lenM ActionGroup.marshalM v := by
  intro l v1 bs v2 h1 h2
  obtain ⟨rfl, rfl⟩ := same_ok _ _ _ _ h1
  unfold ActionGroup.marshalM at h2
  split at h2
  · revert h2; size_fill
  · exact absurd h2 (by simp)

/-- ActionSetqueue: header + queue id = 8 bytes -/
theorem actionSetqueue_size (v : V) : SizeOK ActionSetqueue.lenM ActionSetqueue.marshalM v := by
  intro l v1 bs v2 h1 h2
  obtain ⟨rfl, rfl⟩ := same_ok _ _ _ _ h1
  unfold ActionSetqueue.marshalM at h2
  split at h2
  · obtain ⟨b, hb, h2⟩ := bind_ok_inv _ _ _ h2
    obtain ⟨rfl, _⟩ := same_ok _ _ _ _ h2
    have := ActionHeader.bytes_length _ _ hb
    simp [this]
  · exact absurd h2 (by simp)

/-- ActionDecNwTtl: 8 bytes -/
theorem actionDecNwTtl_size (v : V) : SizeOK ActionDecNwTtl.lenM ActionDecNwTtl.marshalM v := by
  intro l v1 bs v2 h1 h2
  obtain ⟨rfl, rfl⟩ := same_ok _ _ _ _ h1
  unfold ActionDecNwTtl.marshalM at h2
  split at h2
  · obtain ⟨b, hb, h2⟩ := bind_ok_inv _ _ _ h2
    obtain ⟨rfl, _⟩ := same_ok _ _ _ _ h2
    have := ActionHeader.bytes_length _ _ hb
    simp [this]
  · exact absurd h2 (by simp)

/-- ActionPush (PushVlan / PushMpls / PushPbb): 8 bytes -/
theorem actionPush_size (v : V) : SizeOK ActionPush.lenM ActionPush.marshalM v := by
  intro l v1 bs v2 h1 h2
  obtain ⟨rfl, rfl⟩ := same_ok _ _ _ _ h1
  unfold ActionPush.marshalM at h2
  split at h2
  · obtain ⟨b, hb, h2⟩ := bind_ok_inv _ _ _ h2
    obtain ⟨rfl, _⟩ := same_ok _ _ _ _ h2
    have := ActionHeader.bytes_length _ _ hb
    simp [this]
  · exact absurd h2 (by simp)

/-- ActionPopVlan: 8 bytes -/
theorem actionPopVlan_size (v : V) : SizeOK ActionPopVlan.lenM ActionPopVlan.marshalM v := by
  intro l v1 bs v2 h1 h2
  obtain ⟨rfl, rfl⟩ := same_ok _ _ _ _ h1
  unfold ActionPopVlan.marshalM at h2
  split at h2
  · obtain ⟨b, hb, h2⟩ := bind_ok_inv _ _ _ h2
    obtain ⟨rfl, _⟩ := same_ok _ _ _ _ h2
    have := ActionHeader.bytes_length _ _ hb
    simp [this]
  · exact absurd h2 (by simp)

/-- ActionPopMpls: 8 bytes -/
theorem actionPopMpls_size (v : V) : SizeOK ActionPopMpls.lenM ActionPopMpls.marshalM v := by
  intro l v1 bs v2 h1 h2
  obtain ⟨rfl, rfl⟩ := same_ok _ _ _ _ h1
  unfold ActionPopMpls.marshalM at h2
  split at h2
  · obtain ⟨b, hb, h2⟩ := bind_ok_inv _ _ _ h2
    obtain ⟨rfl, _⟩ := same_ok _ _ _ _ h2
    have := ActionHeader.bytes_length _ _ hb
    simp [this]
  · exact absurd h2 (by simp)

/-- ActionSetField: header, the field's encoding, zero padding up to the reported (rounded) size — whatever field -/
theorem actionSetField_size (v : V) : SizeOK ActionSetField.lenM ActionSetField.marshalM v := by
  intro l v1 bs v2 h1 h2
  unfold ActionSetField.marshalM at h2
  obtain ⟨⟨l', v'⟩, hl, h2⟩ := bind_ok_inv _ _ _ h2
  rw [h1] at hl
  cases hl
  simp only at h2
  split at h2
  · revert h2; size_fill
  · exact absurd h2 (by simp)

/-- the size an ActionSetField reports is a multiple of 8 -/
theorem actionSetField_aligned (v : V) (l : UInt16) (v1 : V) (h : ActionSetField.lenM v = .ok (l, v1)) :
    l.toNat % 8 = 0 := by
  unfold ActionSetField.lenM at h
  split at h
  · obtain ⟨⟨fl, f'⟩, _, h⟩ := bind_ok_inv _ _ _ h
    cases h
    exact round8_aligned _
  · exact absurd h (by simp)

/-! ### Nicira extension actions -/

/-- NXActionConjunction: Len() is the stored header length and exactly that many bytes are allocated -/
theorem nxConjunction_size (v : V) : SizeOK NXActionConjunction.lenM NXActionConjunction.marshalM v := by
  nx_size NXActionConjunction.lenM NXActionConjunction.marshalM
/-- NXActionRegLoad: stored header length -/
theorem nxRegLoad_size (v : V) : SizeOK NXActionRegLoad.lenM NXActionRegLoad.marshalM v := by
  nx_size NXActionRegLoad.lenM NXActionRegLoad.marshalM
/-- NXActionRegMove: stored header length -/
theorem nxRegMove_size (v : V) : SizeOK NXActionRegMove.lenM NXActionRegMove.marshalM v := by
  nx_size NXActionRegMove.lenM NXActionRegMove.marshalM
/-- NXActionResubmit: stored header length -/
theorem nxResubmit_size (v : V) : SizeOK NXActionResubmit.lenM NXActionResubmit.marshalM v := by
  nx_size NXActionResubmit.lenM NXActionResubmit.marshalM
/-- NXActionResubmitTable (also the CT variant): stored header length -/
theorem nxResubmitTable_size (v : V) : SizeOK NXActionResubmitTable.lenM NXActionResubmitTable.marshalM v := by
  nx_size NXActionResubmitTable.lenM NXActionResubmitTable.marshalM
/-- NXActionOutputReg: stored header length -/
theorem nxOutputReg_size (v : V) : SizeOK NXActionOutputReg.lenM NXActionOutputReg.marshalM v := by
  nx_size NXActionOutputReg.lenM NXActionOutputReg.marshalM
/-- NXActionCTClear: stored header length -/
theorem nxCTClear_size (v : V) : SizeOK NXActionCTClear.lenM NXActionCTClear.marshalM v := by
  nx_size NXActionCTClear.lenM NXActionCTClear.marshalM
/-- NXActionDecTTL: stored header length -/
theorem nxDecTTL_size (v : V) : SizeOK NXActionDecTTL.lenM NXActionDecTTL.marshalM v := by
  nx_size NXActionDecTTL.lenM NXActionDecTTL.marshalM
/-- NXActionDecTTLCntIDs: stored header length, whatever the number of controller ids -/
theorem nxDecTTLCntIDs_size (v : V) : SizeOK NXActionDecTTLCntIDs.lenM NXActionDecTTLCntIDs.marshalM v := by
  nx_size NXActionDecTTLCntIDs.lenM NXActionDecTTLCntIDs.marshalM

/-- NXActionHeader: 10 bytes -/
theorem nxHeader_size (v : V) : SizeOK NXActionHeader.lenM NXActionHeader.marshalM v := by
  intro l v1 bs v2 h1 h2
  obtain ⟨rfl, rfl⟩ := same_ok _ _ _ _ h1
  unfold NXActionHeader.marshalM at h2
  obtain ⟨b, hb, h2⟩ := bind_ok_inv _ _ _ h2
  obtain ⟨rfl, _⟩ := same_ok _ _ _ _ h2
  exact NXActionHeader.bytes_length _ _ hb

/-- NXActionController: 16 bytes -/
theorem nxController_size (v : V) : SizeOK NXActionController.lenM NXActionController.marshalM v := by
  intro l v1 bs v2 h1 h2
  obtain ⟨rfl, rfl⟩ := same_ok _ _ _ _ h1
  unfold NXActionController.marshalM at h2
  split at h2
  · revert h2; size_fill
  · exact absurd h2 (by simp)

/-- NXActionNote: 10 + len(Note) rounded up to 8, zero padded -/
theorem nxNote_size (v : V) : SizeOK NXActionNote.lenM NXActionNote.marshalM v := by
  intro l v1 bs v2 h1 h2
  unfold NXActionNote.marshalM at h2
  split at h2
  · simp only [NXActionNote.lenM] at h1
    obtain ⟨rfl, rfl⟩ := same_ok _ _ _ _ h1
    revert h2; size_fill
  · exact absurd h2 (by simp)

/-- NXActionRegLoad2: 10 + field rounded up to 8; the buffer is allocated from the FIRST Len() call, which is the reported one -/
theorem nxRegLoad2_size (v : V) : SizeOK NXActionRegLoad2.lenM NXActionRegLoad2.marshalM v := by
  intro l v1 bs v2 h1 h2
  unfold NXActionRegLoad2.marshalM at h2
  obtain ⟨⟨l', v'⟩, hl, h2⟩ := bind_ok_inv _ _ _ h2
  rw [h1] at hl
  cases hl
  obtain ⟨⟨l1, v''⟩, hl1, h2⟩ := bind_ok_inv _ _ _ h2
  simp only at h2
  split at h2
  · revert h2; size_fill
  · exact absurd h2 (by simp)

/-- NXActionCTNAT: the (rounded, stored) length, whatever ranges are present -/
theorem nxCTNAT_size (v : V) : SizeOK NXActionCTNAT.lenM NXActionCTNAT.marshalM v := by
  intro l v1 bs v2 h1 h2
  unfold NXActionCTNAT.marshalM at h2
  obtain ⟨⟨l', v'⟩, hl, h2⟩ := bind_ok_inv _ _ _ h2
  rw [h1] at hl
  cases hl
  simp only at h2
  split at h2
  · revert h2; size_fill
  · exact absurd h2 (by simp)

/-- NXLearnSpecHeader: the stored `length` field (2 for every constructor) -/
theorem nxLearnSpecHeader_size (v : V) : SizeOK NXLearnSpecHeader.lenM NXLearnSpecHeader.marshalM v := by
  intro l v1 bs v2 h1 h2
  unfold NXLearnSpecHeader.marshalM at h2
  obtain ⟨b, hb, h2⟩ := bind_ok_inv _ _ _ h2
  obtain ⟨rfl, _⟩ := same_ok _ _ _ _ h2
  unfold NXLearnSpecHeader.bytes at hb
  split at hb
  · simp only [NXLearnSpecHeader.lenM] at h1
    obtain ⟨rfl, rfl⟩ := same_ok _ _ _ _ h1
    exact fill_length _ _ _ hb
  · exact absurd hb (by simp)

/-- NXLearnSpecField: 6 bytes -/
theorem nxLearnSpecField_size (v : V) : SizeOK NXLearnSpecField.lenM NXLearnSpecField.marshalM v := by
  intro l v1 bs v2 h1 h2
  obtain ⟨rfl, rfl⟩ := same_ok _ _ _ _ h1
  unfold NXLearnSpecField.marshalM at h2
  split at h2
  · revert h2; size_fill
  · exact absurd h2 (by simp)

/-- NXLearnSpec: header + source (value or field) + destination, for all four spec shapes -/
theorem nxLearnSpec_size (v : V) : SizeOK NXLearnSpec.lenM NXLearnSpec.marshalM v := by
  intro l v1 bs v2 h1 h2
  unfold NXLearnSpec.lenM at h1
  obtain ⟨l', hl, h1⟩ := bind_ok_inv _ _ _ h1
  obtain ⟨rfl, rfl⟩ := same_ok _ _ _ _ h1
  unfold NXLearnSpec.marshalM at h2
  simp only [hl, Res.bind_ok] at h2
  split at h2
  · obtain ⟨hb, _, h2⟩ := bind_ok_inv _ _ _ h2
    obtain ⟨⟨sd, k⟩, _, h2⟩ := bind_ok_inv _ _ _ h2
    simp only at h2
    split at h2
    · revert h2; size_fill
    · revert h2; size_fill
  · exact absurd h2 (by simp)

/-- NXActionLearn: 32 + specs rounded up to 8, whatever the specs -/
theorem nxLearn_size (v : V) : SizeOK NXActionLearn.lenM NXActionLearn.marshalM v := by
  intro l v1 bs v2 h1 h2
  unfold NXActionLearn.lenM at h1
  obtain ⟨l', hl, h1⟩ := bind_ok_inv _ _ _ h1
  obtain ⟨rfl, rfl⟩ := same_ok _ _ _ _ h1
  unfold NXActionLearn.marshalM at h2
  simp only [hl, Res.bind_ok] at h2
  split at h2
  · revert h2; size_fill
  · exact absurd h2 (by simp)

/-- NXActionConnTrack: Len() recomputes 24 + the nested actions' current sizes (and stores it in the header);
    MarshalBinary() calls it first, allocates exactly that many bytes and copies the nested actions into them —
    for ANY Len() / encoder pair `subLen` / `sub` of the nested actions -/
theorem nxConnTrack_size (subLen : V → R (UInt16 × V)) (sub : V → R (Bytes × V)) (v : V) :
    SizeOK (NXActionConnTrack.lenWith subLen) (NXActionConnTrack.marshalWith subLen sub) v := by
  intro l v1 bs v2 h1 h2
  unfold NXActionConnTrack.marshalWith at h2
  obtain ⟨⟨l', v'⟩, hl, h3⟩ := bind_ok_inv _ _ _ h2
  rw [h1] at hl
  cases hl
  simp only at h3
  split at h3
  · obtain ⟨hb, _, h4⟩ := bind_ok_inv _ _ _ h3
    obtain ⟨buf, hbuf, h5⟩ := bind_ok_inv _ _ _ h4
    obtain ⟨⟨buf', acts'⟩, hacts, h6⟩ := bind_ok_inv _ _ _ h5
    cases h6
    rw [NXActionConnTrack.marshalActs_length _ _ _ _ _ _ hacts]
    exact fill_length _ _ _ hbuf
  · exact absurd h3 (by simp)

/-! ### the Action interface -/

/-- every action kind except conntrack, through the interface dispatch -/
theorem action_size_leaf (v : V) : SizeOK Action.lenLeaf Action.marshalLeaf v := by
  intro l v1 bs v2 h1 h2
  unfold Action.lenLeaf at h1
  unfold Action.marshalLeaf at h2
  split at h1 <;> rename_i hk <;> simp only [hk] at h2
  · exact actionHeader_size v l v1 bs v2 h1 h2
  · exact actionOutput_size v l v1 bs v2 h1 h2
  · exact actionSetqueue_size v l v1 bs v2 h1 h2
  · exact actionGroup_size v l v1 bs v2 h1 h2
  · exact actionMplsTtl_size v l v1 bs v2 h1 h2
  · exact actionNwTtl_size v l v1 bs v2 h1 h2
  · exact actionDecNwTtl_size v l v1 bs v2 h1 h2
  · exact actionPush_size v l v1 bs v2 h1 h2
  · exact actionPopVlan_size v l v1 bs v2 h1 h2
  · exact actionPopMpls_size v l v1 bs v2 h1 h2
  · exact actionSetField_size v l v1 bs v2 h1 h2
  · exact nxHeader_size v l v1 bs v2 h1 h2
  · exact nxConjunction_size v l v1 bs v2 h1 h2
  · exact nxRegLoad_size v l v1 bs v2 h1 h2
  · exact nxRegMove_size v l v1 bs v2 h1 h2
  · exact nxResubmit_size v l v1 bs v2 h1 h2
  · exact nxResubmitTable_size v l v1 bs v2 h1 h2
  · exact nxCTNAT_size v l v1 bs v2 h1 h2
  · exact nxOutputReg_size v l v1 bs v2 h1 h2
  · exact nxCTClear_size v l v1 bs v2 h1 h2
  · exact nxDecTTL_size v l v1 bs v2 h1 h2
  · exact nxDecTTLCntIDs_size v l v1 bs v2 h1 h2
  · exact nxLearn_size v l v1 bs v2 h1 h2
  · exact nxNote_size v l v1 bs v2 h1 h2
  · exact nxRegLoad2_size v l v1 bs v2 h1 h2
  · exact nxController_size v l v1 bs v2 h1 h2
  · exact absurd h1 (by simp)

/-- Action.Len() / Action.MarshalBinary() through the interface, at every nesting bound: whatever action a value
    holds (any kind, any field values, conntrack actions nested to any depth), the encoding has exactly the size
    the action reports -/
theorem action_sizeD (d : Nat) (v : V) : SizeOK (Action.lenD d) (Action.marshalD d) v := by
  intro l v1 bs v2 h1 h2
  cases d with
  | zero => exact absurd h2 (by simp [Action.marshalD])
  | succ d =>
    unfold Action.marshalD at h2
    unfold Action.lenD at h1
    split at h2
    · rename_i hk
      simp only [hk, if_true] at h1
      exact nxConnTrack_size _ _ v l v1 bs v2 h1 h2
    · rename_i hk
      simp only [hk, if_false] at h1
      exact action_size_leaf v l v1 bs v2 h1 h2

/-- the Action interface: reported size = encoded size, for every action value -/
theorem action_size (v : V) : SizeOK Action.lenM Action.marshalM v := action_sizeD _ v

/-- NXActionConnTrack with the knot tied -/
theorem nxConnTrack_size' (v : V) : SizeOK NXActionConnTrack.lenM NXActionConnTrack.marshalM v :=
  nxConnTrack_size _ _ v

/-! ### alignment -/

/-- the action kinds that pad: whatever they hold, the size they report is a multiple of 8
    (fixed 8/16-byte kinds — now including the two TTL setters —, and the kinds that round up: SetField, CTNAT, Learn,
    Note, RegLoad2) -/
theorem action_len_aligned (v : V)
    (hk : v.kind ∈ ["ActionOutput", "ActionSetqueue", "ActionGroup", "ActionMplsTtl", "ActionNwTtl", "ActionDecNwTtl",
      "ActionPush", "ActionPopVlan",
      "ActionPopMpls", "ActionSetField", "NXActionCTNAT", "NXActionLearn", "NXActionNote", "NXActionRegLoad2",
      "NXActionController"])
    (l : UInt16) (v1 : V) (h : Action.lenM v = .ok (l, v1)) : l.toNat % 8 = 0 := by
  have hnc : v.kind ≠ "NXActionConnTrack" := by
    intro hc; rw [hc] at hk; exact absurd hk (by decide)
  unfold Action.lenM at h
  rw [Action.lenD_succ_leaf _ v hnc] at h
  unfold Action.lenLeaf at h
  split at h <;> rename_i hk'
  all_goals first
    | (rw [hk'] at hk; exact absurd hk (by decide))
    | (obtain ⟨rfl, _⟩ := same_ok _ _ _ _ h; rfl)
    | exact actionSetField_aligned _ _ _ h
    | (unfold NXActionCTNAT.lenM at h
       split at h
       · obtain ⟨_, _, h2⟩ := bind_ok_inv _ _ _ h
         obtain ⟨_, _, h3⟩ := bind_ok_inv _ _ _ h2
         cases h3; exact round8_aligned _
       · exact absurd h (by simp))
    | (unfold NXActionLearn.lenM NXActionLearn.len at h
       obtain ⟨_, hl, h2⟩ := bind_ok_inv _ _ _ h
       obtain ⟨rfl, _⟩ := same_ok _ _ _ _ h2
       split at hl
       · obtain ⟨_, _, h3⟩ := bind_ok_inv _ _ _ hl
         cases h3; exact round8_aligned _
       · exact absurd hl (by simp))
    | (unfold NXActionNote.lenM at h
       split at h
       · obtain ⟨rfl, _⟩ := same_ok _ _ _ _ h; exact round8_aligned _
       · exact absurd h (by simp))
    | (unfold NXActionRegLoad2.lenM at h
       split at h
       · split at h
         · exact absurd h (by simp)
         · obtain ⟨_, _, h2⟩ := bind_ok_inv _ _ _ h
           cases h2; exact round8_aligned _
       · exact absurd h (by simp))
    | exact absurd h (by simp)

/-- the former defect is gone: the two TTL setters report — and, by `actionMplsTtl_size` / `actionNwTtl_size`, encode
    to — 8 bytes, the OpenFlow 1.3 wire size (header, ttl, 3 bytes of padding), whatever they hold.
    (Before the repair both reported 4 bytes; this replaces the `= .ok (4, v)` clauses of `action_len_unaligned`.) -/
theorem action_ttl_len (v : V) : ActionMplsTtl.lenM v = .ok (8, v) ∧ ActionNwTtl.lenM v = .ok (8, v) :=
  ⟨rfl, rfl⟩

/-- … and the header-only OpenFlow actions (COPY_TTL_OUT/IN, DEC_MPLS_TTL, POP_PBB) are now decoded into the 8-byte
    kind ActionDecNwTtl (header + 4 bytes of padding): every non-experimenter action type DecodeAction knows maps to
    a kind whose reported size is a multiple of 8 -/
theorem actionTypeTable_aligned (t : Nat) (a : V) (h : (t, a) ∈ actionTypeTable)
    (l : UInt16) (v1 : V) (hl : Action.lenM a = .ok (l, v1)) : l.toNat % 8 = 0 := by
  simp only [actionTypeTable, List.mem_cons, Prod.mk.injEq, List.mem_nil_iff, or_false] at h
  rcases h with h | h | h | h | h | h | h | h | h | h | h | h | h | h | h | h <;> obtain ⟨_, rfl⟩ := h <;>
    exact action_len_aligned _ (by decide) l v1 hl

/-- STILL not aligned: a bare ActionHeader value (no decoder produces it any more; it can only be built by hand)
    reports — and encodes to — 4 bytes -/
theorem action_len_unaligned (v : V) : ActionHeader.lenM v = .ok (4, v) := rfl


/-! ### instructions -/

/-- InstrHeader: 4 bytes -/
theorem instrHeader_size (v : V) : SizeOK InstrHeader.lenM InstrHeader.marshalM v := by
  intro l v1 bs v2 h1 h2
  obtain ⟨rfl, rfl⟩ := same_ok _ _ _ _ h1
  unfold InstrHeader.marshalM at h2
  obtain ⟨b, hb, h2⟩ := bind_ok_inv _ _ _ h2
  obtain ⟨rfl, _⟩ := same_ok _ _ _ _ h2
  exact InstrHeader.bytes_length _ _ hb

/-- InstrGotoTable: 8 bytes -/
theorem instrGotoTable_size (v : V) : SizeOK InstrGotoTable.lenM InstrGotoTable.marshalM v := by
  intro l v1 bs v2 h1 h2
  obtain ⟨rfl, rfl⟩ := same_ok _ _ _ _ h1
  unfold InstrGotoTable.marshalM at h2
  split at h2
  · obtain ⟨b, hb, h2⟩ := bind_ok_inv _ _ _ h2
    obtain ⟨rfl, _⟩ := same_ok _ _ _ _ h2
    have := InstrHeader.bytes_length _ _ hb
    simp [this, makeCopy_length]
  · exact absurd h2 (by simp)

/-- InstrWriteMetadata: 24 bytes -/
theorem instrWriteMetadata_size (v : V) : SizeOK InstrWriteMetadata.lenM InstrWriteMetadata.marshalM v := by
  intro l v1 bs v2 h1 h2
  obtain ⟨rfl, rfl⟩ := same_ok _ _ _ _ h1
  unfold InstrWriteMetadata.marshalM at h2
  split at h2
  · obtain ⟨b, hb, h2⟩ := bind_ok_inv _ _ _ h2
    obtain ⟨rfl, _⟩ := same_ok _ _ _ _ h2
    have := InstrHeader.bytes_length _ _ hb
    simp [this, makeCopy_length]
  · exact absurd h2 (by simp)

/-- InstrMeter: 8 bytes reported, 8 written (header + meter id) -/
theorem instrMeter_size (v : V) : SizeOK InstrMeter.lenM InstrMeter.marshalM v := by
  intro l v1 bs v2 h1 h2
  obtain ⟨rfl, rfl⟩ := same_ok _ _ _ _ h1
  unfold InstrMeter.marshalM at h2
  split at h2
  · obtain ⟨b, hb, h2⟩ := bind_ok_inv _ _ _ h2
    obtain ⟨rfl, _⟩ := same_ok _ _ _ _ h2
    have := InstrHeader.bytes_length _ _ hb
    simp [this]
  · exact absurd h2 (by simp)

/-- InstrActions (apply / write / clear actions): header (with Length = Len()), pad and the complete encodings of
    all actions.  The encoding is built with `append`, Len() adds in uint16: equal modulo 2^16, for every list of
    actions. -/
theorem instrActions_sizeMod (v : V) : SizeMod InstrActions.lenM InstrActions.marshalM v := by
  intro l v1 bs v2 h1 h2
  unfold InstrActions.marshalM at h2
  obtain ⟨⟨l', v'⟩, hl, h3⟩ := bind_ok_inv _ _ _ h2
  rw [h1] at hl
  cases hl
  unfold InstrActions.lenM at h1
  split at h1
  · obtain ⟨⟨ls, as'⟩, hm, h1'⟩ := bind_ok_inv _ _ _ h1
    cases h1'
    simp only at h3
    split at h3
    · rename_i heq
      cases heq
      obtain ⟨hb, hhb, h4⟩ := bind_ok_inv _ _ _ h3
      obtain ⟨⟨abs, as'', e⟩, hml, h5⟩ := bind_ok_inv _ _ _ h4
      simp only at h5
      split at h5
      · exact absurd h5 (by simp)
      · cases h5
        have key := marshalList_length_after Action.lenM Action.marshalM _ _ _ _ _ _ _ hm hml
          (fun x _ => Action.marshalM_noErr x)
          (fun x _ l y b z hx hy => (action_size y).toMod l y b z (Action.lenM_idem x l y hx) hy)
        have hlen := InstrHeader.bytes_length _ _ hhb
        simp only [List.length_append, hlen, makeCopy_length]
        rw [UInt16.toNat_add, key]
        have : (2:Nat) ^ 16 = 65536 := rfl
        have h8 : (8 : UInt16).toNat = 8 := rfl
        rw [this, h8]; omega
    · exact absurd h3 (by simp)
  · exact absurd h1 (by simp)

/-- … and exactly equal whenever the encoding is shorter than 64 KiB -/
theorem instrActions_size (v : V) (l : UInt16) (v1 : V) (bs : Bytes) (v2 : V)
    (h1 : InstrActions.lenM v = .ok (l, v1)) (h2 : InstrActions.marshalM v = .ok (bs, v2)) (hlt : bs.length < 65536) :
    bs.length = l.toNat := (instrActions_sizeMod v).toOK l v1 bs v2 h1 h2 hlt

/-- n output actions in one InstrActions, evaluated for arbitrary n -/
theorem instrActions_replicate (n : Nat) :
    let v : V := .obj "InstrActions" [.obj "InstrHeader" [.num 4, .num 8], .bytes [], .list (List.replicate n (ActionOutput.new 1))]
    InstrActions.lenM v = .ok (8 + sum16 (List.replicate n 16), v) ∧
    InstrActions.marshalM v = .ok (be16 (n16 4) ++ be16 (n16 (8 + sum16 (List.replicate n 16)).toNat) ++ makeCopy 4 [] ++
      (List.replicate n ([0, 0, 0, 16, 0, 0, 0, 1, 1, 0, 0, 0, 0, 0, 0, 0] : Bytes)).flatten,
      .obj "InstrActions" [.obj "InstrHeader" [.num 4, .num (8 + sum16 (List.replicate n 16)).toNat], .bytes [],
        .list (List.replicate n (ActionOutput.new 1))]) := by
  have hl : Action.lenM (ActionOutput.new 1) = .ok (16, ActionOutput.new 1) := rfl
  have hm : Action.marshalM (ActionOutput.new 1) =
      .ok ([0, 0, 0, 16, 0, 0, 0, 1, 1, 0, 0, 0, 0, 0, 0, 0], ActionOutput.new 1) := rfl
  intro v
  have h1 : InstrActions.lenM v = .ok (8 + sum16 (List.replicate n 16), v) := by
    simp only [v, InstrActions.lenM, mapM2_replicate _ _ _ hl, Res.bind_ok]
  refine ⟨h1, ?_⟩
  unfold InstrActions.marshalM
  rw [h1]
  simp only [v, Res.bind_ok, V.u16, InstrHeader.bytes, marshalList_replicate _ _ _ hm]
  split <;> simp

/-- GENUINE LIMIT (uint16 Len() vs. `append`): an InstrActions holding 4096 output actions reports 8 bytes while its
    encoding is 65 544 bytes long.  `SizeOK InstrActions.lenM InstrActions.marshalM` is false; `instrActions_sizeMod`
    is what holds. The same wrap-around affects every kind whose theorem here is a `…_sizeMod`. -/
theorem instrActions_size_counterexample :
    ∃ v l v1 bs v2, InstrActions.lenM v = .ok (l, v1) ∧ InstrActions.marshalM v = .ok (bs, v2) ∧
      l.toNat = 8 ∧ bs.length = 65544 := by
  obtain ⟨h1, h2⟩ := instrActions_replicate 4096
  refine ⟨_, _, _, _, _, h1, h2, ?_, ?_⟩
  · rw [UInt16.toNat_add, sum16_replicate]; rfl
  · simp only [List.length_append, flatten_replicate_length, makeCopy_length, be16_length]; rfl

/-- the Instruction interface -/
theorem instruction_sizeMod (v : V) : SizeMod Instruction.lenM Instruction.marshalM v := by
  intro l v1 bs v2 h1 h2
  unfold Instruction.lenM at h1
  unfold Instruction.marshalM at h2
  split at h1 <;> rename_i hk <;> simp only [hk] at h2
  · exact (instrGotoTable_size v).toMod l v1 bs v2 h1 h2
  · exact (instrWriteMetadata_size v).toMod l v1 bs v2 h1 h2
  · exact instrActions_sizeMod v l v1 bs v2 h1 h2
  · exact (instrMeter_size v).toMod l v1 bs v2 h1 h2
  · exact absurd h1 (by simp)

/-! ### buckets and GroupMod -/

/-- Bucket: the 16 fixed bytes (Length = Len(), weight, watch port, watch group, 4 zero bytes), then exactly the
    encodings of the actions (as Len() left them), complete and in order, then zero padding up to the reported size
    (nothing when the body already reaches it).  For every bucket. -/
theorem bucket_embeds (v : V) (bs : Bytes) (v2 : V) (h2 : Bucket.marshalM v = .ok (bs, v2)) :
    ∃ l0 wt wp wg p as ls as1 bss as2, v = .obj "Bucket" [l0, .num wt, .num wp, .num wg, p, .list as] ∧
      mapM2 Action.lenM as = .ok (ls, as1) ∧ mapM2 Action.marshalM as1 = .ok (bss, as2) ∧
      bs = be16 (round8 (16 + sum16 ls)) ++ be16 (n16 wt) ++ be32 (n32 wp) ++ be32 (n32 wg) ++ zeros 4 ++ bss.flatten ++
        zeros ((round8 (16 + sum16 ls)).toNat - (16 + bss.flatten.length)) := by
  unfold Bucket.marshalM at h2
  obtain ⟨⟨l, v'⟩, hl, h3⟩ := bind_ok_inv _ _ _ h2
  unfold Bucket.lenM at hl
  split at hl
  · rename_i l0 w' wp' wg' p as
    obtain ⟨⟨ls, as1⟩, hm, hl'⟩ := bind_ok_inv _ _ _ hl
    cases hl'
    simp only at h3
    split at h3
    · rename_i heq
      cases heq
      obtain ⟨⟨abs, as2, e⟩, hml, h4⟩ := bind_ok_inv _ _ _ h3
      obtain ⟨bss, hmm, rfl⟩ := marshalList_eq_mapM2 _ _ _ _ _ _ (fun x _ => Action.marshalM_noErr x) hml
      simp only at h4
      split at h4
      · exact absurd h4 (by simp)
      · cases h4
        refine ⟨l0, _, _, _, p, as, ls, as1, bss, as2, rfl, hm, hmm, ?_⟩
        congr 2
        simp only [List.length_append, be16_length, be32_length, zeros_length]
    · exact absurd h3 (by simp)
  · exact absurd hl (by simp)

/-- Bucket: reported size = encoded size, EXACTLY when there is no uint16 wrap-around: for every bucket whose encoding
    is at most 65528 bytes long (65528 is the largest size a bucket can report).  With the padding now written this
    needs no alignment hypothesis on the actions. -/
theorem bucket_size (v : V) (l : UInt16) (v1 : V) (bs : Bytes) (v2 : V)
    (h1 : Bucket.lenM v = .ok (l, v1)) (h2 : Bucket.marshalM v = .ok (bs, v2)) (hfit : bs.length ≤ 65528) :
    bs.length = l.toNat := by
  obtain ⟨l0, wt, wp, wg, p, as, ls, as1, bss, as2, rfl, hm, hmm, rfl⟩ := bucket_embeds v bs v2 h2
  simp only [Bucket.lenM, hm, Res.bind_ok] at h1
  cases h1
  have key := mapM2_flatten_after Action.lenM Action.marshalM _ _ _ _ _ hm hmm
    (fun x _ l y b z hx hy => (action_size y).toMod l y b z (Action.lenM_idem x l y hx) hy)
  simp only [List.length_append, be16_length, be32_length, zeros_length] at hfit ⊢
  have e4 : (16 + sum16 ls : UInt16).toNat = 16 + bss.flatten.length := by
    rw [UInt16.toNat_add, key]
    have : (2:Nat) ^ 16 = 65536 := rfl
    have h16 : (16 : UInt16).toNat = 16 := rfl
    rw [this, h16]; omega
  have e5 := round8_ge (16 + sum16 ls) (by omega)
  omega

/-- …and conversely: if the encoding is longer than the reported size, the body alone already exceeds it (the sizes of
    the actions wrapped around in uint16) -/
theorem bucket_size_ge (v : V) (l : UInt16) (v1 : V) (bs : Bytes) (v2 : V)
    (h1 : Bucket.lenM v = .ok (l, v1)) (h2 : Bucket.marshalM v = .ok (bs, v2)) : l.toNat ≤ bs.length := by
  obtain ⟨l0, wt, wp, wg, p, as, ls, as1, bss, as2, rfl, hm, hmm, rfl⟩ := bucket_embeds v bs v2 h2
  simp only [Bucket.lenM, hm, Res.bind_ok] at h1
  cases h1
  simp only [List.length_append, be16_length, be32_length, zeros_length]
  omega

/-- the size a Bucket reports is a multiple of 8 -/
theorem bucket_len_aligned (v : V) (l : UInt16) (v1 : V) (h : Bucket.lenM v = .ok (l, v1)) : l.toNat % 8 = 0 := by
  unfold Bucket.lenM at h
  split at h
  · obtain ⟨_, _, h'⟩ := bind_ok_inv _ _ _ h
    cases h'
    exact round8_aligned _
  · exact absurd h (by simp)

/-- the former defect is gone: a bucket holding a 4-byte header-only action reports 24 bytes and now encodes to 24
    bytes (20 + 4 bytes of padding) -/
theorem bucket_size_padded_example :
    ∃ v l v1 bs v2, Bucket.lenM v = .ok (l, v1) ∧ Bucket.marshalM v = .ok (bs, v2) ∧ l.toNat = 24 ∧ bs.length = 24 :=
  ⟨.obj "Bucket" [.num 0, .num 0, .num 0, .num 0, .bytes [], .list [ActionHeader.mk Gen.openflow13.ActionType_CopyTtlOut 4]],
   24, _, _, _, rfl, rfl, rfl, rfl⟩

/-- GroupMod, reported size (also written to Header.Length) = encoded size mod 2^16: for DELETE commands (no buckets on
    the wire) always; otherwise when no bucket's size wraps (`BucketFits`: its encoding is at most 65528 bytes) -/
theorem groupMod_size (h cmd t p g : V) (bks : List V) (hfit : ∀ b ∈ bks, BucketFits b) :
    SizeMod GroupMod.lenM GroupMod.marshalM (.obj "GroupMod" [h, cmd, t, p, g, .list bks]) := by
  intro l v1 bs v2 h1 h2
  unfold GroupMod.marshalM at h2
  obtain ⟨⟨l', v'⟩, hl, h3⟩ := bind_ok_inv _ _ _ h2
  rw [h1] at hl
  cases hl
  unfold GroupMod.lenM at h1
  split at h1
  · rename_i hh cmdn tt pp gg bks' heq
    cases heq
    split at h1
    · -- DELETE
      rename_i hdel
      cases h1
      simp only at h3
      split at h3
      · rename_i heq2
        cases heq2
        obtain ⟨hb, hhb, h4⟩ := bind_ok_inv _ _ _ h3
        simp only [hdel, if_true, Res.bind_ok] at h4
        split at h4
        · exact absurd h4 (by simp)
        · cases h4
          have := Header.bytes_length _ _ hhb
          simp [this]
      · exact absurd h3 (by simp)
    · rename_i hdel
      obtain ⟨⟨ls, bks''⟩, hm, h1'⟩ := bind_ok_inv _ _ _ h1
      cases h1'
      simp only at h3
      split at h3
      · rename_i heq2
        cases heq2
        obtain ⟨hb, hhb, h4⟩ := bind_ok_inv _ _ _ h3
        simp only [hdel, if_false] at h4
        obtain ⟨⟨bb, bks3, e⟩, hml, h5⟩ := bind_ok_inv _ _ _ h4
        simp only at h5
        split at h5
        · exact absurd h5 (by simp)
        · cases h5
          have key := marshalList_length_after Bucket.lenM Bucket.marshalCopyM _ _ _ _ _ _ _ hm hml
            (fun x _ => Bucket.marshalCopyM_noErr x)
            (fun x hx l y b z hlx hy => by
              unfold Bucket.marshalCopyM at hy
              obtain ⟨⟨b', z'⟩, hmy, hy'⟩ := bind_ok_inv _ _ _ hy
              cases hy'
              have := bucket_size y l y b z' (Bucket.lenM_idem x l y hlx) hmy (hfit x hx l y b z' hlx hmy)
              have hl := l.toNat_lt
              omega)
          have := Header.bytes_length _ _ hhb
          simp only [List.length_append, this, be16_length, be32_length, List.length_cons, List.length_nil]
          rw [UInt16.toNat_add, key]
          have h2' : (2:Nat) ^ 16 = 65536 := rfl
          have h16 : (16 : UInt16).toNat = 16 := rfl
          rw [h2', h16]; omega
      · exact absurd h3 (by simp)
  · exact absurd h1 (by simp)

/-! ### FlowMod, FlowRemoved -/

/-- FlowMod: header (with Length = Len()), the 40 fixed bytes, the complete Match and — except for the two delete
    commands, where Len() and the encoder both leave them out — the complete instructions.  Reported size = encoded
    size modulo 2^16 for EVERY FlowMod (the encoding is built with `append`). -/
theorem flowMod_sizeMod (v : V) : SizeMod FlowMod.lenM FlowMod.marshalM v := by
  intro l v1 bs v2 h1 h2
  unfold FlowMod.marshalM at h2
  obtain ⟨⟨l', v'⟩, hl, h3⟩ := bind_ok_inv _ _ _ h2
  rw [h1] at hl
  cases hl
  unfold FlowMod.lenM at h1
  split at h1
  · obtain ⟨⟨ml, m'⟩, hml, h1a⟩ := bind_ok_inv _ _ _ h1
    have em := Match.lenM_pure _ _ _ hml
    subst em
    simp only at h1a
    split at h1a
    · -- delete / delete-strict
      rename_i hdel
      cases h1a
      simp only at h3
      split at h3
      · rename_i heq2
        cases heq2
        obtain ⟨hb, hhb, h4⟩ := bind_ok_inv _ _ _ h3
        obtain ⟨⟨⟨mb, m''⟩, e0⟩, hmm, h5⟩ := bind_ok_inv _ _ _ h4
        obtain ⟨hmm', rfl⟩ := catchErr_noErr _ _ _ _ (Match.marshalM_noErr _) hmm
        simp only [hdel, if_true, Res.bind_ok] at h5
        split at h5
        · exact absurd h5 (by simp)
        · cases h5
          have hmlen := C06.match_size _ _ _ _ _ hml hmm'
          have := Header.bytes_length _ _ hhb
          simp only [List.length_append, this, be16_length, be32_length, be64_length, List.length_cons, List.length_nil,
            zeros_length, hmlen]
          rw [UInt16.toNat_add]
          have h2' : (2:Nat) ^ 16 = 65536 := rfl
          have h48 : ((8 : UInt16) + 40).toNat = 48 := rfl
          have := ml.toNat_lt
          rw [h2', h48]; omega
      · exact absurd h3 (by simp)
    · rename_i hdel
      obtain ⟨⟨ls, is'⟩, hm, h1b⟩ := bind_ok_inv _ _ _ h1a
      cases h1b
      simp only at h3
      split at h3
      · rename_i heq2
        cases heq2
        obtain ⟨hb, hhb, h4⟩ := bind_ok_inv _ _ _ h3
        obtain ⟨⟨⟨mb, m''⟩, e0⟩, hmm, h5⟩ := bind_ok_inv _ _ _ h4
        obtain ⟨hmm', rfl⟩ := catchErr_noErr _ _ _ _ (Match.marshalM_noErr _) hmm
        simp only [hdel, if_false] at h5
        obtain ⟨⟨ib, is3, e⟩, hmli, h6⟩ := bind_ok_inv _ _ _ h5
        simp only at h6
        split at h6
        · exact absurd h6 (by simp)
        · cases h6
          have key := marshalList_length_after Instruction.lenM Instruction.marshalM _ _ _ _ _ _ _ hm hmli
            (fun x _ => Instruction.marshalM_noErr x)
            (fun x _ l y b z hlx hy => instruction_sizeMod y l y b z (Instruction.lenM_idem x l y hlx) hy)
          have hmlen := C06.match_size _ _ _ _ _ hml hmm'
          have := Header.bytes_length _ _ hhb
          simp only [List.length_append, this, be16_length, be32_length, be64_length, List.length_cons, List.length_nil,
            zeros_length, hmlen]
          rw [UInt16.toNat_add, UInt16.toNat_add, key]
          have h2' : (2:Nat) ^ 16 = 65536 := rfl
          have h48 : ((8 : UInt16) + 40).toNat = 48 := rfl
          have := ml.toNat_lt
          rw [h2', h48]; omega
      · exact absurd h3 (by simp)
  · exact absurd h1 (by simp)

/-- FlowRemoved: Header.Length = Len() is stored, the buffer is allocated from a second (equal) Len() -/
theorem flowRemoved_size (v : V) : SizeOK FlowRemoved.lenM FlowRemoved.marshalM v := by
  intro l v1 bs v2 h1 h2
  unfold FlowRemoved.marshalM at h2
  obtain ⟨⟨l0, v0⟩, hl0, h3⟩ := bind_ok_inv _ _ _ h2
  rw [h1] at hl0
  cases hl0
  obtain ⟨⟨l', v'⟩, hl1, h4⟩ := bind_ok_inv _ _ _ h3
  obtain ⟨e0, e1, e2⟩ := len_twice FlowRemoved.lenM_pure h1 hl1
  subst e0; subst e1; subst e2
  simp only at h4
  split at h4
  · revert h4; size_fill
  · exact absurd h4 (by simp)

/-! ### common header, Hello -/

/-- the OpenFlow header: 8 bytes -/
theorem header_size (v : V) : SizeOK Header.lenM Header.marshalM v := by
  intro l v1 bs v2 h1 h2
  obtain ⟨rfl, rfl⟩ := same_ok _ _ _ _ h1
  unfold Header.marshalM at h2
  obtain ⟨b, hb, h2⟩ := bind_ok_inv _ _ _ h2
  obtain ⟨rfl, _⟩ := same_ok _ _ _ _ h2
  exact Header.bytes_length _ _ hb

/-- HelloElemHeader: 4 bytes -/
theorem helloElemHeader_size (v : V) : SizeOK HelloElemHeader.lenM HelloElemHeader.marshalM v := by
  intro l v1 bs v2 h1 h2
  obtain ⟨rfl, rfl⟩ := same_ok _ _ _ _ h1
  unfold HelloElemHeader.marshalM at h2
  obtain ⟨b, hb, h2⟩ := bind_ok_inv _ _ _ h2
  obtain ⟨rfl, _⟩ := same_ok _ _ _ _ h2
  exact HelloElemHeader.bytes_length _ _ hb

/-- HelloElemVersionBitmap: 4 + 4 per bitmap rounded up to a multiple of 8 is reported, and exactly that many bytes are
    allocated (header with the stored Length = 4 + 4 per bitmap, the bitmaps, zero padding) -/
theorem helloElemVersionBitmap_size (v : V) : SizeOK HelloElemVersionBitmap.lenM HelloElemVersionBitmap.marshalM v := by
  intro l v1 bs v2 h1 h2
  unfold HelloElemVersionBitmap.lenM at h1
  obtain ⟨l', hl, h1'⟩ := bind_ok_inv _ _ _ h1
  obtain ⟨rfl, rfl⟩ := same_ok _ _ _ _ h1'
  unfold HelloElemVersionBitmap.marshalM at h2
  split at h2
  · simp only [hl, Res.bind_ok] at h2
    revert h2; size_fill
  · exact absurd h2 (by simp)

/-- the size a HelloElemVersionBitmap reports is a multiple of 8, whatever the number of bitmaps -/
theorem helloElemVersionBitmap_len_aligned (v : V) (l : UInt16) (v1 : V)
    (h : HelloElemVersionBitmap.lenM v = .ok (l, v1)) : l.toNat % 8 = 0 := by
  unfold HelloElemVersionBitmap.lenM at h
  obtain ⟨l', hl, h'⟩ := bind_ok_inv _ _ _ h
  obtain ⟨rfl, _⟩ := same_ok _ _ _ _ h'
  unfold HelloElemVersionBitmap.len at hl
  split at hl
  · cases hl
    exact round8_aligned _
  · exact absurd hl (by simp)

/-- NewHelloElemVersionBitmap() (one bitmap): 8 bytes reported, 8 written; with two bitmaps 16 reported, 16 written
    (12 bytes of content — the stored Length — and 4 bytes of padding) -/
theorem helloElemVersionBitmap_size_examples :
    HelloElemVersionBitmap.lenM HelloElemVersionBitmap.new = .ok (8, HelloElemVersionBitmap.new) ∧
    HelloElemVersionBitmap.marshalM HelloElemVersionBitmap.new = .ok ([0, 1, 0, 8, 0, 0, 0, 18], HelloElemVersionBitmap.new) ∧
    (let v : V := .obj "HelloElemVersionBitmap" [.obj "HelloElemHeader" [.num 1, .num 8], .list [.num 18, .num 1]]
     HelloElemVersionBitmap.lenM v = .ok (16, v) ∧
     HelloElemVersionBitmap.marshalM v = .ok ([0, 1, 0, 12, 0, 0, 0, 18, 0, 0, 0, 1, 0, 0, 0, 0],
       .obj "HelloElemVersionBitmap" [.obj "HelloElemHeader" [.num 1, .num 12], .list [.num 18, .num 1]])) :=
  ⟨rfl, rfl, rfl, rfl⟩

/-- the HelloElem interface -/
theorem helloElem_size (v : V) : SizeOK HelloElem.lenM HelloElem.marshalM v := by
  intro l v1 bs v2 h1 h2
  unfold HelloElem.lenM at h1
  unfold HelloElem.marshalM at h2
  split at h1 <;> rename_i hk <;> simp only [hk] at h2
  · exact helloElemVersionBitmap_size v l v1 bs v2 h1 h2
  · exact helloElemHeader_size v l v1 bs v2 h1 h2
  · exact absurd h1 (by simp)

/-- Hello: the buffer is allocated from the first Len() call, which is the reported one -/
theorem hello_size (v : V) : SizeOK Hello.lenM Hello.marshalM v := by
  intro l v1 bs v2 h1 h2
  unfold Hello.marshalM at h2
  obtain ⟨⟨l', v'⟩, hl, h3⟩ := bind_ok_inv _ _ _ h2
  rw [h1] at hl
  cases hl
  obtain ⟨⟨l1, v''⟩, hl1, h4⟩ := bind_ok_inv _ _ _ h3
  simp only at h4
  split at h4
  · revert h4; size_fill
  · exact absurd h4 (by simp)

/-! ### messages of openflow13.go, port.go -/

/-- PhyPort: 42 + len(HWAddr) + len(Name) bytes reported and allocated -/
theorem phyPort_size (v : V) : SizeOK PhyPort.lenM PhyPort.marshalM v := by
  intro l v1 bs v2 h1 h2
  unfold PhyPort.lenM at h1
  obtain ⟨l', hl, h1'⟩ := bind_ok_inv _ _ _ h1
  obtain ⟨rfl, rfl⟩ := same_ok _ _ _ _ h1'
  unfold PhyPort.marshalM at h2
  simp only [hl, Res.bind_ok] at h2
  split at h2
  · revert h2; size_fill
  · exact absurd h2 (by simp)

/-- PortMod: 40 bytes -/
theorem portMod_size (v : V) : SizeOK PortMod.lenM PortMod.marshalM v := by
  intro l v1 bs v2 h1 h2
  obtain ⟨rfl, rfl⟩ := same_ok _ _ _ _ h1
  unfold PortMod.marshalM at h2
  obtain ⟨⟨l', v'⟩, hl, h3⟩ := bind_ok_inv _ _ _ h2
  simp only at h3
  split at h3
  · obtain ⟨hb, hhb, h4⟩ := bind_ok_inv _ _ _ h3
    obtain ⟨b, hfb, h5⟩ := bind_ok_inv _ _ _ h4
    cases h5
    have e1 := Header.bytes_length _ _ hhb
    have e2 := fill_length _ _ _ hfb
    simp only [List.length_append, e1, e2]
    rfl
  · exact absurd h3 (by simp)

/-- SwitchConfig (SetConfig / GetConfigReply): 12 bytes -/
theorem switchConfig_size (v : V) : SizeOK SwitchConfig.lenM SwitchConfig.marshalM v := by
  intro l v1 bs v2 h1 h2
  unfold SwitchConfig.marshalM at h2
  obtain ⟨⟨l', v'⟩, hl, h3⟩ := bind_ok_inv _ _ _ h2
  rw [h1] at hl
  cases hl
  obtain ⟨⟨l1, v''⟩, hl1, h4⟩ := bind_ok_inv _ _ _ h3
  simp only at h4
  split at h4
  · revert h4; size_fill
  · exact absurd h4 (by simp)

/-- ErrorMsg: 12 + len(Data); Header.Length = Len() is stored, the buffer is allocated from a second (equal) Len() -/
theorem errorMsg_size (v : V) : SizeOK ErrorMsg.lenM ErrorMsg.marshalM v := by
  intro l v1 bs v2 h1 h2
  unfold ErrorMsg.marshalM at h2
  obtain ⟨⟨l0, v0⟩, hl0, h3⟩ := bind_ok_inv _ _ _ h2
  rw [h1] at hl0
  cases hl0
  obtain ⟨⟨l', v'⟩, hl1, h4⟩ := bind_ok_inv _ _ _ h3
  obtain ⟨e0, e1, e2⟩ := len_twice ErrorMsg.lenM_pure h1 hl1
  subst e0; subst e1; subst e2
  simp only at h4
  split at h4
  · revert h4; size_fill
  · exact absurd h4 (by simp)

/-- VendorError: 16 + len(Data); Header.Length = Len() is stored, the buffer is allocated from a second (equal) Len() -/
theorem vendorError_size (v : V) : SizeOK VendorError.lenM VendorError.marshalM v := by
  intro l v1 bs v2 h1 h2
  unfold VendorError.marshalM at h2
  obtain ⟨⟨l0, v0⟩, hl0, h3⟩ := bind_ok_inv _ _ _ h2
  rw [h1] at hl0
  cases hl0
  obtain ⟨⟨l', v'⟩, hl1, h4⟩ := bind_ok_inv _ _ _ h3
  obtain ⟨e0, e1, e2⟩ := len_twice VendorError.lenM_pure h1 hl1
  subst e0; subst e1; subst e2
  simp only at h4
  split at h4
  · revert h4; size_fill
  · exact absurd h4 (by simp)

/-- SwitchFeatures: header, DPID, fixed part and ports are written into a buffer allocated from Len() -/
theorem switchFeatures_size (v : V) : SizeOK SwitchFeatures.lenM SwitchFeatures.marshalM v := by
  intro l v1 bs v2 h1 h2
  unfold SwitchFeatures.marshalM at h2
  obtain ⟨⟨l', v'⟩, hl, h3⟩ := bind_ok_inv _ _ _ h2
  rw [h1] at hl
  cases hl
  obtain ⟨⟨l1, v''⟩, hl1, h4⟩ := bind_ok_inv _ _ _ h3
  simp only at h4
  split at h4
  · revert h4; size_fill
  · exact absurd h4 (by simp)

/-- Ethernet frame (PacketIn.Data), for any encoder of the payload: allocated from Len(), the payload is written
    into that buffer -/
theorem ethernet_size (al : V → R (UInt16 × V)) (am : V → R (Bytes × V)) (v : V) :
    SizeOK (PEthernet.lenW al) (PEthernet.marshalW al am) v := by
  intro l v1 bs v2 h1 h2
  unfold PEthernet.marshalW at h2
  obtain ⟨⟨l', v'⟩, hl, h3⟩ := bind_ok_inv _ _ _ h2
  rw [h1] at hl
  cases hl
  simp only at h3
  split at h3
  · split at h3
    all_goals (
      obtain ⟨vb, _, h4⟩ := bind_ok_inv _ _ _ h3
      obtain ⟨buf, hbuf, h5⟩ := bind_ok_inv _ _ _ h4
      have hbl := fill_length _ _ _ hbuf
      split at h5
      · cases h5; exact hbl
      · obtain ⟨⟨b, dat'⟩, _, h6⟩ := bind_ok_inv _ _ _ h5
        obtain ⟨out, hout, h7⟩ := bind_ok_inv _ _ _ h6
        cases h7
        rw [fillFrom_length _ _ _ _ hout]; exact hbl)
  · exact absurd h3 (by simp)

/-- PacketIn: header (Length = Len()), 16 fixed bytes, the complete Match, 2 pad bytes, the complete frame (built with
    `append`; Len() adds in uint16).  The frame is encoded AFTER Len() has run over it, hence the hypothesis that a
    second Len() of the frame agrees with the first (C13; it holds trivially for a frame without payload). -/
theorem packetIn_sizeMod (h b t r ti c m pad eth : V) (hidem : LenIdem PEthernet.lenM eth) :
    SizeMod PacketIn.lenM PacketIn.marshalM (.obj "PacketIn" [h, b, t, r, ti, c, m, pad, eth]) := by
  intro l v1 bs v2 h1 h2
  unfold PacketIn.marshalM at h2
  obtain ⟨⟨l', v'⟩, hl, h3⟩ := bind_ok_inv _ _ _ h2
  rw [h1] at hl
  cases hl
  simp only [PacketIn.lenM] at h1
  obtain ⟨⟨lm, m'⟩, hlm, h1a⟩ := bind_ok_inv _ _ _ h1
  obtain ⟨⟨le, eth'⟩, hle, h1b⟩ := bind_ok_inv _ _ _ h1a
  have em := Match.lenM_pure _ _ _ hlm
  subst em
  cases h1b
  simp only at h3
  split at h3
  · rename_i heq
    cases heq
    obtain ⟨hb, hhb, h4⟩ := bind_ok_inv _ _ _ h3
    obtain ⟨⟨mb, m''⟩, hmm, h5⟩ := bind_ok_inv _ _ _ h4
    obtain ⟨⟨eb, eth''⟩, hem, h6⟩ := bind_ok_inv _ _ _ h5
    cases h6
    rw [msgTryM_noErr _ _ (Match.marshalM_noErr _)] at hmm
    have e1 := Header.bytes_length _ _ hhb
    have e2 := C06.match_size _ _ _ _ _ hlm hmm
    have e3 := ethernet_size _ _ _ _ _ _ _ (hidem _ _ hle) hem
    simp only [List.length_append, e1, e2, e3, be16_length, be32_length, be64_length, makeCopy_length, List.length_cons, List.length_nil]
    simp only [UInt16.toNat_add]
    have h2' : (2:Nat) ^ 16 = 65536 := rfl
    have h8 : (8 : UInt16).toNat = 8 := rfl
    have h16 : (16 : UInt16).toNat = 16 := rfl
    have h2 : (2 : UInt16).toNat = 2 := rfl
    rw [h2', h8, h16, h2]; omega
  · exact absurd h3 (by simp)

/-- PortStatus: header, 8 bytes, the complete PhyPort -/
theorem portStatus_sizeMod (v : V) : SizeMod PortStatus.lenM PortStatus.marshalM v := by
  intro l v1 bs v2 h1 h2
  unfold PortStatus.marshalM at h2
  obtain ⟨⟨l', v'⟩, hl, h3⟩ := bind_ok_inv _ _ _ h2
  rw [h1] at hl
  cases hl
  unfold PortStatus.lenM at h1
  split at h1
  · obtain ⟨⟨lp, d'⟩, hlp, h1a⟩ := bind_ok_inv _ _ _ h1
    cases h1a
    simp only at h3
    split at h3
    · rename_i heq
      cases heq
      obtain ⟨hb, hhb, h4⟩ := bind_ok_inv _ _ _ h3
      obtain ⟨⟨db, d''⟩, hdm, h5⟩ := bind_ok_inv _ _ _ h4
      cases h5
      have ep := PhyPort.lenM_pure _ _ _ hlp
      subst ep
      have e1 := Header.bytes_length _ _ hhb
      have e2 := phyPort_size _ _ _ _ _ hlp hdm
      simp only [List.length_append, e1, e2, List.length_cons, List.length_nil, makeCopy_length]
      simp only [UInt16.toNat_add]
      have h2' : (2:Nat) ^ 16 = 65536 := rfl
      have h8 : (8 : UInt16).toNat = 8 := rfl
      rw [h2', h8] <;> omega
    · exact absurd h3 (by simp)
  · exact absurd h1 (by simp)

/-! ### multipart bodies -/

/-- DescStats: 1056 bytes -/
theorem descStats_size (v : V) : SizeOK DescStats.lenM DescStats.marshalM v := by
  intro l v1 bs v2 h1 h2
  obtain ⟨rfl, rfl⟩ := same_ok _ _ _ _ h1
  unfold DescStats.marshalM at h2
  split at h2
  · revert h2; size_fill
  · exact absurd h2 (by simp)

/-- FlowStatsRequest / AggregateStatsRequest (shared code): 32 fixed bytes and the complete Match -/
theorem statsReq_sizeMod (k : String) (v : V) : SizeMod (StatsReq.lenM k) (StatsReq.marshalM k) v := by
  intro l v1 bs v2 h1 h2
  unfold StatsReq.marshalM at h2
  split at h2
  · split at h2
    · exact absurd h2 (by simp)
    · rename_i hk
      have hk' : _ = k := Decidable.of_not_not hk
      subst hk'
      simp only [StatsReq.lenM, ne_eq, not_true_eq_false, if_false] at h1
      obtain ⟨⟨lm, m'⟩, hlm, h1a⟩ := bind_ok_inv _ _ _ h1
      cases h1a
      obtain ⟨fb, hfb, h3⟩ := bind_ok_inv _ _ _ h2
      obtain ⟨⟨mb, m''⟩, hmm, h4⟩ := bind_ok_inv _ _ _ h3
      cases h4
      have e1 := fill_length _ _ _ hfb
      have e2 := C06.match_size _ _ _ _ _ hlm hmm
      simp only [List.length_append, e1, e2, UInt16.toNat_add]
      have h2' : (2:Nat) ^ 16 = 65536 := rfl
      have h32 : (32 : UInt16).toNat = 32 := rfl
      have := lm.toNat_lt
      rw [h2', h32]; omega
  · exact absurd h2 (by simp)

/-- FlowStatsRequest: instance of `statsReq_sizeMod` -/
theorem flowStatsRequest_sizeMod (v : V) : SizeMod FlowStatsRequest.lenM FlowStatsRequest.marshalM v :=
  statsReq_sizeMod _ v
/-- AggregateStatsRequest: instance of `statsReq_sizeMod` -/
theorem aggregateStatsRequest_sizeMod (v : V) : SizeMod AggregateStatsRequest.lenM AggregateStatsRequest.marshalM v :=
  statsReq_sizeMod _ v

/-- AggregateStats: 24 bytes -/
theorem aggregateStats_size (v : V) : SizeOK AggregateStats.lenM AggregateStats.marshalM v := by
  intro l v1 bs v2 h1 h2
  obtain ⟨rfl, rfl⟩ := same_ok _ _ _ _ h1
  unfold AggregateStats.marshalM at h2
  split at h2
  · revert h2; size_fill
  · exact absurd h2 (by simp)

/-- TableStats: 64 bytes -/
theorem tableStats_size (v : V) : SizeOK TableStats.lenM TableStats.marshalM v := by
  intro l v1 bs v2 h1 h2
  obtain ⟨rfl, rfl⟩ := same_ok _ _ _ _ h1
  unfold TableStats.marshalM at h2
  split at h2
  · revert h2; size_fill
  · exact absurd h2 (by simp)

/-- PortStatsRequest: 8 bytes -/
theorem portStatsRequest_size (v : V) : SizeOK PortStatsRequest.lenM PortStatsRequest.marshalM v := by
  intro l v1 bs v2 h1 h2
  obtain ⟨rfl, rfl⟩ := same_ok _ _ _ _ h1
  unfold PortStatsRequest.marshalM at h2
  split at h2
  · revert h2; size_fill
  · exact absurd h2 (by simp)

/-- PortStats: 104 bytes -/
theorem portStats_size (v : V) : SizeOK PortStats.lenM PortStats.marshalM v := by
  intro l v1 bs v2 h1 h2
  obtain ⟨rfl, rfl⟩ := same_ok _ _ _ _ h1
  unfold PortStats.marshalM at h2
  split at h2
  · split at h2
    · exact absurd h2 (by simp)
    · revert h2; size_fill
  · exact absurd h2 (by simp)

/-- QueueStatsRequest: 8 bytes -/
theorem queueStatsRequest_size (v : V) : SizeOK QueueStatsRequest.lenM QueueStatsRequest.marshalM v := by
  intro l v1 bs v2 h1 h2
  obtain ⟨rfl, rfl⟩ := same_ok _ _ _ _ h1
  unfold QueueStatsRequest.marshalM at h2
  split at h2
  · revert h2; size_fill
  · exact absurd h2 (by simp)

/-- QueueStats: 32 bytes -/
theorem queueStats_size (v : V) : SizeOK QueueStats.lenM QueueStats.marshalM v := by
  intro l v1 bs v2 h1 h2
  obtain ⟨rfl, rfl⟩ := same_ok _ _ _ _ h1
  unfold QueueStats.marshalM at h2
  split at h2
  · revert h2; size_fill
  · exact absurd h2 (by simp)

/-! ### nxt_message.go, bundles.go -/

/-- ControllerID: 8 bytes -/
theorem controllerID_size (v : V) : SizeOK ControllerID.lenM ControllerID.marshalM v := by
  intro l v1 bs v2 h1 h2
  obtain ⟨rfl, rfl⟩ := same_ok _ _ _ _ h1
  unfold ControllerID.marshalM at h2
  split at h2
  · obtain ⟨rfl, _⟩ := same_ok _ _ _ _ h2
    simp
  · exact absurd h2 (by simp)

/-- TLVTableMap: 8 bytes -/
theorem tlvTableMap_size (v : V) : SizeOK TLVTableMap.lenM TLVTableMap.marshalM v := by
  intro l v1 bs v2 h1 h2
  obtain ⟨rfl, rfl⟩ := same_ok _ _ _ _ h1
  unfold TLVTableMap.marshalM at h2
  split at h2
  · revert h2; size_fill
  · exact absurd h2 (by simp)

/-- TLVTableMod: 8 + 8 per map, allocated from Len() -/
theorem tlvTableMod_size (v : V) : SizeOK TLVTableMod.lenM TLVTableMod.marshalM v := by
  intro l v1 bs v2 h1 h2
  unfold TLVTableMod.marshalM at h2
  obtain ⟨⟨l', v'⟩, hl, h3⟩ := bind_ok_inv _ _ _ h2
  rw [h1] at hl
  cases hl
  simp only at h3
  split at h3
  · revert h3; size_fill
  · exact absurd h3 (by simp)

/-- TLVTableReply: 16 + 8 per map, allocated from Len() -/
theorem tlvTableReply_size (v : V) : SizeOK TLVTableReply.lenM TLVTableReply.marshalM v := by
  intro l v1 bs v2 h1 h2
  unfold TLVTableReply.marshalM at h2
  obtain ⟨⟨l', v'⟩, hl, h3⟩ := bind_ok_inv _ _ _ h2
  rw [h1] at hl
  cases hl
  simp only at h3
  split at h3
  · revert h3; size_fill
  · exact absurd h3 (by simp)

/-- BundleControl: 8 bytes -/
theorem bundleControl_size (v : V) : SizeOK BundleControl.lenM BundleControl.marshalM v := by
  intro l v1 bs v2 h1 h2
  obtain ⟨rfl, rfl⟩ := same_ok _ _ _ _ h1
  unfold BundleControl.marshalM at h2
  split at h2
  · revert h2; size_fill
  · exact absurd h2 (by simp)

/-- BundlePropertyExperimenter: 12 + len(data) rounded up to 8, zero padded -/
theorem bundlePropertyExperimenter_size (v : V) :
    SizeOK BundlePropertyExperimenter.lenM BundlePropertyExperimenter.marshalM v := by
  intro l v1 bs v2 h1 h2
  unfold BundlePropertyExperimenter.lenM at h1
  obtain ⟨l', hl, h1'⟩ := bind_ok_inv _ _ _ h1
  obtain ⟨rfl, rfl⟩ := same_ok _ _ _ _ h1'
  unfold BundlePropertyExperimenter.marshalM at h2
  split at h2
  · simp only [hl, Res.bind_ok] at h2
    revert h2; size_fill
  · exact absurd h2 (by simp)

/-! ### containers of arbitrary messages (parameterised by the functions used for the children) -/

/-- PacketOut: allocated from the first Len() call, which is the reported one — for any child functions -/
theorem packetOut_size (cl : MsgLenF) (cm : MsgMarF) (v : V) :
    SizeOK (PacketOut.lenWith cl) (PacketOut.marshalWith cl cm) v := by
  intro l v1 bs v2 h1 h2
  unfold PacketOut.marshalWith at h2
  obtain ⟨⟨l', v'⟩, hl, h3⟩ := bind_ok_inv _ _ _ h2
  rw [h1] at hl
  cases hl
  obtain ⟨⟨l1, v''⟩, hl1, h4⟩ := bind_ok_inv _ _ _ h3
  simp only at h4
  split at h4
  · revert h4; size_fill
  · exact absurd h4 (by simp)

/-- BundleAdd: allocated from Len() — for any child functions -/
theorem bundleAdd_size (cl : MsgLenF) (cm : MsgMarF) (v : V) :
    SizeOK (BundleAdd.lenWith cl) (BundleAdd.marshalWith cl cm) v := by
  intro l v1 bs v2 h1 h2
  unfold BundleAdd.marshalWith at h2
  obtain ⟨⟨l', v'⟩, hl, h3⟩ := bind_ok_inv _ _ _ h2
  rw [h1] at hl
  cases hl
  simp only at h3
  split at h3
  · revert h3; size_fill
  · exact absurd h3 (by simp)

/-- FlowStats: 48 fixed bytes, the complete Match, the complete instructions, in order -/
theorem flowStats_sizeMod (v : V) : SizeMod FlowStats.lenM FlowStats.marshalM v := by
  intro l v1 bs v2 h1 h2
  unfold FlowStats.marshalM at h2
  split at h2
  · rename_i ln t p ds dn pr it ht fl p2 c pc bc mt is
    simp only [FlowStats.lenM] at h1
    obtain ⟨⟨lm, mt'⟩, hlm, h1a⟩ := bind_ok_inv _ _ _ h1
    obtain ⟨⟨ls, is'⟩, hls, h1b⟩ := bind_ok_inv _ _ _ h1a
    cases h1b
    obtain ⟨fb, hfb, h3⟩ := bind_ok_inv _ _ _ h2
    have e1 := fill_length _ _ _ hfb
    simp only at h3
    split at h3
    · rename_i hrev
      have his : is = [] := by simpa using hrev
      subst his
      simp [mapM2] at hls
      obtain ⟨rfl, rfl⟩ := hls
      obtain ⟨⟨mb, mt''⟩, hmm, h4⟩ := bind_ok_inv _ _ _ h3
      cases h4
      have e2 := C06.match_size _ _ _ _ _ hlm hmm
      simp only [List.length_append, e1, e2, UInt16.toNat_add, sum16_nil]
      have h2' : (2:Nat) ^ 16 = 65536 := rfl
      have h48 : (48 : UInt16).toNat = 48 := rfl
      have h0 : (0 : UInt16).toNat = 0 := rfl
      have := lm.toNat_lt
      rw [h2', h48, h0]; omega
    · rename_i last revInit hrev
      have his := reverse_eq_cons _ _ _ hrev
      obtain ⟨⟨mb, mt''⟩, hmm, h4⟩ := bind_ok_inv _ _ _ h3
      obtain ⟨⟨ibs, init⟩, hinit, h5⟩ := bind_ok_inv _ _ _ h4
      obtain ⟨⟨lb, last'⟩, hlast, h6⟩ := bind_ok_inv _ _ _ h5
      cases h6
      rw [msgTryM_noErr _ _ (Match.marshalM_noErr _)] at hmm
      rw [msgTryM_eq _ Instruction.marshalM_noErr] at hinit
      have hall := mapM2_snoc_of_ok _ _ _ _ _ _ _ hinit hlast
      rw [← his] at hall
      have key := mapM2_flatten_same Instruction.lenM Instruction.marshalM _ _ _ _ _ hls hall
        (fun x _ => instruction_sizeMod x)
      have e2 := C06.match_size _ _ _ _ _ hlm hmm
      simp only [List.flatten_append, List.flatten_cons, List.flatten_nil, List.append_nil, List.length_append] at key
      simp only [List.length_append, e1, e2, UInt16.toNat_add, key]
      have h2' : (2:Nat) ^ 16 = 65536 := rfl
      have h48 : (48 : UInt16).toNat = 48 := rfl
      have := lm.toNat_lt
      rw [h2', h48]; omega
  · exact absurd h2 (by simp)

/-- VendorHeader (experimenter message): the buffer is allocated from the SECOND Len() call while the reported size
    (and Header.Length) is the first one.  Equal whenever the payload's Len() is repeatable (C13) and leaves a
    non-nil payload — for any child functions. -/
theorem vendorHeader_size (cl : MsgLenF) (cm : MsgMarF) (h vn t d : V)
    (hidem : LenIdem cl d) (hnn : ∀ l d', cl d = .ok (l, d') → d' ≠ .nil) :
    SizeOK (VendorHeader.lenWith cl) (VendorHeader.marshalWith cl cm) (.obj "VendorHeader" [h, vn, t, d]) := by
  intro l v1 bs v2 h1 h2
  unfold VendorHeader.marshalWith at h2
  obtain ⟨⟨l', v'⟩, hl, h3⟩ := bind_ok_inv _ _ _ h2
  rw [h1] at hl
  cases hl
  obtain ⟨⟨l2, v''⟩, hl2, h4⟩ := bind_ok_inv _ _ _ h3
  have hll : l2 = l := by
    unfold VendorHeader.lenWith at h1
    split at h1
    · cases h1
      simp only [VendorHeader.lenWith] at hl2
      cases hl2; rfl
    · rename_i heq
      cases heq
      obtain ⟨⟨lc, d'⟩, hc, h1a⟩ := bind_ok_inv _ _ _ h1
      cases h1a
      have hc2 := hidem _ _ hc
      have hd' := hnn _ _ hc
      unfold VendorHeader.lenWith at hl2
      split at hl2
      · rename_i heq2
        simp only [V.obj.injEq, List.cons.injEq, true_and, and_true] at heq2
        exact absurd heq2.2.2.2 hd'
      · rename_i heq2
        cases heq2
        rw [hc2] at hl2
        cases hl2; rfl
      · exact absurd hl2 (by simp)
    · exact absurd h1 (by simp)
  subst hll
  simp only at h4
  split at h4
  · split at h4
    · revert h4; size_fill
    · revert h4; size_fill
  · exact absurd h4 (by simp)

/-- MultipartRequest: header, 8 bytes, the complete body (encoded after Len() ran over it) -/
theorem multipartRequest_sizeMod (cl : MsgLenF) (cm : MsgMarF) (h t f p b : V)
    (hc : ∀ l b' bb b'', cl b = .ok (l, b') → cm b' = .ok (bb, b'') → l.toNat = bb.length % 65536) :
    SizeMod (MultipartRequest.lenWith cl) (MultipartRequest.marshalWith cl cm) (.obj "MultipartRequest" [h, t, f, p, b]) := by
  intro l v1 bs v2 h1 h2
  unfold MultipartRequest.marshalWith at h2
  obtain ⟨⟨l', v'⟩, hl, h3⟩ := bind_ok_inv _ _ _ h2
  rw [h1] at hl
  cases hl
  simp only [MultipartRequest.lenWith] at h1
  obtain ⟨⟨lb, b'⟩, hlb, h1a⟩ := bind_ok_inv _ _ _ h1
  cases h1a
  simp only at h3
  split at h3
  · rename_i heq
    cases heq
    obtain ⟨hb, hhb, h4⟩ := bind_ok_inv _ _ _ h3
    obtain ⟨⟨bb, b''⟩, hbm, h5⟩ := bind_ok_inv _ _ _ h4
    cases h5
    have e1 := Header.bytes_length _ _ hhb
    have e2 := hc _ _ _ _ hlb hbm
    simp only [List.length_append, e1, be16_length, zeros_length, UInt16.toNat_add, e2]
    have h2' : (2:Nat) ^ 16 = 65536 := rfl
    have h8 : (8 : UInt16).toNat = 8 := rfl
    rw [h2', h8]; omega
  · exact absurd h3 (by simp)

/-- MultipartReply: header, 8 bytes, the complete records in order (each encoded after Len() ran over it) -/
theorem multipartReply_sizeMod (cl : MsgLenF) (cm : MsgMarF) (h t f p : V) (recs : List V)
    (hne : ∀ y, NoErr (cm y))
    (hc : ∀ b ∈ recs, ∀ l b' bb b'', cl b = .ok (l, b') → cm b' = .ok (bb, b'') → l.toNat = bb.length % 65536) :
    SizeMod (MultipartReply.lenWith cl) (MultipartReply.marshalWith cl cm) (.obj "MultipartReply" [h, t, f, p, .list recs]) := by
  intro l v1 bs v2 h1 h2
  unfold MultipartReply.marshalWith at h2
  obtain ⟨⟨l', v'⟩, hl, h3⟩ := bind_ok_inv _ _ _ h2
  rw [h1] at hl
  cases hl
  simp only [MultipartReply.lenWith] at h1
  obtain ⟨⟨ls, recs'⟩, hls, h1a⟩ := bind_ok_inv _ _ _ h1
  cases h1a
  simp only at h3
  split at h3
  · rename_i heq
    cases heq
    obtain ⟨hb, hhb, h4⟩ := bind_ok_inv _ _ _ h3
    have e1 := Header.bytes_length _ _ hhb
    split at h4
    · rename_i hrev
      have his : recs' = [] := by simpa using hrev
      subst his
      cases h4
      have hl0 := (mapM2_length _ _ _ _ hls).1
      have hrl := (mapM2_length _ _ _ _ hls).2
      have : ls = [] := by
        cases ls with
        | nil => rfl
        | cons a as => simp at hl0; simp [← hl0] at hrl
      subst this
      simp only [List.length_append, e1, be16_length, zeros_length, UInt16.toNat_add, sum16_nil]
      rfl
    · rename_i last revInit hrev
      have his := reverse_eq_cons _ _ _ hrev
      obtain ⟨⟨ibs, init⟩, hinit, h5⟩ := bind_ok_inv _ _ _ h4
      obtain ⟨⟨lb, last'⟩, hlast, h6⟩ := bind_ok_inv _ _ _ h5
      cases h6
      rw [msgTryM_eq _ hne] at hinit
      have hall := mapM2_snoc_of_ok _ _ _ _ _ _ _ hinit hlast
      rw [← his] at hall
      have key := mapM2_flatten_after cl cm _ _ _ _ _ hls hall hc
      simp only [List.flatten_append, List.flatten_cons, List.flatten_nil, List.append_nil, List.length_append] at key
      simp only [List.length_append, e1, be16_length, zeros_length, UInt16.toNat_add, key]
      have h2' : (2:Nat) ^ 16 = 65536 := rfl
      have h8 : (8 : UInt16).toNat = 8 := rfl
      rw [h2', h8]; omega
  · exact absurd h3 (by simp)


/-! ### the container kinds with the knot tied (children through `anyLenM` / `anyMarshalM`) -/

/-- PacketOut with the knot tied -/
theorem packetOut_size' (v : V) : SizeOK PacketOut.lenM PacketOut.marshalM v := packetOut_size _ _ v
/-- BundleAdd with the knot tied -/
theorem bundleAdd_size' (v : V) : SizeOK BundleAdd.lenM BundleAdd.marshalM v := bundleAdd_size _ _ v
/-- VendorHeader with the knot tied: exact size whenever the payload's Len() is repeatable and leaves a non-nil payload -/
theorem vendorHeader_size' (h vn t d : V) (hidem : LenIdem anyLenM d) (hnn : ∀ l d', anyLenM d = .ok (l, d') → d' ≠ .nil) :
    SizeOK VendorHeader.lenM VendorHeader.marshalM (.obj "VendorHeader" [h, vn, t, d]) :=
  vendorHeader_size _ _ h vn t d hidem hnn
/-- an experimenter message without payload (NewNXTVendorHeader, TLV table request): 16 bytes -/
theorem vendorHeader_size_nil (h vn t : V) :
    SizeOK VendorHeader.lenM VendorHeader.marshalM (.obj "VendorHeader" [h, vn, t, .nil]) := by
  intro l v1 bs v2 h1 h2
  unfold VendorHeader.marshalM VendorHeader.marshalWith at h2
  obtain ⟨⟨l', v'⟩, hl, h3⟩ := bind_ok_inv _ _ _ h2
  obtain ⟨⟨l2, v''⟩, hl2, h4⟩ := bind_ok_inv _ _ _ h3
  simp only [VendorHeader.lenM, VendorHeader.lenWith] at h1
  cases h1
  simp only [VendorHeader.lenWith] at hl
  cases hl
  simp only [VendorHeader.lenWith] at hl2
  cases hl2
  simp only at h4
  split at h4
  · split at h4
    · revert h4; size_fill
    · revert h4; size_fill
  · exact absurd h4 (by simp)

/-! ### children embedded intact: the `append`-built containers

  "a container's encoding consists of its own header followed by the complete, unmodified encodings of its children in
  order".  `mapM2 K.marshalM xs = .ok (bss, ys)` says: bss are the encodings MarshalBinary() returns for the children
  xs, one after the other (each child encoded exactly once, ys = the children afterwards). -/

/-- InstrActions: 4 header bytes (type, Length = Len()), 4 pad bytes, then exactly the encodings of the actions (as
    Len() left them), complete and in order — nothing dropped, truncated or overwritten, for any list of actions -/
theorem instrActions_embeds (v : V) (bs : Bytes) (v2 : V) (h2 : InstrActions.marshalM v = .ok (bs, v2)) :
    ∃ t x pad as ls as1 hb bss as2, v = .obj "InstrActions" [.obj "InstrHeader" [t, x], .bytes pad, .list as] ∧
      mapM2 Action.lenM as = .ok (ls, as1) ∧
      InstrHeader.bytes (.obj "InstrHeader" [t, V.u16 (8 + sum16 ls)]) = .ok hb ∧ hb.length = 4 ∧
      mapM2 Action.marshalM as1 = .ok (bss, as2) ∧ bs = hb ++ makeCopy 4 pad ++ bss.flatten := by
  unfold InstrActions.marshalM at h2
  obtain ⟨⟨l, v'⟩, hl, h3⟩ := bind_ok_inv _ _ _ h2
  unfold InstrActions.lenM at hl
  split at hl
  · rename_i h p as
    obtain ⟨⟨ls, as1⟩, hm, hl'⟩ := bind_ok_inv _ _ _ hl
    cases hl'
    simp only at h3
    split at h3
    · rename_i heq
      cases heq
      obtain ⟨hb, hhb, h4⟩ := bind_ok_inv _ _ _ h3
      obtain ⟨⟨abs, as2, e⟩, hml, h5⟩ := bind_ok_inv _ _ _ h4
      obtain ⟨bss, hmm, rfl⟩ := marshalList_eq_mapM2 _ _ _ _ _ _ (fun x _ => Action.marshalM_noErr x) hml
      simp only at h5
      split at h5
      · exact absurd h5 (by simp)
      · cases h5
        exact ⟨_, _, _, as, ls, as1, hb, bss, as2, rfl, hm, hhb, InstrHeader.bytes_length _ _ hhb, hmm, rfl⟩
    · exact absurd h3 (by simp)
  · exact absurd hl (by simp)

/-- FlowMod (commands other than the two deletes): 8 header bytes, 40 fixed bytes, the complete Match, then exactly
    the encodings of the instructions, complete and in order -/
theorem flowMod_embeds (v : V) (bs : Bytes) (v2 : V) (h2 : FlowMod.marshalM v = .ok (bs, v2)) :
    ∃ h ck cm tid cmd it ht pr bid op og fl pad m is l hb mb m',
      v = .obj "FlowMod" [h, ck, cm, tid, .num cmd, it, ht, pr, bid, op, og, fl, pad, m, .list is] ∧
      Header.bytes (Header.setLength l h) = .ok hb ∧ hb.length = 8 ∧ Match.marshalM m = .ok (mb, m') ∧
      ∃ fixed : Bytes, fixed.length = 40 ∧
      ((cmd = Gen.openflow13.FC_DELETE ∨ cmd = Gen.openflow13.FC_DELETE_STRICT) ∧ bs = hb ++ fixed ++ mb ∨
       ¬(cmd = Gen.openflow13.FC_DELETE ∨ cmd = Gen.openflow13.FC_DELETE_STRICT) ∧
         ∃ ls is1 bss is2, mapM2 Instruction.lenM is = .ok (ls, is1) ∧ mapM2 Instruction.marshalM is1 = .ok (bss, is2) ∧
           bs = hb ++ fixed ++ mb ++ bss.flatten) := by
  unfold FlowMod.marshalM at h2
  obtain ⟨⟨l, v'⟩, hl, h3⟩ := bind_ok_inv _ _ _ h2
  unfold FlowMod.lenM at hl
  split at hl
  · rename_i h ck cm tid cmd it ht pr bid op og fl pad m is
    obtain ⟨⟨ml, m1⟩, hml, hl2⟩ := bind_ok_inv _ _ _ hl
    have em := Match.lenM_pure _ _ _ hml
    subst em
    simp only at hl2
    split at hl2
    · rename_i hd
      cases hl2
      simp only at h3
      split at h3
      · rename_i heq
        cases heq
        obtain ⟨hb, hhb, h4⟩ := bind_ok_inv _ _ _ h3
        obtain ⟨⟨⟨mb, m''⟩, e0⟩, hmm, h5⟩ := bind_ok_inv _ _ _ h4
        obtain ⟨hmm', rfl⟩ := catchErr_noErr _ _ _ _ (Match.marshalM_noErr _) hmm
        simp only [hd, if_true, Res.bind_ok] at h5
        split at h5
        · exact absurd h5 (by simp)
        · cases h5
          refine ⟨_, _, _, _, cmd, _, _, _, _, _, _, _, _, _, is, _, hb, mb, m'', rfl, hhb, Header.bytes_length _ _ hhb, hmm',
            ?_, ?_, Or.inl ⟨hd, ?_⟩⟩
          rotate_left 2
          exact List.append_nil _
          simp
      · exact absurd h3 (by simp)
    · rename_i hd
      obtain ⟨⟨ls, is1⟩, hm, hl3⟩ := bind_ok_inv _ _ _ hl2
      cases hl3
      simp only at h3
      split at h3
      · rename_i heq
        cases heq
        obtain ⟨hb, hhb, h4⟩ := bind_ok_inv _ _ _ h3
        obtain ⟨⟨⟨mb, m''⟩, e0⟩, hmm, h5⟩ := bind_ok_inv _ _ _ h4
        obtain ⟨hmm', rfl⟩ := catchErr_noErr _ _ _ _ (Match.marshalM_noErr _) hmm
        simp only [hd, if_false] at h5
        obtain ⟨⟨ib, is2, e⟩, hmli, h6⟩ := bind_ok_inv _ _ _ h5
        obtain ⟨bss, hmi, rfl⟩ := marshalList_eq_mapM2 _ _ _ _ _ _ (fun x _ => Instruction.marshalM_noErr x) hmli
        simp only at h6
        split at h6
        · exact absurd h6 (by simp)
        · cases h6
          refine ⟨_, _, _, _, cmd, _, _, _, _, _, _, _, _, _, is, _, hb, mb, m'', rfl, hhb, Header.bytes_length _ _ hhb, hmm',
            ?_, ?_, Or.inr ⟨hd, ls, is1, bss, is2, hm, hmi, ?_⟩⟩
          rotate_left 2
          rfl
          simp
      · exact absurd h3 (by simp)
  · exact absurd hl (by simp)

/-- a match field reports at most 8 + 255 + 255 bytes (no uint16 wrap-around is possible in MatchField.Len()) -/
theorem matchField_len_le (v : V) (l : UInt16) (v1 : V) (h : MatchField.lenM v = .ok (l, v1)) : l.toNat ≤ 518 := by
  unfold MatchField.lenM at h
  split at h
  · rename_i c f hm ln eid val mask
    obtain ⟨⟨lv, val'⟩, hv, h2⟩ := bind_ok_inv _ _ _ h
    have b1 := C06.payload_len_le _ _ _ hv
    have hn : (if eid = 0 then (4 : UInt16) else 8).toNat ≤ 8 := by split <;> decide
    simp only at h2
    split at h2
    · cases h2
      rw [UInt16.toNat_add]
      have : (2:Nat) ^ 16 = 65536 := rfl
      rw [this]; omega
    · obtain ⟨⟨lm, mask'⟩, hmk, h3⟩ := bind_ok_inv _ _ _ h2
      have b2 := C06.payload_len_le _ _ _ hmk
      cases h3
      simp only
      rw [UInt16.toNat_add, UInt16.toNat_add]
      have : (2:Nat) ^ 16 = 65536 := rfl
      rw [this]; omega
  · exact absurd h (by simp)

/-- ActionSetField embeds its field intact: the encoding is the 4-byte action header, the COMPLETE encoding of the
    match field, and zero padding up to the reported size — for every field (nothing is truncated: the size never
    wraps) -/
theorem actionSetField_embeds (v : V) (bs : Bytes) (v2 : V) (h2 : ActionSetField.marshalM v = .ok (bs, v2)) :
    ∃ h f hb fb f', v = .obj "ActionSetField" [h, f] ∧ ActionHeader.bytes h = .ok hb ∧ hb.length = 4 ∧
      MatchField.marshalM f = .ok (fb, f') ∧ bs = hb ++ fb ++ zeros (bs.length - (4 + fb.length)) := by
  unfold ActionSetField.marshalM at h2
  obtain ⟨⟨l, v'⟩, hl, h3⟩ := bind_ok_inv _ _ _ h2
  unfold ActionSetField.lenM at hl
  split at hl
  · rename_i h f
    obtain ⟨⟨fl, f1⟩, hfl, hl2⟩ := bind_ok_inv _ _ _ hl
    have ef := MatchField.lenM_pure _ _ _ hfl
    subst ef
    cases hl2
    simp only at h3
    obtain ⟨hb, hhb, h4⟩ := bind_ok_inv _ _ _ h3
    obtain ⟨⟨fb, f'⟩, hfm, h5⟩ := bind_ok_inv _ _ _ h4
    obtain ⟨out, hfill, h6⟩ := bind_ok_inv _ _ _ h5
    cases h6
    have e1 := ActionHeader.bytes_length _ _ hhb
    have e2 := C06.matchField_size _ _ _ _ _ hfl hfm
    have e3 := matchField_len_le _ _ _ hfl
    have e4 : (4 + fl : UInt16).toNat = 4 + fl.toNat := by
      rw [UInt16.toNat_add]
      have : (2:Nat) ^ 16 = 65536 := rfl
      have h4 : (4 : UInt16).toNat = 4 := rfl
      rw [this, h4]; omega
    have e5 := round8_ge (4 + fl) (by omega)
    have hx := fill_exact (round8 (4 + fl)).toNat [pCopyAdv hb 4, pCopy fb]
      (by intro p hp; simp only [List.mem_cons, List.mem_nil_iff, or_false] at hp
          rcases hp with rfl | rfl
          · simp only [pCopyAdv, Piece.Tight]; omega
          · simp only [pCopy, Piece.Tight])
      (by simp only [piecesLen, pCopyAdv, pCopy, List.map_cons, List.map_nil, Piece.adv, List.sum_cons, List.sum_nil]; omega)
    rw [hx] at hfill
    cases hfill
    refine ⟨h, _, hb, fb, f', rfl, hhb, e1, hfm, ?_⟩
    simp only [piecesBytes, piecesLen, pCopyAdv, pCopy, List.map_cons, List.map_nil, Piece.bytes, Piece.adv, List.sum_cons,
      List.sum_nil, List.flatten_cons, List.flatten_nil, List.append_nil, List.length_append, e1,
      List.take_of_length_le (Nat.le_of_eq e1), Nat.sub_self, zeros, List.replicate_zero, List.length_replicate, Nat.add_zero]
    congr 2
    omega
  · exact absurd hl (by simp)


/-! ### the hypotheses of the conditional theorems are satisfiable -/

/-- the hypothesis of `groupMod_size` is satisfiable: a bucket with one output action -/
example : BucketFits (.obj "Bucket" [.num 0, .num 0, .num 0, .num 0, .bytes [], .list [ActionOutput.new 1]]) := by
  intro l b1 bytes b2 h1 h2
  have e1 : Bucket.lenM (.obj "Bucket" [.num 0, .num 0, .num 0, .num 0, .bytes [], .list [ActionOutput.new 1]]) =
      .ok (32, .obj "Bucket" [.num 0, .num 0, .num 0, .num 0, .bytes [], .list [ActionOutput.new 1]]) := rfl
  rw [e1] at h1
  cases h1
  obtain ⟨_, _, _, _, _, _, _, _, _, _, heq, hl, hm, rfl⟩ := bucket_embeds _ _ _ h2
  cases heq
  have e2 : mapM2 Action.lenM [ActionOutput.new 1] = .ok ([16], [ActionOutput.new 1]) := rfl
  rw [e2] at hl
  cases hl
  have e3 : mapM2 Action.marshalM [ActionOutput.new 1] =
      .ok ([[0, 0, 0, 16, 0, 0, 0, 1, 1, 0, 0, 0, 0, 0, 0, 0]], [ActionOutput.new 1]) := rfl
  rw [e3] at hm
  cases hm
  decide

/-- the hypothesis of `packetIn_sizeMod` is satisfiable: a frame without payload -/
example : LenIdem PEthernet.lenM PEthernet.new := by
  intro l v1 h
  have e : PEthernet.lenM PEthernet.new = .ok (14, PEthernet.new) := rfl
  rw [e] at h
  cases h
  exact e

/-- the hypotheses of `vendorHeader_size'` are satisfiable: a SetControllerID payload -/
example : LenIdem anyLenM (.obj "ControllerID" [.bytes (zeros 6), .num 7]) ∧
    ∀ l d', anyLenM (.obj "ControllerID" [.bytes (zeros 6), .num 7]) = .ok (l, d') → d' ≠ .nil := by
  have e : anyLenM (.obj "ControllerID" [.bytes (zeros 6), .num 7]) = .ok (8, .obj "ControllerID" [.bytes (zeros 6), .num 7]) := rfl
  constructor
  · intro l v1 h
    rw [e] at h
    cases h
    exact e
  · intro l d' h
    rw [e] at h
    cases h
    intro hc
    cases hc


end OFV.Props.C06b
