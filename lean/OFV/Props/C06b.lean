/-
  C06 (part b) — reported size equals encoded size: actions, instructions, buckets, messages.

  "The size any value reports for itself equals the number of bytes its encoding produces, and a container's
   encoding consists of its own header followed by the complete, unmodified encodings of its children in order."

  * `SizeOK K.lenM K.marshalM v`  : whenever Len() and MarshalBinary() both succeed on v, the encoding has exactly the
    reported number of bytes.  Proved for EVERY value of the kind (no well-formedness hypothesis) unless stated.
  * `SizeMod …` : the same modulo 2^16 — what is true of the kinds that build their encoding with `append`
    (Len() adds in uint16 and wraps, the encoding does not).
  * containers are proved from their children's property, so the statements compose to every nesting.
  * where the property FAILS in the model a concrete counterexample is proved (`…_counterexample`) and the theorem
    with the excluding hypothesis is called `…_partial`.
-/
import OFV.Model.All
import OFV.Lemmas.Size
import OFV.Lemmas.SizeTac
namespace OFV.Props.C06b
open OFV OFV.Go OFV.Model

/-! ### plain OpenFlow actions -/

/-- ActionHeader (CopyTtlOut/In, DecMplsTtl, PopPbb): 4 bytes reported, 4 bytes written -/
theorem actionHeader_size (v : V) : SizeOK ActionHeader.lenM ActionHeader.marshalM v := by
  intro l v1 bs v2 h1 h2
  obtain ⟨rfl, rfl⟩ := same_ok _ _ _ _ h1
  unfold ActionHeader.marshalM at h2
  obtain ⟨b, hb, h2⟩ := bind_ok_inv _ _ _ h2
  obtain ⟨rfl, _⟩ := same_ok _ _ _ _ h2
  exact ActionHeader.bytes_length _ _ hb

/-- ActionMplsTtl: Len/MarshalBinary are the promoted ActionHeader methods (4 bytes; the ttl is never written) -/
theorem actionMplsTtl_size (v : V) : SizeOK ActionMplsTtl.lenM ActionMplsTtl.marshalM v := by
  intro l v1 bs v2 h1 h2
  obtain ⟨rfl, rfl⟩ := same_ok _ _ _ _ h1
  unfold ActionMplsTtl.marshalM at h2
  split at h2
  · obtain ⟨b, hb, h2⟩ := bind_ok_inv _ _ _ h2
    obtain ⟨rfl, _⟩ := same_ok _ _ _ _ h2
    exact ActionHeader.bytes_length _ _ hb
  · exact absurd h2 (by simp)

/-- ActionNwTtl: as ActionMplsTtl -/
theorem actionNwTtl_size (v : V) : SizeOK ActionNwTtl.lenM ActionNwTtl.marshalM v := by
  intro l v1 bs v2 h1 h2
  obtain ⟨rfl, rfl⟩ := same_ok _ _ _ _ h1
  unfold ActionNwTtl.marshalM at h2
  split at h2
  · obtain ⟨b, hb, h2⟩ := bind_ok_inv _ _ _ h2
    obtain ⟨rfl, _⟩ := same_ok _ _ _ _ h2
    exact ActionHeader.bytes_length _ _ hb
  · exact absurd h2 (by simp)

/-- ActionOutput: 16 bytes -/
theorem actionOutput_size (v : V) : SizeOK ActionOutput.lenM ActionOutput.marshalM v := by
  intro l v1 bs v2 h1 h2
  obtain ⟨rfl, rfl⟩ := same_ok _ _ _ _ h1
  unfold ActionOutput.marshalM at h2
  split at h2
  · revert h2; size_fill
  · exact absurd h2 (by simp)

/-- ActionGroup: 8 bytes -/
theorem actionGroup_size (v : V) : SizeOK ActionGroup.lenM ActionGroup.marshalM v := by
  intro l v1 bs v2 h1 h2
  obtain ⟨rfl, rfl⟩ := same_ok _ _ _ _ h1
  unfold ActionGroup.marshalM at h2
  split at h2
  · revert h2; size_fill
  · exact absurd h2 (by simp)

/-- ActionSetqueue: header + queue id = 8 bytes -/
theorem actionSetqueue_size (v : V) : SizeOK ActionSetqueue.lenM ActionSetqueue.marshalM v := by
  intro l v1 bs v2 h1 h2
  obtain ⟨rfl, rfl⟩ := same_ok _ _ _ _ h1
  unfold ActionSetqueue.marshalM at h2
  split at h2
  · obtain ⟨b, hb, h2⟩ := bind_ok_inv _ _ _ h2
    obtain ⟨rfl, _⟩ := same_ok _ _ _ _ h2
    have := ActionHeader.bytes_length _ _ hb
    simp [this]
  · exact absurd h2 (by simp)

/-- ActionDecNwTtl: 8 bytes -/
theorem actionDecNwTtl_size (v : V) : SizeOK ActionDecNwTtl.lenM ActionDecNwTtl.marshalM v := by
  intro l v1 bs v2 h1 h2
  obtain ⟨rfl, rfl⟩ := same_ok _ _ _ _ h1
  unfold ActionDecNwTtl.marshalM at h2
  split at h2
  · obtain ⟨b, hb, h2⟩ := bind_ok_inv _ _ _ h2
    obtain ⟨rfl, _⟩ := same_ok _ _ _ _ h2
    have := ActionHeader.bytes_length _ _ hb
    simp [this]
  · exact absurd h2 (by simp)

/-- ActionPush (PushVlan / PushMpls / PushPbb): 8 bytes -/
theorem actionPush_size (v : V) : SizeOK ActionPush.lenM ActionPush.marshalM v := by
  intro l v1 bs v2 h1 h2
  obtain ⟨rfl, rfl⟩ := same_ok _ _ _ _ h1
  unfold ActionPush.marshalM at h2
  split at h2
  · obtain ⟨b, hb, h2⟩ := bind_ok_inv _ _ _ h2
    obtain ⟨rfl, _⟩ := same_ok _ _ _ _ h2
    have := ActionHeader.bytes_length _ _ hb
    simp [this]
  · exact absurd h2 (by simp)

/-- ActionPopVlan: 8 bytes -/
theorem actionPopVlan_size (v : V) : SizeOK ActionPopVlan.lenM ActionPopVlan.marshalM v := by
  intro l v1 bs v2 h1 h2
  obtain ⟨rfl, rfl⟩ := same_ok _ _ _ _ h1
  unfold ActionPopVlan.marshalM at h2
  split at h2
  · obtain ⟨b, hb, h2⟩ := bind_ok_inv _ _ _ h2
    obtain ⟨rfl, _⟩ := same_ok _ _ _ _ h2
    have := ActionHeader.bytes_length _ _ hb
    simp [this]
  · exact absurd h2 (by simp)

/-- ActionPopMpls: 8 bytes -/
theorem actionPopMpls_size (v : V) : SizeOK ActionPopMpls.lenM ActionPopMpls.marshalM v := by
  intro l v1 bs v2 h1 h2
  obtain ⟨rfl, rfl⟩ := same_ok _ _ _ _ h1
  unfold ActionPopMpls.marshalM at h2
  split at h2
  · obtain ⟨b, hb, h2⟩ := bind_ok_inv _ _ _ h2
    obtain ⟨rfl, _⟩ := same_ok _ _ _ _ h2
    have := ActionHeader.bytes_length _ _ hb
    simp [this]
  · exact absurd h2 (by simp)

/-- ActionSetField: header, the field's encoding, zero padding up to the reported (rounded) size — whatever field -/
theorem actionSetField_size (v : V) : SizeOK ActionSetField.lenM ActionSetField.marshalM v := by
  intro l v1 bs v2 h1 h2
  unfold ActionSetField.marshalM at h2
  obtain ⟨⟨l', v'⟩, hl, h2⟩ := bind_ok_inv _ _ _ h2
  rw [h1] at hl
  cases hl
  simp only at h2
  split at h2
  · revert h2; size_fill
  · exact absurd h2 (by simp)

/-- the size an ActionSetField reports is a multiple of 8 -/
theorem actionSetField_aligned (v : V) (l : UInt16) (v1 : V) (h : ActionSetField.lenM v = .ok (l, v1)) :
    l.toNat % 8 = 0 := by
  unfold ActionSetField.lenM at h
  split at h
  · obtain ⟨⟨fl, f'⟩, _, h⟩ := bind_ok_inv _ _ _ h
    cases h
    exact round8_aligned _
  · exact absurd h (by simp)

/-! ### Nicira extension actions -/

/-- NXActionConjunction: Len() is the stored header length and exactly that many bytes are allocated -/
theorem nxConjunction_size (v : V) : SizeOK NXActionConjunction.lenM NXActionConjunction.marshalM v := by
  nx_size NXActionConjunction.lenM NXActionConjunction.marshalM
/-- NXActionRegLoad: stored header length -/
theorem nxRegLoad_size (v : V) : SizeOK NXActionRegLoad.lenM NXActionRegLoad.marshalM v := by
  nx_size NXActionRegLoad.lenM NXActionRegLoad.marshalM
/-- NXActionRegMove: stored header length -/
theorem nxRegMove_size (v : V) : SizeOK NXActionRegMove.lenM NXActionRegMove.marshalM v := by
  nx_size NXActionRegMove.lenM NXActionRegMove.marshalM
/-- NXActionResubmit: stored header length -/
theorem nxResubmit_size (v : V) : SizeOK NXActionResubmit.lenM NXActionResubmit.marshalM v := by
  nx_size NXActionResubmit.lenM NXActionResubmit.marshalM
/-- NXActionResubmitTable (also the CT variant): stored header length -/
theorem nxResubmitTable_size (v : V) : SizeOK NXActionResubmitTable.lenM NXActionResubmitTable.marshalM v := by
  nx_size NXActionResubmitTable.lenM NXActionResubmitTable.marshalM
/-- NXActionOutputReg: stored header length -/
theorem nxOutputReg_size (v : V) : SizeOK NXActionOutputReg.lenM NXActionOutputReg.marshalM v := by
  nx_size NXActionOutputReg.lenM NXActionOutputReg.marshalM
/-- NXActionCTClear: stored header length -/
theorem nxCTClear_size (v : V) : SizeOK NXActionCTClear.lenM NXActionCTClear.marshalM v := by
  nx_size NXActionCTClear.lenM NXActionCTClear.marshalM
/-- NXActionDecTTL: stored header length -/
theorem nxDecTTL_size (v : V) : SizeOK NXActionDecTTL.lenM NXActionDecTTL.marshalM v := by
  nx_size NXActionDecTTL.lenM NXActionDecTTL.marshalM
/-- NXActionDecTTLCntIDs: stored header length, whatever the number of controller ids -/
theorem nxDecTTLCntIDs_size (v : V) : SizeOK NXActionDecTTLCntIDs.lenM NXActionDecTTLCntIDs.marshalM v := by
  nx_size NXActionDecTTLCntIDs.lenM NXActionDecTTLCntIDs.marshalM

/-- NXActionHeader: 10 bytes -/
theorem nxHeader_size (v : V) : SizeOK NXActionHeader.lenM NXActionHeader.marshalM v := by
  intro l v1 bs v2 h1 h2
  obtain ⟨rfl, rfl⟩ := same_ok _ _ _ _ h1
  unfold NXActionHeader.marshalM at h2
  obtain ⟨b, hb, h2⟩ := bind_ok_inv _ _ _ h2
  obtain ⟨rfl, _⟩ := same_ok _ _ _ _ h2
  exact NXActionHeader.bytes_length _ _ hb

/-- NXActionController: 16 bytes -/
theorem nxController_size (v : V) : SizeOK NXActionController.lenM NXActionController.marshalM v := by
  intro l v1 bs v2 h1 h2
  obtain ⟨rfl, rfl⟩ := same_ok _ _ _ _ h1
  unfold NXActionController.marshalM at h2
  split at h2
  · revert h2; size_fill
  · exact absurd h2 (by simp)

/-- NXActionNote: 10 + len(Note) rounded up to 8, zero padded -/
theorem nxNote_size (v : V) : SizeOK NXActionNote.lenM NXActionNote.marshalM v := by
  intro l v1 bs v2 h1 h2
  unfold NXActionNote.marshalM at h2
  split at h2
  · simp only [NXActionNote.lenM] at h1
    obtain ⟨rfl, rfl⟩ := same_ok _ _ _ _ h1
    revert h2; size_fill
  · exact absurd h2 (by simp)

/-- NXActionRegLoad2: 10 + field rounded up to 8; the buffer is allocated from the FIRST Len() call, which is the reported one -/
theorem nxRegLoad2_size (v : V) : SizeOK NXActionRegLoad2.lenM NXActionRegLoad2.marshalM v := by
  intro l v1 bs v2 h1 h2
  unfold NXActionRegLoad2.marshalM at h2
  obtain ⟨⟨l', v'⟩, hl, h2⟩ := bind_ok_inv _ _ _ h2
  rw [h1] at hl
  cases hl
  obtain ⟨⟨l1, v''⟩, hl1, h2⟩ := bind_ok_inv _ _ _ h2
  simp only at h2
  split at h2
  · revert h2; size_fill
  · exact absurd h2 (by simp)

/-- NXActionCTNAT: the (rounded, stored) length, whatever ranges are present -/
theorem nxCTNAT_size (v : V) : SizeOK NXActionCTNAT.lenM NXActionCTNAT.marshalM v := by
  intro l v1 bs v2 h1 h2
  unfold NXActionCTNAT.marshalM at h2
  obtain ⟨⟨l', v'⟩, hl, h2⟩ := bind_ok_inv _ _ _ h2
  rw [h1] at hl
  cases hl
  simp only at h2
  split at h2
  · revert h2; size_fill
  · exact absurd h2 (by simp)

/-- NXLearnSpecHeader: the stored `length` field (2 for every constructor) -/
theorem nxLearnSpecHeader_size (v : V) : SizeOK NXLearnSpecHeader.lenM NXLearnSpecHeader.marshalM v := by
  intro l v1 bs v2 h1 h2
  unfold NXLearnSpecHeader.marshalM at h2
  obtain ⟨b, hb, h2⟩ := bind_ok_inv _ _ _ h2
  obtain ⟨rfl, _⟩ := same_ok _ _ _ _ h2
  unfold NXLearnSpecHeader.bytes at hb
  split at hb
  · simp only [NXLearnSpecHeader.lenM] at h1
    obtain ⟨rfl, rfl⟩ := same_ok _ _ _ _ h1
    exact fill_length _ _ _ hb
  · exact absurd hb (by simp)

/-- NXLearnSpecField: 6 bytes -/
theorem nxLearnSpecField_size (v : V) : SizeOK NXLearnSpecField.lenM NXLearnSpecField.marshalM v := by
  intro l v1 bs v2 h1 h2
  obtain ⟨rfl, rfl⟩ := same_ok _ _ _ _ h1
  unfold NXLearnSpecField.marshalM at h2
  split at h2
  · revert h2; size_fill
  · exact absurd h2 (by simp)

/-- NXLearnSpec: header + source (value or field) + destination, for all four spec shapes -/
theorem nxLearnSpec_size (v : V) : SizeOK NXLearnSpec.lenM NXLearnSpec.marshalM v := by
  intro l v1 bs v2 h1 h2
  unfold NXLearnSpec.lenM at h1
  obtain ⟨l', hl, h1⟩ := bind_ok_inv _ _ _ h1
  obtain ⟨rfl, rfl⟩ := same_ok _ _ _ _ h1
  unfold NXLearnSpec.marshalM at h2
  simp only [hl, Res.bind_ok] at h2
  split at h2
  · obtain ⟨hb, _, h2⟩ := bind_ok_inv _ _ _ h2
    obtain ⟨⟨sd, k⟩, _, h2⟩ := bind_ok_inv _ _ _ h2
    simp only at h2
    split at h2
    · revert h2; size_fill
    · revert h2; size_fill
  · exact absurd h2 (by simp)

/-- NXActionLearn: 32 + specs rounded up to 8, whatever the specs -/
theorem nxLearn_size (v : V) : SizeOK NXActionLearn.lenM NXActionLearn.marshalM v := by
  intro l v1 bs v2 h1 h2
  unfold NXActionLearn.lenM at h1
  obtain ⟨l', hl, h1⟩ := bind_ok_inv _ _ _ h1
  obtain ⟨rfl, rfl⟩ := same_ok _ _ _ _ h1
  unfold NXActionLearn.marshalM at h2
  simp only [hl, Res.bind_ok] at h2
  split at h2
  · revert h2; size_fill
  · exact absurd h2 (by simp)

/-- NXActionConnTrack: Len() is the stored header length; the buffer is allocated from it and the nested actions are
    copied into it — for ANY encoder `sub` of the nested actions -/
theorem nxConnTrack_size (sub : V → R (Bytes × V)) (v : V) :
    SizeOK NXActionConnTrack.lenM (NXActionConnTrack.marshalWith sub) v := by
  intro l v1 bs v2 h1 h2
  unfold NXActionConnTrack.marshalWith at h2
  split at h2
  · simp only [NXActionConnTrack.lenM] at h1
    obtain ⟨l', hl, h1⟩ := bind_ok_inv _ _ _ h1
    obtain ⟨rfl, rfl⟩ := same_ok _ _ _ _ h1
    simp only [hl, Res.bind_ok] at h2
    obtain ⟨hb, _, h2⟩ := bind_ok_inv _ _ _ h2
    obtain ⟨buf, hbuf, h2⟩ := bind_ok_inv _ _ _ h2
    obtain ⟨⟨buf', acts'⟩, hacts, h2⟩ := bind_ok_inv _ _ _ h2
    cases h2
    rw [NXActionConnTrack.marshalActs_length _ _ _ _ _ _ hacts]
    exact fill_length _ _ _ hbuf
  · exact absurd h2 (by simp)

/-! ### the Action interface -/

/-- every action kind except conntrack, through the interface dispatch -/
theorem action_size_leaf (v : V) : SizeOK Action.lenM Action.marshalLeaf v := by
  intro l v1 bs v2 h1 h2
  unfold Action.lenM at h1
  unfold Action.marshalLeaf at h2
  split at h1 <;> rename_i hk <;> simp only [hk] at h2
  · exact actionHeader_size v l v1 bs v2 h1 h2
  · exact actionOutput_size v l v1 bs v2 h1 h2
  · exact actionSetqueue_size v l v1 bs v2 h1 h2
  · exact actionGroup_size v l v1 bs v2 h1 h2
  · exact actionMplsTtl_size v l v1 bs v2 h1 h2
  · exact actionNwTtl_size v l v1 bs v2 h1 h2
  · exact actionDecNwTtl_size v l v1 bs v2 h1 h2
  · exact actionPush_size v l v1 bs v2 h1 h2
  · exact actionPopVlan_size v l v1 bs v2 h1 h2
  · exact actionPopMpls_size v l v1 bs v2 h1 h2
  · exact actionSetField_size v l v1 bs v2 h1 h2
  · exact nxHeader_size v l v1 bs v2 h1 h2
  · exact nxConjunction_size v l v1 bs v2 h1 h2
  · exact absurd h2 (by simp)
  · exact nxRegLoad_size v l v1 bs v2 h1 h2
  · exact nxRegMove_size v l v1 bs v2 h1 h2
  · exact nxResubmit_size v l v1 bs v2 h1 h2
  · exact nxResubmitTable_size v l v1 bs v2 h1 h2
  · exact nxCTNAT_size v l v1 bs v2 h1 h2
  · exact nxOutputReg_size v l v1 bs v2 h1 h2
  · exact nxCTClear_size v l v1 bs v2 h1 h2
  · exact nxDecTTL_size v l v1 bs v2 h1 h2
  · exact nxDecTTLCntIDs_size v l v1 bs v2 h1 h2
  · exact nxLearn_size v l v1 bs v2 h1 h2
  · exact nxNote_size v l v1 bs v2 h1 h2
  · exact nxRegLoad2_size v l v1 bs v2 h1 h2
  · exact nxController_size v l v1 bs v2 h1 h2
  · exact absurd h1 (by simp)

/-- Action.Len() / Action.MarshalBinary() through the interface, at every nesting bound: whatever action a value
    holds (any kind, any field values, conntrack actions nested to any depth), the encoding has exactly the size
    the action reports -/
theorem action_sizeD (d : Nat) (v : V) : SizeOK Action.lenM (Action.marshalD d) v := by
  intro l v1 bs v2 h1 h2
  cases d with
  | zero => exact absurd h2 (by simp [Action.marshalD])
  | succ d =>
    unfold Action.marshalD at h2
    split at h2
    · rename_i hk
      unfold Action.lenM at h1
      simp only [hk] at h1
      exact nxConnTrack_size _ v l v1 bs v2 h1 h2
    · exact action_size_leaf v l v1 bs v2 h1 h2

/-- the Action interface: reported size = encoded size, for every action value -/
theorem action_size (v : V) : SizeOK Action.lenM Action.marshalM v := action_sizeD _ v

/-- NXActionConnTrack with the knot tied -/
theorem nxConnTrack_size' (v : V) : SizeOK NXActionConnTrack.lenM NXActionConnTrack.marshalM v :=
  nxConnTrack_size _ v

end OFV.Props.C06b
