/-
  OFV.Props.C10d — the premises of the inbound stream models (C10, C10b), regenerated from util/stream.go on every run.
  The transition systems of `OFV.Model.Stream` publish a connection failure once and deliver messages from one place only;
  these theorems pin the source sites that make that an accurate picture (Gen.utilSites: every channel operation,
  goroutine start, conn.Read / conn.Write / parser call in package util).
-/
import OFV.Gen.Facts
namespace OFV.Props.C10d
open OFV

/-- the failure is published ONCE: package util sends on the Error channel at exactly one site, (the reader, which
    then leaves its loop): wherever that site lives, there is no second place — shutdown, parser, writer — from which the same
    connection failure could be published again -/
theorem C10d_single_error_site :
    (Gen.utilSites.filter (fun x => x.2.1 = "send" ∧ x.2.2 = "m.Error")).length = 1 := by
  decide

/-- one reader: exactly one `conn.Read` site, inside `MessageStream.inbound`, started by exactly one `go m.inbound()` -/
theorem C10d_single_reader :
    (Gen.utilSites.filter (fun x => x.2.1 = "connread")).length = 1 ∧
    (Gen.utilSites.filter (fun x => x.2.1 = "go" ∧ x.2.2 = "m.inbound")).length = 1 := by
  decide

/-- messages reach the consumer from one place: the only send on `m.Inbound` is in `MessageStream.parse`, right after the
    only call of the parser; full buffers are handed over only by the reader and taken only by the parsers -/
theorem C10d_single_delivery_site :
    (Gen.utilSites.filter (fun x => x.2.1 = "send" ∧ x.2.2 = "m.Inbound")).length = 1 ∧
    (Gen.utilSites.filter (fun x => x.2.1 = "parse")).length = 1 ∧
    (Gen.utilSites.filter (fun x => x.2.1 = "send" ∧ x.2.2 = "m.pool.Full")).length = 1 ∧
    (Gen.utilSites.filter (fun x => x.2.1 = "recv" ∧ x.2.2 = "m.pool.Full")).length = 1 := by
  decide

/-- a buffer goes back to the pool only from the parser that owned it, after it was reset (C10b_reset_needed shows the
    reset is necessary): one send on `m.pool.Empty` outside the pool's constructor, preceded by the one `Reset` site -/
theorem C10d_recycle_site :
    (Gen.utilSites.filter (fun x => x.2.1 = "send" ∧ x.2.2 = "m.pool.Empty")).length = 1 ∧
    (Gen.utilSites.filter (fun x => x.2.1 = "reset" ∧ x.1 ≠ "Buffer.UnmarshalBinary")).length = 1 := by
  decide

end OFV.Props.C10d
