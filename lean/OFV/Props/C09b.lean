/-
  C09b — packet headers round-trip, part 2: the two kinds C09 left open, DHCP and LLDP (Go: protocol/dhcp.go, lldp.go).

  Neither kind has `MarshalBinary`/`UnmarshalBinary` in Go; the codec is `Read(b)` (encode into the caller's buffer) and
  `Write(b)` (decode).  The model has `readBuf` (content of the bytes.Buffer that `Read` assembles) and `write`.

  LLDP
  1. LANE: the 7-bit type and the 9-bit length packed into the TLV header word come back exactly (`lane_tlv_type_len`,
     `lane_tlv_word`); the range hypotheses are needed (`lane_tlv_needs_range`, `lane_tlv_type_needs_range`: the encoder
     shifts and adds without masking, a `Length` ≥ 512 spills into the type, the top bit of an 8-bit type is lost).
  2. TLVs: `chassistlv_roundtrip`, `porttlv_roundtrip` (`TlvRoundTrip`: decode(encode v) = v into any allocated receiver,
     no error, bytes consumed = bytes produced = `3 + Length`, trailing bytes ignored, `TlvRoundTrip.reencode`),
     `ttltlv_roundtrip` (4 bytes).  Well-formed: type < 128, `Length` < 512, `Length` = len(Data) — the library's own
     convention: the subtype byte is not counted.  `chassistlv_long_data_not_preserved`: 512 data bytes do not survive.
  3. FRAME: NOT a round trip for any value — three genuine defects of lldp.go, each proved for ALL well-formed frames:
       * `lldp_read_not_a_frame` / `lldp_read_ignores_ttl`: `LLDP.Read` copies Chassis, Port and Chassis AGAIN each to
         offset 0 of the buffer, never writes the TTL TLV, and reports `2·|chassis| + |port|` bytes;
       * `lldp_write_own_frame_fails`: `LLDP.Write` of Chassis ++ Port ++ TTL (standard TTL header) returns an error;
         `lldp_write_clobbers_chassis`: with an End-of-LLDPDU TLV behind it, it "succeeds" but returns the TTL TLV misread
         as the Chassis TLV; `lldp_write_ttl_untouched`: it never assigns the TTL field, whatever the input;
       * `lldp_len_constant` / `lldp_len_wrong`: `Len()` is the constant 15.
     Concrete, replayable witness with all bytes: `lldp_not_roundtrip`.  Strongest positive statement:
     `lldp_write_partial` (`Write` is the exact inverse of a frame of THREE Chassis-format TLVs: third → Chassis,
     second → Port).

  DHCP
  4. ONE OPTION: `dhcpoption_roundtrip` (tag, length byte, data; `Len()` = bytes; decoded alone or in front of the end
     marker) for every well-formed non-pad option; `dhcpoption_codec` / `dhcpoption_pad_roundtrip_partial`: a pad option
     (the single byte 0) round-trips as value and bytes, but `Len()` says 2 — DEFECT `dhcpoption_pad_len_overreports`.
     Why the predicate is what it is: `dhcpoption_end_lost` (the end marker is never returned by the decoder),
     `dhcpoption_pad_carries_no_data`, `dhcpoption_254_refused`.
  5. OPTION LIST: `dhcpoptions_roundtrip` — any mix of pads and ordinary options, order preserved, with or without the
     end marker and trailing bytes behind it; `dhcpoptions_after_end_lost`: options behind an end marker inside the list
     are encoded but never decoded.
  6. MESSAGE: `dhcp_roundtrip` — `RoundTripPrefix kDHCP v` in the C09 sense for every well-formed message without pad
     options: all fixed fields, the four addresses, hardware address and its length, server name, file, magic cookie,
     options; `Len()` = bytes; bytes behind the end marker are ignored (`dhcp_roundtrip_count`: `Write` reports `Len()`
     bytes).  `dhcp_roundtrip_partial`: with pad options everything holds except the size clause — `Len()` = bytes + number
     of pads (DEFECT witness `dhcp_pad_len_overreports`: 254 bytes on the wire, `Len()` = 255).
     Classes of values with every field in range that do NOT round-trip, each with the strongest true statement:
       * `dhcp_hwaddr_len_partial`: len(ClientHWAddr) ≠ HardwareLen ≤ 16 — the address comes back cut / zero-padded to
         HardwareLen; witness `dhcp_new_hwaddr_not_preserved`: the value `NewDHCP(…)` returns (16-byte address, length 0);
       * `dhcp_hwlen_over_16_rejected`: HardwareLen > 16 is encoded but the decoder rejects its own output;
       * `dhcp_explicit_end_partial`: an explicit end option at the end of the list is dropped (same bytes as without);
       * `dhcp_ip16_breaks_frame`: a 16-byte `net.IP` in an address field is written in full (no `To4()`), shifting every
         later field — the decoder rejects the result.
     Neither side pads a message to a minimum size; zero bytes behind the end marker of a received message are ignored
     (the `tail` in every decoder statement), zero bytes in front of it are pad options and come back as such.

  Helper lemmas: `OFV.Lemmas.RoundTripDhcp`, `OFV.Lemmas.RoundTripLldp`.
-/
import OFV.Props.C09
import OFV.Lemmas.RoundTripDhcp
import OFV.Lemmas.RoundTripLldp
namespace OFV.Props.C09b
open OFV OFV.Go OFV.Model OFV.Lemmas.Lane OFV.Lemmas.RT OFV.Props.C09

/-! ## 1. LLDP — lane theorems for the packed type/length word -/

/-- TLV header word: the type (7 bits) and the length (9 bits) each come back exactly, so neither disturbs the other
    (the subtype travels in a byte of its own). -/
theorem lane_tlv_type_len (ty : UInt8) (ln : UInt16) (h1 : ty.toNat < 128) (h2 : ln.toNat < 512) :
    PTLV.unpackType (PTLV.packTypeLen ty ln) = ty ∧ PTLV.unpackLen (PTLV.packTypeLen ty ln) = ln :=
  tlv_lane ty ln h1 h2

example : PTLV.unpackType (PTLV.packTypeLen 127 511) = 127 ∧ PTLV.unpackLen (PTLV.packTypeLen 127 511) = 511 :=
  lane_tlv_type_len 127 511 (by decide) (by decide)

/-- the word is `type · 512 + length` -/
theorem lane_tlv_word (ty : UInt8) (ln : UInt16) (h1 : ty.toNat < 128) (h2 : ln.toNat < 512) :
    (PTLV.packTypeLen ty ln).toNat = ty.toNat * 512 + ln.toNat := tlv_pack_toNat ty ln h1 h2

example : (PTLV.packTypeLen 3 2).toNat = 3 * 512 + 2 := lane_tlv_word 3 2 (by decide) (by decide)

/-- the range hypotheses are needed (the Go encoder shifts and adds without masking): a length of 512 — `Length` is a
    uint16 field, and a 512-byte `Data` is consistent with it — comes back as type + 1, length 0 -/
theorem lane_tlv_needs_range :
    PTLV.unpackType (PTLV.packTypeLen 1 512) = 2 ∧ PTLV.unpackLen (PTLV.packTypeLen 1 512) = 0 := by decide

/-- … and the top bit of an 8-bit type is shifted out: type 129 comes back as type 1 (the length is not disturbed) -/
theorem lane_tlv_type_needs_range :
    PTLV.unpackType (PTLV.packTypeLen 129 5) = 1 ∧ PTLV.unpackLen (PTLV.packTypeLen 129 5) = 5 := by decide

/-! ## 2. LLDP — round trips of the TLVs -/

/-- `TlvRoundTrip kind v` (kinds with `Read`/`Write` instead of `MarshalBinary`/`UnmarshalBinary`): `Read` produces
    bytes `bs` (and, being a value-receiver computation, leaves `v` alone); `Write` of `bs` — followed by anything — into
    any allocated receiver of the kind gives back exactly `v`, reports no error, and reports `bs.length` bytes consumed. -/
def TlvRoundTrip (kind : String) (v : V) : Prop :=
  ∃ bs, PTLV.readBuf kind v = .ok bs ∧
    ∀ r1 r2 r3 r4 tail, PTLV.write kind (.obj kind [r1, r2, r3, r4]) (bs ++ tail) = .ok (bs.length, false, v)

/-- re-encoding the decoded TLV reproduces the bytes -/
theorem TlvRoundTrip.reencode {kind : String} {v : V} (h : TlvRoundTrip kind v) :
    ∃ bs, PTLV.readBuf kind v = .ok bs ∧ ∀ r1 r2 r3 r4 tail n e w,
      PTLV.write kind (.obj kind [r1, r2, r3, r4]) (bs ++ tail) = .ok (n, e, w) → PTLV.readBuf kind w = .ok bs := by
  obtain ⟨bs, h1, h2⟩ := h
  refine ⟨bs, h1, ?_⟩
  intro r1 r2 r3 r4 tail n e w hw
  rw [h2] at hw
  cases hw
  exact h1

/-- well-formed Chassis-ID TLV: type 7 bits, length 9 bits, subtype 8 bits, `Length` = number of data bytes (the
    library's convention: the subtype byte is NOT counted, unlike IEEE 802.1AB) -/
def ChassisTLV.WFv : V → Prop
  | .obj "p.ChassisTLV" [.num ty, .num ln, .num st, .bytes d] => ty < 128 ∧ ln < 512 ∧ st < 256 ∧ d.length = ln
  | _ => False
instance : DecidablePred ChassisTLV.WFv := fun v => by unfold ChassisTLV.WFv; split <;> infer_instance

/-- well-formed Port-ID TLV: as the Chassis-ID TLV -/
def PortTLV.WFv : V → Prop
  | .obj "p.PortTLV" [.num ty, .num ln, .num st, .bytes d] => ty < 128 ∧ ln < 512 ∧ st < 256 ∧ d.length = ln
  | _ => False
instance : DecidablePred PortTLV.WFv := fun v => by unfold PortTLV.WFv; split <;> infer_instance

/-- well-formed TTL TLV: type 7 bits, length 9 bits (not interpreted by the codec), seconds 16 bits -/
def TTLTLV.WFv : V → Prop
  | .obj "p.TTLTLV" [.num ty, .num ln, .num secs] => ty < 128 ∧ ln < 512 ∧ secs < 65536
  | _ => False
instance : DecidablePred TTLTLV.WFv := fun v => by unfold TTLTLV.WFv; split <;> infer_instance

/-- shape of a well-formed Chassis-ID TLV -/
theorem chassis_shape (v : V) (h : ChassisTLV.WFv v) : ∃ ty ln st d,
    v = .obj "p.ChassisTLV" [.num ty, .num ln, .num st, .bytes d] ∧ ty < 128 ∧ ln < 512 ∧ st < 256 ∧ d.length = ln := by
  unfold ChassisTLV.WFv at h
  split at h
  · exact ⟨_, _, _, _, rfl, h⟩
  · exact h.elim

/-- shape of a well-formed Port-ID TLV -/
theorem port_shape (v : V) (h : PortTLV.WFv v) : ∃ ty ln st d,
    v = .obj "p.PortTLV" [.num ty, .num ln, .num st, .bytes d] ∧ ty < 128 ∧ ln < 512 ∧ st < 256 ∧ d.length = ln := by
  unfold PortTLV.WFv at h
  split at h
  · exact ⟨_, _, _, _, rfl, h⟩
  · exact h.elim

/-- a well-formed Chassis-ID TLV round-trips through its `3 + Length` bytes; trailing bytes are ignored -/
theorem chassistlv_roundtrip (v : V) (h : ChassisTLV.WFv v) : TlvRoundTrip "p.ChassisTLV" v := by
  unfold ChassisTLV.WFv at h
  split at h
  · rename_i ty ln st d
    obtain ⟨h1, h2, h3, h4⟩ := h
    refine ⟨tlvWire ty ln st d, rfl, ?_⟩
    intro r1 r2 r3 r4 tail
    rw [tlv_write_ok "p.ChassisTLV" ty ln st d tail r1 r2 r3 r4 h1 h2 h3 h4, tlvWire_length, h4]
  · exact h.elim

example : ChassisTLV.WFv (.obj "p.ChassisTLV" [.num 1, .num 6, .num 4, .bytes [0, 0x1b, 0x21, 0xaa, 0xbb, 0xcc]]) := by
  decide

/-- a well-formed Port-ID TLV round-trips through its `3 + Length` bytes; trailing bytes are ignored -/
theorem porttlv_roundtrip (v : V) (h : PortTLV.WFv v) : TlvRoundTrip "p.PortTLV" v := by
  unfold PortTLV.WFv at h
  split at h
  · rename_i ty ln st d
    obtain ⟨h1, h2, h3, h4⟩ := h
    refine ⟨tlvWire ty ln st d, rfl, ?_⟩
    intro r1 r2 r3 r4 tail
    rw [tlv_write_ok "p.PortTLV" ty ln st d tail r1 r2 r3 r4 h1 h2 h3 h4, tlvWire_length, h4]
  · exact h.elim

example : PortTLV.WFv (.obj "p.PortTLV" [.num 2, .num 3, .num 5, .bytes [0x65, 0x74, 0x68]]) := by decide

/-- the reported size of a TLV round trip is `3 + Length` -/
theorem tlv_roundtrip_size (kind : String) (ty ln st : Nat) (d : Bytes) (h : d.length = ln) :
    ∃ bs, PTLV.readBuf kind (.obj kind [.num ty, .num ln, .num st, .bytes d]) = .ok bs ∧ bs.length = 3 + ln := by
  refine ⟨tlvWire ty ln st d, ?_, by rw [tlvWire_length, h]⟩
  simp [PTLV.readBuf, tlvWire]

example : ([0x65, 0x74, 0x68] : Bytes).length = 3 := rfl

/-- a well-formed TTL TLV round-trips through its 4 bytes; trailing bytes are ignored -/
theorem ttltlv_roundtrip (v : V) (h : TTLTLV.WFv v) :
    ∃ bs, PTLV.ttlReadBuf v = .ok bs ∧ bs.length = 4 ∧
      ∀ r1 r2 r3 tail, PTLV.ttlWrite (.obj "p.TTLTLV" [r1, r2, r3]) (bs ++ tail) = .ok (4, false, v) := by
  unfold TTLTLV.WFv at h
  split at h
  · rename_i ty ln secs
    obtain ⟨h1, h2, h3⟩ := h
    exact ⟨ttlWire ty ln secs, rfl, rfl, fun r1 r2 r3 tail => ttl_write_ok ty ln secs tail r1 r2 r3 h1 h2 h3⟩
  · exact h.elim

example : TTLTLV.WFv (.obj "p.TTLTLV" [.num 3, .num 2, .num 120]) := by decide

/-- the range conditions of the TLV predicates are needed: a Chassis TLV whose 512 data bytes are consistent with its
    `Length` field (a uint16) encodes to a header word that reads "type 2, length 0"; decoding gives a different TLV
    and reports 3 bytes consumed instead of 515 -/
theorem chassistlv_long_data_not_preserved (d : Bytes) (hd : d.length = 512) :
    ∃ bs, PTLV.readBuf "p.ChassisTLV" (.obj "p.ChassisTLV" [.num 1, .num 512, .num 4, .bytes d]) = .ok bs ∧
      bs.length = 515 ∧
      PTLV.write "p.ChassisTLV" (.obj "p.ChassisTLV" [.num 0, .num 0, .num 0, .bytes []]) bs
        = .ok (3, false, .obj "p.ChassisTLV" [.num 2, .num 0, .num 4, .bytes []]) := by
  refine ⟨tlvWire 1 512 4 d, rfl, by rw [tlvWire_length, hd], ?_⟩
  have hp : be16 (PTLV.packTypeLen (n8 1) (n16 512)) = [4, 0] := by decide
  simp only [tlvWire, hp]
  simp [PTLV.write, PTLV.unpackLen, PTLV.unpackType, V.u8, V.u16]
  rfl


example : (zeros 512).length = 512 := zeros_length 512

/-! ## 3. LLDP — the frame (Chassis, Port, TTL): NOT a round trip

  `LLDP.Read` copies each TLV to the START of the caller's buffer (Chassis, Port, then Chassis a second time) and
  never writes the TTL TLV; `LLDP.Write` parses Chassis, Port and then Chassis AGAIN from the third TLV, and never
  parses the TTL; `LLDP.Len()` is the constant 15.  So no class of LLDP values round-trips.  Proved below: what each
  of the two functions does for ALL well-formed values, the concrete counterexample, and the strongest positive
  statement that is true (`lldp_write_partial`). -/

/-- well-formed LLDP frame value: three well-formed TLVs -/
def LLDP.WFv : V → Prop
  | .obj "p.LLDP" [c, p, t] => ChassisTLV.WFv c ∧ PortTLV.WFv p ∧ TTLTLV.WFv t
  | _ => False
instance : DecidablePred LLDP.WFv := fun v => by unfold LLDP.WFv; split <;> infer_instance

/-- the bytes an LLDP frame with these three TLVs has on the wire: Chassis, Port, TTL in order -/
def lldpWire : V → Bytes
  | .obj "p.LLDP" [.obj "p.ChassisTLV" [.num ty, .num ln, .num st, .bytes d],
      .obj "p.PortTLV" [.num ty', .num ln', .num st', .bytes d'], .obj "p.TTLTLV" [.num t3, .num l3, .num secs]] =>
    tlvWire ty ln st d ++ (tlvWire ty' ln' st' d' ++ ttlWire t3 l3 secs)
  | _ => []

/-- a standard minimal frame: chassis id = MAC address 00:1b:21:aa:bb:cc, port id = interface name "eth", TTL 120 s -/
def lldpEx : V := .obj "p.LLDP" [.obj "p.ChassisTLV" [.num 1, .num 6, .num 4, .bytes [0, 0x1b, 0x21, 0xaa, 0xbb, 0xcc]],
  .obj "p.PortTLV" [.num 2, .num 3, .num 5, .bytes [0x65, 0x74, 0x68]], .obj "p.TTLTLV" [.num 3, .num 2, .num 120]]

example : LLDP.WFv lldpEx := by decide

/-- its 19 bytes on the wire -/
example : lldpWire lldpEx = [2, 6, 4, 0, 0x1b, 0x21, 0xaa, 0xbb, 0xcc, 4, 3, 5, 0x65, 0x74, 0x68, 6, 2, 0, 120] := by
  decide

/-- shape of a well-formed LLDP value -/
theorem lldp_shape (v : V) (h : LLDP.WFv v) :
    ∃ ty ln st d ty' ln' st' d' t3 l3 secs, v = .obj "p.LLDP" [.obj "p.ChassisTLV" [.num ty, .num ln, .num st, .bytes d],
      .obj "p.PortTLV" [.num ty', .num ln', .num st', .bytes d'], .obj "p.TTLTLV" [.num t3, .num l3, .num secs]] ∧
      (ty < 128 ∧ ln < 512 ∧ st < 256 ∧ d.length = ln) ∧ (ty' < 128 ∧ ln' < 512 ∧ st' < 256 ∧ d'.length = ln') ∧
      (t3 < 128 ∧ l3 < 512 ∧ secs < 65536) := by
  unfold LLDP.WFv at h
  split at h
  · rename_i c p t
    obtain ⟨hc, hp, ht⟩ := h
    unfold ChassisTLV.WFv at hc
    unfold PortTLV.WFv at hp
    unfold TTLTLV.WFv at ht
    split at hc
    · split at hp
      · split at ht
        · exact ⟨_, _, _, _, _, _, _, _, _, _, _, rfl, hc, hp, ht⟩
        · exact ht.elim
      · exact hp.elim
    · exact hc.elim
  · exact h.elim

/-- `LLDP.Len()` is 15 for every value, while a well-formed frame has `3 + Length + 3 + Length' + 4` bytes: the
    reported size is right only when the two data lengths happen to add up to 5 -/
theorem lldp_len_constant (v : V) : PLLDP.lenM v = .ok (15, v) := rfl

/-- … its size on the wire -/
theorem lldp_wire_length (ty ln st : Nat) (d : Bytes) (ty' ln' st' : Nat) (d' : Bytes) (t3 l3 secs : Nat) :
    (lldpWire (.obj "p.LLDP" [.obj "p.ChassisTLV" [.num ty, .num ln, .num st, .bytes d],
      .obj "p.PortTLV" [.num ty', .num ln', .num st', .bytes d'], .obj "p.TTLTLV" [.num t3, .num l3, .num secs]])).length
      = (3 + d.length) + (3 + d'.length) + 4 := by
  simp only [lldpWire, List.length_append, tlvWire_length, ttlWire_length]
  omega

/-- DEFECT witness (size): the example frame has 19 bytes but `Len()` says 15 -/
theorem lldp_len_wrong : PLLDP.lenM lldpEx = .ok (15, lldpEx) ∧ (lldpWire lldpEx).length = 19 := ⟨rfl, by decide⟩

/-- `LLDP.Read` never looks at the TTL TLV -/
theorem lldp_read_ignores_ttl (c p t t' : V) (b : Bytes) :
    PLLDP.read (.obj "p.LLDP" [c, p, t]) b = PLLDP.read (.obj "p.LLDP" [c, p, t']) b := rfl

/-- DEFECT (encoder), for ALL well-formed frames and every buffer that is long enough for the frame: `LLDP.Read` reports
    `2·|chassis| + |port|` bytes, and what it leaves at the start of the buffer is the Chassis TLV alone — each TLV was
    copied to offset 0, the last copy (Chassis again) wins; the TTL TLV is never written.  The buffer does not begin with
    the frame `lldpWire v`. -/
theorem lldp_read_not_a_frame (v : V) (h : LLDP.WFv v) (b : Bytes) (hb : (lldpWire v).length ≤ b.length) :
    ∃ cb pb b', PLLDP.read v b = .ok (b', cb.length + pb.length + cb.length) ∧
      b'.length = b.length ∧ b'.take cb.length = cb ∧ (lldpWire v).take (cb.length + pb.length) = cb ++ pb ∧
      3 ≤ cb.length ∧ 3 ≤ pb.length ∧ (lldpWire v).length = cb.length + pb.length + 4 := by
  obtain ⟨ty, ln, st, d, ty', ln', st', d', t3, l3, secs, rfl, hc, hp, _⟩ := lldp_shape v h
  simp only [lldpWire, List.length_append, tlvWire_length, ttlWire_length] at hb
  refine ⟨tlvWire ty ln st d, tlvWire ty' ln' st' d',
    copyInto (copyInto (copyInto b (tlvWire ty ln st d)) (tlvWire ty' ln' st' d')) (tlvWire ty ln st d),
    ?_, ?_, ?_, ?_, ?_, ?_, ?_⟩
  · rw [lldp_read_long ty ln st d ty' ln' st' d' _ b (by omega) (by omega)]
    simp only [tlvWire_length]
  · simp only [copyInto_length]
  · rw [copyInto_prefix _ _ (by simp only [copyInto_length, tlvWire_length]; omega)]
    exact take_prefix _ _ _ rfl
  · simp only [lldpWire]
    rw [← List.append_assoc]
    exact take_prefix _ _ _ (by simp)
  · rw [tlvWire_length]; omega
  · rw [tlvWire_length]; omega
  · simp only [lldpWire, List.length_append, tlvWire_length, ttlWire_length]; omega

example : LLDP.WFv lldpEx ∧ (lldpWire lldpEx).length ≤ (zeros 32).length := by decide

/-- `LLDP.Write` never assigns the TTL TLV: whatever the input, the receiver's TTL field is returned unchanged -/
theorem lldp_write_ttl_untouched (c p t : V) (b : Bytes) (w : V) (n : Nat)
    (h : PLLDP.write (.obj "p.LLDP" [c, p, t]) b = .ok (w, n)) : ∃ c' p', w = .obj "p.LLDP" [c', p', t] := by
  unfold PLLDP.write at h
  obtain ⟨⟨m, e1, ch1⟩, _, g1⟩ := bind_ok_inv _ _ _ h
  simp only at g1
  split at g1
  · split at g1
    · cases g1
    · cases g1; exact ⟨_, _, rfl⟩
  · obtain ⟨⟨o, e2, pt1⟩, _, g2⟩ := bind_ok_inv _ _ _ g1
    simp only at g2
    split at g2
    · split at g2
      · cases g2
      · cases g2; exact ⟨_, _, rfl⟩
    · obtain ⟨⟨q, e3, ch2⟩, _, g3⟩ := bind_ok_inv _ _ _ g2
      simp only at g3
      split at g3
      · cases g3
      · cases g3; exact ⟨_, _, rfl⟩

/-- an LLDP value given by the fields of its three TLVs -/
def lldpOf (ty ln st : Nat) (d : Bytes) (ty' ln' st' : Nat) (d' : Bytes) (t3 l3 secs : Nat) : V :=
  .obj "p.LLDP" [.obj "p.ChassisTLV" [.num ty, .num ln, .num st, .bytes d],
    .obj "p.PortTLV" [.num ty', .num ln', .num st', .bytes d'], .obj "p.TTLTLV" [.num t3, .num l3, .num secs]]

/-- the receiver `new(LLDP)` with allocated TLVs (the zero value of the kind table) -/
def lldpZero : V := .obj "p.LLDP" [.obj "p.ChassisTLV" [.num 0, .num 0, .num 0, .bytes []],
  .obj "p.PortTLV" [.num 0, .num 0, .num 0, .bytes []], .obj "p.TTLTLV" [.num 0, .num 0, .num 0]]

/-- `lldpZero` is the zero value registered for the kind -/
example : (kindsProto.lookup "p.LLDP").map (·.zero) = some lldpZero := rfl

/-- DEFECT (decoder), for ALL well-formed frames with the standard TTL header (type 3, length 2): `LLDP.Write` of the
    frame's own wire bytes (Chassis, Port, TTL, nothing behind) FAILS — the third TLV is parsed as a Chassis TLV, which
    wants a subtype byte and two data bytes where only the two bytes of the seconds are left -/
theorem lldp_write_own_frame_fails (c1 c2 c3 c4 p1 p2 p3 p4 ttl : V) (ty ln st : Nat) (d : Bytes) (ty' ln' st' : Nat)
    (d' : Bytes) (secs : Nat) (h : LLDP.WFv (lldpOf ty ln st d ty' ln' st' d' 3 2 secs)) :
    PLLDP.write (.obj "p.LLDP" [.obj "p.ChassisTLV" [c1, c2, c3, c4], .obj "p.PortTLV" [p1, p2, p3, p4], ttl])
      (lldpWire (lldpOf ty ln st d ty' ln' st' d' 3 2 secs)) = .err := by
  simp only [lldpOf, LLDP.WFv, ChassisTLV.WFv, PortTLV.WFv, TTLTLV.WFv] at h
  obtain ⟨⟨h1, h2, h3, h4⟩, ⟨g1, g2, g3, g4⟩, _, _, hs⟩ := h
  simp only [lldpOf, lldpWire, ttl_as_chassis_short]
  have hlt : (n16 secs).toNat / 256 < 256 := by have := (n16 secs).toNat_lt; omega
  exact lldp_write_third_short c1 c2 c3 c4 p1 p2 p3 p4 ttl ty ln st d ty' ln' st' d' 3 2 _ [lo16 (n16 secs)]
    h1 h2 h3 h4 g1 g2 g3 g4 (by omega) (by omega) hlt (by simp)

example : LLDP.WFv (lldpOf 1 6 4 [0, 0x1b, 0x21, 0xaa, 0xbb, 0xcc] 2 3 5 [0x65, 0x74, 0x68] 3 2 120) := by decide

/-- DEFECT (decoder), for ALL such frames terminated by the End-of-LLDPDU TLV (two zero bytes) and anything behind it:
    `LLDP.Write` succeeds, but the Chassis TLV it returns is the TTL TLV misread — type 3, length 2, subtype = high byte
    of the seconds, data = low byte of the seconds and the first zero byte — the real Chassis TLV is lost, and the TTL
    field is not decoded at all (it keeps the receiver's value `ttl`) -/
theorem lldp_write_clobbers_chassis (c1 c2 c3 c4 p1 p2 p3 p4 ttl : V) (ty ln st : Nat) (d : Bytes) (ty' ln' st' : Nat)
    (d' : Bytes) (secs : Nat) (h : LLDP.WFv (lldpOf ty ln st d ty' ln' st' d' 3 2 secs)) (tail : Bytes) :
    PLLDP.write (.obj "p.LLDP" [.obj "p.ChassisTLV" [c1, c2, c3, c4], .obj "p.PortTLV" [p1, p2, p3, p4], ttl])
        (lldpWire (lldpOf ty ln st d ty' ln' st' d' 3 2 secs) ++ (0 :: 0 :: tail))
      = .ok (.obj "p.LLDP" [.obj "p.ChassisTLV" [.num 3, .num 2, .num (secs / 256), .bytes [n8 (secs % 256), 0]],
          .obj "p.PortTLV" [.num ty', .num ln', .num st', .bytes d'], ttl],
          (lldpWire (lldpOf ty ln st d ty' ln' st' d' 3 2 secs)).length + 1) := by
  simp only [lldpOf, LLDP.WFv, ChassisTLV.WFv, PortTLV.WFv, TTLTLV.WFv] at h
  obtain ⟨⟨h1, h2, h3, h4⟩, ⟨g1, g2, g3, g4⟩, _, _, hs⟩ := h
  simp only [lldpOf, lldpWire, List.append_assoc, ttl_as_chassis]
  have hn := n16_toNat secs hs
  have hlt : (n16 secs).toNat / 256 < 256 := by omega
  rw [lldp_write_three c1 c2 c3 c4 p1 p2 p3 p4 ttl ty ln st d ty' ln' st' d' 3 2 _ [lo16 (n16 secs), 0] (0 :: tail)
    h1 h2 h3 h4 g1 g2 g3 g4 (by omega) (by omega) hlt rfl]
  simp only [hn, lo16, n8, List.length_append, tlvWire_length, ttlWire_length, h4, g4]
  apply ok_count
  omega

/-- DEFECT witness with the bytes spelled out (replayable on the Go library): the frame `lldpEx` — chassis id MAC
    00:1b:21:aa:bb:cc, port id "eth", TTL 120 s; 19 bytes `02 06 04 00 1b 21 aa bb cc | 04 03 05 65 74 68 | 06 02 00 78` —
    (a) `Read` into a 32-byte zero buffer reports 24 bytes and leaves only the Chassis TLV at the start of the buffer;
    (b) `Write` of the 19 wire bytes fails;
    (c) `Write` of the 19 wire bytes + End-of-LLDPDU (`00 00`) "succeeds" with 20 bytes and returns a Chassis TLV
        (type 3, length 2, subtype 0, data `78 00`) that is the TTL TLV misread, and an undecoded TTL (still 0) -/
theorem lldp_not_roundtrip :
    PLLDP.read lldpEx (zeros 32) = .ok ([2, 6, 4, 0, 0x1b, 0x21, 0xaa, 0xbb, 0xcc] ++ zeros 23, 24) ∧
    PLLDP.write lldpZero [2, 6, 4, 0, 0x1b, 0x21, 0xaa, 0xbb, 0xcc, 4, 3, 5, 0x65, 0x74, 0x68, 6, 2, 0, 120] = .err ∧
    PLLDP.write lldpZero [2, 6, 4, 0, 0x1b, 0x21, 0xaa, 0xbb, 0xcc, 4, 3, 5, 0x65, 0x74, 0x68, 6, 2, 0, 120, 0, 0]
      = .ok (.obj "p.LLDP" [.obj "p.ChassisTLV" [.num 3, .num 2, .num 0, .bytes [120, 0]],
          .obj "p.PortTLV" [.num 2, .num 3, .num 5, .bytes [0x65, 0x74, 0x68]], .obj "p.TTLTLV" [.num 0, .num 0, .num 0]], 20) :=
  ⟨rfl, rfl, rfl⟩

/-- the strongest decoder statement that is true: `LLDP.Write` is the exact inverse of a frame made of THREE
    Chassis-format TLVs — it returns the third as Chassis, the second as Port, reports the bytes of all three, and
    ignores trailing bytes.  Missing with respect to C09: the first TLV is dropped (overwritten by the third), the TTL
    TLV is never decoded, so `Write (wire v) = v` holds for no well-formed `v`; `Read` produces no frame; `Len` is
    constant. -/
theorem lldp_write_partial (c1 c2 c3 c4 p1 p2 p3 p4 ttl : V) (a : V) (ha : ChassisTLV.WFv a) (p : V) (hp : PortTLV.WFv p)
    (c : V) (hc : ChassisTLV.WFv c) (tail : Bytes) :
    ∃ ab pb cb, PTLV.readBuf "p.ChassisTLV" a = .ok ab ∧ PTLV.readBuf "p.PortTLV" p = .ok pb ∧
      PTLV.readBuf "p.ChassisTLV" c = .ok cb ∧
      PLLDP.write (.obj "p.LLDP" [.obj "p.ChassisTLV" [c1, c2, c3, c4], .obj "p.PortTLV" [p1, p2, p3, p4], ttl])
          (ab ++ (pb ++ (cb ++ tail)))
        = .ok (.obj "p.LLDP" [c, p, ttl], ab.length + pb.length + cb.length) := by
  obtain ⟨ty, ln, st, d, rfl, a1, a2, a3, a4⟩ := chassis_shape a ha
  obtain ⟨ty', ln', st', d', rfl, b1, b2, b3, b4⟩ := port_shape p hp
  obtain ⟨ty2, ln2, st2, d2, rfl, e1, e2, e3, e4⟩ := chassis_shape c hc
  refine ⟨_, _, _, rfl, rfl, rfl, ?_⟩
  have := lldp_write_three c1 c2 c3 c4 p1 p2 p3 p4 ttl ty ln st d ty' ln' st' d' ty2 ln2 st2 d2 tail
    a1 a2 a3 a4 b1 b2 b3 b4 e1 e2 e3 e4
  simp only [tlvWire] at this ⊢
  rw [this]
  apply ok_count
  simp [a4, b4, e4]
  omega


/-! ## 4. DHCP — one option -/

/-- well-formed DHCP option value: an 8-bit tag other than the end marker 255 (the end marker is written by the
    encoder itself and never returned by the decoder, `dhcpoption_end_lost`), at most 253 data bytes (so that the length
    fits the length byte and `DHCPMarshalOption` accepts it), and a pad option (tag 0) carries no data (nothing but the
    tag byte reaches the wire, `dhcpoption_pad_carries_no_data`) -/
def DhcpOption.WFv : V → Prop
  | .obj "p.dhcpoption" [.num t, .bytes d] => t < 255 ∧ d.length ≤ 253 ∧ (t = 0 → d = [])
  | _ => False
instance : DecidablePred DhcpOption.WFv := fun v => by unfold DhcpOption.WFv; split <;> infer_instance

/-- the predicate is the one the helper lemmas are stated with -/
theorem dhcpoption_wf_iff (o : V) : DhcpOption.WFv o ↔ DhcpOptOK o := by
  unfold DhcpOption.WFv DhcpOptOK
  split <;> simp

/-- not a pad option -/
def DhcpOption.NoPad (o : V) : Prop := dhcpPad o = 0
instance : DecidablePred DhcpOption.NoPad := fun o => by unfold DhcpOption.NoPad; infer_instance

/-- `DhcpOptionRoundTrip o`: `DHCPMarshalOption o` succeeds with bytes `bs`; `Len()` reports `bs.length`;
    `DHCPParseOptions` of `bs` — alone (with any spare capacity behind the slice), or followed by the end marker and
    arbitrary further bytes inside the slice — returns exactly `[o]` -/
def DhcpOptionRoundTrip (o : V) : Prop :=
  ∃ bs l, PDhcpOpt.marshalOption o = .ok bs ∧ PDhcpOpt.len o = .ok l ∧ bs.length = l.toNat ∧
    (∀ spare, PDhcpOpt.parseOptions ⟨bs ++ spare, bs.length⟩ = .ok [o]) ∧
    ∀ tail n, bs.length < n → PDhcpOpt.parseOptions ⟨bs ++ (255 :: tail), n⟩ = .ok [o]

/-- value and bytes of ANY well-formed option (pad included) round-trip; `Len()` reports the bytes plus 1 for a pad -/
theorem dhcpoption_codec (o : V) (h : DhcpOption.WFv o) :
    ∃ bs l, PDhcpOpt.marshalOption o = .ok bs ∧ PDhcpOpt.len o = .ok l ∧ l.toNat = bs.length + dhcpPad o ∧
      (∀ spare, PDhcpOpt.parseOptions ⟨bs ++ spare, bs.length⟩ = .ok [o]) ∧
      ∀ tail n, bs.length < n → PDhcpOpt.parseOptions ⟨bs ++ (255 :: tail), n⟩ = .ok [o] := by
  have hk := (dhcpoption_wf_iff o).mp h
  have hall : ∀ x ∈ [o], DhcpOptOK x := by intro x hx; simp at hx; subst hx; exact hk
  obtain ⟨w1, _⟩ := dhcp_wire_len o hk
  refine ⟨dhcpOptWire o, n16 (dhcpOptLen o), dhcp_marshalOption o hk, ?_, ?_, ?_, ?_⟩
  · obtain ⟨t, d, rfl, _, _, _⟩ := dhcp_opt_shape o hk
    rfl
  · obtain ⟨t, d, rfl, _, h2, _⟩ := dhcp_opt_shape o hk
    rw [n16_toNat _ (by simp [dhcpOptLen]; omega)]
    omega
  · intro spare
    have := dhcp_parse_exact [o] hall spare
    rwa [dhcp_one] at this
  · intro tail n hn
    have := dhcp_parse_end [o] hall tail n (by rwa [dhcp_one])
    rwa [dhcp_one] at this

/-- a well-formed option that is not a pad round-trips: tag, length byte, data; `Len()` = bytes on the wire -/
theorem dhcpoption_roundtrip (o : V) (h : DhcpOption.WFv o) (hp : DhcpOption.NoPad o) : DhcpOptionRoundTrip o := by
  obtain ⟨bs, l, h1, h2, h3, h4, h5⟩ := dhcpoption_codec o h
  unfold DhcpOption.NoPad at hp
  exact ⟨bs, l, h1, h2, by omega, h4, h5⟩

example : DhcpOption.WFv (.obj "p.dhcpoption" [.num 61, .bytes [1, 0xaa, 0xbb, 0xcc, 0xdd, 0xee, 0xff]]) ∧
    DhcpOption.NoPad (.obj "p.dhcpoption" [.num 61, .bytes [1, 0xaa, 0xbb, 0xcc, 0xdd, 0xee, 0xff]]) := by decide

/-- pad option: value and byte round-trip hold (it is the single byte 0 and comes back as a pad option), but the size
    clause of C09 fails — see `dhcpoption_pad_len_overreports`.  Missing with respect to `DhcpOptionRoundTrip`:
    `bs.length = Len()`. -/
theorem dhcpoption_pad_roundtrip_partial :
    PDhcpOpt.marshalOption (.obj "p.dhcpoption" [.num 0, .bytes []]) = .ok [0] ∧
    (∀ spare, PDhcpOpt.parseOptions ⟨[0] ++ spare, 1⟩ = .ok [.obj "p.dhcpoption" [.num 0, .bytes []]]) ∧
    ∀ tail n, 1 < n → PDhcpOpt.parseOptions ⟨[0] ++ (255 :: tail), n⟩ = .ok [.obj "p.dhcpoption" [.num 0, .bytes []]] := by
  obtain ⟨bs, l, h1, _, _, h4, h5⟩ := dhcpoption_codec (.obj "p.dhcpoption" [.num 0, .bytes []]) (by decide)
  have e : PDhcpOpt.marshalOption (.obj "p.dhcpoption" [.num 0, .bytes []]) = .ok [0] := rfl
  rw [e] at h1
  cases h1
  exact ⟨rfl, h4, h5⟩

/-- DEFECT witness (size): `dhcpoption.Len()` is `len(data) + 2` whatever the tag, but a pad option is ONE byte on the
    wire: reported size 2, bytes written 1 (and consumed 1) -/
theorem dhcpoption_pad_len_overreports :
    PDhcpOpt.len (.obj "p.dhcpoption" [.num 0, .bytes []]) = .ok 2 ∧
    PDhcpOpt.marshalOption (.obj "p.dhcpoption" [.num 0, .bytes []]) = .ok [0] := ⟨rfl, rfl⟩

/-- why `DhcpOption.WFv` excludes tag 255: the end marker is one byte on the wire (`Len()` says 2), and
    `DHCPParseOptions` stops at it without returning it — the option is lost -/
theorem dhcpoption_end_lost :
    PDhcpOpt.marshalOption (.obj "p.dhcpoption" [.num 255, .bytes []]) = .ok [255] ∧
    PDhcpOpt.len (.obj "p.dhcpoption" [.num 255, .bytes []]) = .ok 2 ∧
    PDhcpOpt.parseOptions (Slice.exact [255]) = .ok [] := ⟨rfl, rfl, rfl⟩

/-- why a pad option must have no data: only the tag byte reaches the wire, the data is dropped -/
theorem dhcpoption_pad_carries_no_data :
    PDhcpOpt.marshalOption (.obj "p.dhcpoption" [.num 0, .bytes [1, 2]]) = .ok [0] ∧
    PDhcpOpt.parseOptions (Slice.exact [0]) = .ok [.obj "p.dhcpoption" [.num 0, .bytes []]] := ⟨rfl, rfl⟩

/-- why the data is limited to 253 bytes: `DHCPMarshalOption` refuses 254 (although 254 and 255 fit the length byte) -/
theorem dhcpoption_254_refused (d : Bytes) (h : d.length = 254) :
    PDhcpOpt.marshalOption (.obj "p.dhcpoption" [.num 12, .bytes d]) = .err := by
  simp [PDhcpOpt.marshalOption, PDhcpOpt.tag, PDhcpOpt.data, PDhcpOpt.isPadOrEnd, h, n8,
    Gen.protocol.DHCP_OPT_PAD, Gen.protocol.DHCP_OPT_END]

example : (zeros 254).length = 254 := zeros_length 254

/-! ## 5. DHCP — option lists -/

/-- a list of well-formed options (pads and ordinary options mixed in any order) is encoded as the concatenation of
    the options' encodings in order, and `DHCPParseOptions` returns exactly the list, in order — from the bytes alone, or
    from the bytes followed by the end marker and anything behind it -/
theorem dhcpoptions_roundtrip (os : List V) (h : ∀ o ∈ os, DhcpOption.WFv o) :
    ∃ bs, PDHCP.optBytes os = .ok bs ∧ bs.length + (os.map dhcpPad).sum = (os.map dhcpOptLen).sum ∧
      (∀ spare, PDhcpOpt.parseOptions ⟨bs ++ spare, bs.length⟩ = .ok os) ∧
      ∀ tail n, bs.length < n → PDhcpOpt.parseOptions ⟨bs ++ (255 :: tail), n⟩ = .ok os := by
  have hk : ∀ o ∈ os, DhcpOptOK o := fun o ho => (dhcpoption_wf_iff o).mp (h o ho)
  obtain ⟨e1, _, _, e4, _⟩ := dhcp_opts_enc os hk
  exact ⟨dhcpOptsWire os, e1, e4, dhcp_parse_exact os hk, dhcp_parse_end os hk⟩

example : ∀ o ∈ [V.obj "p.dhcpoption" [.num 53, .bytes [1]], .obj "p.dhcpoption" [.num 0, .bytes []],
    .obj "p.dhcpoption" [.num 55, .bytes [1, 3, 6]]], DhcpOption.WFv o := by decide

/-- the list above on the wire, and back -/
example :
    PDHCP.optBytes [.obj "p.dhcpoption" [.num 53, .bytes [1]], .obj "p.dhcpoption" [.num 0, .bytes []],
      .obj "p.dhcpoption" [.num 55, .bytes [1, 3, 6]]] = .ok [53, 1, 1, 0, 55, 3, 1, 3, 6] ∧
    PDhcpOpt.parseOptions (Slice.exact [53, 1, 1, 0, 55, 3, 1, 3, 6, 255, 0, 0]) =
      .ok [.obj "p.dhcpoption" [.num 53, .bytes [1]], .obj "p.dhcpoption" [.num 0, .bytes []],
        .obj "p.dhcpoption" [.num 55, .bytes [1, 3, 6]]] := ⟨rfl, rfl⟩

/-- why the end marker may not appear inside a list: everything behind it is encoded but never decoded -/
theorem dhcpoptions_after_end_lost :
    PDHCP.optBytes [.obj "p.dhcpoption" [.num 53, .bytes [1]], .obj "p.dhcpoption" [.num 255, .bytes []],
      .obj "p.dhcpoption" [.num 54, .bytes [10, 0, 0, 1]]] = .ok [53, 1, 1, 255, 54, 4, 10, 0, 0, 1] ∧
    PDhcpOpt.parseOptions (Slice.exact [53, 1, 1, 255, 54, 4, 10, 0, 0, 1]) = .ok [.obj "p.dhcpoption" [.num 53, .bytes [1]]] :=
  ⟨rfl, rfl⟩


/-! ## 6. DHCP — the message -/

/-- `DHCP.Len / Read / Write / new(DHCP)` packaged as the operations of a kind: "marshal" is the content of the buffer
    `Read` fills (the receiver is not modified), "unmarshal" is `Write` applied to the visible bytes of the slice -/
def kDHCP : KindOps :=
  ⟨PDHCP.lenM, fun v => do let b ← PDHCP.readBuf v; same b v,
   fun recv d => do let r ← PDHCP.write recv d.bytes; .ok r.1, PDHCP.zero⟩

/-- well-formed DHCP message: fixed fields within their widths, four 4-byte addresses, a hardware address of exactly
    `HardwareLen ≤ 16` bytes, 64-byte server name and 128-byte file (Go arrays), well-formed options, total size within
    the 16-bit `Len()` -/
def DHCP.WFv : V → Prop
  | .obj "p.DHCP" [.num op, .num ht, .num hl, .num ho, .num xid, .num secs, .num fl, .bytes cip, .bytes yip, .bytes sip,
      .bytes gip, .bytes hw, .bytes sname, .bytes file, .list os] =>
    op < 256 ∧ ht < 256 ∧ hl < 256 ∧ ho < 256 ∧ xid < 4294967296 ∧ secs < 65536 ∧ fl < 65536 ∧
    cip.length = 4 ∧ yip.length = 4 ∧ sip.length = 4 ∧ gip.length = 4 ∧ hw.length = hl ∧ hl ≤ 16 ∧
    sname.length = 64 ∧ file.length = 128 ∧ (∀ o ∈ os, DhcpOption.WFv o) ∧ 240 + (os.map dhcpOptLen).sum + 1 < 65536
  | _ => False
instance : DecidablePred DHCP.WFv := fun v => by unfold DHCP.WFv; split <;> infer_instance

/-- number of pad options of a message -/
def DHCP.pads : V → Nat
  | .obj "p.DHCP" [_, _, _, _, _, _, _, _, _, _, _, _, _, _, .list os] => (os.map dhcpPad).sum
  | _ => 0

/-- value and bytes of EVERY well-formed message round-trip (pad options included): `Read` produces `bs` — 240 fixed bytes
    with the magic cookie, the options in order, the end marker; `Write` of `bs`, followed by anything, into any
    receiver gives back exactly `v` (all fixed fields, the hardware address cut to `HardwareLen`, server name, file,
    every option) and reports the whole input as consumed.  Size: `Len()` = `bs.length` + number of pad options.
    Missing with respect to C09 when the message has pad options: `Len()` = bytes (`dhcp_pad_len_overreports`). -/
theorem dhcp_roundtrip_partial (v : V) (h : DHCP.WFv v) :
    ∃ bs l, PDHCP.readBuf v = .ok bs ∧ PDHCP.len v = .ok l ∧ l.toNat = bs.length + DHCP.pads v ∧
      (∀ n, bs.length ≤ n → PDHCP.read v n = .ok bs) ∧
      ∀ recv tail, PDHCP.write recv (bs ++ tail) = .ok (v, bs.length + tail.length) := by
  unfold DHCP.WFv at h
  split at h
  · rename_i op ht hl ho xid secs fl cip yip sip gip hw sname file os
    obtain ⟨h1, h2, h3, h4, h5, h6, h7, c1, c2, c3, c4, c5, c6, c7, c8, hos, hsz⟩ := h
    have hk : ∀ o ∈ os, DhcpOptOK o := fun o ho => (dhcpoption_wf_iff o).mp (hos o ho)
    obtain ⟨_, _, _, e4, _⟩ := dhcp_opts_enc os hk
    obtain ⟨l, hl1, hl2⟩ := dhcp_len (.num op) (.num ht) (.num hl) (.num ho) (.num xid) (.num secs) (.num fl) (.bytes cip)
      (.bytes yip) (.bytes sip) (.bytes gip) (.bytes hw) (.bytes sname) (.bytes file) os hk hsz
    have hfl := dhcpFixed_length op ht hl ho xid secs fl cip yip sip gip hw sname file c1 c2 c3 c4
    have hrb := dhcp_readBuf op ht hl ho xid secs fl cip yip sip gip hw sname file os hk
    refine ⟨_, l, hrb, hl1, ?_, ?_, ?_⟩
    · simp only [DHCP.pads, List.length_append, hfl, List.length_cons, List.length_nil]
      omega
    · intro n hn
      simp only [PDHCP.read, hrb, Res.bind_ok]
      rw [List.take_of_length_le hn]
    · intro recv tail
      have hb : dhcpFixed op ht hl ho xid secs fl cip yip sip gip hw sname file ++ (dhcpOptsWire os ++ [255]) ++ tail
          = dhcpFixed op ht hl ho xid secs fl cip yip sip gip hw sname file ++ (dhcpOptsWire os ++ (255 :: tail)) := by
        simp only [List.append_assoc, List.cons_append, List.nil_append]
      rw [hb, dhcp_write_fixed recv op ht hl ho xid secs fl cip yip sip gip hw sname file _ h1 h2 h3 h4 h5 h6 h7
        c1 c2 c3 c4 c5 c6 c7 c8]
      have hp : PDhcpOpt.parseOptions (Slice.exact (dhcpOptsWire os ++ (255 :: tail))) = .ok os :=
        dhcp_parse_end os hk tail _ (by simp)
      rw [hp]
      simp only [Res.bind_ok, List.length_append, hfl, List.length_cons, List.length_nil]
      apply ok_count
      omega
  · exact h.elim

/-- a well-formed DHCP message without pad options round-trips in the full C09 sense: decode(encode v) = v,
    re-encoding reproduces the bytes (`RoundTrip.reencode`), `Len()` = bytes; bytes behind the end marker are ignored -/
theorem dhcp_roundtrip (v : V) (h : DHCP.WFv v) (hp : DHCP.pads v = 0) : RoundTripPrefix kDHCP v := by
  obtain ⟨bs, l, h1, h2, h3, _, h5⟩ := dhcp_roundtrip_partial v h
  refine ⟨bs, l, ?_, ?_, by omega, ?_⟩
  · simp only [kDHCP, h1, Res.bind_ok, same]
  · simp only [kDHCP, PDHCP.lenM, h2, Res.bind_ok, same]
  · intro tail n hn1 _
    simp only [kDHCP, Slice.bytes, take_app_ge bs tail n hn1, h5, Res.bind_ok]

/-- … and the byte count `Write` reports for exactly the encoding is the reported size -/
theorem dhcp_roundtrip_count (v : V) (h : DHCP.WFv v) (hp : DHCP.pads v = 0) :
    ∃ bs l, PDHCP.readBuf v = .ok bs ∧ PDHCP.len v = .ok l ∧ ∀ recv, PDHCP.write recv bs = .ok (v, l.toNat) := by
  obtain ⟨bs, l, h1, h2, h3, _, h5⟩ := dhcp_roundtrip_partial v h
  refine ⟨bs, l, h1, h2, ?_⟩
  intro recv
  have := h5 recv []
  simp only [List.append_nil, List.length_nil] at this
  rw [this]
  apply ok_count
  omega


/-- a DHCP request with three options (message type, a pad, client id) -/
def dhcpEx : V := .obj "p.DHCP" [.num 1, .num 1, .num 6, .num 0, .num 0xdeadbeef, .num 3, .num 0x8000,
  .bytes [0, 0, 0, 0], .bytes [10, 0, 0, 5], .bytes [10, 0, 0, 1], .bytes [0, 0, 0, 0], .bytes [0xaa, 0xbb, 0xcc, 0xdd, 0xee, 0xff],
  .bytes (zeros 64), .bytes (zeros 128),
  .list [.obj "p.dhcpoption" [.num 53, .bytes [3]], .obj "p.dhcpoption" [.num 0, .bytes []],
    .obj "p.dhcpoption" [.num 61, .bytes [1, 0xaa, 0xbb, 0xcc, 0xdd, 0xee, 0xff]]]]

example : DHCP.WFv dhcpEx := by decide

/-- the same without the pad option -/
def dhcpEx2 : V := .obj "p.DHCP" [.num 1, .num 1, .num 6, .num 0, .num 0xdeadbeef, .num 3, .num 0x8000,
  .bytes [0, 0, 0, 0], .bytes [10, 0, 0, 5], .bytes [10, 0, 0, 1], .bytes [0, 0, 0, 0], .bytes [0xaa, 0xbb, 0xcc, 0xdd, 0xee, 0xff],
  .bytes (zeros 64), .bytes (zeros 128),
  .list [.obj "p.dhcpoption" [.num 53, .bytes [3]],
    .obj "p.dhcpoption" [.num 61, .bytes [1, 0xaa, 0xbb, 0xcc, 0xdd, 0xee, 0xff]]]]

example : DHCP.WFv dhcpEx2 ∧ DHCP.pads dhcpEx2 = 0 := by decide

/-- the messages the library's own constructors build are well-formed and free of pads: `NewDHCPDiscover(xid, mac)` -/
example : ∃ v, PDHCP.newMsg 1 true 0x1234 [0xaa, 0xbb, 0xcc, 0xdd, 0xee, 0xff] = .ok v ∧ DHCP.WFv v ∧ DHCP.pads v = 0 :=
  ⟨_, rfl, by decide, by decide⟩


/-- DEFECT witness (size), message level: `dhcpEx` (one pad option) is 254 bytes on the wire — options
    `53 1 3 | 0 | 61 7 01 aa bb cc dd ee ff | 255` behind the 240 fixed bytes — and `Write` consumes 254, but `Len()`
    reports 255 -/
theorem dhcp_pad_len_overreports :
    PDHCP.len dhcpEx = .ok 255 ∧
    ∃ bs, PDHCP.readBuf dhcpEx = .ok bs ∧ bs.length = 254 ∧
      bs.drop 240 = [53, 1, 3, 0, 61, 7, 1, 0xaa, 0xbb, 0xcc, 0xdd, 0xee, 0xff, 255] ∧
      PDHCP.write PDHCP.zero bs = .ok (dhcpEx, 254) := by
  refine ⟨rfl, ?_⟩
  obtain ⟨bs, l, h1, _, _, _, h5⟩ := dhcp_roundtrip_partial dhcpEx (by decide)
  have hb : PDHCP.readBuf dhcpEx = .ok (dhcpFixed 1 1 6 0 0xdeadbeef 3 0x8000 [0, 0, 0, 0] [10, 0, 0, 5] [10, 0, 0, 1] [0, 0, 0, 0]
      [0xaa, 0xbb, 0xcc, 0xdd, 0xee, 0xff] (zeros 64) (zeros 128) ++ [53, 1, 3, 0, 61, 7, 1, 0xaa, 0xbb, 0xcc, 0xdd, 0xee, 0xff, 255]) :=
    dhcp_readBuf 1 1 6 0 0xdeadbeef 3 0x8000 [0, 0, 0, 0] [10, 0, 0, 5] [10, 0, 0, 1] [0, 0, 0, 0]
      [0xaa, 0xbb, 0xcc, 0xdd, 0xee, 0xff] (zeros 64) (zeros 128) _ (by decide)
  have hl := dhcpFixed_length 1 1 6 0 0xdeadbeef 3 0x8000 [0, 0, 0, 0] [10, 0, 0, 5] [10, 0, 0, 1] [0, 0, 0, 0]
      [0xaa, 0xbb, 0xcc, 0xdd, 0xee, 0xff] (zeros 64) (zeros 128) rfl rfl rfl rfl
  rw [hb] at h1
  cases h1
  refine ⟨_, hb, by rw [List.length_append, hl]; rfl, List.drop_left' hl, ?_⟩
  have := h5 PDHCP.zero []
  simp only [List.append_nil, List.length_nil, List.length_append, hl] at this
  exact this


/-! ### hardware-address length handling: why `DHCP.WFv` demands `len(ClientHWAddr) = HardwareLen ≤ 16` -/

/-- a DHCP value given by its fields -/
def dhcpOf (op ht hl ho xid secs fl : Nat) (cip yip sip gip hw sname file : Bytes) (os : List V) : V :=
  .obj "p.DHCP" [.num op, .num ht, .num hl, .num ho, .num xid, .num secs, .num fl, .bytes cip, .bytes yip, .bytes sip,
    .bytes gip, .bytes hw, .bytes sname, .bytes file, .list os]

/-- the field conditions of `DHCP.WFv` other than those on the hardware address -/
def DhcpFieldsOK (op ht hl ho xid secs fl : Nat) (cip yip sip gip sname file : Bytes) (os : List V) : Prop :=
  op < 256 ∧ ht < 256 ∧ hl < 256 ∧ ho < 256 ∧ xid < 4294967296 ∧ secs < 65536 ∧ fl < 65536 ∧
    cip.length = 4 ∧ yip.length = 4 ∧ sip.length = 4 ∧ gip.length = 4 ∧
    sname.length = 64 ∧ file.length = 128 ∧ (∀ o ∈ os, DhcpOption.WFv o)
instance (op ht hl ho xid secs fl : Nat) (cip yip sip gip sname file : Bytes) (os : List V) :
    Decidable (DhcpFieldsOK op ht hl ho xid secs fl cip yip sip gip sname file os) := by
  unfold DhcpFieldsOK; infer_instance

/-- the encoder always writes 16 hardware-address bytes (the address zero-padded or cut), the decoder returns the first
    `HardwareLen` of them: a message whose address length differs from `HardwareLen` comes back with a DIFFERENT address
    (cut, or padded with zeros); everything else is preserved, and re-encoding the decoded message reproduces the bytes
    only if the dropped bytes were zero.  The strongest statement for such values: -/
theorem dhcp_hwaddr_len_partial (op ht hl ho xid secs fl : Nat) (cip yip sip gip hw sname file : Bytes) (os : List V)
    (h : DhcpFieldsOK op ht hl ho xid secs fl cip yip sip gip sname file os) (hhl : hl ≤ 16) :
    ∃ bs, PDHCP.readBuf (dhcpOf op ht hl ho xid secs fl cip yip sip gip hw sname file os) = .ok bs ∧
      ∀ recv tail, PDHCP.write recv (bs ++ tail) =
        .ok (dhcpOf op ht hl ho xid secs fl cip yip sip gip ((hw.take 16 ++ zeros (16 - hw.length)).take hl) sname file os,
          bs.length + tail.length) := by
  obtain ⟨h1, h2, h3, h4, h5, h6, h7, c1, c2, c3, c4, c7, c8, hos⟩ := h
  have hk : ∀ o ∈ os, DhcpOptOK o := fun o ho => (dhcpoption_wf_iff o).mp (hos o ho)
  have hfl := dhcpFixed_length op ht hl ho xid secs fl cip yip sip gip hw sname file c1 c2 c3 c4
  refine ⟨_, dhcp_readBuf op ht hl ho xid secs fl cip yip sip gip hw sname file os hk, ?_⟩
  intro recv tail
  have hb : dhcpFixed op ht hl ho xid secs fl cip yip sip gip hw sname file ++ (dhcpOptsWire os ++ [255]) ++ tail
      = dhcpFixed op ht hl ho xid secs fl cip yip sip gip (hw.take 16) sname file ++ (dhcpOptsWire os ++ (255 :: tail)) := by
    rw [dhcpFixed_hw_take]
    simp only [List.append_assoc, List.cons_append, List.nil_append]
  rw [hb, dhcp_write_fixed_gen recv op ht hl ho xid secs fl cip yip sip gip (hw.take 16) sname file _ h1 h2 h3 h4 h5 h6 h7
    c1 c2 c3 c4 (by simp; omega) c7 c8, if_neg (by omega)]
  have hp : PDhcpOpt.parseOptions (Slice.exact (dhcpOptsWire os ++ (255 :: tail))) = .ok os :=
    dhcp_parse_end os hk tail _ (by simp)
  rw [hp]
  simp only [Res.bind_ok, List.length_append, hfl, List.length_cons, List.length_nil, dhcpOf, List.length_take]
  have e16 : 16 - min 16 hw.length = 16 - hw.length := by omega
  rw [e16]
  apply ok_count
  omega

/-- instance: HardwareLen 6 with a 16-byte address buffer, every other field in range -/
example : DhcpFieldsOK 1 1 6 0 7 0 0 [0, 0, 0, 0] [0, 0, 0, 0] [0, 0, 0, 0] [0, 0, 0, 0] (zeros 64) (zeros 128)
    [.obj "p.dhcpoption" [.num 53, .bytes [1]]] ∧ (6 : Nat) ≤ 16 := by decide

/-- a `HardwareLen` above 16 — even with an address of exactly that many bytes — is encoded (the address cut to 16
    bytes) but REJECTED by the decoder ("Bad DHCP hardware address length"): `Write (Read v)` fails -/
theorem dhcp_hwlen_over_16_rejected (op ht hl ho xid secs fl : Nat) (cip yip sip gip hw sname file : Bytes) (os : List V)
    (h : DhcpFieldsOK op ht hl ho xid secs fl cip yip sip gip sname file os) (hhl : 16 < hl) :
    ∃ bs, PDHCP.readBuf (dhcpOf op ht hl ho xid secs fl cip yip sip gip hw sname file os) = .ok bs ∧
      ∀ recv tail, PDHCP.write recv (bs ++ tail) = .err := by
  obtain ⟨h1, h2, h3, h4, h5, h6, h7, c1, c2, c3, c4, c7, c8, hos⟩ := h
  have hk : ∀ o ∈ os, DhcpOptOK o := fun o ho => (dhcpoption_wf_iff o).mp (hos o ho)
  refine ⟨_, dhcp_readBuf op ht hl ho xid secs fl cip yip sip gip hw sname file os hk, ?_⟩
  intro recv tail
  rw [dhcpFixed_hw_take, List.append_assoc,
    dhcp_write_fixed_gen recv op ht hl ho xid secs fl cip yip sip gip (hw.take 16) sname file _ h1 h2 h3 h4 h5 h6 h7
    c1 c2 c3 c4 (by simp; omega) c7 c8, if_pos hhl]

/-- instance: HardwareLen 20 with a 20-byte address (InfiniBand-style), every other field in range -/
example : DhcpFieldsOK 1 32 20 0 7 0 0 [0, 0, 0, 0] [0, 0, 0, 0] [0, 0, 0, 0] [0, 0, 0, 0] (zeros 64) (zeros 128)
    [.obj "p.dhcpoption" [.num 53, .bytes [1]]] ∧ (16 : Nat) < 20 := by decide

/-- DEFECT witness (field not preserved): the value `NewDHCP(7, 1, DHCP_HW_ETHERNET)` itself — HardwareLen 0 but
    `ClientHWAddr = make([]byte, 16)` — comes back from `Write (Read v)` with an EMPTY hardware address -/
theorem dhcp_new_hwaddr_not_preserved :
    PDHCP.new 7 1 1 = .ok (dhcpOf 1 1 0 0 7 0 0 (zeros 4) (zeros 4) (zeros 4) (zeros 4) (zeros 16) (zeros 64) (zeros 128) []) ∧
    ∃ bs, PDHCP.readBuf (dhcpOf 1 1 0 0 7 0 0 (zeros 4) (zeros 4) (zeros 4) (zeros 4) (zeros 16) (zeros 64) (zeros 128) []) = .ok bs ∧
      bs.length = 241 ∧
      PDHCP.write PDHCP.zero bs
        = .ok (dhcpOf 1 1 0 0 7 0 0 (zeros 4) (zeros 4) (zeros 4) (zeros 4) [] (zeros 64) (zeros 128) [], 241) ∧
      dhcpOf 1 1 0 0 7 0 0 (zeros 4) (zeros 4) (zeros 4) (zeros 4) [] (zeros 64) (zeros 128) []
        ≠ dhcpOf 1 1 0 0 7 0 0 (zeros 4) (zeros 4) (zeros 4) (zeros 4) (zeros 16) (zeros 64) (zeros 128) [] := by
  refine ⟨rfl, ?_⟩
  obtain ⟨bs, h1, h2⟩ := dhcp_hwaddr_len_partial 1 1 0 0 7 0 0 (zeros 4) (zeros 4) (zeros 4) (zeros 4) (zeros 16) (zeros 64)
    (zeros 128) [] (by decide) (by decide)
  have hl : bs.length = 241 := by
    have h1' := h1
    simp only [dhcpOf] at h1'
    rw [dhcp_readBuf _ _ _ _ _ _ _ _ _ _ _ _ _ _ [] (by simp)] at h1'
    cases h1'
    rw [List.length_append, dhcpFixed_length _ _ _ _ _ _ _ _ _ _ _ _ _ _ rfl rfl rfl rfl]
    rfl
  refine ⟨bs, h1, hl, ?_, ?_⟩
  · have := h2 PDHCP.zero []
    simp only [List.append_nil, List.length_nil, hl] at this
    exact this
  · intro heq
    simp [dhcpOf, zeros] at heq


/-! ### the end marker as an explicit option, and 16-byte IP addresses -/

/-- why `DhcpOption.WFv` excludes the end marker also at the END of the list: a message whose option list ends with an
    explicit end option (tag 255, any data) is encoded to exactly the bytes of the message without it — so decoding
    returns the list WITHOUT the end option: decode(encode v') ≠ v'.  What remains true for such v': re-encoding the
    decoded message reproduces the bytes.  (`Len()` counts `2 + len(data)` for the explicit end option and 1 for the
    implicit one.) -/
theorem dhcp_explicit_end_partial (op ht hl ho xid secs fl : Nat) (cip yip sip gip hw sname file : Bytes) (os : List V)
    (h : DHCP.WFv (dhcpOf op ht hl ho xid secs fl cip yip sip gip hw sname file os)) (d : Bytes) :
    ∃ bs, PDHCP.readBuf (dhcpOf op ht hl ho xid secs fl cip yip sip gip hw sname file
          (os ++ [.obj "p.dhcpoption" [.num 255, .bytes d]])) = .ok bs ∧
      PDHCP.readBuf (dhcpOf op ht hl ho xid secs fl cip yip sip gip hw sname file os) = .ok bs ∧
      (∀ recv tail, PDHCP.write recv (bs ++ tail) =
        .ok (dhcpOf op ht hl ho xid secs fl cip yip sip gip hw sname file os, bs.length + tail.length)) ∧
      dhcpOf op ht hl ho xid secs fl cip yip sip gip hw sname file (os ++ [.obj "p.dhcpoption" [.num 255, .bytes d]])
        ≠ dhcpOf op ht hl ho xid secs fl cip yip sip gip hw sname file os := by
  obtain ⟨bs, l, h1, _, _, _, h5⟩ := dhcp_roundtrip_partial _ h
  have hos : ∀ o ∈ os, DhcpOptOK o := by
    simp only [dhcpOf, DHCP.WFv] at h
    exact fun o ho => (dhcpoption_wf_iff o).mp (h.2.2.2.2.2.2.2.2.2.2.2.2.2.2.2.1 o ho)
  refine ⟨bs, ?_, h1, h5, ?_⟩
  · have h1' := h1
    simp only [dhcpOf] at h1' ⊢
    rw [dhcp_readBuf _ _ _ _ _ _ _ _ _ _ _ _ _ _ os hos] at h1'
    rw [dhcp_readBuf_end _ _ _ _ _ _ _ _ _ _ _ _ _ _ os hos d]
    exact h1'
  · intro heq
    simp [dhcpOf] at heq

example : DHCP.WFv (dhcpOf 2 1 6 0 0xcafe 0 0 [0, 0, 0, 0] [10, 0, 0, 5] [10, 0, 0, 1] [0, 0, 0, 0]
    [0xaa, 0xbb, 0xcc, 0xdd, 0xee, 0xff] (zeros 64) (zeros 128) [.obj "p.dhcpoption" [.num 53, .bytes [2]]]) := by decide

set_option maxRecDepth 100000 in
/-- DEFECT witness (frame corrupted): `DHCP.Read` writes the four IP fields with `binary.Write`, i.e. ALL their bytes,
    without `To4()`.  A `net.IP` in its usual 16-byte form (what `net.ParseIP("10.0.0.1")` returns) as `ClientIP` makes
    the fixed part 252 bytes long, every later field is shifted by 12, and `Write` of the result fails (the magic cookie is
    not at offset 236).  Hence `DHCP.WFv` demands 4-byte addresses. -/
theorem dhcp_ip16_breaks_frame :
    ∃ bs, PDHCP.readBuf (dhcpOf 1 1 6 0 7 0 0 [0, 0, 0, 0, 0, 0, 0, 0, 0, 0, 0xff, 0xff, 10, 0, 0, 1] (zeros 4) (zeros 4) (zeros 4)
        [0xaa, 0xbb, 0xcc, 0xdd, 0xee, 0xff] (zeros 64) (zeros 128) []) = .ok bs ∧ bs.length = 253 ∧
      PDHCP.write PDHCP.zero bs = .err :=
  ⟨_, rfl, rfl, rfl⟩

end OFV.Props.C09b
