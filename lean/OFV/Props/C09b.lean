/-
  C09b — packet headers round-trip, part 2: the two kinds C09 left open, DHCP and LLDP (Go: protocol/dhcp.go, lldp.go).

  Neither kind has `MarshalBinary`/`UnmarshalBinary` in Go; the codec is `Read(b)` (encode into the caller's buffer) and
  `Write(b)` (decode).  The model has `readBuf` (content of the bytes.Buffer that `Read` assembles) and `write`.

  LLDP
  1. LANE: the 7-bit type and the 9-bit length packed into the TLV header word come back exactly (`lane_tlv_type_len`,
     `lane_tlv_word`); the range hypotheses are needed (`lane_tlv_needs_range`, `lane_tlv_type_needs_range`: the encoder
     shifts and adds without masking, a `Length` ≥ 512 spills into the type, the top bit of an 8-bit type is lost).
  2. TLVs: `chassistlv_roundtrip`, `porttlv_roundtrip` (`TlvRoundTrip`: decode(encode v) = v into any allocated receiver,
     no error, bytes consumed = bytes produced = `3 + Length`, trailing bytes ignored, `TlvRoundTrip.reencode`),
     `ttltlv_roundtrip` (4 bytes).  Well-formed: type < 128, `Length` < 512, `Length` = len(Data) — the library's own
     convention: the subtype byte is not counted.  `chassistlv_long_data_not_preserved`: 512 data bytes do not survive.
  3. FRAME: `lldp_roundtrip` — EVERY LLDP value whose three TLVs are well-formed round-trips (`LldpRoundTrip`):
       * `lldp_len`: `Len()` = `(3 + Length) + (3 + Length') + 4` = the number of bytes of the frame;
       * `lldp_read_any_buffer`: `LLDP.Read(b)` is `copy(b, Chassis ++ Port ++ TTL)` for EVERY buffer, count = bytes
         that fitted; `lldp_read_frame` (buffer of at least `Len()` bytes: exactly the frame, count `Len()`),
         `lldp_read_ttl_at` (the TTL TLV stands behind the other two), `lldp_read_short_buffer` (a shorter buffer gets
         the first `len(b)` bytes, no error);
       * `lldp_write_own_frame`: `LLDP.Write` of the frame, followed by anything (nothing, End-of-LLDPDU, more TLVs),
         into any allocated receiver returns exactly the value (Chassis, Port AND TTL) and the frame's size;
         `lldp_write_truncated`: a frame cut inside the TTL TLV is an error; `lldp_write_ttl_decoded`: for ANY input,
         the TTL of the result is the receiver's (input ended earlier) or what `TTLTLV.Write` decodes at its offset;
       * `LldpRoundTrip.reencode`: re-encoding the decoded frame reproduces the bytes.
     Concrete, replayable instance with all bytes: `lldp_roundtrip_example`, `lldp_len_example`.

  DHCP
  4. ONE OPTION: `dhcpoption_roundtrip` (`DhcpOptionRoundTrip`: bytes, `Len()` = bytes, decoded alone or in front of the
     end marker) for EVERY well-formed option, ordinary (tag, length byte, data) or pad (the single byte 0, `Len()` = 1:
     `dhcpoption_pad_roundtrip`, `dhcpoption_pad_len`); `dhcpoption_codec` names bytes and size.
     Why the predicate is what it is: `dhcpoption_end_lost` (the end marker is never returned by the decoder),
     `dhcpoption_pad_carries_no_data`, `dhcpoption_254_refused`.
  5. OPTION LIST: `dhcpoptions_roundtrip` — any mix of pads and ordinary options, order preserved, bytes = sum of the
     `Len()`s, with or without the end marker and trailing bytes behind it; `dhcpoptions_after_end_lost`: options behind
     an end marker inside the list are encoded but never decoded.
  6. MESSAGE: `dhcp_roundtrip` — `RoundTripPrefix kDHCP v` in the C09 sense for EVERY well-formed message, pad options
     included: all fixed fields, the four addresses, hardware address and its length, server name, file, magic cookie,
     options; `Len()` = bytes; bytes behind the end marker are ignored (`dhcp_roundtrip_count`: `Write` reports `Len()`
     bytes; `dhcp_codec`: the same with the pieces named; `dhcp_pad_len_exact`: a message with a pad, bytes spelled out).
     Classes of values with every field in range that do NOT round-trip, each with the strongest true statement:
       * `dhcp_hwaddr_len_partial`: len(ClientHWAddr) ≠ HardwareLen ≤ 16 — the address comes back cut / zero-padded to
         HardwareLen; witness `dhcp_new_hwaddr_not_preserved`: the value `NewDHCP(…)` returns (16-byte address, length 0);
       * `dhcp_hwlen_over_16_rejected`: HardwareLen > 16 is encoded but the decoder rejects its own output;
       * `dhcp_explicit_end_partial`: an explicit end option at the end of the list is dropped (same bytes as without,
         `Len()` = bytes);
       * `dhcp_addr_to4` / `dhcp_ip16_to4` / `dhcp_ip16_example`: an address field that is not 4 bytes long is written
         in its 4-byte wire form (`To4()`; a 16-byte v4-mapped `net.IP` as its last four bytes): same bytes as the
         message with the 4-byte address, intact frame, `Len()` = bytes, and the decoder returns the 4-byte form — the
         decoded value differs from the original only in that representation; `dhcp_addr_not_v4_zeroed`: an address
         that has no 4-byte form (IPv6, empty) is written as 0.0.0.0.
     Neither side pads a message to a minimum size; zero bytes behind the end marker of a received message are ignored
     (the `tail` in every decoder statement), zero bytes in front of it are pad options and come back as such.

  Helper lemmas: `OFV.Lemmas.RoundTripDhcp`, `OFV.Lemmas.RoundTripLldp`.
-/
import OFV.Props.C09
import OFV.Lemmas.RoundTripDhcp
import OFV.Lemmas.RoundTripLldp
namespace OFV.Props.C09b
open OFV OFV.Go OFV.Model OFV.Lemmas.Lane OFV.Lemmas.RT OFV.Props.C09

/-! ## 1. LLDP — lane theorems for the packed type/length word -/

/-- TLV header word: the type (7 bits) and the length (9 bits) each come back exactly, so neither disturbs the other
    (the subtype travels in a byte of its own). -/
theorem lane_tlv_type_len (ty : UInt8) (ln : UInt16) (h1 : ty.toNat < 128) (h2 : ln.toNat < 512) :
    PTLV.unpackType (PTLV.packTypeLen ty ln) = ty ∧ PTLV.unpackLen (PTLV.packTypeLen ty ln) = ln :=
  tlv_lane ty ln h1 h2

example : PTLV.unpackType (PTLV.packTypeLen 127 511) = 127 ∧ PTLV.unpackLen (PTLV.packTypeLen 127 511) = 511 :=
  lane_tlv_type_len 127 511 (by decide) (by decide)

/-- the word is `type · 512 + length` -/
theorem lane_tlv_word (ty : UInt8) (ln : UInt16) (h1 : ty.toNat < 128) (h2 : ln.toNat < 512) :
    (PTLV.packTypeLen ty ln).toNat = ty.toNat * 512 + ln.toNat := tlv_pack_toNat ty ln h1 h2

example : (PTLV.packTypeLen 3 2).toNat = 3 * 512 + 2 := lane_tlv_word 3 2 (by decide) (by decide)

/-- the range hypotheses are needed (the Go encoder shifts and adds without masking): a length of 512 — `Length` is a
    uint16 field, and a 512-byte `Data` is consistent with it — comes back as type + 1, length 0 -/
theorem lane_tlv_needs_range :
    PTLV.unpackType (PTLV.packTypeLen 1 512) = 2 ∧ PTLV.unpackLen (PTLV.packTypeLen 1 512) = 0 := by decide

/-- … and the top bit of an 8-bit type is shifted out: type 129 comes back as type 1 (the length is not disturbed) -/
theorem lane_tlv_type_needs_range :
    PTLV.unpackType (PTLV.packTypeLen 129 5) = 1 ∧ PTLV.unpackLen (PTLV.packTypeLen 129 5) = 5 := by decide

/-! ## 2. LLDP — round trips of the TLVs -/

/-- `TlvRoundTrip kind v` (kinds with `Read`/`Write` instead of `MarshalBinary`/`UnmarshalBinary`): `Read` produces
    bytes `bs` (and, being a value-receiver computation, leaves `v` alone); `Write` of `bs` — followed by anything — into
    any allocated receiver of the kind gives back exactly `v`, reports no error, and reports `bs.length` bytes consumed. -/
def TlvRoundTrip (kind : String) (v : V) : Prop :=
  ∃ bs, PTLV.readBuf kind v = .ok bs ∧
    ∀ r1 r2 r3 r4 tail, PTLV.write kind (.obj kind [r1, r2, r3, r4]) (bs ++ tail) = .ok (bs.length, false, v)

/-- re-encoding the decoded TLV reproduces the bytes -/
theorem TlvRoundTrip.reencode {kind : String} {v : V} (h : TlvRoundTrip kind v) :
    ∃ bs, PTLV.readBuf kind v = .ok bs ∧ ∀ r1 r2 r3 r4 tail n e w,
      PTLV.write kind (.obj kind [r1, r2, r3, r4]) (bs ++ tail) = .ok (n, e, w) → PTLV.readBuf kind w = .ok bs := by
  obtain ⟨bs, h1, h2⟩ := h
  refine ⟨bs, h1, ?_⟩
  intro r1 r2 r3 r4 tail n e w hw
  rw [h2] at hw
  cases hw
  exact h1

/-- well-formed Chassis-ID TLV: type 7 bits, length 9 bits, subtype 8 bits, `Length` = number of data bytes (the
    library's convention: the subtype byte is NOT counted, unlike IEEE 802.1AB) -/
def ChassisTLV.WFv : V → Prop
  | .obj "p.ChassisTLV" [.num ty, .num ln, .num st, .bytes d] => ty < 128 ∧ ln < 512 ∧ st < 256 ∧ d.length = ln
  | _ => False
instance : DecidablePred ChassisTLV.WFv := fun v => by unfold ChassisTLV.WFv; split <;> infer_instance

/-- well-formed Port-ID TLV: as the Chassis-ID TLV -/
def PortTLV.WFv : V → Prop
  | .obj "p.PortTLV" [.num ty, .num ln, .num st, .bytes d] => ty < 128 ∧ ln < 512 ∧ st < 256 ∧ d.length = ln
  | _ => False
instance : DecidablePred PortTLV.WFv := fun v => by unfold PortTLV.WFv; split <;> infer_instance

/-- well-formed TTL TLV: type 7 bits, length 9 bits (not interpreted by the codec), seconds 16 bits -/
def TTLTLV.WFv : V → Prop
  | .obj "p.TTLTLV" [.num ty, .num ln, .num secs] => ty < 128 ∧ ln < 512 ∧ secs < 65536
  | _ => False
instance : DecidablePred TTLTLV.WFv := fun v => by unfold TTLTLV.WFv; split <;> infer_instance

/-- shape of a well-formed Chassis-ID TLV -/
theorem chassis_shape (v : V) (h : ChassisTLV.WFv v) : ∃ ty ln st d,
    v = .obj "p.ChassisTLV" [.num ty, .num ln, .num st, .bytes d] ∧ ty < 128 ∧ ln < 512 ∧ st < 256 ∧ d.length = ln := by
  unfold ChassisTLV.WFv at h
  split at h
  · exact ⟨_, _, _, _, rfl, h⟩
  · exact h.elim

/-- shape of a well-formed Port-ID TLV -/
theorem port_shape (v : V) (h : PortTLV.WFv v) : ∃ ty ln st d,
    v = .obj "p.PortTLV" [.num ty, .num ln, .num st, .bytes d] ∧ ty < 128 ∧ ln < 512 ∧ st < 256 ∧ d.length = ln := by
  unfold PortTLV.WFv at h
  split at h
  · exact ⟨_, _, _, _, rfl, h⟩
  · exact h.elim

/-- a well-formed Chassis-ID TLV round-trips through its `3 + Length` bytes; trailing bytes are ignored -/
theorem chassistlv_roundtrip (v : V) (h : ChassisTLV.WFv v) : TlvRoundTrip "p.ChassisTLV" v := by
  unfold ChassisTLV.WFv at h
  split at h
  · rename_i ty ln st d
    obtain ⟨h1, h2, h3, h4⟩ := h
    refine ⟨tlvWire ty ln st d, rfl, ?_⟩
    intro r1 r2 r3 r4 tail
    rw [tlv_write_ok "p.ChassisTLV" ty ln st d tail r1 r2 r3 r4 h1 h2 h3 h4, tlvWire_length, h4]
  · exact h.elim

example : ChassisTLV.WFv (.obj "p.ChassisTLV" [.num 1, .num 6, .num 4, .bytes [0, 0x1b, 0x21, 0xaa, 0xbb, 0xcc]]) := by
  decide

/-- a well-formed Port-ID TLV round-trips through its `3 + Length` bytes; trailing bytes are ignored -/
theorem porttlv_roundtrip (v : V) (h : PortTLV.WFv v) : TlvRoundTrip "p.PortTLV" v := by
  unfold PortTLV.WFv at h
  split at h
  · rename_i ty ln st d
    obtain ⟨h1, h2, h3, h4⟩ := h
    refine ⟨tlvWire ty ln st d, rfl, ?_⟩
    intro r1 r2 r3 r4 tail
    rw [tlv_write_ok "p.PortTLV" ty ln st d tail r1 r2 r3 r4 h1 h2 h3 h4, tlvWire_length, h4]
  · exact h.elim

example : PortTLV.WFv (.obj "p.PortTLV" [.num 2, .num 3, .num 5, .bytes [0x65, 0x74, 0x68]]) := by decide

/-- the reported size of a TLV round trip is `3 + Length` -/
theorem tlv_roundtrip_size (kind : String) (ty ln st : Nat) (d : Bytes) (h : d.length = ln) :
    ∃ bs, PTLV.readBuf kind (.obj kind [.num ty, .num ln, .num st, .bytes d]) = .ok bs ∧ bs.length = 3 + ln := by
  refine ⟨tlvWire ty ln st d, ?_, by rw [tlvWire_length, h]⟩
  simp [PTLV.readBuf, tlvWire]

example : ([0x65, 0x74, 0x68] : Bytes).length = 3 := rfl

/-- a well-formed TTL TLV round-trips through its 4 bytes; trailing bytes are ignored -/
theorem ttltlv_roundtrip (v : V) (h : TTLTLV.WFv v) :
    ∃ bs, PTLV.ttlReadBuf v = .ok bs ∧ bs.length = 4 ∧
      ∀ r1 r2 r3 tail, PTLV.ttlWrite (.obj "p.TTLTLV" [r1, r2, r3]) (bs ++ tail) = .ok (4, false, v) := by
  unfold TTLTLV.WFv at h
  split at h
  · rename_i ty ln secs
    obtain ⟨h1, h2, h3⟩ := h
    exact ⟨ttlWire ty ln secs, rfl, rfl, fun r1 r2 r3 tail => ttl_write_ok ty ln secs tail r1 r2 r3 h1 h2 h3⟩
  · exact h.elim

example : TTLTLV.WFv (.obj "p.TTLTLV" [.num 3, .num 2, .num 120]) := by decide

/-- the range conditions of the TLV predicates are needed: a Chassis TLV whose 512 data bytes are consistent with its
    `Length` field (a uint16) encodes to a header word that reads "type 2, length 0"; decoding gives a different TLV
    and reports 3 bytes consumed instead of 515 -/
theorem chassistlv_long_data_not_preserved (d : Bytes) (hd : d.length = 512) :
    ∃ bs, PTLV.readBuf "p.ChassisTLV" (.obj "p.ChassisTLV" [.num 1, .num 512, .num 4, .bytes d]) = .ok bs ∧
      bs.length = 515 ∧
      PTLV.write "p.ChassisTLV" (.obj "p.ChassisTLV" [.num 0, .num 0, .num 0, .bytes []]) bs
        = .ok (3, false, .obj "p.ChassisTLV" [.num 2, .num 0, .num 4, .bytes []]) := by
  refine ⟨tlvWire 1 512 4 d, rfl, by rw [tlvWire_length, hd], ?_⟩
  have hp : be16 (PTLV.packTypeLen (n8 1) (n16 512)) = [4, 0] := by decide
  simp only [tlvWire, hp]
  simp [PTLV.write, PTLV.unpackLen, PTLV.unpackType, V.u8, V.u16]
  rfl


example : (zeros 512).length = 512 := zeros_length 512

/-! ## 3. LLDP — the frame (Chassis, Port, TTL): a round trip

  `LLDP.Read` writes the Chassis TLV, the Port TLV behind it and the TTL TLV behind that; `LLDP.Write` parses the three
  in this order; `LLDP.Len()` is `(3 + |chassis id|) + (3 + |port id|) + 4`.  Proved below for ALL well-formed frames:
  `Len()` = bytes, `Read` = `copy(b, frame)` for every buffer, `Write (frame ++ tail) = v`, re-encoding reproduces the
  bytes. -/

/-- well-formed LLDP frame value: three well-formed TLVs -/
def LLDP.WFv : V → Prop
  | .obj "p.LLDP" [c, p, t] => ChassisTLV.WFv c ∧ PortTLV.WFv p ∧ TTLTLV.WFv t
  | _ => False
instance : DecidablePred LLDP.WFv := fun v => by unfold LLDP.WFv; split <;> infer_instance

/-- the bytes an LLDP frame with these three TLVs has on the wire: Chassis, Port, TTL in order -/
def lldpWire : V → Bytes
  | .obj "p.LLDP" [.obj "p.ChassisTLV" [.num ty, .num ln, .num st, .bytes d],
      .obj "p.PortTLV" [.num ty', .num ln', .num st', .bytes d'], .obj "p.TTLTLV" [.num t3, .num l3, .num secs]] =>
    tlvWire ty ln st d ++ (tlvWire ty' ln' st' d' ++ ttlWire t3 l3 secs)
  | _ => []

/-- a standard minimal frame: chassis id = MAC address 00:1b:21:aa:bb:cc, port id = interface name "eth", TTL 120 s -/
def lldpEx : V := .obj "p.LLDP" [.obj "p.ChassisTLV" [.num 1, .num 6, .num 4, .bytes [0, 0x1b, 0x21, 0xaa, 0xbb, 0xcc]],
  .obj "p.PortTLV" [.num 2, .num 3, .num 5, .bytes [0x65, 0x74, 0x68]], .obj "p.TTLTLV" [.num 3, .num 2, .num 120]]

example : LLDP.WFv lldpEx := by decide

/-- its 19 bytes on the wire -/
example : lldpWire lldpEx = [2, 6, 4, 0, 0x1b, 0x21, 0xaa, 0xbb, 0xcc, 4, 3, 5, 0x65, 0x74, 0x68, 6, 2, 0, 120] := by
  decide

/-- shape of a well-formed LLDP value -/
theorem lldp_shape (v : V) (h : LLDP.WFv v) :
    ∃ ty ln st d ty' ln' st' d' t3 l3 secs, v = .obj "p.LLDP" [.obj "p.ChassisTLV" [.num ty, .num ln, .num st, .bytes d],
      .obj "p.PortTLV" [.num ty', .num ln', .num st', .bytes d'], .obj "p.TTLTLV" [.num t3, .num l3, .num secs]] ∧
      (ty < 128 ∧ ln < 512 ∧ st < 256 ∧ d.length = ln) ∧ (ty' < 128 ∧ ln' < 512 ∧ st' < 256 ∧ d'.length = ln') ∧
      (t3 < 128 ∧ l3 < 512 ∧ secs < 65536) := by
  unfold LLDP.WFv at h
  split at h
  · rename_i c p t
    obtain ⟨hc, hp, ht⟩ := h
    unfold ChassisTLV.WFv at hc
    unfold PortTLV.WFv at hp
    unfold TTLTLV.WFv at ht
    split at hc
    · split at hp
      · split at ht
        · exact ⟨_, _, _, _, _, _, _, _, _, _, _, rfl, hc, hp, ht⟩
        · exact ht.elim
      · exact hp.elim
    · exact hc.elim
  · exact h.elim

/-- the size of a frame on the wire -/
theorem lldp_wire_length (ty ln st : Nat) (d : Bytes) (ty' ln' st' : Nat) (d' : Bytes) (t3 l3 secs : Nat) :
    (lldpWire (.obj "p.LLDP" [.obj "p.ChassisTLV" [.num ty, .num ln, .num st, .bytes d],
      .obj "p.PortTLV" [.num ty', .num ln', .num st', .bytes d'], .obj "p.TTLTLV" [.num t3, .num l3, .num secs]])).length
      = (3 + d.length) + (3 + d'.length) + 4 := by
  simp only [lldpWire, List.length_append, tlvWire_length, ttlWire_length]
  omega

/-- the frame on the wire is the concatenation of what the three TLVs' own `Read` produce, in order -/
theorem lldp_wire_parts (v : V) (h : LLDP.WFv v) :
    ∃ c p t cb pb tb, v = .obj "p.LLDP" [c, p, t] ∧ PTLV.readBuf "p.ChassisTLV" c = .ok cb ∧
      PTLV.readBuf "p.PortTLV" p = .ok pb ∧ PTLV.ttlReadBuf t = .ok tb ∧ lldpWire v = cb ++ (pb ++ tb) := by
  obtain ⟨ty, ln, st, d, ty', ln', st', d', t3, l3, secs, rfl, _, _, _⟩ := lldp_shape v h
  exact ⟨_, _, _, _, _, _, rfl, rfl, rfl, rfl, rfl⟩

/-- SIZE, for ALL well-formed frames: `LLDP.Len()` is the number of bytes of the frame on the wire,
    `(3 + Length) + (3 + Length') + 4`, and leaves the value alone -/
theorem lldp_len (v : V) (h : LLDP.WFv v) :
    ∃ l, PLLDP.lenM v = .ok (l, v) ∧ l.toNat = (lldpWire v).length := by
  obtain ⟨ty, ln, st, d, ty', ln', st', d', t3, l3, secs, rfl, hc, hp, _⟩ := lldp_shape v h
  refine ⟨_, rfl, ?_⟩
  rw [lldp_wire_length]
  have e4 : (4 : UInt16).toNat = 4 := rfl
  simp only [UInt16.toNat_add, n16_toNat (3 + d.length) (by omega), n16_toNat (3 + d'.length) (by omega), e4]
  omega

/-- size of the example frame: 19 bytes, and `Len()` says 19 -/
theorem lldp_len_example : PLLDP.lenM lldpEx = .ok (19, lldpEx) ∧ (lldpWire lldpEx).length = 19 := ⟨rfl, by decide⟩

/-- … also through the method table (`Len()` as the driver calls it) -/
example : (methodsProtoBase.lookup "p.LLDP.Len").map (fun f => f lldpEx []) = some (.ok (lldpEx, [.num 19])) := rfl

/-- ENCODER, for ALL well-formed frames and EVERY buffer: `LLDP.Read(b)` is `copy(b, frame)` — the frame's bytes
    (Chassis, Port, TTL in order) are written from offset 0, cut where the buffer ends, the rest of the buffer is left
    alone — and the count is the number of bytes that fitted -/
theorem lldp_read_any_buffer (v : V) (h : LLDP.WFv v) (b : Bytes) :
    PLLDP.read v b = .ok (copyInto b (lldpWire v), min b.length (lldpWire v).length) := by
  obtain ⟨ty, ln, st, d, ty', ln', st', d', t3, l3, secs, rfl, hc, hp, _⟩ := lldp_shape v h
  have := lldp_read_copy (.obj "p.ChassisTLV" [.num ty, .num ln, .num st, .bytes d])
    (.obj "p.PortTLV" [.num ty', .num ln', .num st', .bytes d']) (.obj "p.TTLTLV" [.num t3, .num l3, .num secs])
    (tlvWire ty ln st d) (tlvWire ty' ln' st' d') (ttlWire t3 l3 secs) b rfl rfl rfl
    (by rw [tlvWire_length]; omega) (by rw [tlvWire_length]; omega)
  rw [this]
  simp only [lldpWire, List.length_append, Nat.add_assoc]

/-- … in particular into a buffer of at least `Len()` bytes: the buffer then begins with exactly the frame, and `Read`
    reports the frame's size (= `Len()`, `lldp_len`) -/
theorem lldp_read_frame (v : V) (h : LLDP.WFv v) (b : Bytes) (hb : (lldpWire v).length ≤ b.length) :
    PLLDP.read v b = .ok (lldpWire v ++ b.drop (lldpWire v).length, (lldpWire v).length) := by
  rw [lldp_read_any_buffer v h b, copyInto_prefix _ _ hb, Nat.min_eq_right hb]

example : LLDP.WFv lldpEx ∧ (lldpWire lldpEx).length ≤ (zeros 32).length := by decide

/-- … the TTL TLV is written: its 4 bytes stand behind the Chassis and Port TLVs -/
theorem lldp_read_ttl_at (ty ln st : Nat) (d : Bytes) (ty' ln' st' : Nat) (d' : Bytes) (t3 l3 secs : Nat)
    (h : LLDP.WFv (.obj "p.LLDP" [.obj "p.ChassisTLV" [.num ty, .num ln, .num st, .bytes d],
      .obj "p.PortTLV" [.num ty', .num ln', .num st', .bytes d'], .obj "p.TTLTLV" [.num t3, .num l3, .num secs]]))
    (b : Bytes) (hb : (3 + d.length) + (3 + d'.length) + 4 ≤ b.length) :
    ∃ b' n, PLLDP.read (.obj "p.LLDP" [.obj "p.ChassisTLV" [.num ty, .num ln, .num st, .bytes d],
        .obj "p.PortTLV" [.num ty', .num ln', .num st', .bytes d'], .obj "p.TTLTLV" [.num t3, .num l3, .num secs]]) b
        = .ok (b', n) ∧ n = (3 + d.length) + (3 + d'.length) + 4 ∧
      (b'.drop ((3 + d.length) + (3 + d'.length))).take 4 = ttlWire t3 l3 secs := by
  refine ⟨_, _, lldp_read_frame _ h b (by rw [lldp_wire_length]; exact hb), lldp_wire_length .., ?_⟩
  simp only [lldpWire, List.append_assoc]
  rw [← List.append_assoc, List.drop_left' (by simp only [List.length_append, tlvWire_length])]
  exact take_prefix 4 _ _ rfl

/-- a too-short buffer: with `k ≤` frame size bytes of room `Read` writes the first `k` bytes of the frame and reports
    `k` — no error is reported, the caller has to compare with `Len()` -/
theorem lldp_read_short_buffer (v : V) (h : LLDP.WFv v) (b : Bytes) (hb : b.length ≤ (lldpWire v).length) :
    PLLDP.read v b = .ok ((lldpWire v).take b.length, b.length) := by
  rw [lldp_read_any_buffer v h b, Nat.min_eq_left hb]
  simp [copyInto, List.drop_eq_nil_of_le hb]

/-- an LLDP value given by the fields of its three TLVs -/
def lldpOf (ty ln st : Nat) (d : Bytes) (ty' ln' st' : Nat) (d' : Bytes) (t3 l3 secs : Nat) : V :=
  .obj "p.LLDP" [.obj "p.ChassisTLV" [.num ty, .num ln, .num st, .bytes d],
    .obj "p.PortTLV" [.num ty', .num ln', .num st', .bytes d'], .obj "p.TTLTLV" [.num t3, .num l3, .num secs]]

/-- the receiver `new(LLDP)` with allocated TLVs (the zero value of the kind table) -/
def lldpZero : V := .obj "p.LLDP" [.obj "p.ChassisTLV" [.num 0, .num 0, .num 0, .bytes []],
  .obj "p.PortTLV" [.num 0, .num 0, .num 0, .bytes []], .obj "p.TTLTLV" [.num 0, .num 0, .num 0]]

/-- `lldpZero` is the zero value registered for the kind -/
example : (kindsProto.lookup "p.LLDP").map (·.zero) = some lldpZero := rfl

/-- DECODER, for ALL well-formed frames, any allocated receiver and anything behind the frame (nothing, the
    End-of-LLDPDU TLV `00 00`, further TLVs): `LLDP.Write` of the frame's wire bytes returns exactly the frame value —
    Chassis, Port AND TTL, whatever the receiver held — without error, and reports the frame's size -/
theorem lldp_write_own_frame (c1 c2 c3 c4 p1 p2 p3 p4 t1 t2 t3 : V) (v : V) (h : LLDP.WFv v) (tail : Bytes) :
    PLLDP.write (.obj "p.LLDP" [.obj "p.ChassisTLV" [c1, c2, c3, c4], .obj "p.PortTLV" [p1, p2, p3, p4],
        .obj "p.TTLTLV" [t1, t2, t3]]) (lldpWire v ++ tail) = .ok (v, (lldpWire v).length) := by
  obtain ⟨ty, ln, st, d, ty', ln', st', d', t3', l3, secs, rfl, ⟨h1, h2, h3, h4⟩, ⟨g1, g2, g3, g4⟩, k1, k2, k3⟩ :=
    lldp_shape v h
  rw [lldp_wire_length]
  simp only [lldpWire, List.append_assoc]
  rw [lldp_write_frame c1 c2 c3 c4 p1 p2 p3 p4 t1 t2 t3 ty ln st d ty' ln' st' d' t3' l3 secs tail
    h1 h2 h3 h4 g1 g2 g3 g4 k1 k2 k3, h4, g4]

example : LLDP.WFv (lldpOf 1 6 4 [0, 0x1b, 0x21, 0xaa, 0xbb, 0xcc] 2 3 5 [0x65, 0x74, 0x68] 3 2 120) := by decide

/-- a frame cut inside its TTL TLV (fewer than 4 bytes behind the Port TLV): `LLDP.Write` reports an error -/
theorem lldp_write_truncated (c1 c2 c3 c4 p1 p2 p3 p4 t1 t2 t3 : V) (a : V) (ha : ChassisTLV.WFv a) (p : V)
    (hp : PortTLV.WFv p) (rest : Bytes) (hr : rest.length < 4) :
    ∃ ab pb, PTLV.readBuf "p.ChassisTLV" a = .ok ab ∧ PTLV.readBuf "p.PortTLV" p = .ok pb ∧
      PLLDP.write (.obj "p.LLDP" [.obj "p.ChassisTLV" [c1, c2, c3, c4], .obj "p.PortTLV" [p1, p2, p3, p4],
        .obj "p.TTLTLV" [t1, t2, t3]]) (ab ++ (pb ++ rest)) = .err := by
  obtain ⟨ty, ln, st, d, rfl, a1, a2, a3, a4⟩ := chassis_shape a ha
  obtain ⟨ty', ln', st', d', rfl, b1, b2, b3, b4⟩ := port_shape p hp
  refine ⟨_, _, rfl, rfl, ?_⟩
  have := lldp_write_ttl_short c1 c2 c3 c4 p1 p2 p3 p4 t1 t2 t3 ty ln st d ty' ln' st' d' rest a1 a2 a3 a4 b1 b2 b3 b4 hr
  simp only [tlvWire] at this ⊢
  exact this

/-- where the TTL field of the result comes from, for ANY receiver and ANY input on which `LLDP.Write` succeeds: either
    the input ended before the third TLV (the Chassis or the Port call consumed nothing) and the receiver's TTL field is
    unchanged, or it is what `TTLTLV.Write` decodes, without error, behind the bytes the Chassis and Port calls consumed -/
theorem lldp_write_ttl_decoded (c p t : V) (b : Bytes) (w : V) (n : Nat)
    (h : PLLDP.write (.obj "p.LLDP" [c, p, t]) b = .ok (w, n)) :
    ∃ c' p' t', w = .obj "p.LLDP" [c', p', t'] ∧
      (t' = t ∨ ∃ m o q, 0 < m ∧ 0 < o ∧ n = m + o + q ∧ PTLV.ttlWrite t (b.drop (m + o)) = .ok (q, false, t')) := by
  unfold PLLDP.write at h
  obtain ⟨⟨m, e1, ch1⟩, _, g1⟩ := bind_ok_inv _ _ _ h
  simp only at g1
  split at g1
  · split at g1
    · cases g1
    · cases g1; exact ⟨_, _, _, rfl, Or.inl rfl⟩
  · rename_i hm
    obtain ⟨⟨o, e2, pt1⟩, _, g2⟩ := bind_ok_inv _ _ _ g1
    simp only at g2
    split at g2
    · split at g2
      · cases g2
      · cases g2; exact ⟨_, _, _, rfl, Or.inl rfl⟩
    · rename_i ho
      obtain ⟨⟨q, e3, t1⟩, g4, g3⟩ := bind_ok_inv _ _ _ g2
      simp only at g3
      split at g3
      · cases g3
      · rename_i he
        cases g3
        have he' : e3 = false := by simpa using he
        subst he'
        exact ⟨_, _, _, rfl, Or.inr ⟨m, o, q, by omega, by omega, rfl, g4⟩⟩

/-- `LldpRoundTrip v` (a kind with `Len`/`Read`/`Write` only): the three TLVs' own `Read` produce `cb`, `pb`, `tb`;
    `Len()` is the size of `bs = cb ++ pb ++ tb` and leaves `v` alone; `Read` into any buffer of at least `Len()` bytes
    writes exactly `bs` at its start (rest untouched) and reports `Len()`; `Write` of `bs` — followed by anything — into
    any allocated receiver gives back exactly `v`, without error, and reports `Len()` bytes consumed -/
def LldpRoundTrip (v : V) : Prop :=
  ∃ c p t cb pb tb bs l, v = .obj "p.LLDP" [c, p, t] ∧
    PTLV.readBuf "p.ChassisTLV" c = .ok cb ∧ PTLV.readBuf "p.PortTLV" p = .ok pb ∧ PTLV.ttlReadBuf t = .ok tb ∧
    bs = cb ++ (pb ++ tb) ∧ PLLDP.lenM v = .ok (l, v) ∧ l.toNat = bs.length ∧
    (∀ b, l.toNat ≤ b.length → PLLDP.read v b = .ok (bs ++ b.drop l.toNat, l.toNat)) ∧
    ∀ c1 c2 c3 c4 p1 p2 p3 p4 t1 t2 t3 tail,
      PLLDP.write (.obj "p.LLDP" [.obj "p.ChassisTLV" [c1, c2, c3, c4], .obj "p.PortTLV" [p1, p2, p3, p4],
        .obj "p.TTLTLV" [t1, t2, t3]]) (bs ++ tail) = .ok (v, l.toNat)

/-- THE LLDP FRAME ROUND TRIP: every LLDP value whose three TLVs are well-formed round-trips —
    `Write (Read v) = v`, `Len()` = number of bytes `Read` writes = number of bytes `Write` consumes -/
theorem lldp_roundtrip (v : V) (h : LLDP.WFv v) : LldpRoundTrip v := by
  obtain ⟨c, p, t, cb, pb, tb, hv, r1, r2, r3, hw⟩ := lldp_wire_parts v h
  obtain ⟨l, hl1, hl2⟩ := lldp_len v h
  refine ⟨c, p, t, cb, pb, tb, lldpWire v, l, hv, r1, r2, r3, hw, hl1, hl2, ?_, ?_⟩
  · intro b hb
    rw [hl2] at hb ⊢
    exact lldp_read_frame v h b hb
  · intro c1 c2 c3 c4 p1 p2 p3 p4 t1 t2 t3 tail
    rw [hl2]
    exact lldp_write_own_frame c1 c2 c3 c4 p1 p2 p3 p4 t1 t2 t3 v h tail

/-- re-encoding the decoded frame reproduces the bytes: whatever `Write` makes of `bs ++ tail`, `Read` of it into any
    buffer that is long enough writes `bs` again -/
theorem LldpRoundTrip.reencode {v : V} (h : LldpRoundTrip v) :
    ∃ bs, (∀ b, bs.length ≤ b.length → PLLDP.read v b = .ok (bs ++ b.drop bs.length, bs.length)) ∧
      ∀ c1 c2 c3 c4 p1 p2 p3 p4 t1 t2 t3 tail w n,
        PLLDP.write (.obj "p.LLDP" [.obj "p.ChassisTLV" [c1, c2, c3, c4], .obj "p.PortTLV" [p1, p2, p3, p4],
          .obj "p.TTLTLV" [t1, t2, t3]]) (bs ++ tail) = .ok (w, n) →
        n = bs.length ∧ ∀ b, bs.length ≤ b.length → PLLDP.read w b = .ok (bs ++ b.drop bs.length, bs.length) := by
  obtain ⟨c, p, t, cb, pb, tb, bs, l, _, _, _, _, _, _, hl, hr, hw⟩ := h
  rw [hl] at hr hw
  refine ⟨bs, hr, ?_⟩
  intro c1 c2 c3 c4 p1 p2 p3 p4 t1 t2 t3 tail w n hwn
  rw [hw] at hwn
  cases hwn
  exact ⟨rfl, hr⟩

/-- the round trip with the bytes spelled out (replayable on the Go library): the frame `lldpEx` — chassis id MAC
    00:1b:21:aa:bb:cc, port id "eth", TTL 120 s; 19 bytes `02 06 04 00 1b 21 aa bb cc | 04 03 05 65 74 68 | 06 02 00 78` —
    (a) `Read` into a 32-byte zero buffer reports 19 bytes and leaves the 19 frame bytes at the start of the buffer;
    (b) `Write` of the 19 wire bytes into `new(LLDP)` returns `lldpEx` and 19;
    (c) so does `Write` of the 19 wire bytes + End-of-LLDPDU (`00 00`);
    (d) `Read` into a 12-byte buffer reports 12 and writes the first 12 bytes of the frame -/
theorem lldp_roundtrip_example :
    PLLDP.read lldpEx (zeros 32)
      = .ok ([2, 6, 4, 0, 0x1b, 0x21, 0xaa, 0xbb, 0xcc, 4, 3, 5, 0x65, 0x74, 0x68, 6, 2, 0, 120] ++ zeros 13, 19) ∧
    PLLDP.write lldpZero [2, 6, 4, 0, 0x1b, 0x21, 0xaa, 0xbb, 0xcc, 4, 3, 5, 0x65, 0x74, 0x68, 6, 2, 0, 120] = .ok (lldpEx, 19) ∧
    PLLDP.write lldpZero [2, 6, 4, 0, 0x1b, 0x21, 0xaa, 0xbb, 0xcc, 4, 3, 5, 0x65, 0x74, 0x68, 6, 2, 0, 120, 0, 0]
      = .ok (lldpEx, 19) ∧
    PLLDP.read lldpEx (zeros 12) = .ok ([2, 6, 4, 0, 0x1b, 0x21, 0xaa, 0xbb, 0xcc, 4, 3, 5], 12) :=
  ⟨rfl, rfl, rfl, rfl⟩


/-! ## 4. DHCP — one option -/

/-- well-formed DHCP option value: an 8-bit tag other than the end marker 255 (the end marker is written by the
    encoder itself and never returned by the decoder, `dhcpoption_end_lost`), at most 253 data bytes (so that the length
    fits the length byte and `DHCPMarshalOption` accepts it), and a pad option (tag 0) carries no data (nothing but the
    tag byte reaches the wire, `dhcpoption_pad_carries_no_data`) -/
def DhcpOption.WFv : V → Prop
  | .obj "p.dhcpoption" [.num t, .bytes d] => t < 255 ∧ d.length ≤ 253 ∧ (t = 0 → d = [])
  | _ => False
instance : DecidablePred DhcpOption.WFv := fun v => by unfold DhcpOption.WFv; split <;> infer_instance

/-- the predicate is the one the helper lemmas are stated with -/
theorem dhcpoption_wf_iff (o : V) : DhcpOption.WFv o ↔ DhcpOptOK o := by
  unfold DhcpOption.WFv DhcpOptOK
  split <;> simp

/-- `DhcpOptionRoundTrip o`: `DHCPMarshalOption o` succeeds with bytes `bs`; `Len()` reports `bs.length`;
    `DHCPParseOptions` of `bs` — alone (with any spare capacity behind the slice), or followed by the end marker and
    arbitrary further bytes inside the slice — returns exactly `[o]` -/
def DhcpOptionRoundTrip (o : V) : Prop :=
  ∃ bs l, PDhcpOpt.marshalOption o = .ok bs ∧ PDhcpOpt.len o = .ok l ∧ bs.length = l.toNat ∧
    (∀ spare, PDhcpOpt.parseOptions ⟨bs ++ spare, bs.length⟩ = .ok [o]) ∧
    ∀ tail n, bs.length < n → PDhcpOpt.parseOptions ⟨bs ++ (255 :: tail), n⟩ = .ok [o]

/-- value, bytes and size of ANY well-formed option (pad included) round-trip, with the bytes and the size named:
    the wire form is `dhcpOptWire o` (the single byte 0 for a pad, else tag, length, data) and `Len()` is its length -/
theorem dhcpoption_codec (o : V) (h : DhcpOption.WFv o) :
    ∃ bs l, PDhcpOpt.marshalOption o = .ok bs ∧ PDhcpOpt.len o = .ok l ∧ l.toNat = bs.length ∧ bs = dhcpOptWire o ∧
      (∀ spare, PDhcpOpt.parseOptions ⟨bs ++ spare, bs.length⟩ = .ok [o]) ∧
      ∀ tail n, bs.length < n → PDhcpOpt.parseOptions ⟨bs ++ (255 :: tail), n⟩ = .ok [o] := by
  have hk := (dhcpoption_wf_iff o).mp h
  have hall : ∀ x ∈ [o], DhcpOptOK x := by intro x hx; simp at hx; subst hx; exact hk
  obtain ⟨w1, _⟩ := dhcp_wire_len o hk
  refine ⟨dhcpOptWire o, n16 (dhcpOptLen o), dhcp_marshalOption o hk, dhcp_opt_len o hk, ?_, rfl, ?_, ?_⟩
  · obtain ⟨t, d, rfl, _, h2, _⟩ := dhcp_opt_shape o hk
    rw [n16_toNat _ (by simp only [dhcpOptLen]; split <;> omega)]
    omega
  · intro spare
    have := dhcp_parse_exact [o] hall spare
    rwa [dhcp_one] at this
  · intro tail n hn
    have := dhcp_parse_end [o] hall tail n (by rwa [dhcp_one])
    rwa [dhcp_one] at this

/-- EVERY well-formed option round-trips — an ordinary one (tag, length byte, data) and a pad option (the single byte
    0) alike; `Len()` = bytes on the wire -/
theorem dhcpoption_roundtrip (o : V) (h : DhcpOption.WFv o) : DhcpOptionRoundTrip o := by
  obtain ⟨bs, l, h1, h2, h3, _, h4, h5⟩ := dhcpoption_codec o h
  exact ⟨bs, l, h1, h2, h3.symm, h4, h5⟩

example : DhcpOption.WFv (.obj "p.dhcpoption" [.num 61, .bytes [1, 0xaa, 0xbb, 0xcc, 0xdd, 0xee, 0xff]]) := by decide

example : DhcpOption.WFv (.obj "p.dhcpoption" [.num 0, .bytes []]) := by decide

/-- the pad option with its bytes spelled out: it is the single byte 0, `Len()` says 1, and it comes back as a pad
    option — the full `DhcpOptionRoundTrip` -/
theorem dhcpoption_pad_roundtrip :
    PDhcpOpt.marshalOption (.obj "p.dhcpoption" [.num 0, .bytes []]) = .ok [0] ∧
    PDhcpOpt.len (.obj "p.dhcpoption" [.num 0, .bytes []]) = .ok 1 ∧
    (∀ spare, PDhcpOpt.parseOptions ⟨[0] ++ spare, 1⟩ = .ok [.obj "p.dhcpoption" [.num 0, .bytes []]]) ∧
    (∀ tail n, 1 < n → PDhcpOpt.parseOptions ⟨[0] ++ (255 :: tail), n⟩ = .ok [.obj "p.dhcpoption" [.num 0, .bytes []]]) ∧
    DhcpOptionRoundTrip (.obj "p.dhcpoption" [.num 0, .bytes []]) := by
  obtain ⟨bs, l, h1, _, _, _, h4, h5⟩ := dhcpoption_codec (.obj "p.dhcpoption" [.num 0, .bytes []]) (by decide)
  have e : PDhcpOpt.marshalOption (.obj "p.dhcpoption" [.num 0, .bytes []]) = .ok [0] := rfl
  rw [e] at h1
  cases h1
  exact ⟨rfl, rfl, h4, h5, dhcpoption_roundtrip _ (by decide)⟩

/-- `dhcpoption.Len()` of a pad option is 1 whatever data the value holds, the one byte `DHCPMarshalOption` writes -/
theorem dhcpoption_pad_len (d : Bytes) :
    PDhcpOpt.len (.obj "p.dhcpoption" [.num 0, .bytes d]) = .ok 1 ∧
    PDhcpOpt.marshalOption (.obj "p.dhcpoption" [.num 0, .bytes d]) = .ok [0] := ⟨rfl, rfl⟩

/-- why `DhcpOption.WFv` excludes tag 255: the end marker is one byte on the wire (and `Len()` says 1), but
    `DHCPParseOptions` stops at it without returning it — the option is lost -/
theorem dhcpoption_end_lost :
    PDhcpOpt.marshalOption (.obj "p.dhcpoption" [.num 255, .bytes []]) = .ok [255] ∧
    PDhcpOpt.len (.obj "p.dhcpoption" [.num 255, .bytes []]) = .ok 1 ∧
    PDhcpOpt.parseOptions (Slice.exact [255]) = .ok [] := ⟨rfl, rfl, rfl⟩

/-- why a pad option must have no data: only the tag byte reaches the wire, the data is dropped -/
theorem dhcpoption_pad_carries_no_data :
    PDhcpOpt.marshalOption (.obj "p.dhcpoption" [.num 0, .bytes [1, 2]]) = .ok [0] ∧
    PDhcpOpt.parseOptions (Slice.exact [0]) = .ok [.obj "p.dhcpoption" [.num 0, .bytes []]] := ⟨rfl, rfl⟩

/-- why the data is limited to 253 bytes: `DHCPMarshalOption` refuses 254 (although 254 and 255 fit the length byte) -/
theorem dhcpoption_254_refused (d : Bytes) (h : d.length = 254) :
    PDhcpOpt.marshalOption (.obj "p.dhcpoption" [.num 12, .bytes d]) = .err := by
  simp [PDhcpOpt.marshalOption, PDhcpOpt.tag, PDhcpOpt.data, PDhcpOpt.isPadOrEnd, h, n8,
    Gen.protocol.DHCP_OPT_PAD, Gen.protocol.DHCP_OPT_END]

example : (zeros 254).length = 254 := zeros_length 254

/-! ## 5. DHCP — option lists -/

/-- a list of well-formed options (pads and ordinary options mixed in any order) is encoded as the concatenation of
    the options' encodings in order — as many bytes as the options' `Len()` add up to — and `DHCPParseOptions` returns
    exactly the list, in order — from the bytes alone, or from the bytes followed by the end marker and anything behind it -/
theorem dhcpoptions_roundtrip (os : List V) (h : ∀ o ∈ os, DhcpOption.WFv o) :
    ∃ bs, PDHCP.optBytes os = .ok bs ∧ bs.length = (os.map dhcpOptLen).sum ∧
      PDHCP.optLens os = .ok (os.map (fun o => n16 (dhcpOptLen o))) ∧
      (∀ spare, PDhcpOpt.parseOptions ⟨bs ++ spare, bs.length⟩ = .ok os) ∧
      ∀ tail n, bs.length < n → PDhcpOpt.parseOptions ⟨bs ++ (255 :: tail), n⟩ = .ok os := by
  have hk : ∀ o ∈ os, DhcpOptOK o := fun o ho => (dhcpoption_wf_iff o).mp (h o ho)
  obtain ⟨e1, _, e3, e4, _⟩ := dhcp_opts_enc os hk
  exact ⟨dhcpOptsWire os, e1, e4, e3, dhcp_parse_exact os hk, dhcp_parse_end os hk⟩

example : ∀ o ∈ [V.obj "p.dhcpoption" [.num 53, .bytes [1]], .obj "p.dhcpoption" [.num 0, .bytes []],
    .obj "p.dhcpoption" [.num 55, .bytes [1, 3, 6]]], DhcpOption.WFv o := by decide

/-- the list above on the wire, and back -/
example :
    PDHCP.optBytes [.obj "p.dhcpoption" [.num 53, .bytes [1]], .obj "p.dhcpoption" [.num 0, .bytes []],
      .obj "p.dhcpoption" [.num 55, .bytes [1, 3, 6]]] = .ok [53, 1, 1, 0, 55, 3, 1, 3, 6] ∧
    PDhcpOpt.parseOptions (Slice.exact [53, 1, 1, 0, 55, 3, 1, 3, 6, 255, 0, 0]) =
      .ok [.obj "p.dhcpoption" [.num 53, .bytes [1]], .obj "p.dhcpoption" [.num 0, .bytes []],
        .obj "p.dhcpoption" [.num 55, .bytes [1, 3, 6]]] := ⟨rfl, rfl⟩

/-- why the end marker may not appear inside a list: everything behind it is encoded but never decoded -/
theorem dhcpoptions_after_end_lost :
    PDHCP.optBytes [.obj "p.dhcpoption" [.num 53, .bytes [1]], .obj "p.dhcpoption" [.num 255, .bytes []],
      .obj "p.dhcpoption" [.num 54, .bytes [10, 0, 0, 1]]] = .ok [53, 1, 1, 255, 54, 4, 10, 0, 0, 1] ∧
    PDhcpOpt.parseOptions (Slice.exact [53, 1, 1, 255, 54, 4, 10, 0, 0, 1]) = .ok [.obj "p.dhcpoption" [.num 53, .bytes [1]]] :=
  ⟨rfl, rfl⟩


/-! ## 6. DHCP — the message -/

/-- `DHCP.Len / Read / Write / new(DHCP)` packaged as the operations of a kind: "marshal" is the content of the buffer
    `Read` fills (the receiver is not modified), "unmarshal" is `Write` applied to the visible bytes of the slice -/
def kDHCP : KindOps :=
  ⟨PDHCP.lenM, fun v => do let b ← PDHCP.readBuf v; same b v,
   fun recv d => do let r ← PDHCP.write recv d.bytes; .ok r.1, PDHCP.zero⟩

/-- well-formed DHCP message: fixed fields within their widths, four 4-byte addresses, a hardware address of exactly
    `HardwareLen ≤ 16` bytes, 64-byte server name and 128-byte file (Go arrays), well-formed options, total size
    (240 fixed bytes, the options' bytes, the end marker) within the 16-bit `Len()` -/
def DHCP.WFv : V → Prop
  | .obj "p.DHCP" [.num op, .num ht, .num hl, .num ho, .num xid, .num secs, .num fl, .bytes cip, .bytes yip, .bytes sip,
      .bytes gip, .bytes hw, .bytes sname, .bytes file, .list os] =>
    op < 256 ∧ ht < 256 ∧ hl < 256 ∧ ho < 256 ∧ xid < 4294967296 ∧ secs < 65536 ∧ fl < 65536 ∧
    cip.length = 4 ∧ yip.length = 4 ∧ sip.length = 4 ∧ gip.length = 4 ∧ hw.length = hl ∧ hl ≤ 16 ∧
    sname.length = 64 ∧ file.length = 128 ∧ (∀ o ∈ os, DhcpOption.WFv o) ∧ 240 + (os.map dhcpOptLen).sum + 1 < 65536
  | _ => False
instance : DecidablePred DHCP.WFv := fun v => by unfold DHCP.WFv; split <;> infer_instance

/-- value, bytes and size of EVERY well-formed message round-trip (pad options included), stated with the pieces
    named: `Read` produces `bs` — 240 fixed bytes with the magic cookie, the options in order, the end marker; `Len()` =
    `bs.length`; `Write` of `bs`, followed by anything, into any receiver gives back exactly `v` (all fixed fields, the
    four addresses, the hardware address, server name, file, every option) and reports the whole input as consumed -/
theorem dhcp_codec (v : V) (h : DHCP.WFv v) :
    ∃ bs l, PDHCP.readBuf v = .ok bs ∧ PDHCP.len v = .ok l ∧ l.toNat = bs.length ∧
      (∀ n, bs.length ≤ n → PDHCP.read v n = .ok bs) ∧
      ∀ recv tail, PDHCP.write recv (bs ++ tail) = .ok (v, bs.length + tail.length) := by
  unfold DHCP.WFv at h
  split at h
  · rename_i op ht hl ho xid secs fl cip yip sip gip hw sname file os
    obtain ⟨h1, h2, h3, h4, h5, h6, h7, c1, c2, c3, c4, c5, c6, c7, c8, hos, hsz⟩ := h
    have hk : ∀ o ∈ os, DhcpOptOK o := fun o ho => (dhcpoption_wf_iff o).mp (hos o ho)
    obtain ⟨_, _, _, e4, _⟩ := dhcp_opts_enc os hk
    obtain ⟨l, hl1, hl2⟩ := dhcp_len (.num op) (.num ht) (.num hl) (.num ho) (.num xid) (.num secs) (.num fl) (.bytes cip)
      (.bytes yip) (.bytes sip) (.bytes gip) (.bytes hw) (.bytes sname) (.bytes file) os hk hsz
    have hfl := dhcpFixed_length op ht hl ho xid secs fl cip yip sip gip hw sname file
    have hrb := dhcp_readBuf op ht hl ho xid secs fl cip yip sip gip hw sname file os hk
    refine ⟨_, l, hrb, hl1, ?_, ?_, ?_⟩
    · simp only [List.length_append, hfl, List.length_cons, List.length_nil]
      omega
    · intro n hn
      simp only [PDHCP.read, hrb, Res.bind_ok]
      rw [List.take_of_length_le hn]
    · intro recv tail
      have hb : dhcpFixed op ht hl ho xid secs fl cip yip sip gip hw sname file ++ (dhcpOptsWire os ++ [255]) ++ tail
          = dhcpFixed op ht hl ho xid secs fl cip yip sip gip hw sname file ++ (dhcpOptsWire os ++ (255 :: tail)) := by
        simp only [List.append_assoc, List.cons_append, List.nil_append]
      rw [hb, dhcp_write_fixed recv op ht hl ho xid secs fl cip yip sip gip hw sname file _ h1 h2 h3 h4 h5 h6 h7
        c1 c2 c3 c4 c5 c6 c7 c8]
      have hp : PDhcpOpt.parseOptions (Slice.exact (dhcpOptsWire os ++ (255 :: tail))) = .ok os :=
        dhcp_parse_end os hk tail _ (by simp)
      rw [hp]
      simp only [Res.bind_ok, List.length_append, hfl, List.length_cons, List.length_nil]
      apply ok_count
      omega
  · exact h.elim

/-- EVERY well-formed DHCP message — with or without pad options — round-trips in the full C09 sense:
    decode(encode v) = v, re-encoding reproduces the bytes (`RoundTrip.reencode`), `Len()` = bytes; bytes behind the end
    marker are ignored -/
theorem dhcp_roundtrip (v : V) (h : DHCP.WFv v) : RoundTripPrefix kDHCP v := by
  obtain ⟨bs, l, h1, h2, h3, _, h5⟩ := dhcp_codec v h
  refine ⟨bs, l, ?_, ?_, by omega, ?_⟩
  · simp only [kDHCP, h1, Res.bind_ok, same]
  · simp only [kDHCP, PDHCP.lenM, h2, Res.bind_ok, same]
  · intro tail n hn1 _
    simp only [kDHCP, Slice.bytes, take_app_ge bs tail n hn1, h5, Res.bind_ok]

/-- … and the byte count `Write` reports for exactly the encoding is the reported size -/
theorem dhcp_roundtrip_count (v : V) (h : DHCP.WFv v) :
    ∃ bs l, PDHCP.readBuf v = .ok bs ∧ PDHCP.len v = .ok l ∧ ∀ recv, PDHCP.write recv bs = .ok (v, l.toNat) := by
  obtain ⟨bs, l, h1, h2, h3, _, h5⟩ := dhcp_codec v h
  refine ⟨bs, l, h1, h2, ?_⟩
  intro recv
  have := h5 recv []
  simp only [List.append_nil, List.length_nil] at this
  rw [this]
  apply ok_count
  omega


/-- a DHCP request with three options (message type, a pad, client id) -/
def dhcpEx : V := .obj "p.DHCP" [.num 1, .num 1, .num 6, .num 0, .num 0xdeadbeef, .num 3, .num 0x8000,
  .bytes [0, 0, 0, 0], .bytes [10, 0, 0, 5], .bytes [10, 0, 0, 1], .bytes [0, 0, 0, 0], .bytes [0xaa, 0xbb, 0xcc, 0xdd, 0xee, 0xff],
  .bytes (zeros 64), .bytes (zeros 128),
  .list [.obj "p.dhcpoption" [.num 53, .bytes [3]], .obj "p.dhcpoption" [.num 0, .bytes []],
    .obj "p.dhcpoption" [.num 61, .bytes [1, 0xaa, 0xbb, 0xcc, 0xdd, 0xee, 0xff]]]]

example : DHCP.WFv dhcpEx := by decide

/-- the same without the pad option -/
def dhcpEx2 : V := .obj "p.DHCP" [.num 1, .num 1, .num 6, .num 0, .num 0xdeadbeef, .num 3, .num 0x8000,
  .bytes [0, 0, 0, 0], .bytes [10, 0, 0, 5], .bytes [10, 0, 0, 1], .bytes [0, 0, 0, 0], .bytes [0xaa, 0xbb, 0xcc, 0xdd, 0xee, 0xff],
  .bytes (zeros 64), .bytes (zeros 128),
  .list [.obj "p.dhcpoption" [.num 53, .bytes [3]],
    .obj "p.dhcpoption" [.num 61, .bytes [1, 0xaa, 0xbb, 0xcc, 0xdd, 0xee, 0xff]]]]

example : DHCP.WFv dhcpEx2 := by decide

/-- the messages the library's own constructors build are well-formed: `NewDHCPDiscover(xid, mac)` -/
example : ∃ v, PDHCP.newMsg 1 true 0x1234 [0xaa, 0xbb, 0xcc, 0xdd, 0xee, 0xff] = .ok v ∧ DHCP.WFv v :=
  ⟨_, rfl, by decide⟩


/-- size of a message WITH a pad option, bytes spelled out: `dhcpEx` (one pad option) is 254 bytes on the wire —
    options `53 1 3 | 0 | 61 7 01 aa bb cc dd ee ff | 255` behind the 240 fixed bytes — `Write` consumes 254 and returns
    `dhcpEx`, and `Len()` reports 254 -/
theorem dhcp_pad_len_exact :
    PDHCP.len dhcpEx = .ok 254 ∧
    ∃ bs, PDHCP.readBuf dhcpEx = .ok bs ∧ bs.length = 254 ∧
      bs.drop 240 = [53, 1, 3, 0, 61, 7, 1, 0xaa, 0xbb, 0xcc, 0xdd, 0xee, 0xff, 255] ∧
      PDHCP.write PDHCP.zero bs = .ok (dhcpEx, 254) := by
  refine ⟨rfl, ?_⟩
  obtain ⟨bs, l, h1, _, _, _, h5⟩ := dhcp_codec dhcpEx (by decide)
  have hb : PDHCP.readBuf dhcpEx = .ok (dhcpFixed 1 1 6 0 0xdeadbeef 3 0x8000 [0, 0, 0, 0] [10, 0, 0, 5] [10, 0, 0, 1] [0, 0, 0, 0]
      [0xaa, 0xbb, 0xcc, 0xdd, 0xee, 0xff] (zeros 64) (zeros 128) ++ [53, 1, 3, 0, 61, 7, 1, 0xaa, 0xbb, 0xcc, 0xdd, 0xee, 0xff, 255]) :=
    dhcp_readBuf 1 1 6 0 0xdeadbeef 3 0x8000 [0, 0, 0, 0] [10, 0, 0, 5] [10, 0, 0, 1] [0, 0, 0, 0]
      [0xaa, 0xbb, 0xcc, 0xdd, 0xee, 0xff] (zeros 64) (zeros 128) _ (by decide)
  have hl := dhcpFixed_length 1 1 6 0 0xdeadbeef 3 0x8000 [0, 0, 0, 0] [10, 0, 0, 5] [10, 0, 0, 1] [0, 0, 0, 0]
      [0xaa, 0xbb, 0xcc, 0xdd, 0xee, 0xff] (zeros 64) (zeros 128)
  rw [hb] at h1
  cases h1
  refine ⟨_, hb, by rw [List.length_append, hl]; rfl, List.drop_left' hl, ?_⟩
  have := h5 PDHCP.zero []
  simp only [List.append_nil, List.length_nil, List.length_append, hl] at this
  exact this


/-! ### hardware-address length handling: why `DHCP.WFv` demands `len(ClientHWAddr) = HardwareLen ≤ 16` -/

/-- a DHCP value given by its fields -/
def dhcpOf (op ht hl ho xid secs fl : Nat) (cip yip sip gip hw sname file : Bytes) (os : List V) : V :=
  .obj "p.DHCP" [.num op, .num ht, .num hl, .num ho, .num xid, .num secs, .num fl, .bytes cip, .bytes yip, .bytes sip,
    .bytes gip, .bytes hw, .bytes sname, .bytes file, .list os]

/-- the field conditions of `DHCP.WFv` other than those on the hardware address -/
def DhcpFieldsOK (op ht hl ho xid secs fl : Nat) (cip yip sip gip sname file : Bytes) (os : List V) : Prop :=
  op < 256 ∧ ht < 256 ∧ hl < 256 ∧ ho < 256 ∧ xid < 4294967296 ∧ secs < 65536 ∧ fl < 65536 ∧
    cip.length = 4 ∧ yip.length = 4 ∧ sip.length = 4 ∧ gip.length = 4 ∧
    sname.length = 64 ∧ file.length = 128 ∧ (∀ o ∈ os, DhcpOption.WFv o)
instance (op ht hl ho xid secs fl : Nat) (cip yip sip gip sname file : Bytes) (os : List V) :
    Decidable (DhcpFieldsOK op ht hl ho xid secs fl cip yip sip gip sname file os) := by
  unfold DhcpFieldsOK; infer_instance

/-- the encoder always writes 16 hardware-address bytes (the address zero-padded or cut), the decoder returns the first
    `HardwareLen` of them: a message whose address length differs from `HardwareLen` comes back with a DIFFERENT address
    (cut, or padded with zeros); everything else is preserved, and re-encoding the decoded message reproduces the bytes
    only if the dropped bytes were zero.  The strongest statement for such values: -/
theorem dhcp_hwaddr_len_partial (op ht hl ho xid secs fl : Nat) (cip yip sip gip hw sname file : Bytes) (os : List V)
    (h : DhcpFieldsOK op ht hl ho xid secs fl cip yip sip gip sname file os) (hhl : hl ≤ 16) :
    ∃ bs, PDHCP.readBuf (dhcpOf op ht hl ho xid secs fl cip yip sip gip hw sname file os) = .ok bs ∧
      ∀ recv tail, PDHCP.write recv (bs ++ tail) =
        .ok (dhcpOf op ht hl ho xid secs fl cip yip sip gip ((hw.take 16 ++ zeros (16 - hw.length)).take hl) sname file os,
          bs.length + tail.length) := by
  obtain ⟨h1, h2, h3, h4, h5, h6, h7, c1, c2, c3, c4, c7, c8, hos⟩ := h
  have hk : ∀ o ∈ os, DhcpOptOK o := fun o ho => (dhcpoption_wf_iff o).mp (hos o ho)
  have hfl := dhcpFixed_length op ht hl ho xid secs fl cip yip sip gip hw sname file
  refine ⟨_, dhcp_readBuf op ht hl ho xid secs fl cip yip sip gip hw sname file os hk, ?_⟩
  intro recv tail
  have hb : dhcpFixed op ht hl ho xid secs fl cip yip sip gip hw sname file ++ (dhcpOptsWire os ++ [255]) ++ tail
      = dhcpFixed op ht hl ho xid secs fl cip yip sip gip (hw.take 16) sname file ++ (dhcpOptsWire os ++ (255 :: tail)) := by
    rw [dhcpFixed_hw_take]
    simp only [List.append_assoc, List.cons_append, List.nil_append]
  rw [hb, dhcp_write_fixed_gen recv op ht hl ho xid secs fl cip yip sip gip (hw.take 16) sname file _ h1 h2 h3 h4 h5 h6 h7
    (by simp; omega) c7 c8, if_neg (by omega), ip4_four cip c1, ip4_four yip c2, ip4_four sip c3, ip4_four gip c4]
  have hp : PDhcpOpt.parseOptions (Slice.exact (dhcpOptsWire os ++ (255 :: tail))) = .ok os :=
    dhcp_parse_end os hk tail _ (by simp)
  rw [hp]
  simp only [Res.bind_ok, List.length_append, hfl, List.length_cons, List.length_nil, dhcpOf, List.length_take]
  have e16 : 16 - min 16 hw.length = 16 - hw.length := by omega
  rw [e16]
  apply ok_count
  omega

/-- instance: HardwareLen 6 with a 16-byte address buffer, every other field in range -/
example : DhcpFieldsOK 1 1 6 0 7 0 0 [0, 0, 0, 0] [0, 0, 0, 0] [0, 0, 0, 0] [0, 0, 0, 0] (zeros 64) (zeros 128)
    [.obj "p.dhcpoption" [.num 53, .bytes [1]]] ∧ (6 : Nat) ≤ 16 := by decide

/-- a `HardwareLen` above 16 — even with an address of exactly that many bytes — is encoded (the address cut to 16
    bytes) but REJECTED by the decoder ("Bad DHCP hardware address length"): `Write (Read v)` fails -/
theorem dhcp_hwlen_over_16_rejected (op ht hl ho xid secs fl : Nat) (cip yip sip gip hw sname file : Bytes) (os : List V)
    (h : DhcpFieldsOK op ht hl ho xid secs fl cip yip sip gip sname file os) (hhl : 16 < hl) :
    ∃ bs, PDHCP.readBuf (dhcpOf op ht hl ho xid secs fl cip yip sip gip hw sname file os) = .ok bs ∧
      ∀ recv tail, PDHCP.write recv (bs ++ tail) = .err := by
  obtain ⟨h1, h2, h3, h4, h5, h6, h7, c1, c2, c3, c4, c7, c8, hos⟩ := h
  have hk : ∀ o ∈ os, DhcpOptOK o := fun o ho => (dhcpoption_wf_iff o).mp (hos o ho)
  refine ⟨_, dhcp_readBuf op ht hl ho xid secs fl cip yip sip gip hw sname file os hk, ?_⟩
  intro recv tail
  rw [dhcpFixed_hw_take, List.append_assoc,
    dhcp_write_fixed_gen recv op ht hl ho xid secs fl cip yip sip gip (hw.take 16) sname file _ h1 h2 h3 h4 h5 h6 h7
    (by simp; omega) c7 c8, if_pos hhl]

/-- instance: HardwareLen 20 with a 20-byte address (InfiniBand-style), every other field in range -/
example : DhcpFieldsOK 1 32 20 0 7 0 0 [0, 0, 0, 0] [0, 0, 0, 0] [0, 0, 0, 0] [0, 0, 0, 0] (zeros 64) (zeros 128)
    [.obj "p.dhcpoption" [.num 53, .bytes [1]]] ∧ (16 : Nat) < 20 := by decide

/-- DEFECT witness (field not preserved): the value `NewDHCP(7, 1, DHCP_HW_ETHERNET)` itself — HardwareLen 0 but
    `ClientHWAddr = make([]byte, 16)` — comes back from `Write (Read v)` with an EMPTY hardware address -/
theorem dhcp_new_hwaddr_not_preserved :
    PDHCP.new 7 1 1 = .ok (dhcpOf 1 1 0 0 7 0 0 (zeros 4) (zeros 4) (zeros 4) (zeros 4) (zeros 16) (zeros 64) (zeros 128) []) ∧
    ∃ bs, PDHCP.readBuf (dhcpOf 1 1 0 0 7 0 0 (zeros 4) (zeros 4) (zeros 4) (zeros 4) (zeros 16) (zeros 64) (zeros 128) []) = .ok bs ∧
      bs.length = 241 ∧
      PDHCP.write PDHCP.zero bs
        = .ok (dhcpOf 1 1 0 0 7 0 0 (zeros 4) (zeros 4) (zeros 4) (zeros 4) [] (zeros 64) (zeros 128) [], 241) ∧
      dhcpOf 1 1 0 0 7 0 0 (zeros 4) (zeros 4) (zeros 4) (zeros 4) [] (zeros 64) (zeros 128) []
        ≠ dhcpOf 1 1 0 0 7 0 0 (zeros 4) (zeros 4) (zeros 4) (zeros 4) (zeros 16) (zeros 64) (zeros 128) [] := by
  refine ⟨rfl, ?_⟩
  obtain ⟨bs, h1, h2⟩ := dhcp_hwaddr_len_partial 1 1 0 0 7 0 0 (zeros 4) (zeros 4) (zeros 4) (zeros 4) (zeros 16) (zeros 64)
    (zeros 128) [] (by decide) (by decide)
  have hl : bs.length = 241 := by
    have h1' := h1
    simp only [dhcpOf] at h1'
    rw [dhcp_readBuf _ _ _ _ _ _ _ _ _ _ _ _ _ _ [] (by simp)] at h1'
    cases h1'
    rw [List.length_append, dhcpFixed_length _ _ _ _ _ _ _ _ _ _ _ _ _ _]
    rfl
  refine ⟨bs, h1, hl, ?_, ?_⟩
  · have := h2 PDHCP.zero []
    simp only [List.append_nil, List.length_nil, hl] at this
    exact this
  · intro heq
    simp [dhcpOf, zeros] at heq


/-! ### the end marker as an explicit option, and address fields that are not 4 bytes long -/

/-- why `DhcpOption.WFv` excludes the end marker also at the END of the list: a message whose option list ends with an
    explicit end option (tag 255, any data) is encoded to exactly the bytes of the message without it — so decoding
    returns the list WITHOUT the end option: decode(encode v') ≠ v'.  What remains true for such v': re-encoding the
    decoded message reproduces the bytes, and `Len()` = bytes (the explicit end option counts 1, and the 1 for the
    implicit one is then not added). -/
theorem dhcp_explicit_end_partial (op ht hl ho xid secs fl : Nat) (cip yip sip gip hw sname file : Bytes) (os : List V)
    (h : DHCP.WFv (dhcpOf op ht hl ho xid secs fl cip yip sip gip hw sname file os)) (d : Bytes) :
    ∃ bs l, PDHCP.readBuf (dhcpOf op ht hl ho xid secs fl cip yip sip gip hw sname file
          (os ++ [.obj "p.dhcpoption" [.num 255, .bytes d]])) = .ok bs ∧
      PDHCP.readBuf (dhcpOf op ht hl ho xid secs fl cip yip sip gip hw sname file os) = .ok bs ∧
      PDHCP.len (dhcpOf op ht hl ho xid secs fl cip yip sip gip hw sname file
          (os ++ [.obj "p.dhcpoption" [.num 255, .bytes d]])) = .ok l ∧ l.toNat = bs.length ∧
      (∀ recv tail, PDHCP.write recv (bs ++ tail) =
        .ok (dhcpOf op ht hl ho xid secs fl cip yip sip gip hw sname file os, bs.length + tail.length)) ∧
      dhcpOf op ht hl ho xid secs fl cip yip sip gip hw sname file (os ++ [.obj "p.dhcpoption" [.num 255, .bytes d]])
        ≠ dhcpOf op ht hl ho xid secs fl cip yip sip gip hw sname file os := by
  obtain ⟨bs, l, h1, h2, h3, _, h5⟩ := dhcp_codec _ h
  have hos : ∀ o ∈ os, DhcpOptOK o := by
    simp only [dhcpOf, DHCP.WFv] at h
    exact fun o ho => (dhcpoption_wf_iff o).mp (h.2.2.2.2.2.2.2.2.2.2.2.2.2.2.2.1 o ho)
  have hsz : 240 + (os.map dhcpOptLen).sum + 1 < 65536 := by
    simp only [dhcpOf, DHCP.WFv] at h
    exact h.2.2.2.2.2.2.2.2.2.2.2.2.2.2.2.2
  obtain ⟨l', hl1, hl2⟩ := dhcp_len_end (.num op) (.num ht) (.num hl) (.num ho) (.num xid) (.num secs) (.num fl) (.bytes cip)
    (.bytes yip) (.bytes sip) (.bytes gip) (.bytes hw) (.bytes sname) (.bytes file) os hos hsz d
  obtain ⟨l2, hl3, hl4⟩ := dhcp_len (.num op) (.num ht) (.num hl) (.num ho) (.num xid) (.num secs) (.num fl) (.bytes cip)
    (.bytes yip) (.bytes sip) (.bytes gip) (.bytes hw) (.bytes sname) (.bytes file) os hos hsz
  refine ⟨bs, l', ?_, h1, hl1, ?_, h5, ?_⟩
  · have h1' := h1
    simp only [dhcpOf] at h1' ⊢
    rw [dhcp_readBuf _ _ _ _ _ _ _ _ _ _ _ _ _ _ os hos] at h1'
    rw [dhcp_readBuf_end _ _ _ _ _ _ _ _ _ _ _ _ _ _ os hos d]
    exact h1'
  · have h2' := h2
    simp only [dhcpOf] at h2'
    rw [hl3] at h2'
    cases h2'
    omega
  · intro heq
    simp [dhcpOf] at heq

example : DHCP.WFv (dhcpOf 2 1 6 0 0xcafe 0 0 [0, 0, 0, 0] [10, 0, 0, 5] [10, 0, 0, 1] [0, 0, 0, 0]
    [0xaa, 0xbb, 0xcc, 0xdd, 0xee, 0xff] (zeros 64) (zeros 128) [.obj "p.dhcpoption" [.num 53, .bytes [2]]]) := by decide

/-- ADDRESS FIELDS of any length: `DHCP.Read` writes each of the four `net.IP` fields in its 4-byte wire form
    `dhcpIP4(ip)` = `To4()` copied into four zero bytes (`PDHCP.ip4`: a 4-byte address as it is — `ip4_four`; a 16-byte
    v4-mapped address as its last four bytes — `ip4_mapped`; anything else as 0.0.0.0 — `ip4_other`).  So a message whose
    other fields are well-formed encodes to exactly the bytes of the message with the four addresses replaced by their
    4-byte forms, `Len()` = bytes, and `Write` returns that normalised message: the frame is intact, and the decoded
    value differs from the original only in the representation of the addresses. -/
theorem dhcp_addr_to4 (op ht hl ho xid secs fl : Nat) (cip yip sip gip hw sname file : Bytes) (os : List V)
    (h : DHCP.WFv (dhcpOf op ht hl ho xid secs fl (PDHCP.ip4 cip) (PDHCP.ip4 yip) (PDHCP.ip4 sip) (PDHCP.ip4 gip)
      hw sname file os)) :
    ∃ bs l, PDHCP.readBuf (dhcpOf op ht hl ho xid secs fl cip yip sip gip hw sname file os) = .ok bs ∧
      PDHCP.readBuf (dhcpOf op ht hl ho xid secs fl (PDHCP.ip4 cip) (PDHCP.ip4 yip) (PDHCP.ip4 sip) (PDHCP.ip4 gip)
        hw sname file os) = .ok bs ∧
      PDHCP.len (dhcpOf op ht hl ho xid secs fl cip yip sip gip hw sname file os) = .ok l ∧ l.toNat = bs.length ∧
      ∀ recv tail, PDHCP.write recv (bs ++ tail) =
        .ok (dhcpOf op ht hl ho xid secs fl (PDHCP.ip4 cip) (PDHCP.ip4 yip) (PDHCP.ip4 sip) (PDHCP.ip4 gip)
          hw sname file os, bs.length + tail.length) := by
  obtain ⟨bs, l, h1, h2, h3, _, h5⟩ := dhcp_codec _ h
  have hos : ∀ o ∈ os, DhcpOptOK o := by
    simp only [dhcpOf, DHCP.WFv] at h
    exact fun o ho => (dhcpoption_wf_iff o).mp (h.2.2.2.2.2.2.2.2.2.2.2.2.2.2.2.1 o ho)
  refine ⟨bs, l, ?_, h1, h2, h3, h5⟩
  have h1' := h1
  simp only [dhcpOf] at h1' ⊢
  rw [dhcp_readBuf _ _ _ _ _ _ _ _ _ _ _ _ _ _ os hos, ← dhcpFixed_ip4] at h1'
  rw [dhcp_readBuf _ _ _ _ _ _ _ _ _ _ _ _ _ _ os hos]
  exact h1'

/-- the three cases of the 4-byte wire form of an address field -/
theorem dhcp_ip4_cases (ip : Bytes) :
    (ip.length = 4 → PDHCP.ip4 ip = ip) ∧ (∀ a b c d, ip = ipV4Mapped a b c d → PDHCP.ip4 ip = [a, b, c, d]) ∧
    (pIpTo4? ip = none → PDHCP.ip4 ip = zeros 4) ∧ (PDHCP.ip4 ip).length = 4 :=
  ⟨ip4_four ip, fun a b c d e => by rw [e]; exact ip4_mapped a b c d, ip4_other ip, ip4_length ip⟩

/-- a 16-byte `net.IP` (what `net.ParseIP("10.0.0.1")` / `net.IPv4(10, 0, 0, 1)` return: `::ffff:a.b.c.d`) as `ClientIP`,
    for ALL messages that are well-formed with the 4-byte address `a b c d`: the message is encoded to the same bytes as
    with the 4-byte address (240 fixed bytes, no field shifted), `Write` accepts them and returns the message with the
    4-byte address — which differs from the original value only in that representation: 4 bytes instead of 16 -/
theorem dhcp_ip16_to4 (op ht hl ho xid secs fl : Nat) (a b c d : UInt8) (yip sip gip hw sname file : Bytes) (os : List V)
    (h : DHCP.WFv (dhcpOf op ht hl ho xid secs fl [a, b, c, d] yip sip gip hw sname file os)) :
    ∃ bs l, PDHCP.readBuf (dhcpOf op ht hl ho xid secs fl (ipV4Mapped a b c d) yip sip gip hw sname file os) = .ok bs ∧
      PDHCP.readBuf (dhcpOf op ht hl ho xid secs fl [a, b, c, d] yip sip gip hw sname file os) = .ok bs ∧
      PDHCP.len (dhcpOf op ht hl ho xid secs fl (ipV4Mapped a b c d) yip sip gip hw sname file os) = .ok l ∧
      l.toNat = bs.length ∧
      (∀ recv tail, PDHCP.write recv (bs ++ tail) =
        .ok (dhcpOf op ht hl ho xid secs fl [a, b, c, d] yip sip gip hw sname file os, bs.length + tail.length)) ∧
      dhcpOf op ht hl ho xid secs fl (ipV4Mapped a b c d) yip sip gip hw sname file os
        ≠ dhcpOf op ht hl ho xid secs fl [a, b, c, d] yip sip gip hw sname file os := by
  have hq : yip.length = 4 ∧ sip.length = 4 ∧ gip.length = 4 := by
    simp only [dhcpOf, DHCP.WFv] at h
    exact ⟨h.2.2.2.2.2.2.2.2.1, h.2.2.2.2.2.2.2.2.2.1, h.2.2.2.2.2.2.2.2.2.2.1⟩
  have := dhcp_addr_to4 op ht hl ho xid secs fl (ipV4Mapped a b c d) yip sip gip hw sname file os
    (by rw [ip4_mapped, ip4_four yip hq.1, ip4_four sip hq.2.1, ip4_four gip hq.2.2]; exact h)
  rw [ip4_mapped, ip4_four yip hq.1, ip4_four sip hq.2.1, ip4_four gip hq.2.2] at this
  obtain ⟨bs, l, g1, g2, g3, g4, g5⟩ := this
  refine ⟨bs, l, g1, g2, g3, g4, g5, ?_⟩
  intro heq
  simp [dhcpOf, ipV4Mapped, zeros] at heq

example : DHCP.WFv (dhcpOf 1 1 6 0 7 0 0 [10, 0, 0, 1] (zeros 4) (zeros 4) (zeros 4) [0xaa, 0xbb, 0xcc, 0xdd, 0xee, 0xff]
    (zeros 64) (zeros 128) []) := by decide

set_option maxRecDepth 100000 in
/-- the same with the bytes spelled out (replayable on the Go library): `ClientIP` = the 16-byte form of 10.0.0.1 —
    `Read` produces 241 bytes (240 fixed + end marker) with `0a 00 00 01` at offset 12, and `Write` of them returns the
    message with `ClientIP` = `0a 00 00 01` and reports 241 -/
theorem dhcp_ip16_example :
    ∃ bs, PDHCP.readBuf (dhcpOf 1 1 6 0 7 0 0 [0, 0, 0, 0, 0, 0, 0, 0, 0, 0, 0xff, 0xff, 10, 0, 0, 1] (zeros 4) (zeros 4) (zeros 4)
        [0xaa, 0xbb, 0xcc, 0xdd, 0xee, 0xff] (zeros 64) (zeros 128) []) = .ok bs ∧ bs.length = 241 ∧
      (bs.drop 12).take 4 = [10, 0, 0, 1] ∧
      PDHCP.write PDHCP.zero bs = .ok (dhcpOf 1 1 6 0 7 0 0 [10, 0, 0, 1] (zeros 4) (zeros 4) (zeros 4)
        [0xaa, 0xbb, 0xcc, 0xdd, 0xee, 0xff] (zeros 64) (zeros 128) [], 241) :=
  ⟨_, rfl, rfl, rfl, rfl⟩

/-- what cannot be carried: an address that is neither 4 bytes nor a 16-byte v4-mapped one (an IPv6 address, an empty
    slice — the fields of `new(DHCP)`) is written as 0.0.0.0 and comes back as four zero bytes -/
theorem dhcp_addr_not_v4_zeroed :
    PDHCP.ip4 [0x20, 0x01, 0x0d, 0xb8, 0, 0, 0, 0, 0, 0, 0, 0, 0, 0, 0, 1] = [0, 0, 0, 0] ∧ PDHCP.ip4 [] = [0, 0, 0, 0] :=
  ⟨rfl, rfl⟩

end OFV.Props.C09b
