/-
  C05b — decoding an encoding gives back the same value (library round trip), the kinds not covered by OFV/Props/C05.lean.

  Statement style as in C05: `RoundTrip enc dec v v' bs` (OFV.Props.C05.RoundTrip) =
    * `enc v = ok (bs, v)`, `enc v' = ok (bs, v')`, and
    * `dec data = ok v'` for EVERY well-formed slice `data` whose visible bytes are `bs ++ tail` (`tail` arbitrary: the element
      sits in front of other elements; the slice may have spare capacity behind them).
  `v' = v` except where an unexported pad comes back nil / zero, or where a field can only come back in the decoder's
  representation (stated in the doc comment of the theorem).  Kinds whose encoder stores the size in a Length field are stated
  as in C05: any stored Length `ln0` ↦ (bytes, value with the computed Length `L`), then the round trip of the value with `L`.
  The proofs are in OFV/Lemmas/RT2*.lean (well-formedness predicates `HdrOK`, `SpecRT/SpecsRT`, `Leafs`, `BucketRT/BucketsRT`,
  `RecordRT/RecordsRT`, `VendorDataRT`, `InnerMsgRT`, `PropRT/PropsRT` are defined there); this file states the property theorems.

  What is proved (all for arbitrary field values inside the stated ranges):
    §1 Nicira actions through DecodeAction     nxCTClear / nxRegLoad / nxRegMove / nxOutputReg (2 subtypes) / nxController /
                                               nxDecTTLCntIDs (any id list) / nxNote (any note) / nxRegLoad2 (any well-formed match field) /
                                               nxCTNAT (ALL 64 combinations of the six optional ranges) /
                                               learnSpec_fromValue / _fromField / _output (the 5 constructor shapes) and nxLearn (any spec list) /
                                               nxConnTrack (any list of round-tripping nested actions, induction over the list);
                                               nxActions_in_list: the leaf kinds as elements of an action list (InstrActions);
                                               instrActions_deep_roundtrip: action lists that CONTAIN conntrack actions (`ActionsRTd`: the
                                               nesting budget explicit) — conntrack inside apply-actions, hence inside FlowMod / FlowStats
    §2 Bucket, GroupMod (own decoders)         bucket_roundtrip (any action list whose sizes add up to a multiple of 8), bucket_roundtrip_standard
                                               (any list of standard-kind actions: they are all 8-aligned, standardAction_len_multiple_of_8),
                                               groupMod_roundtrip (any bucket list); groupMod_not_parsed / portMod_not_parsed /
                                               packetOut_not_parsed (known D28: Parse returns nil)
    §3 PortMod, PacketOut (own decoders)       portMod_roundtrip (receiver NewPortMod), portMod_roundtrip_zero_receiver (receiver new(PortMod)),
                                               portMod_decode_any_receiver, packetOut_noactions_partial
    §4 multipart replies through Parse         record_aggregateStats / record_descStats / record_queueStats / record_flowStats (Match +
                                               instructions), multipartReply_roundtrip (any list of records), queueStats_reply_roundtrip
    §5 vendor messages through Parse           vendor_roundtrip (any payload) with payloads setControllerID / tlvTableMod / tlvTableReply (any
                                               map list) / bundleControl / bundleAdd around a header-only message or a FlowMod, without and
                                               with properties (bundleAdd_*).

  Where the round trip is FALSE in the model (= the Go code violates C05) the concrete counterexample is proved:
    packetOut_never_decodes                 GENUINE DEFECT (known: the action loop `for n < n+ActionsLen`).  `PacketOut.UnmarshalBinary`
                                            into `new(PacketOut)` or `NewPacketOut()` NEVER returns a value, whatever the input: Data is a nil
                                            interface and `p.Data.UnmarshalBinary` panics if the loop is survived at all.
    packetOut_action_counterexample         … and with a receiver whose Data has been pre-set, a PacketOut with one action still panics (the
                                            loop condition `n < n+ActionsLen` never becomes false); only the action-less form decodes
                                            (packetOut_noactions_partial).  Parse does not dispatch packet-out at all (packetOut_not_parsed).
    nxNote_padding_counterexample           representation change: a note whose length + 10 is not a multiple of 8 comes back with the zero
                                            padding appended (the decoder takes everything up to Length as the note) — observable field differs.
  Representation changes that are not defects: NXActionRegLoad/RegMove/OutputReg and learn specs carry only the 4-byte OXM HEADER of
  their fields on the wire; a field given with Value/Mask comes back header-only (`hdrField`); a bare 4-byte ActionHeader literal used
  as an action comes back in the 8-byte ActionDecNwTtl kind (bucket_bareHeader_literal).
  Fixed since the first version of this file, the counterexamples replaced by positive theorems: 4-byte action kinds inside a Bucket
  (bucket_unpadded_counterexample → bucket_roundtrip_standard, bucket_headerOnly_example), PortMod decoded into `new(PortMod)`
  (portMod_zero_receiver_counterexample → portMod_roundtrip_zero_receiver, portMod_zero_receiver_example), QueueStats decoded 2 bytes
  early (queueStats_counterexample → record_queueStats, queueStats_reply_roundtrip, queueStats_example).
-/
import OFV.Model.All
import OFV.Lemmas.RTBasic
import OFV.Lemmas.RTPayload
import OFV.Lemmas.RTMatch
import OFV.Lemmas.RTAction
import OFV.Lemmas.RTInstr
import OFV.Lemmas.RTList
import OFV.Lemmas.RTMsg
import OFV.Lemmas.RTMsgMore
import OFV.Lemmas.RTFlowMod
import OFV.Lemmas.RTNx
import OFV.Lemmas.RT2Nx
import OFV.Lemmas.RT2Nat
import OFV.Lemmas.RT2Learn
import OFV.Lemmas.RT2Ct
import OFV.Lemmas.RT2Actions
import OFV.Lemmas.RT2Deep
import OFV.Lemmas.RT2Group
import OFV.Lemmas.RT2Port
import OFV.Lemmas.RT2Multipart
import OFV.Lemmas.RT2Vendor
import OFV.Lemmas.RT2Bundle
import OFV.Props.C05
namespace OFV.Props.C05b
open OFV OFV.Go OFV.Model OFV.RT OFV.RT2 OFV.Props.C05

/-! ## §1 the remaining Nicira actions (through DecodeAction)

`k` is DecodeAction's nesting budget.  `nxHdr ln sub` / `nxHdrBytes ln sub` (OFV/Lemmas/RTNx.lean) are the Nicira header (type 0xffff,
Length, vendor 0x2320, subtype) and its 10 bytes.  `HdrOK c f hm l`: Class < 2^16, Field < 2^7, HasMask ∈ {0,1}, Length < 2^8;
`hdrField c f hm l` is the MatchField the header-only decoders produce (`new(MatchField)` + UnmarshalHeader: Value and Mask nil),
`hdrWord c f hm l` its packed 32-bit OXM header. -/

/-- NXActionCTClear -/
theorem nxCTClear_roundtrip (k : Nat) :
    let v := V.obj "NXActionCTClear" [nxHdr 16 Gen.openflow13.NXAST_CT_CLEAR, .bytes (zeros 4)]
    RoundTrip Action.marshalM (DecodeAction (k + 1)) v v (nxHdrBytes 16 Gen.openflow13.NXAST_CT_CLEAR ++ zeros 6) := by
  obtain ⟨h1, _, h3⟩ := nxCTClear_rt
  exact ⟨h1, h1, fun data tail hd hb => h3 data tail k hd hb⟩

/-- NXActionRegLoad: ofs_nbits, OXM header of the destination field, 64-bit value.  The destination may be given as any MatchField
    with these header values (whatever ExperimenterID `eid`, Value `fv`, Mask `fm`): only its header is on the wire and it comes
    back header-only. -/
theorem nxRegLoad_roundtrip (ofs c f hm l eid val k : Nat) (fv fm : V) (hofs : ofs < 65536) (hh : HdrOK c f hm l)
    (hval : val < 18446744073709551616) :
    RoundTrip Action.marshalM (DecodeAction (k + 1))
      (.obj "NXActionRegLoad" [nxHdr 24 Gen.openflow13.NXAST_REG_LOAD, .num ofs,
        .obj "MatchField" [.num c, .num f, .num hm, .num l, .num eid, fv, fm], .num val])
      (.obj "NXActionRegLoad" [nxHdr 24 Gen.openflow13.NXAST_REG_LOAD, .num ofs, hdrField c f hm l, .num val])
      (nxHdrBytes 24 Gen.openflow13.NXAST_REG_LOAD ++ be16 (n16 ofs) ++ be32 (hdrWord c f hm l) ++ be64 (n64 val)) := by
  obtain ⟨h1, h2, _, h4⟩ := nxRegLoad_rt ofs c f hm l eid val fv fm hofs hh hval
  exact ⟨h1, h2, fun data tail hd hb => h4 data tail k hd hb⟩

/-- satisfiable: load 0xcafe into NXM_NX_REG0[0..15] (class 1, field 0, 4 bytes; ofs_nbits = 15) -/
example : HdrOK 1 0 0 4 := ⟨by decide, by decide, by decide, by decide⟩

/-- NXActionRegMove: n_bits, src_ofs, dst_ofs, OXM headers of source and destination field -/
theorem nxRegMove_roundtrip (nb so dso c1 f1 hm1 l1 e1 c2 f2 hm2 l2 e2 k : Nat) (v1 m1 v2 m2 : V) (hnb : nb < 65536)
    (hso : so < 65536) (hdso : dso < 65536) (hh1 : HdrOK c1 f1 hm1 l1) (hh2 : HdrOK c2 f2 hm2 l2) :
    RoundTrip Action.marshalM (DecodeAction (k + 1))
      (.obj "NXActionRegMove" [nxHdr 24 Gen.openflow13.NXAST_REG_MOVE, .num nb, .num so, .num dso,
        .obj "MatchField" [.num c1, .num f1, .num hm1, .num l1, .num e1, v1, m1],
        .obj "MatchField" [.num c2, .num f2, .num hm2, .num l2, .num e2, v2, m2]])
      (.obj "NXActionRegMove" [nxHdr 24 Gen.openflow13.NXAST_REG_MOVE, .num nb, .num so, .num dso, hdrField c1 f1 hm1 l1,
        hdrField c2 f2 hm2 l2])
      (nxHdrBytes 24 Gen.openflow13.NXAST_REG_MOVE ++ be16 (n16 nb) ++ be16 (n16 so) ++ be16 (n16 dso)
        ++ be32 (hdrWord c1 f1 hm1 l1) ++ be32 (hdrWord c2 f2 hm2 l2)) := by
  obtain ⟨h1, h2, _, h4⟩ := nxRegMove_rt nb so dso c1 f1 hm1 l1 e1 c2 f2 hm2 l2 e2 v1 m1 v2 m2 hnb hso hdso hh1 hh2
  exact ⟨h1, h2, fun data tail hd hb => h4 data tail k hd hb⟩

/-- NXActionOutputReg for both subtypes DecodeNxAction maps to it (OUTPUT_REG 15, OUTPUT_REG2 32) -/
theorem nxOutputReg_roundtrip (sub ofs c f hm l eid ml k : Nat) (fv fm : V)
    (hsub : sub = Gen.openflow13.NXAST_OUTPUT_REG ∨ sub = Gen.openflow13.NXAST_OUTPUT_REG2)
    (hofs : ofs < 65536) (hh : HdrOK c f hm l) (hml : ml < 65536) :
    RoundTrip Action.marshalM (DecodeAction (k + 1))
      (.obj "NXActionOutputReg" [nxHdr 24 sub, .num ofs, .obj "MatchField" [.num c, .num f, .num hm, .num l, .num eid, fv, fm],
        .num ml, .bytes (zeros 6)])
      (.obj "NXActionOutputReg" [nxHdr 24 sub, .num ofs, hdrField c f hm l, .num ml, .bytes (zeros 6)])
      (nxHdrBytes 24 sub ++ be16 (n16 ofs) ++ be32 (hdrWord c f hm l) ++ be16 (n16 ml) ++ zeros 6) := by
  obtain ⟨h1, h2, _, h4⟩ := nxOutputReg_rt sub ofs c f hm l eid ml fv fm hsub hofs hh hml
  exact ⟨h1, h2, fun data tail hd hb => h4 data tail k hd hb⟩

/-- NXActionController.  `MarshalBinary` stores Length 16 (whatever `ln0` was there); the unexported pad byte comes back 0. -/
theorem nxController_roundtrip (ml id rs k : Nat) (hml : ml < 65536) (hid : id < 65536) (hrs : rs < 256) :
    let v' := V.obj "NXActionController" [nxHdr 16 Gen.openflow13.NXAST_CONTROLLER, .num ml, .num id, .num rs, .num 0]
    let bs := nxHdrBytes 16 Gen.openflow13.NXAST_CONTROLLER ++ be16 (n16 ml) ++ be16 (n16 id) ++ [n8 rs, 0]
    (∀ (ln0 : Nat) (pad : V), Action.marshalM (.obj "NXActionController" [nxHdr ln0 Gen.openflow13.NXAST_CONTROLLER,
        .num ml, .num id, .num rs, pad])
      = .ok (bs, .obj "NXActionController" [nxHdr 16 Gen.openflow13.NXAST_CONTROLLER, .num ml, .num id, .num rs, pad])) ∧
    RoundTrip Action.marshalM (DecodeAction (k + 1)) v' v' bs := by
  obtain ⟨h1, _, h3⟩ := nxController_rt ml id rs hml hid hrs
  exact ⟨h1, h1 16 _, h1 16 _, fun data tail hd hb => h3 data tail k hd hb⟩

/-- NXActionDecTTLCntIDs with ANY list of controller ids (`controllers` = their number); Length = any value that holds them
    (NewNXActionDecTTLCntIDs: 16 + 2·#ids rounded up to 8), zero padding up to Length. -/
theorem nxDecTTLCntIDs_roundtrip (ln k : Nat) (ns : List Nat) (hns : ∀ n ∈ ns, n < 65536) (hfit : 16 + 2 * ns.length ≤ ln)
    (hln : ln < 65536) :
    let v := V.obj "NXActionDecTTLCntIDs" [nxHdr ln Gen.openflow13.NXAST_DEC_TTL_CNT_IDS, .num ns.length, .bytes (zeros 4),
      .list (ns.map V.num)]
    RoundTrip Action.marshalM (DecodeAction (k + 1)) v v
      (nxHdrBytes ln Gen.openflow13.NXAST_DEC_TTL_CNT_IDS ++ be16 (n16 ns.length) ++ zeros 4 ++ idsBytes ns
        ++ zeros (ln - (16 + 2 * ns.length))) := by
  obtain ⟨h1, _, _, h4⟩ := nxDecTTLCntIDs_rt ln ns hns hfit hln
  exact ⟨h1, h1, fun data tail hd hb => h4 data tail k hd hb⟩

example : (∀ n ∈ [1, 2, 65535], n < 65536) ∧ 16 + 2 * [1, 2, 65535].length ≤ 24 := ⟨by decide, by decide⟩

/-- NXActionNote with ANY note.  `MarshalBinary` stores Length `L` = 10 + |note| rounded up to a multiple of 8 and pads with zeros;
    `UnmarshalBinary` takes everything up to Length as the note: the decoded note is `note ++ zeros (L - 10 - |note|)` — the note
    itself exactly when 10 + |note| is a multiple of 8.  The decoded value encodes to the same bytes. -/
theorem nxNote_roundtrip (note : Bytes) (k : Nat) (hn : 10 + note.length + 7 < 65536) :
    let L := (10 + note.length + 7) / 8 * 8
    let note' := note ++ zeros (L - (10 + note.length))
    let v' := V.obj "NXActionNote" [nxHdr L Gen.openflow13.NXAST_NOTE, .bytes note']
    let bs := nxHdrBytes L Gen.openflow13.NXAST_NOTE ++ note'
    (∀ ln0, Action.marshalM (.obj "NXActionNote" [nxHdr ln0 Gen.openflow13.NXAST_NOTE, .bytes note])
      = .ok (bs, .obj "NXActionNote" [nxHdr L Gen.openflow13.NXAST_NOTE, .bytes note])) ∧
    RoundTrip Action.marshalM (DecodeAction (k + 1)) v' v' bs ∧ ((10 + note.length) % 8 = 0 → note' = note) := by
  intro L note' v' bs
  obtain ⟨h1, h2, _, _, h5⟩ := nxNote_rt note hn
  refine ⟨h1, ⟨h2, h2, fun data tail hd hb => h5 data tail k hd hb⟩, fun h8 => ?_⟩
  have : L - (10 + note.length) = 0 := by simp only [L]; omega
  simp only [note', this, zeros, List.replicate_zero, List.append_nil]

/-- the padding is visible: the 3-byte note 01 02 03 comes back as 01 02 03 00 00 00 -/
theorem nxNote_padding_counterexample (tail : Bytes) (k : Nat) :
    let v := V.obj "NXActionNote" [nxHdr 16 Gen.openflow13.NXAST_NOTE, .bytes [1, 2, 3]]
    let bs : Bytes := [255, 255, 0, 16, 0, 0, 35, 32, 0, 8, 1, 2, 3, 0, 0, 0]
    Action.marshalM v = .ok (bs, v) ∧
    DecodeAction (k + 1) (Slice.exact (bs ++ tail))
      = .ok (.obj "NXActionNote" [nxHdr 16 Gen.openflow13.NXAST_NOTE, .bytes [1, 2, 3, 0, 0, 0]]) := by
  obtain ⟨h1, _, _, _, h5⟩ := nxNote_rt [1, 2, 3] (by decide)
  exact ⟨h1 16, h5 _ tail k (Slice.exact_wf _) (by simp [Slice.exact, Slice.bytes]; rfl)⟩

/-- NXActionRegLoad2 around ANY well-formed match field (`MatchFieldWF`, as in C05 §3; uses matchField_roundtrip): 10-byte header,
    the field (OXM header, value, optional mask), zero padding to a multiple of 8.  `MarshalBinary` stores the size in Length;
    the unexported pad comes back nil. -/
theorem nxRegLoad2_roundtrip (f : V) (k : Nat) (hf : MatchFieldWF f) :
    ∃ fb, MatchField.marshalM f = .ok (fb, f) ∧
    let L := (10 + fb.length + 7) / 8 * 8
    let v' := V.obj "NXActionRegLoad2" [nxHdr L Gen.openflow13.NXAST_REG_LOAD2, f, .bytes []]
    let bs := nxHdrBytes L Gen.openflow13.NXAST_REG_LOAD2 ++ fb ++ zeros (L - (10 + fb.length))
    (∀ (ln0 : Nat) (pad : V), Action.marshalM (.obj "NXActionRegLoad2" [nxHdr ln0 Gen.openflow13.NXAST_REG_LOAD2, f, pad])
      = .ok (bs, .obj "NXActionRegLoad2" [nxHdr L Gen.openflow13.NXAST_REG_LOAD2, f, pad])) ∧
    RoundTrip Action.marshalM (DecodeAction (k + 1)) v' v' bs := by
  obtain ⟨fb, hm, _, _, h1, _, _, h5⟩ := nxRegLoad2_rt f hf
  exact ⟨fb, hm, h1, h1 _ _, h1 _ _, fun data tail hd hb => h5 data tail k hd hb⟩

/-- NXActionCTNAT for EVERY combination of its six optional ranges.  `a4 b4` = IPv4 min / max (`net.IPv4(a,b,c,d)`, the 16-byte
    form the decoder builds), `a6 b6` = IPv6 min / max (16 bytes), `pa pb` = port min / max; `rangePresent` = `rangeBits` (one bit
    per range present), `rangesWire` = the present ranges one after the other.  `MarshalBinary` (through Len()) rounds the stored
    Length up to a multiple of 8: any stored `ln0` that rounds to `L` (e.g. 16 + the sizes SetRange… accumulated) ↦ the value with
    `L`; the unexported pad comes back nil. -/
theorem nxCTNAT_roundtrip (fl k : Nat) (a4 b4 : Option IP4) (a6 b6 : Option Bytes) (pa pb : Option Nat) (hfl : fl < 65536)
    (ha6 : ∀ x, a6 = some x → x.length = 16) (hb6 : ∀ x, b6 = some x → x.length = 16)
    (hpa : ∀ x, pa = some x → x < 65536) (hpb : ∀ x, pb = some x → x < 65536) :
    let W := rangesWire a4 b4 a6 b6 pa pb
    let L := (16 + W.length + 7) / 8 * 8
    let v' := ctnatV L (.bytes []) fl a4 b4 a6 b6 pa pb
    let bs := nxHdrBytes L Gen.openflow13.NXAST_NAT ++ zeros 2 ++ be16 (n16 fl) ++ be16 (n16 (rangeBits a4 b4 a6 b6 pa pb)) ++ W
      ++ zeros (L - (16 + W.length))
    (∀ (ln0 : Nat) (pad : V), (ln0 + 7) / 8 * 8 = L →
      Action.marshalM (ctnatV ln0 pad fl a4 b4 a6 b6 pa pb) = .ok (bs, ctnatV L pad fl a4 b4 a6 b6 pa pb)) ∧
    RoundTrip Action.marshalM (DecodeAction (k + 1)) v' v' bs := by
  intro W L v' bs
  obtain ⟨h1, _, _, h4⟩ := nxCTNAT_rt fl a4 b4 a6 b6 pa pb hfl ha6 hb6 hpa hpb
  have hW : (rangesWire a4 b4 a6 b6 pa pb).length ≤ 44 := rangesWire_le a4 b4 a6 b6 pa pb ha6 hb6
  have hLL : (L + 7) / 8 * 8 = L := by simp only [L, W]; omega
  exact ⟨h1, h1 L _ hLL, h1 L _ hLL, fun data tail hd hb => h4 data tail k hd hb⟩

/-- the all-absent case (NewNXActionCTNAT() + SetSNAT: 16 bytes) and the case IPv4 min/max + port min/max
    (SNAT to 10.0.0.1-10.0.0.9 ports 1024-65535: rangePresent 0x33, 28 → 32 bytes) -/
example : rangesWire none none none none none none = [] ∧ rangeBits none none none none none none = 0 := ⟨rfl, rfl⟩
example : rangesWire (some (10, 0, 0, 1)) (some (10, 0, 0, 9)) none none (some 1024) (some 65535)
      = [10, 0, 0, 1, 10, 0, 0, 9] ++ be16 (n16 1024) ++ be16 (n16 65535) ∧
    rangeBits (some (10, 0, 0, 1)) (some (10, 0, 0, 9)) none none (some 1024) (some 65535) = 51 := ⟨rfl, rfl⟩

theorem nxCTNAT_example (tail : Bytes) (k : Nat) :
    let v := ctnatV 32 (.bytes []) 1 (some (10, 0, 0, 1)) (some (10, 0, 0, 9)) none none (some 1024) (some 65535)
    let bs : Bytes := [255, 255, 0, 32, 0, 0, 35, 32, 0, 36,  0, 0, 0, 1, 0, 51,  10, 0, 0, 1, 10, 0, 0, 9, 4, 0, 255, 255, 0, 0, 0, 0]
    Action.marshalM (ctnatV 28 (.bytes (zeros 2)) 1 (some (10, 0, 0, 1)) (some (10, 0, 0, 9)) none none (some 1024) (some 65535))
      = .ok (bs, ctnatV 32 (.bytes (zeros 2)) 1 (some (10, 0, 0, 1)) (some (10, 0, 0, 9)) none none (some 1024) (some 65535)) ∧
    DecodeAction (k + 1) (Slice.exact (bs ++ tail)) = .ok v := by
  obtain ⟨h1, _, _, h4⟩ := nxCTNAT_rt 1 (some (10, 0, 0, 1)) (some (10, 0, 0, 9)) none none (some 1024) (some 65535) (by decide)
    (fun _ h => by cases h) (fun _ h => by cases h) (fun x h => by cases h; decide) (fun x h => by cases h; decide)
  exact ⟨h1 28 _ rfl, h4 _ tail k (Slice.exact_wf _) (by simp [Slice.exact, Slice.bytes]; rfl)⟩

/-! learn specs: `specHdrV src dst output nBits` is the NXLearnSpecHeader (flags as bools; `b2n` = 0/1), `specFieldV c f hm l ofs` an
    NXLearnSpecField in decoded form (header-only MatchField, bit offset), `specFieldBytes` its 6 bytes;
    `NXLearnSpecHeader.word` the 16-bit header word.  n_bits < 2^11 (the width of the field in the header word). -/

/-- NXLearnSpec, match / load FROM A VALUE (NewLearnHeaderMatchFromValue: `d` = false, NewLearnHeaderLoadFromValue: `d` = true):
    header word, the immediate value (2·⌈n_bits/16⌉ bytes), destination field -/
theorem learnSpec_fromValue_roundtrip (d : Bool) (nb : Nat) (sv : Bytes) (c f hm l ofs : Nat) (hnb : nb < 2048)
    (hsv : sv.length = 2 * ((nb + 15) / 16)) (hh : HdrOK c f hm l) (hofs : ofs < 65536) :
    let s := V.obj "NXLearnSpec" [specHdrV true d false nb, .nil, specFieldV c f hm l ofs, .bytes sv]
    RoundTrip NXLearnSpec.marshalM (NXLearnSpec.unmarshal NXLearnSpec.zero) s s
      (be16 (NXLearnSpecHeader.word 1 (b2n d) 0 nb) ++ sv ++ specFieldBytes c f hm l ofs) := by
  obtain ⟨h1, _, _, _, h5⟩ := specRT_fromValue d nb sv c f hm l ofs hnb hsv hh hofs
  exact ⟨h1, h1, h5⟩

/-- NXLearnSpec, match / load FROM A FIELD (NewLearnHeaderMatchFromField: `d` = false, NewLearnHeaderLoadFromField: `d` = true) -/
theorem learnSpec_fromField_roundtrip (d : Bool) (nb c1 f1 hm1 l1 ofs1 c2 f2 hm2 l2 ofs2 : Nat) (hnb : nb < 2048)
    (hh1 : HdrOK c1 f1 hm1 l1) (hofs1 : ofs1 < 65536) (hh2 : HdrOK c2 f2 hm2 l2) (hofs2 : ofs2 < 65536) :
    let s := V.obj "NXLearnSpec" [specHdrV false d false nb, specFieldV c1 f1 hm1 l1 ofs1, specFieldV c2 f2 hm2 l2 ofs2, .bytes []]
    RoundTrip NXLearnSpec.marshalM (NXLearnSpec.unmarshal NXLearnSpec.zero) s s
      (be16 (NXLearnSpecHeader.word 0 (b2n d) 0 nb) ++ specFieldBytes c1 f1 hm1 l1 ofs1 ++ specFieldBytes c2 f2 hm2 l2 ofs2) := by
  obtain ⟨h1, _, _, _, h5⟩ := specRT_fromField d nb c1 f1 hm1 l1 ofs1 c2 f2 hm2 l2 ofs2 hnb hh1 hofs1 hh2 hofs2
  exact ⟨h1, h1, h5⟩

/-- NXLearnSpec, output FROM A FIELD (NewLearnHeaderOutputFromField: `d` = false) -/
theorem learnSpec_output_roundtrip (d : Bool) (nb c f hm l ofs : Nat) (hnb : nb < 2048) (hh : HdrOK c f hm l) (hofs : ofs < 65536) :
    let s := V.obj "NXLearnSpec" [specHdrV false d true nb, specFieldV c f hm l ofs, .nil, .bytes []]
    RoundTrip NXLearnSpec.marshalM (NXLearnSpec.unmarshal NXLearnSpec.zero) s s
      (be16 (NXLearnSpecHeader.word 0 (b2n d) 1 nb) ++ specFieldBytes c f hm l ofs) := by
  obtain ⟨h1, _, _, _, h5⟩ := specRT_output d nb c f hm l ofs hnb hh hofs
  exact ⟨h1, h1, h5⟩

/-- NXActionLearn with ANY list of learn specs each of which round-trips on its own (`SpecsRT ss es`, OFV/Lemmas/RT2Learn.lean —
    established for the five constructor shapes by `specRT_fromValue`, `specRT_fromField`, `specRT_output`): 10-byte header, 22
    fixed bytes (`learnFixed`), the specs, zero padding to a multiple of 8.  Every spec is decoded back from its position in the
    list.  `MarshalBinary` stores the size in Length; the unexported pads come back 0 / nil. -/
theorem nxLearn_roundtrip (idle hard prio cookie fl tid fi fh k : Nat) (ss : List V) (es : List Bytes)
    (hidle : idle < 65536) (hhard : hard < 65536) (hprio : prio < 65536) (hcookie : cookie < 18446744073709551616)
    (hfl : fl < 65536) (htid : tid < 256) (hfi : fi < 65536) (hfh : fh < 65536) (hss : SpecsRT ss es)
    (hS : 32 + es.flatten.length + 7 < 65536) :
    let L := (32 + es.flatten.length + 7) / 8 * 8
    let v' := learnV L (.num 0) (.bytes []) idle hard prio cookie fl tid fi fh ss
    let bs := nxHdrBytes L Gen.openflow13.NXAST_LEARN ++ learnFixed idle hard prio cookie fl tid fi fh ++ es.flatten
      ++ zeros (L - (32 + es.flatten.length))
    (∀ (ln0 : Nat) (pad pad2 : V), Action.marshalM (learnV ln0 pad pad2 idle hard prio cookie fl tid fi fh ss)
      = .ok (bs, learnV L pad pad2 idle hard prio cookie fl tid fi fh ss)) ∧
    RoundTrip Action.marshalM (DecodeAction (k + 1)) v' v' bs := by
  obtain ⟨h1, _, _, h4⟩ := learn_rt idle hard prio cookie fl tid fi fh ss es hidle hhard hprio hcookie hfl htid hfi hfh hss hS
  exact ⟨h1, h1 _ _ _, h1 _ _ _, fun data tail hd hb => h4 data tail k hd hb⟩

/-- satisfiable, with all five constructor shapes in one list: match eth_type=0x0800 (from value, 16 bits), match from field,
    load 0x12345678 (from value, 32 bits), load from field, output from field -/
example : ∃ ss es, SpecsRT ss es ∧ ss.length = 5 :=
  ⟨_, _, .cons (specRT_fromValue false 16 [8, 0] 0 5 0 2 0 (by decide) rfl ⟨by decide, by decide, by decide, by decide⟩ (by decide))
    (.cons (specRT_fromField false 48 0 2 0 6 0 0 1 0 6 0 (by decide) ⟨by decide, by decide, by decide, by decide⟩ (by decide)
        ⟨by decide, by decide, by decide, by decide⟩ (by decide))
      (.cons (specRT_fromValue true 32 [18, 52, 86, 120] 1 0 0 4 0 (by decide) rfl ⟨by decide, by decide, by decide, by decide⟩ (by decide))
        (.cons (specRT_fromField true 32 1 1 0 4 0 1 2 0 4 0 (by decide) ⟨by decide, by decide, by decide, by decide⟩ (by decide)
            ⟨by decide, by decide, by decide, by decide⟩ (by decide))
          (.cons (specRT_output false 16 1 0 0 4 0 (by decide) ⟨by decide, by decide, by decide, by decide⟩ (by decide)) .nil)))), rfl⟩

/-- NXActionConnTrack holding ANY list `as` of nested actions (`ct(exec(...))`) each of which round-trips on its own (`ActionsRT as encs`
    as in C05 §4 — established for every standard action kind there and for the Nicira kinds by OFV/Lemmas/RT2Actions.lean) and is
    not itself a conntrack action (`Leafs`); by induction over the list: the nested encoder writes every action at its position, the
    nested decoder (which recurses through DecodeAction with the nesting budget one lower) reads every action back from its
    position.  Nesting budget at least 2.  `MarshalBinary` stores the size 24 + Σ sizes in Length; the pad comes back nil. -/
theorem nxConnTrack_roundtrip (fl zs zo rt alg kp k : Nat) (as : List V) (encs : List Bytes)
    (hfl : fl < 65536) (hzs : zs < 4294967296) (hzo : zo < 65536) (hrt : rt < 256) (halg : alg < 65536) (hkp : kp ≤ 3)
    (has : ActionsRT as encs) (hleaf : Leafs as) (hS : 24 + encs.flatten.length < 65536) :
    let L := 24 + encs.flatten.length
    let v' := ctV L fl zs zo rt [] alg as
    let bs := nxHdrBytes L Gen.openflow13.NXAST_CT ++ ctFixed fl zs zo rt alg ++ encs.flatten
    (∀ ln0 : Nat, Action.marshalM (ctV ln0 fl zs zo rt (zeros kp) alg as) = .ok (bs, ctV L fl zs zo rt (zeros kp) alg as)) ∧
    RoundTrip Action.marshalM (DecodeAction (k + 2)) v' v' bs := by
  obtain ⟨h1, _, _, h4⟩ := nxConnTrack_rt fl zs zo rt alg kp as encs hfl hzs hzo hrt halg hkp has hleaf hS
  obtain ⟨h1', _, _, _⟩ := nxConnTrack_rt fl zs zo rt alg 0 as encs hfl hzs hzo hrt halg (by omega) has hleaf hS
  exact ⟨h1, h1' _, h1' _, fun data tail hd hb => h4 data tail k hd hb⟩

/-- satisfiable, with a mixed nested list: ct(commit, exec(nat(src=10.0.0.1-10.0.0.9), load 1 → reg0[0..15], ct_clear)) -/
example : ∃ as encs, ActionsRT as encs ∧ Leafs as ∧ as.length = 3 :=
  ⟨_, _, .cons (actionRT_ctnat 1 (some (10, 0, 0, 1)) (some (10, 0, 0, 9)) none none none none (by decide)
      (fun _ h => by cases h) (fun _ h => by cases h) (fun _ h => by cases h) (fun _ h => by cases h))
    (.cons (actionRT_regLoad 15 1 0 0 4 1 (by decide) ⟨by decide, by decide, by decide, by decide⟩ (by decide))
      (.cons actionRT_ctClear .nil)),
    by intro a ha; simp only [List.mem_cons, List.not_mem_nil, or_false] at ha; rcases ha with rfl | rfl | rfl <;> decide, rfl⟩

/-- Elements inside a list: the Nicira leaf actions are `ActionRT` facts (OFV/Lemmas/RT2Actions.lean), so C05's
    `instrActions_roundtrip` applies to lists that contain them.  Instance: apply-actions [learn(one spec), note, reg_move, output]. -/
theorem nxActions_in_list :
    ∃ as encs, ActionsRT as encs ∧ as.length = 4 ∧ ∀ ln, ln = 8 + encs.flatten.length → ln < 65536 →
      RoundTrip Instruction.marshalM DecodeInstr
        (.obj "InstrActions" [.obj "InstrHeader" [.num Gen.openflow13.InstrType_APPLY_ACTIONS, .num ln], .bytes (zeros 4), .list as])
        (.obj "InstrActions" [.obj "InstrHeader" [.num Gen.openflow13.InstrType_APPLY_ACTIONS, .num ln], .bytes [], .list as])
        (be16 (n16 Gen.openflow13.InstrType_APPLY_ACTIONS) ++ be16 (n16 ln) ++ zeros 4 ++ encs.flatten) := by
  have hspec := specRT_output false 16 1 0 0 4 0 (by decide) ⟨by decide, by decide, by decide, by decide⟩ (by decide)
  have has : ActionsRT _ _ :=
    .cons (actionRT_learn 10 0 100 7 0 5 0 0 _ _ (by decide) (by decide) (by decide) (by decide) (by decide) (by decide) (by decide)
        (by decide) (.cons hspec .nil) (by decide))
      (.cons (actionRT_note [1, 2, 3, 4, 5, 6] (by decide))
        (.cons (actionRT_regMove 16 0 0 1 0 0 4 1 1 0 4 (by decide) (by decide) (by decide) ⟨by decide, by decide, by decide, by decide⟩
            ⟨by decide, by decide, by decide, by decide⟩)
          (.cons (actionRT_output 16 2 65535 (by decide) (by decide) (by decide)) .nil)))
  exact ⟨_, _, has, rfl, fun ln hln hlt =>
    instrActions_roundtrip Gen.openflow13.InstrType_APPLY_ACTIONS ln 4 _ _ (Or.inr (Or.inl rfl)) has hln hlt⟩

/-- Elements inside a list, conntrack included.  `ActionsRTd as encs` (OFV/Lemmas/RT2Deep.lean) is `ActionsRT` with DecodeAction's
    nesting budget made explicit (an action with encoding `e` is decoded whenever the budget exceeds |e| — what every caller in the
    library passes); every `ActionRT` fact is one (`ActionRTd.of`) and so is NXActionConnTrack with nested actions
    (`actionRTd_connTrack`).  InstrActions over such a list round-trips through DecodeInstr; as an `InstrRT` fact
    (`instrRT_actions_d`) it can be an instruction of C05's flowMod_roundtrip and of record_flowStats below. -/
theorem instrActions_deep_roundtrip (ty ln : Nat) (as : List V) (encs : List Bytes)
    (hty : ty = Gen.openflow13.InstrType_WRITE_ACTIONS ∨ ty = Gen.openflow13.InstrType_APPLY_ACTIONS ∨
      ty = Gen.openflow13.InstrType_CLEAR_ACTIONS)
    (has : ActionsRTd as encs) (hln : ln = 8 + encs.flatten.length) (hlt : ln < 65536) :
    let v := V.obj "InstrActions" [.obj "InstrHeader" [.num ty, .num ln], .bytes [], .list as]
    RoundTrip Instruction.marshalM DecodeInstr v v (be16 (n16 ty) ++ be16 (n16 ln) ++ zeros 4 ++ encs.flatten) := by
  obtain ⟨h1, _, _, _, h5⟩ := instrRT_actions_d ty ln as encs hty has hln hlt
  exact ⟨h1, h1, h5⟩

/-- satisfiable: apply-actions [ct(commit, table 5, exec(load 1 → reg0, ct_clear)), output 2] — and the instruction list
    [that, goto-table 7] for a FlowMod -/
example : ∃ as encs, ActionsRTd as encs ∧ as.length = 2 ∧ ∃ is ies, InstrsRT is ies ∧ is.length = 2 := by
  have hct := actionRTd_connTrack 1 0 0 5 0 _ _ (by decide) (by decide) (by decide) (by decide) (by decide)
    (.cons (actionRT_regLoad 15 1 0 0 4 1 (by decide) ⟨by decide, by decide, by decide, by decide⟩ (by decide))
      (.cons actionRT_ctClear .nil))
    (by intro a ha; simp only [List.mem_cons, List.not_mem_nil, or_false] at ha; rcases ha with rfl | rfl <;> decide) (by decide)
  have has : ActionsRTd _ _ := .cons hct (.cons (.of (actionRT_output 16 2 65535 (by decide) (by decide) (by decide))) .nil)
  exact ⟨_, _, has, rfl, _, _, .cons (instrRT_actions_d Gen.openflow13.InstrType_APPLY_ACTIONS 88 _ _ (Or.inr (Or.inl rfl)) has rfl (by decide))
    (.cons (instrRT_gotoTable 8 7 (by decide) (by decide)) .nil), rfl⟩

/-! ## §2 Bucket and GroupMod (through their own decoders) -/

/-- Bucket holding ANY list of round-tripping actions (`ActionsRTd`, OFV/Lemmas/RT2Deep.lean: `ActionsRT` lists — `ActionsRTd.of` — and
    lists containing conntrack actions) whose sizes add up to a multiple of 8, decoded into `new(Bucket)`, followed by anything (the
    next bucket of a group-mod): 16 fixed bytes, then the actions, each decoded back from its position.
    `MarshalBinary` stores the size in Length (whatever `ln0` was there — NewBucket + AddAction leave 16); the pad comes back nil. -/
theorem bucket_roundtrip (w wp wg : Nat) (as : List V) (encs : List Bytes) (hw : w < 65536) (hwp : wp < 4294967296)
    (hwg : wg < 4294967296) (has : ActionsRTd as encs) (h8 : encs.flatten.length % 8 = 0) (hS : 16 + encs.flatten.length < 65536) :
    let L := 16 + encs.flatten.length
    let v' := bucketV L w wp wg (.bytes []) as
    let bs := bucketBytes L w wp wg encs
    (∀ (ln0 : Nat) (pad : V), Bucket.marshalM (bucketV ln0 w wp wg pad as) = .ok (bs, bucketV L w wp wg pad as)) ∧
    RoundTrip Bucket.marshalM (Bucket.unmarshal Bucket.zero) v' v' bs := by
  obtain ⟨h1, _, _, h4⟩ := bucket_rt w wp wg as encs hw hwp hwg has h8 hS
  refine ⟨h1, h1 _ _, h1 _ _, fun data tail hd hb => ?_⟩
  simp only [Bucket.unmarshal, h4 data tail hd hb, Res.bind_ok, Bool.false_eq_true, if_false, Res.pure_eq]

/-- Corollary: for action lists of the STANDARD kinds (`StdKind a`: `a` is of a kind `DecodeAction` allocates for a non-experimenter
    type — output, the header-only types, set-mpls-ttl, set-nw-ttl, push/pop, set-queue, group, dec-nw-ttl, set-field) the hypothesis
    "sizes add up to a multiple of 8" of bucket_roundtrip always holds: every such kind has a Len() that is a multiple of 8
    (`stdKind_len8`, whatever the field values) — fixed: the header-only types and set-mpls-ttl / set-nw-ttl used to be 4-byte kinds, and a
    bucket holding one of them was padded by the encoder and its padding decoded as a spurious action. -/
theorem bucket_roundtrip_standard (w wp wg : Nat) (as : List V) (encs : List Bytes) (hw : w < 65536) (hwp : wp < 4294967296)
    (hwg : wg < 4294967296) (has : ActionsRTd as encs) (hstd : ∀ a ∈ as, StdKind a) (hS : 16 + encs.flatten.length < 65536) :
    let L := 16 + encs.flatten.length
    let v' := bucketV L w wp wg (.bytes []) as
    let bs := bucketBytes L w wp wg encs
    (∀ (ln0 : Nat) (pad : V), Bucket.marshalM (bucketV ln0 w wp wg pad as) = .ok (bs, bucketV L w wp wg pad as)) ∧
    RoundTrip Bucket.marshalM (Bucket.unmarshal Bucket.zero) v' v' bs :=
  bucket_roundtrip w wp wg as encs hw hwp hwg has (stdKinds_flatten8 as encs has hstd) hS

/-- every standard kind is 8-aligned: Len() of any value of such a kind is a multiple of 8 -/
theorem standardAction_len_multiple_of_8 (v v' : V) (l : UInt16) (hs : StdKind v) (hl : Action.lenM v = .ok (l, v')) :
    l.toNat % 8 = 0 :=
  stdKind_len8 v v' l hs hl

/-- satisfiable, with the kinds of the former counterexample: a bucket [copy-ttl-out, set-mpls-ttl 7, set-nw-ttl 64, output 2]
    (8 + 8 + 8 + 16 bytes) -/
example : ∃ as encs, ActionsRTd as encs ∧ (∀ a ∈ as, StdKind a) ∧ as.length = 4 ∧ encs.flatten.length = 40 := by
  refine ⟨_, _, .of (.cons (actionRT_hdrPad Gen.openflow13.ActionType_CopyTtlOut 8 (by decide) rfl (by decide))
    (.cons (actionRT_mplsTtl 8 7 (by decide) (by decide))
      (.cons (actionRT_nwTtl 8 64 (by decide) (by decide))
        (.cons (actionRT_output 16 2 65535 (by decide) (by decide) (by decide)) .nil)))), ?_, rfl, rfl⟩
  intro a ha
  simp only [List.mem_cons, List.not_mem_nil, or_false] at ha
  rcases ha with rfl | rfl | rfl | rfl
  · exact ⟨Gen.openflow13.ActionType_CopyTtlOut, _, rfl, rfl⟩
  · exact ⟨Gen.openflow13.ActionType_SetMplsTtl, _, rfl, rfl⟩
  · exact ⟨Gen.openflow13.ActionType_SetNwTtl, _, rfl, rfl⟩
  · exact ⟨Gen.openflow13.ActionType_Output, _, rfl, rfl⟩

/-- the former counterexample (a bucket with copy-ttl-out) in the form the library now produces — the 8-byte ActionDecNwTtl kind:
    24 bytes, decoded back exactly, alone in the buffer and followed by other bytes (no error, no spurious action) -/
theorem bucket_headerOnly_example :
    let a := V.obj "ActionDecNwTtl" [ActionHeader.mk Gen.openflow13.ActionType_CopyTtlOut 8, .bytes []]
    let v := bucketV 24 1 4294967295 4294967295 (.bytes []) [a]
    let bs : Bytes := [0, 24, 0, 1, 255, 255, 255, 255, 255, 255, 255, 255, 0, 0, 0, 0,  0, 11, 0, 8, 0, 0, 0, 0]
    Bucket.marshalM v = .ok (bs, v) ∧
    Bucket.unmarshal Bucket.zero (Slice.exact bs) = .ok v ∧
    Bucket.unmarshal Bucket.zero (Slice.exact (bs ++ zeros 16)) = .ok v :=
  ⟨rfl, rfl, rfl⟩

/-- REMARK on a value that can only be written as a literal: a bare 4-byte `ActionHeader` used as an action (no constructor and,
    since the fix, no decoder produces one: `DecodeAction` maps the header-only types to the 8-byte ActionDecNwTtl).  A bucket
    holding it still encodes (20 bytes padded to 24); decoding yields the same bucket with the action in its 8-byte kind — a
    different value with the same wire bytes (its encoding is `bs` again).  This is a representation change of a hand-built
    value, not a loss: type and Length come back. -/
theorem bucket_bareHeader_literal :
    let v := bucketV 24 1 4294967295 4294967295 (.bytes []) [ActionHeader.mk Gen.openflow13.ActionType_CopyTtlOut 4]
    let v' := bucketV 24 1 4294967295 4294967295 (.bytes [])
      [.obj "ActionDecNwTtl" [ActionHeader.mk Gen.openflow13.ActionType_CopyTtlOut 4, .bytes []]]
    let bs : Bytes := [0, 24, 0, 1, 255, 255, 255, 255, 255, 255, 255, 255, 0, 0, 0, 0,  0, 11, 0, 4,  0, 0, 0, 0]
    Bucket.marshalM v = .ok (bs, v) ∧
    Bucket.unmarshal Bucket.zero (Slice.exact bs) = .ok v' ∧ Bucket.marshalM v' = .ok (bs, v') :=
  ⟨rfl, rfl, rfl⟩

/-- GroupMod (through `GroupMod.UnmarshalBinary` into `new(GroupMod)`; Parse does not dispatch group-mod, see below) holding ANY list of
    buckets each of which round-trips on its own (`BucketsRT bs es`, OFV/Lemmas/RT2Group.lean — `bucketRT_of` gives them for any
    action list as in bucket_roundtrip), followed by anything.  DELETE commands carry no buckets.  `MarshalBinary` stores the size
    in Header.Length. -/
theorem groupMod_roundtrip (ver ty xid cmd t p g : Nat) (bs : List V) (es : List Bytes) (hver : ver < 256) (hty : ty < 256)
    (hxid : xid < 4294967296) (hcmd : cmd < 65536) (ht : t < 256) (hp : p < 256) (hg : g < 4294967296)
    (hbs : BucketsRT bs es) (hdel : cmd = Gen.openflow13.OFPGC_DELETE → bs = []) (hS : 16 + es.flatten.length < 65536) :
    let L := 16 + es.flatten.length
    let v' := groupModV ver ty L xid cmd t p g bs
    let bytes := [n8 ver, n8 ty] ++ be16 (n16 L) ++ be32 (n32 xid) ++ be16 (n16 cmd) ++ [n8 t, n8 p] ++ be32 (n32 g) ++ es.flatten
    (∀ ln0, GroupMod.marshalM (groupModV ver ty ln0 xid cmd t p g bs) = .ok (bytes, v')) ∧
    RoundTrip GroupMod.marshalM (GroupMod.unmarshal GroupMod.zero) v' v' bytes := by
  obtain ⟨h1, _, _, h4⟩ := groupMod_rt ver ty xid cmd t p g bs es hver hty hxid hcmd ht hp hg hbs hdel hS
  exact ⟨h1, h1 _, h1 _, h4⟩

/-- satisfiable: a group with two buckets, [output 2, set-queue 5] (40 bytes) and [ct(commit, exec(ct_clear)), group 9] (64 bytes:
    a conntrack action with a nested action inside a bucket) -/
example : ∃ bs es, BucketsRT bs es ∧ bs.length = 2 :=
  ⟨_, _, .cons (bucketRT_of 1 4294967295 4294967295 _ _ (by decide) (by decide) (by decide)
      (.of (.cons (actionRT_output 16 2 65535 (by decide) (by decide) (by decide))
        (.cons (actionRT_setqueue 8 5 (by decide) (by decide)) .nil))) (by decide) (by decide))
    (.cons (bucketRT_of 2 4294967295 4294967295 _ _ (by decide) (by decide) (by decide)
      (.cons (actionRTd_connTrack 1 0 0 255 0 _ _ (by decide) (by decide) (by decide) (by decide) (by decide)
          (.cons actionRT_ctClear .nil) (by intro a ha; simp only [List.mem_cons, List.not_mem_nil, or_false] at ha; subst ha; decide)
          (by decide))
        (.cons (.of (actionRT_group 8 9 (by decide) (by decide))) .nil)) (by decide) (by decide)) .nil), rfl⟩

/-- known finding D28: `Parse` has no case for group-mod — the bytes of a GroupMod parse to (nil, nil) -/
theorem groupMod_not_parsed :
    let v := groupModV 4 Gen.openflow13.Type_GroupMod 16 7 0 0 0 1 []
    let bs : Bytes := [4, 15, 0, 16, 0, 0, 0, 7,  0, 0, 0, 0, 0, 0, 0, 1]
    GroupMod.marshalM v = .ok (bs, v) ∧ parse 17 (Slice.exact bs) = .ok .nil ∧
    GroupMod.unmarshal GroupMod.zero (Slice.exact bs) = .ok v :=
  ⟨rfl, rfl, rfl⟩

/-! ## §3 PortMod and PacketOut (through their own decoders; Parse dispatches neither) -/

/-- PortMod (40 bytes) decoded into `NewPortMod(p0)` (any `p0`) — a receiver with an allocated 6-byte HWAddr and zero pads, which the
    decoder's offsets depend on — followed by anything.  `MarshalBinary` stores 40 in Header.Length. -/
theorem portMod_roundtrip (ver ty xid no p0 : Nat) (hw : Bytes) (cfg mask adv : Nat) (hver : ver < 256) (hty : ty < 256)
    (hxid : xid < 4294967296) (hno : no < 4294967296) (hhw : hw.length = 6) (hcfg : cfg < 4294967296) (hmask : mask < 4294967296)
    (hadv : adv < 4294967296) :
    let v' := portModV ver ty 40 xid no (zeros 4) hw (zeros 2) cfg mask adv (zeros 4)
    let bs := [n8 ver, n8 ty] ++ be16 (n16 40) ++ be32 (n32 xid) ++ be32 (n32 no) ++ zeros 4 ++ hw ++ zeros 2 ++ be32 (n32 cfg)
      ++ be32 (n32 mask) ++ be32 (n32 adv) ++ zeros 4
    (∀ ln0, PortMod.marshalM (portModV ver ty ln0 xid no (zeros 4) hw (zeros 2) cfg mask adv (zeros 4)) = .ok (bs, v')) ∧
    RoundTrip PortMod.marshalM (PortMod.unmarshal (PortMod.new p0)) v' v' bs := by
  obtain ⟨h1, _, h3⟩ := portMod_rt ver ty xid no hw cfg mask adv hver hty hxid hno hhw hcfg hmask hadv
  exact ⟨h1, h1 _, h1 _, h3 p0⟩

/-- PortMod decoded into `new(PortMod)` (nil HWAddr, nil pads), followed by anything (fixed: the decoder used to advance by
    `len(p.HWAddr)` of the receiver, 0 here, leave HWAddr empty and read Config / Mask / Advertise 6 bytes too early; now a
    receiver whose HWAddr is not 6 bytes long gets a fresh 6-byte address and the cursor advances by 6).  Every exported field
    comes back; the unexported pads of `new(PortMod)` stay nil — `v0` is the value with nil pads, which encodes to the same bytes. -/
theorem portMod_roundtrip_zero_receiver (ver ty xid no : Nat) (hw : Bytes) (cfg mask adv : Nat) (hver : ver < 256) (hty : ty < 256)
    (hxid : xid < 4294967296) (hno : no < 4294967296) (hhw : hw.length = 6) (hcfg : cfg < 4294967296) (hmask : mask < 4294967296)
    (hadv : adv < 4294967296) :
    let v := portModV ver ty 40 xid no (zeros 4) hw (zeros 2) cfg mask adv (zeros 4)
    let v0 := portModV ver ty 40 xid no [] hw [] cfg mask adv []
    let bs := [n8 ver, n8 ty] ++ be16 (n16 40) ++ be32 (n32 xid) ++ be32 (n32 no) ++ zeros 4 ++ hw ++ zeros 2 ++ be32 (n32 cfg)
      ++ be32 (n32 mask) ++ be32 (n32 adv) ++ zeros 4
    RoundTrip PortMod.marshalM (PortMod.unmarshal PortMod.zero) v v0 bs := by
  obtain ⟨h1, _, _⟩ := portMod_rt ver ty xid no hw cfg mask adv hver hty hxid hno hhw hcfg hmask hadv
  obtain ⟨g1, g2⟩ := portMod_rt_zero ver ty xid no hw cfg mask adv hver hty hxid hno hhw hcfg hmask hadv
  exact ⟨h1 _, g1 _, g2⟩

/-- … and into ANY PortMod receiver (whatever its header, scalars and HWAddr) whose unexported pads hold at most 4 / 2 / 4 bytes:
    the exported fields come back, the pads keep their lengths and hold zeros -/
theorem portMod_decode_any_receiver (ver ty xid no : Nat) (hw : Bytes) (cfg mask adv : Nat) (hver : ver < 256) (hty : ty < 256)
    (hxid : xid < 4294967296) (hno : no < 4294967296) (hhw : hw.length = 6) (hcfg : cfg < 4294967296) (hmask : mask < 4294967296)
    (hadv : adv < 4294967296) (h0 x y z w : V) (p1 hw0 p2 p3 : Bytes) (hp1 : p1.length ≤ 4) (hp2 : p2.length ≤ 2) (hp3 : p3.length ≤ 4)
    (data : Slice) (tail : Bytes) (hd : data.WF)
    (hb : data.bytes = [n8 ver, n8 ty] ++ be16 (n16 40) ++ be32 (n32 xid) ++ be32 (n32 no) ++ zeros 4 ++ hw ++ zeros 2 ++ be32 (n32 cfg)
      ++ be32 (n32 mask) ++ be32 (n32 adv) ++ zeros 4 ++ tail) :
    PortMod.unmarshal (.obj "PortMod" [h0, x, .bytes p1, .bytes hw0, .bytes p2, y, z, w, .bytes p3]) data
      = .ok (portModV ver ty 40 xid no (zeros p1.length) hw (zeros p2.length) cfg mask adv (zeros p3.length)) :=
  portMod_decode ver ty xid no hw cfg mask adv hver hty hxid hno hhw hcfg hmask hadv h0 x y z w p1 hw0 p2 p3 hp1 hp2 hp3 data tail hd hb

/-- the former counterexample (port 3, MAC 01:02:03:04:05:06, config 1, mask 1) decoded into `new(PortMod)` now comes back with its
    address and Config / Mask / Advertise -/
theorem portMod_zero_receiver_example :
    let v := portModV 4 16 40 7 3 (zeros 4) [1, 2, 3, 4, 5, 6] (zeros 2) 1 1 0 (zeros 4)
    ∃ bs, PortMod.marshalM v = .ok (bs, v) ∧
      PortMod.unmarshal PortMod.zero (Slice.exact bs) = .ok (portModV 4 16 40 7 3 [] [1, 2, 3, 4, 5, 6] [] 1 1 0 []) :=
  ⟨_, rfl, rfl⟩

/-- `Parse` has no case for port-mod either: (nil, nil) -/
theorem portMod_not_parsed :
    let v := portModV 4 16 40 7 3 (zeros 4) [1, 2, 3, 4, 5, 6] (zeros 2) 1 1 0 (zeros 4)
    ∃ bs, PortMod.marshalM v = .ok (bs, v) ∧ parse 41 (Slice.exact bs) = .ok .nil :=
  ⟨_, rfl, rfl⟩

/-- GENUINE DEFECT.  `PacketOut.UnmarshalBinary` into a receiver whose Data is nil — `new(PacketOut)` and `NewPacketOut()`, the only
    receivers the library builds — never returns a value, whatever the bytes: it panics (`p.Data.UnmarshalBinary` on the nil
    interface, if the action loop `for n < n+ActionsLen` is survived at all), returns an error, or does not terminate. -/
theorem packetOut_never_decodes (data : Slice) (v : V) :
    PacketOut.unmarshal PacketOut.zero data ≠ .ok v ∧ PacketOut.unmarshal PacketOut.new data ≠ .ok v :=
  ⟨packetOut_data_nil _ _ _ _ _ _ data v, packetOut_data_nil _ _ _ _ _ _ data v⟩

/-- … and even with a receiver whose Data has been pre-set to a Buffer, a well-formed PacketOut with ONE action (output 2, 4 payload
    bytes) does not decode: the loop condition `n < n+ActionsLen` stays true, the loop decodes the payload as actions and panics. -/
theorem packetOut_action_counterexample :
    let act := V.obj "ActionOutput" [ActionHeader.mk 0 16, .num 2, .num 65535, .bytes []]
    let v := packetOutV 4 13 44 7 4294967295 1 16 (.bytes (zeros 6)) [act] (UBuffer.mk [1, 2, 3, 4])
    ∃ bs, PacketOut.marshalM v = .ok (bs, v) ∧ bs.length = 44 ∧
      PacketOut.unmarshal (.obj "PacketOut" [Header.zero, .num 0, .num 0, .num 0, .bytes [], .list [], UBuffer.mk []]) (Slice.exact bs) = .panic :=
  ⟨_, rfl, rfl, rfl⟩

/-- `Parse` has no case for packet-out: (nil, nil) -/
theorem packetOut_not_parsed :
    let v := packetOutV 4 13 28 7 4294967295 1 0 (.bytes (zeros 6)) [] (UBuffer.mk [1, 2, 3, 4])
    ∃ bs, PacketOut.marshalM v = .ok (bs, v) ∧ parse 29 (Slice.exact bs) = .ok .nil :=
  ⟨_, rfl, rfl⟩

/-- PARTIAL (full statement — any action list, receiver `new(PacketOut)` — is false, see above): a PacketOut WITHOUT actions whose
    payload is a `util.Buffer` with content `c`, decoded into a receiver whose Data has been pre-set to a Buffer, from a buffer holding
    exactly the message (the payload extends to the end of the buffer): round trip.  `MarshalBinary` stores the size in Header.Length
    and ActionsLen = 0. -/
theorem packetOut_noactions_partial (ver ty xid b ip : Nat) (c c0 : Bytes) (pad : V) (hver : ver < 256) (hty : ty < 256)
    (hxid : xid < 4294967296) (hb32 : b < 4294967296) (hip : ip < 4294967296) (hc : 24 + c.length < 65536) :
    let L := 24 + c.length
    let v' := packetOutV ver ty L xid b ip 0 pad [] (UBuffer.mk c)
    let bs := [n8 ver, n8 ty] ++ be16 (n16 L) ++ be32 (n32 xid) ++ be32 (n32 b) ++ be32 (n32 ip) ++ be16 (n16 0) ++ zeros 6 ++ c
    (∀ ln0 al0, PacketOut.marshalM (packetOutV ver ty ln0 xid b ip al0 pad [] (UBuffer.mk c)) = .ok (bs, v')) ∧
    ∀ (data : Slice) (h0 b0 ip0 al0 : V), data.WF → data.bytes = bs →
      PacketOut.unmarshal (.obj "PacketOut" [h0, b0, ip0, al0, pad, .list [], UBuffer.mk c0]) data = .ok v' :=
  packetOut_noactions_rt ver ty xid b ip c c0 pad hver hty hxid hb32 hip hc

/-! ## §4 multipart replies through Parse

`RecordRT ty r e` (OFV/Lemmas/RT2Multipart.lean): the record `r` encodes to `e` unchanged through the `util.Message` interface
(`anyMarshalM`, `anyLenM` = |e|), and the record decoder Parse uses for multipart type `ty` (`MultipartReply.decodeRecord ty`: `new(T)`
by type, then UnmarshalBinary) returns `r` without error from `e` followed by anything. -/

/-- AggregateStats record (24 bytes; decoded into NewAggregateStats()) -/
theorem record_aggregateStats (pc bc fc : Nat) (hpc : pc < 18446744073709551616) (hbc : bc < 18446744073709551616)
    (hfc : fc < 4294967296) :
    RecordRT Gen.openflow13.MultipartType_Aggregate (.obj "AggregateStats" [.num pc, .num bc, .num fc, .bytes (zeros 4)])
      (be64 (n64 pc) ++ be64 (n64 bc) ++ be32 (n32 fc) ++ zeros 4) :=
  recordRT_aggregate pc bc fc hpc hbc hfc

/-- DescStats record (1056 bytes: manufacturer, hardware, software, 32-byte serial number, datapath description; decoded into
    NewDescStats()) -/
theorem record_descStats (a b c d e : Bytes) (ha : a.length = 256) (hb : b.length = 256) (hc : c.length = 256) (hd : d.length = 32)
    (he : e.length = 256) :
    RecordRT Gen.openflow13.MultipartType_Desc (.obj "DescStats" [.bytes a, .bytes b, .bytes c, .bytes d, .bytes e])
      (a ++ b ++ c ++ d ++ e) :=
  recordRT_desc a b c d e ha hb hc hd he

/-- FlowStats record: 48 fixed bytes, the Match (`MatchWF`), ANY list of round-tripping instructions (`InstrsRT`, as for FlowMod in C05
    §5: goto-table, write-metadata, write/apply/clear-actions with any action list); Length = the record's size (it bounds the
    decoder's instruction loop); decoded into NewFlowStats(). -/
theorem record_flowStats (t p ds dn pr it ht fl c pc bc : Nat) (m : V) (is : List V) (encs : List Bytes)
    (ht8 : t < 256) (hp : p < 256) (hds : ds < 4294967296) (hdn : dn < 4294967296) (hpr : pr < 65536) (hit : it < 65536)
    (hht : ht < 65536) (hfl : fl < 65536) (hc : c < 18446744073709551616) (hpc : pc < 18446744073709551616)
    (hbc : bc < 18446744073709551616) (hm : MatchWF m) (his : InstrsRT is encs) :
    ∃ mbs, Match.marshalM m = .ok (mbs, m) ∧ (48 + mbs.length + encs.flatten.length < 65536 →
      let L := 48 + mbs.length + encs.flatten.length
      RecordRT Gen.openflow13.MultipartType_Flow (flowStatsV L t p ds dn pr it ht fl (zeros 4) c pc bc m is)
        (flowStatsFixed L t p ds dn pr it ht fl c pc bc ++ mbs ++ encs.flatten)) :=
  recordRT_flowStats t p ds dn pr it ht fl c pc bc m is encs ht8 hp hds hdn hpr hit hht hfl hc hpc hbc hm his

/-- MultipartReply through Parse with ANY list of records of its multipart type each of which round-trips on its own
    (`RecordsRT t rs es`), followed by anything: header, type, flags, 4 pad bytes, the records — every record decoded back from its
    position in the list.  `MarshalBinary` stores the size in Header.Length; the unexported pad comes back nil. -/
theorem multipartReply_roundtrip (ver xid t f : Nat) (rs : List V) (es : List Bytes) (hver : ver < 256) (hxid : xid < 4294967296)
    (ht : t < 65536) (hf : f < 65536) (hrs : RecordsRT t rs es) (hS : 16 + es.flatten.length < 65536) :
    let L := 16 + es.flatten.length
    let v' := mpReplyV ver L xid t f (.bytes []) rs
    let bs := [n8 ver, n8 Gen.openflow13.Type_MultiPartReply] ++ be16 (n16 L) ++ be32 (n32 xid) ++ (be16 (n16 t) ++ be16 (n16 f) ++ zeros 4)
      ++ es.flatten
    (∀ (ln0 : Nat) (pad : V), MultipartReply.marshalM (mpReplyV ver ln0 xid t f pad rs) = .ok (bs, mpReplyV ver L xid t f pad rs)) ∧
    ∀ depth, RoundTrip MultipartReply.marshalM (parse depth) v' v' bs := by
  obtain ⟨h1, _, h3⟩ := mpReply_rt ver xid t f rs es hver hxid ht hf hrs hS
  exact ⟨h1, fun depth => ⟨h1 _ _, h1 _ _, h3 depth⟩⟩

/-- satisfiable: an aggregate reply with one record, and a flow-stats reply with two records (the second with instructions
    [goto-table 3, apply-actions [output 2]]) -/
example : ∃ rs es, RecordsRT Gen.openflow13.MultipartType_Aggregate rs es ∧ rs.length = 1 :=
  ⟨_, _, .cons (recordRT_aggregate 1000 64000 3 (by decide) (by decide) (by decide)) .nil, rfl⟩

/-- … and the theorem applied to it: an aggregate-stats reply (40 bytes) through Parse -/
example (depth : Nat) : ∃ v' bs, RoundTrip MultipartReply.marshalM (parse depth) v' v' bs ∧ bs.length = 40 := by
  obtain ⟨_, h2⟩ := multipartReply_roundtrip 4 7 Gen.openflow13.MultipartType_Aggregate 0 _ _ (by decide) (by decide) (by decide) (by decide)
    (.cons (recordRT_aggregate 1000 64000 3 (by decide) (by decide) (by decide)) .nil) (by decide)
  exact ⟨_, _, h2 depth, rfl⟩

theorem multipartReply_flowStats_example :
    ∃ rs es, RecordsRT Gen.openflow13.MultipartType_Flow rs es ∧ rs.length = 2 := by
  have hm : MatchWF (.obj "Match" [.num 1, .num 4, .list []]) := ⟨by decide, fun f hf => absurd hf (by simp), rfl, by decide⟩
  have hmb : Match.marshalM (.obj "Match" [.num 1, .num 4, .list []]) = .ok ([0, 1, 0, 4, 0, 0, 0, 0], .obj "Match" [.num 1, .num 4, .list []]) := rfl
  have his : InstrsRT _ _ := .cons (instrRT_gotoTable 8 3 (by decide) (by decide))
    (.cons (instrRT_actions Gen.openflow13.InstrType_APPLY_ACTIONS 24 _ _ (Or.inr (Or.inl rfl))
      (.cons (actionRT_output 16 2 65535 (by decide) (by decide) (by decide)) .nil) rfl (by decide)) .nil)
  obtain ⟨mbs, hmm, h1⟩ := recordRT_flowStats 0 0 5 0 100 0 0 0 7 10 640 _ [] [] (by decide) (by decide) (by decide) (by decide)
    (by decide) (by decide) (by decide) (by decide) (by decide) (by decide) (by decide) hm .nil
  obtain ⟨mbs', hmm', h2⟩ := recordRT_flowStats 1 0 5 0 100 0 0 0 7 10 640 _ _ _ (by decide) (by decide) (by decide) (by decide)
    (by decide) (by decide) (by decide) (by decide) (by decide) (by decide) (by decide) hm his
  rw [hmb] at hmm hmm'
  cases hmm; cases hmm'
  exact ⟨_, _, .cons (h1 (by decide)) (.cons (h2 (by decide)) .nil), rfl⟩

/-- QueueStats record (32 bytes: port, 2 pad bytes, queue id, three 64-bit counters), for ALL field values: Parse decodes it into
    `new(QueueStats)`, whose pad is nil and stays nil (fixed: `QueueStats.UnmarshalBinary` used to advance by `len(s.pad)` of the
    receiver — 0 — instead of 2, so queue id and counters were read 2 bytes early).  A value whose pad holds up to 2 zero bytes
    encodes to the same bytes (second statement).  As a `RecordRT` fact it can be an element of multipartReply_roundtrip. -/
theorem record_queueStats (p q tb tp te : Nat) (hp : p < 65536) (hq : q < 4294967296) (htb : tb < 18446744073709551616)
    (htp : tp < 18446744073709551616) (hte : te < 18446744073709551616) :
    let bs := be16 (n16 p) ++ zeros 2 ++ be32 (n32 q) ++ be64 (n64 tb) ++ be64 (n64 tp) ++ be64 (n64 te)
    RecordRT Gen.openflow13.MultipartType_Queue (.obj "QueueStats" [.num p, .bytes [], .num q, .num tb, .num tp, .num te]) bs ∧
    ∀ kp, kp ≤ 2 → anyMarshalM (.obj "QueueStats" [.num p, .bytes (zeros kp), .num q, .num tb, .num tp, .num te])
      = .ok (bs, .obj "QueueStats" [.num p, .bytes (zeros kp), .num q, .num tb, .num tp, .num te]) :=
  ⟨recordRT_queue p q tb tp te hp hq htb htp hte, fun kp hkp => queueStats_marshal p q tb tp te kp hkp⟩

/-- a queue-stats reply with ANY list of queue records through Parse, followed by anything (multipartReply_roundtrip at type QUEUE) -/
theorem queueStats_reply_roundtrip (ver xid f : Nat) (rs : List V) (es : List Bytes) (hver : ver < 256) (hxid : xid < 4294967296)
    (hf : f < 65536) (hrs : RecordsRT Gen.openflow13.MultipartType_Queue rs es) (hS : 16 + es.flatten.length < 65536) (depth : Nat) :
    let L := 16 + es.flatten.length
    let v' := mpReplyV ver L xid Gen.openflow13.MultipartType_Queue f (.bytes []) rs
    RoundTrip MultipartReply.marshalM (parse depth) v' v'
      ([n8 ver, n8 Gen.openflow13.Type_MultiPartReply] ++ be16 (n16 L) ++ be32 (n32 xid)
        ++ (be16 (n16 Gen.openflow13.MultipartType_Queue) ++ be16 (n16 f) ++ zeros 4) ++ es.flatten) :=
  (multipartReply_roundtrip ver xid Gen.openflow13.MultipartType_Queue f rs es hver hxid (by decide) hf hrs hS).2 depth

/-- satisfiable: two queue records -/
example : ∃ rs es, RecordsRT Gen.openflow13.MultipartType_Queue rs es ∧ rs.length = 2 :=
  ⟨_, _, .cons (recordRT_queue 3 5 100 10 1 (by decide) (by decide) (by decide) (by decide) (by decide))
    (.cons (recordRT_queue 4 6 18446744073709551615 0 7 (by decide) (by decide) (by decide) (by decide) (by decide)) .nil), rfl⟩

set_option maxRecDepth 20000 in
/-- the former counterexample (port 3, queue 5, counters 100 / 10 / 1; the record built with 2 pad bytes) now comes back with its
    queue id and counters; the pad of the decoded record is nil (receiver `new(QueueStats)`) -/
theorem queueStats_example :
    let q := V.obj "QueueStats" [.num 3, .bytes (zeros 2), .num 5, .num 100, .num 10, .num 1]
    let q' := V.obj "QueueStats" [.num 3, .bytes [], .num 5, .num 100, .num 10, .num 1]
    let v := mpReplyV 4 48 7 Gen.openflow13.MultipartType_Queue 0 (.bytes (zeros 4)) [q]
    ∃ bs, MultipartReply.marshalM v = .ok (bs, v) ∧ bs.length = 48 ∧
      parse 49 (Slice.exact bs) = .ok (mpReplyV 4 48 7 Gen.openflow13.MultipartType_Queue 0 (.bytes []) [q']) :=
  ⟨_, rfl, rfl, rfl⟩

set_option maxRecDepth 20000 in
/-- the two remaining record kinds round-trip on concrete values (table stats: 24-byte record with NewTableStats()'s 32-byte name …,
    port stats: 104-byte record with twelve counters); no general theorem is stated for them here -/
theorem tableStats_portStats_examples :
    let t := V.obj "TableStats" [.num 3, .bytes (zeros 3), .bytes (zeros 32), .num 5, .num 100, .num 10, .num 1, .num 2]
    let p := V.obj "PortStats" ([.num 3, .bytes (zeros 6)] ++ (List.range 12).map (fun i => V.num (i + 1)))
    (∃ bs, MultipartReply.marshalM (mpReplyV 4 80 7 Gen.openflow13.MultipartType_Table 0 (.bytes []) [t])
        = .ok (bs, mpReplyV 4 80 7 Gen.openflow13.MultipartType_Table 0 (.bytes []) [t]) ∧
      parse 81 (Slice.exact bs) = .ok (mpReplyV 4 80 7 Gen.openflow13.MultipartType_Table 0 (.bytes []) [t])) ∧
    (∃ bs, MultipartReply.marshalM (mpReplyV 4 120 7 Gen.openflow13.MultipartType_Port 0 (.bytes []) [p])
        = .ok (bs, mpReplyV 4 120 7 Gen.openflow13.MultipartType_Port 0 (.bytes []) [p]) ∧
      parse 121 (Slice.exact bs) = .ok (mpReplyV 4 120 7 Gen.openflow13.MultipartType_Port 0 (.bytes []) [p])) :=
  ⟨⟨_, rfl, rfl⟩, ⟨_, rfl, rfl⟩⟩

/-! ## §5 vendor (experimenter) messages through Parse

`VendorDataRT ty d e` (OFV/Lemmas/RT2Vendor.lean): the payload `d` encodes to `e` unchanged through the `util.Message` interface, and
`decodeVendorData` for experimenter type `ty` returns `d` from a slice holding exactly `e` (the slice `data[16:Header.Length]` that
VendorHeader.UnmarshalBinary cuts out).  `vendorV ver ln xid vn ty d` is the VendorHeader value. -/

/-- VendorHeader around ANY round-tripping payload, through Parse, followed by anything: header (type 4) with the computed Length,
    vendor id, experimenter type, payload.  `MarshalBinary` stores the size in Header.Length. -/
theorem vendor_roundtrip (ver xid vn ty : Nat) (d : V) (e : Bytes) (hver : ver < 256) (hxid : xid < 4294967296)
    (hvn : vn < 4294967296) (hty : ty < 4294967296) (hd : VendorDataRT ty d e) (hS : 16 + e.length < 65536) :
    let L := 16 + e.length
    let v' := vendorV ver L xid vn ty d
    let bs := [n8 ver, n8 Gen.openflow13.Type_Experimenter] ++ be16 (n16 L) ++ be32 (n32 xid) ++ be32 (n32 vn) ++ be32 (n32 ty) ++ e
    (∀ ln0, VendorHeader.marshalM (vendorV ver ln0 xid vn ty d) = .ok (bs, v')) ∧
    ∀ depth, RoundTrip VendorHeader.marshalM (parse depth) v' v' bs := by
  obtain ⟨h1, _, h3⟩ := vendor_rt ver xid vn ty d e hver hxid hvn hty hd hS
  exact ⟨h1, fun depth => ⟨h1 _, h1 _, h3 depth⟩⟩

/-- NXT_SET_CONTROLLER_ID (NewSetControllerID): VendorHeader with a ControllerID payload -/
theorem setControllerID_roundtrip (ver xid vn id depth : Nat) (hver : ver < 256) (hxid : xid < 4294967296) (hvn : vn < 4294967296)
    (hid : id < 65536) :
    let v' := vendorV ver 24 xid vn Gen.openflow13.Type_SetControllerId (.obj "ControllerID" [.bytes (zeros 6), .num id])
    RoundTrip VendorHeader.marshalM (parse depth) v' v'
      ([n8 ver, n8 Gen.openflow13.Type_Experimenter] ++ be16 (n16 24) ++ be32 (n32 xid) ++ be32 (n32 vn)
        ++ be32 (n32 Gen.openflow13.Type_SetControllerId) ++ (zeros 6 ++ be16 (n16 id))) :=
  (vendor_roundtrip ver xid vn _ _ _ hver hxid hvn (by decide) (vendorData_controllerID id hid) (by simp)).2 depth

/-- NXT_TLV_TABLE_MOD with ANY list of mappings (`TlvMap`: option class < 2^16, type < 2^8, length < 2^8, index < 2^16) -/
theorem tlvTableMod_roundtrip (ver xid vn c depth : Nat) (ms : List TlvMap) (hver : ver < 256) (hxid : xid < 4294967296)
    (hvn : vn < 4294967296) (hc : c < 65536) (hms : ∀ m ∈ ms, m.ok) (hn : 24 + 8 * ms.length < 65536) :
    let d := V.obj "TLVTableMod" [.num c, .bytes (zeros 6), .list (ms.map TlvMap.v)]
    let e := be16 (n16 c) ++ zeros 6 ++ tlvWire ms
    let v' := vendorV ver (16 + e.length) xid vn Gen.openflow13.Type_TlvTableMod d
    RoundTrip VendorHeader.marshalM (parse depth) v' v'
      ([n8 ver, n8 Gen.openflow13.Type_Experimenter] ++ be16 (n16 (16 + e.length)) ++ be32 (n32 xid) ++ be32 (n32 vn)
        ++ be32 (n32 Gen.openflow13.Type_TlvTableMod) ++ e) := by
  intro d e v'
  have hel : e.length = 8 + 8 * ms.length := by
    simp only [e, List.length_append, be16_length, zeros_length, tlvWire_length]
  exact (vendor_roundtrip ver xid vn _ _ _ hver hxid hvn (by decide) (vendorData_tlvTableMod c ms hc hms (by omega))
    (by rw [hel]; omega)).2 depth

/-- NXT_TLV_TABLE_REPLY with ANY list of mappings -/
theorem tlvTableReply_roundtrip (ver xid vn a b depth : Nat) (ms : List TlvMap) (hver : ver < 256) (hxid : xid < 4294967296)
    (hvn : vn < 4294967296) (ha : a < 4294967296) (hb : b < 65536) (hms : ∀ m ∈ ms, m.ok) (hn : 32 + 8 * ms.length < 65536) :
    let d := V.obj "TLVTableReply" [.num a, .num b, .bytes (zeros 10), .list (ms.map TlvMap.v)]
    let e := be32 (n32 a) ++ be16 (n16 b) ++ zeros 10 ++ tlvWire ms
    let v' := vendorV ver (16 + e.length) xid vn Gen.openflow13.Type_TlvTableReply d
    RoundTrip VendorHeader.marshalM (parse depth) v' v'
      ([n8 ver, n8 Gen.openflow13.Type_Experimenter] ++ be16 (n16 (16 + e.length)) ++ be32 (n32 xid) ++ be32 (n32 vn)
        ++ be32 (n32 Gen.openflow13.Type_TlvTableReply) ++ e) := by
  intro d e v'
  have hel : e.length = 16 + 8 * ms.length := by
    simp only [e, List.length_append, be16_length, be32_length, zeros_length, tlvWire_length]
  exact (vendor_roundtrip ver xid vn _ _ _ hver hxid hvn (by decide) (vendorData_tlvTableReply a b ms ha hb hms (by omega))
    (by rw [hel]; omega)).2 depth

example : (∀ m ∈ [(⟨65535, 128, 4, 0⟩ : TlvMap), ⟨258, 1, 8, 63⟩], m.ok) := by
  intro m hm
  simp only [List.mem_cons, List.not_mem_nil, or_false] at hm
  rcases hm with rfl | rfl <;> exact ⟨by decide, by decide, by decide, by decide⟩

/-- ONF bundle control (NewBundleControl) -/
theorem bundleControl_roundtrip (ver xid vn i t f depth : Nat) (hver : ver < 256) (hxid : xid < 4294967296) (hvn : vn < 4294967296)
    (hi : i < 4294967296) (ht : t < 65536) (hf : f < 65536) :
    let v' := vendorV ver 24 xid vn Gen.openflow13.Type_BundleCtrl (.obj "BundleControl" [.num i, .num t, .num f])
    RoundTrip VendorHeader.marshalM (parse depth) v' v'
      ([n8 ver, n8 Gen.openflow13.Type_Experimenter] ++ be16 (n16 24) ++ be32 (n32 xid) ++ be32 (n32 vn)
        ++ be32 (n32 Gen.openflow13.Type_BundleCtrl) ++ (be32 (n32 i) ++ be16 (n16 t) ++ be16 (n16 f))) :=
  (vendor_roundtrip ver xid vn _ _ _ hver hxid hvn (by decide) (vendorData_bundleControl i t f hi ht hf) (by simp)).2 depth

/-! BundleAdd wraps a complete OpenFlow message.  `InnerMsgRT m e` (OFV/Lemmas/RT2Bundle.lean): `m` encodes to `e` unchanged through the
    `util.Message` interface, bytes 2..3 of `e` are its size (the embedded header's Length, which BundleAdd's decoder uses to cut the
    message out), and Parse returns `m` from a buffer holding exactly `e` — instances: `innerMsgRT_header` (header-only messages with
    Length 8) and `innerMsgRT_flowMod` (FlowMod with Match, instructions, actions).  `PropsRT ps es`: bundle properties with their
    encodings (`propRT_of`: BundlePropertyExperimenter as in C05's bundleProp_roundtrip). -/

/-- BundleAdd WITHOUT properties around any inner message, as a vendor payload, hence (vendor_roundtrip) through Parse -/
theorem bundleAdd_noprops_roundtrip (ver xid vn i f depth : Nat) (m : V) (e : Bytes) (hver : ver < 256) (hxid : xid < 4294967296)
    (hvn : vn < 4294967296) (hi : i < 4294967296) (hf : f < 65536) (hm : InnerMsgRT m e) (hS : 24 + e.length < 65536) :
    let pe := be32 (n32 i) ++ zeros 2 ++ be16 (n16 f) ++ e
    let v' := vendorV ver (16 + pe.length) xid vn Gen.openflow13.Type_BundleAdd (bundleAddV i f m [])
    RoundTrip VendorHeader.marshalM (parse depth) v' v'
      ([n8 ver, n8 Gen.openflow13.Type_Experimenter] ++ be16 (n16 (16 + pe.length)) ++ be32 (n32 xid) ++ be32 (n32 vn)
        ++ be32 (n32 Gen.openflow13.Type_BundleAdd) ++ pe) := by
  intro pe v'
  have hel : pe.length = 8 + e.length := by simp only [pe, List.length_append, be16_length, be32_length, zeros_length]
  exact (vendor_roundtrip ver xid vn _ _ _ hver hxid hvn (by decide) (vendorData_bundleAdd_noprops i f m e hi hf hm (by omega))
    (by rw [hel]; omega)).2 depth

/-- BundleAdd WITH a non-empty list of properties: the inner message is zero-padded to a multiple of 8, then the properties follow;
    every property is decoded back from its position -/
theorem bundleAdd_props_roundtrip (ver xid vn i f depth : Nat) (m : V) (e : Bytes) (ps : List V) (es : List Bytes) (hver : ver < 256)
    (hxid : xid < 4294967296) (hvn : vn < 4294967296) (hi : i < 4294967296) (hf : f < 65536) (hm : InnerMsgRT m e)
    (hps : PropsRT ps es) (hne : ps ≠ []) (hS : 24 + e.length + 7 + es.flatten.length < 65536) :
    let start := (8 + e.length + 7) / 8 * 8
    let pe := be32 (n32 i) ++ zeros 2 ++ be16 (n16 f) ++ e ++ zeros (start - (8 + e.length)) ++ es.flatten
    let v' := vendorV ver (16 + pe.length) xid vn Gen.openflow13.Type_BundleAdd (bundleAddV i f m ps)
    RoundTrip VendorHeader.marshalM (parse depth) v' v'
      ([n8 ver, n8 Gen.openflow13.Type_Experimenter] ++ be16 (n16 (16 + pe.length)) ++ be32 (n32 xid) ++ be32 (n32 vn)
        ++ be32 (n32 Gen.openflow13.Type_BundleAdd) ++ pe) := by
  intro start pe v'
  have hel : pe.length = start + es.flatten.length := by
    simp only [pe, List.length_append, be16_length, be32_length, zeros_length, start]; omega
  exact (vendor_roundtrip ver xid vn _ _ _ hver hxid hvn (by decide) (vendorData_bundleAdd_props i f m e ps es hi hf hm hps hne (by omega))
    (by rw [hel]; simp only [start]; omega)).2 depth

/-- instance: BundleAdd wrapping a barrier request (header-only message) -/
theorem bundleAdd_header_example :
    InnerMsgRT (.obj "Header" [.num 4, .num Gen.openflow13.Type_BarrierRequest, .num 8, .num 9])
      ([n8 4, n8 Gen.openflow13.Type_BarrierRequest] ++ be16 (n16 8) ++ be32 (n32 9)) :=
  innerMsgRT_header 4 _ 9 (by decide) (Or.inr (Or.inr (Or.inr (Or.inl rfl)))) (by decide)

/-- instance: BundleAdd wrapping ANY FlowMod that round-trips as in C05's flowMod_roundtrip -/
theorem bundleAdd_flowMod_inner (ver xid ck cm tid cmd it ht pr bid op og fl : Nat) (m : V) (is : List V) (encs : List Bytes)
    (hver : ver < 256) (hxid : xid < 4294967296) (hck : ck < 18446744073709551616) (hcm : cm < 18446744073709551616)
    (htid : tid < 256) (hcmd : cmd < 256) (hit : it < 65536) (hht : ht < 65536) (hpr : pr < 65536)
    (hbid : bid < 4294967296) (hop : op < 4294967296) (hog : og < 4294967296) (hfl : fl < 65536)
    (hm : MatchWF m) (his : InstrsRT is encs)
    (hdel : (cmd = Gen.openflow13.FC_DELETE ∨ cmd = Gen.openflow13.FC_DELETE_STRICT) → is = []) :
    ∃ mbs, Match.marshalM m = .ok (mbs, m) ∧ (48 + mbs.length + encs.flatten.length < 65536 →
      let L := 48 + mbs.length + encs.flatten.length
      InnerMsgRT (flowModV ver L xid ck cm tid cmd it ht pr bid op og fl (.bytes []) m is)
        ([n8 ver, n8 Gen.openflow13.Type_FlowMod] ++ be16 (n16 L) ++ be32 (n32 xid) ++ flowModFixed ck cm tid cmd it ht pr bid op og fl
          ++ mbs ++ encs.flatten)) :=
  innerMsgRT_flowMod ver xid ck cm tid cmd it ht pr bid op og fl m is encs hver hxid hck hcm htid hcmd hit hht hpr hbid hop hog hfl
    hm his hdel

/-- satisfiable: two bundle properties (payloads of 4 and 0 bytes) -/
example : ∃ ps es, PropsRT ps es ∧ ps ≠ [] ∧ ps.length = 2 :=
  ⟨_, _, .cons (propRT_of 65535 8992 1 [1, 2, 3, 4] (by decide) (by decide) (by decide) (by decide))
    (.cons (propRT_of 65535 8992 2 [] (by decide) (by decide) (by decide) (by decide)) .nil), by simp, rfl⟩

/-- … and bundleAdd_props_roundtrip applied: BundleAdd(bundle 1, flags 2) around a barrier request with those two properties, through
    Parse (16 + 8 + 8 + 16 + 16 = 64 bytes) -/
example (depth : Nat) : ∃ v' bs, RoundTrip VendorHeader.marshalM (parse depth) v' v' bs ∧ bs.length = 64 := by
  have h := bundleAdd_props_roundtrip 4 7 Gen.openflow13.ONF_EXPERIMENTER_ID 1 2 depth _ _ _ _ (by decide) (by decide) (by decide)
    (by decide) (by decide) bundleAdd_header_example
    (.cons (propRT_of 65535 8992 1 [1, 2, 3, 4] (by decide) (by decide) (by decide) (by decide))
      (.cons (propRT_of 65535 8992 2 [] (by decide) (by decide) (by decide) (by decide)) .nil)) (by simp) (by decide)
  exact ⟨_, _, h, rfl⟩

end OFV.Props.C05b
