/-
  C03 (part b) — encoded fields sit at their specified offsets with the supplied values: every kind of `Spec.layouts`.

  "Encoded fields sit at their specified offsets with the supplied values: every value put into a message through the
   API appears in the encoding at the offset, width and byte order that the OpenFlow 1.3 specification and the Nicira
   extension definitions assign to that field, optional parts appear exactly when their presence flags say so, and
   list elements appear in the order they were added."

  THE SPECIFICATION SIDE is the table `Spec.layouts` (OFV/Spec/Layout.lean): per kind the rows ⟨Go field name, offset,
  width, kind⟩.  `LayoutHolds K v bs` (OFV/Lemmas/LayDefs.lean) says that EVERY row of kind K's table holds for the
  value `v` and the bytes `bs`: the value is looked up BY FIELD NAME through the regenerated struct table
  `Gen.structFields`, and `Spec.beAt bs off width` (big-endian) must equal it — modulo 2^(8·width), i.e. the value
  itself for a value in range for its Go type (`layout_inRange`); `raw` rows compare bytes; `hdrWord` rows compare with
  the OXM header word class<<16 | field<<9 | hasmask<<8 | length of the referenced match field.

  One theorem `K_layout` per kind:   K.marshalM v = .ok (bs, v')  →  LayoutHolds "K" v bs
  for EVERY value v (no hypothesis besides the encoder succeeding; pads, lengths, children are arbitrary):
    standard actions   actionOutput / actionSetqueue / actionGroup / actionPush / actionPopMpls / actionMplsTtl /
                       actionNwTtl _layout (the TTL at 4, then three zero bytes: `actionMplsTtl_shape`, `actionNwTtl_shape`)
    Nicira actions     nxResubmit / nxResubmitTable / nxRegMove / nxRegLoad / nxOutputReg / nxConjunction / nxController /
                       nxDecTTLCntIDs / nxLearn / nxConnTrack / nxCTNAT _layout
    instructions       instrGotoTable / instrWriteMetadata / instrMeter _layout (meter id at 4, big-endian; `instrMeter_shape`)
    messages           flowMod / groupMod / bucket / packetOut / portMod / switchConfig / multipartRequest /
                       flowStatsRequest / aggregateStatsRequest _layout  (bodies relative to the body: `multipartRequest_body`)
    vendor payloads    controllerID / tlvTableMod / tlvTableMap / bundleControl / bundleAdd _layout (`vendorHeader_payload`:
                       the payload starts at 16)
    interfaces         `action_layout`, `instruction_layout` (dispatch on the dynamic type); `layouts_kinds` lists the table's kinds.

  Where a row is FALSE in the model a counterexample is proved instead (`…_layout_counterexample`):
    * PortStatsRequest.PortNo / QueueStatsRequest.PortNo  — written in 16 bits (known finding; `…_actual` say what is true),
    (the former counterexamples about InstrMeter.MeterId and ActionMplsTtl.MplsTtl / ActionNwTtl.NwTtl — "stub kinds
     encoded by the promoted 4-byte header method" — are gone: the library gives these kinds their own 8-byte codecs and the
     rows hold, `instrMeter_layout`, `actionMplsTtl_layout`, `actionNwTtl_layout`),
    * NXActionCTNAT: a range setter called with nil sets the presence bit but emits nothing
      (`nxCTNAT_presence_counterexample`).
  Further:
    * OXM payload placement: `matchField_layout` (header word, experimenter id, value, then mask iff HasMask),
    * list order (`InOrderAt bs start bss`: the k-th child encoding sits, complete, at start + Σ lengths before it):
      `match_layout`, `instrActions_in_order`, `bucket_in_order` / `bucket_shape`, `groupMod_buckets_in_order`,
      `flowMod_instructions_in_order`, `nxConnTrack_actions_in_order`, `tlvTableMod_maps_in_order`, `nxLearn_specs_in_order`,
    * NAT optional parts: `nxCTNAT_ranges` (the ranges that are set, in presence-bit order, each in its width) and
      `nxCTNAT_presence` (… exactly when the presence bits say so, for actions whose bits agree with their fields —
      an invariant of the constructor and of the setters: `natPresent_new`, `setRange_addr_present`, `setRange_port_present`
      in OFV/Lemmas/LayNat.lean).
  Tools: OFV/Lemmas/LayFill.lean (`fill_piece_at`: where the k-th piece of a `fill` encoder ends up),
  OFV/Lemmas/LayDefs.lean (vocabulary + tactics), OFV/Lemmas/LayNat.lean (conntrack / NAT helpers).
-/
import OFV.Model.All
import OFV.Spec.Layout
import OFV.Lemmas.Size
import OFV.Lemmas.SizeTac
import OFV.Lemmas.SizeIdem
import OFV.Lemmas.BeAt
import OFV.Lemmas.LayFill
import OFV.Lemmas.LayDefs
import OFV.Lemmas.LayNat
import OFV.Props.C03
import OFV.Props.C06
import OFV.Lemmas.SizeNoErr
import OFV.Lemmas.SizeList
import OFV.Lemmas.SizeInstr
namespace OFV.Props.C03b
open OFV OFV.Go OFV.Model OFV.Spec InstrAux

/-- a row of kind `num` whose supplied value is in range for the row's width: the bytes read back as that very value -/
theorem layout_inRange (v : V) (bs : Bytes) (name : String) (off w x : Nat)
    (h : FieldAt v bs ⟨name, off, w, .num⟩) (hx : fieldOf v name = some (.num x)) (hr : x < 2 ^ (8 * w)) :
    beAt bs off w = x := by
  unfold FieldAt at h
  simp only [hx] at h
  rw [h]; exact Nat.mod_eq_of_lt hr

/-! ### standard actions -/

/-- ActionOutput: port at 4 (32 bits), max_len at 8 (16 bits) -/
theorem actionOutput_layout (v : V) (bs : Bytes) (v' : V) (hm : ActionOutput.marshalM v = .ok (bs, v')) :
    LayoutHolds "ActionOutput" v bs := by
  unfold ActionOutput.marshalM at hm
  split at hm
  · obtain ⟨hb, hhb, h2⟩ := bind_ok_inv _ _ _ hm
    obtain ⟨out, hf, h3⟩ := bind_ok_inv _ _ _ h2
    obtain ⟨rfl, _⟩ := same_ok _ _ _ _ h3
    have hl := ActionHeader.bytes_length _ _ hhb
    intro fl hfl
    lay_rows hfl
    rcases hfl with rfl | rfl <;> lay_num hf
  · exact absurd hm (by simp)

/-- ActionSetqueue: queue_id at 4 (32 bits) -/
theorem actionSetqueue_layout (v : V) (bs : Bytes) (v' : V) (hm : ActionSetqueue.marshalM v = .ok (bs, v')) :
    LayoutHolds "ActionSetqueue" v bs := by
  unfold ActionSetqueue.marshalM at hm
  split at hm
  · rename_i h q
    obtain ⟨hb, hhb, h2⟩ := bind_ok_inv _ _ _ hm
    obtain ⟨rfl, _⟩ := same_ok _ _ _ _ h2
    have hl := ActionHeader.bytes_length _ _ hhb
    have hbs : hb ++ be32 (n32 q) = [hb, be32 (n32 q)].flatten ++ [] := by simp
    rw [hbs]
    intro fl hfl
    lay_rows hfl
    subst hfl
    lay_chunk
  · exact absurd hm (by simp)

/-- ActionGroup: group_id at 4 (32 bits) -/
theorem actionGroup_layout (v : V) (bs : Bytes) (v' : V) (hm : ActionGroup.marshalM v = .ok (bs, v')) :
    LayoutHolds "ActionGroup" v bs := by
  unfold ActionGroup.marshalM at hm
  split at hm
  · obtain ⟨hb, hhb, h2⟩ := bind_ok_inv _ _ _ hm
    obtain ⟨out, hf, h3⟩ := bind_ok_inv _ _ _ h2
    obtain ⟨rfl, _⟩ := same_ok _ _ _ _ h3
    have hl := ActionHeader.bytes_length _ _ hhb
    intro fl hfl
    lay_rows hfl
    subst hfl
    lay_num hf
  · exact absurd hm (by simp)

/-- ActionPush (push VLAN / MPLS / PBB): ethertype at 4 (16 bits) -/
theorem actionPush_layout (v : V) (bs : Bytes) (v' : V) (hm : ActionPush.marshalM v = .ok (bs, v')) :
    LayoutHolds "ActionPush" v bs := by
  unfold ActionPush.marshalM at hm
  split at hm
  · rename_i h et p
    obtain ⟨hb, hhb, h2⟩ := bind_ok_inv _ _ _ hm
    obtain ⟨rfl, _⟩ := same_ok _ _ _ _ h2
    have hl := ActionHeader.bytes_length _ _ hhb
    have hbs : hb ++ be16 (n16 et) ++ zeros 2 = [hb, be16 (n16 et)].flatten ++ zeros 2 := by simp
    rw [hbs]
    intro fl hfl
    lay_rows hfl
    subst hfl
    lay_chunk
  · exact absurd hm (by simp)

/-- ActionPopMpls: ethertype at 4 (16 bits) -/
theorem actionPopMpls_layout (v : V) (bs : Bytes) (v' : V) (hm : ActionPopMpls.marshalM v = .ok (bs, v')) :
    LayoutHolds "ActionPopMpls" v bs := by
  unfold ActionPopMpls.marshalM at hm
  split at hm
  · rename_i h et p
    obtain ⟨hb, hhb, h2⟩ := bind_ok_inv _ _ _ hm
    obtain ⟨rfl, _⟩ := same_ok _ _ _ _ h2
    have hl := ActionHeader.bytes_length _ _ hhb
    have hbs : hb ++ be16 (n16 et) ++ zeros 2 = [hb, be16 (n16 et)].flatten ++ zeros 2 := by simp
    rw [hbs]
    intro fl hfl
    lay_rows hfl
    subst hfl
    lay_chunk
  · exact absurd hm (by simp)

/-- ActionMplsTtl (set MPLS TTL): the TTL at 4 (8 bits) — for EVERY value the encoder accepts (the library now gives the
    action its own 8-byte codec; the former counterexample `actionMplsTtl_layout_counterexample`, "4 header bytes, the TTL is
    never written", no longer holds) -/
theorem actionMplsTtl_layout (v : V) (bs : Bytes) (v' : V) (hm : ActionMplsTtl.marshalM v = .ok (bs, v')) :
    LayoutHolds "ActionMplsTtl" v bs := by
  unfold ActionMplsTtl.marshalM at hm
  split at hm
  · rename_i h t p
    obtain ⟨hb, hhb, h2⟩ := bind_ok_inv _ _ _ hm
    obtain ⟨rfl, _⟩ := same_ok _ _ _ _ h2
    have hl := ActionHeader.bytes_length _ _ hhb
    have hbs : hb ++ [n8 t, 0, 0, 0] = [hb, [n8 t]].flatten ++ [0, 0, 0] := by simp
    rw [hbs]
    intro fl hfl
    lay_rows hfl
    subst hfl
    lay_chunk
  · exact absurd hm (by simp)

/-- ActionMplsTtl, whole shape: 8 bytes — the 4 header bytes, the TTL, then exactly three zero bytes of padding (whatever the
    value's `pad` field holds) -/
theorem actionMplsTtl_shape (v : V) (bs : Bytes) (v' : V) (hm : ActionMplsTtl.marshalM v = .ok (bs, v')) :
    bs.length = 8 ∧ bs.drop 5 = [0, 0, 0] := by
  unfold ActionMplsTtl.marshalM at hm
  split at hm
  · rename_i h t p
    obtain ⟨hb, hhb, h2⟩ := bind_ok_inv _ _ _ hm
    obtain ⟨rfl, _⟩ := same_ok _ _ _ _ h2
    have hl := ActionHeader.bytes_length _ _ hhb
    constructor
    · simp [hl]
    · rw [List.drop_append, List.drop_eq_nil_of_le (by omega), hl]; rfl
  · exact absurd hm (by simp)

/-- the former defect witnesses (any header, any non-zero TTL, any pad): the TTL byte now IS at offset 4 -/
theorem actionMplsTtl_ttl_at_4 (ty ln ttl : Nat) (pad : Bytes) :
    ∃ bs v', ActionMplsTtl.marshalM (.obj "ActionMplsTtl" [ActionHeader.mk ty ln, .num ttl, .bytes pad]) = .ok (bs, v') ∧
      bs.length = 8 ∧ beAt bs 4 1 = ttl % 256 ∧ bs.drop 5 = [0, 0, 0] := by
  refine ⟨_, _, rfl, rfl, ?_, rfl⟩
  simp [beAt, be16, n8, UInt8.toNat_ofNat']

/-- ActionNwTtl (set IP TTL): the TTL at 4 (8 bits) — for EVERY value the encoder accepts (the library now gives the
    action its own 8-byte codec; the former counterexample `actionNwTtl_layout_counterexample`, "4 header bytes, the TTL is
    never written", no longer holds) -/
theorem actionNwTtl_layout (v : V) (bs : Bytes) (v' : V) (hm : ActionNwTtl.marshalM v = .ok (bs, v')) :
    LayoutHolds "ActionNwTtl" v bs := by
  unfold ActionNwTtl.marshalM at hm
  split at hm
  · rename_i h t p
    obtain ⟨hb, hhb, h2⟩ := bind_ok_inv _ _ _ hm
    obtain ⟨rfl, _⟩ := same_ok _ _ _ _ h2
    have hl := ActionHeader.bytes_length _ _ hhb
    have hbs : hb ++ [n8 t, 0, 0, 0] = [hb, [n8 t]].flatten ++ [0, 0, 0] := by simp
    rw [hbs]
    intro fl hfl
    lay_rows hfl
    subst hfl
    lay_chunk
  · exact absurd hm (by simp)

/-- ActionNwTtl, whole shape: 8 bytes — the 4 header bytes, the TTL, then exactly three zero bytes of padding (whatever the
    value's `pad` field holds) -/
theorem actionNwTtl_shape (v : V) (bs : Bytes) (v' : V) (hm : ActionNwTtl.marshalM v = .ok (bs, v')) :
    bs.length = 8 ∧ bs.drop 5 = [0, 0, 0] := by
  unfold ActionNwTtl.marshalM at hm
  split at hm
  · rename_i h t p
    obtain ⟨hb, hhb, h2⟩ := bind_ok_inv _ _ _ hm
    obtain ⟨rfl, _⟩ := same_ok _ _ _ _ h2
    have hl := ActionHeader.bytes_length _ _ hhb
    constructor
    · simp [hl]
    · rw [List.drop_append, List.drop_eq_nil_of_le (by omega), hl]; rfl
  · exact absurd hm (by simp)

/-- the former defect witnesses (any header, any non-zero TTL, any pad): the TTL byte now IS at offset 4 -/
theorem actionNwTtl_ttl_at_4 (ty ln ttl : Nat) (pad : Bytes) :
    ∃ bs v', ActionNwTtl.marshalM (.obj "ActionNwTtl" [ActionHeader.mk ty ln, .num ttl, .bytes pad]) = .ok (bs, v') ∧
      bs.length = 8 ∧ beAt bs 4 1 = ttl % 256 ∧ bs.drop 5 = [0, 0, 0] := by
  refine ⟨_, _, rfl, rfl, ?_, rfl⟩
  simp [beAt, be16, n8, UInt8.toNat_ofNat']

/-! ### Nicira extension actions -/

/-- NXActionResubmit: in_port at 10 (16 bits) -/
theorem nxResubmit_layout (v : V) (bs : Bytes) (v' : V) (hm : NXActionResubmit.marshalM v = .ok (bs, v')) :
    LayoutHolds "NXActionResubmit" v bs := by
  unfold NXActionResubmit.marshalM at hm
  split at hm
  · obtain ⟨l, _, h2⟩ := bind_ok_inv _ _ _ hm
    obtain ⟨hb, hhb, h3⟩ := bind_ok_inv _ _ _ h2
    obtain ⟨out, hf, h4⟩ := bind_ok_inv _ _ _ h3
    cases h4
    have hl := NXActionHeader.bytes_length _ _ hhb
    intro fl hfl
    lay_rows hfl
    subst hfl
    lay_num hf
  · exact absurd hm (by simp)

/-- NXActionResubmitTable (also the CT variant): in_port at 10 (16 bits), table at 12 (8 bits) -/
theorem nxResubmitTable_layout (v : V) (bs : Bytes) (v' : V) (hm : NXActionResubmitTable.marshalM v = .ok (bs, v')) :
    LayoutHolds "NXActionResubmitTable" v bs := by
  unfold NXActionResubmitTable.marshalM at hm
  split at hm
  · obtain ⟨l, _, h2⟩ := bind_ok_inv _ _ _ hm
    obtain ⟨hb, hhb, h3⟩ := bind_ok_inv _ _ _ h2
    obtain ⟨out, hf, h4⟩ := bind_ok_inv _ _ _ h3
    obtain ⟨rfl, _⟩ := same_ok _ _ _ _ h4
    have hl := NXActionHeader.bytes_length _ _ hhb
    intro fl hfl
    lay_rows hfl
    rcases hfl with rfl | rfl <;> lay_num hf
  · exact absurd hm (by simp)

/-- NXActionRegMove: n_bits 10, src_ofs 12, dst_ofs 14 (16 bits each), the OXM headers of source and destination at
    16 and 20 -/
theorem nxRegMove_layout (v : V) (bs : Bytes) (v' : V) (hm : NXActionRegMove.marshalM v = .ok (bs, v')) :
    LayoutHolds "NXActionRegMove" v bs := by
  unfold NXActionRegMove.marshalM at hm
  split at hm
  · obtain ⟨l, _, h2⟩ := bind_ok_inv _ _ _ hm
    obtain ⟨hb, hhb, h3⟩ := bind_ok_inv _ _ _ h2
    obtain ⟨shw, hshw, h4⟩ := bind_ok_inv _ _ _ h3
    obtain ⟨dhw, hdhw, h5⟩ := bind_ok_inv _ _ _ h4
    obtain ⟨out, hf, h6⟩ := bind_ok_inv _ _ _ h5
    obtain ⟨rfl, _⟩ := same_ok _ _ _ _ h6
    have hl := NXActionHeader.bytes_length _ _ hhb
    intro fl hfl
    lay_rows hfl
    rcases hfl with rfl | rfl | rfl | rfl | rfl
    · lay_num hf
    · lay_num hf
    · lay_num hf
    · lay_hdr hshw hf
    · lay_hdr hdhw hf
  · exact absurd hm (by simp)

/-- NXActionRegLoad: ofs_nbits at 10 (16 bits), the destination's OXM header at 12, the value at 16 (64 bits) -/
theorem nxRegLoad_layout (v : V) (bs : Bytes) (v' : V) (hm : NXActionRegLoad.marshalM v = .ok (bs, v')) :
    LayoutHolds "NXActionRegLoad" v bs := by
  unfold NXActionRegLoad.marshalM at hm
  split at hm
  · obtain ⟨l, _, h2⟩ := bind_ok_inv _ _ _ hm
    obtain ⟨hb, hhb, h3⟩ := bind_ok_inv _ _ _ h2
    obtain ⟨hw, hhw, h4⟩ := bind_ok_inv _ _ _ h3
    obtain ⟨out, hf, h6⟩ := bind_ok_inv _ _ _ h4
    obtain ⟨rfl, _⟩ := same_ok _ _ _ _ h6
    have hl := NXActionHeader.bytes_length _ _ hhb
    intro fl hfl
    lay_rows hfl
    rcases hfl with rfl | rfl | rfl
    · lay_num hf
    · lay_hdr hhw hf
    · lay_num hf
  · exact absurd hm (by simp)

/-- NXActionOutputReg: ofs_nbits at 10 (16 bits), the source's OXM header at 12, max_len at 16 (16 bits) -/
theorem nxOutputReg_layout (v : V) (bs : Bytes) (v' : V) (hm : NXActionOutputReg.marshalM v = .ok (bs, v')) :
    LayoutHolds "NXActionOutputReg" v bs := by
  unfold NXActionOutputReg.marshalM at hm
  split at hm
  · obtain ⟨l, _, h2⟩ := bind_ok_inv _ _ _ hm
    obtain ⟨hb, hhb, h3⟩ := bind_ok_inv _ _ _ h2
    obtain ⟨hw, hhw, h4⟩ := bind_ok_inv _ _ _ h3
    obtain ⟨out, hf, h6⟩ := bind_ok_inv _ _ _ h4
    obtain ⟨rfl, _⟩ := same_ok _ _ _ _ h6
    have hl := NXActionHeader.bytes_length _ _ hhb
    intro fl hfl
    lay_rows hfl
    rcases hfl with rfl | rfl | rfl
    · lay_num hf
    · lay_hdr hhw hf
    · lay_num hf
  · exact absurd hm (by simp)

/-- NXActionConjunction: clause 10, n_clauses 11 (8 bits each), id at 12 (32 bits) -/
theorem nxConjunction_layout (v : V) (bs : Bytes) (v' : V) (hm : NXActionConjunction.marshalM v = .ok (bs, v')) :
    LayoutHolds "NXActionConjunction" v bs := by
  unfold NXActionConjunction.marshalM at hm
  split at hm
  · obtain ⟨l, _, h2⟩ := bind_ok_inv _ _ _ hm
    obtain ⟨hb, hhb, h3⟩ := bind_ok_inv _ _ _ h2
    obtain ⟨out, hf, h4⟩ := bind_ok_inv _ _ _ h3
    obtain ⟨rfl, _⟩ := same_ok _ _ _ _ h4
    have hl := NXActionHeader.bytes_length _ _ hhb
    intro fl hfl
    lay_rows hfl
    rcases hfl with rfl | rfl | rfl <;> lay_num hf
  · exact absurd hm (by simp)

/-- NXActionController: max_len 10, controller_id 12 (16 bits each), reason at 14 (8 bits) -/
theorem nxController_layout (v : V) (bs : Bytes) (v' : V) (hm : NXActionController.marshalM v = .ok (bs, v')) :
    LayoutHolds "NXActionController" v bs := by
  unfold NXActionController.marshalM at hm
  split at hm
  · obtain ⟨h', _, h2⟩ := bind_ok_inv _ _ _ hm
    obtain ⟨hb, hhb, h3⟩ := bind_ok_inv _ _ _ h2
    obtain ⟨out, hf, h4⟩ := bind_ok_inv _ _ _ h3
    cases h4
    have hl := NXActionHeader.bytes_length _ _ hhb
    intro fl hfl
    lay_rows hfl
    rcases hfl with rfl | rfl | rfl <;> lay_num hf
  · exact absurd hm (by simp)

/-- NXActionDecTTLCntIDs: the number of controllers at 10 (16 bits) -/
theorem nxDecTTLCntIDs_layout (v : V) (bs : Bytes) (v' : V) (hm : NXActionDecTTLCntIDs.marshalM v = .ok (bs, v')) :
    LayoutHolds "NXActionDecTTLCntIDs" v bs := by
  unfold NXActionDecTTLCntIDs.marshalM at hm
  split at hm
  · obtain ⟨l, _, h2⟩ := bind_ok_inv _ _ _ hm
    obtain ⟨hb, hhb, h3⟩ := bind_ok_inv _ _ _ h2
    obtain ⟨out, hf, h4⟩ := bind_ok_inv _ _ _ h3
    obtain ⟨rfl, _⟩ := same_ok _ _ _ _ h4
    have hl := NXActionHeader.bytes_length _ _ hhb
    intro fl hfl
    lay_rows hfl
    subst hfl
    lay_num hf
  · exact absurd hm (by simp)

/-- NXActionLearn, fixed part: idle 10, hard 12, priority 14 (16 bits), cookie 16 (64 bits), flags 24 (16 bits),
    table 26 (8 bits), fin_idle 28, fin_hard 30 (16 bits) — whatever the learn specs that follow -/
theorem nxLearn_layout (v : V) (bs : Bytes) (v' : V) (hm : NXActionLearn.marshalM v = .ok (bs, v')) :
    LayoutHolds "NXActionLearn" v bs := by
  unfold NXActionLearn.marshalM at hm
  obtain ⟨l, _, h1⟩ := bind_ok_inv _ _ _ hm
  split at h1
  · obtain ⟨h', _, h2⟩ := bind_ok_inv _ _ _ h1
    obtain ⟨hb, hhb, h3⟩ := bind_ok_inv _ _ _ h2
    obtain ⟨⟨sbs, _⟩, _, h4⟩ := bind_ok_inv _ _ _ h3
    obtain ⟨out, hf, h5⟩ := bind_ok_inv _ _ _ h4
    cases h5
    have hl := NXActionHeader.bytes_length _ _ hhb
    intro fl hfl
    lay_rows hfl
    rcases hfl with rfl | rfl | rfl | rfl | rfl | rfl | rfl | rfl <;> lay_num hf
  · exact absurd h1 (by simp)

/-- NXActionConnTrack, fixed part: flags 10 (16 bits), zone source 12 (32 bits), zone ofs_nbits 16 (16 bits),
    recirc table 18 (8 bits), alg 22 (16 bits) — whatever nested actions follow, for any encoder of the nested actions -/
theorem nxConnTrack_layout (subLen : V → R (UInt16 × V)) (sub : V → R (Bytes × V)) (v : V) (bs : Bytes) (v' : V)
    (hm : NXActionConnTrack.marshalWith subLen sub v = .ok (bs, v')) : LayoutHolds "NXActionConnTrack" v bs := by
  unfold NXActionConnTrack.marshalWith at hm
  obtain ⟨⟨l, v1⟩, hlen, h1⟩ := bind_ok_inv _ _ _ hm
  unfold NXActionConnTrack.lenWith at hlen
  split at hlen
  · obtain ⟨⟨hl0, h0⟩, _, hlen⟩ := bind_ok_inv _ _ _ hlen
    obtain ⟨⟨ls, acts1⟩, _, hlen⟩ := bind_ok_inv _ _ _ hlen
    obtain ⟨h1', _, hlen⟩ := bind_ok_inv _ _ _ hlen
    cases hlen
    simp only at h1
    split at h1
    · rename_i heq
      cases heq
      obtain ⟨hb, hhb, h2⟩ := bind_ok_inv _ _ _ h1
      obtain ⟨buf, hf, h3⟩ := bind_ok_inv _ _ _ h2
      obtain ⟨⟨buf', acts'⟩, hacts, h4⟩ := bind_ok_inv _ _ _ h3
      cases h4
      have hl := NXActionHeader.bytes_length _ _ hhb
      have htk := NXActionConnTrack.marshalActs_take _ _ _ _ _ _ hacts 24 (Nat.le_refl _)
      intro fl hfl
      lay_rows hfl
      rcases hfl with rfl | rfl | rfl | rfl | rfl
      all_goals (
        show beAt _ _ _ = _ % 2 ^ (8 * _)
        rw [beAt_of_take_eq _ _ 24 htk _ _ (by decide)]
        lay_num hf)
    · exact absurd h1 (by simp)
  · exact absurd hlen (by simp)

/-- NXActionCTNAT, fixed part: flags at 12, range_present at 14 (16 bits each) -/
theorem nxCTNAT_layout (v : V) (bs : Bytes) (v' : V) (hm : NXActionCTNAT.marshalM v = .ok (bs, v')) :
    LayoutHolds "NXActionCTNAT" v bs := by
  unfold NXActionCTNAT.marshalM at hm
  obtain ⟨⟨l, v1⟩, hlen, h1⟩ := bind_ok_inv _ _ _ hm
  unfold NXActionCTNAT.lenM at hlen
  split at hlen
  · obtain ⟨l0, _, hlen⟩ := bind_ok_inv _ _ _ hlen
    obtain ⟨h', _, hlen⟩ := bind_ok_inv _ _ _ hlen
    cases hlen
    simp only at h1
    split at h1
    · rename_i heq
      cases heq
      obtain ⟨hb, hhb, h2⟩ := bind_ok_inv _ _ _ h1
      obtain ⟨pm, _, h3⟩ := bind_ok_inv _ _ _ h2
      obtain ⟨out, hf, h4⟩ := bind_ok_inv _ _ _ h3
      cases h4
      have hl := NXActionHeader.bytes_length _ _ hhb
      intro fl hfl
      lay_rows hfl
      rcases hfl with rfl | rfl <;> lay_num hf
    · exact absurd h1 (by simp)
  · exact absurd hlen (by simp)

/-- NXActionCTNAT, complete shape: the 10-byte Nicira header, two pad bytes, flags, range_present, then exactly the
    ranges that are set, in presence-bit order (IPv4 min, IPv4 max, IPv6 min, IPv6 max, proto min, proto max), each in
    its width (4 / 4 / 16 / 16 / 2 / 2), then zero padding up to the (rounded) length — provided the stored length
    covers them (it does for every action built with the setters, each of which stores `unpaddedLen()` = 16 + the widths
    of the ranges present: `C03c.nat_history_length`) -/
theorem nxCTNAT_ranges (h pad : V) (fl rp : Nat) (v4a v4b v6a v6b : Bytes) (pmin pmax : V) (bs : Bytes) (v' : V)
    (hm : NXActionCTNAT.marshalM (.obj "NXActionCTNAT" [h, pad, .num fl, .num rp, .bytes v4a, .bytes v4b, .bytes v6a,
      .bytes v6b, pmin, pmax]) = .ok (bs, v'))
    (hfit : 16 + (natOpt v4a v4b v6a v6b pmin pmax).length ≤ bs.length) :
    ∃ hb : Bytes, hb.length = 10 ∧
      bs = hb ++ zeros 2 ++ be16 (n16 fl) ++ be16 (n16 rp) ++ natOpt v4a v4b v6a v6b pmin pmax ++
        zeros (bs.length - (16 + (natOpt v4a v4b v6a v6b pmin pmax).length)) := by
  unfold NXActionCTNAT.marshalM at hm
  obtain ⟨⟨l, v1⟩, hlen, h1⟩ := bind_ok_inv _ _ _ hm
  unfold NXActionCTNAT.lenM at hlen
  obtain ⟨l0, _, hlen⟩ := bind_ok_inv _ _ _ hlen
  obtain ⟨h', _, hlen⟩ := bind_ok_inv _ _ _ hlen
  cases hlen
  simp only at h1
  obtain ⟨hb, hhb, h2⟩ := bind_ok_inv _ _ _ h1
  obtain ⟨pm, hpm, h3⟩ := bind_ok_inv _ _ _ h2
  obtain ⟨out, hf, h4⟩ := bind_ok_inv _ _ _ h3
  cases h4
  have hl := NXActionHeader.bytes_length _ _ hhb
  have hgen : ∀ (q : V) (ps : List Piece),
      (match q with | .num y => Res.ok [pU16 y] | _ => Res.ok [] : R (List Piece)) = .ok ps →
      ps = natPortPieces q := by
    intro q ps hq
    cases q <;> (cases hq; rfl)
  have hpm' := hgen _ _ hpm
  subst hpm'
  obtain ⟨hbytes, htight⟩ := natPieces_spec hb fl rp v4a v4b v6a v6b pmin pmax
  have hlen' := piecesLen_eq_bytes _ htight
  have hL := fill_length _ _ _ hf
  have hf' : fill (round8 l0).toNat (natPieces hb fl rp v4a v4b v6a v6b pmin (natPortPieces pmax)) = .ok bs := hf
  have hfit' : piecesLen (natPieces hb fl rp v4a v4b v6a v6b pmin (natPortPieces pmax)) ≤ (round8 l0).toNat := by
    rw [hlen', hbytes]; simp only [List.length_append, be16_length, zeros_length] at hfit ⊢; omega
  rw [fill_exact _ _ htight hfit'] at hf'
  simp only [Res.ok.injEq] at hf'
  subst hf'
  refine ⟨hb, hl, ?_⟩
  rw [hlen', hbytes]
  congr 2
  simp only [List.length_append, be16_length, zeros_length, hl] at hL ⊢
  omega

/-- NXActionCTNAT — optional parts appear exactly when their presence flags say so: for an action whose presence bits
    agree with the ranges that are set (`NatPresent`; true of NewNXActionCTNAT() and preserved by every range setter
    called with a non-nil argument: `natPresent_new`, `setRange_addr_present`, `setRange_port_present`), the bytes after
    range_present are, for i = 0..5 in this order, the i-th range (IPv4 min, IPv4 max, IPv6 min, IPv6 max, proto min,
    proto max; 4 / 4 / 16 / 16 / 2 / 2 bytes) if and only if bit i of range_present is set — then only zero padding -/
theorem nxCTNAT_presence (h pad : V) (fl rp : Nat) (v4a v4b v6a v6b : Bytes) (pmin pmax : V) (bs : Bytes) (v' : V)
    (hm : NXActionCTNAT.marshalM (.obj "NXActionCTNAT" [h, pad, .num fl, .num rp, .bytes v4a, .bytes v4b, .bytes v6a,
      .bytes v6b, pmin, pmax]) = .ok (bs, v'))
    (hp : NatPresent rp v4a v4b v6a v6b pmin pmax)
    (hfit : 16 + (natOptBits rp v4a v4b v6a v6b pmin pmax).length ≤ bs.length) :
    ∃ hb : Bytes, hb.length = 10 ∧
      bs = hb ++ zeros 2 ++ be16 (n16 fl) ++ be16 (n16 rp) ++ natOptBits rp v4a v4b v6a v6b pmin pmax ++
        zeros (bs.length - (16 + (natOptBits rp v4a v4b v6a v6b pmin pmax).length)) := by
  rw [← natOpt_presence rp v4a v4b v6a v6b pmin pmax hp] at hfit ⊢
  exact nxCTNAT_ranges h pad fl rp v4a v4b v6a v6b pmin pmax bs v' hm hfit

/-- the API constants of the six range setters are the presence bits 2^0 … 2^5, in wire order -/
theorem nat_range_bits :
    Gen.openflow13.NX_NAT_RANGE_IPV4_MIN = 2 ^ 0 ∧ Gen.openflow13.NX_NAT_RANGE_IPV4_MAX = 2 ^ 1 ∧
    Gen.openflow13.NX_NAT_RANGE_IPV6_MIN = 2 ^ 2 ∧ Gen.openflow13.NX_NAT_RANGE_IPV6_MAX = 2 ^ 3 ∧
    Gen.openflow13.NX_NAT_RANGE_PROTO_MIN = 2 ^ 4 ∧ Gen.openflow13.NX_NAT_RANGE_PROTO_MAX = 2 ^ 5 := by decide

/-- a value built by the API — NewNXActionCTNAT(); SetRangeIPv4Min(10.0.0.1); SetRangeProtoMin(1000) — and its
    encoding: header, pad, flags 0, range_present 0x0011, then 10.0.0.1 and port 1000 (0x03e8), zero padding to 24 -/
example : ((do
      let v ← NXActionCTNAT.setRange 0 Gen.openflow13.NX_NAT_RANGE_IPV4_MIN 4 (.bytes [10, 0, 0, 1]) NXActionCTNAT.new
      NXActionCTNAT.setRange 4 Gen.openflow13.NX_NAT_RANGE_PROTO_MIN 2 (.num 1000) v) >>= NXActionCTNAT.marshalM).map (·.1) =
    .ok [0xff, 0xff, 0, 24, 0, 0, 0x23, 0x20, 0, 36, 0, 0, 0, 0, 0, 0x11, 10, 0, 0, 1, 0x03, 0xe8, 0, 0] := by rfl

/-- BOUNDARY FINDING (API-reachable, needs a nil argument): `SetRangeIPv4Min(nil)` sets presence bit 0 and adds 4 to
    the length, but the encoder tests the FIELD for nil, not the bit: nothing is emitted for it.  After
    NewNXActionCTNAT(); SetRangeIPv4Min(nil); SetRangeIPv4Max(1.2.3.4) the encoding announces both IPv4 ranges
    (range_present = 3) but carries the MAX address 1.2.3.4 in the slot of the MIN address (offset 16) and zeros in
    the slot of the max address (offset 20): the optional part is NOT present although its flag says so. -/
theorem nxCTNAT_presence_counterexample :
    ∃ v bs v', (do
        let v ← NXActionCTNAT.setRange 0 Gen.openflow13.NX_NAT_RANGE_IPV4_MIN 4 (.bytes []) NXActionCTNAT.new
        NXActionCTNAT.setRange 1 Gen.openflow13.NX_NAT_RANGE_IPV4_MAX 4 (.bytes [1, 2, 3, 4]) v) = .ok v ∧
      NXActionCTNAT.marshalM v = .ok (bs, v') ∧ beAt bs 14 2 = 3 ∧
      (bs.drop 16).take 4 = [1, 2, 3, 4] ∧ (bs.drop 20).take 4 = [0, 0, 0, 0] := by
  refine ⟨_, _, _, rfl, rfl, ?_, ?_, ?_⟩ <;> decide

/-! ### instructions -/

/-- InstrGotoTable: table_id at 4 (8 bits) -/
theorem instrGotoTable_layout (v : V) (bs : Bytes) (v' : V) (hm : InstrGotoTable.marshalM v = .ok (bs, v')) :
    LayoutHolds "InstrGotoTable" v bs := by
  unfold InstrGotoTable.marshalM at hm
  split at hm
  · rename_i h tid pad
    obtain ⟨hb, hhb, h2⟩ := bind_ok_inv _ _ _ hm
    obtain ⟨rfl, _⟩ := same_ok _ _ _ _ h2
    have hl := InstrHeader.bytes_length _ _ hhb
    have hbs : hb ++ [n8 tid, 0, 0] ++ makeCopy 1 pad = [hb, [n8 tid]].flatten ++ ([0, 0] ++ makeCopy 1 pad) := by simp
    rw [hbs]
    intro fl hfl
    lay_rows hfl
    subst hfl
    lay_chunk
  · exact absurd hm (by simp)

/-- InstrWriteMetadata: metadata at 8, metadata_mask at 16 (64 bits each) -/
theorem instrWriteMetadata_layout (v : V) (bs : Bytes) (v' : V) (hm : InstrWriteMetadata.marshalM v = .ok (bs, v')) :
    LayoutHolds "InstrWriteMetadata" v bs := by
  unfold InstrWriteMetadata.marshalM at hm
  split at hm
  · rename_i h pad md mk
    obtain ⟨hb, hhb, h2⟩ := bind_ok_inv _ _ _ hm
    obtain ⟨rfl, _⟩ := same_ok _ _ _ _ h2
    have hl := InstrHeader.bytes_length _ _ hhb
    have hl2 := makeCopy_length 4 pad
    have hbs : hb ++ makeCopy 4 pad ++ be64 (n64 md) ++ be64 (n64 mk) =
        [hb, makeCopy 4 pad, be64 (n64 md), be64 (n64 mk)].flatten ++ [] := by simp
    rw [hbs]
    intro fl hfl
    lay_rows hfl
    rcases hfl with rfl | rfl <;> lay_chunk
  · exact absurd hm (by simp)

/-- InstrMeter: meter_id at 4 (32 bits, big-endian) — for EVERY value the encoder accepts (the library now gives the
    instruction its own 8-byte codec; the former counterexample `instrMeter_layout_counterexample`, "4 header bytes, the
    meter id is never written", no longer holds) -/
theorem instrMeter_layout (v : V) (bs : Bytes) (v' : V) (hm : InstrMeter.marshalM v = .ok (bs, v')) :
    LayoutHolds "InstrMeter" v bs := by
  unfold InstrMeter.marshalM at hm
  split at hm
  · rename_i h m
    obtain ⟨hb, hhb, h2⟩ := bind_ok_inv _ _ _ hm
    obtain ⟨rfl, _⟩ := same_ok _ _ _ _ h2
    have hl := InstrHeader.bytes_length _ _ hhb
    have hbs : hb ++ be32 (n32 m) = [hb, be32 (n32 m)].flatten ++ [] := by simp
    rw [hbs]
    intro fl hfl
    lay_rows hfl
    subst hfl
    lay_chunk
  · exact absurd hm (by simp)

/-- InstrMeter, whole shape: 8 bytes — the 4 header bytes, then the meter id and nothing else -/
theorem instrMeter_shape (v : V) (bs : Bytes) (v' : V) (hm : InstrMeter.marshalM v = .ok (bs, v')) :
    bs.length = 8 := by
  unfold InstrMeter.marshalM at hm
  split at hm
  · rename_i h m
    obtain ⟨hb, hhb, h2⟩ := bind_ok_inv _ _ _ hm
    obtain ⟨rfl, _⟩ := same_ok _ _ _ _ h2
    have hl := InstrHeader.bytes_length _ _ hhb
    simp [hl, be32]
  · exact absurd hm (by simp)

/-- the former defect witnesses (any header, any meter id): the meter id now IS at offset 4, big-endian -/
theorem instrMeter_id_at_4 (ty ln mid : Nat) :
    ∃ bs v', InstrMeter.marshalM (.obj "InstrMeter" [.obj "InstrHeader" [.num ty, .num ln], .num mid]) = .ok (bs, v') ∧
      bs.length = 8 ∧ beAt bs 4 4 = mid % 2 ^ 32 := by
  refine ⟨_, _, rfl, rfl, ?_⟩
  have h := beAt_nth [be16 (n16 ty) ++ be16 (n16 ln), be32 (n32 mid)] [] 1 _ rfl 4 rfl
  simp only [List.flatten_cons, List.flatten_nil, List.append_nil] at h
  rw [h, beAt_be32]; exact lay_n32_toNat mid

/-! ### group-mod and buckets -/

/-- Bucket, whole shape: Length (= Len()), weight, watch_port, watch_group, 4 zero bytes, then exactly the encodings of
    the actions (as Len() left them), complete and in order, then only padding -/
theorem bucket_shape (v : V) (bs : Bytes) (v' : V) (hm : Bucket.marshalM v = .ok (bs, v')) :
    ∃ l0 w wp wg p as ls as1 bss as2 tail, v = .obj "Bucket" [l0, .num w, .num wp, .num wg, p, .list as] ∧
      mapM2 Action.lenM as = .ok (ls, as1) ∧ mapM2 Action.marshalM as1 = .ok (bss, as2) ∧
      bs = be16 (round8 (16 + sum16 ls)) ++ be16 (n16 w) ++ be32 (n32 wp) ++ be32 (n32 wg) ++ zeros 4 ++ bss.flatten ++ tail := by
  unfold Bucket.marshalM at hm
  obtain ⟨⟨l, v1⟩, hl, h3⟩ := bind_ok_inv _ _ _ hm
  unfold Bucket.lenM at hl
  split at hl
  · rename_i l0 w' wp' wg' p as
    obtain ⟨⟨ls, as1⟩, hml, hl'⟩ := bind_ok_inv _ _ _ hl
    cases hl'
    simp only at h3
    split at h3
    · rename_i x w wp wg p' as' heq
      cases heq
      obtain ⟨⟨abs, as2, e⟩, hmm, h4⟩ := bind_ok_inv _ _ _ h3
      obtain ⟨bss, hm2, rfl⟩ := marshalList_eq_mapM2 _ _ _ _ _ _ (fun x _ => Action.marshalM_noErr x) hmm
      simp only at h4
      split at h4
      · exact absurd h4 (by simp)
      · cases h4
        first
          | exact ⟨l0, w, wp, wg, p, as, ls, as1, bss, as2, _, rfl, hml, hm2, rfl⟩
          | exact ⟨l0, w, wp, wg, p, as, ls, as1, bss, as2, [], rfl, hml, hm2, (List.append_nil _).symm⟩
    · exact absurd h3 (by simp)
  · exact absurd hl (by simp)

/-- Bucket: weight at 2 (16 bits), watch_port at 4, watch_group at 8 (32 bits each) -/
theorem bucket_layout (v : V) (bs : Bytes) (v' : V) (hm : Bucket.marshalM v = .ok (bs, v')) :
    LayoutHolds "Bucket" v bs := by
  obtain ⟨l0, w, wp, wg, p, as, ls, as1, bss, as2, tail, rfl, _, _, hbs⟩ := bucket_shape v bs v' hm
  have hbs' : bs = [be16 (round8 (16 + sum16 ls)), be16 (n16 w), be32 (n32 wp), be32 (n32 wg)].flatten ++
      (zeros 4 ++ bss.flatten ++ tail) := by rw [hbs]; simp
  rw [hbs']
  intro fl hfl
  lay_rows hfl
  rcases hfl with rfl | rfl | rfl <;> lay_chunk

/-- GroupMod: command at 8 (16 bits), type at 10 (8 bits), group_id at 12 (32 bits) -/
theorem groupMod_layout (v : V) (bs : Bytes) (v' : V) (hm : GroupMod.marshalM v = .ok (bs, v')) :
    LayoutHolds "GroupMod" v bs := by
  unfold GroupMod.marshalM at hm
  obtain ⟨⟨l, v1⟩, hl, h3⟩ := bind_ok_inv _ _ _ hm
  have hshape : ∃ h cmd t p g bks bks', v = .obj "GroupMod" [h, .num cmd, t, p, g, .list bks] ∧
      v1 = .obj "GroupMod" [h, .num cmd, t, p, g, .list bks'] := by
    unfold GroupMod.lenM at hl
    split at hl
    · split at hl
      · cases hl; exact ⟨_, _, _, _, _, _, _, rfl, rfl⟩
      · obtain ⟨⟨ls, bs'⟩, _, hl'⟩ := bind_ok_inv _ _ _ hl
        cases hl'; exact ⟨_, _, _, _, _, _, _, rfl, rfl⟩
    · exact absurd hl (by simp)
  obtain ⟨h, cmd, t, p, g, bks, bks', rfl, rfl⟩ := hshape
  simp only at h3
  split at h3
  · rename_i heq
    cases heq
    rename_i t p g
    obtain ⟨hb, hhb, h4⟩ := bind_ok_inv _ _ _ h3
    obtain ⟨⟨bb, bks2, e⟩, _, h5⟩ := bind_ok_inv _ _ _ h4
    simp only at h5
    split at h5
    · exact absurd h5 (by simp)
    · cases h5
      have hl8 := Header.bytes_length _ _ hhb
      have hbs : hb ++ be16 (n16 cmd) ++ [n8 t, n8 p] ++ be32 (n32 g) ++ bb =
          [hb, be16 (n16 cmd), [n8 t], [n8 p], be32 (n32 g)].flatten ++ bb := by simp
      rw [hbs]
      intro fl hfl
      lay_rows hfl
      rcases hfl with rfl | rfl | rfl <;> lay_chunk
  · exact absurd h3 (by simp)

/-! ### messages -/

/-- SwitchConfig (SetConfig / GetConfigReply): flags at 8, miss_send_len at 10 (16 bits each) -/
theorem switchConfig_layout (v : V) (bs : Bytes) (v' : V) (hm : SwitchConfig.marshalM v = .ok (bs, v')) :
    LayoutHolds "SwitchConfig" v bs := by
  unfold SwitchConfig.marshalM at hm
  obtain ⟨⟨l0, v0⟩, hl0, h1⟩ := bind_ok_inv _ _ _ hm
  obtain ⟨rfl, rfl⟩ := same_ok _ _ _ _ hl0
  obtain ⟨⟨l1, v1⟩, hl1, h2⟩ := bind_ok_inv _ _ _ h1
  obtain ⟨rfl, rfl⟩ := same_ok _ _ _ _ hl1
  simp only at h2
  split at h2
  · obtain ⟨hb, hhb, h3⟩ := bind_ok_inv _ _ _ h2
    obtain ⟨out, hf, h4⟩ := bind_ok_inv _ _ _ h3
    cases h4
    have hl := Header.bytes_length _ _ hhb
    intro fl hfl
    lay_rows hfl
    rcases hfl with rfl | rfl <;> lay_num hf
  · exact absurd h2 (by simp)

/-- PortMod: port_no at 8 (32 bits), hw_addr at 16 (the 6 bytes supplied), config 24, mask 28, advertise 32 (32 bits) -/
theorem portMod_layout (v : V) (bs : Bytes) (v' : V) (hm : PortMod.marshalM v = .ok (bs, v')) :
    LayoutHolds "PortMod" v bs := by
  unfold PortMod.marshalM at hm
  obtain ⟨⟨l0, v0⟩, hl0, h1⟩ := bind_ok_inv _ _ _ hm
  obtain ⟨rfl, rfl⟩ := same_ok _ _ _ _ hl0
  simp only at h1
  split at h1
  · rename_i h no pad hw pad2 cfg mask adv pad3
    obtain ⟨hb, hhb, h3⟩ := bind_ok_inv _ _ _ h1
    obtain ⟨b, hf, h4⟩ := bind_ok_inv _ _ _ h3
    cases h4
    have hl := Header.bytes_length _ _ hhb
    have hbl := fill_length _ _ _ hf
    have e6 : Gen.openflow13.ETH_ALEN = 6 := rfl
    rw [e6] at hf
    intro fl hfl
    lay_rows hfl
    rcases hfl with rfl | rfl | rfl | rfl | rfl
    · show beAt (hb ++ b) 8 4 = no % 2 ^ (8 * 4)
      rw [beAt_append_right' hb b 8 0 4 (by omega)]
      lay_num hf
    · show 6 ≤ hw.length → ((hb ++ b).drop 16).take 6 = hw.take 6
      intro h6
      rw [window_append_right' hb b 16 8 6 (by omega)]
      exact fill_piece_at 32 _ b hf 2 _ rfl 8 (by lay_off) 6 h6 (Nat.le_refl _) (by omega)
    · show beAt (hb ++ b) 24 4 = cfg % 2 ^ (8 * 4)
      rw [beAt_append_right' hb b 24 16 4 (by omega)]
      lay_num hf
    · show beAt (hb ++ b) 28 4 = mask % 2 ^ (8 * 4)
      rw [beAt_append_right' hb b 28 20 4 (by omega)]
      lay_num hf
    · show beAt (hb ++ b) 32 4 = adv % 2 ^ (8 * 4)
      rw [beAt_append_right' hb b 32 24 4 (by omega)]
      lay_num hf
  · exact absurd h1 (by simp)

/-- MultipartRequest: type at 8, flags at 10 (16 bits each) — whatever the body, for any Len()/encoder of the body -/
theorem multipartRequest_layout (cl : MsgLenF) (cm : MsgMarF) (v : V) (bs : Bytes) (v' : V)
    (hm : MultipartRequest.marshalWith cl cm v = .ok (bs, v')) : LayoutHolds "MultipartRequest" v bs := by
  unfold MultipartRequest.marshalWith at hm
  obtain ⟨⟨l, v1⟩, hl, h1⟩ := bind_ok_inv _ _ _ hm
  unfold MultipartRequest.lenWith at hl
  split at hl
  · obtain ⟨⟨lb, b1⟩, _, hl'⟩ := bind_ok_inv _ _ _ hl
    cases hl'
    simp only at h1
    split at h1
    · rename_i h0 t f p0 b0 heq
      cases heq
      obtain ⟨hb, hhb, h2⟩ := bind_ok_inv _ _ _ h1
      obtain ⟨⟨bb, b2⟩, _, h3⟩ := bind_ok_inv _ _ _ h2
      cases h3
      have hl8 := Header.bytes_length _ _ hhb
      have hbs : hb ++ (be16 (n16 t) ++ be16 (n16 f) ++ zeros 4) ++ bb =
          [hb, be16 (n16 t), be16 (n16 f)].flatten ++ (zeros 4 ++ bb) := by simp
      rw [hbs]
      intro fl hfl
      lay_rows hfl
      rcases hfl with rfl | rfl <;> lay_chunk
    · exact absurd h1 (by simp)
  · exact absurd hl (by simp)

/-- … and the body's own encoding starts at offset 16: the message is the 8-byte header (Length = Len()), type, flags,
    4 zero bytes, then exactly what the body's encoder returned (for the body as Len() left it).  So a body field at
    body-relative offset `off` is at `16 + off` of the message (`beAt_append_right`). -/
theorem multipartRequest_body (cl : MsgLenF) (cm : MsgMarF) (v : V) (bs : Bytes) (v' : V)
    (hm : MultipartRequest.marshalWith cl cm v = .ok (bs, v')) :
    ∃ h t f p b lb b1 hb bb b2, v = .obj "MultipartRequest" [h, .num t, .num f, p, b] ∧ cl b = .ok (lb, b1) ∧
      cm b1 = .ok (bb, b2) ∧ hb.length = 8 ∧ bs = hb ++ (be16 (n16 t) ++ be16 (n16 f) ++ zeros 4) ++ bb ∧
      ∀ off w, beAt bs (16 + off) w = beAt bb off w := by
  unfold MultipartRequest.marshalWith at hm
  obtain ⟨⟨l, v1⟩, hl, h1⟩ := bind_ok_inv _ _ _ hm
  unfold MultipartRequest.lenWith at hl
  split at hl
  · obtain ⟨⟨lb, b1⟩, hcl, hl'⟩ := bind_ok_inv _ _ _ hl
    cases hl'
    simp only at h1
    split at h1
    · rename_i h0 t f p0 b0 heq
      cases heq
      obtain ⟨hb, hhb, h2⟩ := bind_ok_inv _ _ _ h1
      obtain ⟨⟨bb, b2⟩, hcm, h3⟩ := bind_ok_inv _ _ _ h2
      cases h3
      have hl8 := Header.bytes_length _ _ hhb
      refine ⟨_, t, f, _, _, lb, b1, hb, bb, b2, rfl, hcl, hcm, hl8, rfl, ?_⟩
      intro off w
      exact beAt_append_right' _ _ _ _ _ (by simp [hl8])
    · exact absurd h1 (by simp)
  · exact absurd hl (by simp)

/-- FlowStatsRequest / AggregateStatsRequest body (offsets relative to the body): table_id 0 (8 bits), out_port 4,
    out_group 8 (32 bits), cookie 16, cookie_mask 24 (64 bits) -/
theorem statsReq_layout (k : String) (v : V) (bs : Bytes) (v' : V) (hm : StatsReq.marshalM k v = .ok (bs, v'))
    (fl : FL) (hfl : fl ∈ ([⟨"TableId", 0, 1, .num⟩, ⟨"OutPort", 4, 4, .num⟩, ⟨"OutGroup", 8, 4, .num⟩, ⟨"Cookie", 16, 8, .num⟩,
               ⟨"CookieMask", 24, 8, .num⟩] : List FL))
    (hk : k = "FlowStatsRequest" ∨ k = "AggregateStatsRequest") : FieldAt v bs fl := by
  unfold StatsReq.marshalM at hm
  split at hm
  · rename_i k' t p op og p2 c cm m
    split at hm
    · exact absurd hm (by simp)
    · rename_i hkk
      have hkk' : k' = k := by
        by_cases h : k' = k
        · exact h
        · exact absurd h hkk
      subst hkk'
      obtain ⟨b, hf, h2⟩ := bind_ok_inv _ _ _ hm
      obtain ⟨⟨mb, m'⟩, _, h3⟩ := bind_ok_inv _ _ _ h2
      cases h3
      have hbl := fill_length _ _ _ hf
      simp only [List.mem_cons, List.mem_nil_iff, or_false] at hfl
      rcases hk with rfl | rfl
      · rcases hfl with rfl | rfl | rfl | rfl | rfl
        all_goals (
          show beAt (b ++ mb) _ _ = _ % 2 ^ (8 * _)
          rw [beAt_append_left b mb _ _ (by rw [hbl]; decide)]
          lay_num hf)
      · rcases hfl with rfl | rfl | rfl | rfl | rfl
        all_goals (
          show beAt (b ++ mb) _ _ = _ % 2 ^ (8 * _)
          rw [beAt_append_left b mb _ _ (by rw [hbl]; decide)]
          lay_num hf)
  · exact absurd hm (by simp)

theorem flowStatsRequest_layout (v : V) (bs : Bytes) (v' : V) (hm : FlowStatsRequest.marshalM v = .ok (bs, v')) :
    LayoutHolds "FlowStatsRequest" v bs := by
  intro fl hfl
  lay_rows hfl
  exact statsReq_layout _ v bs v' hm fl (by simpa using hfl) (Or.inl rfl)

theorem aggregateStatsRequest_layout (v : V) (bs : Bytes) (v' : V) (hm : AggregateStatsRequest.marshalM v = .ok (bs, v')) :
    LayoutHolds "AggregateStatsRequest" v bs := by
  intro fl hfl
  lay_rows hfl
  exact statsReq_layout _ v bs v' hm fl (by simpa using hfl) (Or.inr rfl)

/-- KNOWN FINDING: PortStatsRequest writes port_no in 16 bits at offset 0 (the specification has 32 bits): what is
    true of every port-stats request … -/
theorem portStatsRequest_actual (v : V) (bs : Bytes) (v' : V) (hm : PortStatsRequest.marshalM v = .ok (bs, v')) :
    ∃ p pad, v = .obj "PortStatsRequest" [.num p, .bytes pad] ∧ beAt bs 0 2 = p % 2 ^ 16 := by
  unfold PortStatsRequest.marshalM at hm
  split at hm
  · rename_i p pad
    obtain ⟨out, hf, h3⟩ := bind_ok_inv _ _ _ hm
    obtain ⟨rfl, _⟩ := same_ok _ _ _ _ h3
    refine ⟨p, pad, rfl, ?_⟩
    have := fill_be16_at _ _ _ hf 0 _ rfl 0 (by lay_off)
    rw [this, lay_n16_toNat]
  · exact absurd hm (by simp)

/-- … and the counterexample to the layout row (PortNo, offset 0, 32 bits): port 1 with the constructor's padding
    encodes to 00 01 00 00 00 00 00 00 — the 32-bit word at 0 is 65536, not 1 -/
theorem portStatsRequest_layout_counterexample :
    ∃ v bs v', PortStatsRequest.marshalM v = .ok (bs, v') ∧ fieldOf v "PortNo" = some (.num 1) ∧ beAt bs 0 4 = 65536 ∧
      ¬ LayoutHolds "PortStatsRequest" v bs := by
  refine ⟨.obj "PortStatsRequest" [.num 1, .bytes (zeros 6)], [0, 1, 0, 0, 0, 0, 0, 0], _, rfl, rfl, by decide, ?_⟩
  intro h
  have h4 : beAt [0, 1, 0, 0, 0, 0, 0, 0] 0 4 = 1 % 2 ^ (8 * 4) :=
    h ⟨"PortNo", 0, 4, .num⟩ (by simp [layoutOf, Spec.layouts, List.lookup])
  revert h4
  decide

/-- QueueStatsRequest: queue_id at 4 (32 bits) is right; port_no is written in 16 bits at 0 (KNOWN FINDING) -/
theorem queueStatsRequest_actual (v : V) (bs : Bytes) (v' : V) (hm : QueueStatsRequest.marshalM v = .ok (bs, v')) :
    FieldAt v bs ⟨"QueueId", 4, 4, .num⟩ ∧
    ∃ p pad q, v = .obj "QueueStatsRequest" [.num p, .bytes pad, .num q] ∧ beAt bs 0 2 = p % 2 ^ 16 := by
  unfold QueueStatsRequest.marshalM at hm
  split at hm
  · rename_i p pad q
    obtain ⟨out, hf, h3⟩ := bind_ok_inv _ _ _ hm
    obtain ⟨rfl, _⟩ := same_ok _ _ _ _ h3
    refine ⟨?_, p, pad, q, rfl, ?_⟩
    · lay_num hf
    · have := fill_be16_at _ _ _ hf 0 _ rfl 0 (by lay_off)
      rw [this, lay_n16_toNat]
  · exact absurd hm (by simp)

theorem queueStatsRequest_layout_counterexample :
    ∃ v bs v', QueueStatsRequest.marshalM v = .ok (bs, v') ∧ fieldOf v "PortNo" = some (.num 1) ∧ beAt bs 0 4 = 65536 ∧
      ¬ LayoutHolds "QueueStatsRequest" v bs := by
  refine ⟨.obj "QueueStatsRequest" [.num 1, .bytes (zeros 2), .num 7], [0, 1, 0, 0, 0, 0, 0, 7], _, rfl, rfl, by decide, ?_⟩
  intro h
  have h4 : beAt [0, 1, 0, 0, 0, 0, 0, 7] 0 4 = 1 % 2 ^ (8 * 4) :=
    h ⟨"PortNo", 0, 4, .num⟩ (by simp [layoutOf, Spec.layouts, List.lookup])
  revert h4
  decide

/-! ### vendor (Nicira / ONF experimenter) payloads — offsets relative to the payload, which starts at 16 -/

/-- ControllerID: id at 6 (16 bits) -/
theorem controllerID_layout (v : V) (bs : Bytes) (v' : V) (hm : ControllerID.marshalM v = .ok (bs, v')) :
    LayoutHolds "ControllerID" v bs := by
  unfold ControllerID.marshalM at hm
  split at hm
  · rename_i p id
    obtain ⟨rfl, _⟩ := same_ok _ _ _ _ hm
    have hbs : zeros 6 ++ be16 (n16 id) = [zeros 6, be16 (n16 id)].flatten ++ [] := by simp
    rw [hbs]
    intro fl hfl
    lay_rows hfl
    subst hfl
    lay_chunk
  · exact absurd hm (by simp)

/-- TLVTableMap: option class 0 (16 bits), type 2, length 3 (8 bits), index 4 (16 bits) -/
theorem tlvTableMap_layout (v : V) (bs : Bytes) (v' : V) (hm : TLVTableMap.marshalM v = .ok (bs, v')) :
    LayoutHolds "TLVTableMap" v bs := by
  unfold TLVTableMap.marshalM at hm
  split at hm
  · obtain ⟨out, hf, h3⟩ := bind_ok_inv _ _ _ hm
    obtain ⟨rfl, _⟩ := same_ok _ _ _ _ h3
    intro fl hfl
    lay_rows hfl
    rcases hfl with rfl | rfl | rfl | rfl <;> lay_num hf
  · exact absurd hm (by simp)

/-- TLVTableMod: command at 0 (16 bits), whatever maps follow -/
theorem tlvTableMod_layout (v : V) (bs : Bytes) (v' : V) (hm : TLVTableMod.marshalM v = .ok (bs, v')) :
    LayoutHolds "TLVTableMod" v bs := by
  unfold TLVTableMod.marshalM at hm
  obtain ⟨⟨l, v1⟩, hl, h1⟩ := bind_ok_inv _ _ _ hm
  unfold TLVTableMod.lenM at hl
  split at hl
  · obtain ⟨⟨ls, ms1⟩, _, hl'⟩ := bind_ok_inv _ _ _ hl
    cases hl'
    simp only at h1
    split at h1
    · rename_i c0 p0 ms0 heq
      cases heq
      obtain ⟨⟨mbs, ms2⟩, _, h2⟩ := bind_ok_inv _ _ _ h1
      obtain ⟨out, hf, h3⟩ := bind_ok_inv _ _ _ h2
      cases h3
      intro fl hfl
      lay_rows hfl
      subst hfl
      lay_num hf
    · exact absurd h1 (by simp)
  · exact absurd hl (by simp)

/-- BundleControl: bundle_id at 0 (32 bits), type at 4, flags at 6 (16 bits each) -/
theorem bundleControl_layout (v : V) (bs : Bytes) (v' : V) (hm : BundleControl.marshalM v = .ok (bs, v')) :
    LayoutHolds "BundleControl" v bs := by
  unfold BundleControl.marshalM at hm
  split at hm
  · obtain ⟨out, hf, h3⟩ := bind_ok_inv _ _ _ hm
    obtain ⟨rfl, _⟩ := same_ok _ _ _ _ h3
    intro fl hfl
    lay_rows hfl
    rcases hfl with rfl | rfl | rfl <;> lay_num hf
  · exact absurd hm (by simp)

/-- BundleAdd: bundle_id at 0 (32 bits), flags at 6 (16 bits) — whatever message and properties follow -/
theorem bundleAdd_layout (cl : MsgLenF) (cm : MsgMarF) (v : V) (bs : Bytes) (v' : V)
    (hm : BundleAdd.marshalWith cl cm v = .ok (bs, v')) : LayoutHolds "BundleAdd" v bs := by
  unfold BundleAdd.marshalWith at hm
  obtain ⟨⟨l, v1⟩, hl, h1⟩ := bind_ok_inv _ _ _ hm
  unfold BundleAdd.lenWith at hl
  split at hl
  · obtain ⟨⟨lm, m1⟩, _, hl⟩ := bind_ok_inv _ _ _ hl
    obtain ⟨⟨ls, _⟩, _, hl⟩ := bind_ok_inv _ _ _ hl
    cases hl
    simp only at h1
    split at h1
    · rename_i i0 p0 f0 m0 ps0 heq
      cases heq
      obtain ⟨_, _, h2⟩ := bind_ok_inv _ _ _ h1
      obtain ⟨⟨mb, m2⟩, _, h3⟩ := bind_ok_inv _ _ _ h2
      obtain ⟨⟨pbs, _⟩, _, h4⟩ := bind_ok_inv _ _ _ h3
      obtain ⟨out, hf, h5⟩ := bind_ok_inv _ _ _ h4
      cases h5
      intro fl hfl
      lay_rows hfl
      rcases hfl with rfl | rfl <;> lay_num hf
    · exact absurd h1 (by simp)
  · exact absurd hl (by simp)

/-- PacketOut: buffer_id at 8, in_port at 12 (32 bits each) — whatever actions and data follow -/
theorem packetOut_layout (cl : MsgLenF) (cm : MsgMarF) (v : V) (bs : Bytes) (v' : V)
    (hm : PacketOut.marshalWith cl cm v = .ok (bs, v')) : LayoutHolds "PacketOut" v bs := by
  unfold PacketOut.marshalWith at hm
  obtain ⟨⟨l0, v0⟩, hl0, h1⟩ := bind_ok_inv _ _ _ hm
  obtain ⟨⟨l1, v1⟩, hl1, h2⟩ := bind_ok_inv _ _ _ h1
  unfold PacketOut.lenWith at hl0
  split at hl0
  · obtain ⟨⟨ls, as1⟩, _, hl0⟩ := bind_ok_inv _ _ _ hl0
    obtain ⟨⟨ld, d1⟩, _, hl0⟩ := bind_ok_inv _ _ _ hl0
    cases hl0
    unfold PacketOut.lenWith at hl1
    simp only at hl1
    obtain ⟨⟨ls', as2⟩, _, hl1⟩ := bind_ok_inv _ _ _ hl1
    obtain ⟨⟨ld', d2⟩, _, hl1⟩ := bind_ok_inv _ _ _ hl1
    cases hl1
    simp only at h2
    split at h2
    · rename_i h0 b ip al pad0 as0 d0 heq
      cases heq
      obtain ⟨hb, hhb, h3⟩ := bind_ok_inv _ _ _ h2
      obtain ⟨⟨als, as3⟩, _, h3'⟩ := bind_ok_inv _ _ _ h3
      obtain ⟨⟨abs, as4⟩, _, h4⟩ := bind_ok_inv _ _ _ h3'
      obtain ⟨_, _, h5⟩ := bind_ok_inv _ _ _ h4
      obtain ⟨⟨db, d3⟩, _, h6⟩ := bind_ok_inv _ _ _ h5
      obtain ⟨out, hf, h7⟩ := bind_ok_inv _ _ _ h6
      cases h7
      have hl := Header.bytes_length _ _ hhb
      intro fl hfl
      lay_rows hfl
      rcases hfl with rfl | rfl <;> lay_num hf
    · exact absurd h2 (by simp)
  · exact absurd hl0 (by simp)

/-- OXM match field: the 4-byte header (class at 0, field<<1|hasmask at 2, length at 3 — for a 7-bit field number the
    header word class<<16 | field<<9 | hasmask<<8 | length), then, for experimenter fields (ExperimenterID ≠ 0), the
    experimenter id at 4; then the COMPLETE encoding of the value, and — exactly when HasMask is set — the complete
    encoding of the mask right after it; nothing else. -/
theorem matchField_layout (c f hm ln eid : Nat) (val mask : V) (bs : Bytes) (v' : V)
    (h : MatchField.marshalM (.obj "MatchField" [.num c, .num f, .num hm, .num ln, .num eid, val, mask]) = .ok (bs, v')) :
    let n := if eid = 0 then 4 else 8
    beAt bs 0 2 = c % 65536 ∧ beAt bs 3 1 = ln % 256 ∧
    (f % 256 < 128 → beAt bs 2 1 = f % 256 * 2 + (if hm = 0 then 0 else 1) ∧ beAt bs 0 4 = oxmWord c f hm ln) ∧
    (eid ≠ 0 → beAt bs 4 4 = eid % 2 ^ 32) ∧
    ∃ vb, MatchPayload.marshalM val = .ok (vb, val) ∧ (bs.drop n).take vb.length = vb ∧
      (hm = 0 → bs.length = n + vb.length) ∧
      (hm ≠ 0 → ∃ mb, MatchPayload.marshalM mask = .ok (mb, mask) ∧ (bs.drop (n + vb.length)).take mb.length = mb ∧
        bs.length = n + vb.length + mb.length) := by
  intro n
  have hbl := fun l v1 h1 => C06.matchField_size _ l v1 bs v' h1 h
  unfold MatchField.marshalM at h
  obtain ⟨⟨l, v1⟩, hlen, h1⟩ := bind_ok_inv _ _ _ h
  have hbl := hbl l v1 hlen
  unfold MatchField.lenM at hlen
  simp only at hlen
  obtain ⟨⟨lv, val1⟩, hlv, hlen2⟩ := bind_ok_inv _ _ _ hlen
  clear hlen
  have ev := (MatchPayload.lenM_pure _ _ _ hlv).symm
  subst ev
  have hlvle := C06.payload_len_le _ _ _ hlv
  have hn : (if eid = 0 then (4 : UInt16) else 8).toNat = n := by
    by_cases he : eid = 0 <;> simp [n, he]
  have hn8 : n ≤ 8 := by simp only [n]; split <;> omega
  have heid : piecesLen (MatchField.eidPieces (.num eid)) = n - 4 := by
    by_cases he : eid = 0 <;> simp [MatchField.eidPieces, V.asNat, n, he, piecesLen, pU32, Piece.adv]
  have hpre : ∀ tl : List Piece, piecesLen (List.take (3 + (MatchField.eidPieces (.num eid)).length)
      ([pU16 c, .put [if hm = 0 then shl8 (n8 f) 1 else shl8 (n8 f) 1 ||| 1], pU8 ln] ++ MatchField.eidPieces (.num eid) ++ tl)) = n := by
    intro tl
    by_cases he : eid = 0 <;> simp [MatchField.eidPieces, V.asNat, n, he, piecesLen, pU16, pU8, pU32, Piece.adv]
  -- facts about the header part that do not depend on the mask
  have hdr : ∀ (tl : List Piece),
      fill l.toNat ([pU16 c, .put [if hm = 0 then shl8 (n8 f) 1 else shl8 (n8 f) 1 ||| 1], pU8 ln] ++ MatchField.eidPieces (.num eid) ++ tl) = .ok bs →
      beAt bs 0 2 = c % 65536 ∧ beAt bs 3 1 = ln % 256 ∧
      (f % 256 < 128 → beAt bs 2 1 = f % 256 * 2 + (if hm = 0 then 0 else 1) ∧ beAt bs 0 4 = oxmWord c f hm ln) ∧
      (eid ≠ 0 → beAt bs 4 4 = eid % 2 ^ 32) := by
    intro tl hf
    have a0 : beAt bs 0 2 = c % 65536 := by
      rw [fill_be16_at _ _ _ hf 0 _ rfl 0 (by lay_off)]; simp [n16, UInt16.toNat_ofNat']
    have a3 : beAt bs 3 1 = ln % 256 := by
      rw [fill_u8_at _ _ _ hf 2 _ rfl 3 (by lay_off)]; simp [n8, UInt8.toNat_ofNat']
    have hfit3 : 4 ≤ bs.length := by
      have := fill_put_at _ _ _ hf 2 _ rfl 3 (by lay_off)
      have hl' : (List.take [n8 ln].length (List.drop 3 bs)).length = 1 := by rw [this]; rfl
      simp at hl'; omega
    refine ⟨a0, a3, ?_, ?_⟩
    · intro h7
      have a2 : beAt bs 2 1 = f % 256 * 2 + (if hm = 0 then 0 else 1) := by
        rw [fill_u8_at _ _ _ hf 1 _ rfl 2 (by lay_off)]
        have hb := fldByte_toNat (f % 256) h7
        have e : UInt8.ofNat (f % 256) = n8 f := by
          apply UInt8.toNat_inj.mp; simp [n8, UInt8.toNat_ofNat']
        rw [e] at hb
        split
        · rw [hb.1]; rfl
        · rw [hb.2]
      refine ⟨a2, ?_⟩
      have s1 := beAt_split bs 0 2 2 (by omega)
      have s2 := beAt_split bs 2 1 1 (by omega)
      simp only [Nat.zero_add, Nat.reduceAdd] at s1 s2
      rw [s1, s2, a0, a2, a3]
      unfold oxmWord
      split <;> omega
    · intro he
      have e : MatchField.eidPieces (.num eid) = [pU32 eid] := by simp [MatchField.eidPieces, V.asNat, he]
      rw [e] at hf
      rw [fill_be32_at _ _ _ hf 3 _ rfl 4 (by lay_off)]; simp [n32, UInt32.toNat_ofNat']
  have hadd : ∀ x : UInt16, x.toNat ≤ 255 → ((if eid = 0 then (4 : UInt16) else 8) + lv + x).toNat = n + lv.toNat + x.toNat := by
    intro x hx
    rw [UInt16.toNat_add, UInt16.toNat_add, hn]
    have : (2 : Nat) ^ 16 = 65536 := rfl
    rw [this]; omega
  have hadd0 : ((if eid = 0 then (4 : UInt16) else 8) + lv).toNat = n + lv.toNat := by
    rw [UInt16.toNat_add, hn]
    have : (2 : Nat) ^ 16 = 65536 := rfl
    rw [this]; omega
  have hk : ∀ tl : List Piece, ([pU16 c, .put [if hm = 0 then shl8 (n8 f) 1 else shl8 (n8 f) 1 ||| 1], pU8 ln] ++
      MatchField.eidPieces (.num eid) ++ tl)[3 + (MatchField.eidPieces (.num eid)).length]? = tl[0]? := by
    intro tl
    by_cases he : eid = 0 <;> simp [MatchField.eidPieces, V.asNat, he]
  by_cases hm0 : hm = 0
  · subst hm0
    simp only [↓reduceIte, Res.pure_eq, Res.ok.injEq, Prod.mk.injEq] at hlen2 hdr hk hpre
    obtain ⟨e1, e2⟩ := hlen2
    subst e1; subst e2
    simp only at h1
    obtain ⟨⟨vb, val2⟩, hvb, h2⟩ := bind_ok_inv _ _ _ h1
    clear h1
    obtain ⟨hvl, _, ev2⟩ := C06.payload_size val lv val vb val2 hlv hvb
    subst ev2
    simp only [↓reduceIte] at h2
    obtain ⟨out, hf, h3⟩ := bind_ok_inv _ _ _ h2
    clear h2
    cases h3
    have hh := hdr [pCopy vb] hf
    refine ⟨hh.1, hh.2.1, hh.2.2.1, hh.2.2.2, vb, hvb, ?_, fun _ => by omega, fun hc => absurd rfl hc⟩
    have := fill_piece_at _ _ _ hf (3 + (MatchField.eidPieces (.num eid)).length) (pCopy vb)
      (hk [pCopy vb]) n (hpre _) vb.length (Nat.le_refl _) (Nat.le_refl _) (by omega)
    simpa [pCopy, Piece.raw] using this
  · simp only [hm0, ↓reduceIte] at hlen2 hdr hk hpre
    obtain ⟨⟨lm, mask1⟩, hlm, hlen3⟩ := bind_ok_inv _ _ _ hlen2
    clear hlen2
    have em := (MatchPayload.lenM_pure _ _ _ hlm).symm
    subst em
    have hlmle := C06.payload_len_le _ _ _ hlm
    simp only [Res.pure_eq, Res.ok.injEq, Prod.mk.injEq] at hlen3
    obtain ⟨e1, e2⟩ := hlen3
    subst e1; subst e2
    simp only at h1
    obtain ⟨⟨vb, val2⟩, hvb, h2⟩ := bind_ok_inv _ _ _ h1
    clear h1
    obtain ⟨hvl, _, ev2⟩ := C06.payload_size val lv val vb val2 hlv hvb
    subst ev2
    simp only [hm0, ↓reduceIte] at h2
    obtain ⟨⟨mb, mask2⟩, hmb, h3⟩ := bind_ok_inv _ _ _ h2
    clear h2
    obtain ⟨hml, _, em2⟩ := C06.payload_size mask lm mask mb mask2 hlm hmb
    subst em2
    obtain ⟨out, hf, h4⟩ := bind_ok_inv _ _ _ h3
    clear h3
    cases h4
    have hh := hdr [pCopy vb, pCopy mb] hf
    have hall := hadd lm hlmle
    refine ⟨hh.1, hh.2.1, by simpa [hm0] using hh.2.2.1, hh.2.2.2, vb, hvb, ?_, fun hc => absurd hc hm0, fun _ => ⟨mb, hmb, ?_, by omega⟩⟩
    · have := fill_piece_at _ _ _ hf (3 + (MatchField.eidPieces (.num eid)).length) (pCopy vb)
        (hk [pCopy vb, pCopy mb]) n (hpre _) vb.length (Nat.le_refl _) (Nat.le_refl _) (by omega)
      simpa [pCopy, Piece.raw] using this
    · have hk2 : ([pU16 c, .put [shl8 (n8 f) 1 ||| 1], pU8 ln] ++
          MatchField.eidPieces (.num eid) ++ [pCopy vb, pCopy mb])[3 + (MatchField.eidPieces (.num eid)).length + 1]? = some (pCopy mb) := by
        by_cases he : eid = 0 <;> simp [MatchField.eidPieces, V.asNat, he]
      have hpre2 : piecesLen (List.take (3 + (MatchField.eidPieces (.num eid)).length + 1)
          ([pU16 c, .put [shl8 (n8 f) 1 ||| 1], pU8 ln] ++ MatchField.eidPieces (.num eid) ++ [pCopy vb, pCopy mb])) = n + vb.length := by
        by_cases he : eid = 0 <;> simp [MatchField.eidPieces, V.asNat, n, he, piecesLen, pU16, pU8, pU32, pCopy, Piece.adv] <;> omega
      have := fill_piece_at _ _ _ hf _ (pCopy mb) hk2 (n + vb.length) hpre2 mb.length (Nat.le_refl _) (Nat.le_refl _) (by omega)
      simpa [pCopy, Piece.raw] using this

/-- Match: type at 0, the stored length at 2 (16 bits each); then — when the (uint16) size covers them — the complete
    encodings of the fields IN LIST ORDER starting at offset 4, then zero padding -/
theorem match_layout (ty ln : Nat) (fs : List V) (bs : Bytes) (v' : V)
    (h : Match.marshalM (.obj "Match" [.num ty, .num ln, .list fs]) = .ok (bs, v')) :
    beAt bs 0 2 = ty % 2 ^ 16 ∧ beAt bs 2 2 = ln % 2 ^ 16 ∧
    ∃ bss fs', mapM2 MatchField.marshalM fs = .ok (bss, fs') ∧
      (4 + bss.flatten.length ≤ bs.length →
        bs = be16 (n16 ty) ++ be16 (n16 ln) ++ bss.flatten ++ zeros (bs.length - (4 + bss.flatten.length)) ∧
        InOrderAt bs 4 bss) := by
  unfold Match.marshalM at h
  obtain ⟨⟨l, v1⟩, hl, h1⟩ := bind_ok_inv _ _ _ h
  have e := Match.lenM_pure _ _ _ hl
  subst e
  simp only at h1
  obtain ⟨⟨bss, fs'⟩, hmm, h2⟩ := bind_ok_inv _ _ _ h1
  obtain ⟨out, hf, h3⟩ := bind_ok_inv _ _ _ h2
  obtain ⟨rfl, _⟩ := same_ok _ _ _ _ h3
  have hL := fill_length _ _ _ hf
  refine ⟨?_, ?_, bss, fs', hmm, ?_⟩
  · rw [fill_be16_at _ _ _ hf 0 _ rfl 0 (by lay_off)]; simp [n16, UInt16.toNat_ofNat']
  · rw [fill_be16_at _ _ _ hf 1 _ rfl 2 (by lay_off)]; simp [n16, UInt16.toNat_ofNat']
  · intro hfit
    have ht : ∀ p ∈ pU16 ty :: pU16 ln :: bss.map pCopy, p.Tight := by
      intro p hp
      simp only [List.mem_cons] at hp
      rcases hp with rfl | rfl | hp
      · trivial
      · trivial
      · exact tight_map_pCopy bss p hp
    have hpb : piecesBytes (pU16 ty :: pU16 ln :: bss.map pCopy) = be16 (n16 ty) ++ be16 (n16 ln) ++ bss.flatten := by
      have : piecesBytes (pU16 ty :: pU16 ln :: bss.map pCopy) = be16 (n16 ty) ++ (be16 (n16 ln) ++ piecesBytes (bss.map pCopy)) := by
        simp [piecesBytes, pU16, Piece.bytes]
      rw [this, piecesBytes_map_pCopy]; simp
    have hpl := piecesLen_eq_bytes _ ht
    rw [hpb] at hpl
    have hfit' : piecesLen (pU16 ty :: pU16 ln :: bss.map pCopy) ≤ l.toNat := by
      rw [hpl]; simp only [List.length_append, be16_length]; omega
    rw [fill_exact _ _ ht hfit'] at hf
    simp only [Res.ok.injEq] at hf
    have hbs : bs = be16 (n16 ty) ++ be16 (n16 ln) ++ bss.flatten ++ zeros (bs.length - (4 + bss.flatten.length)) := by
      rw [← hf, hpb, hpl]
      congr 2
      simp only [List.length_append, be16_length, zeros_length]
      omega
    exact ⟨hbs, inOrderAt_of_eq bs _ bss _ 4 hbs (by simp)⟩

/-- Bucket: the encodings of the actions, complete and IN LIST ORDER, from offset 16 -/
theorem bucket_in_order (v : V) (bs : Bytes) (v' : V) (hm : Bucket.marshalM v = .ok (bs, v')) :
    ∃ l0 w wp wg p as ls as1 bss as2, v = .obj "Bucket" [l0, .num w, .num wp, .num wg, p, .list as] ∧
      mapM2 Action.lenM as = .ok (ls, as1) ∧ mapM2 Action.marshalM as1 = .ok (bss, as2) ∧ InOrderAt bs 16 bss := by
  obtain ⟨l0, w, wp, wg, p, as, ls, as1, bss, as2, tail, rfl, hl, hm2, hbs⟩ := bucket_shape v bs v' hm
  exact ⟨l0, w, wp, wg, p, as, ls, as1, bss, as2, rfl, hl, hm2, inOrderAt_of_eq bs _ bss tail 16 hbs (by simp)⟩

/-- InstrActions (apply / write actions): 4 header bytes, 4 pad bytes, then the encodings of the actions (as Len() left
    them), complete and IN LIST ORDER, from offset 8 -/
theorem instrActions_in_order (v : V) (bs : Bytes) (v2 : V) (h2 : InstrActions.marshalM v = .ok (bs, v2)) :
    ∃ t x pad as ls as1 bss as2, v = .obj "InstrActions" [.obj "InstrHeader" [t, x], .bytes pad, .list as] ∧
      mapM2 Action.lenM as = .ok (ls, as1) ∧ mapM2 Action.marshalM as1 = .ok (bss, as2) ∧ InOrderAt bs 8 bss := by
  unfold InstrActions.marshalM at h2
  obtain ⟨⟨l, v'⟩, hl, h3⟩ := bind_ok_inv _ _ _ h2
  unfold InstrActions.lenM at hl
  split at hl
  · rename_i h p as
    obtain ⟨⟨ls, as1⟩, hm, hl'⟩ := bind_ok_inv _ _ _ hl
    cases hl'
    simp only at h3
    split at h3
    · rename_i heq
      cases heq
      obtain ⟨hb, hhb, h4⟩ := bind_ok_inv _ _ _ h3
      obtain ⟨⟨abs, as2, e⟩, hml, h5⟩ := bind_ok_inv _ _ _ h4
      obtain ⟨bss, hmm, rfl⟩ := marshalList_eq_mapM2 _ _ _ _ _ _ (fun x _ => Action.marshalM_noErr x) hml
      simp only at h5
      split at h5
      · exact absurd h5 (by simp)
      · cases h5
        have hl4 := InstrHeader.bytes_length _ _ hhb
        exact ⟨_, _, _, as, ls, as1, bss, as2, rfl, hm, hmm,
          inOrderAt_of_eq _ _ bss [] 8 (List.append_nil _).symm (by simp [hl4, makeCopy_length])⟩
    · exact absurd h3 (by simp)
  · exact absurd hl (by simp)

/-- FlowMod (commands other than the two deletes): after the 8-byte header, the 40 fixed bytes and the match, the
    encodings of the instructions, complete and IN LIST ORDER -/
theorem flowMod_instructions_in_order (v : V) (bs : Bytes) (v2 : V) (h2 : FlowMod.marshalM v = .ok (bs, v2)) :
    ∃ h ck cm tid cmd it ht pr bid op og fl pad m is mb m',
      v = .obj "FlowMod" [h, ck, cm, tid, .num cmd, it, ht, pr, bid, op, og, fl, pad, m, .list is] ∧
      Match.marshalM m = .ok (mb, m') ∧
      (¬(cmd = Gen.openflow13.FC_DELETE ∨ cmd = Gen.openflow13.FC_DELETE_STRICT) →
         ∃ ls is1 bss is2, mapM2 Instruction.lenM is = .ok (ls, is1) ∧ mapM2 Instruction.marshalM is1 = .ok (bss, is2) ∧
           InOrderAt bs (48 + mb.length) bss) := by
  unfold FlowMod.marshalM at h2
  obtain ⟨⟨l, v'⟩, hl, h3⟩ := bind_ok_inv _ _ _ h2
  unfold FlowMod.lenM at hl
  split at hl
  · rename_i h ck cm tid cmd it ht pr bid op og fl pad m is
    obtain ⟨⟨ml, m1⟩, hml, hl2⟩ := bind_ok_inv _ _ _ hl
    have em := Match.lenM_pure _ _ _ hml
    subst em
    simp only at hl2
    by_cases hd : cmd = Gen.openflow13.FC_DELETE ∨ cmd = Gen.openflow13.FC_DELETE_STRICT
    · rw [if_pos hd] at hl2
      cases hl2
      simp only at h3
      split at h3
      · rename_i heq
        cases heq
        obtain ⟨hb, hhb, h4⟩ := bind_ok_inv _ _ _ h3
        obtain ⟨⟨⟨mb, m''⟩, e0⟩, hmm, h5⟩ := bind_ok_inv _ _ _ h4
        obtain ⟨hmm', rfl⟩ := catchErr_noErr _ _ _ _ (Match.marshalM_noErr _) hmm
        exact ⟨_, _, _, _, cmd, _, _, _, _, _, _, _, _, _, is, mb, m'', rfl, hmm', fun hnd => absurd hd hnd⟩
      · exact absurd h3 (by simp)
    · rw [if_neg hd] at hl2
      obtain ⟨⟨ls, is1⟩, hm, hl3⟩ := bind_ok_inv _ _ _ hl2
      cases hl3
      simp only at h3
      split at h3
      · rename_i heq
        cases heq
        obtain ⟨hb, hhb, h4⟩ := bind_ok_inv _ _ _ h3
        obtain ⟨⟨⟨mb, m''⟩, e0⟩, hmm, h5⟩ := bind_ok_inv _ _ _ h4
        obtain ⟨hmm', rfl⟩ := catchErr_noErr _ _ _ _ (Match.marshalM_noErr _) hmm
        simp only [hd, if_false] at h5
        obtain ⟨⟨ib, is2, e⟩, hmli, h6⟩ := bind_ok_inv _ _ _ h5
        obtain ⟨bss, hmi, rfl⟩ := marshalList_eq_mapM2 _ _ _ _ _ _ (fun x _ => Instruction.marshalM_noErr x) hmli
        simp only at h6
        split at h6
        · exact absurd h6 (by simp)
        · cases h6
          have hl8 := Header.bytes_length _ _ hhb
          refine ⟨_, _, _, _, cmd, _, _, _, _, _, _, _, _, _, is, mb, m'', rfl, hmm', fun _ => ⟨ls, is1, bss, is2, hm, hmi, ?_⟩⟩
          exact inOrderAt_of_eq _ _ bss [] _ (List.append_nil _).symm (by simp [hl8]; omega)
      · exact absurd h3 (by simp)
  · exact absurd hl (by simp)

/-- FlowMod: every row of the table (cookie 8, cookie_mask 16, table_id 24, command 25, idle 26, hard 28, priority 30,
    buffer_id 32, out_port 36, out_group 40, flags 44) — the generic form of `C03.C03_flowmod_fixed` -/
theorem flowMod_layout (h : V) (ck cm tid cmd it ht pr bid op og fl : Nat) (pad m : V) (is : List V) (bs : Bytes) (v' : V)
    (hm : FlowMod.marshalM (.obj "FlowMod" [h, .num ck, .num cm, .num tid, .num cmd, .num it, .num ht, .num pr,
      .num bid, .num op, .num og, .num fl, pad, m, .list is]) = .ok (bs, v')) :
    LayoutHolds "FlowMod" (.obj "FlowMod" [h, .num ck, .num cm, .num tid, .num cmd, .num it, .num ht, .num pr,
      .num bid, .num op, .num og, .num fl, pad, m, .list is]) bs := by
  obtain ⟨h1, h2, h3, h4, h5, h6, h7, h8, h9, h10, h11⟩ := C03.C03_flowmod_fixed h ck cm tid cmd it ht pr bid op og fl pad m is bs v' hm
  intro f hf
  lay_rows hf
  rcases hf with rfl | rfl | rfl | rfl | rfl | rfl | rfl | rfl | rfl | rfl | rfl
  · show beAt bs 8 8 = ck % 2 ^ (8 * 8); rw [← lay_n64_toNat]; exact h1
  · show beAt bs 16 8 = cm % 2 ^ (8 * 8); rw [← lay_n64_toNat]; exact h2
  · show beAt bs 24 1 = tid % 2 ^ (8 * 1); rw [← lay_n8_toNat]; exact h3
  · show beAt bs 25 1 = cmd % 2 ^ (8 * 1); rw [← lay_n8_toNat]; exact h4
  · show beAt bs 26 2 = it % 2 ^ (8 * 2); rw [← lay_n16_toNat]; exact h5
  · show beAt bs 28 2 = ht % 2 ^ (8 * 2); rw [← lay_n16_toNat]; exact h6
  · show beAt bs 30 2 = pr % 2 ^ (8 * 2); rw [← lay_n16_toNat]; exact h7
  · show beAt bs 32 4 = bid % 2 ^ (8 * 4); rw [← lay_n32_toNat]; exact h8
  · show beAt bs 36 4 = op % 2 ^ (8 * 4); rw [← lay_n32_toNat]; exact h9
  · show beAt bs 40 4 = og % 2 ^ (8 * 4); rw [← lay_n32_toNat]; exact h10
  · show beAt bs 44 2 = fl % 2 ^ (8 * 2); rw [← lay_n16_toNat]; exact h11

/-- GroupMod (commands other than DELETE): the encodings of the buckets, complete and IN LIST ORDER, from offset 16 -/
theorem groupMod_buckets_in_order (v : V) (bs : Bytes) (v' : V) (hm : GroupMod.marshalM v = .ok (bs, v')) :
    ∃ h cmd t p g bks, v = .obj "GroupMod" [h, .num cmd, t, p, g, .list bks] ∧
      (cmd ≠ Gen.openflow13.OFPGC_DELETE → ∃ ls bks1 bss bks2, mapM2 Bucket.lenM bks = .ok (ls, bks1) ∧
        mapM2 Bucket.marshalCopyM bks1 = .ok (bss, bks2) ∧ InOrderAt bs 16 bss) := by
  unfold GroupMod.marshalM at hm
  obtain ⟨⟨l, v1⟩, hl, h3⟩ := bind_ok_inv _ _ _ hm
  unfold GroupMod.lenM at hl
  split at hl
  · rename_i h cmd t p g bks
    refine ⟨h, cmd, t, p, g, bks, rfl, ?_⟩
    intro hnd
    rw [if_neg hnd] at hl
    obtain ⟨⟨ls, bks1⟩, hmm, hl'⟩ := bind_ok_inv _ _ _ hl
    cases hl'
    simp only at h3
    split at h3
    · rename_i heq
      cases heq
      obtain ⟨hb, hhb, h4⟩ := bind_ok_inv _ _ _ h3
      rw [if_neg hnd] at h4
      obtain ⟨⟨bb, bks2, e⟩, hml, h5⟩ := bind_ok_inv _ _ _ h4
      obtain ⟨bss, hm2, rfl⟩ := marshalList_eq_mapM2 _ _ _ _ _ _ (fun x _ => Bucket.marshalCopyM_noErr x) hml
      simp only at h5
      split at h5
      · exact absurd h5 (by simp)
      · cases h5
        have hl8 := Header.bytes_length _ _ hhb
        refine ⟨ls, bks1, bss, bks2, hmm, hm2, ?_⟩
        exact inOrderAt_of_eq _ _ bss [] 16 (List.append_nil _).symm (by simp [hl8])
    · exact absurd h3 (by simp)
  · exact absurd hl (by simp)

/-- NXActionConnTrack: the nested actions' encodings, complete and IN LIST ORDER, from offset 24 (when the length
    Len() computed covers them, i.e. no uint16 wrap-around) -/
theorem nxConnTrack_actions_in_order (subLen : V → R (UInt16 × V)) (sub : V → R (Bytes × V)) (v : V) (bs : Bytes) (v' : V)
    (hm : NXActionConnTrack.marshalWith subLen sub v = .ok (bs, v')) :
    ∃ h a b c d e f acts ls acts1 bss acts2, v = .obj "NXActionConnTrack" [h, a, b, c, d, e, f, .list acts] ∧
      mapM2 subLen acts = .ok (ls, acts1) ∧ mapM2 sub acts1 = .ok (bss, acts2) ∧
      (24 + bss.flatten.length ≤ bs.length → InOrderAt bs 24 bss) := by
  unfold NXActionConnTrack.marshalWith at hm
  obtain ⟨⟨l, v1⟩, hlen, h1⟩ := bind_ok_inv _ _ _ hm
  unfold NXActionConnTrack.lenWith at hlen
  split at hlen
  · rename_i h a b c d e f acts
    obtain ⟨⟨hl0, h0⟩, _, hlen2⟩ := bind_ok_inv _ _ _ hlen
    obtain ⟨⟨ls, acts1⟩, hml, hlen3⟩ := bind_ok_inv _ _ _ hlen2
    obtain ⟨h1', _, hlen4⟩ := bind_ok_inv _ _ _ hlen3
    cases hlen4
    simp only at h1
    split at h1
    · rename_i heq
      cases heq
      obtain ⟨hb, hhb, h2⟩ := bind_ok_inv _ _ _ h1
      obtain ⟨buf, hf, h3⟩ := bind_ok_inv _ _ _ h2
      obtain ⟨⟨buf', acts'⟩, hacts, h4⟩ := bind_ok_inv _ _ _ h3
      cases h4
      obtain ⟨bss, hmm, hord⟩ := NXActionConnTrack.marshalActs_in_order _ _ _ _ _ _ hacts
      have e1 := NXActionConnTrack.marshalActs_length _ _ _ _ _ _ hacts
      have e1' : buf'.length = buf.length := e1
      refine ⟨h, _, _, _, _, _, _, acts, ls, acts1, bss, acts', rfl, hml, hmm, ?_⟩
      intro hfit
      have hfit' : 24 + bss.flatten.length ≤ buf'.length := hfit
      exact hord (by omega)
    · exact absurd h1 (by simp)
  · exact absurd hlen (by simp)

/-- experimenter (vendor) message: experimenter id at 8, experimenter type at 12 (32 bits each); the payload's own
    encoding (for the payload as the two Len() calls left it) starts at offset 16 — so a payload field at
    payload-relative offset `off` is at `16 + off` of the message -/
theorem vendorHeader_payload (cl : MsgLenF) (cm : MsgMarF) (v : V) (bs : Bytes) (v' : V)
    (hm : VendorHeader.marshalWith cl cm v = .ok (bs, v')) :
    ∃ h vn t d d2, v = .obj "VendorHeader" [h, .num vn, .num t, d] ∧
      beAt bs 8 4 = vn % 2 ^ 32 ∧ beAt bs 12 4 = t % 2 ^ 32 ∧
      (d2 ≠ .nil → ∃ db d3, cm d2 = .ok (db, d3) ∧ (16 + db.length ≤ bs.length →
        (bs.drop 16).take db.length = db ∧ ∀ off w, off + w ≤ db.length → beAt bs (16 + off) w = beAt db off w)) := by
  unfold VendorHeader.marshalWith at hm
  obtain ⟨⟨l1, v1⟩, hl1, h1⟩ := bind_ok_inv _ _ _ hm
  obtain ⟨⟨l2, v2⟩, hl2, h2⟩ := bind_ok_inv _ _ _ h1
  have shape : ∀ (v : V) l w, VendorHeader.lenWith cl v = .ok (l, w) →
      ∃ h vn t d d', v = .obj "VendorHeader" [h, vn, t, d] ∧ w = .obj "VendorHeader" [h, vn, t, d'] := by
    intro v l w hh
    unfold VendorHeader.lenWith at hh
    split at hh
    · cases hh; exact ⟨_, _, _, _, _, rfl, rfl⟩
    · obtain ⟨⟨l', d'⟩, _, hh2⟩ := bind_ok_inv _ _ _ hh
      cases hh2; exact ⟨_, _, _, _, _, rfl, rfl⟩
    · exact absurd hh (by simp)
  obtain ⟨h, vn0, t0, d, d1, rfl, rfl⟩ := shape _ _ _ hl1
  obtain ⟨_, _, _, _, d2, heq, rfl⟩ := shape _ _ _ hl2
  cases heq
  simp only at h2
  split at h2
  · rename_i h' vn t d2' heq
    cases heq
    obtain ⟨hb, hhb, h3⟩ := bind_ok_inv _ _ _ h2
    have hl := Header.bytes_length _ _ hhb
    refine ⟨h, vn, t, d, d2, rfl, ?_⟩
    split at h3
    · obtain ⟨out, hf, h4⟩ := bind_ok_inv _ _ _ h3
      cases h4
      refine ⟨?_, ?_, fun hc => absurd rfl hc⟩
      · rw [fill_be32_at _ _ _ hf 1 _ rfl 8 (by lay_off)]; simp [n32, UInt32.toNat_ofNat']
      · rw [fill_be32_at _ _ _ hf 2 _ rfl 12 (by lay_off)]; simp [n32, UInt32.toNat_ofNat']
    · obtain ⟨_, _, h4⟩ := bind_ok_inv _ _ _ h3
      obtain ⟨⟨db, d3⟩, hcm, h5⟩ := bind_ok_inv _ _ _ h4
      obtain ⟨out, hf, h6⟩ := bind_ok_inv _ _ _ h5
      cases h6
      have hL := fill_length _ _ _ hf
      refine ⟨?_, ?_, fun _ => ⟨db, d3, hcm, ?_⟩⟩
      · rw [fill_be32_at _ _ _ hf 1 _ rfl 8 (by lay_off)]; simp [n32, UInt32.toNat_ofNat']
      · rw [fill_be32_at _ _ _ hf 2 _ rfl 12 (by lay_off)]; simp [n32, UInt32.toNat_ofNat']
      · intro hfit
        have hw := fill_piece_at _ _ _ hf 3 (pCopy db) rfl 16 (by lay_off) db.length (Nat.le_refl _) (Nat.le_refl _) (by omega)
        have hw' : (bs.drop 16).take db.length = db := by simpa [pCopy, Piece.raw] using hw
        exact ⟨hw', fun off w hle => beAt_of_window_eq bs db 16 db.length hw' off w hle⟩
  · exact absurd h2 (by simp)

/-- TLVTableMod: after command and 6 pad bytes, the encodings of the maps, complete and IN LIST ORDER, from offset 8 -/
theorem tlvTableMod_maps_in_order (v : V) (bs : Bytes) (v' : V) (hm : TLVTableMod.marshalM v = .ok (bs, v')) :
    ∃ c p ms ls ms1 bss ms2, v = .obj "TLVTableMod" [c, p, .list ms] ∧ mapM2 TLVTableMap.lenM ms = .ok (ls, ms1) ∧
      mapM2 TLVTableMap.marshalM ms1 = .ok (bss, ms2) ∧ (8 + bss.flatten.length ≤ bs.length → InOrderAt bs 8 bss) := by
  unfold TLVTableMod.marshalM at hm
  obtain ⟨⟨l, v1⟩, hl, h1⟩ := bind_ok_inv _ _ _ hm
  unfold TLVTableMod.lenM at hl
  split at hl
  · rename_i c p ms
    obtain ⟨⟨ls, ms1⟩, hml, hl'⟩ := bind_ok_inv _ _ _ hl
    cases hl'
    simp only at h1
    split at h1
    · rename_i c0 p0 ms0 heq
      cases heq
      obtain ⟨⟨mbs, ms2⟩, hmm, h2⟩ := bind_ok_inv _ _ _ h1
      obtain ⟨out, hf, h3⟩ := bind_ok_inv _ _ _ h2
      cases h3
      have hL := fill_length _ _ _ hf
      refine ⟨_, p, ms, ls, ms1, mbs, ms2, rfl, hml, hmm, ?_⟩
      intro hfit
      have hfix : piecesLen [pU16 c0, pSkip 6] = 8 := by lay_off
      have := fill_fixed_list _ [pU16 c0, pSkip 6] mbs bs hf
        (by intro q hq; simp only [pU16, pSkip, List.mem_cons, List.mem_nil_iff, or_false] at hq; rcases hq with rfl | rfl <;> trivial)
        (by rw [hfix]; omega)
      rw [hfix] at this
      exact this.2
    · exact absurd h1 (by simp)
  · exact absurd hl (by simp)

/-- NXActionLearn: after the 32 fixed bytes, the encodings of the learn specs, complete and IN LIST ORDER -/
theorem nxLearn_specs_in_order (v : V) (bs : Bytes) (v' : V) (hm : NXActionLearn.marshalM v = .ok (bs, v')) :
    ∃ h idle hard prio cookie fl tid pad fi fh specs pad2 bss specs',
      v = .obj "NXActionLearn" [h, idle, hard, prio, cookie, fl, tid, pad, fi, fh, .list specs, pad2] ∧
      mapM2 NXLearnSpec.marshalM specs = .ok (bss, specs') ∧ (32 + bss.flatten.length ≤ bs.length → InOrderAt bs 32 bss) := by
  unfold NXActionLearn.marshalM at hm
  obtain ⟨l, hlen, h1⟩ := bind_ok_inv _ _ _ hm
  split at h1
  · rename_i h idle hard prio cookie fl tid pad fi fh specs pad2
    obtain ⟨h', _, h2⟩ := bind_ok_inv _ _ _ h1
    obtain ⟨hb, hhb, h3⟩ := bind_ok_inv _ _ _ h2
    obtain ⟨⟨sbs, specs'⟩, hmm, h4⟩ := bind_ok_inv _ _ _ h3
    obtain ⟨out, hf, h5⟩ := bind_ok_inv _ _ _ h4
    cases h5
    have hl := NXActionHeader.bytes_length _ _ hhb
    have hL := fill_length _ _ _ hf
    refine ⟨_, _, _, _, _, _, _, _, _, _, specs, _, sbs, specs', rfl, hmm, ?_⟩
    intro hfit
    have hfix : piecesLen [pCopy hb, pU16 idle, pU16 hard, pU16 prio, pU64 cookie, pU16 fl, pU8 tid, pSkip 1, pU16 fi, pU16 fh] = 32 := by
      lay_off
    have := fill_fixed_list _ _ sbs bs hf
      (by intro q hq
          simp only [pCopy, pU16, pU64, pU8, pSkip, List.mem_cons, List.mem_nil_iff, or_false] at hq
          rcases hq with rfl | rfl | rfl | rfl | rfl | rfl | rfl | rfl | rfl | rfl <;> trivial)
      (by rw [hfix]; omega)
    rw [hfix] at this
    exact this.2
  · exact absurd h1 (by simp)

/-- coverage: the kinds of the specification table, in table order — each has its `…_layout` theorem above (or, where
    a row is false in the model, its `…_layout_counterexample`); a row added to `Spec.layouts` breaks this statement -/
theorem layouts_kinds : Spec.layouts.map (·.1) =
    ["FlowMod", "GroupMod", "Bucket", "PacketOut", "PortMod", "SwitchConfig", "MultipartRequest", "FlowStatsRequest",
     "AggregateStatsRequest", "PortStatsRequest", "QueueStatsRequest", "ActionOutput", "ActionSetqueue", "ActionGroup",
     "ActionPush", "ActionPopMpls", "ActionMplsTtl", "ActionNwTtl", "NXActionResubmit", "NXActionResubmitTable",
     "NXActionRegMove", "NXActionRegLoad", "NXActionOutputReg", "NXActionConjunction", "NXActionController",
     "NXActionConnTrack", "NXActionCTNAT", "NXActionLearn", "NXActionDecTTLCntIDs", "InstrGotoTable", "InstrWriteMetadata",
     "InstrMeter", "ControllerID", "TLVTableMod", "TLVTableMap", "BundleControl", "BundleAdd"] := rfl

/-! ### through the interfaces, with the knot tied -/

/-- NXActionConnTrack.MarshalBinary() (nested actions encoded through the Action interface) -/
theorem nxConnTrack_layout' (v : V) (bs : Bytes) (v' : V) (hm : NXActionConnTrack.marshalM v = .ok (bs, v')) :
    LayoutHolds "NXActionConnTrack" v bs := nxConnTrack_layout _ _ v bs v' hm
/-- PacketOut.MarshalBinary() -/
theorem packetOut_layout' (v : V) (bs : Bytes) (v' : V) (hm : PacketOut.marshalM v = .ok (bs, v')) :
    LayoutHolds "PacketOut" v bs := packetOut_layout _ _ v bs v' hm
/-- BundleAdd.MarshalBinary() -/
theorem bundleAdd_layout' (v : V) (bs : Bytes) (v' : V) (hm : BundleAdd.marshalM v = .ok (bs, v')) :
    LayoutHolds "BundleAdd" v bs := bundleAdd_layout _ _ v bs v' hm
/-- MultipartRequest.MarshalBinary() -/
theorem multipartRequest_layout' (v : V) (bs : Bytes) (v' : V) (hm : MultipartRequest.marshalM v = .ok (bs, v')) :
    LayoutHolds "MultipartRequest" v bs := multipartRequest_layout _ _ v bs v' hm

/-- THE ACTION INTERFACE: whatever action a value holds (any kind, any field values, conntrack actions nested to any
    depth below the encoder's bound; the two TTL setters included, now that they have their own codec) — every row the
    specification table has for its kind holds for the bytes `Action.MarshalBinary()` returns -/
theorem action_layout (v : V) (bs : Bytes) (v' : V) (hm : Action.marshalM v = .ok (bs, v')) :
    LayoutHolds v.kind v bs := by
  unfold Action.marshalM at hm
  unfold Action.marshalD at hm
  split at hm
  · rename_i hct
    rw [hct]
    exact nxConnTrack_layout _ _ v bs v' hm
  · unfold Action.marshalLeaf at hm
    split at hm <;> rename_i hkind
    all_goals first
      | exact absurd hm (by simp)
      | (rw [hkind]
         first
           | exact actionOutput_layout v bs v' hm
           | exact actionSetqueue_layout v bs v' hm
           | exact actionGroup_layout v bs v' hm
           | exact actionPush_layout v bs v' hm
           | exact actionPopMpls_layout v bs v' hm
           | exact actionMplsTtl_layout v bs v' hm
           | exact actionNwTtl_layout v bs v' hm
           | exact nxConjunction_layout v bs v' hm
           | exact nxRegLoad_layout v bs v' hm
           | exact nxRegMove_layout v bs v' hm
           | exact nxResubmit_layout v bs v' hm
           | exact nxResubmitTable_layout v bs v' hm
           | exact nxCTNAT_layout v bs v' hm
           | exact nxOutputReg_layout v bs v' hm
           | exact nxDecTTLCntIDs_layout v bs v' hm
           | exact nxLearn_layout v bs v' hm
           | exact nxController_layout v bs v' hm
           | (intro fl hfl; exact absurd hfl (by simp [layoutOf, Spec.layouts, List.lookup])))

/-- THE INSTRUCTION INTERFACE: every row of the instruction's kind holds (the meter instruction included, now that it has
    its own codec) -/
theorem instruction_layout (v : V) (bs : Bytes) (v' : V) (hm : Instruction.marshalM v = .ok (bs, v')) :
    LayoutHolds v.kind v bs := by
  unfold Instruction.marshalM at hm
  split at hm <;> rename_i hkind
  · rw [hkind]; exact instrGotoTable_layout v bs v' hm
  · rw [hkind]; exact instrWriteMetadata_layout v bs v' hm
  · rw [hkind]; intro fl hfl; exact absurd hfl (by simp [layoutOf, Spec.layouts, List.lookup])
  · rw [hkind]; exact instrMeter_layout v bs v' hm
  · exact absurd hm (by simp)

/-! ### the hypotheses are satisfiable: every encoder succeeds on a value built by its constructor (or a literal value
    with byte-distinct fields), so each `K_layout` theorem speaks about real encodings -/

example : ∃ bs v', ActionOutput.marshalM (ActionOutput.new 7) = .ok (bs, v') := ⟨_, _, rfl⟩
example : ∃ bs v', ActionSetqueue.marshalM (ActionSetqueue.new 7) = .ok (bs, v') := ⟨_, _, rfl⟩
example : ∃ bs v', ActionGroup.marshalM (ActionGroup.new 7) = .ok (bs, v') := ⟨_, _, rfl⟩
example : ∃ bs v', ActionPush.marshalM (ActionPush.new Gen.openflow13.ActionType_PushVlan 0x8100) = .ok (bs, v') := ⟨_, _, rfl⟩
example : ∃ bs v', ActionPopMpls.marshalM (ActionPopMpls.new 0x0800) = .ok (bs, v') := ⟨_, _, rfl⟩
example : ActionMplsTtl.marshalM (ActionMplsTtl.new 64) = .ok ([0, 15, 0, 8, 64, 0, 0, 0], ActionMplsTtl.new 64) := rfl
example : ActionNwTtl.marshalM (ActionNwTtl.new 64) = .ok ([0, 23, 0, 8, 64, 0, 0, 0], ActionNwTtl.new 64) := rfl
example : InstrMeter.marshalM (InstrMeter.new 0x11223344) = .ok ([0, 6, 0, 8, 0x11, 0x22, 0x33, 0x44], InstrMeter.new 0x11223344) := rfl
example : ∃ bs v', Action.marshalM (ActionNwTtl.new 64) = .ok (bs, v') := ⟨_, _, rfl⟩
example : ∃ bs v', Instruction.marshalM (InstrMeter.new 7) = .ok (bs, v') := ⟨_, _, rfl⟩
example : ∃ v bs v', NXActionResubmit.new 5 = .ok v ∧ NXActionResubmit.marshalM v = .ok (bs, v') := ⟨_, _, _, rfl, rfl⟩
example : ∃ bs v', NXActionResubmitTable.marshalM (NXActionResubmitTable.new Gen.openflow13.NXAST_RESUBMIT_TABLE 5 9 0) = .ok (bs, v') :=
  ⟨_, _, rfl⟩
example : ∃ bs v', NXActionRegMove.marshalM (NXActionRegMove.new 32 0 0 (MatchField.mk 1 0 false 4 (.obj "Uint32Message" [.num 7]) .nil) (MatchField.mk 1 0 false 4 (.obj "Uint32Message" [.num 7]) .nil)) = .ok (bs, v') := ⟨_, _, rfl⟩
example : ∃ bs v', NXActionRegLoad.marshalM (NXActionRegLoad.new 31 (MatchField.mk 1 0 false 4 (.obj "Uint32Message" [.num 7]) .nil) 0x1122334455667788) = .ok (bs, v') := ⟨_, _, rfl⟩
example : ∃ bs v', NXActionOutputReg.marshalM (NXActionOutputReg.new (MatchField.mk 1 0 false 4 (.obj "Uint32Message" [.num 7]) .nil) 31 0xffff) = .ok (bs, v') := ⟨_, _, rfl⟩
example : ∃ bs v', NXActionConjunction.marshalM (NXActionConjunction.new 1 2 0x11223344) = .ok (bs, v') := ⟨_, _, rfl⟩
example : ∃ bs v', NXActionController.marshalM (NXActionController.new 7) = .ok (bs, v') := ⟨_, _, rfl⟩
example : ∃ bs v', NXActionDecTTLCntIDs.marshalM (NXActionDecTTLCntIDs.new 2 [.num 1, .num 2]) = .ok (bs, v') := ⟨_, _, rfl⟩
example : ∃ bs v', NXActionLearn.marshalM NXActionLearn.new = .ok (bs, v') := ⟨_, _, rfl⟩
example : ∃ bs v', NXActionConnTrack.marshalM NXActionConnTrack.new = .ok (bs, v') := ⟨_, _, rfl⟩
example : ∃ bs v', NXActionCTNAT.marshalM NXActionCTNAT.new = .ok (bs, v') := ⟨_, _, rfl⟩
example : ∃ bs v', InstrGotoTable.marshalM (InstrGotoTable.new 3) = .ok (bs, v') := ⟨_, _, rfl⟩
example : ∃ bs v', InstrWriteMetadata.marshalM (InstrWriteMetadata.new 0x1122334455667788 0xff) = .ok (bs, v') := ⟨_, _, rfl⟩
example : ∃ bs v', Bucket.marshalM (.obj "Bucket" [.num 0, .num 1, .num 2, .num 3, .bytes [], .list [ActionOutput.new 1]]) = .ok (bs, v') :=
  ⟨_, _, rfl⟩
example : ∃ bs v', GroupMod.marshalM (GroupMod.new 7) = .ok (bs, v') := ⟨_, _, rfl⟩
example : ∃ bs v', SwitchConfig.marshalM SwitchConfig.new = .ok (bs, v') := ⟨_, _, rfl⟩
example : ∃ bs v', PortMod.marshalM (PortMod.new 3) = .ok (bs, v') := ⟨_, _, rfl⟩
example : ∃ bs v', FlowStatsRequest.marshalM FlowStatsRequest.new = .ok (bs, v') := ⟨_, _, rfl⟩
example : ∃ bs v', AggregateStatsRequest.marshalM AggregateStatsRequest.new = .ok (bs, v') := ⟨_, _, rfl⟩
example : ∃ bs v', MultipartRequest.marshalM (.obj "MultipartRequest" [Header.zero, .num 1, .num 0, .bytes [], FlowStatsRequest.new]) = .ok (bs, v') :=
  ⟨_, _, rfl⟩
example : ∃ bs v', ControllerID.marshalM (.obj "ControllerID" [.bytes (zeros 6), .num 7]) = .ok (bs, v') := ⟨_, _, rfl⟩
example : ∃ bs v', TLVTableMap.marshalM (.obj "TLVTableMap" [.num 0xffff, .num 1, .num 4, .num 2, .bytes (zeros 2)]) = .ok (bs, v') := ⟨_, _, rfl⟩
example : ∃ bs v', TLVTableMod.marshalM (.obj "TLVTableMod" [.num 1, .bytes (zeros 6),
    .list [.obj "TLVTableMap" [.num 0xffff, .num 1, .num 4, .num 2, .bytes (zeros 2)]]]) = .ok (bs, v') := ⟨_, _, rfl⟩
example : ∃ bs v', BundleControl.marshalM (.obj "BundleControl" [.num 1, .num 2, .num 3]) = .ok (bs, v') := ⟨_, _, rfl⟩
example : ∃ bs v', BundleAdd.marshalM (.obj "BundleAdd" [.num 1, .bytes (zeros 2), .num 3, SwitchConfig.new, .list []]) = .ok (bs, v') :=
  ⟨_, _, rfl⟩
example : ∃ v bs v', PacketOut.setData PacketOut.new [1, 2, 3] = .ok v ∧ PacketOut.marshalM v = .ok (bs, v') := ⟨_, _, _, rfl, rfl⟩
example : ∃ bs v', VendorHeader.marshalM (VendorHeader.mk 0x2320 10 (.obj "ControllerID" [.bytes (zeros 6), .num 7])) = .ok (bs, v') :=
  ⟨_, _, rfl⟩
example : ∃ bs v', MatchField.marshalM (MatchField.mk 1 0 false 4 (.obj "Uint32Message" [.num 7]) .nil) = .ok (bs, v') := ⟨_, _, rfl⟩
example : ∃ bs v', Match.marshalM (.obj "Match" [.num 1, .num 12, .list [(MatchField.mk 1 0 false 4 (.obj "Uint32Message" [.num 7]) .nil)]]) = .ok (bs, v') := ⟨_, _, rfl⟩

/-- the layout theorem at work on a concrete action: port 7 at offset 4, max_len 256 at offset 8 -/
example : ∀ bs v', ActionOutput.marshalM (ActionOutput.new 7) = .ok (bs, v') → beAt bs 4 4 = 7 ∧ beAt bs 8 2 = 256 := by
  intro bs v' h
  have hl := actionOutput_layout _ bs v' h
  exact ⟨layout_inRange _ bs "Port" 4 4 7 (hl _ (by simp [layoutOf, Spec.layouts, List.lookup])) rfl (by decide),
         layout_inRange _ bs "MaxLen" 8 2 256 (hl _ (by simp [layoutOf, Spec.layouts, List.lookup])) rfl (by decide)⟩

end OFV.Props.C03b
