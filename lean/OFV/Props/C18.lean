/-
  C18 — connection-tracking state builder: for ANY sequence of set/unset calls, each flag's mask bit is set iff
  the flag was touched, its value bit is the polarity of the most recent call for that flag, untouched flags stay
  wildcarded, flags do not interfere.  Induction over the call sequence; the setter bodies are regenerated.
-/
import OFV.Model.CTStates
namespace OFV.Props.C18
open OFV OFV.Gen.openflow13 OFV.Model

def bit (w : UInt32) (i : Nat) : Bool := w.toBitVec.getLsbD i

theorem bit_or (w c : UInt32) (i : Nat) : bit (w ||| c) i = (bit w i || bit c i) := by
  simp [bit, UInt32.toBitVec_or, BitVec.getLsbD_or]

theorem bit_andnot (w c : UInt32) (i : Nat) (hi : i < 32) : bit (w &&& ~~~ c) i = (bit w i && !bit c i) := by
  simp [bit, UInt32.toBitVec_and, UInt32.toBitVec_not, hi]

/-- abstract per-flag state -/
inductive Tri | untouched | on | off deriving DecidableEq, Repr

def absStep (i : Fin 8) (t : Tri) : CTOp → Tri
  | .set j => if j = i then .on else t
  | .unset j => if j = i then .off else t

/-- what the two words say about bit `i` -/
def Rel (s : CTStates) (i : Nat) : Tri → Prop
  | .untouched => bit s.mask i = false ∧ bit s.data i = false
  | .on => bit s.mask i = true ∧ bit s.data i = true
  | .off => bit s.mask i = true ∧ bit s.data i = false

/-- the constant `c` is the single bit `j` (checked for all 32 positions) -/
def IsBit (c : UInt32) (j : Nat) : Prop := ∀ i : Fin 32, bit c i.val = decide (i.val = j)

instance (c : UInt32) (j : Nat) : Decidable (IsBit c j) := by unfold IsBit; infer_instance

theorem set_rel (c : UInt32) (j : Fin 8) (hc : IsBit c j.val) (s : CTStates) (i : Fin 8) (t : Tri) (h : Rel s i.val t) :
    Rel { s with data := s.data ||| c, mask := s.mask ||| c } i.val (absStep i t (.set j)) := by
  have hci := hc ⟨i.val, by have := i.isLt; omega⟩
  simp only at hci
  by_cases hji : j = i
  · subst hji; simp [absStep, Rel, bit_or, hci]
  · have : ¬ (i.val = j.val) := fun h => hji (Fin.ext h.symm)
    simp only [absStep, hji, if_false]
    cases t <;> simp_all [Rel, bit_or]

theorem unset_rel (c : UInt32) (j : Fin 8) (hc : IsBit c j.val) (s : CTStates) (i : Fin 8) (t : Tri) (h : Rel s i.val t) :
    Rel { s with data := s.data &&& ~~~ c, mask := s.mask ||| c } i.val (absStep i t (.unset j)) := by
  have hi : i.val < 32 := by have := i.isLt; omega
  have hci := hc ⟨i.val, hi⟩
  simp only at hci
  by_cases hji : j = i
  · subst hji; simp [absStep, Rel, bit_or, bit_andnot, hi, hci]
  · have : ¬ (i.val = j.val) := fun h => hji (Fin.ext h.symm)
    simp only [absStep, hji, if_false]
    cases t <;> simp_all [Rel, bit_or, bit_andnot]

/-- one-step lemma for each of the 16 API methods (regenerated bodies) -/
theorem step_rel (s : CTStates) (i : Fin 8) (t : Tri) (h : Rel s i.val t) (op : CTOp) :
    Rel (ctStep s op) i.val (absStep i t op) := by
  cases op with
  | set j =>
    match j with
    | 0 => exact set_rel 1 0 (by decide) s i t h
    | 1 => exact set_rel 2 1 (by decide) s i t h
    | 2 => exact set_rel 4 2 (by decide) s i t h
    | 3 => exact set_rel 8 3 (by decide) s i t h
    | 4 => exact set_rel 16 4 (by decide) s i t h
    | 5 => exact set_rel 32 5 (by decide) s i t h
    | 6 => exact set_rel 64 6 (by decide) s i t h
    | 7 => exact set_rel 128 7 (by decide) s i t h
  | unset j =>
    match j with
    | 0 => exact unset_rel 1 0 (by decide) s i t h
    | 1 => exact unset_rel 2 1 (by decide) s i t h
    | 2 => exact unset_rel 4 2 (by decide) s i t h
    | 3 => exact unset_rel 8 3 (by decide) s i t h
    | 4 => exact unset_rel 16 4 (by decide) s i t h
    | 5 => exact unset_rel 32 5 (by decide) s i t h
    | 6 => exact unset_rel 64 6 (by decide) s i t h
    | 7 => exact unset_rel 128 7 (by decide) s i t h

/-- bits 8..31 are never touched by any method -/
def High (s : CTStates) : Prop := ∀ k, 8 ≤ k → bit s.mask k = false ∧ bit s.data k = false

theorem isBit_high (c : UInt32) (j : Fin 8) (hc : IsBit c j.val) (k : Nat) (hk : 8 ≤ k) : bit c k = false := by
  by_cases h32 : k < 32
  · have := hc ⟨k, h32⟩
    simp only at this
    rw [this]; simp; have := j.isLt; omega
  · exact BitVec.getLsbD_of_ge _ _ (by omega)

theorem step_high (s : CTStates) (h : High s) (op : CTOp) : High (ctStep s op) := by
  intro k hk
  have ⟨hm, hd⟩ := h k hk
  have key : ∀ (c : UInt32) (j : Fin 8), IsBit c j.val →
      (bit (s.mask ||| c) k = false ∧ bit (s.data ||| c) k = false) ∧
      (bit (s.mask ||| c) k = false ∧ bit (s.data &&& ~~~ c) k = false) := by
    intro c j hc
    have hck := isBit_high c j hc k hk
    by_cases h32 : k < 32
    · simp [bit_or, bit_andnot, h32, hm, hd, hck]
    · have hb : ∀ w : UInt32, bit w k = false := by intro w; exact BitVec.getLsbD_of_ge _ _ (by omega)
      simp [hb]
  cases op with
  | set j =>
    match j with
    | 0 => exact (key 1 0 (by decide)).1
    | 1 => exact (key 2 1 (by decide)).1
    | 2 => exact (key 4 2 (by decide)).1
    | 3 => exact (key 8 3 (by decide)).1
    | 4 => exact (key 16 4 (by decide)).1
    | 5 => exact (key 32 5 (by decide)).1
    | 6 => exact (key 64 6 (by decide)).1
    | 7 => exact (key 128 7 (by decide)).1
  | unset j =>
    match j with
    | 0 => exact (key 1 0 (by decide)).2
    | 1 => exact (key 2 1 (by decide)).2
    | 2 => exact (key 4 2 (by decide)).2
    | 3 => exact (key 8 3 (by decide)).2
    | 4 => exact (key 16 4 (by decide)).2
    | 5 => exact (key 32 5 (by decide)).2
    | 6 => exact (key 64 6 (by decide)).2
    | 7 => exact (key 128 7 (by decide)).2

theorem run_high (ops : List CTOp) : High (ctRun ops) := by
  unfold ctRun
  suffices ∀ s, High s → High (ops.foldl ctStep s) from this _ (by intro k _; simp [bit, NewCTStates])
  induction ops with
  | nil => intro s h; simpa
  | cons op ops ih => intro s h; exact ih _ (step_high s h op)

/-- the abstract fold = "polarity of the last operation on flag i, if any" -/
def lastFor (i : Fin 8) (ops : List CTOp) : Option CTOp := (ops.filter (fun o => o.flag = i)).getLast?

def triOf (t0 : Tri) : Option CTOp → Tri
  | none => t0
  | some (.set _) => .on
  | some (.unset _) => .off

theorem abs_fold (i : Fin 8) (ops : List CTOp) (t0 : Tri) :
    ops.foldl (absStep i) t0 = triOf t0 (lastFor i ops) := by
  induction ops generalizing t0 with
  | nil => rfl
  | cons op ops ih =>
    rw [List.foldl_cons, ih]
    unfold lastFor
    by_cases hf : op.flag = i
    · have hfilt : (op :: ops).filter (fun o => o.flag = i) = op :: ops.filter (fun o => o.flag = i) := by
        simp [hf]
      rw [hfilt]
      cases hl : (ops.filter (fun o => decide (o.flag = i))).getLast? with
      | none =>
        have : ops.filter (fun o => decide (o.flag = i)) = [] := List.getLast?_eq_none_iff.mp hl
        rw [this]
        cases op <;> simp_all [triOf, absStep, CTOp.flag]
      | some o =>
        rw [List.getLast?_cons, hl]
        cases o <;> rfl
    · have hfilt : (op :: ops).filter (fun o => o.flag = i) = ops.filter (fun o => o.flag = i) := by
        simp [hf]
      rw [hfilt]
      have : absStep i t0 op = t0 := by
        cases op <;> simp_all [absStep, CTOp.flag]
      rw [this]

/-- from ANY builder state: after `ops`, flag `i` relates to the abstract fold from whatever it was before -/
theorem C18_from_any (s0 : CTStates) (i : Fin 8) (t0 : Tri) (h0 : Rel s0 i.val t0) (ops : List CTOp) :
    Rel (ops.foldl ctStep s0) i.val (triOf t0 (lastFor i ops)) := by
  rw [← abs_fold]
  induction ops generalizing s0 t0 with
  | nil => simpa
  | cons op ops ih => exact ih _ _ (step_rel s0 i t0 h0 op)

/-- C18, every call sequence of every length from a fresh builder, every flag:
    mask bit set ⇔ touched; value bit = polarity of the most recent call; untouched ⇒ wildcard; bits ≥ 8 clear -/
theorem C18_history (ops : List CTOp) (i : Fin 8) :
    let s := ctRun ops
    (bit s.mask i.val = (lastFor i ops).isSome) ∧
    (∀ op, lastFor i ops = some op → bit s.data i.val = op.isSet) ∧
    (lastFor i ops = none → bit s.data i.val = false) ∧
    (∀ k, 8 ≤ k → bit s.mask k = false ∧ bit s.data k = false) := by
  have hrel := C18_from_any NewCTStates i .untouched (by simp [Rel, bit, NewCTStates]) ops
  have hhigh : High (ctRun ops) := run_high ops
  refine ⟨?_, ?_, ?_, hhigh⟩
  · cases hl : lastFor i ops with
    | none => rw [hl] at hrel; simpa [triOf, Rel, ctRun] using hrel.1
    | some o => rw [hl] at hrel; cases o <;> simpa [triOf, Rel, ctRun] using hrel.1
  · intro op hl
    rw [hl] at hrel
    cases op <;> simpa [triOf, Rel, ctRun, CTOp.isSet] using hrel.2
  · intro hl
    rw [hl] at hrel
    simpa [triOf, Rel, ctRun] using hrel.2

/-- `lastFor` really is "touched at least once" -/
theorem lastFor_isSome (i : Fin 8) (ops : List CTOp) : (lastFor i ops).isSome = ops.any (fun o => o.flag = i) := by
  unfold lastFor
  cases h : (ops.filter (fun o => decide (o.flag = i))).getLast? with
  | none =>
    have := List.getLast?_eq_none_iff.mp h
    simp only [Option.isSome_none]
    symm
    rw [List.any_eq_false]
    intro o ho
    have : o ∉ ops.filter (fun o => decide (o.flag = i)) := by rw [this]; simp
    simpa [List.mem_filter, ho] using this
  | some o =>
    have hm := List.mem_of_getLast? h
    simp only [Option.isSome_some]
    symm
    rw [List.any_eq_true]
    exact ⟨o, (List.mem_filter.mp hm).1, (List.mem_filter.mp hm).2⟩

/-- the encoded match field: NXM_NX_CT_STATE (class 1, field 105) with mask, 8 payload bytes: value then mask -/
theorem C18_field (s : CTStates) :
    ctFieldBytes s = some ([0x00, 0x01, 0xd3, 0x08] ++ be32 s.data ++ be32 s.mask) := by
  have : FindFieldHeaderByName "NXM_NX_CT_STATE" true =
      some { Class := 1, Field := 105, HasMask := true, Length := 8 } := by decide +kernel
  simp only [ctFieldBytes, this, Option.map_some]
  have h2 : be32 (MatchField.MarshalHeader { Class := 1, Field := 105, HasMask := true, Length := 8 }) = [0x00, 0x01, 0xd3, 0x08] := by
    decide +kernel
  rw [h2]

-- non-vacuity: +new -new +trk +est -est  ⇒  mask = new|est|trk, data = trk
example : ctRun [.set 0, .unset 0, .set 5, .set 1, .unset 1] = { data := 0x20, mask := 0x23 } := by decide

end OFV.Props.C18
